/-
C35 — the reference renderer's HTML is WELL NESTED: vocabulary.

`Ev` is the token vocabulary of the HTML the reference writes (start tag with
attributes, end tag, void element `<x … />`, text); `flat` serialises a token
list; `WellNested` is the Dyck language over it (append-closed formulation);
`Ev.Safe` says that the serialisation of a token cannot be mistaken for
another one: text contains no `<`/`>`/`"`, attribute values contain no `<`/`>`/`"`,
tag and attribute names come from fixed lists.  `Frag b` = "the byte string
`b` is the serialisation of a well-nested list of safe tokens".
-/
import ElvModel.C35.RefHtml
import ElvProofs.C35.Ref
namespace C35
open Go

inductive Ev where
  | open (tag : Bytes) (attrs : List (Bytes × Bytes))
  | close (tag : Bytes)
  | void (tag : Bytes) (attrs : List (Bytes × Bytes))
  | text (s : Bytes)
  deriving Repr, DecidableEq

/-- ` name="value"` -/
def attrBytes (a : Bytes × Bytes) : Bytes := [SP] ++ a.1 ++ [0x3D, 0x22] ++ a.2 ++ [0x22]

def attrsBytes (as : List (Bytes × Bytes)) : Bytes := as.flatMap attrBytes

def Ev.bytes : Ev → Bytes
  | .open t a => [0x3C] ++ t ++ attrsBytes a ++ [0x3E]
  | .close t => [0x3C, 0x2F] ++ t ++ [0x3E]
  | .void t a => [0x3C] ++ t ++ attrsBytes a ++ [0x20, 0x2F, 0x3E]
  | .text s => s

def flat (evs : List Ev) : Bytes := evs.flatMap Ev.bytes

/-- the Dyck language over `Ev` -/
inductive WellNested : List Ev → Prop where
  | nil : WellNested []
  | text (s : Bytes) : WellNested [.text s]
  | void (t : Bytes) (a : List (Bytes × Bytes)) : WellNested [.void t a]
  | wrap (t : Bytes) (a : List (Bytes × Bytes)) {w : List Ev} :
      WellNested w → WellNested (.open t a :: w ++ [.close t])
  | append {w1 w2 : List Ev} : WellNested w1 → WellNested w2 → WellNested (w1 ++ w2)

/-- executable stack checker (the Go oracle `malformedHTML` in
harness/c35/c35.go is this automaton run on the bytes) -/
def balanced : List Bytes → List Ev → Bool
  | st, [] => st.isEmpty
  | st, .open t _ :: w => balanced (t :: st) w
  | t' :: st, .close t :: w => t == t' && balanced st w
  | [], .close _ :: _ => false
  | st, .void _ _ :: w => balanced st w
  | st, .text _ :: w => balanced st w

theorem balanced_append_of_wellNested {w : List Ev} (h : WellNested w) :
    ∀ st rest, balanced st (w ++ rest) = balanced st rest := by
  induction h with
  | nil => intro st rest; rfl
  | text s => intro st rest; rfl
  | void t a => intro st rest; rfl
  | wrap t a _ ih =>
    intro st rest
    simp only [List.cons_append, List.append_assoc, balanced, ih, List.nil_append, beq_self_eq_true,
      Bool.true_and]
  | append _ _ ih1 ih2 => intro st rest; rw [List.append_assoc, ih1, ih2]

/-- every well-nested token list is accepted by the stack checker -/
theorem balanced_of_wellNested {w : List Ev} (h : WellNested w) : balanced [] w = true := by
  have := balanced_append_of_wellNested h [] []
  simpa [balanced] using this

/-! ### Safety of tokens -/

def tagNames : List Bytes :=
  [bs "p", bs "h1", bs "h2", bs "h3", bs "h4", bs "h5", bs "h6", bs "pre", bs "code",
   bs "blockquote", bs "ul", bs "ol", bs "li", bs "em", bs "strong", bs "a"]

def voidNames : List Bytes := [bs "img", bs "hr", bs "br"]

def attrNames : List Bytes := [bs "href", bs "title", bs "src", bs "alt", bs "start", bs "class"]

/-- no `<`, no `>`, no `"` (the reference writes them as entities) -/
def TextSafe (s : Bytes) : Prop := ∀ b ∈ s, b ≠ 0x3C ∧ b ≠ 0x3E ∧ b ≠ 0x22

/-- no `<`, no `>`, no `"` -/
def ValSafe (s : Bytes) : Prop := ∀ b ∈ s, b ≠ 0x3C ∧ b ≠ 0x3E ∧ b ≠ 0x22

def AttrsSafe (as : List (Bytes × Bytes)) : Prop := ∀ a ∈ as, a.1 ∈ attrNames ∧ ValSafe a.2

def Ev.Safe : Ev → Prop
  | .open t a => t ∈ tagNames ∧ AttrsSafe a
  | .close t => t ∈ tagNames
  | .void t a => t ∈ voidNames ∧ AttrsSafe a
  | .text s => TextSafe s

instance (s : Bytes) : Decidable (TextSafe s) := by unfold TextSafe; infer_instance
instance (s : Bytes) : Decidable (ValSafe s) := by unfold ValSafe; infer_instance
instance (as : List (Bytes × Bytes)) : Decidable (AttrsSafe as) := by unfold AttrsSafe; infer_instance
instance (e : Ev) : Decidable e.Safe := by cases e <;> (unfold Ev.Safe; infer_instance)

theorem ValSafe.textSafe {s : Bytes} (h : ValSafe s) : TextSafe s := h

theorem ValSafe.append {s t : Bytes} (hs : ValSafe s) (ht : ValSafe t) : ValSafe (s ++ t) := by
  intro b hb
  rcases List.mem_append.mp hb with h | h
  · exact hs b h
  · exact ht b h

theorem TextSafe.append {s t : Bytes} (hs : TextSafe s) (ht : TextSafe t) : TextSafe (s ++ t) := by
  intro b hb
  rcases List.mem_append.mp hb with h | h
  · exact hs b h
  · exact ht b h

theorem AttrsSafe.nil : AttrsSafe [] := by intro a ha; cases ha

theorem AttrsSafe.append {x y : List (Bytes × Bytes)} (hx : AttrsSafe x) (hy : AttrsSafe y) :
    AttrsSafe (x ++ y) := by
  intro a ha
  rcases List.mem_append.mp ha with h | h
  · exact hx a h
  · exact hy a h

theorem AttrsSafe.single {n v : Bytes} (hn : n ∈ attrNames) (hv : ValSafe v) : AttrsSafe [(n, v)] := by
  intro a ha
  simp only [List.mem_singleton] at ha
  subst ha; exact ⟨hn, hv⟩

/-! ### Fragments -/

/-- `b` is the serialisation of a well-nested list of safe tokens -/
def Frag (b : Bytes) : Prop := ∃ d : List Ev, flat d = b ∧ WellNested d ∧ ∀ e ∈ d, e.Safe

theorem flat_append (x y : List Ev) : flat (x ++ y) = flat x ++ flat y := by
  simp [flat]

theorem Frag.nil : Frag [] := ⟨[], rfl, .nil, by intro e he; cases he⟩

theorem Frag.append {x y : Bytes} (hx : Frag x) (hy : Frag y) : Frag (x ++ y) := by
  obtain ⟨dx, ex, wx, sx⟩ := hx
  obtain ⟨dy, ey, wy, sy⟩ := hy
  refine ⟨dx ++ dy, by rw [flat_append, ex, ey], .append wx wy, ?_⟩
  intro e he
  rcases List.mem_append.mp he with h | h
  · exact sx e h
  · exact sy e h

theorem Frag.text {s : Bytes} (h : TextSafe s) : Frag s :=
  ⟨[.text s], by simp [flat, Ev.bytes], .text s, by
    intro e he; simp only [List.mem_singleton] at he; subst he; exact h⟩

theorem Frag.void {t : Bytes} {a : List (Bytes × Bytes)} (ht : t ∈ voidNames) (ha : AttrsSafe a) :
    Frag (Ev.bytes (.void t a)) :=
  ⟨[.void t a], by simp [flat], .void t a, by
    intro e he; simp only [List.mem_singleton] at he; subst he; exact ⟨ht, ha⟩⟩

theorem Frag.wrap {t : Bytes} {a : List (Bytes × Bytes)} {b : Bytes} (ht : t ∈ tagNames)
    (ha : AttrsSafe a) (hb : Frag b) : Frag (Ev.bytes (.open t a) ++ b ++ Ev.bytes (.close t)) := by
  obtain ⟨d, e, w, s⟩ := hb
  refine ⟨.open t a :: d ++ [.close t], ?_, .wrap t a w, ?_⟩
  · subst e; simp [flat]
  · intro e he
    simp only [List.cons_append, List.mem_cons, List.mem_append, List.not_mem_nil, or_false] at he
    rcases he with h | h | h
    · subst h; exact ⟨ht, ha⟩
    · exact s e h
    · subst h; exact ht

/-- the form used most: literal start and end tags -/
theorem Frag.wrapLit {t : Bytes} {a : List (Bytes × Bytes)} {o c b : Bytes} (ht : t ∈ tagNames)
    (ha : AttrsSafe a) (ho : o = Ev.bytes (.open t a)) (hc : c = Ev.bytes (.close t)) (hb : Frag b) :
    Frag (o ++ b ++ c) := by
  subst ho; subst hc; exact Frag.wrap ht ha hb

theorem nl_frag : Frag [NL] := Frag.text (by decide)

end C35
