/-
C34 — width handling fits text to the requested number of columns.
Property theorems only; helper lemmas are in ElvProofs/C34/*.lean.
-/
import ElvModel.C34.Model
import ElvModel.C34.Buffer
import ElvProofs.C34.Utf8
import ElvProofs.C34.Wcwidth
import ElvProofs.C34.Trim
import ElvProofs.C34.Buffer
import ElvProofs.C34.TextView
import ElvProofs.C34.Horizontal
import ElvProofs.C34.TrimLines
open Go C34 C34.Utf8

/-! ## the width table -/

/-- No row of the generated `combiningRanges` table is lost when it is read as pairs. -/
theorem C34_table_wellformed : combining.length = Gen.C34Wcwidth.combiningRanges.length :=
  table_wellformed

/-- The generated table is sorted: every range is non-empty and ends before the next starts. -/
theorem C34_table_sorted : SortedRanges combining := combining_sorted

/-- `inRange` (Go's `sort.Search` binary search) over the generated table is
membership in one of its ranges. -/
theorem C34_inRange_is_membership (r : Int) :
    inRange r combining = combining.any (fun p => decide (p.1 ≤ r) && decide (r ≤ p.2)) :=
  inRange_combining r

example : inRange 0x301 combining = true := by rw [C34_inRange_is_membership]; decide
example : inRange 0x41 combining = false := by rw [C34_inRange_is_membership]; decide

/-- Rune widths are never negative, whatever sequence of `Override` calls was made. -/
theorem C34_ofRune_nonneg (ops : List (Int × Int)) (r : Int) :
    0 ≤ OfRune (ops.foldl (fun o p => override o p.1 p.2) []) r := by
  apply OfRune_nonneg
  suffices h : ∀ o, OvrNonneg o → OvrNonneg (ops.foldl (fun o p => override o p.1 p.2) o) from
    h [] (by intro p hp; simp at hp)
  induction ops with
  | nil => intro o h; exact h
  | cons p ops ih => intro o h; exact ih _ (override_nonneg o p.1 p.2 h)

/-- Without overrides a rune is 0, 1 or 2 columns wide and printable ASCII is 1 column. -/
theorem C34_ofRune_range (r : Int) :
    0 ≤ OfRune [] r ∧ OfRune [] r ≤ 2 ∧ (0x20 ≤ r → r < 0x7f → OfRune [] r = 1) :=
  ⟨OfRune_nonneg [] (by intro p hp; simp at hp) r, OfRune_le_two r, OfRune_ascii r⟩

/-! ## Trim -/

/-- `s[:i]` in `Trim` cannot panic: the cut offset is the offset of a rune of `s`. -/
theorem C34_trim_slice_in_bounds (wd : Int → Int) (s : Bytes) (wmax : Int) (i : Nat)
    (h : trimIdx wd (runes s) 0 wmax = some i) (hw : 0 ≤ wmax) :
    slice s 0 i = .ok (s.take i) := by
  obtain ⟨pre, x, post, hL, hi, _, _⟩ := trimIdx_some wd (runes s) 0 wmax i hw h
  have := runes_bounds s x (by rw [hL]; simp)
  unfold slice
  have hle : (i : Int) ≤ s.length := by omega
  simp [hle]

/-- `Trim s w` is a prefix of `s` cut on a rune boundary: it is all of `s` or
`s` up to the offset of one of its runes. -/
theorem C34_trim_boundary_prefix (wd : Int → Int) (s : Bytes) (wmax : Int) :
    Trim wd s wmax = s ∨ ∃ x ∈ runes s, Trim wd s wmax = s.take x.1 := by
  unfold Trim
  cases h : trimIdx wd (runes s) 0 wmax with
  | none => left; rfl
  | some i =>
    right
    have : ∀ (L : List (Nat × Rune × Nat)) (w : Int), trimIdx wd L w wmax = some i → ∃ x ∈ L, i = x.1 := by
      intro L
      induction L with
      | nil => intro w h; simp [trimIdx] at h
      | cons y L ih =>
        intro w h
        obtain ⟨j, r, n⟩ := y
        simp only [trimIdx] at h
        split at h
        · simp only [Option.some.injEq] at h; exact ⟨(j, r, n), List.mem_cons_self, h.symm⟩
        · obtain ⟨x, hx, hi⟩ := ih _ h; exact ⟨x, List.mem_cons_of_mem _ hx, hi⟩
    obtain ⟨x, hx, hi⟩ := this _ _ h
    exact ⟨x, hx, by rw [hi]⟩

/-- The result of `Trim` is at most `wmax` columns wide (`wmax ≥ 0`). -/
theorem C34_trim_width_le (wd : Int → Int) (s : Bytes) (wmax : Int) (hw : 0 ≤ wmax) :
    Of wd (Trim wd s wmax) ≤ wmax := by
  rcases Trim_cases wd s wmax hw with ⟨h1, h2⟩ | ⟨pre, x, post, _, h1, h2, h3, _⟩
  · rw [h1]; exact h2
  · rw [h1, Of_eq_sumW, h2]; exact h3

/-- Maximality: either nothing was cut, or the very next rune would exceed `wmax`. -/
theorem C34_trim_maximal (wd : Int → Int) (s : Bytes) (wmax : Int) (hw : 0 ≤ wmax) :
    Trim wd s wmax = s ∨
    ∃ x ∈ runes s, Trim wd s wmax = s.take x.1 ∧ Of wd (Trim wd s wmax) + wd (x.2.1 : Int) > wmax := by
  rcases Trim_cases wd s wmax hw with ⟨h1, _⟩ | ⟨pre, x, post, hL, h1, h2, _, h4⟩
  · left; exact h1
  · right
    refine ⟨x, by rw [hL]; simp, h1, ?_⟩
    rw [h1, Of_eq_sumW, h2]; exact h4

/-- Longest: when rune widths are non-negative, every longer prefix of `s` that
ends on a rune boundary (and `s` itself) is wider than `wmax`. -/
theorem C34_trim_longest (wd : Int → Int) (hwd : ∀ r, 0 ≤ wd r) (s : Bytes) (wmax : Int) (hw : 0 ≤ wmax)
    (hcut : Trim wd s wmax ≠ s) :
    Of wd s > wmax ∧
    ∀ pre' y post', runes s = pre' ++ y :: post' → (Trim wd s wmax).length < y.1 →
      Of wd (s.take y.1) > wmax := by
  rcases Trim_cases wd s wmax hw with ⟨h1, _⟩ | ⟨pre, x, post, hL, h1, h2, h3, h4⟩
  · exact absurd h1 hcut
  · constructor
    · rw [Of_eq_sumW, hL, sumW_append, sumW_cons]
      have := sumW_nonneg wd hwd post
      omega
    · intro pre' y post' hL' hlen
      have hb := runes_bounds s x (by rw [hL]; simp)
      rw [h1, List.length_take, Nat.min_eq_left (by omega)] at hlen
      rw [Of_eq_sumW, runes_take s pre' y post' hL']
      -- `pre'` extends `pre ++ [x]`: offsets grow along `runes s`
      have hpre : runes (s.take x.1) = pre := h2
      have hpre' : runes (s.take y.1) = pre' := runes_take s pre' y post' hL'
      have key : ∃ mid, pre' = pre ++ x :: mid := by
        rw [hL] at hL'
        rcases List.append_eq_append_iff.1 hL' with ⟨a, ha, hb'⟩ | ⟨c, hc, hd⟩
        · -- pre' = pre ++ a, x :: post = a ++ y :: post'
          cases a with
          | nil =>
            simp only [List.nil_append, List.cons.injEq] at hb'
            rw [hb'.1] at hlen; omega
          | cons a0 a =>
            simp only [List.cons_append, List.cons.injEq] at hb'
            exact ⟨a, by rw [ha, hb'.1]⟩
        · -- pre = pre' ++ c, y :: post' = c ++ x :: post : then y is at or before x
          exfalso
          cases c with
          | nil =>
            simp only [List.nil_append, List.cons.injEq] at hd
            rw [hd.1] at hlen; omega
          | cons c0 c =>
            simp only [List.cons_append, List.cons.injEq] at hd
            -- y = c0 is an element of pre = runes (s.take x.1): its offset is < x.1
            have hy : y ∈ runes (s.take x.1) := by rw [hpre, hc, hd.1]; simp
            have := runes_bounds (s.take x.1) y hy
            rw [List.length_take] at this
            omega
      obtain ⟨mid, hmid⟩ := key
      rw [hmid, sumW_append, sumW_cons]
      have := sumW_nonneg wd hwd mid
      omega

/-- For a negative width `Trim` returns the empty string. -/
theorem C34_trim_negative (wd : Int → Int) (hwd : ∀ r, 0 ≤ wd r) (s : Bytes) (wmax : Int) (hw : wmax < 0) :
    Trim wd s wmax = [] := Trim_neg wd hwd s wmax hw

-- non-vacuity: a concrete cut in the middle of a string with a wide rune
/-- an example width function: U+4E16 (世) is two columns, everything else one -/
def exWd : Int → Int := fun r => if r = 0x4e16 then 2 else 1
/-- "a世b" -/
def exStr : Bytes := [0x61, 0xe4, 0xb8, 0x96, 0x62]
example : Trim exWd exStr 2 = [0x61] := by decide
example : Trim exWd exStr 2 ≠ exStr ∧ (0 : Int) ≤ 2 ∧ ∀ r, 0 ≤ exWd r :=
  ⟨by decide, by decide, fun r => by unfold exWd; split <;> omega⟩

/-! ## Force -/

/-- `Force s w` has exactly width `w` for `w ≥ 0` (a space is one column wide),
and the `strings.Repeat` count is never negative, so it does not panic. -/
theorem C34_force_width (wd : Int → Int) (hsp : wd 0x20 = 1) (s : Bytes) (width : Int) (hw : 0 ≤ width) :
    ∃ r, Force wd s width = .ok r ∧ Of wd r = width := by
  unfold Force
  cases h : forceIdx wd (runes s) 0 width with
  | mk oi w =>
    cases oi with
    | none =>
      obtain ⟨h1, h2⟩ := forceIdx_none wd (runes s) 0 width w hw h
      simp only [repeatSpace]
      rw [if_neg (by omega)]
      refine ⟨_, rfl, ?_⟩
      rw [Of_append_spaces, hsp, Of_eq_sumW]
      have : (((width - w).toNat : Nat) : Int) = width - w := Int.toNat_of_nonneg (by omega)
      rw [this]; omega
    | some i =>
      obtain ⟨pre, x, post, hL, hi, h1, h2, _⟩ := forceIdx_some wd (runes s) 0 width w i hw h
      simp only [repeatSpace]
      rw [if_neg (by omega)]
      refine ⟨_, rfl, ?_⟩
      rw [Of_append_spaces, hsp, Of_eq_sumW, hi, runes_take s pre x post hL]
      have : (((width - w).toNat : Nat) : Int) = width - w := Int.toNat_of_nonneg (by omega)
      rw [this]; omega

/-- For a negative width `Force` panics (`strings.Repeat` with a negative count)
when rune widths are non-negative.  No code in the repository calls `Force`. -/
theorem C34_force_negative_panics (wd : Int → Int) (hwd : ∀ r, 0 ≤ wd r) (s : Bytes) (width : Int) (hw : width < 0) :
    ∃ why, Force wd s width = .panic why := by
  have key : ∀ (L : List (Nat × Rune × Nat)) (w : Int), 0 ≤ w → 0 ≤ (forceIdx wd L w width).2 := by
    intro L
    induction L with
    | nil => intro w h; simpa [forceIdx] using h
    | cons y L ih =>
      intro w h
      obtain ⟨j, r, n⟩ := y
      simp only [forceIdx]
      have := hwd (r : Int)
      split
      · simp only; omega
      · exact ih _ (by omega)
  unfold Force
  have := key (runes s) 0 (Int.le_refl _)
  cases h : forceIdx wd (runes s) 0 width with
  | mk oi w =>
    rw [h] at this
    simp only [repeatSpace]
    rw [if_pos (by simp only at this; omega)]
    exact ⟨_, rfl⟩

example : Force exWd exStr 2 = .ok [0x61, 0x20] ∧ exWd 0x20 = 1 := by decide

/-! ## TrimEachLine -/

/-- `TrimEachLine(s, w)` trims line by line: splitting the result at newlines gives
exactly the `Trim`s of the lines of `s` (same number of lines, no line merged or
split), and for `w ≥ 0` every line of the result is at most `w` columns wide. -/
theorem C34_trimEachLine_fits (wd : Int → Int) (s : Bytes) (w : Int) :
    splitNL (TrimEachLine wd s w) = (splitNL s).map (fun l => Trim wd l w) ∧
    (0 ≤ w → ∀ l ∈ splitNL (TrimEachLine wd s w), Of wd l ≤ w) := by
  refine ⟨trimEachLine_lines wd s w, fun hw l hl => ?_⟩
  rw [trimEachLine_lines] at hl
  obtain ⟨l0, _, rfl⟩ := List.mem_map.1 hl
  exact C34_trim_width_le wd l0 w hw

-- non-vacuity: "a世b\nab" at width 2 gives the lines "a" and "ab"
example : splitNL (TrimEachLine exWd (exStr ++ [10, 0x61, 0x62]) 2) = [[0x61], [0x61, 0x62]] := by decide

/-! ## term.BufferBuilder and the widgets

`WdOK wd`: rune widths are in 0..2 and printable ASCII is one column wide; this
holds for `OfRune []`, i.e. when no width overrides are installed. -/

theorem C34_wdOK_no_overrides : WdOK (OfRune []) :=
  ⟨fun r => (C34_ofRune_range r).1, fun r => (C34_ofRune_range r).2.1, fun r => (C34_ofRune_range r).2.2⟩

/-- The wrapping invariant of `BufferBuilder` (width ≥ 2, indent + 2 ≤ width):
every finished line and the current line fit in the width.  It holds initially
and is preserved by `WriteRuneSGR` (any rune `range` can produce), `Newline`,
`WriteStringSGR` and `WriteStyled` — a two-column cell never straddles the edge. -/
theorem C34_bufferbuilder_invariant (wd : Int → Int) (ok : WdOK wd) :
    (∀ W, 2 ≤ W → ∃ b, newBB W = .ok b ∧ Inv wd b ∧ b.width = W) ∧
    (∀ b, Inv wd b → Inv wd (b.newline wd)) ∧
    (∀ b r, Inv wd b → validRune r = true → Inv wd (b.writeRune wd r)) ∧
    (∀ b s, Inv wd b → Inv wd (b.writeString wd s)) ∧
    (∀ b segs, Inv wd b → Inv wd (b.writeSegs wd segs)) ∧
    (∀ b k, Inv wd b → k + 2 ≤ b.width → Inv wd { b with indent := k }) :=
  ⟨fun W hW => Inv.new wd W hW,
   fun _ h => (h.newline ok).1,
   fun _ r h hr => (h.writeRune ok r hr).1,
   fun _ s h => (h.writeString ok s).1,
   fun _ segs h => (h.writeSegs ok segs).1,
   fun _ _ h hk => ⟨h.wpos, hk, h.col, h.curfit, h.colnn, h.prevfit, h.dotlo, h.dothi⟩⟩

/-- Under the invariant every line of the built buffer is at most `width` columns wide. -/
theorem C34_bufferbuilder_lines_fit (wd : Int → Int) (b : BB) (h : Inv wd b) :
    ∀ l ∈ b.buffer.lines, lineWidth wd l ≤ b.width := h.lines_fit

example : ∃ b, newBB 2 = .ok b ∧ Inv exWd ((b.writeString exWd exStr)) := by
  have ok : WdOK exWd := ⟨fun r => by unfold exWd; split <;> omega, fun r => by unfold exWd; split <;> omega,
    fun r h1 h2 => by unfold exWd; rw [if_neg (by omega)]⟩
  obtain ⟨b, hb, hi, _⟩ := Inv.new exWd 2 (by omega)
  exact ⟨b, hb, (hi.writeString ok exStr).1⟩

/-- `Label.Render(W, H)` for `W ≥ 2`, `H ≥ 0`: no panic, at most `H` lines, each at most `W` wide. -/
theorem C34_label_fits (wd : Int → Int) (ok : WdOK wd) (content : List Bytes) (W H : Int)
    (hW : 2 ≤ W) (hH : 0 ≤ H) :
    ∃ buf, labelRender wd content W H = .ok buf ∧ (buf.lines.length : Int) ≤ H ∧
      ∀ l ∈ buf.lines, lineWidth wd l ≤ W := by
  obtain ⟨b, hb, hi, hw⟩ := Inv.new wd W hW
  obtain ⟨hi', hw', _, _⟩ := hi.writeSegs ok content
  obtain ⟨b', hb', _, hlen, hmem⟩ := trimToLines_ok (b.writeSegs wd content).buffer 0 H (Int.le_refl _)
    (Or.inl hH) (by omega) hH
  refine ⟨b', ?_, by omega, ?_⟩
  · unfold labelRender; simp only [bind, Res.bind, hb]; exact hb'
  · intro l hl
    have := hi'.lines_fit l (hmem l hl)
    rw [hw', hw] at this; exact this

example : (match labelRender exWd [exStr] 2 1 with | .ok b => b.lines | _ => []) = [[[0x61]]] := by decide

/-- `CodeArea.Render(W, H)` (prompt, code with the dot, right prompt, tips; eager
wrapping and the prompt indent included) for `W ≥ 2`, `H ≥ 0`: no panic, at
most `H` lines, each at most `W` wide. -/
theorem C34_codearea_fits (wd : Int → Int) (ok : WdOK wd) (prompt before after rprompt : List Bytes)
    (tips : List (List Bytes)) (W H : Int) (hW : 2 ≤ W) (hH : 0 ≤ H) :
    ∃ buf, codeAreaRender wd prompt before after rprompt tips W H = .ok buf ∧
      (buf.lines.length : Int) ≤ H ∧ ∀ l ∈ buf.lines, lineWidth wd l ≤ W := by
  obtain ⟨b0, hb0, hi0, hw0⟩ := Inv.new wd W hW
  have hview : ∃ bb, renderView wd prompt before after rprompt tips b0 = .ok bb ∧ Inv wd bb ∧ bb.width = W := by
    obtain ⟨bb, h1, h2, h3⟩ := renderView_inv ok prompt before after rprompt tips hi0
    exact ⟨bb, h1, h2, by rw [h3, hw0]⟩
  obtain ⟨bb, hbb, hi, hw⟩ := hview
  have hfit := hi.lines_fit
  have hlen := bb.lines_length
  have hd0 := hi.dotlo
  have hd1 := hi.dothi
  unfold codeAreaRender
  simp only [bind, Res.bind, hb0, hbb]
  unfold truncateToHeight
  have hbl : bb.buffer.lines = bb.lines := rfl
  have hbd : bb.buffer.dot = bb.dot := rfl
  by_cases h1 : (bb.buffer.lines.length : Int) ≤ H
  · rw [if_pos h1]
    exact ⟨_, rfl, h1, fun l hl => by have := hfit l hl; rw [hw] at this; exact this⟩
  · rw [if_neg h1]
    by_cases h2 : bb.buffer.dot.1 < H
    · rw [if_pos h2]
      obtain ⟨b', hb', _, hl', hm'⟩ := trimToLines_ok bb.buffer 0 H (Int.le_refl _) (Or.inl hH) (by omega) hH
      exact ⟨b', hb', by omega, fun l hl => by have := hfit l (hm' l hl); rw [hw] at this; exact this⟩
    · rw [if_neg h2]
      rw [hbd] at h2
      rw [hbl, hlen] at h1
      obtain ⟨b', hb', _, hl', hm'⟩ := trimToLines_ok bb.buffer (bb.buffer.dot.1 - H + 1) (bb.buffer.dot.1 + 1)
        (by rw [hbd]; omega) (Or.inl (by omega)) (by rw [hbd, hbl, hlen]; omega) (by omega)
      exact ⟨b', hb', by omega, fun l hl => by have := hfit l (hm' l hl); rw [hw] at this; exact this⟩

/-! ## TextView and ListBox

The full statements for the two remaining widgets are FALSE for the code as it
is (findings `textview-control-char`, `listbox-control-char`): a C0 control
character or DEL counts 0 columns in `wcwidth.Trim`/`TrimWcwidth` but is written
as `^X` (2 columns), so a trimmed line can still wrap (`C34_counterexample`).
Round 2: the bound is PROVED for exactly the complement of that class —
`C34_textview_fits_partial`, `C34_listbox_fits_partial` (hypothesis: no byte
`< 0x20` or `= 0x7f` in the lines/items; items of the vertical list box may
contain newlines, which separate the lines of a multi-line item).  The proofs
cover the window arithmetic of `getVerticalWindow`/`getHorizontalWindow`, the
cropping, `croppedLines`, the scrollbars and `ExtendRight`/`ExtendDown`, and
show that no slice/index/division/`strings.Repeat` can panic and that the model's
loop fuel is never exhausted. -/

/-- `TextView.Render(W, H)` for `W ≥ 2`, `H ≥ 1`, `First ≥ 0`: at most `H` lines, each at most `W` wide. -/
def C34_full_textview : Prop :=
  ∀ (wd : Int → Int), WdOK wd → ∀ (sc : Bool) (lines : List Bytes) (first W H : Int),
    2 ≤ W → 1 ≤ H → 0 ≤ first →
    ∃ buf, textViewRender wd sc lines first W H = .ok buf ∧ (buf.lines.length : Int) ≤ H ∧
      ∀ l ∈ buf.lines, lineWidth wd l ≤ W

/-- `ListBox.Render(W, H)` for `W ≥ 2`, `H ≥ 1`, padding 0 or 1, `First ≥ 0`,
selection in range: at most `H` lines, each at most `W` wide. -/
def C34_full_listbox : Prop :=
  ∀ (wd : Int → Int), WdOK wd → ∀ (horizontal ext : Bool) (ph : List Bytes) (items : List (List Bytes))
    (sel first pad W H : Int),
    2 ≤ W → 1 ≤ H → 0 ≤ first → 0 ≤ pad → pad ≤ 1 → (items ≠ [] → 0 ≤ sel ∧ sel < items.length) →
    ∃ buf, listBoxRender wd horizontal ph items sel first pad ext W H = .ok buf ∧
      (buf.lines.length : Int) ≤ H ∧ ∀ l ∈ buf.lines, lineWidth wd l ≤ W

theorem C34_exWd_ok : WdOK exWd :=
  ⟨fun r => by unfold exWd; split <;> omega, fun r => by unfold exWd; split <;> omega,
    fun r h1 h2 => by unfold exWd; rw [if_neg (by omega)]⟩

/-- Witness (harness/corpus/C34.txt): one line of three tabs at 4×1 is written
as `^I^I` / `^I`, two lines for height 1. -/
theorem C34_counterexample : ¬ C34_full_textview := by
  intro h
  obtain ⟨buf, hb, hl, _⟩ := h exWd C34_exWd_ok false [[9, 9, 9]] 0 4 1 (by omega) (by omega) (by omega)
  have e : (match textViewRender exWd false [[9, 9, 9]] 0 4 1 with
      | .ok b => b.lines.length
      | _ => 0) = 2 := by decide
  rw [hb] at e
  simp only at e
  omega

/-! ### the proved bound: lines/items without C0 control characters and DEL -/

/-- `TextView.Render(W, H)` for `W ≥ 2`, `H ≥ 1`, `First ≥ 0` and lines without C0 control
characters/DEL (`NoCtl`: no byte `< 0x20` or `= 0x7f`): no panic, at most `H` lines, each at most
`W` wide (with and without the scrollbar).  The hypothesis excludes exactly the finding class
`textview-control-char`. -/
theorem C34_textview_fits_partial (wd : Int → Int) (ok : WdOK wd) (sc : Bool) (lines : List Bytes)
    (first W H : Int) (hW : 2 ≤ W) (hH : 1 ≤ H) (hf : 0 ≤ first) (hc : ∀ l ∈ lines, NoCtl l) :
    ∃ buf, textViewRender wd sc lines first W H = .ok buf ∧ (buf.lines.length : Int) ≤ H ∧
      ∀ l ∈ buf.lines, lineWidth wd l ≤ W :=
  textView_fits wd ok sc lines first W H hW hH hf hc

-- non-vacuity: three control-free lines "a世b" at 2×2, scrolled to the end: 2 lines (text column + scrollbar)
example : (∀ l ∈ [exStr, exStr, exStr], NoCtl l) ∧
    (match textViewRender exWd true [exStr, exStr, exStr] 5 2 2 with
      | .ok b => b.lines
      | _ => []) = [[[0x61], [0x20]], [[0x61], [0x20]]] := by decide

/-- Vertical `ListBox.Render(W, H)` for `W ≥ 2`, `H ≥ 1`, padding 0 or 1, ANY selection and `First`
(the code clamps them), items without C0 control characters/DEL other than the newlines that
separate the lines of a multi-line item (`NoCtlNL`): no panic, at most `H` lines, each at most `W` wide. -/
theorem C34_listbox_vertical_fits_partial (wd : Int → Int) (ok : WdOK wd) (ext : Bool) (ph : List Bytes)
    (items : List (List Bytes)) (sel first pad W H : Int) (hW : 2 ≤ W) (hH : 1 ≤ H) (hp0 : 0 ≤ pad) (hp1 : pad ≤ 1)
    (hc : ∀ it ∈ items, ∀ seg ∈ it, NoCtlNL seg) :
    ∃ buf, listBoxRender wd false ph items sel first pad ext W H = .ok buf ∧ (buf.lines.length : Int) ≤ H ∧
      ∀ l ∈ buf.lines, lineWidth wd l ≤ W := by
  unfold listBoxRender
  cases items with
  | nil => exact C34_label_fits wd ok ph W H hW (by omega)
  | cons it its =>
    simp only [List.isEmpty_cons, Bool.false_eq_true, if_false]
    exact listBoxVertical_fits wd ok (it :: its) sel first pad ext W H hW hH hp0 hp1 (by simp) hc

/-- Horizontal `ListBox.Render(W, H)` for `W ≥ 2`, `H ≥ 1`, padding 0 or 1, `First ≥ 0`, selection
within the items, items without C0 control characters/DEL (`NoCtl`; a horizontal item is one
line): no panic (no division by zero, the window loops end), at most `H` lines, each at most `W` wide. -/
theorem C34_listbox_horizontal_fits_partial (wd : Int → Int) (ok : WdOK wd) (ext : Bool) (ph : List Bytes)
    (items : List (List Bytes)) (sel first pad W H : Int) (hW : 2 ≤ W) (hH : 1 ≤ H) (hf : 0 ≤ first)
    (hp0 : 0 ≤ pad) (hp1 : pad ≤ 1) (hs : items ≠ [] → 0 ≤ sel ∧ sel < items.length)
    (hc : ∀ it ∈ items, ∀ seg ∈ it, NoCtl seg) :
    ∃ buf, listBoxRender wd true ph items sel first pad ext W H = .ok buf ∧ (buf.lines.length : Int) ≤ H ∧
      ∀ l ∈ buf.lines, lineWidth wd l ≤ W := by
  unfold listBoxRender
  cases items with
  | nil => exact C34_label_fits wd ok ph W H hW (by omega)
  | cons it its =>
    simp only [List.isEmpty_cons, Bool.false_eq_true, if_false, if_true]
    have := hs (by simp)
    exact listBoxHorizontal_fits wd ok (it :: its) sel first pad ext W H hW hH hf hp0 hp1 (by simp) this.1 this.2 hc

/-- `C34_full_listbox` restricted to items without C0 control characters/DEL — exactly the
complement of the finding class `listbox-control-char` (in the vertical layout a newline is the
line separator of a multi-line item, not a control character of a line). -/
theorem C34_listbox_fits_partial (wd : Int → Int) (ok : WdOK wd) (horizontal ext : Bool) (ph : List Bytes)
    (items : List (List Bytes)) (sel first pad W H : Int) (hW : 2 ≤ W) (hH : 1 ≤ H) (hf : 0 ≤ first)
    (hp0 : 0 ≤ pad) (hp1 : pad ≤ 1) (hs : items ≠ [] → 0 ≤ sel ∧ sel < items.length)
    (hc : ∀ it ∈ items, ∀ seg ∈ it, if horizontal then NoCtl seg else NoCtlNL seg) :
    ∃ buf, listBoxRender wd horizontal ph items sel first pad ext W H = .ok buf ∧
      (buf.lines.length : Int) ≤ H ∧ ∀ l ∈ buf.lines, lineWidth wd l ≤ W := by
  cases horizontal with
  | true =>
    exact C34_listbox_horizontal_fits_partial wd ok ext ph items sel first pad W H hW hH hf hp0 hp1 hs
      (fun it hit seg hseg => by simpa using hc it hit seg hseg)
  | false =>
    exact C34_listbox_vertical_fits_partial wd ok ext ph items sel first pad W H hW hH hp0 hp1
      (fun it hit seg hseg => by simpa using hc it hit seg hseg)

-- non-vacuity: vertical, items "a", "b\nc\nd\ne\nf" (the witness of the fixed cropping defect) at 10×3: 3 lines
example : (∀ it ∈ [[[0x61]], [[0x62, 10, 0x63, 10, 0x64, 10, 0x65, 10, 0x66]]], ∀ seg ∈ it, NoCtlNL seg) ∧
    (match listBoxRender exWd false [] [[[0x61]], [[0x62, 10, 0x63, 10, 0x64, 10, 0x65, 10, 0x66]]] 0 0 0 false 10 3 with
      | .ok b => b.lines.length
      | _ => 0) = 3 := by decide
-- non-vacuity: horizontal, five items "a世b" at 7×2 with the last selected: 2 lines (one row of columns + scrollbar)
example : (∀ it ∈ [[exStr], [exStr], [exStr], [exStr], [exStr]], ∀ seg ∈ it, NoCtl seg) ∧
    (match listBoxRender exWd true [] [[exStr], [exStr], [exStr], [exStr], [exStr]] 4 0 0 false 7 2 with
      | .ok b => (b.lines.length, b.lines.map (lineWidth exWd))
      | _ => (0, [])) = (2, [4, 7]) := by decide
