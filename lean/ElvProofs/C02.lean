/-
C02 — Errors in prefixes of valid programs are partial, so the REPL keeps reading.

Model: the parser of C01 (`ElvModel/C01/Model.lean`, imported) with the flag
`Partial := From == len(src)` recorded by `errorp`, and the editor side
`ElvModel/C02/Model.lean` (`isSyntaxComplete`, `smartEnter`, `InsertAtDot` of
pkg/edit/builtins.go and pkg/cli/tk/codearea.go).  Helper lemmas:
`ElvProofs/C02/*.lean`.

"Cut at a character boundary": the positions `for i := range code` visits, i.e.
the positions reached from 0 by decoding forward (`Bnd s k`; for valid UTF-8 the
rune boundaries).  A "valid program" is a source on which `Parse` reports no
error; valid UTF-8 is not needed for any of the statements below, so they are
proved for arbitrary byte strings.

Reading of the third sentence ("for every such prefix Enter inserts a newline
instead of submitting"): *such* prefixes are the ones that have parse errors —
a prefix that parses cleanly (`echo a` of `echo ab`) is a complete program and
Enter submits it.  Both directions are proved (`C02_enter_newline_iff_partial`).
-/
import ElvProofs.C02.Main
open Go C01 C02

/-- The property at full strength on the model: for every `unicode.IsPrint` and
every source `s` on which `Parse` reports no error, for every position `k` that
`for k := range s` visits (every rune-boundary cut, `k < len(s)`): `Parse` of
`s[:k]` returns, (1) every error it reports is marked partial, (2) every error
marked partial starts at the very end `k` of that input, (3) if there is an error
at all, `smartEnter` on a code area holding `s[:k]` (dot at the end) inserts a
newline and does not submit; if there is none, it submits. -/
def C02_full : Prop :=
  ∀ (isPrint : Int → Bool) (s : Bytes) (t : Node), parse isPrint s = .ok t [] →
    ∀ k, k ∈ (runes s).map (·.1) →
      ∃ t' errs', parse isPrint (s.take k) = .ok t' errs' ∧
        (∀ x ∈ errs', x.partial_ = true) ∧
        (∀ x ∈ errs', x.partial_ = true → x.frm = k) ∧
        (errs' ≠ [] → smartEnter isPrint { content := s.take k, dot := k } =
          .newline { content := s.take k ++ [10], dot := k + 1 }) ∧
        (errs' = [] → smartEnter isPrint { content := s.take k, dot := k } = .commit)

/-- (i) Second sentence of the property, for EVERY input: an error `Parse`
reports is marked partial iff it starts at the very end of the input.  This pins
`parser.errorp` (which sets the flag) and `edit.isSyntaxComplete` (which looks at
the position) to the same criterion. -/
theorem C02_partial_iff_at_end (isPrint : Int → Bool) (src : Bytes) (t : Node) (errs : List PErr)
    (h : parse isPrint src = .ok t errs) : ∀ x ∈ errs, (x.partial_ = true ↔ x.frm = src.length) :=
  flag_iff_at_end h

/-- `isSyntaxComplete(code)` is false exactly when some parse error of `code` is
marked partial. -/
theorem C02_isSyntaxComplete_iff_no_partial (isPrint : Int → Bool) (code : Bytes) :
    ∃ t errs, parse isPrint code = .ok t errs ∧
      isSyntaxComplete isPrint code = .ok (!errs.any (fun e => e.partial_)) := by
  obtain ⟨t, errs, h⟩ := parse_total isPrint code
  exact ⟨t, errs, h, isSyntaxComplete_iff h⟩

/-- (ii) Third sentence, for EVERY buffer with the dot inside the content: Enter
inserts a newline at the dot (and does not submit) iff some parse error of the
content is marked partial; otherwise it submits the code unchanged. -/
theorem C02_enter_newline_iff_partial (isPrint : Int → Bool) (buf : CodeBuffer)
    (h0 : 0 ≤ buf.dot) (h1 : buf.dot ≤ buf.content.length) :
    ∃ t errs, parse isPrint buf.content = .ok t errs ∧
      ((∃ x ∈ errs, x.partial_ = true) →
        smartEnter isPrint buf = .newline
          { content := buf.content.take buf.dot.toNat ++ [10] ++ buf.content.drop buf.dot.toNat,
            dot := buf.dot + 1 }) ∧
      ((∀ x ∈ errs, x.partial_ = false) → smartEnter isPrint buf = .commit) := by
  obtain ⟨t, errs, h⟩ := parse_total isPrint buf.content
  refine ⟨t, errs, h, ?_, ?_⟩
  · intro ⟨x, hx, hp⟩
    have hany : errs.any (fun e => e.partial_) = true := List.any_eq_true.2 ⟨x, hx, hp⟩
    unfold smartEnter
    rw [isSyntaxComplete_iff h, hany]
    simp only [Bool.not_true]
    rw [insertAtDot_ok buf [10] h0 h1]
    simp
  · intro hall
    have hany : errs.any (fun e => e.partial_) = false := by
      rw [List.any_eq_false]
      intro x hx; simp [hall x hx]
    unfold smartEnter
    rw [isSyntaxComplete_iff h, hany]
    simp

/-- (iii) Every error raised while the parser is at the end of the input is
partial: started with `pos = len(src)` (where `peek` returns `EOF`), every grammar
function — any node type, any fuel — stays at the end, appends only errors that
are partial and start at `len(src)`, and returns with at least as many pending
`EOF` reads as it found: each `backup` after an `EOF` `next` only decrements
`overEOF` and never moves `pos` back (the `overEOF` discipline, per call site). -/
theorem C02_error_at_eof_is_partial (isPrint : Int → Bool) (src : Bytes) (fuel : Nat) (nt : NT)
    (st st' : St) (a : Node) (hpos : st.pos = src.length)
    (hr : parseNT fuel nt { isPrint := isPrint, src := src } st = .ok a st') :
    st'.pos = src.length ∧ st.overEOF ≤ st'.overEOF ∧
      ∃ l, st'.errors = st.errors ++ l ∧ ∀ x ∈ l, x.partial_ = true ∧ x.frm = src.length :=
  at_eof_partial isPrint src fuel nt st st' a hpos hr

/-- (iv) The prefix claim for the lexical layer, as a lock-step statement
(`C02.LockStep`): run on a source and on its prefix cut at a boundary `k`, from a
common state before the cut, each of the scanners below either does the same on
both (same value, same state) or — when the run on the whole source returned
without error — the run on the prefix ends at the cut with only partial errors.
Covers cuts inside single-quoted strings, double-quoted strings and their escape
sequences (`\c`, `\^`, `\x`, `\u`, `\U`, octal, one-letter), quoted variable names
(`$'…'`, `$"…"`), and whitespace with comments and `^` line continuations. -/
theorem C02_prefix_lexical_partial (isPrint : Int → Bool) (s : Bytes) (k : Nat) (hk : k < s.length)
    (hb : Bnd s k) (nb : NB) (newlines : Bool) :
    LockStep isPrint s k (singleQuoted nb) ∧ LockStep isPrint s k (doubleQuoted nb) ∧
      LockStep isPrint s k doubleQuotedEscape ∧ LockStep isPrint s k (variableP nb) ∧
      LockStep isPrint s k (parseSpacesInner nb newlines) := by
  let c : Cut := { ip := isPrint, s := s, k := k }
  have g : c.Good := ⟨hk, hb⟩
  exact ⟨(singleQuoted_J2 c nb).lockStep g, (doubleQuoted_J2 c nb).lockStep g,
    (doubleQuotedEscape_J2 c).lockStep g, (variableP_J2 c nb).lockStep g,
    (parseSpacesInner_J2 c nb newlines).lockStep g⟩

/-- (v) First sentence of the property, for the whole grammar: if `Parse`
reports no error on `s`, then for every boundary `k < len(s)` every error `Parse`
reports on `s[:k]` is marked partial.  (Lock-step simulation of the two runs up
to the first observation at or beyond `k`; `s` has no error, so none precedes
that point; after it the run on the prefix is at its end — or one `&` before it,
which `Pipeline.parse` then consumes — and (iii) applies.) -/
theorem C02_prefix_partial (isPrint : Int → Bool) (s : Bytes) (k : Nat) (t : Node)
    (hs : parse isPrint s = .ok t []) (hk : k < s.length) (hb : Bnd s k) :
    ∃ t' errs', parse isPrint (s.take k) = .ok t' errs' ∧ ∀ x ∈ errs', x.partial_ = true := by
  obtain ⟨t', errs', hp⟩ := parse_total isPrint (s.take k)
  exact ⟨t', errs', hp, prefix_partial hs hk hb hp⟩

/-- The positions `for k := range s` visits are boundaries below `len(s)`. -/
theorem C02_range_positions_are_boundaries (s : Bytes) (k : Nat) (h : k ∈ (runes s).map (·.1)) :
    Bnd s k ∧ k < s.length := by
  obtain ⟨x, hx, rfl⟩ := List.mem_map.1 h
  exact runes_bnd s x hx

/-- The property at full strength on the model. -/
theorem C02_prefix_partial_and_enter : C02_full := by
  intro isPrint s t hs k hkm
  obtain ⟨hb, hk⟩ := C02_range_positions_are_boundaries s k hkm
  obtain ⟨t', errs', hp, hall⟩ := C02_prefix_partial isPrint s k t hs hk hb
  have hlen : (s.take k).length = k := by simp; omega
  have hflag := flag_iff_at_end hp
  obtain ⟨t'', errs'', hp', hnl, hcm⟩ :=
    C02_enter_newline_iff_partial isPrint { content := s.take k, dot := k } (by simp) (by simp [hlen])
  simp only at hp'
  rw [hp] at hp'
  simp only [ParseResult.ok.injEq] at hp'
  obtain ⟨rfl, rfl⟩ := hp'
  refine ⟨t', errs', hp, hall, ?_, ?_, ?_⟩
  · intro x hx hpx
    rw [(hflag x hx).1 hpx, hlen]
  · intro hne
    obtain ⟨x, hx⟩ := List.exists_mem_of_ne_nil _ hne
    have := hnl ⟨x, hx, hall x hx⟩
    rw [this]
    simp only [Int.toNat_natCast, Enter.newline.injEq, CodeBuffer.mk.injEq, and_true]
    rw [List.take_of_length_le (Nat.le_of_eq hlen), List.drop_of_length_le (Nat.le_of_eq hlen)]
    simp
  · intro he
    exact hcm (by rw [he]; intro x hx; cases hx)

/-! ### Non-vacuity: the hypotheses are met by concrete inputs -/

/-- `e 'a'` -/
def C02_src0 : Bytes := [101, 32, 39, 97, 39]

def C02_errs (r : ParseResult) : Option (List (Nat × Nat × Bool)) :=
  match r with
  | .ok _ e => some (e.map fun x => (x.frm, x.to, x.partial_))
  | _ => none

set_option maxRecDepth 100000 in
/-- `e 'a'` parses without error (hypothesis of `C02_prefix_partial`) … -/
example : ∃ t, parse (fun _ => false) C02_src0 = .ok t [] := by
  have h : C02_errs (parse (fun _ => false) C02_src0) = some [] := by decide
  cases hr : parse (fun _ => false) C02_src0 with
  | ok t e => rw [hr] at h; simp [C02_errs] at h; exact ⟨t, by rw [h]⟩
  | panic w => rw [hr] at h; cases h
  | fuel => rw [hr] at h; cases h

set_option maxRecDepth 100000 in
/-- … 4 is one of its cuts (`e 'a`), whose only error is at 4 = the end and partial. -/
example : 4 ∈ (runes C02_src0).map (·.1) ∧
    C02_errs (parse (fun _ => false) (C02_src0.take 4)) = some [(4, 4, true)] := by decide +kernel

set_option maxRecDepth 100000 in
/-- Enter on `e 'a` inserts a newline; on `e 'a'` it submits. -/
example : smartEnter (fun _ => false) { content := C02_src0.take 4, dot := 4 } =
      .newline { content := C02_src0.take 4 ++ [10], dot := 5 } ∧
    smartEnter (fun _ => false) { content := C02_src0, dot := 5 } = .commit := by decide +kernel

set_option maxRecDepth 100000 in
/-- A non-partial error exists (so clause (i) is not trivially "all partial"): `a )`. -/
example : C02_errs (parse (fun _ => false) [97, 32, 41]) = some [(2, 3, false)] := by decide

set_option maxRecDepth 100000 in
/-- The `&` look-ahead case of (v): `a &b=c` cut after the `&` — `a &` is a
complete program (a background job), no error at all. -/
example : C02_errs (parse (fun _ => false) ([97, 32, 38, 98, 61, 99] : Bytes)) = some [] ∧
    C02_errs (parse (fun _ => false) (([97, 32, 38, 98, 61, 99] : Bytes).take 3)) = some [] := by decide
