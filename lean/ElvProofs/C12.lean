/-
C12 — Inexact arithmetic follows IEEE-754 after the documented conversion.

Two layers.

1. STRUCTURE (every instance `ops : F64Ops F` of the float operations): when
   some argument is a float and no documented exact-zero rule applies, `+ - * /`
   are exactly the folds of the instance's `add/sub/mul/div` over the arguments
   converted with `ConvertToFloat64`; the integerizers and `abs` apply the
   instance's operation; the conversion is the documented one; `inexact-num`
   is that conversion and `exact-num` is `SetFloat64` + canonicalisation.
   What the instance's operations compute (the IEEE results of the FPU) is
   NOT proved — it is trusted, and compared bit for bit between Go and
   hardware `Float` by `./check C12`.  C12 is partial in exactly that respect.

2. ROUNDING SPEC (transparent `B64`, ElvModel/C12/Binary64.lean): the function
   the driver uses for `float64(int)` / `big.Rat.Float64`, and the decoding it
   uses for `big.Rat.SetFloat64`, are plain arithmetic; theorems about them are
   in the second half of this file.
-/
import ElvProofs.C12.Struct
import ElvProofs.C12.Round
import ElvModel.C12.Driver
open C11 C12 Go

variable {F : Type}

/-! ### Structure of the float branches -/

/-- `+` with a float among the arguments: fold of float addition from `+0`
(`float64(0)`) over the converted arguments, left to right. -/
theorem C12_add (ops : F64Ops F) (args : List (Num F)) (st : Option (Num F)) (h : HasFloat args) :
    run ops "+" args st =
      .ok [.flt ((args.map (convertToFloat64 ops)).foldl ops.add (ops.ofInt64 0))] := by
  show outs (add ops args) = _
  rw [add_float ops args h]; rfl

/-- `*` with a float among the arguments and no exact-zero rule: fold of float
multiplication from `1`. -/
theorem C12_mul (ops : F64Ops F) (args : List (Num F)) (st : Option (Num F)) (h : HasFloat args)
    (hz : ¬ (Num.int 0 ∈ args ∧ ∀ a ∈ args, isInfNum ops a = false)) :
    run ops "*" args st =
      .ok [.flt ((args.map (convertToFloat64 ops)).foldl ops.mul (ops.ofInt64 1))] := by
  show outs (mul ops args) = _
  rw [mul_float ops args h (fun hh => hz ((mulZeroRule_iff ops args).1 hh))]; rfl

/-- `-` with a float among the arguments: negation of a single argument,
otherwise the fold of float subtraction from the first argument. -/
theorem C12_sub (ops : F64Ops F) (args : List (Num F)) (st : Option (Num F)) (h : HasFloat args) :
    run ops "-" args st = .ok [.flt (subFold ops (args.map (convertToFloat64 ops)))] := by
  show outs (sub ops args) = _
  rw [sub_float ops args h]; rfl

/-- `/` with a float among the arguments, no exact-zero divisor and a first
argument that is not the exact 0: `1/x` for a single argument, otherwise the
fold of float division from the first argument. -/
theorem C12_div (ops : F64Ops F) (x : Num F) (rest : List (Num F)) (st : Option (Num F))
    (h : HasFloat (x :: rest)) (h0 : rest.any isExactZero = false) (hx : isExactZero x = false) :
    run ops "/" (x :: rest) st =
      .ok [.flt (divFold ops ((x :: rest).map (convertToFloat64 ops)))] := by
  show resMap (fun v => [v]) (slash ops (x :: rest)) = _
  simp [slash, div_float ops x rest h h0 hx, fromGo]

example : HasFloat [Num.int 1, .flt (0x3ff8000000000000 : UInt64), .rat (mkRat 1 3)] :=
  ⟨.flt 0x3ff8000000000000, by simp, rfl⟩

/-- The integerizers and `abs` on a float are the instance's operation. -/
theorem C12_integerizers (ops : F64Ops F) (f : F) (st : Option (Num F)) :
    run ops "floor" [.flt f] st = .ok [.flt (ops.floor f)] ∧
    run ops "ceil" [.flt f] st = .ok [.flt (ops.ceil f)] ∧
    run ops "round" [.flt f] st = .ok [.flt (ops.round f)] ∧
    run ops "round-to-even" [.flt f] st = .ok [.flt (ops.roundEven f)] ∧
    run ops "trunc" [.flt f] st = .ok [.flt (ops.trunc f)] ∧
    run ops "abs" [.flt f] st = .ok [.flt (ops.abs f)] :=
  ⟨rfl, rfl, rfl, rfl, rfl, rfl⟩

/-! ### The conversion rule -/

/-- The documented conversion of exact numbers: a machine int goes through
`float64(int)`, a big int (canonical, hence outside int64) becomes the infinity
of its sign, a rational goes through `big.Rat.Float64`; a float is unchanged. -/
theorem C12_conversion (ops : F64Ops F) :
    (∀ n, convertToFloat64 ops (.int n) = ops.ofInt64 n) ∧
    (∀ n, Canonical (.big n : Num F) → convertToFloat64 ops (.big n) = ops.inf n.sign) ∧
    (∀ q, convertToFloat64 ops (.rat q) = ops.ofRat q) ∧
    (∀ f, convertToFloat64 ops (.flt f) = f) := by
  refine ⟨fun _ => rfl, ?_, fun _ => rfl, fun _ => rfl⟩
  intro n hc
  have : fitsInt n = false := hc
  simp [convertToFloat64, this]

/-- `inexact-num` is exactly that conversion. -/
theorem C12_inexact_num (ops : F64Ops F) (a : Num F) :
    runC12 ops "inexact-num" [a] = some (.ok [.flt (convertToFloat64 ops a)]) := rfl

/-- `exact-num`: an exception for a float without exact value (±Inf, NaN);
otherwise the canonical exact number whose value is the float's exact value
(`toRat`); an exact argument is returned as is. -/
theorem C12_exact_num (ops : F64Ops F) (a : Num F) (ha : Canonical a) :
    (∃ f, a = .flt f ∧ ops.toRat f = none ∧
      runC12 ops "exact-num" [a] = some (.exc "finite-float")) ∨
    (∃ f r, a = .flt f ∧ ops.toRat f = some r ∧
      ∃ v, runC12 ops "exact-num" [a] = some (.ok [v]) ∧ ExactC v ∧ val v = r) ∨
    (isExact a = true ∧ runC12 ops "exact-num" [a] = some (.ok [a])) := by
  cases a with
  | flt f =>
    cases h : ops.toRat f with
    | none => exact .inl ⟨f, rfl, h, by simp [runC12, exactNum, h, outs]⟩
    | some r =>
      refine .inr (.inl ⟨f, r, rfl, h, fromGo (.rat r), ?_, (fromGo_rat r).1, (fromGo_rat r).2⟩)
      simp [runC12, exactNum, h, outs]
  | int n => exact .inr (.inr ⟨rfl, by simp [runC12, exactNum, outs, fromGo]⟩)
  | big n => exact .inr (.inr ⟨rfl, by simp [runC12, exactNum, outs, fromGo_of_canonical _ ha]⟩)
  | rat q => exact .inr (.inr ⟨rfl, by simp [runC12, exactNum, outs, fromGo_of_canonical _ ha]⟩)

/-- Round trip for every instance whose conversions are inverse on finite
values: `inexact-num (exact-num f) = f`.  (The hypothesis is discharged for the
transparent `B64` functions by `C12_rne_exact` below; it fails only for `-0`,
whose exact value is the integer 0.) -/
theorem C12_round_trip (ops : F64Ops F) (f : F) (r : Rat) (h : ops.toRat f = some r)
    (hinv : ∀ q : Rat, q.den ≠ 1 → ops.toRat f = some q → ops.ofRat q = f)
    (hint : ∀ n : Int, fitsInt n = true → ops.toRat f = some (n : Rat) → ops.ofInt64 n = f)
    (hbig : ∀ n : Int, fitsInt n = false → ops.toRat f = some (n : Rat) → ops.inf n.sign = f) :
    ∃ v, runC12 ops "exact-num" [.flt f] = some (.ok [v]) ∧
      runC12 ops "inexact-num" [v] = some (.ok [.flt f]) := by
  refine ⟨fromGo (.rat r), by simp [runC12, exactNum, h, outs], ?_⟩
  show some (Res.ok [Num.flt (convertToFloat64 ops (fromGo (.rat r)))]) = _
  congr 3
  simp only [fromGo, normalizeBigRat]
  by_cases hd : r.den = 1
  · have hr : r = (r.num : Rat) := by apply Rat.ext <;> simp [hd]
    simp only [hd, if_true, normalizeBigInt]
    by_cases hf : fitsInt r.num = true
    · simp only [hf, if_true, convertToFloat64]; exact congrArg _ (hint _ hf (hr ▸ h))
    · have hf' : fitsInt r.num = false := by simpa using hf
      simp only [hf', Bool.false_eq_true, if_false, convertToFloat64]; exact congrArg _ (hbig _ hf' (hr ▸ h))
  · simp only [hd, if_false, convertToFloat64]; exact congrArg _ (hinv r hd h)

/-! ### The transparent rounding `B64.rne` / decoding `B64.toRat`

The driver's instance converts with `B64.rne` (for `float64(int)` and
`big.Rat.Float64`) and decodes with `B64.toRat` (for `big.Rat.SetFloat64`);
`./check C12` compares both bit for bit with Go.  What is proved about them: -/

/-- "Exact on representables" / the `exact-num`–`inexact-num` round trip:
decoding any finite double other than ±0 to its exact value and rounding that
value gives the same bit pattern back. -/
theorem C12_rne_exact (bits : Nat) (hb : bits < 2 ^ 64) (q : Rat) (h : B64.toRat bits = some q)
    (hnz : bits % B64.signBit ≠ 0) : B64.rne q = bits :=
  B64.rne_toRat bits hb q h hnz

/-- Both zeros decode to the exact 0, which converts to `+0`: the round trip
maps `-0` to `+0` (its exact value is the integer 0). -/
theorem C12_rne_zero : B64.toRat 0 = some 0 ∧ B64.toRat B64.signBit = some 0 ∧ B64.rne 0 = 0 :=
  B64.rne_zero

example : B64.toRat 0x3ff8000000000000 = some (3 / 2 : Rat) → B64.rne (3 / 2 : Rat) = 0x3ff8000000000000 :=
  fun h => C12_rne_exact _ (by decide) _ h (by decide)

/-- The exponent used is the right one: `k = ilog2 n d` is `⌊log₂ (n/d)⌋`
(`2^k ≤ n/d < 2^(k+1)`, written without division by `pow2Le`), so the unit in
the last place is `2^(k-52)`, or `2^-1074` in the subnormal range. -/
theorem C12_ilog2_spec (n d : Nat) (hn : 0 < n) (hd : 0 < d) :
    B64.pow2Le (B64.ilog2 n d) n d = true ∧ B64.pow2Le (B64.ilog2 n d + 1) n d = false :=
  B64.ilog2_spec n d hn hd

/-- **Within half an ulp.**  For positive `n/d` with a finite result
`p = rneMag n d`: with `t = ulpExp n d + 1074` (the unit in the last place is
`2^t` units of `2^-1074`, and `ulpExp` is `⌊log₂ (n/d)⌋ − 52` clamped to the
subnormal spacing by `C12_ilog2_spec`), the decoded value `magUnits p / 2^1074`
satisfies `|n/d − magUnits p / 2^1074| ≤ (2^t / 2^1074) / 2`, cross-multiplied
to natural numbers. -/
theorem C12_rne_half_ulp (n d : Nat) (hn : 0 < n) (hd : 0 < d) (hfin : B64.rneMag n d < B64.infMag) :
    let t := (B64.ulpExp n d + 1074).toNat
    let u := B64.magUnits (B64.rneMag n d)
    2 * (u * d) ≤ 2 * (n * 2 ^ 1074) + d * 2 ^ t ∧ 2 * (n * 2 ^ 1074) ≤ 2 * (u * d) + d * 2 ^ t :=
  B64.rneMag_half_ulp n d hn hd hfin

example : B64.rneMag 1 3 < B64.infMag := by decide

/-- Ties to even: the significand `M = roundHalfEven N D` chosen for the scaled
quotient `N/D = (n/d)/2^E` satisfies `|N/D − M| ≤ 1/2` (written
`2·M·D ≤ 2·N + D ∧ 2·N ≤ 2·M·D + D`), and is even when `N/D` is exactly half
way; it lies in `[2^52, 2^53]` for a normal result and in `[0, 2^52]` at the
subnormal spacing (`B64.significand_bounds`). -/
theorem C12_rne_ties_even (N D : Nat) (hD : 0 < D) :
    let M := B64.roundHalfEven N D
    (2 * (M * D) ≤ 2 * N + D ∧ 2 * N ≤ 2 * (M * D) + D) ∧
    ((2 * (M * D) = 2 * N + D ∨ 2 * N = 2 * (M * D) + D) → M % 2 = 0) :=
  B64.roundHalfEven_nearest N D hD

/-- The result depends only on the value `n/d`, not on the fraction. -/
theorem C12_rne_scale (n d g : Nat) (hn : 0 < n) (hd : 0 < d) (hg : 0 < g) :
    B64.rneMag (n * g) (d * g) = B64.rneMag n d :=
  B64.rneMag_scale n d g hn hd hg

/-- NOT PROVED (the remaining gap of the rounding spec): the pattern returned
for an arbitrary rational decodes to a double at least as close to it as any
other finite double (with overflow to the infinity pattern beyond the largest
finite double plus half an ulp), and `rne` is monotone.  `C12_rne_exact`,
`C12_ilog2_spec`, `C12_rne_half_ulp` and `C12_rne_ties_even` are the proved ingredients
(representables are fixed points; the exponent is `⌊log₂⌋`; the decoded result
is within half an ulp of the argument, with the even significand at a tie);
what is missing is the comparison with doubles of other binades (their spacing,
the order of patterns) and monotonicity.  The correspondence run covers it by sampling rationals at and next to
every kind of rounding boundary against Go and against an independent
nearest-double search. -/
def C12_rne_nearest_full : Prop :=
  ∀ q : Rat, ∀ r : Rat, B64.toRat (B64.rne q) = some r →
    ∀ bits : Nat, bits < 2 ^ 64 → ∀ v : Rat, B64.toRat bits = some v →
      (if q < r then r - q else q - r) ≤ (if q < v then v - q else q - v)
