/-
C12 — Inexact arithmetic follows IEEE-754 after the documented conversion.

Two layers.

1. STRUCTURE (every instance `ops : F64Ops F` of the float operations): when
   some argument is a float and no documented exact-zero rule applies, `+ - * /`
   are exactly the folds of the instance's `add/sub/mul/div` over the arguments
   converted with `ConvertToFloat64`; the integerizers and `abs` apply the
   instance's operation; the conversion is the documented one; `inexact-num`
   is that conversion and `exact-num` is `SetFloat64` + canonicalisation.
   What the instance's operations compute (the IEEE results of the FPU) is
   NOT proved — it is trusted, and compared bit for bit between Go and
   hardware `Float` by `./check C12`.  C12 is partial in exactly that respect.

2. ROUNDING SPEC (transparent `B64`, ElvModel/C12/Binary64.lean): the function
   the driver uses for `float64(int)` / `big.Rat.Float64`, and the decoding it
   uses for `big.Rat.SetFloat64`, are plain arithmetic; theorems about them are
   in the second half of this file.  Since round 2 the specification is
   complete: `C12_rne_nearest` (nearest among ALL finite doubles, ties to even,
   exact overflow thresholds, monotone), `C12_rne_unique`, and the statement
   that the model's conversion of a rational is that single rounding
   (`C12_conversion_rat_is_rne`) while `float64(num)/float64(denom)` is not
   (`C12_double_rounding_counterexample`).

Round 2 also added the structure theorems for float `math:pow` and float
`range` (`C12_pow`, `C12_range_float`, `C12_range_float_loop`).
-/
import ElvProofs.C12.Struct
import ElvProofs.C12.Round
import ElvProofs.C12.DoubleRounding
import ElvProofs.C12.RangePow
import ElvModel.C12.Driver
open C11 C12 Go

variable {F : Type}

/-! ### Structure of the float branches -/

/-- `+` with a float among the arguments: fold of float addition from `+0`
(`float64(0)`) over the converted arguments, left to right. -/
theorem C12_add (ops : F64Ops F) (args : List (Num F)) (st : Option (Num F)) (h : HasFloat args) :
    run ops "+" args st =
      .ok [.flt ((args.map (convertToFloat64 ops)).foldl ops.add (ops.ofInt64 0))] := by
  show outs (add ops args) = _
  rw [add_float ops args h]; rfl

/-- `*` with a float among the arguments and no exact-zero rule: fold of float
multiplication from `1`. -/
theorem C12_mul (ops : F64Ops F) (args : List (Num F)) (st : Option (Num F)) (h : HasFloat args)
    (hz : ¬ (Num.int 0 ∈ args ∧ ∀ a ∈ args, isInfNum ops a = false)) :
    run ops "*" args st =
      .ok [.flt ((args.map (convertToFloat64 ops)).foldl ops.mul (ops.ofInt64 1))] := by
  show outs (mul ops args) = _
  rw [mul_float ops args h (fun hh => hz ((mulZeroRule_iff ops args).1 hh))]; rfl

/-- `-` with a float among the arguments: negation of a single argument,
otherwise the fold of float subtraction from the first argument. -/
theorem C12_sub (ops : F64Ops F) (args : List (Num F)) (st : Option (Num F)) (h : HasFloat args) :
    run ops "-" args st = .ok [.flt (subFold ops (args.map (convertToFloat64 ops)))] := by
  show outs (sub ops args) = _
  rw [sub_float ops args h]; rfl

/-- `/` with a float among the arguments, no exact-zero divisor and a first
argument that is not the exact 0: `1/x` for a single argument, otherwise the
fold of float division from the first argument. -/
theorem C12_div (ops : F64Ops F) (x : Num F) (rest : List (Num F)) (st : Option (Num F))
    (h : HasFloat (x :: rest)) (h0 : rest.any isExactZero = false) (hx : isExactZero x = false) :
    run ops "/" (x :: rest) st =
      .ok [.flt (divFold ops ((x :: rest).map (convertToFloat64 ops)))] := by
  show resMap (fun v => [v]) (slash ops (x :: rest)) = _
  simp [slash, div_float ops x rest h h0 hx, fromGo]

example : HasFloat [Num.int 1, .flt (0x3ff8000000000000 : UInt64), .rat (mkRat 1 3)] :=
  ⟨.flt 0x3ff8000000000000, by simp, rfl⟩

/-- The integerizers and `abs` on a float are the instance's operation. -/
theorem C12_integerizers (ops : F64Ops F) (f : F) (st : Option (Num F)) :
    run ops "floor" [.flt f] st = .ok [.flt (ops.floor f)] ∧
    run ops "ceil" [.flt f] st = .ok [.flt (ops.ceil f)] ∧
    run ops "round" [.flt f] st = .ok [.flt (ops.round f)] ∧
    run ops "round-to-even" [.flt f] st = .ok [.flt (ops.roundEven f)] ∧
    run ops "trunc" [.flt f] st = .ok [.flt (ops.trunc f)] ∧
    run ops "abs" [.flt f] st = .ok [.flt (ops.abs f)] :=
  ⟨rfl, rfl, rfl, rfl, rfl, rfl⟩

/-! ### The conversion rule -/

/-- The documented conversion of exact numbers: a machine int goes through
`float64(int)`, a big int (canonical, hence outside int64) becomes the infinity
of its sign, a rational goes through `big.Rat.Float64`; a float is unchanged. -/
theorem C12_conversion (ops : F64Ops F) :
    (∀ n, convertToFloat64 ops (.int n) = ops.ofInt64 n) ∧
    (∀ n, Canonical (.big n : Num F) → convertToFloat64 ops (.big n) = ops.inf n.sign) ∧
    (∀ q, convertToFloat64 ops (.rat q) = ops.ofRat q) ∧
    (∀ f, convertToFloat64 ops (.flt f) = f) := by
  refine ⟨fun _ => rfl, ?_, fun _ => rfl, fun _ => rfl⟩
  intro n hc
  have : fitsInt n = false := hc
  simp [convertToFloat64, this]

/-- `inexact-num` is exactly that conversion. -/
theorem C12_inexact_num (ops : F64Ops F) (a : Num F) :
    runC12 ops "inexact-num" [a] = some (.ok [.flt (convertToFloat64 ops a)]) := rfl

/-- `exact-num`: an exception for a float without exact value (±Inf, NaN);
otherwise the canonical exact number whose value is the float's exact value
(`toRat`); an exact argument is returned as is. -/
theorem C12_exact_num (ops : F64Ops F) (a : Num F) (ha : Canonical a) :
    (∃ f, a = .flt f ∧ ops.toRat f = none ∧
      runC12 ops "exact-num" [a] = some (.exc "finite-float")) ∨
    (∃ f r, a = .flt f ∧ ops.toRat f = some r ∧
      ∃ v, runC12 ops "exact-num" [a] = some (.ok [v]) ∧ ExactC v ∧ val v = r) ∨
    (isExact a = true ∧ runC12 ops "exact-num" [a] = some (.ok [a])) := by
  cases a with
  | flt f =>
    cases h : ops.toRat f with
    | none => exact .inl ⟨f, rfl, h, by simp [runC12, exactNum, h, outs]⟩
    | some r =>
      refine .inr (.inl ⟨f, r, rfl, h, fromGo (.rat r), ?_, (fromGo_rat r).1, (fromGo_rat r).2⟩)
      simp [runC12, exactNum, h, outs]
  | int n => exact .inr (.inr ⟨rfl, by simp [runC12, exactNum, outs, fromGo]⟩)
  | big n => exact .inr (.inr ⟨rfl, by simp [runC12, exactNum, outs, fromGo_of_canonical _ ha]⟩)
  | rat q => exact .inr (.inr ⟨rfl, by simp [runC12, exactNum, outs, fromGo_of_canonical _ ha]⟩)

/-- Round trip for every instance whose conversions are inverse on finite
values: `inexact-num (exact-num f) = f`.  (The hypothesis is discharged for the
transparent `B64` functions by `C12_rne_exact` below; it fails only for `-0`,
whose exact value is the integer 0.) -/
theorem C12_round_trip (ops : F64Ops F) (f : F) (r : Rat) (h : ops.toRat f = some r)
    (hinv : ∀ q : Rat, q.den ≠ 1 → ops.toRat f = some q → ops.ofRat q = f)
    (hint : ∀ n : Int, fitsInt n = true → ops.toRat f = some (n : Rat) → ops.ofInt64 n = f)
    (hbig : ∀ n : Int, fitsInt n = false → ops.toRat f = some (n : Rat) → ops.inf n.sign = f) :
    ∃ v, runC12 ops "exact-num" [.flt f] = some (.ok [v]) ∧
      runC12 ops "inexact-num" [v] = some (.ok [.flt f]) := by
  refine ⟨fromGo (.rat r), by simp [runC12, exactNum, h, outs], ?_⟩
  show some (Res.ok [Num.flt (convertToFloat64 ops (fromGo (.rat r)))]) = _
  congr 3
  simp only [fromGo, normalizeBigRat]
  by_cases hd : r.den = 1
  · have hr : r = (r.num : Rat) := by apply Rat.ext <;> simp [hd]
    simp only [hd, if_true, normalizeBigInt]
    by_cases hf : fitsInt r.num = true
    · simp only [hf, if_true, convertToFloat64]; exact congrArg _ (hint _ hf (hr ▸ h))
    · have hf' : fitsInt r.num = false := by simpa using hf
      simp only [hf', Bool.false_eq_true, if_false, convertToFloat64]; exact congrArg _ (hbig _ hf' (hr ▸ h))
  · simp only [hd, if_false, convertToFloat64]; exact congrArg _ (hinv r hd h)

/-! ### The transparent rounding `B64.rne` / decoding `B64.toRat`

The driver's instance converts with `B64.rne` (for `float64(int)` and
`big.Rat.Float64`) and decodes with `B64.toRat` (for `big.Rat.SetFloat64`);
`./check C12` compares both bit for bit with Go.  What is proved about them: -/

/-- "Exact on representables" / the `exact-num`–`inexact-num` round trip:
decoding any finite double other than ±0 to its exact value and rounding that
value gives the same bit pattern back. -/
theorem C12_rne_exact (bits : Nat) (hb : bits < 2 ^ 64) (q : Rat) (h : B64.toRat bits = some q)
    (hnz : bits % B64.signBit ≠ 0) : B64.rne q = bits :=
  B64.rne_toRat bits hb q h hnz

/-- Both zeros decode to the exact 0, which converts to `+0`: the round trip
maps `-0` to `+0` (its exact value is the integer 0). -/
theorem C12_rne_zero : B64.toRat 0 = some 0 ∧ B64.toRat B64.signBit = some 0 ∧ B64.rne 0 = 0 :=
  B64.rne_zero

example : B64.toRat 0x3ff8000000000000 = some (3 / 2 : Rat) → B64.rne (3 / 2 : Rat) = 0x3ff8000000000000 :=
  fun h => C12_rne_exact _ (by decide) _ h (by decide)

/-- The exponent used is the right one: `k = ilog2 n d` is `⌊log₂ (n/d)⌋`
(`2^k ≤ n/d < 2^(k+1)`, written without division by `pow2Le`), so the unit in
the last place is `2^(k-52)`, or `2^-1074` in the subnormal range. -/
theorem C12_ilog2_spec (n d : Nat) (hn : 0 < n) (hd : 0 < d) :
    B64.pow2Le (B64.ilog2 n d) n d = true ∧ B64.pow2Le (B64.ilog2 n d + 1) n d = false :=
  B64.ilog2_spec n d hn hd

/-- **Within half an ulp.**  For positive `n/d` with a finite result
`p = rneMag n d`: with `t = ulpExp n d + 1074` (the unit in the last place is
`2^t` units of `2^-1074`, and `ulpExp` is `⌊log₂ (n/d)⌋ − 52` clamped to the
subnormal spacing by `C12_ilog2_spec`), the decoded value `magUnits p / 2^1074`
satisfies `|n/d − magUnits p / 2^1074| ≤ (2^t / 2^1074) / 2`, cross-multiplied
to natural numbers. -/
theorem C12_rne_half_ulp (n d : Nat) (hn : 0 < n) (hd : 0 < d) (hfin : B64.rneMag n d < B64.infMag) :
    let t := (B64.ulpExp n d + 1074).toNat
    let u := B64.magUnits (B64.rneMag n d)
    2 * (u * d) ≤ 2 * (n * 2 ^ 1074) + d * 2 ^ t ∧ 2 * (n * 2 ^ 1074) ≤ 2 * (u * d) + d * 2 ^ t :=
  B64.rneMag_half_ulp n d hn hd hfin

example : B64.rneMag 1 3 < B64.infMag := by decide

/-- Ties to even: the significand `M = roundHalfEven N D` chosen for the scaled
quotient `N/D = (n/d)/2^E` satisfies `|N/D − M| ≤ 1/2` (written
`2·M·D ≤ 2·N + D ∧ 2·N ≤ 2·M·D + D`), and is even when `N/D` is exactly half
way; it lies in `[2^52, 2^53]` for a normal result and in `[0, 2^52]` at the
subnormal spacing (`B64.significand_bounds`). -/
theorem C12_rne_ties_even (N D : Nat) (hD : 0 < D) :
    let M := B64.roundHalfEven N D
    (2 * (M * D) ≤ 2 * N + D ∧ 2 * N ≤ 2 * (M * D) + D) ∧
    ((2 * (M * D) = 2 * N + D ∨ 2 * N = 2 * (M * D) + D) → M % 2 = 0) :=
  B64.roundHalfEven_nearest N D hD

/-- The result depends only on the value `n/d`, not on the fraction. -/
theorem C12_rne_scale (n d g : Nat) (hn : 0 < n) (hd : 0 < d) (hg : 0 < g) :
    B64.rneMag (n * g) (d * g) = B64.rneMag n d :=
  B64.rneMag_scale n d g hn hd hg

/-! ### Round 2: `B64.rne` is THE correctly rounded conversion

`B64.rdist a b` is `|a − b|` (`if a < b then b - a else a - b`);
`B64.overflowThr` is the natural number `(2^54 − 1)·2^970 = 2^1024 − 2^970`
(`C12_overflow_threshold`), the midpoint between the largest finite double and
`2^1024`. -/

/-- The full rounding specification of `B64.rne : Rat → bit pattern`
(round to nearest, ties to even, IEEE overflow rule), for EVERY rational:

1. the result is a well-formed non-NaN pattern;
2. when it is finite with value `r`, no finite double `v` — of any binade, of
   either sign — is closer to `q` than `r`, and if some other value is equally
   close the returned pattern is the even one;
3. it is `+Inf` exactly when `q ≥ 2^1024 − 2^970` and `-Inf` exactly when
   `q ≤ −(2^1024 − 2^970)` (i.e. exactly when rounding with an unbounded
   exponent would exceed the largest finite double; the midpoint itself is a
   tie that goes to the even neighbour `2^1024`, so it overflows);
4. it is monotone in value: `q₁ ≤ q₂` with finite results gives `r₁ ≤ r₂`
   (and by 3. the infinite results are ordered too: the set of arguments sent
   to `+Inf` is upward closed, the set sent to `-Inf` downward closed). -/
def C12_rne_nearest_full : Prop :=
  (∀ q : Rat, B64.rne q < 2 ^ 64 ∧ B64.rne q % B64.signBit ≤ B64.infMag) ∧
  (∀ q r : Rat, B64.toRat (B64.rne q) = some r →
    ∀ bits : Nat, bits < 2 ^ 64 → ∀ v : Rat, B64.toRat bits = some v →
      B64.rdist q r ≤ B64.rdist q v ∧
      (B64.rdist q r = B64.rdist q v → v ≠ r → B64.rne q % 2 = 0)) ∧
  (∀ q : Rat, (B64.rne q = B64.infMag ↔ (B64.overflowThr : Rat) ≤ q) ∧
    (B64.rne q = B64.signBit + B64.infMag ↔ q ≤ -(B64.overflowThr : Rat))) ∧
  (∀ q1 q2 : Rat, q1 ≤ q2 → ∀ r1 r2 : Rat,
    B64.toRat (B64.rne q1) = some r1 → B64.toRat (B64.rne q2) = some r2 → r1 ≤ r2)

/-- **Proved in round 2** (was the open gap of round 1).  The proof is in
`ElvProofs/C12/Nearest.lean` (natural numbers in units of `2^-1074`: every
double is below the binade of the result or on its grid `magUnits_grid`, the
significand is a nearest grid point `sig_nearest`, patterns are ordered like
values `magUnits_strictMono`, monotonicity follows from nearest-ness, the
overflow threshold from nearest-ness against the two patterns around it) and
`ElvProofs/C12/NearestRat.lean` (transport to `Rat`, signs). -/
theorem C12_rne_nearest : C12_rne_nearest_full :=
  ⟨B64.rne_wf, B64.rne_nearest, fun q => ⟨B64.rne_eq_inf_iff q, B64.rne_eq_neg_inf_iff q⟩, B64.rne_mono⟩

/-- **The specification has one answer.**  If a finite double `bits` (value
`v`) satisfies item 2 of `C12_rne_nearest_full` for `q` — at least as close as
every finite double, even pattern at a tie — then its value is the value of
`B64.rne q`.  So a conversion that ever differs in value from `B64.rne`
(`C12_double_rounding_counterexample`) cannot be "nearest, ties to even". -/
theorem C12_rne_unique (q r : Rat) (hr : B64.toRat (B64.rne q) = some r)
    (bits : Nat) (hb : bits < 2 ^ 64) (v : Rat) (hv : B64.toRat bits = some v)
    (hspec : ∀ bits' : Nat, bits' < 2 ^ 64 → ∀ v' : Rat, B64.toRat bits' = some v' →
      B64.rdist q v ≤ B64.rdist q v' ∧ (B64.rdist q v = B64.rdist q v' → v' ≠ v → bits % 2 = 0)) :
    v = r := by
  have h := hspec (B64.rne q) (B64.rne_wf q).1 r hr
  exact B64.rne_unique q r hr bits hb v hv h.1 (fun e ne => h.2 e (Ne.symm ne))

-- non-vacuity: `B64.rne q` itself satisfies the hypothesis `hspec`
example (q r : Rat) (hr : B64.toRat (B64.rne q) = some r) :
    ∀ bits' : Nat, bits' < 2 ^ 64 → ∀ v' : Rat, B64.toRat bits' = some v' →
      B64.rdist q r ≤ B64.rdist q v' ∧ (B64.rdist q r = B64.rdist q v' → v' ≠ r → B64.rne q % 2 = 0) :=
  fun b hb v' hv' => C12_rne_nearest.2.1 q r hr b hb v' hv'

/-- The threshold in closed form. -/
theorem C12_overflow_threshold : (B64.overflowThr : Rat) = (2 : Rat) ^ 1024 - (2 : Rat) ^ 970 :=
  B64.overflowThr_rat

/-- The order of magnitude patterns is the order of the values they denote
(every exponent; the pattern of infinity reads as `2^1024`): this is what makes
"nearest within the binade" nearest among all doubles. -/
theorem C12_pattern_order (m1 m2 : Nat) (h : m1 < m2) : B64.magUnits m1 < B64.magUnits m2 :=
  B64.magUnits_strictMono m1 m2 h

-- non-vacuity: a non-dyadic argument (finite result), a tie across a binade
-- boundary (2^53+1 lies half way between 2^53 and 2^53+2: the even pattern,
-- 2^53, is returned), the two sides of the overflow threshold, underflow to
-- the smallest subnormal / to zero at the half-way point (tie to the even 0)
example : (B64.toRat (B64.rne (mkRat 1 3))).isSome = true := by decide +kernel
example : B64.rne (9007199254740993 : Rat) = 0x4340000000000000 := by decide +kernel
example : B64.rne ((2 ^ 1024 - 2 ^ 970 : Int) : Rat) = B64.infMag ∧
    B64.rne ((2 ^ 1024 - 2 ^ 970 - 1 : Int) : Rat) = B64.infMag - 1 := by constructor <;> decide +kernel
example : B64.rne (mkRat 1 (2 ^ 1075)) = 0 ∧ B64.rne (mkRat 3 (2 ^ 1076)) = 1 ∧
    B64.rne (mkRat (-3) (2 ^ 1075)) = B64.signBit + 2 := by
  refine ⟨?_, ?_, ?_⟩ <;> decide +kernel
example : (mkRat 1 3 : Rat) ≤ mkRat 1 2 := by decide +kernel

/-! ### Round 2: the conversion of a rational is ONE correctly rounded step -/

/-- In the instance the correspondence run executes, the conversion of an exact
rational (and of a machine integer) to `float64` IS `B64.rne` of its exact
value — a single rounding, specified by `C12_rne_nearest` — whatever the size
of numerator and denominator.  (`big.Rat.Float64` and `float64(int)` on the Go
side are compared with it bit for bit.) -/
theorem C12_conversion_rat_is_rne :
    (∀ q : Rat, convertToFloat64 hwOps (.rat q) = fOfBits (B64.rne q)) ∧
    (∀ n : Int, convertToFloat64 hwOps (.int n) = fOfBits (B64.rne (n : Rat))) ∧
    (∀ q : Rat, runC12 hwOps "inexact-num" [.rat q] = some (.ok [.flt (fOfBits (B64.rne q))])) :=
  ⟨fun _ => rfl, fun _ => rfl, fun _ => rfl⟩

/-- Converting `a/b` as `float64(a) / float64(b)` (`B64.divThenRound`: round
`a`, round `b`, round the quotient of the rounded values) is NOT that
conversion: for `1/(2^53+1)` it yields `2^-53` (`3ca0000000000000`) while the
nearest double is its predecessor (`3c9fffffffffffff`).  The witness is in
`harness/corpus/C12.txt` (`inexact-num r:1/9007199254740993`), so the check
fails if the real `ConvertToFloat64` ever takes that shortcut (seeded change
`C12-rat-to-float-double-rounding`). -/
theorem C12_double_rounding_counterexample :
    ¬ ∀ a b : Int, 0 < b → B64.divThenRound a b = some (B64.rne (mkRat a b.toNat)) := by
  intro h
  have h1 := h 1 9007199254740993 (by decide)
  have e : (9007199254740993 : Int).toNat = 9007199254740993 := by decide
  rw [e, B64.divThenRound_witness.1, B64.divThenRound_witness.2] at h1
  exact absurd (Option.some.inj h1) (by decide)

/-- The double-rounded result is strictly farther from `1/(2^53+1)` than the
correctly rounded one (so it violates item 2 of `C12_rne_nearest_full`). -/
theorem C12_double_rounding_not_nearest :
    ∃ r v : Rat, B64.toRat 0x3c9fffffffffffff = some r ∧ B64.toRat 0x3ca0000000000000 = some v ∧
      B64.rdist (mkRat 1 9007199254740993) r < B64.rdist (mkRat 1 9007199254740993) v :=
  ⟨mkRat 9007199254740991 (2 ^ 106), mkRat 1 (2 ^ 53), by decide +kernel, by decide +kernel, by decide +kernel⟩

/-! ### Round 2: float `math:pow` and float `range` -/

/-- `math:pow` outside the exact branch (a float argument, or an exact
non-integer exponent): the instance's `pow` on the two converted arguments.
(`ops.pow` itself — Go's `math.Pow` — is trusted like the other FPU operations;
`./check C12` compares it with libm's `pow` and with an exact reference on the
arguments where the value is specified: the C99 special-case table and exactly
representable integer powers.) -/
theorem C12_pow (ops : F64Ops F) (b e : Num F) (st : Option (Num F))
    (h : (isExact b && isExactInt e) = false) :
    run ops "pow" [b, e] st =
      .ok [.flt (ops.pow (convertToFloat64 ops b) (convertToFloat64 ops e))] := by
  show outs (mathPow ops b e) = _
  unfold mathPow
  simp [h, outs, resMap, fromGo]

example : (isExact (Num.int 4 : Num UInt64) && isExactInt (Num.rat (mkRat 1 2) : Num UInt64)) = false := by
  decide

/-- `range` with a float among start, end and `&step` runs the float loop on
the arguments converted with `ConvertToFloat64` (`0` is the default start). -/
theorem C12_range_float (ops : F64Ops F) (c : FCmp F) (fuel : Nat) (s e : Num F) (step : Option (Num F))
    (h : HasFloat ([s, e] ++ step.toList)) :
    rangeC12 ops c fuel [s, e] step =
      resMap (·.map .flt) (rangeBuiltinFloat ops c fuel (([s, e] ++ step.toList).map (convertToFloat64 ops))) ∧
    (HasFloat ([.int 0, e] ++ step.toList) →
      rangeC12 ops c fuel [e] step =
        resMap (·.map .flt)
          (rangeBuiltinFloat ops c fuel (([.int 0, e] ++ step.toList).map (convertToFloat64 ops)))) := by
  constructor
  · cases step with
    | none => simp only [Option.toList, List.append_nil] at h ⊢; simp only [rangeC12]; rw [unifyNums_float ops _ .int h]; rfl
    | some st => simp only [Option.toList] at h ⊢; simp only [rangeC12]; rw [unifyNums_float ops _ .int h]; rfl
  · intro h'
    cases step with
    | none => simp only [Option.toList, List.append_nil] at h' ⊢; simp only [rangeC12]; rw [unifyNums_float ops _ .int h']; rfl
    | some st => simp only [Option.toList] at h' ⊢; simp only [rangeC12]; rw [unifyNums_float ops _ .int h']; rfl

/-- The float loops: the outputs are `start, start+step, (start+step)+step, …`
(left-nested `ops.add`, i.e. accumulated IEEE additions — NOT `start + i·step`),
every output is strictly inside the range, and the loop ends when the bound is
reached or when adding the step no longer moves the value. -/
theorem C12_range_float_loop (ops : F64Ops F) (c : FCmp F) (end_ step : F) (fuel : Nat) (cur : F) (l : List F) :
    (rangeFloatUp ops c end_ step fuel cur = .ok l →
      l = C12.iterate (fun x => ops.add x step) cur l.length ∧
      (∀ x ∈ l, c.lt x end_ = true) ∧ (∀ x ∈ l.dropLast, c.le (ops.add x step) x = false)) ∧
    (rangeFloatDown ops c end_ step fuel cur = .ok l →
      l = C12.iterate (fun x => ops.add x step) cur l.length ∧
      (∀ x ∈ l, c.lt end_ x = true) ∧ (∀ x ∈ l.dropLast, c.le x (ops.add x step) = false)) :=
  ⟨rangeFloatUp_spec ops c end_ step fuel cur l, rangeFloatDown_spec ops c end_ step fuel cur l⟩

-- non-vacuity: on the bit-pattern toy instance (every sum is 0, "less" is < on
-- patterns) the ascending loop from 0 with end 5 outputs 0 and stops on the guard
example : rangeFloatUp C11.bitsOps ⟨fun a b => a < b, fun a b => a ≤ b⟩ 5 1 10 0 = .ok [0] := by decide
example : HasFloat ([Num.flt (0 : UInt64), .int 3] ++ (none : Option (Num UInt64)).toList) :=
  ⟨.flt 0, by simp, rfl⟩
