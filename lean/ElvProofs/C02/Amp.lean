/-
Judgment with an extra allowed post-divergence state (`JQ`), the `&`-pending
state of `Form.parse`, and the rules for both.
-/
import ElvProofs.C02.Leaf
namespace C02
open Go
open C01
open Gen.C01Chars

/- The rules are applied by unification against the text of a function; keep the
monad operations, the primitives and every model function opaque so that a rule
that does not apply fails at the head symbol instead of evaluating both sides
(each lemma opens the one function it is about with `unfold`). -/
attribute [local irreducible] M.bind M.pure C01.panic C01.outOfFuel C01.getPos C01.getEnv C01.loopFuel
  C01.sliceSrc C01.restSrc C01.peek C01.hasPrefix C01.next C01.backup C01.errorp C01.error C01.done
  addSep parseSep commentLoop spacesLoop parseSpacesInner parseSpaces parseSpacesAndNewlines
  singleQuotedLoop singleQuotedInner hexLoop octLoop doubleQuotedEscape doubleQuotedLoop doubleQuotedInner
  skipWhile bareword singleQuoted doubleQuoted variableP starWildcard questionWildcard parseSepsLoop
  parseSeps chunkLoop chunkBody pipelineLoop pipelineBody formLoop formBody setMode redirRest redirBody
  filterLoop filterBody tilde compoundLoop compoundBody indexingLoop indexingBody arrayLoop arrayBody
  exitusCapture outputCapture lbracketLoop lbracket lambdaLoop lambda bracedLoop lbrace primaryBody
  mapPairBody body wrap parseNT

/-- `J2` with an extra way `X` for the p-run to have diverged. -/
structure JQ {α} (c : Cut) (X : α → St → Prop) (m m' : M α) : Prop where
  mono : Mono c.es m
  uu : UU c.ep m'
  sy : c.Good → Sy c m m' (fun a st => AtEOF c.ep 0 [] st ∨ X a st)

theorem J2.jq {α} {c : Cut} {X : α → St → Prop} {m m' : M α} (h : J2 c m m') : JQ c X m m' where
  mono := h.mono
  uu := h.uu
  sy := fun g => (h.sy g).conseq (fun _ _ hq => Or.inl hq)

theorem JQ.j2 {α} {c : Cut} {X : α → St → Prop} {m m' : M α} (h : JQ c X m m')
    (hx : ∀ a st, X a st → False) : J2 c m m' where
  mono := h.mono
  uu := h.uu
  sy := fun g => (h.sy g).conseq (fun a st hq => hq.elim id (fun hxx => (hx a st hxx).elim))

theorem JQ.weaken {α} {c : Cut} {X X' : α → St → Prop} {m m' : M α} (h : JQ c X m m')
    (hx : ∀ a st, X a st → X' a st) : JQ c X' m m' where
  mono := h.mono
  uu := h.uu
  sy := fun g => (h.sy g).conseq (fun a st hq => hq.elim Or.inl (fun hxx => Or.inr (hx a st hxx)))

theorem JQ.bind {α β} {c : Cut} {X1 : α → St → Prop} {X : β → St → Prop} {m m' : M α} {f f' : α → M β}
    (hm : JQ c X1 m m') (hf : ∀ a, JQ c X (f a) (f' a))
    (hx : c.Good → ∀ a, Tr c.ep (X1 a) (f' a) (fun b st => AtEOF c.ep 0 [] st ∨ X b st)) :
    JQ c X (m >>= f) (m' >>= f') where
  mono := hm.mono.bind (fun a => (hf a).mono)
  uu := hm.uu.bind (fun a => (hf a).uu)
  sy := fun g => (hm.sy g).bind (fun a => (hf a).mono) (fun a => (hf a).sy g) (by
    intro a st hp b st' hr
    rcases hp with hp | hp
    · exact Or.inl ((hf a).uu 0 [] st hp b st' hr)
    · exact hx g a st hp b st' hr)

theorem JQ.bind_j2 {α β} {c : Cut} {X : β → St → Prop} {m m' : M α} {f f' : α → M β}
    (hm : J2 c m m') (hf : ∀ a, JQ c X (f a) (f' a)) : JQ c X (m >>= f) (m' >>= f') :=
  JQ.bind (X1 := fun _ _ => False) hm.jq hf (fun _ _ => Tr.false)

theorem JQ.ite {α} {c : Cut} {X : α → St → Prop} {p : Prop} [Decidable p] {a b a' b' : M α}
    (h1 : p → JQ c X a a') (h2 : ¬p → JQ c X b b') : JQ c X (if p then a else b) (if p then a' else b') := by
  by_cases h : p
  · simp only [h, if_true]; exact h1 h
  · simp only [h, if_false]; exact h2 h

theorem JQ.getEnv_bind {β} {c : Cut} {X : β → St → Prop} {f f' : Env → M β} (h : JQ c X (f c.es) (f' c.ep)) :
    JQ c X (getEnv >>= f) (getEnv >>= f') where
  mono := by
    intro st b st' hr
    rw [bind_of_eq (getEnv_eq _ _)] at hr
    exact h.mono _ _ _ hr
  uu := by
    intro n E st hp b st' hr
    rw [bind_of_eq (getEnv_eq _ _)] at hr
    exact h.uu n E _ hp _ _ hr
  sy := by
    intro g st hs b st2 hr hnil b' st2' hr'
    rw [bind_of_eq (getEnv_eq _ _)] at hr hr'
    exact h.sy g _ hs _ _ hr hnil _ _ hr'

theorem JQ.loopFuel_bind {β} {c : Cut} {X : β → St → Prop} {f f' : Nat → M β}
    (h : JQ c X (f (c.s.length + 2)) (f' ((c.s.take c.k).length + 2))) :
    JQ c X (loopFuel >>= f) (loopFuel >>= f') where
  mono := by
    intro st b st' hr
    rw [bind_of_eq (loopFuel_eq _ _)] at hr
    exact h.mono _ _ _ hr
  uu := by
    intro n E st hp b st' hr
    rw [bind_of_eq (loopFuel_eq _ _)] at hr
    exact h.uu n E _ hp _ _ hr
  sy := by
    intro g st hs b st2 hr hnil b' st2' hr'
    rw [bind_of_eq (loopFuel_eq _ _)] at hr hr'
    exact h.sy g _ hs _ _ hr hnil _ _ hr'

theorem JQ.loop2 {α Y} {c : Cut} (X : Y → α → St → Prop) (L L' : Nat → Y → M α)
    (h0 : ∀ x, L 0 x = C01.outOfFuel) (h0' : ∀ x, L' 0 x = C01.outOfFuel)
    (step : ∀ a b, (∀ x, JQ c (X x) (L a x) (L' b x)) → ∀ x, JQ c (X x) (L (a + 1) x) (L' (b + 1) x)) :
    ∀ n n' x, JQ c (X x) (L n x) (L' n' x) := by
  have diag : ∀ n x, JQ c (X x) (L n x) (L' n x) := by
    intro n
    induction n with
    | zero => intro x; rw [h0, h0']; exact (J2.outOfFuel c).jq
    | succ n ih => exact step n n ih
  intro n
  induction n with
  | zero => intro n' x; rw [h0]; exact (J2.fuel_left (diag n' x).uu).jq
  | succ n ih =>
    intro n' x
    cases n' with
    | zero => rw [h0' x]; exact (J2.fuel_right (diag (n + 1) x).mono).jq
    | succ n' => exact step n n' (ih n') x

/-! ### The `&`-pending state

`Form.parse` looks one rune past a `&` (`next`, `peek`, `backup`).  When the cut is
right after that `&`, the p-run comes back from the look-ahead to the position of
the `&`, with nothing recorded: not at the end of the prefix yet, but everything
before the cut has been read in lock step and the only thing left is that `&`. -/

def AmpP (c : Cut) (st : St) : Prop :=
  st.errors = [] ∧ st.overEOF = 0 ∧ st.pos + 1 = c.k ∧ (c.s.take c.k).drop st.pos = [38]

theorem decodeRune_amp : decodeRune [38] = (38, 1) := by decide

theorem AmpP.peek {c : Cut} (g : c.Good) {st : St} (h : AmpP c st) : peek c.ep st = .ok 38 st := by
  obtain ⟨_, _, h3, h4⟩ := h
  have hl := g.plen
  unfold C01.peek
  simp only [Cut.ep_src, hl, h4, decodeRune_amp]
  have h1 : ¬ (st.pos = c.k) := by omega
  have h2 : st.pos ≤ c.k := by omega
  simp [h1, h2]

theorem AmpP.next {c : Cut} (g : c.Good) {st : St} (h : AmpP c st) :
    next c.ep st = .ok 38 { st with pos := c.k } := by
  obtain ⟨_, _, h3, h4⟩ := h
  have hl := g.plen
  unfold C01.next
  simp only [Cut.ep_src, hl, h4, decodeRune_amp]
  have h1 : ¬ (st.pos = c.k) := by omega
  have h2 : st.pos ≤ c.k := by omega
  simp [h1, h2, h3]

theorem Tr.amp_peek_bind {β} {c : Cut} (g : c.Good) {f : Int → M β} {Q : β → St → Prop}
    (h : Tr c.ep (AmpP c) (f 38) Q) : Tr c.ep (AmpP c) (peek >>= f) Q := by
  intro st hp b st' hr
  rw [bind_of_eq (hp.peek g)] at hr
  exact h st hp b st' hr

theorem Tr.amp_next_bind {β} {c : Cut} (g : c.Good) {f : Int → M β} {Q : β → St → Prop}
    (h : Tr c.ep (AtEOF c.ep 0 []) (f 38) Q) : Tr c.ep (AmpP c) (next >>= f) Q := by
  intro st hp b st' hr
  rw [bind_of_eq (hp.next g)] at hr
  refine h _ ?_ b st' hr
  refine ⟨by simp [g.plen], Nat.zero_le _, [], by simp [hp.1], by intro x hx; cases hx⟩

theorem Pure.addSep (nb : NB) : Pure (C01.addSep nb) := by
  unfold C01.addSep
  refine Pure.bind Pure.getPos (fun _ => Pure.ite (fun _ => ?_) (fun _ => Pure.pure _))
  exact Pure.bind (Pure.sliceSrc _ _) (fun _ => Pure.pure _)

theorem spacesLoop_amp {c : Cut} (g : c.Good) : ∀ n, Tr c.ep (AmpP c) (spacesLoop false n) (fun _ => AmpP c)
  | 0 => by
    intro st _ a st' hr
    simp only [spacesLoop] at hr
    exact absurd hr (by simp [C01.outOfFuel])
  | n + 1 => by
    unfold spacesLoop
    refine Tr.amp_peek_bind g ?_
    simp [IsInlineWhitespace]
    exact Tr.pure (fun _ h => h)

theorem parseSpaces_amp {c : Cut} (g : c.Good) (nb : NB) :
    Tr c.ep (AmpP c) (parseSpaces nb) (fun _ => AmpP c) := by
  unfold parseSpaces parseSpacesInner
  refine Tr.bind (Tr.of_pure Pure.loopFuel) (fun k => ?_)
  refine Tr.bind (spacesLoop_amp g k) (fun _ => Tr.of_pure (Pure.addSep nb))

end C02
