/-
From the judgments to statements about `parse`: the flag criterion, the run
from the end of the input, the prefix theorem, and the editor's decision.
-/
import ElvProofs.C02.Grammar2
import ElvProofs.C01
import ElvModel.C02.Model
namespace C02
open Go
open C01
open Gen.C01Chars

def st0 : St := { pos := 0, overEOF := 0, errors := [] }

theorem parseAsFuel_entry (ip : Int → Bool) (fuel : Nat) (nt : NT) (src : Bytes) :
    parseAsFuel ip fuel nt src =
      (match entry fuel nt { isPrint := ip, src := src } st0 with
        | .ok n s => .ok n s.errors
        | .panic w => .panic w
        | .fuel => .fuel) := rfl

theorem parse_ok_entry {ip : Int → Bool} {src : Bytes} {t : Node} {errs : List PErr}
    (h : parse ip src = .ok t errs) :
    ∃ st, entry (defaultFuel src) .chunk { isPrint := ip, src := src } st0 = .ok t st ∧ st.errors = errs := by
  unfold parse parseAs at h
  rw [parseAsFuel_entry] at h
  cases hr : entry (defaultFuel src) .chunk { isPrint := ip, src := src } st0 with
  | ok n s =>
    rw [hr] at h
    simp only [ParseResult.ok.injEq] at h
    exact ⟨s, by rw [h.1], h.2⟩
  | panic w => rw [hr] at h; cases h
  | fuel => rw [hr] at h; cases h

/-- `Parse` always returns a tree and a list of errors (C01). -/
theorem parse_total (ip : Int → Bool) (src : Bytes) : ∃ t errs, parse ip src = .ok t errs := by
  obtain ⟨t, errs, h, _⟩ := C01_total_lossless ip src
  exact ⟨t, errs, h⟩

/-- (i) every error `Parse` returns carries the flag `Partial ⇔ From = len(src)`. -/
theorem flag_iff_at_end {ip : Int → Bool} {src : Bytes} {t : Node} {errs : List PErr}
    (h : parse ip src = .ok t errs) : ∀ x ∈ errs, (x.partial_ = true ↔ x.frm = src.length) := by
  obtain ⟨st, hr, he⟩ := parse_ok_entry h
  let c : Cut := { ip := ip, s := src, k := 0 }
  obtain ⟨l, hl, hf⟩ := (entry_J2 c (defaultFuel src) 0 .chunk rfl).mono st0 t st hr
  simp only [st0, List.nil_append] at hl
  rw [← he, hl]
  exact hf

/-- (iii) from a state at the end of the input (`pos = len(src)`, so `peek` is
`EOF`), every grammar function stays there, only appends errors that are
partial and start at `len(src)`, and leaves at least the `EOF` reads it found
(`backup` only takes back reads past `EOF` it made itself: the `overEOF`
discipline). -/
theorem at_eof_partial (ip : Int → Bool) (src : Bytes) (fuel : Nat) (nt : NT) (st st' : St) (a : Node)
    (hpos : st.pos = src.length) (hr : parseNT fuel nt { isPrint := ip, src := src } st = .ok a st') :
    st'.pos = src.length ∧ st.overEOF ≤ st'.overEOF ∧
      ∃ l, st'.errors = st.errors ++ l ∧ ∀ x ∈ l, x.partial_ = true ∧ x.frm = src.length := by
  let c : Cut := { ip := ip, s := src ++ [0], k := src.length }
  have hep : c.ep = { isPrint := ip, src := src } := by
    simp [Cut.ep, c]
  have hj := parseNT_JQ c 0 fuel nt
  have hu := hj.uu st.overEOF st.errors st
    ⟨by rw [hep]; exact hpos, Nat.le_refl _, [], by simp, by intro x hx; cases hx⟩ a st' (by rw [hep]; exact hr)
  rw [hep] at hu
  obtain ⟨h1, h2, l, h3, h4⟩ := hu
  refine ⟨h1, h2, l, h3, ?_⟩
  -- the position of the new errors: the flag criterion
  let c' : Cut := { ip := ip, s := src, k := 0 }
  obtain ⟨l', hl', hf'⟩ := (parseNT_JQ c' fuel 0 nt).mono st a st' hr
  have : l' = l := List.append_cancel_left (hl'.symm.trans h3)
  subst this
  intro x hx
  exact ⟨h4 x hx, (hf' x hx).1 (h4 x hx)⟩

/-- Lock step of one parser action on a source `s` and on its prefix cut at
`k`, from a common state in which nothing at or beyond `k` has been observed:
if the run on `s` returns without an error, the run on the prefix returns the
same value and state, or it has reached the end of the prefix having recorded
only partial errors. -/
def LockStep {α} (ip : Int → Bool) (s : Bytes) (k : Nat) (m : M α) : Prop :=
  ∀ st : St, st.errors = [] → st.overEOF = 0 → st.pos ≤ k → Bnd s st.pos →
    ∀ a st1, m { isPrint := ip, src := s } st = .ok a st1 → st1.errors = [] →
      ∀ a' st1', m { isPrint := ip, src := s.take k } st = .ok a' st1' →
        (a' = a ∧ st1' = st1) ∨ (st1'.pos = k ∧ ∀ x ∈ st1'.errors, x.partial_ = true)

theorem J2.lockStep {α} {c : Cut} {m : M α} (h : J2 c m m) (g : c.Good) : LockStep c.ip c.s c.k m := by
  intro st h1 h2 h3 h4 a st1 hr hnil a' st1' hr'
  rcases h.sy g st ⟨h1, h2, h3, h4⟩ a st1 hr hnil a' st1' hr' with ⟨e1, e2, _⟩ | hq
  · exact Or.inl ⟨e1, e2⟩
  · obtain ⟨q1, _, l, q3, q4⟩ := hq
    refine Or.inr ⟨by rw [q1]; simp only [Cut.ep_src]; exact g.plen, ?_⟩
    rw [q3]; simpa using q4

/-- (v) the prefix theorem on the model: if `Parse` reports no error on `s`,
then on the prefix of `s` cut at any boundary `k < len(s)` every error it
reports is partial. -/
theorem prefix_partial {ip : Int → Bool} {s : Bytes} {k : Nat} {t : Node}
    (hs : parse ip s = .ok t []) (hk : k < s.length) (hb : Bnd s k) {t' : Node} {errs' : List PErr}
    (hp : parse ip (s.take k) = .ok t' errs') : ∀ x ∈ errs', x.partial_ = true := by
  obtain ⟨st, hr, he⟩ := parse_ok_entry hs
  obtain ⟨st', hr', he'⟩ := parse_ok_entry hp
  let c : Cut := { ip := ip, s := s, k := k }
  have g : c.Good := ⟨hk, hb⟩
  have hj := entry_J2 c (defaultFuel s) (defaultFuel (s.take k)) .chunk rfl
  rcases hj.sy g st0 ⟨rfl, rfl, Nat.zero_le _, Bnd.zero⟩ t st hr he t' st' hr' with ⟨_, e2, _⟩ | hq
  · rw [← he', e2, he]; intro x hx; cases hx
  · obtain ⟨_, _, l, q3, q4⟩ := hq
    rw [← he', q3]; simpa using q4

/-! ### Rune boundaries -/

/-- The offsets `for i := range s` yields are boundaries. -/
theorem runesFrom_bnd (s : Bytes) : ∀ (fuel off : Nat), Bnd s off →
    ∀ x ∈ runesFrom fuel off (s.drop off), Bnd s x.1 ∧ x.1 < s.length
  | 0, _, _ => by intro x hx; simp [runesFrom] at hx
  | fuel + 1, off, hb => by
    intro x hx
    match hd : s.drop off with
    | [] => rw [hd] at hx; simp [runesFrom] at hx
    | b :: t =>
      have hlt : off < s.length := by
        rcases Nat.lt_or_ge off s.length with h | h
        · exact h
        · rw [List.drop_eq_nil_of_le h] at hd; cases hd
      rw [hd] at hx
      simp only [runesFrom, List.mem_cons] at hx
      rcases hx with rfl | hx
      · exact ⟨hb, hlt⟩
      · have hstep := Bnd.step hb hlt
        rw [hd] at hstep
        have hdrop : (b :: t).drop (decodeRune (b :: t)).2 = s.drop (off + (decodeRune (b :: t)).2) := by
          rw [← hd, List.drop_drop]
        rw [hdrop] at hx
        exact runesFrom_bnd s fuel _ hstep x hx

theorem runes_bnd (s : Bytes) : ∀ x ∈ runes s, Bnd s x.1 ∧ x.1 < s.length := by
  have := runesFrom_bnd s s.length 0 Bnd.zero
  simpa [runes] using this

/-! ### The editor -/

theorem noErrorAtEnd_eq (n : Nat) : ∀ errs : List PErr,
    noErrorAtEnd n errs = !errs.any (fun e => e.frm == n)
  | [] => rfl
  | e :: rest => by
    simp only [noErrorAtEnd, List.any_cons]
    by_cases h : (e.frm == n) = true
    · simp [h]
    · simp only [h, Bool.false_eq_true, if_false, Bool.false_or]
      exact noErrorAtEnd_eq n rest

theorem any_eq_of_forall {α} (p q : α → Bool) : ∀ l : List α, (∀ x ∈ l, p x = q x) → l.any p = l.any q
  | [], _ => rfl
  | a :: l, h => by
    simp only [List.any_cons]
    rw [h a (List.mem_cons_self ..), any_eq_of_forall p q l (fun x hx => h x (List.mem_cons_of_mem _ hx))]

/-- `isSyntaxComplete` answers "no" exactly when some error is marked partial. -/
theorem isSyntaxComplete_iff {ip : Int → Bool} {code : Bytes} {t : Node} {errs : List PErr}
    (h : parse ip code = .ok t errs) :
    isSyntaxComplete ip code = .ok (!errs.any (fun e => e.partial_)) := by
  unfold isSyntaxComplete parseErrors
  rw [h]
  simp only [noErrorAtEnd_eq]
  congr 2
  apply any_eq_of_forall
  intro x hx
  have := flag_iff_at_end h x hx
  by_cases hp : x.partial_ = true
  · rw [hp]; simpa using this.1 hp
  · have hn : ¬ x.frm = code.length := fun he => hp (this.2 he)
    simp only [Bool.not_eq_true] at hp
    rw [hp]; simpa using hn

theorem insertAtDot_ok (buf : CodeBuffer) (text : Bytes) (h0 : 0 ≤ buf.dot) (h1 : buf.dot ≤ buf.content.length) :
    insertAtDot buf text =
      .ok { content := buf.content.take buf.dot.toNat ++ text ++ buf.content.drop buf.dot.toNat,
            dot := buf.dot + text.length } := by
  unfold insertAtDot slice
  have ha : (0 : Int) ≤ 0 ∧ (0 : Int) ≤ buf.dot ∧ buf.dot ≤ (buf.content.length : Int) := ⟨Int.le_refl 0, h0, h1⟩
  have hb : (0 : Int) ≤ buf.dot ∧ buf.dot ≤ (buf.content.length : Int) ∧
      ((buf.content.length : Int) ≤ (buf.content.length : Int)) := ⟨h0, h1, Int.le_refl _⟩
  simp only [ha, hb, and_self, if_true, Int.toNat_zero, List.drop_zero, Nat.sub_zero, Int.toNat_natCast]
  have : List.take (buf.content.length - buf.dot.toNat) (List.drop buf.dot.toNat buf.content) =
      List.drop buf.dot.toNat buf.content := List.take_of_length_le (by simp)
  rw [this]

end C02
