/-
`Pipeline.parse` (which takes the pending `&` of a `Form` as the background
marker), the dispatch `body`, the wrapper `parse[N]` and the recursion.
-/
import ElvProofs.C02.Grammar
namespace C02
open Go
open C01
open Gen.C01Chars

/- The rules are applied by unification against the text of a function; keep the
monad operations, the primitives and every model function opaque so that a rule
that does not apply fails at the head symbol instead of evaluating both sides
(each lemma opens the one function it is about with `unfold`). -/
attribute [local irreducible] M.bind M.pure C01.panic C01.outOfFuel C01.getPos C01.getEnv C01.loopFuel
  C01.sliceSrc C01.restSrc C01.peek C01.hasPrefix C01.next C01.backup C01.errorp C01.error C01.done
  addSep parseSep commentLoop spacesLoop parseSpacesInner parseSpaces parseSpacesAndNewlines
  singleQuotedLoop singleQuotedInner hexLoop octLoop doubleQuotedEscape doubleQuotedLoop doubleQuotedInner
  skipWhile bareword singleQuoted doubleQuoted variableP starWildcard questionWildcard parseSepsLoop
  parseSeps chunkLoop chunkBody pipelineLoop pipelineBody formLoop formBody setMode redirRest redirBody
  filterLoop filterBody tilde compoundLoop compoundBody indexingLoop indexingBody arrayLoop arrayBody
  exitusCapture outputCapture lbracketLoop lbracket lambdaLoop lambda bracedLoop lbrace primaryBody
  mapPairBody body wrap parseNT

section
variable {c : Cut} {rec rec' : NT → M Node}

/-- extra post-divergence state of `pipelineLoop`: `&`-pending, not "returned" -/
def XPL (c : Cut) : Bool × NB → St → Prop := fun a st => AmpP c st ∧ a.1 = false

theorem pipelineLoop_amp (g : c.Good) :
    ∀ n nb, Tr c.ep (AmpP c) (pipelineLoop rec' n nb) (fun a st => AmpP c st ∧ a.1 = false)
  | 0, nb => by
    intro st _ a st' hr
    simp only [pipelineLoop] at hr
    exact absurd hr (by simp [C01.outOfFuel])
  | n + 1, nb => by
    unfold pipelineLoop parseSep
    refine Tr.bind (Tr.of_pure Pure.getEnv) (fun env => ?_)
    refine Tr.bind (Q1 := fun a st => AmpP c st ∧ a = (false, nb)) ?_ (fun a => ?_)
    · refine Tr.amp_peek_bind g ?_
      rw [if_neg (by decide)]
      exact Tr.pure (fun _ h => ⟨h, rfl⟩)
    · refine Tr.pre (R := a = (false, nb)) (fun _ h => h.2) (fun ha => ?_)
      subst ha
      exact Tr.pure (fun _ h => ⟨h.1, rfl⟩)

theorem pipelineLoop_JQ (hrec : Rec c rec rec') :
    ∀ n n' nb, JQ c (XPL c) (pipelineLoop rec n nb) (pipelineLoop rec' n' nb) := by
  refine JQ.loop2 (fun _ => XPL c) (fun n nb => pipelineLoop rec n nb) (fun n nb => pipelineLoop rec' n nb)
    (fun _ => by simp only [pipelineLoop]) (fun _ => by simp only [pipelineLoop]) ?_
  intro a b ih nb
  show JQ c (XPL c) (pipelineLoop rec (a + 1) nb) (pipelineLoop rec' (b + 1) nb)
  unfold pipelineLoop
  refine JQ.getEnv_bind ?_
  refine JQ.bind_j2 (parseSep_J2 c _ _) (fun x => ?_)
  split
  refine JQ.ite (fun _ => ?_) (fun _ => (J2.pure c _).jq)
  refine JQ.bind_j2 (parseSpacesAndNewlines_J2 c _) (fun _ => JQ.bind_j2 (J2.peek c) (fun _ => ?_))
  refine JQ.ite (fun _ => (J2.bind (J2.error c _) (fun _ => J2.pure c _)).jq) (fun _ => ?_)
  refine JQ.bind (hrec .form) (fun _ => ih _) (fun g f => ?_)
  exact (pipelineLoop_amp g _ _).conseq (fun _ h => h.2) (fun _ _ h => Or.inr h)

/-- the rest of `Pipeline.parse` after the loop -/
def pipelineTail (x : Bool × NB) : M NB :=
  match x with
  | (returned, nb) =>
    if returned then pure nb
    else do
      let nb ← parseSpaces nb
      let r ← peek
      if r == 38 then do
        let _ ← next
        let nb ← addSep nb
        let nb := { nb with f := { nb.f with flag := true } }
        parseSpaces nb
      else pure nb

theorem pipelineTail_J2 (c : Cut) (x : Bool × NB) : J2 c (pipelineTail x) (pipelineTail x) := by
  unfold pipelineTail
  g_walk

theorem pipelineTail_amp (g : c.Good) (x : Bool × NB) :
    Tr c.ep (XPL c x) (pipelineTail x) (fun _ st => AtEOF c.ep 0 [] st) := by
  obtain ⟨returned, nb⟩ := x
  refine Tr.pre (R := returned = false) (fun _ h => h.2) (fun hr => ?_)
  subst hr
  unfold pipelineTail
  simp only [Bool.false_eq_true, if_false]
  refine Tr.bind ((parseSpaces_amp g nb).conseq (fun _ h => h.1) (fun _ _ h => h)) (fun nb' => ?_)
  refine Tr.amp_peek_bind g ?_
  rw [if_pos (by decide)]
  refine Tr.amp_next_bind g ?_
  exact Tr.uu_bind (addSep_J2 c _).uu (fun _ => (parseSpaces_J2 c _).uu 0 [])

theorem pipelineBody_J2 (hrec : Rec c rec rec') (nb : NB) : J2 c (pipelineBody rec nb) (pipelineBody rec' nb) := by
  have h : JQ c (fun _ _ => False) (pipelineBody rec nb) (pipelineBody rec' nb) := by
    unfold pipelineBody
    refine JQ.bind (hrec .form) (fun f => ?_) (fun g f => ?_)
    · refine JQ.loopFuel_bind ?_
      refine JQ.bind (pipelineLoop_JQ hrec _ _ _) (fun x => (pipelineTail_J2 c x).jq) (fun g x => ?_)
      exact (pipelineTail_amp g x).conseq (fun _ h => h) (fun _ _ h => Or.inl h)
    · refine Tr.bind (Tr.of_pure Pure.loopFuel) (fun k => ?_)
      refine Tr.bind ((pipelineLoop_amp g _ _).conseq (fun _ h => h.2) (fun _ _ h => h)) (fun x => ?_)
      exact (pipelineTail_amp g x).conseq (fun _ h => h) (fun _ _ h => Or.inl h)
  exact h.j2 (fun _ _ hx => hx)

/-! ### dispatch, wrapper, recursion -/

def XB (c : Cut) (nt : NT) : NB → St → Prop := fun _ st => isFormNT nt = true ∧ AmpP c st

theorem body_JQ (hrec : Rec c rec rec') (nt : NT) (nb : NB) :
    JQ c (XB c nt) (body rec nt nb) (body rec' nt nb) := by
  cases nt with
  | chunk => simp only [body]; exact (chunkBody_J2 hrec nb).jq
  | pipeline => simp only [body]; exact (pipelineBody_J2 hrec nb).jq
  | form => simp only [body]; exact (formBody_JQ hrec nb).weaken (fun _ _ h => ⟨rfl, h⟩)
  | redir left => simp only [body]; exact (redirBody_J2 hrec left nb).jq
  | filter => simp only [body]; exact (filterBody_J2 hrec nb).jq
  | compound _ => simp only [body]; exact (compoundBody_J2 hrec nb).jq
  | indexing _ => simp only [body]; exact (indexingBody_J2 hrec nb).jq
  | array => simp only [body]; exact (arrayBody_J2 hrec nb).jq
  | primary _ => simp only [body]; exact (primaryBody_J2 hrec nb).jq
  | mapPair => simp only [body]; exact (mapPairBody_J2 hrec nb).jq

theorem wrap_JQ (hrec : Rec c rec rec') (nt : NT) : JQ c (XN c nt) (wrap rec nt) (wrap rec' nt) := by
  unfold wrap
  refine JQ.bind_j2 (J2.getPos c) (fun begin => ?_)
  refine JQ.bind (body_JQ hrec nt _) (fun nb => J2.jq (by g_walk)) (fun g nb => ?_)
  refine (Tr.of_pure (P := XB c nt nb) ?_).conseq (fun _ h => h) (fun _ _ h => Or.inr h)
  exact Pure.bind Pure.getPos (fun _ => Pure.bind (Pure.sliceSrc _ _) (fun _ => Pure.pure _))

theorem parseNT_JQ (c : Cut) : ∀ n n' nt, JQ c (XN c nt) (parseNT n nt) (parseNT n' nt) := by
  refine JQ.loop2 (fun nt => XN c nt) parseNT parseNT (fun _ => by simp only [parseNT])
    (fun _ => by simp only [parseNT]) ?_
  intro a b ih nt
  show JQ c (XN c nt) (parseNT (a + 1) nt) (parseNT (b + 1) nt)
  unfold parseNT
  exact wrap_JQ (rec := fun nt' => parseNT a nt') (rec' := fun nt' => parseNT b nt') ih nt

theorem parseNT_J2 (c : Cut) (n n' : Nat) (nt : NT) (h : isFormNT nt = false) :
    J2 c (parseNT n nt) (parseNT n' nt) :=
  Rec.j2 (rec := parseNT n) (rec' := parseNT n') (fun nt => parseNT_JQ c n n' nt) nt h

/-! ### `done` and the entry point -/

theorem done_J2 (c : Cut) : J2 c done done where
  mono := by
    intro st a st' hr
    unfold C01.done at hr
    split at hr
    · split at hr
      · exact Mono.error _ _ st a st' hr
      · simp [C01.panic] at hr
    · simp only [Out.ok.injEq] at hr
      rw [← hr.2]
      exact ⟨[], by simp, by intro x hx; cases hx⟩
  uu := by
    intro n E st hp a st' hr
    unfold C01.done at hr
    simp only [hp.1, ne_eq, not_true_eq_false, if_false, Out.ok.injEq] at hr
    rw [← hr.2]
    exact hp
  sy := by
    intro g st hs a st1 hr hnil
    exfalso
    have hne : st.pos ≠ c.es.src.length := by
      have := g.lt; have := hs.2.2.1; simp only [Cut.es_src]; omega
    have hle : st.pos ≤ c.es.src.length := by
      have := g.lt; have := hs.2.2.1; simp only [Cut.es_src]; omega
    unfold C01.done at hr
    simp only [hne, ne_eq, not_false_eq_true, if_true, hle] at hr
    unfold C01.error at hr
    have := errorp_ok hr
    subst this
    simp at hnil

/-- the computation `ParseAs` runs -/
def entry (fuel : Nat) (nt : NT) : M Node := do
  let n ← parseNT fuel nt
  done
  pure n

theorem entry_J2 (c : Cut) (n n' : Nat) (nt : NT) (h : isFormNT nt = false) :
    J2 c (entry n nt) (entry n' nt) := by
  unfold entry
  exact J2.bind (parseNT_J2 c n n' nt h) (fun _ => J2.bind (done_J2 c) (fun _ => J2.pure c _))

end
end C02
