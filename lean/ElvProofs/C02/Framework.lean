/-
The judgments of the prefix proof.

A *cut* is a source `s` and a position `k`; the parser is run on `s` (the
s-run, environment `es`) and on the prefix `s.take k` (the p-run, `ep`).

* `Mono e m`   — `m` only appends errors, and each appended error carries the
                 flag `Partial ⇔ From = len(src)` (`errorp` is the only writer).
* `UU e m`     — started at the end of the input (`pos = len`), `m` stays there and
                 appends only partial errors, and never takes back more `EOF`
                 reads than it made itself (`AtEOF e n E`: `overEOF ≥ n`).
* `Sy c m m' Q` — lock step: from a common state in which nothing at or beyond the
                 cut has been observed (`Sync`), if the s-run of `m` returns without
                 having recorded an error, the p-run of `m'` returns the same value
                 and state (still `Sync`), or has diverged into a state `Q`.
* `J2 c m m'`  — the three together, with `Q` = "at the end of the prefix, all
                 errors partial".  Closed under `bind`, so a grammar function that
                 uses no `backup` is handled by walking its text.
-/
import ElvProofs.C02.Prefix
namespace C02
open Go
open C01
open Gen.C01Chars

structure Cut where
  ip : Int → Bool
  s : Bytes
  k : Nat

namespace Cut
def es (c : Cut) : Env := { isPrint := c.ip, src := c.s }
def ep (c : Cut) : Env := { isPrint := c.ip, src := c.s.take c.k }

/-- The cut is proper (`k < len`) and at a boundary of `s`. -/
structure Good (c : Cut) : Prop where
  lt : c.k < c.s.length
  bnd : Bnd c.s c.k

@[simp] theorem es_src (c : Cut) : c.es.src = c.s := rfl
@[simp] theorem ep_src (c : Cut) : c.ep.src = c.s.take c.k := rfl
@[simp] theorem es_ip (c : Cut) : c.es.isPrint = c.ip := rfl
@[simp] theorem ep_ip (c : Cut) : c.ep.isPrint = c.ip := rfl

theorem Good.plen {c : Cut} (g : c.Good) : (c.s.take c.k).length = c.k := by
  have := g.lt
  simp; omega
end Cut

/-! ### Runs -/

theorem bind_ok {α β} {m : M α} {f : α → M β} {e : Env} {st st2 : St} {b : β} :
    (m >>= f) e st = .ok b st2 ↔ ∃ a st1, m e st = .ok a st1 ∧ f a e st1 = .ok b st2 := by
  rw [bind_apply]
  cases h : m e st with
  | ok a s' =>
    constructor
    · intro h2; exact ⟨a, s', rfl, h2⟩
    · rintro ⟨a1, s1, h1, h2⟩
      simp only [Out.ok.injEq] at h1
      obtain ⟨rfl, rfl⟩ := h1
      exact h2
  | panic w => simp
  | fuel => simp

/-! ### `Mono` -/

def Flagged (e : Env) (l : List PErr) : Prop :=
  ∀ x ∈ l, (x.partial_ = true ↔ x.frm = e.src.length)

def Mono {α} (e : Env) (m : M α) : Prop :=
  ∀ st a st', m e st = .ok a st' → ∃ l, st'.errors = st.errors ++ l ∧ Flagged e l

/-- `m` never changes the state. -/
def Pure {α} (m : M α) : Prop := ∀ e st a st', m e st = .ok a st' → st' = st

theorem Mono.of_pure {α} {e : Env} {m : M α} (h : Pure m) : Mono e m := by
  intro st a st' hr
  have := h e st a st' hr
  subst this
  exact ⟨[], by simp, by intro x hx; cases hx⟩

theorem Mono.bind {α β} {e : Env} {m : M α} {f : α → M β} (hm : Mono e m) (hf : ∀ a, Mono e (f a)) :
    Mono e (m >>= f) := by
  intro st b st2 hr
  obtain ⟨a, st1, h1, h2⟩ := bind_ok.1 hr
  obtain ⟨l1, e1, f1⟩ := hm st a st1 h1
  obtain ⟨l2, e2, f2⟩ := hf a st1 b st2 h2
  refine ⟨l1 ++ l2, by rw [e2, e1, List.append_assoc], ?_⟩
  intro x hx
  rcases List.mem_append.1 hx with h | h
  · exact f1 x h
  · exact f2 x h

theorem Mono.nil_of_nil {α} {e : Env} {m : M α} (hm : Mono e m) {st st' : St} {a : α}
    (hr : m e st = .ok a st') (h : st'.errors = []) : st.errors = [] := by
  obtain ⟨l, e1, _⟩ := hm st a st' hr
  rw [h] at e1
  exact (List.append_eq_nil_iff.1 e1.symm).1

/-! ### `Tr`, `UU` -/

def AtEOF (e : Env) (n : Nat) (E : List PErr) (st : St) : Prop :=
  st.pos = e.src.length ∧ n ≤ st.overEOF ∧ ∃ l, st.errors = E ++ l ∧ ∀ x ∈ l, x.partial_ = true

theorem AtEOF.weaken {e : Env} {n n' : Nat} {E : List PErr} {st : St} (h : AtEOF e n E st) (hn : n' ≤ n) :
    AtEOF e n' E st := ⟨h.1, Nat.le_trans hn h.2.1, h.2.2⟩

def Tr {α} (e : Env) (P : St → Prop) (m : M α) (Q : α → St → Prop) : Prop :=
  ∀ st, P st → ∀ a st', m e st = .ok a st' → Q a st'

theorem Tr.bind {α β} {e : Env} {P : St → Prop} {m : M α} {f : α → M β} {Q1 : α → St → Prop}
    {Q : β → St → Prop} (hm : Tr e P m Q1) (hf : ∀ a, Tr e (Q1 a) (f a) Q) : Tr e P (m >>= f) Q := by
  intro st hp b st2 hr
  obtain ⟨a, st1, h1, h2⟩ := bind_ok.1 hr
  exact hf a st1 (hm st hp a st1 h1) b st2 h2

theorem Tr.pure {α} {e : Env} {P : St → Prop} {a : α} {Q : α → St → Prop} (h : ∀ st, P st → Q a st) :
    Tr e P (pure a : M α) Q := by
  intro st hp a' st' hr
  simp only [pure_apply, Out.ok.injEq] at hr
  obtain ⟨rfl, rfl⟩ := hr
  exact h _ hp

theorem Tr.conseq {α} {e : Env} {P P' : St → Prop} {m : M α} {Q Q' : α → St → Prop}
    (h : Tr e P m Q) (hp : ∀ st, P' st → P st) (hq : ∀ a st, Q a st → Q' a st) : Tr e P' m Q' :=
  fun st hp' a st' hr => hq a st' (h st (hp st hp') a st' hr)

theorem Tr.of_pure {α} {e : Env} {P : St → Prop} {m : M α} (h : Pure m) : Tr e P m (fun _ => P) := by
  intro st hp a st' hr
  have := h e st a st' hr
  subst this
  exact hp

/-- Split on what is known about the start state. -/
theorem Tr.pre {α} {e : Env} {P : St → Prop} {m : M α} {Q : α → St → Prop} {R : Prop}
    (hr : ∀ st, P st → R) (h : R → Tr e P m Q) : Tr e P m Q :=
  fun st hp => h (hr st hp) st hp

def UU {α} (e : Env) (m : M α) : Prop := ∀ n E, Tr e (AtEOF e n E) m (fun _ => AtEOF e n E)

theorem UU.bind {α β} {e : Env} {m : M α} {f : α → M β} (hm : UU e m) (hf : ∀ a, UU e (f a)) :
    UU e (m >>= f) := fun n E => Tr.bind (hm n E) (fun a => hf a n E)

theorem UU.of_pure {α} {e : Env} {m : M α} (h : Pure m) : UU e m := fun _ _ => Tr.of_pure h

/-! ### `Sy`, `J2` -/

def Sync (c : Cut) (st : St) : Prop :=
  st.errors = [] ∧ st.overEOF = 0 ∧ st.pos ≤ c.k ∧ Bnd c.s st.pos

def Sy {α} (c : Cut) (m m' : M α) (Q : α → St → Prop) : Prop :=
  ∀ st, Sync c st → ∀ a st1, m c.es st = .ok a st1 → st1.errors = [] →
    ∀ a' st1', m' c.ep st = .ok a' st1' → (a' = a ∧ st1' = st1 ∧ Sync c st1) ∨ Q a' st1'

/-- Diverged: the p-run is at the end of the prefix and has only partial errors. -/
def Dv {α} (c : Cut) : α → St → Prop := fun _ st => AtEOF c.ep 0 [] st

theorem Sy.bind {α β} {c : Cut} {m m' : M α} {f f' : α → M β} {Q1 : α → St → Prop} {Q : β → St → Prop}
    (hm : Sy c m m' Q1) (hmono : ∀ a, Mono c.es (f a)) (hf : ∀ a, Sy c (f a) (f' a) Q)
    (hu : ∀ a, Tr c.ep (Q1 a) (f' a) Q) : Sy c (m >>= f) (m' >>= f') Q := by
  intro st hs b st2 hr hnil b' st2' hr'
  obtain ⟨a, st1, h1, h2⟩ := bind_ok.1 hr
  obtain ⟨a', st1', h1', h2'⟩ := bind_ok.1 hr'
  have hnil1 := (hmono a).nil_of_nil h2 hnil
  rcases hm st hs a st1 h1 hnil1 a' st1' h1' with ⟨rfl, rfl, hs1⟩ | hq
  · exact hf a' st1' hs1 b st2 h2 hnil b' st2' h2'
  · exact Or.inr (hu a' st1' hq b' st2' h2')

theorem Sy.conseq {α} {c : Cut} {m m' : M α} {Q Q' : α → St → Prop} (h : Sy c m m' Q)
    (hq : ∀ a st, Q a st → Q' a st) : Sy c m m' Q' := by
  intro st hs a st1 hr hnil a' st1' hr'
  rcases h st hs a st1 hr hnil a' st1' hr' with h | h
  · exact Or.inl h
  · exact Or.inr (hq _ _ h)

structure J2 {α} (c : Cut) (m m' : M α) : Prop where
  mono : Mono c.es m
  uu : UU c.ep m'
  sy : c.Good → Sy c m m' (Dv c)

theorem J2.bind {α β} {c : Cut} {m m' : M α} {f f' : α → M β} (hm : J2 c m m')
    (hf : ∀ a, J2 c (f a) (f' a)) : J2 c (m >>= f) (m' >>= f') where
  mono := hm.mono.bind (fun a => (hf a).mono)
  uu := hm.uu.bind (fun a => (hf a).uu)
  sy := fun g => (hm.sy g).bind (fun a => (hf a).mono) (fun a => (hf a).sy g) (fun a => (hf a).uu 0 [])

theorem J2.ite {α} {c : Cut} {p : Prop} [Decidable p] {a b a' b' : M α}
    (h1 : p → J2 c a a') (h2 : ¬p → J2 c b b') : J2 c (if p then a else b) (if p then a' else b') := by
  by_cases h : p
  · simp only [h, if_true]; exact h1 h
  · simp only [h, if_false]; exact h2 h

/-! ### Primitives -/

theorem Pure.pure {α} (a : α) : Pure (pure a : M α) := by
  intro e st a' st' h
  simp only [pure_apply, Out.ok.injEq] at h
  exact h.2.symm

theorem Pure.getPos : Pure C01.getPos := by
  intro e st a st' h; simp only [C01.getPos, Out.ok.injEq] at h; exact h.2.symm
theorem Pure.getEnv : Pure C01.getEnv := by
  intro e st a st' h; simp only [C01.getEnv, Out.ok.injEq] at h; exact h.2.symm
theorem Pure.loopFuel : Pure C01.loopFuel := by
  intro e st a st' h; simp only [C01.loopFuel, Out.ok.injEq] at h; exact h.2.symm
theorem Pure.sliceSrc (a b : Nat) : Pure (C01.sliceSrc a b) := by
  intro e st x st' h
  unfold C01.sliceSrc at h
  split at h <;> simp_all
theorem Pure.peek : Pure C01.peek := by
  intro e st x st' h
  unfold C01.peek at h
  split at h
  · simp_all
  · split at h <;> simp_all
theorem Pure.hasPrefix (p : Bytes) : Pure (C01.hasPrefix p) := by
  intro e st x st' h
  unfold C01.hasPrefix at h
  split at h <;> simp_all
theorem Pure.panic {α} (w : String) : Pure (C01.panic w : M α) := by
  intro e st a st' h; simp [C01.panic] at h
theorem Pure.outOfFuel {α} : Pure (C01.outOfFuel : M α) := by
  intro e st a st' h; simp [C01.outOfFuel] at h

/-- what `errorp` appends -/
theorem errorp_ok {a b : Nat} {m : Msg} {e : Env} {st : St} {x : Unit} {st' : St}
    (h : errorp a b m e st = .ok x st') :
    st' = { st with errors := st.errors ++ [{ frm := a, to := b, partial_ := a == e.src.length, msg := m }] } := by
  unfold errorp at h
  split at h <;> simp_all

theorem Mono.errorp (e : Env) (a b : Nat) (m : Msg) : Mono e (C01.errorp a b m) := by
  intro st x st' h
  have := errorp_ok h
  subst this
  refine ⟨_, rfl, ?_⟩
  intro y hy
  simp only [List.mem_singleton] at hy
  subst hy
  simp

theorem Mono.error (e : Env) (m : Msg) : Mono e (C01.error m) := by
  intro st x st' h
  unfold C01.error at h
  exact Mono.errorp e _ _ m st x st' h

theorem Mono.next (e : Env) : Mono e C01.next := by
  intro st x st' h
  refine ⟨[], ?_, by intro y hy; cases hy⟩
  unfold C01.next at h
  split at h
  · simp only [Out.ok.injEq] at h; rw [← h.2]; simp
  · split at h
    · simp only [Out.ok.injEq] at h; rw [← h.2]; simp
    · simp at h

theorem Mono.backup (e : Env) : Mono e C01.backup := by
  intro st x st' h
  refine ⟨[], ?_, by intro y hy; cases hy⟩
  unfold C01.backup at h
  split at h
  · simp only [Out.ok.injEq] at h; rw [← h.2]; simp
  · split at h
    · simp only at h
      split at h
      · simp only [Out.ok.injEq] at h; rw [← h.2]; simp
      · simp at h
    · simp at h

/-! #### at the end of the input -/

theorem peek_at_eof {e : Env} {st : St} (h : st.pos = e.src.length) : peek e st = .ok eof st := by
  unfold peek; simp [h]

theorem next_at_eof {e : Env} {st : St} (h : st.pos = e.src.length) :
    next e st = .ok eof { st with overEOF := st.overEOF + 1 } := by
  unfold next; simp [h]

theorem backup_at_eof {e : Env} {st : St} (h : 0 < st.overEOF) :
    backup e st = .ok () { st with overEOF := st.overEOF - 1 } := by
  unfold backup; simp [h]

theorem Tr.peek_eof (e : Env) (n : Nat) (E : List PErr) :
    Tr e (AtEOF e n E) peek (fun r st => r = eof ∧ AtEOF e n E st) := by
  intro st hp a st' hr
  rw [peek_at_eof hp.1] at hr
  simp only [Out.ok.injEq] at hr
  obtain ⟨rfl, rfl⟩ := hr
  exact ⟨rfl, hp⟩

theorem Tr.next_eof (e : Env) (n : Nat) (E : List PErr) :
    Tr e (AtEOF e n E) next (fun r st => r = eof ∧ AtEOF e (n + 1) E st) := by
  intro st hp a st' hr
  rw [next_at_eof hp.1] at hr
  simp only [Out.ok.injEq] at hr
  obtain ⟨rfl, rfl⟩ := hr
  exact ⟨rfl, hp.1, Nat.succ_le_succ hp.2.1, hp.2.2⟩

theorem Tr.backup_eof (e : Env) (n : Nat) (E : List PErr) :
    Tr e (AtEOF e (n + 1) E) backup (fun _ st => AtEOF e n E st) := by
  intro st hp a st' hr
  rw [backup_at_eof (by have := hp.2.1; omega)] at hr
  simp only [Out.ok.injEq] at hr
  obtain ⟨_, rfl⟩ := hr
  exact ⟨hp.1, by have := hp.2.1; simp only; omega, hp.2.2⟩

theorem AtEOF.push {e : Env} {n : Nat} {E : List PErr} {st : St} (h : AtEOF e n E st) (x : PErr)
    (hx : x.partial_ = true) : AtEOF e n E { st with errors := st.errors ++ [x] } := by
  obtain ⟨h1, h2, l, h3, h4⟩ := h
  refine ⟨h1, h2, l ++ [x], by simp only [h3, List.append_assoc], ?_⟩
  intro y hy
  rcases List.mem_append.1 hy with h | h
  · exact h4 y h
  · simp only [List.mem_singleton] at h
    subst h
    exact hx

theorem Tr.error_eof (e : Env) (n : Nat) (E : List PErr) (m : Msg) :
    Tr e (AtEOF e n E) (C01.error m) (fun _ st => AtEOF e n E st) := by
  intro st hp a st' hr
  unfold C01.error at hr
  have hst := errorp_ok hr
  rw [hst]
  exact hp.push _ (by simp [hp.1])

theorem UU.peek (e : Env) : UU e C01.peek := UU.of_pure Pure.peek
theorem UU.next (e : Env) : UU e C01.next :=
  fun n E => (Tr.next_eof e n E).conseq (fun _ h => h) (fun _ _ h => h.2.weaken (Nat.le_succ n))
theorem UU.error (e : Env) (m : Msg) : UU e (C01.error m) := fun n E => Tr.error_eof e n E m

/-! #### in lock step -/

theorem Sync.inv_s {c : Cut} (g : c.Good) {st : St} (h : Sync c st) : Inv c.es st := by
  obtain ⟨h1, h2, h3, h4⟩ := h
  refine ⟨?_, h4, ?_, ?_⟩
  · have := g.lt; simp only [Cut.es_src]; omega
  · intro h0; omega
  · intro x hx; rw [h1] at hx; cases hx

theorem Sync.inv_p {c : Cut} (g : c.Good) {st : St} (h : Sync c st) : Inv c.ep st := by
  obtain ⟨h1, h2, h3, h4⟩ := h
  refine ⟨?_, ?_, ?_, ?_⟩
  · simp only [Cut.ep_src, g.plen]; exact h3
  · exact Bnd_take g.bnd (Nat.le_of_lt g.lt) h4 h3
  · intro h0; omega
  · intro x hx; rw [h1] at hx; cases hx

/-- Strictly before the cut both runs read the same rune and move alike. -/
theorem sync_lt {c : Cut} (g : c.Good) {st : St} (h : Sync c st) (hlt : st.pos < c.k) :
    peekRune c.ep st = peekRune c.es st ∧ nextSt c.ep st = nextSt c.es st ∧ Sync c (nextSt c.es st) ∧
      0 ≤ peekRune c.es st := by
  obtain ⟨h1, h2, h3, h4⟩ := h
  have hk := g.lt
  obtain ⟨hfit, hdec⟩ := decode_prefix (p := st.pos) g.bnd hlt (Nat.le_of_lt hk)
  have hne1 : st.pos ≠ c.s.length := by omega
  have hne2 : st.pos ≠ (c.s.take c.k).length := by rw [g.plen]; omega
  refine ⟨?_, ?_, ?_, ?_⟩
  · unfold peekRune; simp only [Cut.ep_src, Cut.es_src, hne1, hne2, if_false, hdec]
  · unfold nextSt; simp only [Cut.ep_src, Cut.es_src, hne1, hne2, if_false, hdec]
  · unfold nextSt; simp only [Cut.es_src, hne1, if_false]
    exact ⟨h1, h2, hfit, Bnd.step h4 (by omega)⟩
  · unfold peekRune; simp only [Cut.es_src, hne1, if_false]; omega

/-- At the cut the p-run reads `EOF`. -/
theorem sync_eq_p {c : Cut} (g : c.Good) {st : St} (hk : st.pos = c.k) : st.pos = c.ep.src.length := by
  simp only [Cut.ep_src, g.plen]; exact hk

theorem Sync.atEOF {c : Cut} (g : c.Good) {st : St} (h : Sync c st) (hk : st.pos = c.k) :
    AtEOF c.ep 0 [] st :=
  ⟨sync_eq_p g hk, Nat.zero_le _, [], by simp [h.1], by intro x hx; cases hx⟩

theorem Sy.peek {c : Cut} (g : c.Good) :
    Sy c C01.peek C01.peek (fun r st => r = eof ∧ AtEOF c.ep 0 [] st) := by
  intro st hs a st1 hr _ a' st1' hr'
  rw [peek_eq (hs.inv_s g)] at hr
  rw [peek_eq (hs.inv_p g)] at hr'
  simp only [Out.ok.injEq] at hr hr'
  obtain ⟨rfl, rfl⟩ := hr
  obtain ⟨rfl, rfl⟩ := hr'
  rcases Nat.lt_or_ge st.pos c.k with hlt | hge
  · exact Or.inl ⟨(sync_lt g hs hlt).1, rfl, hs⟩
  · have hk : st.pos = c.k := Nat.le_antisymm hs.2.2.1 hge
    exact Or.inr ⟨peekRune_eof.2 (sync_eq_p g hk), hs.atEOF g hk⟩

theorem Sy.next {c : Cut} (g : c.Good) :
    Sy c C01.next C01.next (fun r st => r = eof ∧ AtEOF c.ep 1 [] st) := by
  intro st hs a st1 hr _ a' st1' hr'
  rw [next_eq (hs.inv_s g)] at hr
  rw [next_eq (hs.inv_p g)] at hr'
  simp only [Out.ok.injEq] at hr hr'
  obtain ⟨rfl, rfl⟩ := hr
  obtain ⟨rfl, rfl⟩ := hr'
  rcases Nat.lt_or_ge st.pos c.k with hlt | hge
  · obtain ⟨e1, e2, e3, _⟩ := sync_lt g hs hlt
    exact Or.inl ⟨e1, e2, e3⟩
  · have hk : st.pos = c.k := Nat.le_antisymm hs.2.2.1 hge
    have hp := sync_eq_p g hk
    refine Or.inr ⟨peekRune_eof.2 hp, ?_⟩
    have := (Tr.next_eof c.ep 0 []) st (hs.atEOF g hk) _ _ (next_at_eof hp)
    have e : nextSt c.ep st = { st with overEOF := st.overEOF + 1 } := by
      unfold nextSt; simp [hp]
    rw [e]
    exact this.2

/-- In lock step a state-preserving action that computes the same value on both
sides stays in lock step. -/
theorem Sy.of_pure {α} {c : Cut} {m m' : M α} {Q : α → St → Prop} (h : Pure m) (h' : Pure m')
    (heq : ∀ st, Sync c st → ∀ a a' st1 st1', m c.es st = .ok a st1 → m' c.ep st = .ok a' st1' → a' = a) :
    Sy c m m' Q := by
  intro st hs a st1 hr _ a' st1' hr'
  have e1 := h _ _ _ _ hr
  have e2 := h' _ _ _ _ hr'
  rw [e1, e2]
  exact Or.inl ⟨heq st hs a a' _ _ hr hr', rfl, hs⟩

theorem J2.pure {α} (c : Cut) (a : α) : J2 c (pure a : M α) (pure a) where
  mono := Mono.of_pure (Pure.pure a)
  uu := UU.of_pure (Pure.pure a)
  sy := fun _ => Sy.of_pure (Pure.pure a) (Pure.pure a) (by
    intro st _ x x' s1 s1' h h'
    simp only [pure_apply, Out.ok.injEq] at h h'
    rw [← h.1, ← h'.1])

theorem J2.peek (c : Cut) : J2 c C01.peek C01.peek where
  mono := Mono.of_pure Pure.peek
  uu := UU.peek _
  sy := fun g => (Sy.peek g).conseq (fun _ _ h => h.2)

theorem J2.next (c : Cut) : J2 c C01.next C01.next where
  mono := Mono.next _
  uu := UU.next _
  sy := fun g => (Sy.next g).conseq (fun _ _ h => h.2.weaken (Nat.zero_le _))

theorem Sy.error {c : Cut} (m : Msg) {Q : Unit → St → Prop} : Sy c (C01.error m) (C01.error m) Q := by
  intro st _ a st1 hr hnil
  exfalso
  unfold C01.error at hr
  have := errorp_ok hr
  subst this
  simp at hnil

theorem J2.error (c : Cut) (m : Msg) : J2 c (C01.error m) (C01.error m) where
  mono := Mono.error _ m
  uu := UU.error _ m
  sy := fun _ => Sy.error m

theorem J2.getPos (c : Cut) : J2 c C01.getPos C01.getPos where
  mono := Mono.of_pure Pure.getPos
  uu := UU.of_pure Pure.getPos
  sy := fun _ => Sy.of_pure Pure.getPos Pure.getPos (by
    intro st _ x x' s1 s1' h h'
    simp only [C01.getPos, Out.ok.injEq] at h h'
    rw [← h.1, ← h'.1])

theorem J2.panic {α} (c : Cut) (w : String) : J2 c (C01.panic w : M α) (C01.panic w) where
  mono := Mono.of_pure (Pure.panic w)
  uu := UU.of_pure (Pure.panic w)
  sy := fun _ => by intro st _ a st1 hr; simp [C01.panic] at hr

theorem J2.outOfFuel {α} (c : Cut) : J2 c (C01.outOfFuel : M α) C01.outOfFuel where
  mono := Mono.of_pure Pure.outOfFuel
  uu := UU.of_pure Pure.outOfFuel
  sy := fun _ => by intro st _ a st1 hr; simp [C01.outOfFuel] at hr

theorem sliceSrc_ok_bounds {a b : Nat} {e : Env} {st st' : St} {x : Bytes}
    (h : C01.sliceSrc a b e st = .ok x st') : a ≤ b ∧ b ≤ e.src.length := by
  unfold C01.sliceSrc slice at h
  by_cases hc : (0 : Int) ≤ (a : Int) ∧ (a : Int) ≤ (b : Int) ∧ (b : Int) ≤ (e.src.length : Int)
  · omega
  · simp only [hc, if_false] at h
    cases h

/-- `ps.src[a:b]` is the same text in both runs whenever the prefix contains it
(otherwise the p-run does not return). -/
theorem J2.sliceSrc (c : Cut) (a b : Nat) : J2 c (C01.sliceSrc a b) (C01.sliceSrc a b) where
  mono := Mono.of_pure (Pure.sliceSrc a b)
  uu := UU.of_pure (Pure.sliceSrc a b)
  sy := fun g => Sy.of_pure (Pure.sliceSrc a b) (Pure.sliceSrc a b) (by
    intro st _ x x' s1 s1' h h'
    have hb1 := sliceSrc_ok_bounds h
    have hb2 := sliceSrc_ok_bounds h'
    simp only [Cut.ep_src, g.plen] at hb2
    rw [sliceSrc_eq hb1.1 hb1.2] at h
    rw [sliceSrc_eq hb2.1 (by simp only [Cut.ep_src, g.plen]; exact hb2.2)] at h'
    simp only [Out.ok.injEq] at h h'
    rw [← h.1, ← h'.1]
    unfold srcSlice
    simp only [Cut.ep_src, Cut.es_src]
    rw [List.drop_take, List.take_take]
    congr 1
    omega)

/-- `getEnv`: only `isPrint` is ever read from the environment. -/
theorem J2.getEnv_bind {β} {c : Cut} {f f' : Env → M β} (h : J2 c (f c.es) (f' c.ep)) :
    J2 c (getEnv >>= f) (getEnv >>= f') where
  mono := by
    intro st b st' hr
    obtain ⟨a, st1, h1, h2⟩ := bind_ok.1 hr
    simp only [C01.getEnv, Out.ok.injEq] at h1
    obtain ⟨rfl, rfl⟩ := h1
    exact h.mono _ _ _ h2
  uu := by
    intro n E st hp b st' hr
    obtain ⟨a, st1, h1, h2⟩ := bind_ok.1 hr
    simp only [C01.getEnv, Out.ok.injEq] at h1
    obtain ⟨rfl, rfl⟩ := h1
    exact h.uu n E _ hp _ _ h2
  sy := by
    intro g st hs b st2 hr hnil b' st2' hr'
    obtain ⟨a, st1, h1, h2⟩ := bind_ok.1 hr
    obtain ⟨a', st1', h1', h2'⟩ := bind_ok.1 hr'
    simp only [C01.getEnv, Out.ok.injEq] at h1 h1'
    obtain ⟨rfl, rfl⟩ := h1
    obtain ⟨rfl, rfl⟩ := h1'
    exact h.sy g _ hs _ _ h2 hnil _ _ h2'

/-- `loopFuel`: the two runs get different iteration bounds. -/
theorem J2.loopFuel_bind {β} {c : Cut} {f f' : Nat → M β}
    (h : J2 c (f (c.s.length + 2)) (f' ((c.s.take c.k).length + 2))) :
    J2 c (loopFuel >>= f) (loopFuel >>= f') where
  mono := by
    intro st b st' hr
    obtain ⟨a, st1, h1, h2⟩ := bind_ok.1 hr
    simp only [C01.loopFuel, Out.ok.injEq] at h1
    obtain ⟨rfl, rfl⟩ := h1
    exact h.mono _ _ _ h2
  uu := by
    intro n E st hp b st' hr
    obtain ⟨a, st1, h1, h2⟩ := bind_ok.1 hr
    simp only [C01.loopFuel, Out.ok.injEq] at h1
    obtain ⟨rfl, rfl⟩ := h1
    exact h.uu n E _ hp _ _ h2
  sy := by
    intro g st hs b st2 hr hnil b' st2' hr'
    obtain ⟨a, st1, h1, h2⟩ := bind_ok.1 hr
    obtain ⟨a', st1', h1', h2'⟩ := bind_ok.1 hr'
    simp only [C01.loopFuel, Out.ok.injEq] at h1 h1'
    obtain ⟨rfl, rfl⟩ := h1
    obtain ⟨rfl, rfl⟩ := h1'
    exact h.sy g _ hs _ _ h2 hnil _ _ h2'

end C02
