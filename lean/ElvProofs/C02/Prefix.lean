/-
UTF-8 facts about a source cut at a boundary: decoding inside the cut does not
see the cut, and the boundaries of the prefix are the boundaries of the whole
text up to the cut.
-/
import ElvProofs.C01.Hoare
namespace C02
open Go
open C01

/-- A decoding of size 1 yields the byte itself (ASCII) or `RuneError`. -/
theorem decodeRune_size_one (b : UInt8) (t : Bytes) (h : (decodeRune (b :: t)).2 = 1) :
    (decodeRune (b :: t)).1 = if b.toNat < 0x80 then b.toNat else RuneError := by
  revert h
  unfold decodeRune
  simp only [RuneError]
  repeat' split
  all_goals simp_all
  all_goals omega

/-- `decodeRune` only looks at the bytes it reports as consumed: cutting the
text anywhere at or after the end of the first rune does not change it. -/
theorem decodeRune_take_ge (t : Bytes) (m : Nat) (h : (decodeRune t).2 ≤ m) :
    decodeRune (t.take m) = decodeRune t := by
  rcases hd : decodeRune t with ⟨r, n⟩
  rw [hd] at h
  simp only at h
  match t, hd with
  | [], hd => simpa using hd
  | b :: t', hd =>
    have hn1 : 1 ≤ n := by
      have := decodeRune_size_pos (b :: t') (by simp); rw [hd] at this; exact this
    by_cases hn2 : 2 ≤ n
    · have h1 := decodeRune_take' (b :: t') r n hd
      have h2 : ((b :: t').take m).take n = (b :: t').take n := by
        rw [List.take_take]; congr 1; omega
      exact decodeRune_of_take ((b :: t').take m) r n (by rw [h2]; exact h1) hn2
    · have hn : n = 1 := by omega
      subst hn
      obtain ⟨m', rfl⟩ : ∃ m', m = m' + 1 := ⟨m - 1, by omega⟩
      have hu : (b :: t').take (m' + 1) = b :: t'.take m' := by simp
      rw [hu]
      rcases hd' : decodeRune (b :: t'.take m') with ⟨r', n'⟩
      have hn1' : 1 ≤ n' := by
        have := decodeRune_size_pos (b :: t'.take m') (by simp); rw [hd'] at this; exact this
      by_cases hn2' : 2 ≤ n'
      · exfalso
        have hle : n' ≤ (b :: t'.take m').length := by
          have := decodeRune_size_le (b :: t'.take m'); rw [hd'] at this; exact this
        have h1 := decodeRune_take' (b :: t'.take m') r' n' hd'
        have h2 : (b :: t'.take m').take n' = (b :: t').take n' := by
          rw [← hu, List.take_take]; congr 1
          simp at hle; omega
        rw [h2] at h1
        have := decodeRune_of_take (b :: t') r' n' h1 hn2'
        rw [hd] at this
        simp at this; omega
      · have hn' : n' = 1 := by omega
        subst hn'
        have e1 := decodeRune_size_one b t' (by rw [hd])
        have e2 := decodeRune_size_one b (t'.take m') (by rw [hd'])
        rw [hd] at e1; rw [hd'] at e2
        simp only at e1 e2
        rw [e1, e2]

/-- Before a boundary `k`, the rune at a boundary `p < k` ends at or before
`k`, and decoding it in the text cut at `k` gives the same rune. -/
theorem decode_prefix {s : Bytes} {p k : Nat} (hk : Bnd s k) (hlt : p < k)
    (hkl : k ≤ s.length) :
    p + (decodeRune (s.drop p)).2 ≤ k ∧ decodeRune ((s.take k).drop p) = decodeRune (s.drop p) := by
  have hple : p < s.length := by omega
  have hn1 := decodeRune_size_pos (s.drop p) (drop_ne_nil hple)
  have hfit : p + (decodeRune (s.drop p)).2 ≤ k := by
    by_cases h2 : 2 ≤ (decodeRune (s.drop p)).2
    · have := hk.not_inside p _ rfl h2
      omega
    · omega
  refine ⟨hfit, ?_⟩
  have : (s.take k).drop p = (s.drop p).take (k - p) := by
    rw [List.drop_take]
  rw [this]
  exact decodeRune_take_ge _ _ (by omega)

/-- Boundaries of the whole text up to the cut are boundaries of the prefix. -/
theorem Bnd_take {s : Bytes} {k : Nat} (hk : Bnd s k) (hkl : k ≤ s.length) :
    ∀ {p : Nat}, Bnd s p → p ≤ k → Bnd (s.take k) p := by
  intro p hp
  induction hp with
  | zero => intro _; exact Bnd.zero
  | @step q hq hql ih =>
    intro hle
    have hn1 := decodeRune_size_pos (s.drop q) (drop_ne_nil hql)
    have hqk : q < k := by omega
    have ih' := ih (by omega)
    obtain ⟨_, hdec⟩ := decode_prefix hk hqk hkl
    have hlen : q < (s.take k).length := by simp; omega
    have := Bnd.step ih' hlen
    rw [hdec] at this
    exact this

end C02
