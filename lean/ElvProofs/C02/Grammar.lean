/-
The grammar functions (open recursion through `rec`): `J2` for each body, given
the judgment of the `parse` they call back.
-/
import ElvProofs.C02.Amp
namespace C02
open Go
open C01
open Gen.C01Chars

/- The rules are applied by unification against the text of a function; keep the
monad operations, the primitives and every model function opaque so that a rule
that does not apply fails at the head symbol instead of evaluating both sides
(each lemma opens the one function it is about with `unfold`). -/
attribute [local irreducible] M.bind M.pure C01.panic C01.outOfFuel C01.getPos C01.getEnv C01.loopFuel
  C01.sliceSrc C01.restSrc C01.peek C01.hasPrefix C01.next C01.backup C01.errorp C01.error C01.done
  addSep parseSep commentLoop spacesLoop parseSpacesInner parseSpaces parseSpacesAndNewlines
  singleQuotedLoop singleQuotedInner hexLoop octLoop doubleQuotedEscape doubleQuotedLoop doubleQuotedInner
  skipWhile bareword singleQuoted doubleQuoted variableP starWildcard questionWildcard parseSepsLoop
  parseSeps chunkLoop chunkBody pipelineLoop pipelineBody formLoop formBody setMode redirRest redirBody
  filterLoop filterBody tilde compoundLoop compoundBody indexingLoop indexingBody arrayLoop arrayBody
  exitusCapture outputCapture lbracketLoop lbracket lambdaLoop lambda bracedLoop lbrace primaryBody
  mapPairBody body wrap parseNT

def isFormNT : NT → Bool
  | .form => true
  | _ => false

/-- The extra post-divergence state of `parse(ps, nt)`: `&`-pending, only for a `Form`. -/
def XN (c : Cut) (nt : NT) : Node → St → Prop := fun _ st => isFormNT nt = true ∧ AmpP c st

/-- What is assumed of the `parse` a grammar function calls back (`rec` in the
s-run, `rec'` in the p-run: they differ in fuel only). -/
def Rec (c : Cut) (rec rec' : NT → M Node) : Prop := ∀ nt, JQ c (XN c nt) (rec nt) (rec' nt)

theorem Rec.j2 {c : Cut} {rec rec' : NT → M Node} (h : Rec c rec rec') (nt : NT) (hn : isFormNT nt = false) :
    J2 c (rec nt) (rec' nt) :=
  (h nt).j2 (fun _ _ hx => by have h1 : isFormNT nt = true := hx.1; rw [hn] at h1; cases h1)

syntax "g_step" : tactic
macro_rules
  | `(tactic| g_step) => `(tactic| first
      | assumption
      | exact J2.pure _ _
      | exact J2.peek _
      | exact J2.next _
      | exact J2.error _ _
      | exact J2.getPos _
      | exact J2.sliceSrc _ _ _
      | exact J2.panic _ _
      | exact J2.outOfFuel _
      | exact addSep_J2 _ _
      | exact parseSep_J2 _ _ _
      | exact parseSpaces_J2 _ _
      | exact parseSpacesAndNewlines_J2 _ _
      | exact bareword_J2 _ _
      | exact singleQuoted_J2 _ _
      | exact doubleQuoted_J2 _ _
      | exact variableP_J2 _ _
      | exact starWildcard_J2 _ _
      | exact questionWildcard_J2 _ _
      | exact Rec.j2 (by assumption) _ rfl
      | refine J2.getEnv_bind ?_
      | refine J2.ite (fun _ => ?_) (fun _ => ?_)
      | refine J2.bind ?_ (fun _ => ?_)
      | split)

macro "g_walk" : tactic => `(tactic| repeat' g_step)

section
variable {c : Cut} {rec rec' : NT → M Node}

theorem parseSepsLoop_J2 (c : Cut) : ∀ n n' k nb, J2 c (parseSepsLoop n k nb) (parseSepsLoop n' k nb) := by
  intro n n' k nb
  refine J2.loop (fun n (x : Nat × NB) => parseSepsLoop n x.1 x.2) (fun _ => by simp only [parseSepsLoop]) ?_
    n n' (k, nb)
  intro a b ih x
  have ih' : ∀ k nb, J2 c (parseSepsLoop a k nb) (parseSepsLoop b k nb) := fun k nb => ih (k, nb)
  show J2 c (parseSepsLoop (a + 1) x.1 x.2) (parseSepsLoop (b + 1) x.1 x.2)
  unfold parseSepsLoop
  g_walk
  all_goals exact ih' _ _

theorem parseSeps_J2 (c : Cut) (nb : NB) : J2 c (parseSeps nb) (parseSeps nb) := by
  unfold parseSeps
  exact J2.loopFuel_bind (parseSepsLoop_J2 c _ _ _ _)

theorem chunkLoop_J2 (hrec : Rec c rec rec') : ∀ n n' nb, J2 c (chunkLoop rec n nb) (chunkLoop rec' n' nb) := by
  refine J2.loop2 (fun n nb => chunkLoop rec n nb) (fun n nb => chunkLoop rec' n nb)
    (fun _ => by simp only [chunkLoop]) (fun _ => by simp only [chunkLoop]) ?_
  intro a b ih nb
  show J2 c (chunkLoop rec (a + 1) nb) (chunkLoop rec' (b + 1) nb)
  unfold chunkLoop
  g_walk
  all_goals first | exact parseSeps_J2 c _ | exact ih _

theorem chunkBody_J2 (hrec : Rec c rec rec') (nb : NB) : J2 c (chunkBody rec nb) (chunkBody rec' nb) := by
  unfold chunkBody
  refine J2.bind (parseSeps_J2 c nb) (fun x => ?_)
  split
  exact J2.loopFuel_bind (chunkLoop_J2 hrec _ _ _)

theorem setMode_J2 (c : Cut) (nb : NB) (sign : Bytes) : J2 c (setMode nb sign) (setMode nb sign) := by
  unfold setMode
  g_walk

theorem redirRest_J2 (hrec : Rec c rec rec') (nb : NB) : J2 c (redirRest rec nb) (redirRest rec' nb) := by
  unfold redirRest
  refine J2.bind (J2.getPos c) (fun _ => J2.loopFuel_bind ?_)
  g_walk
  all_goals first | exact skipWhile_J2 c _ _ _ | exact setMode_J2 c _ _

theorem redirBody_J2 (hrec : Rec c rec rec') (left : Option Node) (nb : NB) :
    J2 c (redirBody rec left nb) (redirBody rec' left nb) := by
  unfold redirBody
  exact redirRest_J2 hrec _

theorem filterLoop_J2 (hrec : Rec c rec rec') : ∀ n n' nb, J2 c (filterLoop rec n nb) (filterLoop rec' n' nb) := by
  refine J2.loop2 (fun n nb => filterLoop rec n nb) (fun n nb => filterLoop rec' n nb)
    (fun _ => by simp only [filterLoop]) (fun _ => by simp only [filterLoop]) ?_
  intro a b ih nb
  show J2 c (filterLoop rec (a + 1) nb) (filterLoop rec' (b + 1) nb)
  unfold filterLoop
  g_walk
  all_goals exact ih _

theorem filterBody_J2 (hrec : Rec c rec rec') (nb : NB) : J2 c (filterBody rec nb) (filterBody rec' nb) := by
  unfold filterBody
  refine J2.bind (parseSpaces_J2 c nb) (fun _ => J2.loopFuel_bind (filterLoop_J2 hrec _ _ _))

theorem tilde_J2 (c : Cut) (nb : NB) : J2 c (tilde nb) (tilde nb) := by
  unfold tilde
  g_walk

theorem compoundLoop_J2 (hrec : Rec c rec rec') (ctx : Int) :
    ∀ n n' nb, J2 c (compoundLoop rec ctx n nb) (compoundLoop rec' ctx n' nb) := by
  refine J2.loop2 (fun n nb => compoundLoop rec ctx n nb) (fun n nb => compoundLoop rec' ctx n nb)
    (fun _ => by simp only [compoundLoop]) (fun _ => by simp only [compoundLoop]) ?_
  intro a b ih nb
  show J2 c (compoundLoop rec ctx (a + 1) nb) (compoundLoop rec' ctx (b + 1) nb)
  unfold compoundLoop
  g_walk
  all_goals exact ih _

theorem compoundBody_J2 (hrec : Rec c rec rec') (nb : NB) : J2 c (compoundBody rec nb) (compoundBody rec' nb) := by
  unfold compoundBody
  refine J2.bind (tilde_J2 c nb) (fun _ => J2.loopFuel_bind (compoundLoop_J2 hrec _ _ _ _))

theorem indexingLoop_J2 (hrec : Rec c rec rec') : ∀ n n' nb, J2 c (indexingLoop rec n nb) (indexingLoop rec' n' nb) := by
  refine J2.loop2 (fun n nb => indexingLoop rec n nb) (fun n nb => indexingLoop rec' n nb)
    (fun _ => by simp only [indexingLoop]) (fun _ => by simp only [indexingLoop]) ?_
  intro a b ih nb
  show J2 c (indexingLoop rec (a + 1) nb) (indexingLoop rec' (b + 1) nb)
  unfold indexingLoop
  g_walk
  all_goals exact ih _

theorem indexingBody_J2 (hrec : Rec c rec rec') (nb : NB) : J2 c (indexingBody rec nb) (indexingBody rec' nb) := by
  unfold indexingBody
  refine J2.bind (hrec.j2 _ rfl) (fun _ => J2.loopFuel_bind (indexingLoop_J2 hrec _ _ _))

theorem arrayLoop_J2 (hrec : Rec c rec rec') : ∀ n n' nb, J2 c (arrayLoop rec n nb) (arrayLoop rec' n' nb) := by
  refine J2.loop2 (fun n nb => arrayLoop rec n nb) (fun n nb => arrayLoop rec' n nb)
    (fun _ => by simp only [arrayLoop]) (fun _ => by simp only [arrayLoop]) ?_
  intro a b ih nb
  show J2 c (arrayLoop rec (a + 1) nb) (arrayLoop rec' (b + 1) nb)
  unfold arrayLoop
  g_walk
  all_goals exact ih _

theorem arrayBody_J2 (hrec : Rec c rec rec') (nb : NB) : J2 c (arrayBody rec nb) (arrayBody rec' nb) := by
  unfold arrayBody
  refine J2.bind (parseSpacesAndNewlines_J2 c nb) (fun _ => J2.loopFuel_bind (arrayLoop_J2 hrec _ _ _))

theorem exitusCapture_J2 (hrec : Rec c rec rec') (nb : NB) :
    J2 c (exitusCapture rec nb) (exitusCapture rec' nb) := by
  unfold exitusCapture
  g_walk

theorem outputCapture_J2 (hrec : Rec c rec rec') (nb : NB) :
    J2 c (outputCapture rec nb) (outputCapture rec' nb) := by
  unfold outputCapture
  g_walk

theorem lambdaLoop_J2 (hrec : Rec c rec rec') : ∀ n n' nb, J2 c (lambdaLoop rec n nb) (lambdaLoop rec' n' nb) := by
  refine J2.loop2 (fun n nb => lambdaLoop rec n nb) (fun n nb => lambdaLoop rec' n nb)
    (fun _ => by simp only [lambdaLoop]) (fun _ => by simp only [lambdaLoop]) ?_
  intro a b ih nb
  show J2 c (lambdaLoop rec (a + 1) nb) (lambdaLoop rec' (b + 1) nb)
  unfold lambdaLoop
  g_walk
  all_goals exact ih _

theorem lambda_J2 (hrec : Rec c rec rec') (nb : NB) : J2 c (lambda rec nb) (lambda rec' nb) := by
  unfold lambda
  refine J2.bind (parseSpacesAndNewlines_J2 c _) (fun _ => J2.bind (parseSep_J2 c _ _) (fun x => ?_))
  split
  refine J2.bind ?_ (fun _ => ?_)
  · refine J2.ite (fun _ => ?_) (fun _ => J2.pure _ _)
    refine J2.bind (parseSpacesAndNewlines_J2 c _) (fun _ => J2.loopFuel_bind ?_)
    refine J2.bind (lambdaLoop_J2 hrec _ _ _) (fun _ => ?_)
    g_walk
  · g_walk

theorem bracedLoop_J2 (hrec : Rec c rec rec') : ∀ n n' nb, J2 c (bracedLoop rec n nb) (bracedLoop rec' n' nb) := by
  refine J2.loop2 (fun n nb => bracedLoop rec n nb) (fun n nb => bracedLoop rec' n nb)
    (fun _ => by simp only [bracedLoop]) (fun _ => by simp only [bracedLoop]) ?_
  intro a b ih nb
  show J2 c (bracedLoop rec (a + 1) nb) (bracedLoop rec' (b + 1) nb)
  unfold bracedLoop
  g_walk
  all_goals exact ih _

theorem lbrace_J2 (hrec : Rec c rec rec') (nb : NB) : J2 c (lbrace rec nb) (lbrace rec' nb) := by
  unfold lbrace
  refine J2.bind (parseSep_J2 c _ _) (fun x => ?_)
  split
  refine J2.bind (J2.peek c) (fun _ => J2.ite (fun _ => lambda_J2 hrec _) (fun _ => ?_))
  refine J2.bind (hrec.j2 _ rfl) (fun _ => J2.loopFuel_bind ?_)
  refine J2.bind (bracedLoop_J2 hrec _ _ _) (fun _ => ?_)
  g_walk

theorem mapPairBody_J2 (hrec : Rec c rec rec') (nb : NB) : J2 c (mapPairBody rec nb) (mapPairBody rec' nb) := by
  unfold mapPairBody
  g_walk

/-! ### `lbracket`: one rune of look-ahead after `&`, with `backup` -/

theorem lbracketLoop_J2 (hrec : Rec c rec rec') :
    ∀ n n' nb, J2 c (lbracketLoop rec n nb) (lbracketLoop rec' n' nb) := by
  refine J2.loop2 (fun n nb => lbracketLoop rec n nb) (fun n nb => lbracketLoop rec' n nb)
    (fun _ => by simp only [lbracketLoop]) (fun _ => by simp only [lbracketLoop]) ?_
  intro a b ih nb
  show J2 c (lbracketLoop rec (a + 1) nb) (lbracketLoop rec' (b + 1) nb)
  have hlone : ∀ nb : NB, J2 c (do let nb ← addSep nb; parseSpacesAndNewlines nb)
      (do let nb ← addSep nb; parseSpacesAndNewlines nb) := fun nb => by g_walk
  have hpair : ∀ nb : NB, J2 c
      (do let mp ← rec .mapPair; let nb ← parseSpacesAndNewlines (nb.add mp); lbracketLoop rec a nb)
      (do let mp ← rec' .mapPair; let nb ← parseSpacesAndNewlines (nb.add mp); lbracketLoop rec' b nb) :=
    fun nb => by g_walk; exact ih _
  have helem : ∀ nb : NB, J2 c
      (do let cn ← rec (.compound NormalExpr); let nb ← parseSpacesAndNewlines (nb.add cn); lbracketLoop rec a nb)
      (do let cn ← rec' (.compound NormalExpr); let nb ← parseSpacesAndNewlines (nb.add cn); lbracketLoop rec' b nb) :=
    fun nb => by g_walk; exact ih _
  have huu : UU c.ep (lbracketLoop rec' (b + 1) nb) := by
    intro N E
    unfold lbracketLoop
    refine Tr.bind (Tr.of_pure Pure.getEnv) (fun env => ?_)
    refine Tr.peek_bind_eof ?_
    simp only [eof_startsCompound, show (eof == (38 : Int)) = false from by decide]
    exact Tr.pure_eof (Nat.le_refl _)
  refine ⟨?_, huu, fun g => ?_⟩
  · unfold lbracketLoop
    refine Mono.bind (Mono.of_pure Pure.getEnv) (fun env => ?_)
    mono_walk
    all_goals first | exact (addSep_J2 c _).mono | exact (parseSpacesAndNewlines_J2 c _).mono | exact (ih _).mono | exact (hrec _).mono
  · refine Sy.of_at (fun st hs => ?_)
    refine SyAt.split g hs (huu 0 []) (fun hlt => ?_)
    unfold lbracketLoop
    refine SyAt.getEnv_bind ?_
    simp only [Cut.es_ip, Cut.ep_ip]
    refine SyAt.peek_bind_lt g hs hlt (fun r _ _ => ?_)
    refine SyAt.ite (fun _ => ?_) (fun _ => ?_)
    · refine SyAt.next_bind_lt g hs hlt (fun r1 st1 hst1 => ?_)
      refine SyAt.split g hst1.sync1 ?_ (fun hlt1 => ?_)
      · refine Tr.peek_bind_eof ?_
        simp only [eof_startsCompound, Bool.not_false, if_true]
        exact (hlone _).uu 0 []
      · refine SyAt.peek_bind_lt g hst1.sync1 hlt1 (fun r2 _ _ => ?_)
        refine SyAt.ite (fun _ => (hlone _).at g hst1.sync1) (fun _ => ?_)
        exact SyAt.backup_bind hst1 ((hpair _).at g hs)
    · refine SyAt.ite (fun _ => (helem _).at g hs) (fun _ => SyAt.pure hs)

theorem lbracket_J2 (hrec : Rec c rec rec') (nb : NB) : J2 c (lbracket rec nb) (lbracket rec' nb) := by
  unfold lbracket
  refine J2.bind (parseSep_J2 c _ _) (fun x => ?_)
  split
  refine J2.bind (parseSpacesAndNewlines_J2 c _) (fun _ => J2.loopFuel_bind ?_)
  refine J2.bind (lbracketLoop_J2 hrec _ _ _) (fun _ => ?_)
  g_walk

/-! ### `Primary.parse`: the two-byte look-ahead `?(` -/

/-- An ASCII rune is one byte. -/
theorem nextSt_ascii {e : Env} {st : St} (hlt : st.pos < e.src.length) (h : peekRune e st < 128) :
    (nextSt e st).pos = st.pos + 1 ∧
      ∃ b t, e.src.drop st.pos = b :: t ∧ (b.toNat : Int) = peekRune e st := by
  have hne : st.pos ≠ e.src.length := by omega
  match hd : e.src.drop st.pos with
  | [] => exact absurd hd (drop_ne_nil hlt)
  | b :: t =>
    unfold peekRune at h
    simp only [hne, if_false, hd] at h
    have := decodeRune_ascii b t (by exact_mod_cast h)
    refine ⟨?_, b, t, rfl, ?_⟩
    · unfold nextSt; simp only [hne, if_false, hd, this.2]
    · unfold peekRune; simp only [hne, if_false, hd, this.1]

theorem isPrefixOf2_take (a b : UInt8) (l : Bytes) (n : Nat) (hn : 2 ≤ n) :
    [a, b].isPrefixOf (l.take n) = [a, b].isPrefixOf l := by
  obtain ⟨m, rfl⟩ : ∃ m, n = m + 2 := ⟨n - 2, by omega⟩
  match l with
  | [] => simp
  | [x] => simp
  | x :: y :: t => simp [List.isPrefixOf]

theorem isPrefixOf2_take1 (a b : UInt8) (l : Bytes) : [a, b].isPrefixOf (l.take 1) = false := by
  match l with
  | [] => simp
  | x :: t => simp [List.isPrefixOf]

/-- The only state change of `questionWildcard` is the `next` over a `?`. -/
theorem questionWildcard_state {e : Env} {st st' : St} {nb a : NB} (hi : Inv e st)
    (h : questionWildcard nb e st = .ok a st') :
    st' = if (peekRune e st == 63) = true then nextSt e st else st := by
  unfold questionWildcard at h
  rw [bind_of_eq (peek_eq hi)] at h
  obtain ⟨u, st1, h1, h2⟩ := bind_ok.1 h
  have htail : st' = st1 := by
    refine Pure.bind Pure.getPos (fun _ => Pure.bind (Pure.sliceSrc _ _) (fun _ => Pure.pure _)) _ _ _ _ h2
  rw [htail]
  by_cases hc : (peekRune e st == 63) = true
  · rw [if_pos hc] at h1 ⊢
    rw [bind_of_eq (next_eq hi)] at h1
    simp only [pure_apply, Out.ok.injEq] at h1
    exact h1.2.symm
  · rw [if_neg hc] at h1 ⊢
    simp only [pure_apply, Out.ok.injEq] at h1
    exact h1.2.symm

theorem primaryBody_J2 (hrec : Rec c rec rec') (nb : NB) : J2 c (primaryBody rec nb) (primaryBody rec' nb) := by
  have huu : UU c.ep (primaryBody rec' nb) := by
    intro N E
    unfold primaryBody
    refine Tr.bind (Tr.of_pure Pure.getEnv) (fun env => ?_)
    refine Tr.peek_bind_eof ?_
    simp only [eof_startsPrimary, Bool.not_false, if_true]
    exact Tr.error_bind_eof (Tr.pure_eof (Nat.le_refl _))
  refine ⟨?_, huu, fun g => ?_⟩
  · unfold primaryBody
    refine Mono.bind (Mono.of_pure Pure.getEnv) (fun env => ?_)
    mono_walk
    all_goals first | exact (bareword_J2 c _).mono | exact (singleQuoted_J2 c _).mono | exact (doubleQuoted_J2 c _).mono | exact (variableP_J2 c _).mono | exact (starWildcard_J2 c _).mono | exact (questionWildcard_J2 c _).mono | exact (exitusCapture_J2 hrec _).mono | exact (outputCapture_J2 hrec _).mono | exact (lbracket_J2 hrec _).mono | exact (lbrace_J2 hrec _).mono
  · refine Sy.of_at (fun st hs => ?_)
    refine SyAt.split g hs (huu 0 []) (fun hlt => ?_)
    unfold primaryBody
    refine SyAt.getEnv_bind ?_
    simp only [Cut.es_ip, Cut.ep_ip]
    refine SyAt.peek_bind_lt g hs hlt (fun r hreq _ => ?_)
    refine SyAt.ite (fun _ => (J2.bind (J2.error c _) (fun _ => J2.pure c _)).at g hs) (fun _ => ?_)
    refine SyAt.ite (fun _ => (bareword_J2 c _).at g hs) (fun _ => ?_)
    refine SyAt.ite (fun _ => (singleQuoted_J2 c _).at g hs) (fun _ => ?_)
    refine SyAt.ite (fun _ => (doubleQuoted_J2 c _).at g hs) (fun _ => ?_)
    refine SyAt.ite (fun _ => (variableP_J2 c _).at g hs) (fun _ => ?_)
    refine SyAt.ite (fun _ => (starWildcard_J2 c _).at g hs) (fun _ => ?_)
    refine SyAt.ite (fun hq => ?_) (fun _ => ?_)
    · -- `?`: is it `?(` ?
      intro b st2 hr hnil b' st2' hr'
      rw [bind_of_eq (hasPrefix_eq (hs.inv_s g) _)] at hr
      rw [bind_of_eq (hasPrefix_eq (hs.inv_p g) _)] at hr'
      have hdrop : c.ep.src.drop st.pos = (c.es.src.drop st.pos).take (c.k - st.pos) := by
        simp only [Cut.ep_src, Cut.es_src, List.drop_take]
      by_cases h2 : 2 ≤ c.k - st.pos
      · rw [hdrop, isPrefixOf2_take _ _ _ _ h2] at hr'
        exact (J2.ite (fun _ => exitusCapture_J2 hrec nb) (fun _ => questionWildcard_J2 c nb)).at g hs
          b st2 hr hnil b' st2' hr'
      · have h1 : c.k - st.pos = 1 := by omega
        rw [hdrop, h1, isPrefixOf2_take1] at hr'
        simp only [Bool.false_eq_true, if_false] at hr'
        have hst := questionWildcard_state (hs.inv_p g) hr'
        obtain ⟨e1, e2, e3, _⟩ := sync_lt g hs hlt
        rw [e1, e2, ← hreq, hq, if_pos rfl] at hst
        have hpos := (nextSt_ascii (e := c.es) (st := st) (by have := g.lt; simp only [Cut.es_src]; omega)
          (by rw [← hreq]; simp only [beq_iff_eq] at hq; omega)).1
        refine Or.inr ?_
        rw [hst]
        exact e3.atEOF g (by omega)
    refine SyAt.ite (fun _ => (outputCapture_J2 hrec _).at g hs) (fun _ => ?_)
    refine SyAt.ite (fun _ => (lbracket_J2 hrec _).at g hs) (fun _ => ?_)
    refine SyAt.ite (fun _ => (lbrace_J2 hrec _).at g hs) (fun _ => SyAt.pure hs)

/-! ### `Form.parse` and `Pipeline.parse`: the look-ahead past `&` -/

/-- extra post-divergence state of the functions that return an `NB` -/
def XA (c : Cut) : NB → St → Prop := fun _ st => AmpP c st

/-- The look-ahead `next; peek; backup` from a `&` right before the cut: the
p-run sees `EOF` after the `&` and comes back to it. -/
theorem amp_lookahead {c : Cut} (g : c.Good) {st st1 : St} {r : Int} (hst : Stepped c st st1 r)
    (hr : (r == 38) = true) (hk : st1.pos = c.k) : AmpP c st ∧ peek c.ep st1 = .ok eof st1 := by
  have hlen : st.pos < c.es.src.length := by
    have := g.lt; have := hst.sync0.2.2.1; simp only [Cut.es_src]; omega
  have hr38 : peekRune c.es st = 38 := by rw [← hst.rune]; simpa using hr
  obtain ⟨hpos, b, t, hd, hb⟩ := nextSt_ascii hlen (by rw [hr38]; decide)
  rw [← hst.st1_eq, hk] at hpos
  refine ⟨⟨hst.sync0.1, hst.sync0.2.1, hpos.symm, ?_⟩, peek_at_eof (sync_eq_p g hk)⟩
  have : c.k - st.pos = 1 := by omega
  rw [List.drop_take, this]
  simp only [Cut.es_src] at hd
  rw [hd]
  rw [hr38] at hb
  have hb' : b = 38 := by
    apply UInt8.toNat_inj.1
    have : b.toNat = 38 := by exact_mod_cast hb
    rw [this]; rfl
  simp [hb']

theorem formLoop_JQ (hrec : Rec c rec rec') :
    ∀ n n' nb, JQ c (XA c) (formLoop rec n nb) (formLoop rec' n' nb) := by
  refine JQ.loop2 (fun _ => XA c) (fun n nb => formLoop rec n nb) (fun n nb => formLoop rec' n nb)
    (fun _ => by simp only [formLoop]) (fun _ => by simp only [formLoop]) ?_
  intro a b ih nb
  show JQ c (XA c) (formLoop rec (a + 1) nb) (formLoop rec' (b + 1) nb)
  have hpair : ∀ nb : NB, JQ c (XA c)
      (do let mp ← rec .mapPair; let nb ← parseSpaces (nb.add mp); formLoop rec a nb)
      (do let mp ← rec' .mapPair; let nb ← parseSpaces (nb.add mp); formLoop rec' b nb) :=
    fun nb => JQ.bind_j2 (hrec.j2 _ rfl) (fun _ => JQ.bind_j2 (parseSpaces_J2 c _) (fun _ => ih _))
  have hredir : ∀ (left : Option Node) (nb : NB), JQ c (XA c)
      (do let rd ← rec (.redir left); let nb ← parseSpaces (nb.add rd); formLoop rec a nb)
      (do let rd ← rec' (.redir left); let nb ← parseSpaces (nb.add rd); formLoop rec' b nb) :=
    fun left nb => JQ.bind_j2 (hrec.j2 _ rfl) (fun _ => JQ.bind_j2 (parseSpaces_J2 c _) (fun _ => ih _))
  have hcomp : ∀ nb : NB, JQ c (XA c)
      (do
        let cn ← rec (.compound NormalExpr)
        let r ← peek
        if isRedirSign r then do
          let rd ← rec (.redir (some cn)); let nb ← parseSpaces (nb.add rd); formLoop rec a nb
        else do
          let nb ← parseSpaces (nb.add cn); formLoop rec a nb)
      (do
        let cn ← rec' (.compound NormalExpr)
        let r ← peek
        if isRedirSign r then do
          let rd ← rec' (.redir (some cn)); let nb ← parseSpaces (nb.add rd); formLoop rec' b nb
        else do
          let nb ← parseSpaces (nb.add cn); formLoop rec' b nb) :=
    fun nb => JQ.bind_j2 (hrec.j2 _ rfl) (fun cn => JQ.bind_j2 (J2.peek c) (fun _ =>
      JQ.ite (fun _ => hredir _ _) (fun _ => JQ.bind_j2 (parseSpaces_J2 c _) (fun _ => ih _))))
  have huu : UU c.ep (formLoop rec' (b + 1) nb) := by
    intro N E
    unfold formLoop
    refine Tr.bind (Tr.of_pure Pure.getEnv) (fun env => ?_)
    refine Tr.peek_bind_eof ?_
    simp only [eof_startsCompound, eof_isRedirSign, show (eof == (38 : Int)) = false from by decide]
    exact Tr.pure_eof (Nat.le_refl _)
  refine ⟨?_, huu, fun g => ?_⟩
  · unfold formLoop
    refine Mono.bind (Mono.of_pure Pure.getEnv) (fun env => ?_)
    mono_walk
    all_goals first | exact (parseSpaces_J2 c _).mono | exact (ih _).mono | exact (hrec _).mono
  · refine Sy.of_at (fun st hs => ?_)
    refine SyAt.split g hs ((huu 0 []).conseq (fun _ h => h) (fun _ _ h => Or.inl h)) (fun hlt => ?_)
    unfold formLoop
    refine SyAt.getEnv_bind ?_
    dsimp only [Cut.es, Cut.ep]
    refine SyAt.peek_bind_lt g hs hlt (fun r hreq _ => ?_)
    refine SyAt.ite (fun hamp => ?_) (fun _ => ?_)
    · refine SyAt.next_bind_lt g hs hlt (fun r1 st1 hst1 => ?_)
      rcases Nat.lt_or_ge st1.pos c.k with hlt1 | hge1
      · refine SyAt.peek_bind_lt g hst1.sync1 hlt1 (fun r2 _ _ => ?_)
        refine SyAt.backup_bind hst1 ?_
        exact SyAt.ite (fun _ => SyAt.pure hs) (fun _ => (hpair _).sy g st hs)
      · have hk1 : st1.pos = c.k := Nat.le_antisymm hst1.sync1.2.2.1 hge1
        obtain ⟨hamp', hpeek⟩ := amp_lookahead g hst1 (by rw [hst1.rune, ← hreq]; exact hamp) hk1
        intro x st2 _ _ x' st2' hr'
        rw [bind_of_eq hpeek, bind_of_eq hst1.back_p] at hr'
        rw [if_pos (by simp only [eof_startsCompound, Bool.not_false])] at hr'
        simp only [pure_apply, Out.ok.injEq] at hr'
        obtain ⟨rfl, rfl⟩ := hr'
        exact Or.inr (Or.inr hamp')
    · refine SyAt.ite (fun _ => (hcomp _).sy g st hs) (fun _ => ?_)
      exact SyAt.ite (fun _ => (hredir _ _).sy g st hs) (fun _ => SyAt.pure hs)

theorem formBody_JQ (hrec : Rec c rec rec') (nb : NB) : JQ c (XA c) (formBody rec nb) (formBody rec' nb) := by
  unfold formBody
  refine JQ.bind_j2 (hrec.j2 _ rfl) (fun _ => JQ.bind_j2 (parseSpaces_J2 c _) (fun _ => ?_))
  exact JQ.loopFuel_bind (formLoop_JQ hrec _ _ _)

end
end C02
