/-
The scanning functions (no recursion through `parse`): `J2` for each.
-/
import ElvProofs.C02.Rules
namespace C02
open Go
open C01
open Gen.C01Chars

/- The rules are applied by unification against the text of a function; keep the
monad operations, the primitives and every model function opaque so that a rule
that does not apply fails at the head symbol instead of evaluating both sides
(each lemma opens the one function it is about with `unfold`). -/
attribute [local irreducible] M.bind M.pure C01.panic C01.outOfFuel C01.getPos C01.getEnv C01.loopFuel
  C01.sliceSrc C01.restSrc C01.peek C01.hasPrefix C01.next C01.backup C01.errorp C01.error C01.done
  addSep parseSep commentLoop spacesLoop parseSpacesInner parseSpaces parseSpacesAndNewlines
  singleQuotedLoop singleQuotedInner hexLoop octLoop doubleQuotedEscape doubleQuotedLoop doubleQuotedInner
  skipWhile bareword singleQuoted doubleQuoted variableP starWildcard questionWildcard parseSepsLoop
  parseSeps chunkLoop chunkBody pipelineLoop pipelineBody formLoop formBody setMode redirRest redirBody
  filterLoop filterBody tilde compoundLoop compoundBody indexingLoop indexingBody arrayLoop arrayBody
  exitusCapture outputCapture lbracketLoop lbracket lambdaLoop lambda bracedLoop lbrace primaryBody
  mapPairBody body wrap parseNT

/-- Walk the text of a function that uses no `backup`. -/
syntax "j2_step" : tactic
macro_rules
  | `(tactic| j2_step) => `(tactic| first
      | assumption
      | exact J2.pure _ _
      | exact J2.peek _
      | exact J2.next _
      | exact J2.error _ _
      | exact J2.getPos _
      | exact J2.sliceSrc _ _ _
      | exact J2.panic _ _
      | exact J2.outOfFuel _
      | refine J2.getEnv_bind ?_
      | refine J2.ite (fun _ => ?_) (fun _ => ?_)
      | refine J2.bind ?_ (fun _ => ?_))

macro "j2_walk" : tactic => `(tactic| repeat' j2_step)

theorem addSep_J2 (c : Cut) (nb : NB) : J2 c (addSep nb) (addSep nb) := by
  unfold addSep
  j2_walk

theorem parseSep_J2 (c : Cut) (nb : NB) (sep : Int) : J2 c (parseSep nb sep) (parseSep nb sep) := by
  unfold parseSep
  j2_walk
  exact addSep_J2 c _

theorem commentLoop_J2 (c : Cut) : ∀ n n', J2 c (commentLoop n) (commentLoop n') := by
  intro n n'
  refine J2.loop (fun n (_ : Unit) => commentLoop n) (fun _ => by simp only [commentLoop]) ?_ n n' ()
  intro a b ih _
  have ih' := ih ()
  show J2 c (commentLoop (a + 1)) (commentLoop (b + 1))
  unfold commentLoop
  j2_walk

theorem skipWhile_J2 (c : Cut) (p : Int → Bool) : ∀ n n', J2 c (skipWhile p n) (skipWhile p n') := by
  intro n n'
  refine J2.loop (fun n (_ : Unit) => skipWhile p n) (fun _ => by simp only [skipWhile]) ?_ n n' ()
  intro a b ih _
  have ih' := ih ()
  show J2 c (skipWhile p (a + 1)) (skipWhile p (b + 1))
  unfold skipWhile
  j2_walk

theorem singleQuotedLoop_J2 (c : Cut) : ∀ n n' buf, J2 c (singleQuotedLoop n buf) (singleQuotedLoop n' buf) := by
  refine J2.loop (fun n buf => singleQuotedLoop n buf) (fun _ => by simp only [singleQuotedLoop]) ?_
  intro a b ih buf
  show J2 c (singleQuotedLoop (a + 1) buf) (singleQuotedLoop (b + 1) buf)
  unfold singleQuotedLoop
  j2_walk
  all_goals exact ih _

theorem singleQuotedInner_J2 (c : Cut) : J2 c singleQuotedInner singleQuotedInner := by
  unfold singleQuotedInner
  exact J2.loopFuel_bind (singleQuotedLoop_J2 c _ _ _)

/-! ### `Mono` for functions that use `backup` -/

theorem Mono.pure' {α} (e : Env) (a : α) : Mono e (pure a : M α) := Mono.of_pure (Pure.pure a)

theorem Mono.ite {α} {e : Env} {p : Prop} [Decidable p] {a b : M α} (h1 : p → Mono e a) (h2 : ¬p → Mono e b) :
    Mono e (if p then a else b) := by
  by_cases h : p
  · simp only [h, if_true]; exact h1 h
  · simp only [h, if_false]; exact h2 h

syntax "mono_step" : tactic
macro_rules
  | `(tactic| mono_step) => `(tactic| first
      | assumption
      | exact Mono.pure' _ _
      | exact Mono.next _
      | exact Mono.backup _
      | exact Mono.error _ _
      | exact Mono.errorp _ _ _ _
      | exact Mono.of_pure Pure.peek
      | exact Mono.of_pure Pure.getPos
      | exact Mono.of_pure (Pure.sliceSrc _ _)
      | exact Mono.of_pure (Pure.hasPrefix _)
      | exact Mono.of_pure (Pure.panic _)
      | exact Mono.of_pure Pure.outOfFuel
      | exact J2.mono (by assumption)
      | refine Mono.ite (fun _ => ?_) (fun _ => ?_)
      | refine Mono.bind ?_ (fun _ => ?_)
      | split)

macro "mono_walk" : tactic => `(tactic| repeat' mono_step)

/-! ### `hexLoop`, `octLoop` -/

theorem hexLoop_J2 (c : Cut) : ∀ n rr, J2 c (hexLoop n rr) (hexLoop n rr)
  | 0, rr => by unfold hexLoop; exact J2.pure _ _
  | n + 1, rr => by
    have ih := hexLoop_J2 c n
    refine ⟨?_, ?_, fun g => ?_⟩
    · unfold hexLoop
      mono_walk
      exact (ih _).mono
    · intro N E
      unfold hexLoop
      refine Tr.next_bind_eof ?_
      simp only [eof_hexToDigit, Bool.not_false, if_true]
      exact Tr.backup_bind_eof (Tr.error_bind_eof (Tr.pure_eof (Nat.le_refl _)))
    · refine Sy.of_at (fun st hs => ?_)
      unfold hexLoop
      refine SyAt.next_bind g hs (fun r st1 hst => ?_) ?_
      · refine SyAt.ite (fun _ => ?_) (fun _ => ?_)
        · exact SyAt.backup_bind hst (SyAt.error_bind (Mono.pure' _ _))
        · exact (ih _).at g hst.sync1
      · simp only [eof_hexToDigit, Bool.not_false, if_true]
        exact Tr.backup_bind_eof (Tr.error_bind_eof (Tr.pure_eof (Nat.le_refl _)))

theorem octLoop_mono (e : Env) : ∀ n v, Mono e (octLoop n v)
  | 0, v => by unfold octLoop; exact Mono.pure' _ _
  | n + 1, v => by
    have ih := octLoop_mono e n
    unfold octLoop
    mono_walk
    exact ih _

theorem octLoop_tr (e : Env) (N : Nat) (E : List PErr) : ∀ n v,
    Tr e (AtEOF e N E) (octLoop n v) (fun rr st => rr = v ∧ AtEOF e N E st)
  | 0, v => by unfold octLoop; exact Tr.pure (fun _ h => ⟨rfl, h⟩)
  | n + 1, v => by
    unfold octLoop
    refine Tr.next_bind_eof ?_
    simp only [eof, Int.reduceNeg, Int.reduceLT, Bool.true_or, decide_true, if_true]
    exact Tr.backup_bind_eof (Tr.error_bind_eof (Tr.pure (fun _ h => ⟨rfl, h⟩)))

/-- values `octLoop n v` can return when it ran into the end of the input -/
def octReach : Nat → Int → Int → Prop
  | 0, _, _ => False
  | n + 1, v, rr => rr = v ∨ ∃ d, 0 ≤ d ∧ d ≤ 7 ∧ octReach n (v * 8 + d) rr

theorem octLoop_sy (c : Cut) (g : c.Good) : ∀ n v,
    Sy c (octLoop n v) (octLoop n v) (fun rr st => octReach n v rr ∧ AtEOF c.ep 0 [] st)
  | 0, v => by
    unfold octLoop
    exact Sy.of_at (fun st hs => SyAt.pure hs)
  | n + 1, v => by
    have ih := octLoop_sy c g n
    refine Sy.of_at (fun st hs => ?_)
    refine SyAt.split g hs ?_ (fun hlt => ?_)
    · exact (octLoop_tr c.ep 0 [] (n + 1) v).conseq (fun _ h => h)
        (fun rr st h => ⟨Or.inl h.1, h.2⟩)
    · unfold octLoop
      refine SyAt.next_bind_lt g hs hlt (fun r st1 hst => ?_)
      refine SyAt.ite (fun _ => ?_) (fun hc => ?_)
      · exact SyAt.backup_bind hst (SyAt.error_bind (Mono.pure' _ _))
      · refine ((ih _).at hst.sync1).conseq (fun rr st h => ⟨Or.inr ⟨r - 48, ?_, ?_, h.1⟩, h.2⟩)
        · simp only [Bool.or_eq_true, decide_eq_true_eq, not_or, Int.not_lt] at hc; omega
        · simp only [Bool.or_eq_true, decide_eq_true_eq, not_or, Int.not_lt] at hc; omega

theorem octReach2_le {v rr : Int} (h : octReach 2 v rr) (h0 : 0 ≤ v) (h7 : v ≤ 7) : rr ≤ 63 := by
  simp only [octReach] at h
  rcases h with h | ⟨d, hd0, hd7, h | ⟨d', hd0', hd7', ⟨⟩⟩⟩ <;> omega

theorem Tr.false {α} {e : Env} {m : M α} {Q : α → St → Prop} : Tr e (fun _ => False) m Q :=
  fun _ h => h.elim

theorem SyAt.getPos_bind {β} {c : Cut} {f f' : Nat → M β} {Q : β → St → Prop} {st : St}
    (h : SyAt c (f st.pos) (f' st.pos) Q st) : SyAt c (C01.getPos >>= f) (C01.getPos >>= f') Q st := by
  intro b st2 hr hnil b' st2' hr'
  rw [bind_of_eq (getPos_eq _ _)] at hr hr'
  exact h b st2 hr hnil b' st2' hr'

/-! ### `doubleQuotedEscape` -/

theorem doubleQuotedEscape_J2 (c : Cut) : J2 c doubleQuotedEscape doubleQuotedEscape := by
  have huu : UU c.ep doubleQuotedEscape := by
    intro N E
    unfold doubleQuotedEscape
    refine Tr.next_bind_eof ?_
    simp [eof, show List.lookup (-1 : Int) doubleEscape = none from by decide]
    exact Tr.backup_bind_eof (Tr.error_bind_eof (Tr.next_bind_eof (Tr.pure_eof (Nat.le_succ _))))
  refine ⟨?_, huu, fun g => ?_⟩
  · unfold doubleQuotedEscape
    mono_walk
    all_goals first | exact (hexLoop_J2 c _ _).mono | exact octLoop_mono _ _ _
  · refine Sy.of_at (fun st hs => ?_)
    refine SyAt.split g hs (huu 0 []) (fun hlt => ?_)
    unfold doubleQuotedEscape
    refine SyAt.next_bind_lt g hs hlt (fun r st1 hst => ?_)
    refine SyAt.ite (fun _ => ?_) (fun _ => ?_)
    · -- \c, \^
      refine SyAt.split g hst.sync1 ?_ (fun hlt1 => ?_)
      · refine Tr.next_bind_eof ?_
        simp [eof]
        refine Tr.bind (Q1 := fun _ => AtEOF c.ep 0 []) ?_ (fun _ => ?_)
        · exact Tr.backup_bind_eof (Tr.error_bind_eof (Tr.next_bind_eof (Tr.pure_eof (Nat.zero_le _))))
        · exact Tr.ite (fun _ => Tr.pure_eof (Nat.le_refl _)) (fun _ => Tr.pure_eof (Nat.le_refl _))
      · refine SyAt.next_bind_lt g hst.sync1 hlt1 (fun r2 st2 hst2 => ?_)
        refine SyAt.bind (Q1 := fun _ _ => False) ?_ ?_ ?_ (fun _ => Tr.false)
        · refine SyAt.ite (fun _ => ?_) (fun _ => SyAt.pure hst2.sync1)
          exact SyAt.backup_bind hst2 (SyAt.error_bind (by mono_walk))
        · intro _; mono_walk
        · intro _ st3 hs3
          exact SyAt.ite (fun _ => SyAt.pure hs3) (fun _ => SyAt.pure hs3)
    refine SyAt.ite (fun _ => ?_) (fun _ => ?_)
    · -- \x, \u, \U
      refine SyAt.bind ((hexLoop_J2 c _ _).at g hst.sync1) ?_ ?_ ?_
      · intro _; mono_walk
      · intro _ st3 hs3
        exact SyAt.ite (fun _ => SyAt.pure hs3) (fun _ => SyAt.pure hs3)
      · intro _
        exact Tr.ite (fun _ => Tr.pure_eof (Nat.le_refl _)) (fun _ => Tr.pure_eof (Nat.le_refl _))
    refine SyAt.ite (fun hoct => ?_) (fun _ => ?_)
    · -- octal
      refine SyAt.bind ((octLoop_sy c g 2 (r - 48)).at hst.sync1) ?_ ?_ ?_
      · intro _; mono_walk
      · intro rr st3 hs3
        refine SyAt.ite (fun _ => SyAt.pure hs3) (fun _ => ?_)
        refine SyAt.getPos_bind ?_
        exact SyAt.ite (fun _ => SyAt.errorp_bind (Mono.pure' _ _)) (fun _ => SyAt.panic)
      · intro rr
        refine Tr.pre (R := rr ≤ 63) (fun _ h => ?_) (fun hrr => ?_)
        · simp only [Bool.and_eq_true, decide_eq_true_eq] at hoct
          exact octReach2_le h.1 (by omega) (by omega)
        · have : rr ≤ 255 := by omega
          simp only [this, if_true]
          exact Tr.pure (fun _ h => h.2)
    · -- single-character escapes
      split
      · exact SyAt.pure hst.sync1
      · exact SyAt.backup_bind hst (SyAt.error_bind (by mono_walk))

/-! ### quoted strings, barewords, wildcards -/

theorem doubleQuotedLoop_J2 (c : Cut) : ∀ n n' buf, J2 c (doubleQuotedLoop n buf) (doubleQuotedLoop n' buf) := by
  refine J2.loop (fun n buf => doubleQuotedLoop n buf) (fun _ => by simp only [doubleQuotedLoop]) ?_
  intro a b ih buf
  show J2 c (doubleQuotedLoop (a + 1) buf) (doubleQuotedLoop (b + 1) buf)
  unfold doubleQuotedLoop
  j2_walk
  all_goals first | exact ih _ | exact doubleQuotedEscape_J2 c

theorem doubleQuotedInner_J2 (c : Cut) : J2 c doubleQuotedInner doubleQuotedInner := by
  unfold doubleQuotedInner
  exact J2.loopFuel_bind (doubleQuotedLoop_J2 c _ _ _)

theorem bareword_J2 (c : Cut) (nb : NB) : J2 c (bareword nb) (bareword nb) := by
  unfold bareword
  refine J2.getEnv_bind ?_
  refine J2.loopFuel_bind ?_
  j2_walk
  exact skipWhile_J2 c _ _ _

theorem singleQuoted_J2 (c : Cut) (nb : NB) : J2 c (singleQuoted nb) (singleQuoted nb) := by
  unfold singleQuoted
  j2_walk
  exact singleQuotedInner_J2 c

theorem doubleQuoted_J2 (c : Cut) (nb : NB) : J2 c (doubleQuoted nb) (doubleQuoted nb) := by
  unfold doubleQuoted
  j2_walk
  exact doubleQuotedInner_J2 c

theorem starWildcard_J2 (c : Cut) (nb : NB) : J2 c (starWildcard nb) (starWildcard nb) := by
  unfold starWildcard
  refine J2.loopFuel_bind ?_
  j2_walk
  exact skipWhile_J2 c _ _ _

theorem questionWildcard_J2 (c : Cut) (nb : NB) : J2 c (questionWildcard nb) (questionWildcard nb) := by
  unfold questionWildcard
  j2_walk

/-! ### `variableP`, `spacesLoop` -/

theorem SyAt.getEnv_bind {β} {c : Cut} {f f' : Env → M β} {Q : β → St → Prop} {st : St}
    (h : SyAt c (f c.es) (f' c.ep) Q st) : SyAt c (C01.getEnv >>= f) (C01.getEnv >>= f') Q st := by
  intro b st2 hr hnil b' st2' hr'
  rw [bind_of_eq (getEnv_eq _ _)] at hr hr'
  exact h b st2 hr hnil b' st2' hr'

theorem SyAt.peek_bind_lt {β} {c : Cut} (g : c.Good) {f f' : Int → M β} {Q : β → St → Prop} {st : St}
    (hs : Sync c st) (hlt' : st.pos < c.k)
    (hlt : ∀ r, r = peekRune c.es st → 0 ≤ r → SyAt c (f r) (f' r) Q st) :
    SyAt c (C01.peek >>= f) (C01.peek >>= f') Q st :=
  SyAt.peek_bind g hs (fun _ h0 => hlt _ rfl h0) (fun hk => by omega)

theorem variableP_J2 (c : Cut) (nb : NB) : J2 c (variableP nb) (variableP nb) := by
  have huu : UU c.ep (variableP nb) := by
    intro N E
    unfold variableP
    refine Tr.bind (Tr.of_pure Pure.getEnv) (fun env => ?_)
    refine Tr.next_bind_eof (Tr.next_bind_eof ?_)
    simp only [beq_self_eq_true, if_true]
    exact Tr.backup_bind_eof (Tr.error_bind_eof (Tr.next_bind_eof (Tr.pure_eof (by omega))))
  refine ⟨?_, huu, fun g => ?_⟩
  · unfold variableP
    refine Mono.bind (Mono.of_pure Pure.getEnv) (fun env => ?_)
    refine Mono.bind (Mono.next _) (fun _ => Mono.bind (Mono.next _) (fun r => ?_))
    refine Mono.ite (fun _ => by mono_walk) (fun _ => ?_)
    refine Mono.ite (fun _ => Mono.bind (singleQuotedInner_J2 c).mono (fun _ => Mono.pure' _ _)) (fun _ => ?_)
    refine Mono.ite (fun _ => Mono.bind (doubleQuotedInner_J2 c).mono (fun _ => Mono.pure' _ _)) (fun _ => ?_)
    refine Mono.bind (Mono.ite (fun _ => by mono_walk) (fun _ => Mono.pure' _ _)) (fun _ => ?_)
    refine Mono.bind (Mono.of_pure Pure.loopFuel) (fun k => ?_)
    refine Mono.bind (skipWhile_J2 c _ _ 0).mono (fun _ => by mono_walk)
  · refine Sy.of_at (fun st hs => ?_)
    refine SyAt.split g hs (huu 0 []) (fun hlt => ?_)
    unfold variableP
    refine SyAt.getEnv_bind ?_
    simp only [Cut.es_ip, Cut.ep_ip]
    refine SyAt.next_bind_lt g hs hlt (fun r1 st1 hst1 => ?_)
    refine SyAt.split g hst1.sync1 ?_ (fun hlt1 => ?_)
    · refine Tr.next_bind_eof ?_
      simp only [beq_self_eq_true, if_true]
      exact Tr.backup_bind_eof (Tr.error_bind_eof (Tr.next_bind_eof (Tr.pure_eof (by omega))))
    refine SyAt.next_bind_lt g hst1.sync1 hlt1 (fun r st2 hst2 => ?_)
    refine SyAt.ite (fun h => ?_) (fun _ => ?_)
    · rw [beq_eof_of_nonneg hst2.nonneg] at h; cases h
    refine SyAt.ite (fun _ => ?_) (fun _ => ?_)
    · exact J2.at (J2.bind (singleQuotedInner_J2 c) (fun _ => J2.pure _ _)) g hst2.sync1
    refine SyAt.ite (fun _ => ?_) (fun _ => ?_)
    · exact J2.at (J2.bind (doubleQuotedInner_J2 c) (fun _ => J2.pure _ _)) g hst2.sync1
    have hrest : J2 c
        (do
          let k ← loopFuel
          skipWhile (allowedInVariableName c.ip) k
          let pos ← getPos
          let v ← sliceSrc ((nb.setType Variable).frm + 1) pos
          pure ((nb.setType Variable).setValue v))
        (do
          let k ← loopFuel
          skipWhile (allowedInVariableName c.ip) k
          let pos ← getPos
          let v ← sliceSrc ((nb.setType Variable).frm + 1) pos
          pure ((nb.setType Variable).setValue v)) := by
      refine J2.loopFuel_bind ?_
      j2_walk
      exact skipWhile_J2 c _ _ _
    refine SyAt.bind (Q1 := fun _ _ => False) ?_ (fun _ => hrest.mono) (fun _ st3 hs3 => hrest.at g hs3)
      (fun _ => Tr.false)
    exact SyAt.ite (fun _ => SyAt.backup_bind hst2 SyAt.error) (fun _ => SyAt.pure hst2.sync1)

theorem spacesLoop_J2 (c : Cut) (nl : Bool) : ∀ n n', J2 c (spacesLoop nl n) (spacesLoop nl n') := by
  intro n n'
  refine J2.loop (fun n (_ : Unit) => spacesLoop nl n) (fun _ => by simp only [spacesLoop]) ?_ n n' ()
  intro a b ih _
  have ih' : J2 c (spacesLoop nl a) (spacesLoop nl b) := ih ()
  show J2 c (spacesLoop nl (a + 1)) (spacesLoop nl (b + 1))
  have huu : UU c.ep (spacesLoop nl (b + 1)) := by
    intro N E
    unfold spacesLoop
    refine Tr.peek_bind_eof ?_
    simp [eof, IsInlineWhitespace, IsWhitespace]
    exact Tr.pure_eof (Nat.le_refl _)
  have hcomment : J2 c
      (do let _ ← next; let k ← loopFuel; commentLoop k; spacesLoop nl a)
      (do let _ ← next; let k ← loopFuel; commentLoop k; spacesLoop nl b) := by
    refine J2.bind (J2.next c) (fun _ => J2.loopFuel_bind ?_)
    exact J2.bind (commentLoop_J2 c _ _) (fun _ => ih')
  have hnext : J2 c (do let _ ← next; spacesLoop nl a) (do let _ ← next; spacesLoop nl b) :=
    J2.bind (J2.next c) (fun _ => ih')
  refine ⟨?_, huu, fun g => ?_⟩
  · unfold spacesLoop
    mono_walk
    all_goals first | exact ih'.mono | exact (commentLoop_J2 c _ 0).mono | exact Mono.of_pure Pure.loopFuel
  · refine Sy.of_at (fun st hs => ?_)
    refine SyAt.split g hs (huu 0 []) (fun hlt => ?_)
    unfold spacesLoop
    refine SyAt.peek_bind_lt g hs hlt (fun r _ _ => ?_)
    refine SyAt.ite (fun _ => hnext.at g hs) (fun _ => ?_)
    refine SyAt.ite (fun _ => hnext.at g hs) (fun _ => ?_)
    refine SyAt.ite (fun _ => hcomment.at g hs) (fun _ => ?_)
    refine SyAt.ite (fun _ => ?_) (fun _ => SyAt.pure hs)
    -- `^`
    refine SyAt.next_bind_lt g hs hlt (fun r1 st1 hst1 => ?_)
    refine SyAt.split g hst1.sync1 ?_ (fun hlt1 => ?_)
    · refine Tr.peek_bind_eof ?_
      simp [eof]
      exact Tr.error_bind_eof (ih'.uu 0 [])
    refine SyAt.peek_bind_lt g hst1.sync1 hlt1 (fun r2 _ hr2 => ?_)
    refine SyAt.ite (fun _ => ?_) (fun _ => ?_)
    · have : J2 c
          (do let _ ← next; let r3 ← peek; if r3 == 10 then do let _ ← next; spacesLoop nl a else spacesLoop nl a)
          (do let _ ← next; let r3 ← peek; if r3 == 10 then do let _ ← next; spacesLoop nl b else spacesLoop nl b) := by
        j2_walk
      exact this.at g hst1.sync1
    refine SyAt.ite (fun _ => hnext.at g hst1.sync1) (fun _ => ?_)
    refine SyAt.ite (fun h => ?_) (fun _ => ?_)
    · rw [beq_eof_of_nonneg hr2] at h; cases h
    · exact SyAt.backup_bind hst1 (SyAt.pure hs)

theorem parseSpacesInner_J2 (c : Cut) (nb : NB) (nl : Bool) :
    J2 c (parseSpacesInner nb nl) (parseSpacesInner nb nl) := by
  unfold parseSpacesInner
  refine J2.loopFuel_bind ?_
  exact J2.bind (spacesLoop_J2 c nl _ _) (fun _ => addSep_J2 c nb)

theorem parseSpaces_J2 (c : Cut) (nb : NB) : J2 c (parseSpaces nb) (parseSpaces nb) := by
  unfold parseSpaces; exact parseSpacesInner_J2 c nb false

theorem parseSpacesAndNewlines_J2 (c : Cut) (nb : NB) :
    J2 c (parseSpacesAndNewlines nb) (parseSpacesAndNewlines nb) := by
  unfold parseSpacesAndNewlines; exact parseSpacesInner_J2 c nb true

end C02
