/-
Derived rules: fuel-indexed loops, value-aware rules at the end of the input
(`Tr.…_eof`), and lock-step rules at a given state (`SyAt`) for the functions
that use `backup`.
-/
import ElvProofs.C02.Framework
namespace C02
open Go
open C01
open Gen.C01Chars

/-! ### Character classes at `EOF` -/

@[simp] theorem eof_isInlineWhitespace : IsInlineWhitespace eof = false := by decide
@[simp] theorem eof_isWhitespace : IsWhitespace eof = false := by decide
@[simp] theorem eof_isPipelineSep : isPipelineSep eof = false := by decide
@[simp] theorem eof_isRedirSign : isRedirSign eof = false := by decide
@[simp] theorem eof_isBracedSep : isBracedSep eof = false := by decide
@[simp] theorem eof_allowedInVariableName (ip : Int → Bool) : allowedInVariableName ip eof = false := by
  simp [allowedInVariableName, eof]
@[simp] theorem eof_allowedInBareword (ip : Int → Bool) (ctx : Int) : allowedInBareword ip eof ctx = false := by
  simp [allowedInBareword, allowedInVariableName, eof]
@[simp] theorem eof_startsPrimary (ip : Int → Bool) (ctx : Int) : startsPrimary ip eof ctx = false := by
  simp [startsPrimary, allowedInBareword, allowedInVariableName, eof]
@[simp] theorem eof_startsIndexing (ip : Int → Bool) (ctx : Int) : startsIndexing ip eof ctx = false := by
  simp [startsIndexing]
@[simp] theorem eof_startsCompound (ip : Int → Bool) (ctx : Int) : startsCompound ip eof ctx = false := by
  simp [startsCompound]
@[simp] theorem eof_startsArray (ip : Int → Bool) : startsArray ip eof = false := by
  simp [startsArray]
@[simp] theorem eof_startsForm (ip : Int → Bool) : startsForm ip eof = false := by
  simp [startsForm]
@[simp] theorem eof_startsPipeline (ip : Int → Bool) : startsPipeline ip eof = false := by
  simp [startsPipeline]
@[simp] theorem eof_hexToDigit : hexToDigit eof = (-1, false) := by decide
@[simp] theorem eof_doubleEscape : doubleEscape.lookup eof = none := by decide

theorem eof_beq_of_nonneg {n : Int} (h : 0 ≤ n) : (eof == n) = false := by
  simp only [eof, beq_eq_false_iff_ne, ne_eq]; omega

theorem beq_eof_of_nonneg {n : Int} (h : 0 ≤ n) : (n == eof) = false := by
  simp only [eof, beq_eq_false_iff_ne, ne_eq]; omega

/-! ### `Pure` closure -/

theorem Pure.bind {α β} {m : M α} {f : α → M β} (hm : Pure m) (hf : ∀ a, Pure (f a)) : Pure (m >>= f) := by
  intro e st b st2 hr
  obtain ⟨a, st1, h1, h2⟩ := bind_ok.1 hr
  have := hm e st a st1 h1
  subst this
  exact hf a e _ b st2 h2

theorem Pure.ite {α} {p : Prop} [Decidable p] {a b : M α} (h1 : p → Pure a) (h2 : ¬p → Pure b) :
    Pure (if p then a else b) := by
  by_cases h : p
  · simp only [h, if_true]; exact h1 h
  · simp only [h, if_false]; exact h2 h

theorem J2.of_pure {α} {c : Cut} {m : M α} (h : Pure m)
    (heq : c.Good → ∀ st, Sync c st → ∀ a a' st1 st1', m c.es st = .ok a st1 → m c.ep st = .ok a' st1' → a' = a) :
    J2 c m m where
  mono := Mono.of_pure h
  uu := UU.of_pure h
  sy := fun g => Sy.of_pure h h (heq g)

/-! ### Loops -/

theorem J2.fuel_left {α} {c : Cut} {m' : M α} (h : UU c.ep m') : J2 c C01.outOfFuel m' where
  mono := Mono.of_pure Pure.outOfFuel
  uu := h
  sy := fun _ => by intro st _ a st1 hr; simp [C01.outOfFuel] at hr

theorem J2.fuel_right {α} {c : Cut} {m : M α} (h : Mono c.es m) : J2 c m C01.outOfFuel where
  mono := h
  uu := UU.of_pure Pure.outOfFuel
  sy := fun _ => by intro st _ a st1 _ _ a' st1' hr'; simp [C01.outOfFuel] at hr'

/-- A fuel-indexed loop whose step preserves `J2` (at any pair of fuels)
satisfies `J2` at every pair of fuels.  (`L` is the loop of the s-run, `L'` of the
p-run: they differ in the `parse` they call back.) -/
theorem J2.loop2 {α X} {c : Cut} (L L' : Nat → X → M α) (h0 : ∀ x, L 0 x = C01.outOfFuel)
    (h0' : ∀ x, L' 0 x = C01.outOfFuel)
    (step : ∀ a b, (∀ x, J2 c (L a x) (L' b x)) → ∀ x, J2 c (L (a + 1) x) (L' (b + 1) x)) :
    ∀ n n' x, J2 c (L n x) (L' n' x) := by
  have diag : ∀ n x, J2 c (L n x) (L' n x) := by
    intro n
    induction n with
    | zero => intro x; rw [h0, h0']; exact J2.outOfFuel c
    | succ n ih => exact step n n ih
  intro n
  induction n with
  | zero => intro n' x; rw [h0]; exact J2.fuel_left (diag n' x).uu
  | succ n ih =>
    intro n' x
    cases n' with
    | zero => rw [h0' x]; exact J2.fuel_right (diag (n + 1) x).mono
    | succ n' => exact step n n' (ih n') x

theorem J2.loop {α X} {c : Cut} (L : Nat → X → M α) (h0 : ∀ x, L 0 x = C01.outOfFuel)
    (step : ∀ a b, (∀ x, J2 c (L a x) (L b x)) → ∀ x, J2 c (L (a + 1) x) (L (b + 1) x)) :
    ∀ n n' x, J2 c (L n x) (L n' x) := J2.loop2 L L h0 h0 step

/-! ### At the end of the input, value-aware -/

theorem Tr.peek_bind_eof {β} {e : Env} {n : Nat} {E : List PErr} {f : Int → M β} {Q : β → St → Prop}
    (h : Tr e (AtEOF e n E) (f eof) Q) : Tr e (AtEOF e n E) (C01.peek >>= f) Q := by
  refine Tr.bind (Tr.peek_eof e n E) (fun r => ?_)
  intro st hp
  obtain ⟨rfl, hp⟩ := hp
  exact h st hp

theorem Tr.next_bind_eof {β} {e : Env} {n : Nat} {E : List PErr} {f : Int → M β} {Q : β → St → Prop}
    (h : Tr e (AtEOF e (n + 1) E) (f eof) Q) : Tr e (AtEOF e n E) (C01.next >>= f) Q := by
  refine Tr.bind (Tr.next_eof e n E) (fun r => ?_)
  intro st hp
  obtain ⟨rfl, hp⟩ := hp
  exact h st hp

theorem Tr.backup_bind_eof {β} {e : Env} {n : Nat} {E : List PErr} {g : Unit → M β} {Q : β → St → Prop}
    (h : Tr e (AtEOF e n E) (g ()) Q) : Tr e (AtEOF e (n + 1) E) (C01.backup >>= g) Q :=
  Tr.bind (Tr.backup_eof e n E) (fun _ => h)

theorem Tr.error_bind_eof {β} {e : Env} {n : Nat} {E : List PErr} {m : Msg} {g : Unit → M β}
    {Q : β → St → Prop} (h : Tr e (AtEOF e n E) (g ()) Q) : Tr e (AtEOF e n E) (C01.error m >>= g) Q :=
  Tr.bind (Tr.error_eof e n E m) (fun _ => h)

theorem Tr.uu_bind {α β} {e : Env} {n : Nat} {E : List PErr} {m : M α} {f : α → M β} {Q : β → St → Prop}
    (hm : UU e m) (h : ∀ a, Tr e (AtEOF e n E) (f a) Q) : Tr e (AtEOF e n E) (m >>= f) Q :=
  Tr.bind (hm n E) h

theorem Tr.pure_eof {α} {e : Env} {n n' : Nat} {E : List PErr} {a : α} (h : n' ≤ n) :
    Tr e (AtEOF e n E) (_root_.Pure.pure a : M α) (fun _ => AtEOF e n' E) :=
  Tr.pure (fun _ hp => hp.weaken h)

theorem Tr.uu {α} {e : Env} {n n' : Nat} {E : List PErr} {m : M α} (hm : UU e m) (h : n' ≤ n) :
    Tr e (AtEOF e n E) m (fun _ => AtEOF e n' E) :=
  (hm n E).conseq (fun _ hp => hp) (fun _ _ hq => hq.weaken h)

theorem Tr.ite {α} {e : Env} {P : St → Prop} {p : Prop} [Decidable p] {a b : M α} {Q : α → St → Prop}
    (h1 : p → Tr e P a Q) (h2 : ¬p → Tr e P b Q) : Tr e P (if p then a else b) Q := by
  by_cases h : p
  · simp only [h, if_true]; exact h1 h
  · simp only [h, if_false]; exact h2 h

/-! ### Lock step at a given state -/

def SyAt {α} (c : Cut) (m m' : M α) (Q : α → St → Prop) (st : St) : Prop :=
  ∀ a st1, m c.es st = .ok a st1 → st1.errors = [] →
    ∀ a' st1', m' c.ep st = .ok a' st1' → (a' = a ∧ st1' = st1 ∧ Sync c st1) ∨ Q a' st1'

theorem Sy.at {α} {c : Cut} {m m' : M α} {Q : α → St → Prop} (h : Sy c m m' Q) {st : St} (hs : Sync c st) :
    SyAt c m m' Q st := h st hs

theorem Sy.of_at {α} {c : Cut} {m m' : M α} {Q : α → St → Prop} (h : ∀ st, Sync c st → SyAt c m m' Q st) :
    Sy c m m' Q := h

theorem SyAt.pure {α} {c : Cut} {a : α} {Q : α → St → Prop} {st : St} (hs : Sync c st) :
    SyAt c (_root_.Pure.pure a : M α) (_root_.Pure.pure a) Q st := by
  intro x st1 hr _ x' st1' hr'
  simp only [pure_apply, Out.ok.injEq] at hr hr'
  obtain ⟨rfl, rfl⟩ := hr
  obtain ⟨rfl, rfl⟩ := hr'
  exact Or.inl ⟨rfl, rfl, hs⟩

theorem SyAt.ite {α} {c : Cut} {p : Prop} [Decidable p] {a b a' b' : M α} {Q : α → St → Prop} {st : St}
    (h1 : p → SyAt c a a' Q st) (h2 : ¬p → SyAt c b b' Q st) :
    SyAt c (if p then a else b) (if p then a' else b') Q st := by
  by_cases h : p
  · simp only [h, if_true]; exact h1 h
  · simp only [h, if_false]; exact h2 h

theorem SyAt.bind {α β} {c : Cut} {m m' : M α} {f f' : α → M β} {Q1 : α → St → Prop} {Q : β → St → Prop}
    {st : St} (hm : SyAt c m m' Q1 st) (hmono : ∀ a, Mono c.es (f a))
    (hf : ∀ a st1, Sync c st1 → SyAt c (f a) (f' a) Q st1)
    (hu : ∀ a, Tr c.ep (Q1 a) (f' a) Q) : SyAt c (m >>= f) (m' >>= f') Q st := by
  intro b st2 hr hnil b' st2' hr'
  obtain ⟨a, st1, h1, h2⟩ := bind_ok.1 hr
  obtain ⟨a', st1', h1', h2'⟩ := bind_ok.1 hr'
  have hnil1 := (hmono a).nil_of_nil h2 hnil
  rcases hm a st1 h1 hnil1 a' st1' h1' with ⟨rfl, rfl, hs1⟩ | hq
  · exact hf a' st1' hs1 b st2 h2 hnil b' st2' h2'
  · exact Or.inr (hu a' st1' hq b' st2' h2')

/-- The s-run records an error: nothing to show. -/
theorem SyAt.error_bind {β} {c : Cut} {m : Msg} {g : Unit → M β} {m' : M β} {Q : β → St → Prop} {st : St}
    (hmono : Mono c.es (g ())) : SyAt c (C01.error m >>= g) m' Q st := by
  intro b st2 hr hnil
  exfalso
  obtain ⟨a, st1, h1, h2⟩ := bind_ok.1 hr
  have hnil1 := hmono.nil_of_nil h2 hnil
  unfold C01.error at h1
  have := errorp_ok h1
  subst this
  simp at hnil1

theorem SyAt.error {c : Cut} {m : Msg} {m' : M Unit} {Q : Unit → St → Prop} {st : St} :
    SyAt c (C01.error m) m' Q st := by
  intro b st2 hr hnil
  exfalso
  unfold C01.error at hr
  have := errorp_ok hr
  subst this
  simp at hnil

/-- `peek` at a state in lock step: before the cut both runs see the same
rune (not `EOF`); at the cut the p-run continues alone with `EOF`. -/
theorem SyAt.peek_bind {β} {c : Cut} (g : c.Good) {f f' : Int → M β} {Q : β → St → Prop} {st : St}
    (hs : Sync c st)
    (hlt : st.pos < c.k → 0 ≤ peekRune c.es st → SyAt c (f (peekRune c.es st)) (f' (peekRune c.es st)) Q st)
    (heq : st.pos = c.k → Tr c.ep (AtEOF c.ep 0 []) (f' eof) Q) :
    SyAt c (C01.peek >>= f) (C01.peek >>= f') Q st := by
  intro b st2 hr hnil b' st2' hr'
  rw [bind_of_eq (peek_eq (hs.inv_s g))] at hr
  rw [bind_of_eq (peek_eq (hs.inv_p g))] at hr'
  rcases Nat.lt_or_ge st.pos c.k with h | h
  · obtain ⟨e1, _, _, e4⟩ := sync_lt g hs h
    rw [e1] at hr'
    exact hlt h e4 b st2 hr hnil b' st2' hr'
  · have hk : st.pos = c.k := Nat.le_antisymm hs.2.2.1 h
    rw [peekRune_eof.2 (sync_eq_p g hk)] at hr'
    exact Or.inr (heq hk st (hs.atEOF g hk) b' st2' hr')

/-- What is known after a `next` strictly before the cut. -/
structure Stepped (c : Cut) (st st1 : St) (r : Int) : Prop where
  sync0 : Sync c st
  sync1 : Sync c st1
  nonneg : 0 ≤ r
  back_s : backup c.es st1 = .ok () st
  back_p : backup c.ep st1 = .ok () st
  rune : r = peekRune c.es st
  st1_eq : st1 = nextSt c.es st

theorem SyAt.next_bind {β} {c : Cut} (g : c.Good) {f f' : Int → M β} {Q : β → St → Prop} {st : St}
    (hs : Sync c st)
    (hlt : ∀ r st1, Stepped c st st1 r → SyAt c (f r) (f' r) Q st1)
    (heq : Tr c.ep (AtEOF c.ep 1 []) (f' eof) Q) :
    SyAt c (C01.next >>= f) (C01.next >>= f') Q st := by
  intro b st2 hr hnil b' st2' hr'
  rw [bind_of_eq (next_eq (hs.inv_s g))] at hr
  rw [bind_of_eq (next_eq (hs.inv_p g))] at hr'
  rcases Nat.lt_or_ge st.pos c.k with h | h
  · obtain ⟨e1, e2, e3, e4⟩ := sync_lt g hs h
    rw [e1, e2] at hr'
    have hb1 := backup_nextSt (hs.inv_s g)
    have hb2 := backup_nextSt (hs.inv_p g)
    rw [e2] at hb2
    exact hlt _ _ ⟨hs, e3, e4, hb1, hb2, rfl, rfl⟩ b st2 hr hnil b' st2' hr'
  · have hk : st.pos = c.k := Nat.le_antisymm hs.2.2.1 h
    have hp := sync_eq_p g hk
    rw [peekRune_eof.2 hp] at hr'
    have e : nextSt c.ep st = { st with overEOF := st.overEOF + 1 } := by
      unfold nextSt; simp [hp]
    rw [e] at hr'
    have h1 := (Tr.next_eof c.ep 0 []) st (hs.atEOF g hk) _ _ (next_at_eof hp)
    exact Or.inr (heq _ h1.2 b' st2' hr')

/-- `backup` right after the `next` that `Stepped` describes. -/
theorem SyAt.backup_bind {β} {c : Cut} {g g' : Unit → M β} {Q : β → St → Prop} {st st1 : St} {r : Int}
    (hst : Stepped c st st1 r) (h : SyAt c (g ()) (g' ()) Q st) :
    SyAt c (C01.backup >>= g) (C01.backup >>= g') Q st1 := by
  intro b st2 hr hnil b' st2' hr'
  rw [bind_of_eq hst.back_s] at hr
  rw [bind_of_eq hst.back_p] at hr'
  exact h b st2 hr hnil b' st2' hr'

theorem SyAt.conseq {α} {c : Cut} {m m' : M α} {Q Q' : α → St → Prop} {st : St} (h : SyAt c m m' Q st)
    (hq : ∀ a st, Q a st → Q' a st) : SyAt c m m' Q' st := by
  intro a st1 hr hnil a' st1' hr'
  rcases h a st1 hr hnil a' st1' hr' with h | h
  · exact Or.inl h
  · exact Or.inr (hq _ _ h)

/-- `J2` as a lock-step fact at a state. -/
theorem J2.at {α} {c : Cut} {m m' : M α} (h : J2 c m m') (g : c.Good) {st : St} (hs : Sync c st) :
    SyAt c m m' (Dv c) st := h.sy g st hs

/-- At the cut the whole p-run is a run from the end of the input. -/
theorem SyAt.at_cut {α} {c : Cut} (g : c.Good) {m m' : M α} {Q : α → St → Prop} {st : St}
    (hs : Sync c st) (hk : st.pos = c.k) (h : Tr c.ep (AtEOF c.ep 0 []) m' Q) : SyAt c m m' Q st := by
  intro a st1 _ _ a' st1' hr'
  exact Or.inr (h st (hs.atEOF g hk) a' st1' hr')

/-- `next` strictly before the cut (the case `pos = k` is `SyAt.at_cut`). -/
theorem SyAt.next_bind_lt {β} {c : Cut} (g : c.Good) {f f' : Int → M β} {Q : β → St → Prop} {st : St}
    (hs : Sync c st) (hlt' : st.pos < c.k)
    (hlt : ∀ r st1, Stepped c st st1 r → SyAt c (f r) (f' r) Q st1) :
    SyAt c (C01.next >>= f) (C01.next >>= f') Q st := by
  intro b st2 hr hnil b' st2' hr'
  rw [bind_of_eq (next_eq (hs.inv_s g))] at hr
  rw [bind_of_eq (next_eq (hs.inv_p g))] at hr'
  obtain ⟨e1, e2, e3, e4⟩ := sync_lt g hs hlt'
  rw [e1, e2] at hr'
  have hb1 := backup_nextSt (hs.inv_s g)
  have hb2 := backup_nextSt (hs.inv_p g)
  rw [e2] at hb2
  exact hlt _ _ ⟨hs, e3, e4, hb1, hb2, rfl, rfl⟩ b st2 hr hnil b' st2' hr'

/-- Split a lock-step obligation into "strictly before the cut" and "at the
cut", the latter being a run of the p-side from the end of its input. -/
theorem SyAt.split {α} {c : Cut} (g : c.Good) {m m' : M α} {Q : α → St → Prop} {st : St}
    (hs : Sync c st) (hcut : Tr c.ep (AtEOF c.ep 0 []) m' Q)
    (hlt : st.pos < c.k → SyAt c m m' Q st) : SyAt c m m' Q st := by
  rcases Nat.lt_or_ge st.pos c.k with h | h
  · exact hlt h
  · exact SyAt.at_cut g hs (Nat.le_antisymm hs.2.2.1 h) hcut

theorem SyAt.errorp_bind {β} {c : Cut} {a b : Nat} {m : Msg} {g : Unit → M β} {m' : M β} {Q : β → St → Prop}
    {st : St} (hmono : Mono c.es (g ())) : SyAt c (C01.errorp a b m >>= g) m' Q st := by
  intro x st2 hr hnil
  exfalso
  obtain ⟨u, st1, h1, h2⟩ := bind_ok.1 hr
  have hnil1 := hmono.nil_of_nil h2 hnil
  have := errorp_ok h1
  subst this
  simp at hnil1

theorem SyAt.panic {α} {c : Cut} {w : String} {m' : M α} {Q : α → St → Prop} {st : St} :
    SyAt c (C01.panic w) m' Q st := by
  intro x st2 hr
  simp [C01.panic] at hr

theorem SyAt.of_eq {α} {c : Cut} {m m' n n' : M α} {Q : α → St → Prop} {st : St}
    (h : SyAt c n n' Q st) (e1 : m = n) (e2 : m' = n') : SyAt c m m' Q st := by
  subst e1 e2; exact h

end C02
