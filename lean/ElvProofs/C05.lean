/-
C05 — typed numbers survive to-string/num; every documented literal parses;
non-numbers are rejected.  Property theorems (helpers in ElvProofs/C05/*).
-/
import ElvModel.C05.Model
import ElvModel.C05.Spec
import ElvModel.C05.Grammar
import ElvProofs.C05.Scan
import ElvProofs.C05.Lit
import ElvProofs.C05.Float
import ElvProofs.C05.FloatLit
import ElvProofs.C05.Reject
import ElvProofs.C05.Classify
import ElvProofs.C05.Flank
import ElvProofs.C05.Classes
open Go C05

/-- (1) Exact numbers survive to-string/num with the same representation:
for every canonical int / big int / rational `x`, `ParseNum (ToString x) = x`.
Unbounded in the size of the number. -/
theorem C05_exact_roundtrip (L : Strconv) (x : Num) (h : x.CanonicalExact) :
    parseNum (C05.toString L x) = some x := by
  cases x with
  | int i => simp only [C05.toString, parseNum_intToDec, normalizeBigInt]; simp [Num.CanonicalExact] at h; simp [h]
  | big i => simp only [C05.toString, parseNum_intToDec, normalizeBigInt]; simp [Num.CanonicalExact] at h; simp [h]
  | rat q => simp only [C05.toString, parseNum_ratToString, normalizeBigRat]; simp [Num.CanonicalExact] at h; simp [h]
  | float f => exact absurd h (by simp [Num.CanonicalExact])

-- non-vacuity: 2^63 (a big int), and -7/3
example : (Num.big 9223372036854775808).CanonicalExact := by simp [Num.CanonicalExact, fitsInt]
example : (Num.rat (mkRat (-7) 3)).CanonicalExact := by
  show (mkRat (-7) 3).den ≠ 1
  decide

/-- (1b) The boundary of the machine-int representation: `NormalizeBigInt`
(hence ParseNum, which ends in it) gives a Go `int` exactly on
[MinInt64, MaxInt64] and a `*big.Int` exactly outside — so `-2^63` itself is an
`int` (the seeded change C05-minint-not-normalised kept it big). -/
theorem C05_normalize_int_range (z : Int) :
    (normalizeBigInt z = .int z ↔ (-9223372036854775808 ≤ z ∧ z ≤ 9223372036854775807)) ∧
    (normalizeBigInt z = .big z ↔ (z < -9223372036854775808 ∨ 9223372036854775807 < z)) := by
  unfold normalizeBigInt fitsInt
  by_cases h : (-9223372036854775808 ≤ z ∧ z ≤ 9223372036854775807)
  · have : (decide (-9223372036854775808 ≤ z) && decide (z ≤ 9223372036854775807)) = true := by simp [h]
    simp only [this, if_true]
    refine ⟨by simp [h], ⟨fun e => (by cases e), fun e => (by omega)⟩⟩
  · have : (decide (-9223372036854775808 ≤ z) && decide (z ≤ 9223372036854775807)) = false := by
      simp only [Bool.and_eq_false_iff, decide_eq_false_iff_not]
      by_cases h1 : -9223372036854775808 ≤ z
      · exact Or.inr (fun h2 => h ⟨h1, h2⟩)
      · exact Or.inl h1
    simp only [this, Bool.false_eq_true, if_false]
    refine ⟨⟨fun e => (by cases e), fun e => absurd e h⟩, ⟨fun _ => (by omega), fun _ => trivial⟩⟩

/-- the same for rationals: an integral `*big.Rat` is an `int` exactly on the machine range -/
theorem C05_normalize_rat_int_range (z : Int) :
    normalizeBigRat (mkRat z 1) = normalizeBigInt z := by
  have h1 : (mkRat z 1).den = 1 := by simp [Rat.mkRat_one]
  have h2 : (mkRat z 1).num = z := by simp [Rat.mkRat_one]
  simp [normalizeBigRat, h1, h2]

-- both boundary values, and their neighbours outside
example : normalizeBigInt (-9223372036854775808) = .int (-9223372036854775808) := by decide
example : normalizeBigInt 9223372036854775807 = .int 9223372036854775807 := by decide
example : normalizeBigInt (-9223372036854775809) = .big (-9223372036854775809) := by decide
example : normalizeBigInt 9223372036854775808 = .big 9223372036854775808 := by decide
-- through ParseNum: "-9223372036854775808", "-0x8000000000000000", "-9223372036854775808/1", "9223372036854775807"
example : parseNum [0x2D,0x39,0x32,0x32,0x33,0x33,0x37,0x32,0x30,0x33,0x36,0x38,0x35,0x34,0x37,0x37,0x35,0x38,0x30,0x38]
    = some (.int (-9223372036854775808)) := by decide +kernel
example : parseNum [0x2D,0x30,0x78,0x38,0x30,0x30,0x30,0x30,0x30,0x30,0x30,0x30,0x30,0x30,0x30,0x30,0x30,0x30,0x30]
    = some (.int (-9223372036854775808)) := by decide +kernel
example : parseNum [0x2D,0x39,0x32,0x32,0x33,0x33,0x37,0x32,0x30,0x33,0x36,0x38,0x35,0x34,0x37,0x37,0x35,0x38,0x30,0x38,0x2F,0x31]
    = some (.int (-9223372036854775808)) := by decide +kernel
example : parseNum [0x39,0x32,0x32,0x33,0x33,0x37,0x32,0x30,0x33,0x36,0x38,0x35,0x34,0x37,0x37,0x35,0x38,0x30,0x37]
    = some (.int 9223372036854775807) := by decide +kernel
example : parseNum [0x2D,0x39,0x32,0x32,0x33,0x33,0x37,0x32,0x30,0x33,0x36,0x38,0x35,0x34,0x37,0x37,0x35,0x38,0x30,0x39]
    = some (.big (-9223372036854775809)) := by decide +kernel

/-- (2) Floats survive to-string/num as *floats*, bit for bit (NaN ↦ NaN), for
every bit pattern `f` for which strconv behaves as assumed (`strconvOKAt`:
its `'f'`/`'e'` shortest outputs have the shapes `-?d+(.d+)?` / `-?d(.d+)?e[+-]dd+`,
`NaN`, `±Inf`, and parse back to `f`).  What is proved is elvish's own part:
the `'f'`/`'e'` switch and the `.0` suffix never produce a string that the
rational or the integer grammar takes, and `.0` does not change the value. -/
theorem C05_float_roundtrip (L : Strconv) (f : Nat) (hf : f < 2 ^ 64) (hL : strconvOKAt L f = true) :
    parseNum (C05.toString L (.float f)) = some (.float (if isNaN f then nanBits else f)) := by
  unfold strconvOKAt at hL
  simp only [C05.toString, formatFloat64]
  by_cases hn : isNaN f = true
  · simp only [hn, if_true, beq_iff_eq] at hL ⊢
    rw [hL, wrapper_nan _ _ hn]; decide
  · simp only [hn, Bool.false_eq_true, if_false] at hL ⊢
    by_cases h1 : f = infBits
    · simp only [h1, if_true, beq_iff_eq] at hL ⊢
      rw [hL, wrapper_pinf]; decide
    · simp only [h1, if_false] at hL
      by_cases h2 : f = signBit + infBits
      · simp only [h2, if_true, beq_iff_eq] at hL ⊢
        rw [hL, wrapper_ninf]; decide
      · simp only [h2, if_false, Bool.and_eq_true, beq_iff_eq] at hL
        obtain ⟨⟨⟨hF, hE⟩, pF⟩, pE⟩ := hL
        have hi : isInf f = false := by
          cases h : isInf f with
          | false => rfl
          | true => rcases (isInf_iff hf).mp h with e | e; exact absurd e h1; exact absurd e h2
        have hn' : isNaN f = false := by simpa using hn
        rw [wrapper_finite _ _ _ hn' hi]
        split
        · -- 'e' format
          obtain ⟨hs, c, cs, e, hsg⟩ := eshape_facts hE
          refine parseNum_float hs ?_ pE
          rw [e]; exact intSetString_none_of_inner_sign hsg
        · split
          · -- no point: ".0" is appended
            rename_i hp
            have hnd : (0x2E : UInt8) ∉ L.fmtF f := by
              intro hm; simp [hm] at hp
            have hs := fshape_no_slash hF
            refine parseNum_float ?_ (intSetString_none_of_dot (by simp)) ?_
            · intro hm
              rcases List.mem_append.mp hm with hm | hm
              · exact hs hm
              · simp at hm
            · rw [parseFloat_dot0 _ (fshape_no_dot hF hnd), pF]
          · rename_i hp
            have hd : (0x2E : UInt8) ∈ L.fmtF f := by
              simpa [List.contains_iff_mem] using hp
            exact parseNum_float (fshape_no_slash hF) (intSetString_none_of_dot hd) pF

-- non-vacuity: the hypothesis holds for 1e15 = 0x430c6bf526340000 with Go's
-- outputs "1000000000000000" and "1e+15" (the 'e' switch), and for 3.0
example : strconvOKAt ⟨fun _ => [0x31,0x30,0x30,0x30,0x30,0x30,0x30,0x30,0x30,0x30,0x30,0x30,0x30,0x30,0x30,0x30],
    fun _ => [0x31, 0x65, 0x2B, 0x31, 0x35]⟩ 0x430c6bf526340000 = true := by decide +kernel
example : strconvOKAt ⟨fun _ => [0x33], fun _ => [0x33, 0x65, 0x2B, 0x30, 0x30]⟩ 0x4008000000000000 = true := by
  decide +kernel

/-- (3a) Every integer literal of a documented syntax — optional sign; decimal
without leading zero, `0x`/`0o`/`0b` in either case; digits in either case;
single underscores between digits (and after a base prefix) — is accepted with
exactly its value, in canonical form (`int` when it fits 64 bits, else big). -/
theorem C05_int_literal (l : IntLit) (h : l.wf = true) :
    parseNum l.render = some (normalizeBigInt l.value) :=
  parseNum_intLit l h

-- non-vacuity: "-0X_fF_0"
example : (⟨.minus, ⟨.hex, true, true, ⟨⟨15, false⟩, [(false, ⟨15, true⟩), (true, ⟨0, false⟩)]⟩⟩⟩ : IntLit).wf = true ∧
    (⟨.minus, ⟨.hex, true, true, ⟨⟨15, false⟩, [(false, ⟨15, true⟩), (true, ⟨0, false⟩)]⟩⟩⟩ : IntLit).render =
      [0x2D, 0x30, 0x58, 0x5F, 0x66, 0x46, 0x5F, 0x30] := by decide

/-- (3b) Every rational literal `a/b` (`a` an integer literal, `b` an unsigned
integer literal ≠ 0, each in any documented integer syntax) is accepted with
exactly the value `a/b`, reduced and canonical (an integer when `b ∣ a`). -/
theorem C05_rat_literal (l : RatLit) (h : l.wf = true) :
    parseNum l.render = some (normalizeBigRat l.value) :=
  parseNum_ratLit l h

/-- (3c) `Inf` (with or without sign), `Infinity` and `NaN` in every letter case. -/
theorem C05_special_literals :
    (∀ a b c : Bool, parseNum [if a then 0x4E else 0x6E, if b then 0x41 else 0x61, if c then 0x4E else 0x6E]
        = some (.float nanBits)) ∧
    (∀ a b c : Bool, parseNum [if a then 0x49 else 0x69, if b then 0x4E else 0x6E, if c then 0x46 else 0x66]
        = some (.float infBits)) ∧
    (∀ a b c : Bool, parseNum [0x2B, if a then 0x49 else 0x69, if b then 0x4E else 0x6E, if c then 0x46 else 0x66]
        = some (.float infBits)) ∧
    (∀ a b c : Bool, parseNum [0x2D, if a then 0x49 else 0x69, if b then 0x4E else 0x6E, if c then 0x46 else 0x66]
        = some (.float (signBit + infBits))) := by
  decide

/-- (3d) at full strength: every decimal / scientific float literal (optional
sign; digits with single underscores between digits; optional fraction;
optional `e`/`E` exponent with optional sign, at most 4 exponent digits; at
least a point or an exponent) is accepted as a float with the IEEE 754
round-to-nearest-even value of the number it denotes — overflow giving ±Inf. -/
def C05_full_float_literals : Prop :=
  ∀ l : DecFloatLit, l.wf = true → parseNum l.render = some (.float l.lit.ieeeBits)

/-- the literal `1e999` -/
def C05_witness_1e999 : DecFloatLit :=
  ⟨.none, ⟨⟨1, false⟩, []⟩, none, some (false, .none, ⟨⟨9, false⟩, [(false, ⟨9, false⟩), (false, ⟨9, false⟩)]⟩)⟩

/-- The unchanged code violates (3d): `num 1e999` is rejected (ParseNum keeps
strconv.ParseFloat's result only when `err == nil`; overflow is `ErrRange`).
Witness replayed on the real code from harness/corpus/C05.txt. -/
theorem C05_counterexample : ¬ C05_full_float_literals := by
  intro h
  have h1 := h C05_witness_1e999 (by decide)
  have h2 : parseNum C05_witness_1e999.render = none := by decide +kernel
  rw [h2] at h1
  exact absurd h1 (by simp)

/-- (3d) for every literal whose rounded value is finite — exactly the
complement of the finding `literal-float-overflow`. -/
theorem C05_float_literal_partial (l : DecFloatLit) (h : l.wf = true) (hfin : l.lit.overflows = false) :
    parseNum l.render = some (.float l.lit.ieeeBits) := by
  rw [parseNum_decFloatLit l h]
  simp only [FloatLit.overflows, decide_eq_false_iff_not] at hfin
  simp [FloatLit.bits, FloatLit.ieeeBits, hfin]

/-- what the code does on the excluded class: the literal is rejected -/
theorem C05_float_literal_overflow (l : DecFloatLit) (h : l.wf = true) (hov : l.lit.overflows = true) :
    parseNum l.render = none := by
  rw [parseNum_decFloatLit l h]
  simp only [FloatLit.overflows, decide_eq_true_eq] at hov
  simp [FloatLit.bits, hov]

-- non-vacuity: "-1_0.2_5E+0_3" is well-formed and finite; it renders as expected
example : (⟨.minus, ⟨⟨1, false⟩, [(true, ⟨0, false⟩)]⟩, some ⟨⟨2, false⟩, [(true, ⟨5, false⟩)]⟩,
    some (true, .plus, ⟨⟨0, false⟩, [(true, ⟨3, false⟩)]⟩)⟩ : DecFloatLit).wf = true := by decide
example : (⟨.minus, ⟨⟨1, false⟩, [(true, ⟨0, false⟩)]⟩, some ⟨⟨2, false⟩, [(true, ⟨5, false⟩)]⟩,
    some (true, .plus, ⟨⟨0, false⟩, [(true, ⟨3, false⟩)]⟩)⟩ : DecFloatLit).render =
    [0x2D, 0x31, 0x5F, 0x30, 0x2E, 0x32, 0x5F, 0x35, 0x45, 0x2B, 0x30, 0x5F, 0x33] := by decide
example : (⟨.minus, ⟨⟨1, false⟩, [(true, ⟨0, false⟩)]⟩, some ⟨⟨2, false⟩, [(true, ⟨5, false⟩)]⟩,
    some (true, .plus, ⟨⟨0, false⟩, [(true, ⟨3, false⟩)]⟩)⟩ : DecFloatLit).lit.overflows = false := by decide +kernel
example : C05_witness_1e999.lit.overflows = true := by decide +kernel

/-! ## Round 2: the complete grammars (ElvModel/C05/Grammar.lean) -/

/-- (3a') Every integer syntax `Int.SetString(s, 0)` takes — the documented ones
and Go's legacy octal `0 (_? d)+` (`010`, `0_7`) — parses to its value, canonical. -/
theorem C05_gint_literal (l : GInt) (h : l.wf = true) :
    parseNum l.render = some (normalizeBigInt l.value) :=
  parseNum_gint l h

-- non-vacuity: "-0_17" is the legacy octal -15
example : (⟨.minus, .oct0 [(true, ⟨1, false⟩), (false, ⟨7, false⟩)]⟩ : GInt).wf = true ∧
    (⟨.minus, .oct0 [(true, ⟨1, false⟩), (false, ⟨7, false⟩)]⟩ : GInt).render = [0x2D, 0x30, 0x5F, 0x31, 0x37] ∧
    (⟨.minus, .oct0 [(true, ⟨1, false⟩), (false, ⟨7, false⟩)]⟩ : GInt).value = -15 := by decide

/-- (3b') the same for `a/b` with `a`, `b` in any integer syntax -/
theorem C05_grat_literal (l : GRat) (h : l.wf = true) :
    parseNum l.render = some (normalizeBigRat l.value) :=
  parseNum_grat l h

example : (⟨⟨.none, .oct0 [(false, ⟨1, false⟩), (false, ⟨0, false⟩)]⟩, .lit ⟨.hex, false, false, ⟨⟨10, true⟩, []⟩⟩⟩ : GRat).wf = true ∧
    (⟨⟨.none, .oct0 [(false, ⟨1, false⟩), (false, ⟨0, false⟩)]⟩, .lit ⟨.hex, false, false, ⟨⟨10, true⟩, []⟩⟩⟩ : GRat).render =
      [0x30, 0x31, 0x30, 0x2F, 0x30, 0x78, 0x41] := by decide

/-- (3d') Float literals in full generality — decimal or hexadecimal (`0x1.8p3`),
with or without integer part / fraction digits (`.5`, `5.`), single underscores
between digits and after `0x`, exponent digits of ANY number — that carry a
point or an exponent and whose rounded value is finite are accepted as the
float with the IEEE round-to-nearest-even value of `mant · b^(exp − frac)`,
where `exp` is the exponent AS GO READS IT (`capExp`: digits are dropped once
the exponent has reached 10000). -/
theorem C05_float_literal_general (l : GFloatLit) (h : l.wf = true) (hm : l.marked = true)
    (hfin : l.lit.overflows = false) : parseNum l.render = some (.float l.lit.ieeeBits) := by
  rw [parseNum_gfloat l h hm, bits_of_not_overflows hfin]; rfl

/-- on the overflow class (the known finding) the general literal is rejected -/
theorem C05_float_literal_general_overflow (l : GFloatLit) (h : l.wf = true) (hm : l.marked = true)
    (hov : l.lit.overflows = true) : parseNum l.render = none := by
  rw [parseNum_gfloat l h hm, bits_of_overflows hov]; rfl

/-- Go's exponent cap is inert whenever the written exponent is below 100000
(any number of digits — leading zeros are free): then the value read is the true
value of the literal. -/
theorem C05_float_exponent_cap_inert (l : GFloatLit) (hs : l.expSmall = true) : l.lit = l.trueLit := by
  unfold GFloatLit.trueLit
  cases hx : l.exp with
  | none => simp [GFloatLit.lit, hx]
  | some x =>
    obtain ⟨up, sg, e⟩ := x
    simp only [GFloatLit.expSmall, hx, decide_eq_true_eq] at hs
    simp [GFloatLit.lit, hx, capExp_eq e hs]

/-- (3d') at full strength, with the TRUE value of the exponent digits.  False for
the unchanged code for two reasons: the overflow finding (`C05_counterexample_general`,
`1e999` again), and — only for exponents ≥ 100000 combined with mantissas of
thousands of digits — Go's exponent cap (`0x1` + 2500 zeros + `p-100000` is 2^-90000,
which rounds to 0, but strconv reads the exponent as -10000 and returns 1.0;
replayed on the real code from the corpus; too large for a kernel computation
within the time limit, so no Lean witness). -/
def C05_full_float_literals_general : Prop :=
  ∀ l : GFloatLit, l.wf = true → l.marked = true → parseNum l.render = some (.float l.trueLit.ieeeBits)

/-- `1e999` as a general literal -/
def C05_witness_1e999_general : GFloatLit :=
  ⟨.none, none, some ⟨⟨1, false⟩, []⟩, false, none,
   some (false, .none, ⟨⟨9, false⟩, [(false, ⟨9, false⟩), (false, ⟨9, false⟩)]⟩)⟩

theorem C05_counterexample_general : ¬ C05_full_float_literals_general := by
  intro h
  have h1 := h C05_witness_1e999_general (by decide) (by decide)
  have h2 : parseNum C05_witness_1e999_general.render = none := by decide +kernel
  rw [h2] at h1
  exact absurd h1 (by simp)

/-- the proved part of `C05_full_float_literals_general`: finite rounded value and
written exponent below 100000 -/
theorem C05_float_literal_general_partial (l : GFloatLit) (h : l.wf = true) (hm : l.marked = true)
    (hs : l.expSmall = true) (hfin : l.trueLit.overflows = false) :
    parseNum l.render = some (.float l.trueLit.ieeeBits) := by
  rw [← C05_float_exponent_cap_inert l hs] at hfin ⊢
  exact C05_float_literal_general l h hm hfin

/-- the hex float `0x1.8p3` = 12.0 -/
def C05_example_hexfloat : GFloatLit :=
  ⟨.none, some (false, false), some ⟨⟨1, false⟩, []⟩, true, some ⟨⟨8, false⟩, []⟩, some (false, .none, ⟨⟨3, false⟩, []⟩)⟩

/-- `-0X_a.8_0P+0_00000004` (underscore after the prefix and in the digits, an 8-digit exponent) -/
def C05_example_hexfloat2 : GFloatLit :=
  ⟨.minus, some (true, true), some ⟨⟨10, false⟩, []⟩, true, some ⟨⟨8, false⟩, [(true, ⟨0, false⟩)]⟩,
   some (true, .plus, ⟨⟨0, false⟩, [(true, ⟨0, false⟩), (false, ⟨0, false⟩), (false, ⟨0, false⟩), (false, ⟨0, false⟩),
     (false, ⟨0, false⟩), (false, ⟨0, false⟩), (false, ⟨4, false⟩)]⟩)⟩

-- non-vacuity
example : C05_example_hexfloat.wf = true ∧ C05_example_hexfloat.marked = true ∧ C05_example_hexfloat.expSmall = true ∧
    C05_example_hexfloat.render = [0x30, 0x78, 0x31, 0x2E, 0x38, 0x70, 0x33] := by decide
example : C05_example_hexfloat.trueLit.overflows = false := by decide +kernel
example : C05_example_hexfloat.trueLit.ieeeBits = 0x4028000000000000 := by decide +kernel
example : C05_example_hexfloat2.wf = true ∧ C05_example_hexfloat2.marked = true ∧ C05_example_hexfloat2.expSmall = true ∧
    C05_example_hexfloat2.render = [0x2D, 0x30, 0x58, 0x5F, 0x61, 0x2E, 0x38, 0x5F, 0x30, 0x50, 0x2B, 0x30, 0x5F, 0x30,
      0x30, 0x30, 0x30, 0x30, 0x30, 0x34] := by decide
example : C05_example_hexfloat2.trueLit.overflows = false := by decide +kernel
example : C05_example_hexfloat2.trueLit.ieeeBits = 0xC065000000000000 := by decide +kernel  -- -168.0
example : C05_witness_1e999_general.lit.overflows = true := by decide +kernel
example : C05_witness_1e999_general.wf = true ∧ C05_witness_1e999_general.marked = true := by decide
example : C05_example_hexfloat.lit.overflows = false := by decide +kernel
example : parseNum [0x30, 0x78, 0x31, 0x2E, 0x38, 0x70, 0x33] = some (.float 0x4028000000000000) := by decide +kernel

/-- (3c') `inf`, `infinity` (optionally signed) and `nan` in every letter case,
and nothing else, are the special spellings. -/
theorem C05_special_spellings (s : Bytes) (b : Nat) (h : specialValue s = some b) :
    parseNum s = some (.float b) :=
  parseNum_special h

-- non-vacuity: "-InFiNiTy"
example : specialValue [0x2D, 0x49, 0x6E, 0x46, 0x69, 0x4E, 0x69, 0x54, 0x79] = some (signBit + infBits) := by decide

/-! ## (4) Rejection: ParseNum accepts exactly the numbers -/

/-- (4) at full strength, for a reading `isNumber` of "a number in some syntax". -/
def C05_reject_full (isNumber : Bytes → Prop) : Prop :=
  ∀ s, ¬ isNumber s → parseNum s = none

/-- (4) proved for `C05.IsNumber`: the union of the integer grammar (`GInt`), the
rational grammar (`GRat`, unsigned non-zero denominator), the float grammar
(`GFloatLit`, rounded value finite) and the inf/nan spellings.  Everything that is
not the rendering of one of these structured literals is rejected. -/
theorem C05_reject : C05_reject_full C05.IsNumber :=
  fun _ h => parseNum_none_of_not_isNumber h

/-- … and the grammar is tight: ParseNum accepts exactly the numbers
(`C05_gint_literal`, `C05_grat_literal`, `C05_float_literal_general`,
`C05_special_spellings` give the value in each case). -/
theorem C05_accepts_iff (s : Bytes) : (parseNum s).isSome = true ↔ C05.IsNumber s :=
  parseNum_isSome_iff s

-- non-vacuity: "1__0" is not a number, "1_0" is one
example : ¬ C05.IsNumber [0x31, 0x5F, 0x5F, 0x30] := by
  intro h; have := (C05_accepts_iff _).mpr h; revert this; decide
example : C05.IsNumber [0x31, 0x5F, 0x30] := (C05_accepts_iff _).mp (by decide)

/-- (4a) A string containing any byte outside the number alphabet
`[0-9A-Za-z_+-./]` — white space, control characters, commas, any non-ASCII
byte (so every non-ASCII digit) — is rejected, wherever the byte stands. -/
theorem C05_reject_foreign_byte (s : Bytes) (c : UInt8) (hc : c ∈ s) (hbad : isNumByte c = false) :
    parseNum s = none := by
  cases h : parseNum s with
  | none => rfl
  | some v =>
    have := numByte_isNumByte c (parseNum_all h c hc)
    rw [hbad] at this
    exact absurd this (by simp)

-- non-vacuity: " 1" (leading space), "1 " (trailing space); a space is outside the alphabet
example : parseNum [0x20, 0x31] = none := C05_reject_foreign_byte _ 0x20 (by simp) (by decide)
example : parseNum [0x31, 0x20] = none := C05_reject_foreign_byte _ 0x20 (by simp) (by decide)

/-- (4b) The empty string is rejected. -/
theorem C05_reject_empty : parseNum [] = none := by decide

/-- (4c) `a/b` with a zero denominator (in any integer syntax) is rejected. -/
theorem C05_reject_zero_denominator (a : IntLit) (b : NatLit) (ha : a.wf = true) (hb : b.wf = true)
    (hz : b.value = 0) : parseNum (a.render ++ 0x2F :: b.render) = none := by
  unfold parseNum splitSlash
  rw [splitByte_append _ (slash_not_mem_intLit a ha)]
  simp [ratSetFrac, intSetString_intLit a ha, natScan_natLit b hb, hz]

/-- (4c') … in the complete integer grammars (`1/00`, `010/0_0`) -/
theorem C05_reject_zero_denominator_general (a : GInt) (b : GNat) (ha : a.wf = true) (hb : b.wf = true)
    (hz : b.value = 0) : parseNum (a.render ++ 0x2F :: b.render) = none :=
  parseNum_zero_den a b ha hb hz

-- non-vacuity: "1/00" (legacy octal zero)
example : (⟨.none, .lit ⟨.dec, false, false, ⟨⟨1, false⟩, []⟩⟩⟩ : GInt).wf = true ∧
    (GNat.oct0 [(false, ⟨0, false⟩)]).wf = true ∧ (GNat.oct0 [(false, ⟨0, false⟩)]).value = 0 ∧
    (⟨.none, .lit ⟨.dec, false, false, ⟨⟨1, false⟩, []⟩⟩⟩ : GInt).render ++ 0x2F :: (GNat.oct0 [(false, ⟨0, false⟩)]).render =
      [0x31, 0x2F, 0x30, 0x30] := by decide

/-- (4d) Misplaced underscores: a string in which some underscore does not stand
between two alphanumeric bytes is rejected (`_1`, `1_`, `1__0`, `1_.5`, `1._5`,
`-_1`, `1_/2`, `1/_2`, `0x1p_3` …). -/
theorem C05_reject_unflanked_underscore (s : Bytes) (h : flank false s = false) : parseNum s = none := by
  cases hp : parseNum s with
  | none => rfl
  | some v =>
    have := flank_of_isNumber (isNumber_of_parseNum hp)
    rw [h] at this; exact absurd this (by simp)

/-- in particular: a leading underscore, -/
theorem C05_reject_leading_underscore (x : Bytes) : parseNum (0x5F :: x) = none :=
  C05_reject_unflanked_underscore _ (by simp [flank])

/-- a trailing underscore, -/
theorem C05_reject_trailing_underscore (x : Bytes) : parseNum (x ++ [0x5F]) = none :=
  C05_reject_unflanked_underscore _ (flank_trailing x false)

/-- two underscores in a row, anywhere. -/
theorem C05_reject_double_underscore (x y : Bytes) : parseNum (x ++ 0x5F :: 0x5F :: y) = none :=
  C05_reject_unflanked_underscore _ (flank_double x y false)

-- non-vacuity: "1_.5" has an unflanked underscore; "1_5" has none
example : flank false [0x31, 0x5F, 0x2E, 0x35] = false := by decide
example : flank false [0x31, 0x5F, 0x35] = true := by decide

/-- (4e) Sign errors: two signs in front (`+-1`, `--1`, `-+1`, `++1`, whatever follows), -/
theorem C05_reject_double_sign (a b : UInt8) (ha : a = 0x2B ∨ a = 0x2D) (hb : b = 0x2B ∨ b = 0x2D)
    (x : Bytes) : parseNum (a :: b :: x) = none :=
  parseNum_double_sign a b ha hb x

/-- a signed denominator (`1` slash `-2`, `1` slash `+2`). -/
theorem C05_reject_signed_denominator (a : Bytes) (ha : (0x2F : UInt8) ∉ a) (sg : UInt8)
    (hs : sg = 0x2B ∨ sg = 0x2D) (x : Bytes) : parseNum (a ++ 0x2F :: sg :: x) = none :=
  parseNum_signed_den a ha sg hs x

/-- (4f) Malformed fractions: an empty denominator (`1/`), an empty numerator (`/1`),
a second slash (`1/2/3`, `1//2`). -/
theorem C05_reject_empty_denominator (a : Bytes) (ha : (0x2F : UInt8) ∉ a) : parseNum (a ++ [0x2F]) = none :=
  parseNum_empty_den a ha

theorem C05_reject_empty_numerator (b : Bytes) : parseNum (0x2F :: b) = none :=
  parseNum_empty_num b

theorem C05_reject_second_slash (a b : Bytes) (ha : (0x2F : UInt8) ∉ a) (hb : (0x2F : UInt8) ∈ b) :
    parseNum (a ++ 0x2F :: b) = none :=
  parseNum_second_slash a b ha hb

-- non-vacuity: "+-1", "1/-2", "1/", "1/2/3"
example : parseNum [0x2B, 0x2D, 0x31] = none := C05_reject_double_sign _ _ (Or.inl rfl) (Or.inr rfl) _
example : parseNum [0x31, 0x2F, 0x2D, 0x32] = none := C05_reject_signed_denominator [0x31] (by decide) _ (Or.inr rfl) _
example : parseNum [0x31, 0x2F] = none := C05_reject_empty_denominator [0x31] (by decide)
example : parseNum [0x31, 0x2F, 0x32, 0x2F, 0x33] = none := C05_reject_second_slash [0x31] [0x32, 0x2F, 0x33] (by decide) (by decide)

/-- (4f') Bare prefixes: an optional sign, `0x`/`0X`/`0o`/`0O`/`0b`/`0B` and possibly an
underscore, with no digit after it. -/
theorem C05_reject_bare_prefix (sg : Sign) (base : Base) (up us : Bool) (hb : base ≠ .dec) :
    parseNum (sg.bytes ++ base.pfx up ++ (if us then [0x5F] else [])) = none := by
  cases sg <;> cases base <;> cases up <;> cases us <;> first | exact absurd rfl hb | decide

-- non-vacuity: "-0X_"
example : Sign.minus.bytes ++ Base.hex.pfx true ++ (if true then [0x5F] else []) = [0x2D, 0x30, 0x58, 0x5F] := by decide

/-- (4g) The near-miss strings that were covered by the correspondence run only, each
by kernel computation: `1__0 _1 1_ +-1 --1 0x 0b 0o 0x_ 1e 1e+ . +. - 1/0 1/ 1_e5 1e_5 0x1p 0x1.8 1p3 e1`. -/
theorem C05_reject_near_misses :
    parseNum [0x31, 0x5F, 0x5F, 0x30] = none ∧ parseNum [0x5F, 0x31] = none ∧ parseNum [0x31, 0x5F] = none ∧
    parseNum [0x2B, 0x2D, 0x31] = none ∧ parseNum [0x2D, 0x2D, 0x31] = none ∧
    parseNum [0x30, 0x78] = none ∧ parseNum [0x30, 0x62] = none ∧ parseNum [0x30, 0x6F] = none ∧
    parseNum [0x30, 0x78, 0x5F] = none ∧
    parseNum [0x31, 0x65] = none ∧ parseNum [0x31, 0x65, 0x2B] = none ∧
    parseNum [0x2E] = none ∧ parseNum [0x2B, 0x2E] = none ∧ parseNum [0x2D] = none ∧
    parseNum [0x31, 0x2F, 0x30] = none ∧ parseNum [0x31, 0x2F] = none ∧
    parseNum [0x31, 0x5F, 0x65, 0x35] = none ∧ parseNum [0x31, 0x65, 0x5F, 0x35] = none ∧
    parseNum [0x30, 0x78, 0x31, 0x70] = none ∧ parseNum [0x30, 0x78, 0x31, 0x2E, 0x38] = none ∧
    parseNum [0x31, 0x70, 0x33] = none ∧ parseNum [0x65, 0x31] = none := by
  decide

/-- The property at full strength, for a given reading `isNumber` of "a number
in some syntax".  Proved: clauses 1–4 (`C05_exact_roundtrip`,
`C05_float_roundtrip` under the strconv hypotheses, `C05_int_literal`,
`C05_rat_literal`) and `C05_special_literals`; clause 5 is false for the
unchanged code (`C05_counterexample`) and proved outside the overflow class
(`C05_float_literal_partial`, generalised by `C05_float_literal_general`);
clause 6 is proved for `isNumber := C05.IsNumber` (`C05_reject`, with the
converse `C05_accepts_iff`). -/
def C05_full (isNumber : Bytes → Prop) : Prop :=
  (∀ L x, Num.CanonicalExact x → parseNum (C05.toString L x) = some x) ∧
  (∀ L f, f < 2 ^ 64 → strconvOKAt L f = true →
    parseNum (C05.toString L (.float f)) = some (.float (if isNaN f then nanBits else f))) ∧
  (∀ l : IntLit, l.wf = true → parseNum l.render = some (normalizeBigInt l.value)) ∧
  (∀ l : RatLit, l.wf = true → parseNum l.render = some (normalizeBigRat l.value)) ∧
  C05_full_float_literals ∧
  C05_reject_full isNumber

/-- everything of `C05_full` except the float-literal clause (false: the finding) -/
theorem C05_full_but_overflow :
    (∀ L x, Num.CanonicalExact x → parseNum (C05.toString L x) = some x) ∧
    (∀ L f, f < 2 ^ 64 → strconvOKAt L f = true →
      parseNum (C05.toString L (.float f)) = some (.float (if isNaN f then nanBits else f))) ∧
    (∀ l : IntLit, l.wf = true → parseNum l.render = some (normalizeBigInt l.value)) ∧
    (∀ l : RatLit, l.wf = true → parseNum l.render = some (normalizeBigRat l.value)) ∧
    (∀ l : DecFloatLit, l.wf = true → l.lit.overflows = false → parseNum l.render = some (.float l.lit.ieeeBits)) ∧
    C05_reject_full C05.IsNumber :=
  ⟨C05_exact_roundtrip, C05_float_roundtrip, C05_int_literal, C05_rat_literal, C05_float_literal_partial, C05_reject⟩
