/-
C05 — typed numbers survive to-string/num; every documented literal parses;
non-numbers are rejected.  Property theorems (helpers in ElvProofs/C05/*).
-/
import ElvModel.C05.Model
import ElvModel.C05.Spec
import ElvProofs.C05.Scan
import ElvProofs.C05.Lit
import ElvProofs.C05.Float
import ElvProofs.C05.FloatLit
import ElvProofs.C05.Reject
open Go C05

/-- (1) Exact numbers survive to-string/num with the same representation:
for every canonical int / big int / rational `x`, `ParseNum (ToString x) = x`.
Unbounded in the size of the number. -/
theorem C05_exact_roundtrip (L : Strconv) (x : Num) (h : x.CanonicalExact) :
    parseNum (C05.toString L x) = some x := by
  cases x with
  | int i => simp only [C05.toString, parseNum_intToDec, normalizeBigInt]; simp [Num.CanonicalExact] at h; simp [h]
  | big i => simp only [C05.toString, parseNum_intToDec, normalizeBigInt]; simp [Num.CanonicalExact] at h; simp [h]
  | rat q => simp only [C05.toString, parseNum_ratToString, normalizeBigRat]; simp [Num.CanonicalExact] at h; simp [h]
  | float f => exact absurd h (by simp [Num.CanonicalExact])

-- non-vacuity: 2^63 (a big int), and -7/3
example : (Num.big 9223372036854775808).CanonicalExact := by simp [Num.CanonicalExact, fitsInt]
example : (Num.rat (mkRat (-7) 3)).CanonicalExact := by
  show (mkRat (-7) 3).den ≠ 1
  decide

/-- (2) Floats survive to-string/num as *floats*, bit for bit (NaN ↦ NaN), for
every bit pattern `f` for which strconv behaves as assumed (`strconvOKAt`:
its `'f'`/`'e'` shortest outputs have the shapes `-?d+(.d+)?` / `-?d(.d+)?e[+-]dd+`,
`NaN`, `±Inf`, and parse back to `f`).  What is proved is elvish's own part:
the `'f'`/`'e'` switch and the `.0` suffix never produce a string that the
rational or the integer grammar takes, and `.0` does not change the value. -/
theorem C05_float_roundtrip (L : Strconv) (f : Nat) (hf : f < 2 ^ 64) (hL : strconvOKAt L f = true) :
    parseNum (C05.toString L (.float f)) = some (.float (if isNaN f then nanBits else f)) := by
  unfold strconvOKAt at hL
  simp only [C05.toString, formatFloat64]
  by_cases hn : isNaN f = true
  · simp only [hn, if_true, beq_iff_eq] at hL ⊢
    rw [hL, wrapper_nan _ _ hn]; decide
  · simp only [hn, Bool.false_eq_true, if_false] at hL ⊢
    by_cases h1 : f = infBits
    · simp only [h1, if_true, beq_iff_eq] at hL ⊢
      rw [hL, wrapper_pinf]; decide
    · simp only [h1, if_false] at hL
      by_cases h2 : f = signBit + infBits
      · simp only [h2, if_true, beq_iff_eq] at hL ⊢
        rw [hL, wrapper_ninf]; decide
      · simp only [h2, if_false, Bool.and_eq_true, beq_iff_eq] at hL
        obtain ⟨⟨⟨hF, hE⟩, pF⟩, pE⟩ := hL
        have hi : isInf f = false := by
          cases h : isInf f with
          | false => rfl
          | true => rcases (isInf_iff hf).mp h with e | e; exact absurd e h1; exact absurd e h2
        have hn' : isNaN f = false := by simpa using hn
        rw [wrapper_finite _ _ _ hn' hi]
        split
        · -- 'e' format
          obtain ⟨hs, c, cs, e, hsg⟩ := eshape_facts hE
          refine parseNum_float hs ?_ pE
          rw [e]; exact intSetString_none_of_inner_sign hsg
        · split
          · -- no point: ".0" is appended
            rename_i hp
            have hnd : (0x2E : UInt8) ∉ L.fmtF f := by
              intro hm; simp [hm] at hp
            have hs := fshape_no_slash hF
            refine parseNum_float ?_ (intSetString_none_of_dot (by simp)) ?_
            · intro hm
              rcases List.mem_append.mp hm with hm | hm
              · exact hs hm
              · simp at hm
            · rw [parseFloat_dot0 _ (fshape_no_dot hF hnd), pF]
          · rename_i hp
            have hd : (0x2E : UInt8) ∈ L.fmtF f := by
              simpa [List.contains_iff_mem] using hp
            exact parseNum_float (fshape_no_slash hF) (intSetString_none_of_dot hd) pF

-- non-vacuity: the hypothesis holds for 1e15 = 0x430c6bf526340000 with Go's
-- outputs "1000000000000000" and "1e+15" (the 'e' switch), and for 3.0
example : strconvOKAt ⟨fun _ => [0x31,0x30,0x30,0x30,0x30,0x30,0x30,0x30,0x30,0x30,0x30,0x30,0x30,0x30,0x30,0x30],
    fun _ => [0x31, 0x65, 0x2B, 0x31, 0x35]⟩ 0x430c6bf526340000 = true := by decide +kernel
example : strconvOKAt ⟨fun _ => [0x33], fun _ => [0x33, 0x65, 0x2B, 0x30, 0x30]⟩ 0x4008000000000000 = true := by
  decide +kernel

/-- (3a) Every integer literal of a documented syntax — optional sign; decimal
without leading zero, `0x`/`0o`/`0b` in either case; digits in either case;
single underscores between digits (and after a base prefix) — is accepted with
exactly its value, in canonical form (`int` when it fits 64 bits, else big). -/
theorem C05_int_literal (l : IntLit) (h : l.wf = true) :
    parseNum l.render = some (normalizeBigInt l.value) :=
  parseNum_intLit l h

-- non-vacuity: "-0X_fF_0"
example : (⟨.minus, ⟨.hex, true, true, ⟨⟨15, false⟩, [(false, ⟨15, true⟩), (true, ⟨0, false⟩)]⟩⟩⟩ : IntLit).wf = true ∧
    (⟨.minus, ⟨.hex, true, true, ⟨⟨15, false⟩, [(false, ⟨15, true⟩), (true, ⟨0, false⟩)]⟩⟩⟩ : IntLit).render =
      [0x2D, 0x30, 0x58, 0x5F, 0x66, 0x46, 0x5F, 0x30] := by decide

/-- (3b) Every rational literal `a/b` (`a` an integer literal, `b` an unsigned
integer literal ≠ 0, each in any documented integer syntax) is accepted with
exactly the value `a/b`, reduced and canonical (an integer when `b ∣ a`). -/
theorem C05_rat_literal (l : RatLit) (h : l.wf = true) :
    parseNum l.render = some (normalizeBigRat l.value) :=
  parseNum_ratLit l h

/-- (3c) `Inf` (with or without sign), `Infinity` and `NaN` in every letter case. -/
theorem C05_special_literals :
    (∀ a b c : Bool, parseNum [if a then 0x4E else 0x6E, if b then 0x41 else 0x61, if c then 0x4E else 0x6E]
        = some (.float nanBits)) ∧
    (∀ a b c : Bool, parseNum [if a then 0x49 else 0x69, if b then 0x4E else 0x6E, if c then 0x46 else 0x66]
        = some (.float infBits)) ∧
    (∀ a b c : Bool, parseNum [0x2B, if a then 0x49 else 0x69, if b then 0x4E else 0x6E, if c then 0x46 else 0x66]
        = some (.float infBits)) ∧
    (∀ a b c : Bool, parseNum [0x2D, if a then 0x49 else 0x69, if b then 0x4E else 0x6E, if c then 0x46 else 0x66]
        = some (.float (signBit + infBits))) := by
  decide

/-- (3d) at full strength: every decimal / scientific float literal (optional
sign; digits with single underscores between digits; optional fraction;
optional `e`/`E` exponent with optional sign, at most 4 exponent digits; at
least a point or an exponent) is accepted as a float with the IEEE 754
round-to-nearest-even value of the number it denotes — overflow giving ±Inf. -/
def C05_full_float_literals : Prop :=
  ∀ l : DecFloatLit, l.wf = true → parseNum l.render = some (.float l.lit.ieeeBits)

/-- the literal `1e999` -/
def C05_witness_1e999 : DecFloatLit :=
  ⟨.none, ⟨⟨1, false⟩, []⟩, none, some (false, .none, ⟨⟨9, false⟩, [(false, ⟨9, false⟩), (false, ⟨9, false⟩)]⟩)⟩

/-- The unchanged code violates (3d): `num 1e999` is rejected (ParseNum keeps
strconv.ParseFloat's result only when `err == nil`; overflow is `ErrRange`).
Witness replayed on the real code from harness/corpus/C05.txt. -/
theorem C05_counterexample : ¬ C05_full_float_literals := by
  intro h
  have h1 := h C05_witness_1e999 (by decide)
  have h2 : parseNum C05_witness_1e999.render = none := by decide +kernel
  rw [h2] at h1
  exact absurd h1 (by simp)

/-- (3d) for every literal whose rounded value is finite — exactly the
complement of the finding `literal-float-overflow`. -/
theorem C05_float_literal_partial (l : DecFloatLit) (h : l.wf = true) (hfin : l.lit.overflows = false) :
    parseNum l.render = some (.float l.lit.ieeeBits) := by
  rw [parseNum_decFloatLit l h]
  simp only [FloatLit.overflows, decide_eq_false_iff_not] at hfin
  simp [FloatLit.bits, FloatLit.ieeeBits, hfin]

/-- what the code does on the excluded class: the literal is rejected -/
theorem C05_float_literal_overflow (l : DecFloatLit) (h : l.wf = true) (hov : l.lit.overflows = true) :
    parseNum l.render = none := by
  rw [parseNum_decFloatLit l h]
  simp only [FloatLit.overflows, decide_eq_true_eq] at hov
  simp [FloatLit.bits, hov]

-- non-vacuity: "-1_0.2_5E+0_3" is well-formed and finite; it renders as expected
example : (⟨.minus, ⟨⟨1, false⟩, [(true, ⟨0, false⟩)]⟩, some ⟨⟨2, false⟩, [(true, ⟨5, false⟩)]⟩,
    some (true, .plus, ⟨⟨0, false⟩, [(true, ⟨3, false⟩)]⟩)⟩ : DecFloatLit).wf = true := by decide
example : (⟨.minus, ⟨⟨1, false⟩, [(true, ⟨0, false⟩)]⟩, some ⟨⟨2, false⟩, [(true, ⟨5, false⟩)]⟩,
    some (true, .plus, ⟨⟨0, false⟩, [(true, ⟨3, false⟩)]⟩)⟩ : DecFloatLit).render =
    [0x2D, 0x31, 0x5F, 0x30, 0x2E, 0x32, 0x5F, 0x35, 0x45, 0x2B, 0x30, 0x5F, 0x33] := by decide
example : (⟨.minus, ⟨⟨1, false⟩, [(true, ⟨0, false⟩)]⟩, some ⟨⟨2, false⟩, [(true, ⟨5, false⟩)]⟩,
    some (true, .plus, ⟨⟨0, false⟩, [(true, ⟨3, false⟩)]⟩)⟩ : DecFloatLit).lit.overflows = false := by decide +kernel
example : C05_witness_1e999.lit.overflows = true := by decide +kernel

/-- (4a) A string containing any byte outside the number alphabet
`[0-9A-Za-z_+-./]` — white space, control characters, commas, any non-ASCII
byte (so every non-ASCII digit) — is rejected, wherever the byte stands. -/
theorem C05_reject_foreign_byte (s : Bytes) (c : UInt8) (hc : c ∈ s) (hbad : isNumByte c = false) :
    parseNum s = none := by
  cases h : parseNum s with
  | none => rfl
  | some v =>
    have := numByte_isNumByte c (parseNum_all h c hc)
    rw [hbad] at this
    exact absurd this (by simp)

-- non-vacuity: " 1" (leading space), and a space is outside the alphabet
example : parseNum [0x20, 0x31] = none := C05_reject_foreign_byte _ 0x20 (by simp) (by decide)

/-- (4b) The empty string is rejected. -/
theorem C05_reject_empty : parseNum [] = none := by decide

/-- (4c) `a/b` with a zero denominator (in any integer syntax) is rejected. -/
theorem C05_reject_zero_denominator (a : IntLit) (b : NatLit) (ha : a.wf = true) (hb : b.wf = true)
    (hz : b.value = 0) : parseNum (a.render ++ 0x2F :: b.render) = none := by
  unfold parseNum splitSlash
  rw [splitByte_append _ (slash_not_mem_intLit a ha)]
  simp [ratSetFrac, intSetString_intLit a ha, natScan_natLit b hb, hz]

/-- (4) at full strength is not provable as one statement without fixing what
"a number in any syntax" is: beyond the documented syntaxes the code accepts
Go's other forms (hex floats `0x1p-2`, `.5`, `5.`, leading-zero octal `010`,
`09`/`0_8` as floats, `Infinity`).  What is *not* proved: rejection of
misplaced underscores (`_1`, `1_`, `1__0`, `1_.5`, `1e_5`), of sign errors
(`+-1`, a signed denominator), of bare prefixes (`0x`), of `1e`/`.`; these classes are
covered by the correspondence run (exhaustive ≤4-byte strings over the number
alphabet, 1–2-byte mutants of valid literals) only. -/
def C05_reject_full (isNumber : Bytes → Prop) : Prop :=
  ∀ s, ¬ isNumber s → parseNum s = none

/-- The property at full strength, for a given reading `isNumber` of "a number
in some syntax".  Proved: clauses 1–4 (`C05_exact_roundtrip`,
`C05_float_roundtrip` under the strconv hypotheses, `C05_int_literal`,
`C05_rat_literal`) and `C05_special_literals`; clause 5 is false for the
unchanged code (`C05_counterexample`) and proved outside the overflow class
(`C05_float_literal_partial`); clause 6 is proved for the classes (4a)–(4c). -/
def C05_full (isNumber : Bytes → Prop) : Prop :=
  (∀ L x, Num.CanonicalExact x → parseNum (C05.toString L x) = some x) ∧
  (∀ L f, f < 2 ^ 64 → strconvOKAt L f = true →
    parseNum (C05.toString L (.float f)) = some (.float (if isNaN f then nanBits else f))) ∧
  (∀ l : IntLit, l.wf = true → parseNum l.render = some (normalizeBigInt l.value)) ∧
  (∀ l : RatLit, l.wf = true → parseNum l.render = some (normalizeBigRat l.value)) ∧
  C05_full_float_literals ∧
  C05_reject_full isNumber
