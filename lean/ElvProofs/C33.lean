/-
C33 — styled text stays normalised and keeps its content.
Property theorems only; helper lemmas are in ElvProofs/C33/*.lean.

`Normal t`: no segment of `t` is empty and no two adjacent segments have the same
style (an empty text is the only empty list, Go's nil).  `styledBytes t`: every
byte of `t` with the style it carries; `plain t`: the bytes alone.
-/
import ElvModel.C33.Model
import ElvProofs.C33.Normal
import ElvProofs.C33.Ops
import ElvProofs.C33.Split
import ElvModel.C33.Styledown
import ElvProofs.C33.SplitStyled
import ElvProofs.C33.SdRoundtrip
import ElvProofs.C33.HistoryNormal
import ElvProofs.Lemmas.Utf8.Runes
open Go C33

/-- example styles and texts for the non-vacuity examples -/
def exRed : Style := { fg := some (.ansi 1) }
def exBlue : Style := { fg := some (.ansi 4) }
/-- [red "ab", blue "c\n"] -/
def exText : Text := [⟨exRed, [0x61, 0x62]⟩, ⟨exBlue, [0x63, 0x0a]⟩]
example : Normal exText := by decide

/-! ## construction -/

/-- `T(s, stylings...)` is normal and its content is `s`. -/
theorem C33_T_normal_content (s : Bytes) (ts : List Styling) : Normal (T s ts) ∧ plain (T s ts) = s := by
  rw [T_eq]
  split
  · rename_i h; subst h; exact ⟨Normal_nil, rfl⟩
  · rename_i h; exact ⟨(Normal_single _).2 h, by simp [plain]⟩

/-- `TextFromSegment` is normal. -/
theorem C33_textFromSegment_normal (s : Segment) : Normal (textFromSegment s) := textFromSegment_normal s

/-! ## the builder and concatenation -/

/-- `TextBuilder`: writing a normal text to a builder whose `Text()` is normal keeps it so. -/
theorem C33_builder_keeps_normal (tb : TB) (t : Text) (h : Normal tb.toText) (ht : Normal t) :
    Normal (tb.writeText t).toText := TBInv_writeText tb t h ht

/-- `Concat` of normal texts is normal. -/
theorem C33_concat_normal (ts : List Text) (h : ∀ t ∈ ts, Normal t) : Normal (Concat ts) := Concat_normal ts h

/-- `Concat` keeps every byte with its style, in order (for any inputs). -/
theorem C33_concat_content (ts : List Text) :
    styledBytes (Concat ts) = (ts.map styledBytes).flatten ∧ plain (Concat ts) = (ts.map plain).flatten := by
  refine ⟨Concat_content ts, ?_⟩
  rw [plain_eq, Concat_content]
  induction ts with
  | nil => rfl
  | cons t ts ih => simp only [List.map_cons, List.flatten_cons, List.map_append, ih, plain_eq]

example : Concat [exText, exText] = [⟨exRed, [0x61, 0x62]⟩, ⟨exBlue, [0x63, 0x0a]⟩, ⟨exRed, [0x61, 0x62]⟩, ⟨exBlue, [0x63, 0x0a]⟩] := by decide
example : Concat [[⟨exRed, [0x61]⟩], [⟨exRed, [0x62]⟩]] = [⟨exRed, [0x61, 0x62]⟩] := by decide

/-- The `Concat`/`RConcat` methods of `*Segment` and `Text` (string, segment and
text operands) give a normal text when the text operands are normal — for every
segment, including one with empty text. -/
theorem C33_concat_methods_normal (s : Segment) (t : Text) (ht : Normal t) (str : Bytes) (seg2 : Segment)
    (t2 : Text) (ht2 : Normal t2) :
    Normal (s.concat (.str str)) ∧ Normal (s.concat (.seg seg2)) ∧ Normal (s.concat (.text t2)) ∧
    Normal (s.rconcat str) ∧
    Normal (Text.concat t (.str str)) ∧ Normal (Text.concat t (.seg seg2)) ∧ Normal (Text.concat t (.text t2)) ∧
    Normal (Text.rconcat t str) := by
  have hT := (C33_T_normal_content str []).1
  have hs := textFromSegment_normal s
  have hs2 := textFromSegment_normal seg2
  refine ⟨?_, ?_, ?_, ?_, ?_, ?_, ?_, ?_⟩ <;>
    (apply Concat_normal; intro x hx; simp only [List.mem_cons, List.not_mem_nil, or_false] at hx;
     rcases hx with rfl | rfl <;> assumption)

/-- … and their content is the concatenation of the operands' contents. -/
theorem C33_concat_methods_content (s : Segment) (t : Text) (str : Bytes) (seg2 : Segment) (t2 : Text) :
    plain (s.concat (.str str)) = s.text ++ str ∧ plain (s.concat (.seg seg2)) = s.text ++ seg2.text ∧
    plain (s.concat (.text t2)) = s.text ++ plain t2 ∧ plain (s.rconcat str) = str ++ s.text ∧
    plain (Text.concat t (.str str)) = plain t ++ str ∧ plain (Text.concat t (.seg seg2)) = plain t ++ seg2.text ∧
    plain (Text.concat t (.text t2)) = plain t ++ plain t2 ∧ plain (Text.rconcat t str) = str ++ plain t := by
  have hT := (C33_T_normal_content str []).2
  simp only [Segment.concat, Segment.rconcat, Text.concat, Text.rconcat, (C33_concat_content _).2,
    List.map_cons, List.map_nil, List.flatten_cons, List.flatten_nil, List.append_nil, hT,
    plain_textFromSegment, and_self]

/-! ## partition -/

/-- Every part of a partition of a normal text is normal (any indices). -/
theorem C33_partition_normal (t : Text) (idx : List Int) (h : Normal t) : ∀ p ∈ Partition t idx, Normal p :=
  partitionGo_normal t 0 idx h

/-- The parts of a partition concatenate back to the original, byte for byte
with styles (any text, any indices), and there are `n + 1` of them. -/
theorem C33_partition_content (t : Text) (idx : List Int) :
    ((Partition t idx).map styledBytes).flatten = styledBytes t ∧ (Partition t idx).length = idx.length + 1 :=
  ⟨partitionGo_content t 0 idx, partitionGo_length t 0 idx⟩

/-- With one index `0 ≤ i ≤ len`, the first part has exactly `i` bytes. -/
theorem C33_partition_size (t : Text) (i : Int) (h0 : 0 ≤ i) (hi : i ≤ (plain t).length) :
    ∃ a b, Partition t [i] = [a, b] ∧ ((plain a).length : Int) = i := by
  refine ⟨(consume t (i - 0)).1, (consume t (i - 0)).2, rfl, ?_⟩
  have := consume_size t (i - 0) (by omega) (by omega)
  omega

example : Partition exText [1, 3] = [[⟨exRed, [0x61]⟩], [⟨exRed, [0x62]⟩, ⟨exBlue, [0x63]⟩], [⟨exBlue, [0x0a]⟩]] := by decide

/-! ## splitting -/

/-- Every part `SplitByRune` returns is normal — for any input text. -/
theorem C33_split_normal (t : Text) (r : Int) (parts : List Text) (h : SplitByRune t r = some parts) :
    ∀ p ∈ parts, Normal p := by
  unfold SplitByRune at h
  split at h
  · simp at h
  · simp only [Option.some.injEq] at h
    obtain ⟨a, b⟩ := foldl_splitStep_inv r t ([], {}) (by intro x hx; simp at hx) TBInv_empty
    intro p hp
    rw [← h] at hp
    rcases List.mem_append.1 hp with hp | hp
    · exact a p hp
    · simp only [List.mem_singleton] at hp; subst hp; exact b

/-- The plain texts of the parts, joined with the separator `string(r)`, give
the plain text back; an empty text gives the nil slice. -/
theorem C33_split_content (t : Text) (r : Int) :
    (t = [] → SplitByRune t r = none) ∧
    (t ≠ [] → ∃ parts, SplitByRune t r = some parts ∧ joinSep (runeString r) (parts.map plain) = plain t) := by
  constructor
  · intro h; subst h; rfl
  · intro h
    unfold SplitByRune
    have : t.isEmpty = false := by simpa [List.isEmpty_iff] using h
    rw [this]
    simp only [Bool.false_eq_true, ↓reduceIte]
    refine ⟨_, rfl, ?_⟩
    have := foldl_splitStep_content r t ([], {})
    simp only [accPlains, List.map_nil, List.nil_append, plain_empty_tb, joinSep] at this
    rw [List.map_append, List.map_cons, List.map_nil]
    exact this

example : SplitByRune exText 10 = some [[⟨exRed, [0x61, 0x62]⟩, ⟨exBlue, [0x63]⟩], []] := by decide

/-! ## width trimming (fixes/C33-trimwcwidth-normalise.patch) -/

/-- `TrimWcwidth` returns a normal text — for any input text and any width. -/
theorem C33_trim_normal (wd : Int → Int) (t : Text) (w : Int) : Normal (TrimWcwidth wd t w) :=
  trimGo_inv wd {} t w TBInv_empty

/-- `TrimWcwidth t w` is a prefix of `t`, byte for byte with styles: whole
segments followed by `wcwidth.Trim` of the first segment that does not fit. -/
theorem C33_trim_content (wd : Int → Int) (t : Text) (w : Int) :
    styledBytes (TrimWcwidth wd t w) = styledBytes (kept wd t w) ∧
    ∃ rest, styledBytes t = styledBytes (TrimWcwidth wd t w) ++ rest := by
  have e : styledBytes (TrimWcwidth wd t w) = styledBytes (kept wd t w) := by
    unfold TrimWcwidth
    rw [TB.styledBytes_toText, trimGo_content]
    simp [TB.flat, styledBytes]
  exact ⟨e, by rw [e]; exact kept_prefix wd t w⟩

/-- The kept segments are at most `w` columns wide in total (`w ≥ 0`), measured
segment by segment as the code does. -/
theorem C33_trim_width (wd : Int → Int) (t : Text) (w : Int) (hw : 0 ≤ w) : segsWidth wd (kept wd t w) ≤ w :=
  kept_width wd t w hw

/-- The unchanged `TrimWcwidth` leaves an empty segment: `TrimWcwidth 0` of a
one-segment text (witness in harness/corpus/C33.txt). -/
theorem C33_unfixed_trim_counterexample :
    ¬ Normal (TrimWcwidthOld (fun _ => 1) [⟨{}, [0x61]⟩] 0) := by decide

example : TrimWcwidth (fun _ => 1) exText 3 = [⟨exRed, [0x61, 0x62]⟩, ⟨exBlue, [0x63]⟩] := by decide

/-! ## restyling -/

/-- `StyleText` keeps the content and the number of segments. -/
theorem C33_styleText_content (t : Text) (ts : List Styling) :
    plain (styleText t ts) = plain t ∧ (styleText t ts).length = t.length :=
  ⟨plain_styleText t ts, styleText_length t ts⟩

/-- The full statement for restyling: the result of `StyleText` on a normal text is normal. -/
def C33_full_styleText_normal : Prop := ∀ (t : Text) (ts : List Styling), Normal t → Normal (styleText t ts)

/-- It is false for the code as it is (finding `styletext-merges-neighbour-styles`):
`StyleText([red "ab", blue "c\n"], FgDefault)` has two adjacent segments with the same style. -/
theorem C33_counterexample : ¬ C33_full_styleText_normal := by
  intro h
  have := h exText [.fg none] (by decide)
  revert this; decide

/-- Exactly that class is the exception: the result is normal iff the styling
does not map the styles of two neighbouring segments to the same style. -/
theorem C33_styleText_normal_partial (t : Text) (ts : List Styling) (h : Normal t) :
    Normal (styleText t ts) ↔ NoMergedNeighbours ts t := styleText_normal_iff t ts h

example : NoMergedNeighbours [.on .bold] exText ∧ Normal (styleText exText [.on .bold]) := by decide

/-! ## SplitByRune: the styled content law (round 2) -/

/-- `SplitByRune('\n')` keeps every byte with its style when every newline lies in a
default-style segment: the lines joined with a default-style newline have exactly the
styled bytes of the text (`C33_split_content` is the unstyled law for any rune and text). -/
theorem C33_split_styled_content (t : Text) (hnl : ∀ s ∈ t, 10 ∈ s.text → s.style = {}) (ls : List Text)
    (h : SplitByRune t 10 = some ls) : joinL sepD (ls.map styledBytes) = styledBytes t :=
  SplitByRune_styled t hnl ls h

example : SplitByRune [⟨exRed, [0x61]⟩, ⟨{}, [10, 0x62]⟩] 10 = some [[⟨exRed, [0x61]⟩], [⟨{}, [0x62]⟩]] := by decide

/-- The normal form is canonical: two normal texts with the same styled bytes are equal. -/
theorem C33_normal_canonical (a b : Text) (ha : Normal a) (hb : Normal b) (h : styledBytes a = styledBytes b) :
    a = b := Normal_unique a b ha hb h

example : Normal exText ∧ styledBytes exText = styledBytes exText := by decide

/-! ## styledown: `Render (Derender t defs) = t` (round 2)

`sdRender`/`sdDerender` model `styledown.Render`/`Derender` (ElvModel/C33/Styledown.lean,
tied by the `sd`/`sdren` ops).  `pd` is the `strings.Fields`/`DecodeRuneInString`/
`ui.ParseStyling` part of `parseStyleCharDef` (`PdOK`: what is used of it); `wd` the rune
width function (non-negative, printable ASCII one column — true of `wcwidth.OfRune`
without overrides, `C34_ofRune_range`). -/

/-- The texts styledown can express: the complement of the three finding classes. -/
structure C33_SdExpressible (wd : Int → Int) (t : Text) : Prop where
  /-- not `styledown-invalid-utf8` -/
  utf8 : ∀ s ∈ t, validUtf8 s.text = true
  /-- not `styledown-zero-width-char` (a newline is the line separator, not a character of a line) -/
  width : ∀ s ∈ t, ∀ r ∈ toRunes s.text, r ≠ 10 → wd ((r : Nat) : Int) ≠ 0
  /-- not `styledown-styled-newline` -/
  newline : ∀ s ∈ t, 10 ∈ s.text → s.style = {}

/-- The full statement: whenever `Derender` accepts a normal text, `Render` gives the text back. -/
def C33_full_styledown_roundtrip : Prop :=
  ∀ (wd : Int → Int) (pd : DefParser), (∀ r, 0 ≤ wd r) → (∀ r : Int, 0x20 ≤ r → r < 0x7f → wd r = 1) → PdOK wd pd →
    ∀ (t : Text) (defs m : Bytes), Normal t → sdDerender wd pd t defs = .ok m → sdRender wd pd m = .ok t

/-- an example width function: newline and U+0301 are zero-width, everything else one column -/
def exSdWd : Int → Int := fun r => if r = 10 ∨ r = 0x301 then 0 else 1
/-- an example definition parser: only `"R red"` is a definition -/
def exSdPd : DefParser := fun line =>
  if line = [0x52, 0x20, 0x72, 0x65, 0x64] then some (0x52, exRed) else none

theorem C33_exSd_ok : (∀ r, 0 ≤ exSdWd r) ∧ (∀ r : Int, 0x20 ≤ r → r < 0x7f → exSdWd r = 1) ∧ PdOK exSdWd exSdPd := by
  refine ⟨fun r => by unfold exSdWd; split <;> omega, fun r h1 h2 => by unfold exSdWd; rw [if_neg (by omega)], ?_⟩
  constructor
  · intro line r st h
    unfold exSdPd at h
    split at h
    · simp only [Option.some.injEq, Prod.mk.injEq] at h; rw [← h.1]; decide
    · simp at h
  · intro line r st h _
    unfold exSdPd at h
    split at h
    · rename_i hl; rw [hl]; decide
    · simp at h
  · decide

/-- It is false for the code as it is — the three finding classes (witnesses in harness/corpus/C33.txt):
a styled newline comes back unstyled (`[inverse "\n"]` ↦ `"\n\n"` ↦ `[default "\n"]`). -/
theorem C33_styledown_counterexample : ¬ C33_full_styledown_roundtrip := by
  intro h
  have := h exSdWd exSdPd C33_exSd_ok.1 C33_exSd_ok.2.1 C33_exSd_ok.2.2 [⟨{ inverse := true }, [10]⟩] [] [10, 10]
    (by decide) (by decide)
  revert this; decide

/-- The other two classes: a zero-width character is accepted by `Derender` and rejected by `Render`;
an invalid byte comes back as U+FFFD. -/
theorem C33_styledown_counterexamples :
    (∃ m, sdDerender exSdWd exSdPd [⟨{}, [0x61, 0xcc, 0x81]⟩] [] = .ok m ∧ sdRender exSdWd exSdPd m ≠ .ok [⟨{}, [0x61, 0xcc, 0x81]⟩]) ∧
    (∃ m, sdDerender exSdWd exSdPd [⟨{}, [0xff]⟩] [] = .ok m ∧ sdRender exSdWd exSdPd m = .ok [⟨{}, [0xef, 0xbf, 0xbd]⟩]) := by
  refine ⟨⟨[0x61, 0xcc, 0x81, 10, 0x20, 10, 10] ++ noEolLine ++ [10], by decide, by decide⟩,
    ⟨[0xff, 10, 0x20, 10, 10] ++ noEolLine ++ [10], by decide, by decide⟩⟩

/-- Outside exactly those three classes the round trip holds: for a normal text of valid UTF-8
without zero-width characters whose newlines are unstyled, whatever `Derender(t, styleDefs)`
returns, `Render` turns it back into `t` — for every `styleDefs`, including definitions that
override builtin characters, unused definitions, and definitions of a builtin style. -/
theorem C33_styledown_roundtrip_partial (wd : Int → Int) (pd : DefParser) (nn : ∀ r, 0 ≤ wd r)
    (hascii : ∀ r : Int, 0x20 ≤ r → r < 0x7f → wd r = 1) (hpd : PdOK wd pd)
    (t : Text) (defs m : Bytes) (ht : Normal t) (hx : C33_SdExpressible wd t)
    (h : sdDerender wd pd t defs = .ok m) : sdRender wd pd m = .ok t := by
  refine sd_roundtrip wd nn hascii pd hpd t defs m ht ?_ hx.newline h
  intro s hs
  refine ⟨toRunes s.text, ?_, (Go.encodeRunes_toRunes (hx.utf8 s hs)).symm⟩
  intro r hr
  exact ⟨C34.toRunes_valid s.text r hr, hx.width s hs r hr⟩

-- non-vacuity: [red "ab", default "c\n世"] with `R red` defined: Derender gives "abc\nRR \n世\n  \n\nno-eol\nR red\n"
example : Normal [⟨exRed, [0x61, 0x62]⟩, ⟨{}, [0x63, 10, 0xe4, 0xb8, 0x96]⟩] ∧
    sdDerender exSdWd exSdPd [⟨exRed, [0x61, 0x62]⟩, ⟨{}, [0x63, 10, 0xe4, 0xb8, 0x96]⟩] [0x52, 0x20, 0x72, 0x65, 0x64] =
      .ok ([0x61, 0x62, 0x63, 10, 0x52, 0x52, 0x20, 10, 0xe4, 0xb8, 0x96, 10, 0x20, 10, 10] ++ noEolLine ++
        [10, 0x52, 0x20, 0x72, 0x65, 0x64, 10]) := by decide
example : C33_SdExpressible exSdWd [⟨exRed, [0x61, 0x62]⟩, ⟨{}, [0x63, 10, 0xe4, 0xb8, 0x96]⟩] :=
  ⟨by decide, by decide, by decide⟩

/-! ## histories over named values (round 3: seeded change C33-textbuilder-writes-through-operand)

`ElvModel/C33/History.lean`: a history is a sequence of operations whose operands are
literals or VALUES MADE EARLIER in the same history (`$i`), kept by the harness as the
real Go values and fed to later operations again and again.  The model gives a history
value semantics; the three statements below are what that carries.  That the Go values
really are immutable (no operation appends into the backing array of an operand, of a
part, of a sub-slice, of an earlier `TextBuilder.Text()`) cannot be expressed on lists:
it is SAMPLED - the harness re-observes every value after every step (oracle class
`operand-mutated`), and compares every result with the same operation on fresh copies
(`result-depends-on-history`), which is `C33_history_value_semantics` on the code. -/

/-- A value, once made, is what it is for the rest of the history: no later
step changes register `i`. -/
theorem C33_history_keeps_values (wd : Int → Int) (s : HState) (ops : List HOp) (i : Nat) (h : i < s.regs.length) :
    (s.run wd ops).regs[i]? = s.regs[i]? := run_keeps wd ops s i h

/-- An operation is a function of the VALUES of its operands: with the operands
replaced by literal copies of their values (and no register file at all) it
gives the same result and the same builder. -/
theorem C33_history_value_semantics (wd : Int → Int) (regs : List Text) (tb : TB) (op : HOp) :
    evalOp wd regs tb op = evalOp wd [] tb (op.literal regs) := (evalOp_literal wd regs tb op).symm

/-- … so the same operation on the same operands gives the same result again,
whatever was made in between (`Concat(a, b)` twice, `$a$b` twice): if the
operands exist in `s` and the steps in between leave the builder as it was,
running `op` after them prints what it prints in `s`. -/
theorem C33_history_same_operands_same_result (wd : Int → Int) (s : HState) (op : HOp) (between : List HOp)
    (hok : op.ok s.regs = true) (htb : (s.run wd between).tb = s.tb) :
    ((s.run wd between).step wd op).2 = (s.step wd op).2 := by
  obtain ⟨more, h⟩ := run_regs_append wd between s
  show (evalOp wd (s.run wd between).regs (s.run wd between).tb op).1 = (evalOp wd s.regs s.tb op).1
  rw [h, htb, evalOp_append wd s.regs more s.tb op hok]

/-- [red "x", blue "y"] and [blue "z", bold "w"]: the operands of the seeded change's demonstration -/
def exA : Text := [⟨exRed, [0x78]⟩, ⟨exBlue, [0x79]⟩]
def exB : Text := [⟨exBlue, [0x7a]⟩, ⟨{ bold := true }, [0x77]⟩]
example : HOp.ok ((HState.run (fun _ => 1) {} [.lit exA, .lit exB]).regs) (.concat [.reg 0, .reg 1]) = true := by decide
example : (HState.run (fun _ => 1) {} [.lit exA, .lit exB, .concat [.reg 0, .reg 1], .concat [.reg 0, .reg 1]]).regs =
    [exA, exB, [⟨exRed, [0x78]⟩, ⟨exBlue, [0x79, 0x7a]⟩, ⟨{ bold := true }, [0x77]⟩],
      [⟨exRed, [0x78]⟩, ⟨exBlue, [0x79, 0x7a]⟩, ⟨{ bold := true }, [0x77]⟩]] := by decide

/-- The normal form is closed under histories: when every LITERAL of a history
is in normal form and no step is a restyling (`C33_styleText_normal_partial`),
EVERY value made - results of operations on results, parts of partitions and
splits, sub-slices `t[lo..hi]`, what the builder returns between writes - is in
normal form, and so is what the builder would return at the end. -/
theorem C33_history_normal (wd : Int → Int) (ops : List HOp) (h : ∀ op ∈ ops, op.NormalLits) :
    (∀ t ∈ (HState.run wd {} ops).regs, Normal t) ∧ Normal (HState.run wd {} ops).tb.toText :=
  HInv_run wd ops {} HInv_init h

example : ∀ op ∈ [HOp.lit exA, .partition (.reg 0) [1], .sub (.reg 0) 0 1, .textconcat (.reg 3) (.text (.reg 2)),
    .tbwrite (.reg 4), .tbtext], op.NormalLits := by
  intro op h
  simp only [List.mem_cons, List.not_mem_nil, or_false] at h
  rcases h with rfl | rfl | rfl | rfl | rfl | rfl <;> first | trivial | (show Normal exA; decide) | exact ⟨trivial, trivial⟩
