import ElvProofs.C10.Lemmas
/-!
# C10 — `order` outputs a stable sorted permutation of its input

Full statement (`C10_full`), for every comparator `less` that is a strict weak
order on the keys and does not fail, every key function that does not fail,
every finite input and both values of `&reverse`:

* the output is a permutation of the input;
* no value comes before a value that compares smaller (larger with `&reverse`);
* values that compare equal keep their input order;
* the output is THE stable sort: any routine meeting `sort.Stable`'s contract
  gives the same list (`C10_stable_sorted_unique`), so the model (merge sort)
  speaks for the library;
* `&key f` is decorate–sort–undecorate;
* a failing key callback, a failing comparison, or `&total` with `&less-than`
  makes `order` return the exception with NO output (outputs exist only in
  the `ok` outcome, produced after the sort has finished).

Stated-not-hidden: "an uncomparable pair makes order throw" is proved for the
model, which throws if ANY pair of distinct positions fails to compare; the
library only throws if it actually compares such a pair.  For comparability
by type class (an equivalence) every stable merge/insertion sort must compare
some cross-class pair; for lists, comparability is not transitive
(`[1]`, `[]`, `[a]`) and the claim is only sampled.
-/
open Go C10 List

/-- Uniqueness: two stable sorts of the same list w.r.t. the same `le` are equal. -/
theorem C10_stable_sorted_unique {α} (le : α → α → Bool) (l r₁ r₂ : List α)
    (h₁ : IsStableSort le l r₁) (h₂ : IsStableSort le l r₂) : r₁ = r₂ :=
  isStableSort_unique h₁ h₂

/-- The model's sort meets the `sort.Stable` contract for every strict weak order. -/
theorem C10_stableSort_isStableSort {α} (less : α → α → Bool) (h : StrictWeak less) (l : List α) :
    IsStableSort (leOf less) l (stableSort less l) :=
  mergeSort_isStableSort (leOf_trans h) (leOf_total h) l

/-- Permutation. -/
theorem C10_perm {α} (less : α → α → Bool) (l : List α) : (stableSort less l).Perm l :=
  mergeSort_perm _ _

/-- Sorted: no value before a value that compares smaller. -/
theorem C10_sorted {α} (less : α → α → Bool) (h : StrictWeak less) (l : List α) :
    (stableSort less l).Pairwise (fun a b => less b a = false) := by
  have := pairwise_mergeSort (le := leOf less) (leOf_trans h) (leOf_total h) l
  simpa [stableSort, leOf] using this

/-- Stable: if `a` is before `b` in the input and `b` is not smaller than `a`,
`a` is before `b` in the output. -/
theorem C10_stable {α} (less : α → α → Bool) (h : StrictWeak less) (l : List α) (a b : α)
    (hab : less b a = false) (hs : [a, b] <+ l) : [a, b] <+ stableSort less l :=
  pair_sublist_mergeSort (leOf_trans h) (leOf_total h) (by simp [leOf, hab]) hs

/-- `&reverse` (`sort.Reverse` under `sort.Stable`): descending, and still
input order among equals. -/
theorem C10_reverse {α} (less : α → α → Bool) (h : StrictWeak less) (l : List α) :
    (stableSort (revLess less) l).Perm l ∧
    (stableSort (revLess less) l).Pairwise (fun a b => less a b = false) ∧
    (∀ a b, less a b = false → [a, b] <+ l → [a, b] <+ stableSort (revLess less) l) := by
  refine ⟨C10_perm _ _, ?_, ?_⟩
  · simpa [revLess] using C10_sorted (revLess less) h.rev l
  · intro a b hab hs
    exact C10_stable (revLess less) h.rev l a b (by simpa [revLess] using hab) hs

/-- The `order` builtin, success path: with a non-failing key `f` and a
non-failing comparator, the result is the stable sort of the input by the
composed comparator (decorate–sort–undecorate). -/
theorem C10_order_ok {ν κ} (opts : Opts) (f : ν → κ) (less : κ → κ → Bool) (inputs : List ν)
    (hopt : (opts.total && opts.hasLessThan) = false) :
    order opts (fun v => .ok (f v)) (fun a b => .ok (less a b)) inputs
      = .ok (stableSort (fun a b => (if opts.reverse then revLess less else less) (f a) (f b)) inputs) := by
  unfold order
  simp only [hopt, Bool.false_eq_true, if_false, decorate_ok]
  have hne : firstErr (fun a b => Res.ok (less a b)) (inputs.map fun v => (f v, v)).unzip.1 = none := by
    unfold firstErr
    simp [List.findSome?_eq_none_iff]
  have hmap : ((inputs.map fun v => (f v, v)).map (·.1)) = (inputs.map fun v => (f v, v)).unzip.1 := by
    simp
  rw [hmap, hne]
  simp only [pureLess, stableSort]
  cases opts.reverse <;> simp only [Bool.false_eq_true, if_false, if_true] <;> congr 1
  · exact map_snd_mergeSort_decorated f (leOf less) inputs
  · exact map_snd_mergeSort_decorated f (leOf (revLess less)) inputs

/-- Hence the full success-path statement: permutation, sorted, stable. -/
theorem C10_order_sorted_stable_perm {ν κ} (f : ν → κ) (less : κ → κ → Bool) (h : StrictWeak less)
    (inputs : List ν) :
    ∃ out, order {} (fun v => .ok (f v)) (fun a b => .ok (less a b)) inputs = .ok out ∧
      out.Perm inputs ∧
      out.Pairwise (fun a b => less (f b) (f a) = false) ∧
      (∀ a b, less (f b) (f a) = false → [a, b] <+ inputs → [a, b] <+ out) := by
  have hsw : StrictWeak (fun a b : ν => less (f a) (f b)) :=
    ⟨fun a b => h.asymm _ _, fun a b c => h.negTrans _ _ _⟩
  refine ⟨_, C10_order_ok {} f less inputs rfl, ?_, ?_, ?_⟩
  · exact C10_perm _ _
  · exact C10_sorted _ hsw _
  · intro a b hab hs; exact C10_stable _ hsw _ a b hab hs

/-- `&total` together with `&less-than` is rejected before anything else happens. -/
theorem C10_total_and_lessthan_rejected {ν κ} (opts : Opts) (key : ν → Res κ) (less : LessR κ)
    (inputs : List ν) (h : opts.total = true ∧ opts.hasLessThan = true) :
    order opts key less inputs = .exc "both &total and &less-than specified" := by
  simp [order, h.1, h.2]

/-- A failing key callback makes `order` fail (first failure, in input order). -/
theorem C10_key_failure {ν κ} (opts : Opts) (key : ν → Res κ) (less : LessR κ) (inputs : List ν) (e : String)
    (hopt : (opts.total && opts.hasLessThan) = false)
    (h : decorate key inputs = .exc e) : order opts key less inputs = .exc e := by
  simp [order, hopt, h]

/-- A failing comparison among the keys makes `order` fail. -/
theorem C10_compare_failure {ν κ} (opts : Opts) (f : ν → κ) (less : LessR κ) (inputs : List ν) (e : String)
    (hopt : (opts.total && opts.hasLessThan) = false)
    (h : firstErr less (inputs.map f) = some e) :
    order opts (fun v => .ok (f v)) less inputs = .exc e := by
  unfold order
  simp only [hopt, Bool.false_eq_true, if_false, decorate_ok, List.map_map]
  have : ((fun x : κ × ν => x.1) ∘ fun v => (f v, v)) = f := rfl
  simp [this, h]

/-- Atomicity: `order` yields either all outputs or an exception — never an
exception after some outputs (outputs exist only in the `ok` outcome, and
that outcome is a permutation of the input, so it is never a strict part). -/
theorem C10_atomic {ν κ} (opts : Opts) (key : ν → Res κ) (less : LessR κ) (inputs out : List ν)
    (h : order opts key less inputs = .ok out) : out.length = inputs.length := by
  unfold order at h
  split at h
  · cases h
  · split at h
    · cases h
    · cases h
    · rename_i dec hdec
      split at h
      · cases h
      · injection h with h
        subst h
        have hlen : ∀ (l : List ν) d, decorate key l = .ok d → d.length = l.length := by
          intro l
          induction l with
          | nil => intro d hd; simp [decorate] at hd; subst hd; rfl
          | cons a l ih =>
            intro d hd
            simp only [decorate] at hd
            split at hd
            · split at hd
              · injection hd with hd; subst hd; simp [ih _ ‹_›]
              · cases hd
              · cases hd
            · cases hd
            · cases hd
        simp [stableSort, hlen _ _ hdec]

/-! ### Non-vacuity -/

/-- Integer `<` is a strict weak order: the hypotheses are satisfiable. -/
example : StrictWeak (fun a b : Int => decide (a < b)) :=
  ⟨by intro a b h; simp at *; omega, by intro a b c h; simp at *; omega⟩

/-- The success-path theorem instantiated on a concrete input with duplicate
keys carrying payloads (all hypotheses discharged). -/
example := C10_order_sorted_stable_perm (fun p : Nat × Nat => p.1) (fun a b => decide (a < b))
  ⟨by intro a b h; simp at *; omega, by intro a b c h; simp at *; omega⟩ [(2, 0), (1, 1), (2, 2), (1, 3)]
/-- A concrete stable sort with duplicates carrying payloads, and its reverse. -/
example : stableSort (fun a b : Nat × Nat => decide (a.1 < b.1)) [(2, 0), (1, 1), (2, 2), (1, 3)]
    = [(1, 1), (1, 3), (2, 0), (2, 2)] := by
  simp [stableSort, leOf, List.mergeSort, List.MergeSort.Internal.splitInTwo]
example : stableSort (revLess fun a b : Nat × Nat => decide (a.1 < b.1)) [(2, 0), (1, 1), (2, 2), (1, 3)]
    = [(2, 0), (2, 2), (1, 1), (1, 3)] := by
  simp [stableSort, revLess, leOf, List.mergeSort, List.MergeSort.Internal.splitInTwo]
/-- An uncomparable pair makes the model throw. -/
example : order {} (fun v => .ok v) lessDefault [Val.int 1, Val.str [97]] = .exc "uncomparable" := by
  have h : cmp (Val.int 1) (Val.str [97]) = .uncomparable := by rw [cmp] <;> (intros; simp_all)
  simp [order, decorate, firstErr, pairs, lessDefault, h]
