/-
C38 helper lemmas, part 1: UTF-8 decoding widths, the `range` loop, slices,
look-ups, `strings.IndexRune(s, '=')`.
-/
import ElvModel.C38.Spec
namespace C38.Proofs
open Go C38 C38.Spec
open Gen.C38Config

theorem decodeRune_size_le (s : Bytes) : (decodeRune s).2 ≤ s.length := by
  rcases s with _ | ⟨a, _ | ⟨b, _ | ⟨c, _ | ⟨d, t⟩⟩⟩⟩ <;> simp only [decodeRune] <;>
    (repeat' split) <;> simp

theorem decodeRune_size_pos (s : Bytes) (h : s ≠ []) : 1 ≤ (decodeRune s).2 := by
  rcases s with _ | ⟨a, _ | ⟨b, _ | ⟨c, _ | ⟨d, t⟩⟩⟩⟩ <;> simp only [decodeRune] <;>
    (repeat' split) <;> simp_all


/-! ### Slices -/

theorem slice_from {α} (s : List α) (n : Nat) (h : n ≤ s.length) :
    slice s (n : Int) s.length = .ok (s.drop n) := by
  unfold slice
  have : (0 : Int) ≤ n ∧ (n : Int) ≤ s.length ∧ (s.length : Int) ≤ s.length := by omega
  simp only [this, and_self, if_true, Int.toNat_natCast]
  rw [List.take_of_length_le]
  simp

theorem slice_to {α} (s : List α) (n : Nat) (h : n ≤ s.length) :
    slice s 0 (n : Int) = .ok (s.take n) := by
  unfold slice
  have : (0 : Int) ≤ 0 ∧ (0 : Int) ≤ n ∧ (n : Int) ≤ s.length := by omega
  simp only [this, and_self, if_true]
  simp

theorem slice_init {α} (s : List α) (h : s ≠ []) :
    slice s 0 ((s.length : Int) - 1) = .ok s.dropLast := by
  have hl : 0 < s.length := List.length_pos_iff.mpr h
  have : ((s.length : Int) - 1) = ((s.length - 1 : Nat) : Int) := by omega
  rw [this, slice_to _ _ (by omega), List.dropLast_eq_take]

theorem index_last {α} (s : List α) (a : α) (h : s.getLast? = some a) :
    index s ((s.length : Int) - 1) = .ok a := by
  have hne : s ≠ [] := by intro h0; simp [h0] at h
  have hl : 0 < s.length := List.length_pos_iff.mpr hne
  unfold index
  have h1 : (0 : Int) ≤ (s.length : Int) - 1 := by omega
  have h2 : ((s.length : Int) - 1).toNat = s.length - 1 := by omega
  rw [List.getLast?_eq_getElem?] at h
  simp only [h1, if_true, h2, h]

/-! ### Look-ups -/

/-- `lookup` with positions starting at `k`. -/
def lookupFrom (p : OptionSpec → Bool) (specs : List OptionSpec) (k : Nat) : Option (Nat × OptionSpec) :=
  ((specs.zipIdx k).find? fun x => p x.1).map fun x => (x.2, x.1)

theorem lookupFrom_nil (p) (k) : lookupFrom p [] k = none := rfl

theorem lookupFrom_cons (p) (sp : OptionSpec) (l) (k) :
    lookupFrom p (sp :: l) k = if p sp then some (k, sp) else lookupFrom p l (k + 1) := by
  unfold lookupFrom
  simp only [List.zipIdx_cons, List.find?_cons]
  cases h : p sp <;> simp

theorem lookup_eq (p) (l) : lookup p l = lookupFrom p l 0 := rfl

theorem findShortFrom_eq (r : Rune) (l : List OptionSpec) (k : Nat) :
    findShortFrom true r l k = lookupFrom (fun sp => sp.short != 0 && sp.short == r) l k := by
  induction l generalizing k with
  | nil => rfl
  | cons sp l ih =>
    rw [findShortFrom, lookupFrom_cons, ih]
    have : ((!true || sp.short != 0) && r == sp.short) = (sp.short != 0 && sp.short == r) := by
      simp [Bool.beq_comm]
    rw [this]

theorem findShort_eq (r : Rune) (specs : List OptionSpec) :
    findShort true r specs = lookupShort specs r := by
  unfold findShort lookupShort
  rw [findShortFrom_eq, lookup_eq]

/-! ### `strings.IndexRune(s, '=')` against `splitEq` -/

theorem indexByteFrom_none (s : Bytes) (k : Nat) (h : indexByteFrom eqSign s k = none) :
    splitEq s = (s, none) ∧ eqSign ∉ s := by
  induction s generalizing k with
  | nil => simp [splitEq]
  | cons b t ih =>
    unfold indexByteFrom at h
    split at h
    · simp at h
    · rename_i hb
      have hb' : ¬ b = eqSign := by simpa using hb
      have := ih (k + 1) h
      simp [splitEq, hb', this.1, this.2, Ne.symm hb']

theorem indexByteFrom_some (s : Bytes) (k e : Nat) (h : indexByteFrom eqSign s k = some e) :
    k ≤ e ∧ e - k < s.length ∧ splitEq s = (s.take (e - k), some (s.drop (e - k + 1))) := by
  induction s generalizing k with
  | nil => simp [indexByteFrom] at h
  | cons b t ih =>
    unfold indexByteFrom at h
    split at h
    · rename_i hb
      have hb' : b = eqSign := by simpa using hb
      have : k = e := by simpa using h
      subst this
      simp [splitEq, hb']
    · rename_i hb
      have hb' : ¬ b = eqSign := by simpa using hb
      obtain ⟨h1, h2, h3⟩ := ih (k + 1) h
      have he : e - k = (e - (k + 1)) + 1 := by omega
      refine ⟨by omega, by simp; omega, ?_⟩
      rw [he]
      simp [splitEq, hb', h3]

theorem indexEq_none (s : Bytes) (h : indexEq s = none) : splitEq s = (s, none) ∧ eqSign ∉ s :=
  indexByteFrom_none s 0 h

theorem indexEq_some (s : Bytes) (e : Nat) (h : indexEq s = some e) :
    e < s.length ∧ splitEq s = (s.take e, some (s.drop (e + 1))) := by
  have := indexByteFrom_some s 0 e h
  simpa using this.2

theorem mem_of_indexEq_some (s : Bytes) (e : Nat) (h : indexEq s = some e) : eqSign ∈ s := by
  rcases hn : indexEq s with _ | e'
  · rw [hn] at h; cases h
  · false_or_by_contra
    rename_i hc
    have key : ∀ (t : Bytes) (k : Nat), eqSign ∉ t → indexByteFrom eqSign t k = none := by
      intro t
      induction t with
      | nil => intros; rfl
      | cons b t ih =>
        intro k hk
        have hb : ¬ b = eqSign := fun hb => hk (by simp [hb])
        have ht : eqSign ∉ t := fun ht => hk (by simp [ht])
        simp [indexByteFrom, hb, ih _ ht]
    have := key s 0 hc
    unfold indexEq at hn
    rw [hn] at this
    cases this

end C38.Proofs
