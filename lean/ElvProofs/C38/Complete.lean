/-
C38 helper lemmas, part 4: the errors of `Parse`, and `Complete` against the
spec's `context`.
-/
import ElvProofs.C38.Parse
namespace C38.Proofs
open Go C38 C38.Spec
open Gen.C38Config

/-! ### Errors of `Parse` -/

theorem multiError_none (l : List Bytes) : multiError l = none ↔ l = [] := by
  rcases l with _ | ⟨a, _ | ⟨b, t⟩⟩ <;> simp [multiError]

theorem missingOf_none_iff (items : List Item) :
    missingOf items = none ↔ items.any isMissing = false := by
  induction items with
  | nil => simp [missingOf]
  | cons a l ih =>
    unfold missingOf at ih ⊢
    cases a <;> simp_all [isMissing]

theorem unknown_filter_nil_iff (b : Bool) (items : List Item) :
    (optsOf b items).filter (·.unknown) = [] ↔ items.any isUnknown = false := by
  induction items with
  | nil => simp [optsOf]
  | cons a l ih =>
    unfold optsOf at ih ⊢
    cases a <;> cases b <;> simp_all [isUnknown, Item.toOpt, known, unknownShort, unknownLongOpt]

theorem extraOf_nil_iff (items : List Item) : extraOf items = [] ↔ items.any isBadArg = false := by
  induction items with
  | nil => simp [extraOf]
  | cons a l ih =>
    unfold extraOf at ih ⊢
    cases a <;> simp_all [isBadArg]

theorem parseErrors_nil_iff (st : PState) :
    parseErrors st = [] ↔ st.opt = none ∧ st.opts.filter (·.unknown) = [] ∧ st.extraArg = [] := by
  unfold parseErrors
  rcases st.opt with _ | o <;> simp

/-! ### `=` in the last word -/

theorem containsEq_eq (s : Bytes) : containsEq s = (splitEq s).2.isSome := by
  unfold containsEq
  rcases h : indexEq s with _ | e
  · simp [(indexEq_none s h).1]
  · simp [(indexEq_some s e h).2]

theorem splitEq_dash (t : Bytes) : (splitEq (dash :: t)).2 = (splitEq t).2 := by
  have : ¬ dash = eqSign := by decide
  simp [splitEq, this]

theorem containsEq_dash (t : Bytes) : containsEq (dash :: t) = containsEq t := by
  rw [containsEq_eq, containsEq_eq, splitEq_dash]

/-! ### A short-option word denotes at least one option -/

theorem wordOpts_clusterN_ne_nil (specs : List OptionSpec) (n : Nat) (b : UInt8) (t : Bytes) :
    wordOpts (clusterN specs (n + 1) (b :: t)) ≠ [] := by
  rw [clusterN]
  rcases lookupShort specs (decodeRune (b :: t)).1 with _ | ⟨k, sp⟩
  · simp [wordOpts, optsOf, Item.toOpt]
  · rcases ha : arityOf sp.arity with _ | _ | _
    · simp [ha, wordOpts, optsOf, Item.toOpt]
    · simp only [ha]; split <;> simp [wordOpts, optsOf, Item.toOpt]
    · simp [ha, wordOpts, optsOf, Item.toOpt]

theorem wordOpts_cluster_ne_nil (specs : List OptionSpec) (s : Bytes) (h : s ≠ []) :
    wordOpts (cluster specs s) ≠ [] := by
  rcases s with _ | ⟨b, t⟩
  · exact absurd rfl h
  · exact wordOpts_clusterN_ne_nil specs _ b t

/-! ### `Complete` -/

theorem completeLast_eq (specs : List OptionSpec) (hwf : WF specs) (cfg : Nat) (items : List Item)
    (last : Bytes) :
    completeLast true specs cfg
        ⟨optsOf false items, operandsOf items, missingOf items, ended cfg items, extraOf items⟩ last =
      .ok (optsOf false items ++ (context cfg specs items last).1, operandsOf items,
           (context cfg specs items last).2) := by
  unfold completeLast context
  rcases hm : missingOf items with _ | o
  · simp only
    by_cases he : ended cfg items = true
    · simp [he]
    · simp only [he, Bool.false_eq_true, if_false]
      by_cases h0 : last = []
      · simp [h0]
      · have h0' : (last == []) = false := by simpa using h0
        simp only [h0', Bool.false_eq_true, if_false, h0]
        by_cases h1 : last = [dash]
        · simp [h1]
        · have h1' : (last == [dash]) = false := by simpa using h1
          simp only [h1', Bool.false_eq_true, if_false, h1]
          by_cases hdd : hasPrefix last dd = true
          · -- `--…`
            obtain ⟨t, rfl⟩ : ∃ t, last = dash :: dash :: t := by
              rcases last with _ | ⟨a, _ | ⟨b, t⟩⟩ <;> simp_all [hasPrefix, dd]
              obtain ⟨rfl, rfl⟩ := hdd
              rfl
            simp only [hdd, if_true, Bool.true_or]
            rw [slice_two _ (by simp)]
            simp only [List.drop_succ_cons, List.drop_zero]
            rw [containsEq_dash, containsEq_dash, containsEq_eq]
            rcases hv : (splitEq t).2 with _ | v
            · simp
            · obtain ⟨o, ho1, ho2⟩ := parseLong_eq specs hwf t
              simp [ho2, ho1]
          · have hdd' : hasPrefix last dd = false := by simpa using hdd
            simp only [hdd', Bool.false_eq_true, if_false, Bool.false_or]
            by_cases hp : hasPrefix last [dash] = true
            · obtain ⟨b, t, rfl⟩ : ∃ b t, last = dash :: b :: t := by
                rcases last with _ | ⟨a, _ | ⟨b, t⟩⟩ <;> simp_all [hasPrefix]
              simp only [hp, if_true, Bool.true_and]
              rw [slice_one _ (by simp)]
              simp only [List.drop_succ_cons, List.drop_zero]
              by_cases hlo : has cfg LongOnly = true
              · simp only [hlo, if_true]
                rw [containsEq_dash, containsEq_eq]
                rcases hv : (splitEq (b :: t)).2 with _ | v
                · simp
                · obtain ⟨o, ho1, ho2⟩ := parseLong_eq specs hwf (b :: t)
                  simp [ho2, ho1]
              · simp only [hlo, Bool.false_eq_true, if_false]
                rw [parseShort_eq]
                have hne := wordOpts_cluster_ne_nil specs (b :: t) (by simp)
                rcases hl : (wordOpts (cluster specs (b :: t))).getLast? with _ | o
                · simp at hl; exact absurd hl hne
                · simp only
                  rw [index_last _ o hl, slice_init _ hne]
                  by_cases hn : o.spec.arity = NoArgument
                  · simp [hn]
                  · simp [hn]
            · have hp' : hasPrefix last [dash] = false := by simpa using hp
              simp [hp']
  · simp

/-- Fixed `Complete` on a non-empty list = parse of the front + the spec's context of the last word. -/
theorem complete_eq (specs : List OptionSpec) (hwf : WF specs) (cfg : Nat) (front : List Bytes)
    (last : Bytes) :
    Complete true (front ++ [last]) specs cfg =
      .ok (optsOf false (Spec.read cfg specs front false) ++
             (context cfg specs (Spec.read cfg specs front false) last).1,
           operandsOf (Spec.read cfg specs front false),
           (context cfg specs (Spec.read cfg specs front false) last).2) := by
  unfold Complete
  have hne : front ++ [last] ≠ [] := by simp
  have hemp : (front ++ [last]).isEmpty = false := by simp
  simp only [hemp, Bool.and_false, Bool.false_eq_true, if_false]
  rw [slice_init _ hne, index_last _ last (by simp)]
  simp only [List.dropLast_concat]
  rw [parse_eq specs hwf]
  exact completeLast_eq specs hwf cfg _ last

end C38.Proofs
