/-
C38 helper lemmas, part 2: one option word.  `parseShort` and `parseLong` of
the fixed code never panic and produce exactly the options the spec's
`cluster` / `longWord` denote.
-/
import ElvProofs.C38.Basic
namespace C38.Proofs
open Go C38 C38.Spec
open Gen.C38Config

theorem runesFrom_cons (fuel off : Nat) (b : UInt8) (t : Bytes) :
    runesFrom (fuel + 1) off (b :: t) =
      (off, (decodeRune (b :: t)).1, (decodeRune (b :: t)).2) ::
        runesFrom fuel (off + (decodeRune (b :: t)).2) ((b :: t).drop (decodeRune (b :: t)).2) := rfl

theorem wordOpts_cons_known (k sp l a) (r : List Item × Awaiting) :
    wordOpts (Item.option k sp l a :: r.1, r.2) = known k sp l (argOf a) :: wordOpts r := by
  simp [wordOpts, optsOf, Item.toOpt]

theorem argOf_nonEmpty (s : Bytes) : argOf (nonEmpty s) = s := by
  unfold nonEmpty; split <;> simp_all [argOf]

theorem arityOf_none_iff (n : Nat) : arityOf n = .none ↔ (n == NoArgument) = true := by
  unfold arityOf; split <;> simp_all
  split <;> simp

theorem arityOf_required_iff (n : Nat) : arityOf n = .required ↔ (n == RequiredArgument) = true := by
  unfold arityOf NoArgument RequiredArgument
  split
  · simp_all
  · split <;> simp_all

/-- The `range` loop of the fixed `parseShort`, started at any offset of `s`. -/
theorem parseShortLoop_eq (specs : List OptionSpec) (fuel : Nat) :
    ∀ (pre s' : Bytes) (acc : List Opt),
      parseShortLoop true specs (pre ++ s') (runesFrom fuel pre.length s') acc =
        .ok (acc ++ wordOpts (clusterN specs fuel s'), (clusterN specs fuel s').2.isSome) := by
  induction fuel with
  | zero => intro pre s' acc; simp [runesFrom, clusterN, parseShortLoop, wordOpts, optsOf]
  | succ fuel ih =>
    intro pre s' acc
    cases s' with
    | nil => simp [runesFrom, clusterN, parseShortLoop, wordOpts, optsOf]
    | cons b t =>
      have hle := decodeRune_size_le (b :: t)
      have hdrop : (pre ++ b :: t).drop (pre.length + (decodeRune (b :: t)).2) =
          (b :: t).drop (decodeRune (b :: t)).2 := by
        rw [List.drop_append]; simp
      have hslice : slice (pre ++ b :: t) ((pre.length + (decodeRune (b :: t)).2 : Nat) : Int)
          (pre ++ b :: t).length = .ok ((b :: t).drop (decodeRune (b :: t)).2) := by
        rw [slice_from _ _ (by simp; omega), hdrop]
      rw [runesFrom_cons, parseShortLoop, clusterN, findShort_eq]
      simp only [↓reduceIte]
      rw [hslice]
      rcases hl : lookupShort specs (decodeRune (b :: t)).1 with _ | ⟨k, sp⟩
      · simp [wordOpts, optsOf, Item.toOpt]
      · simp only []
        rcases ha : arityOf sp.arity with _ | _ | _
        · have hb := (arityOf_none_iff _).mp ha
          simp only [hb, if_true]
          have hpre : pre.length + (decodeRune (b :: t)).2 =
              (pre ++ (b :: t).take (decodeRune (b :: t)).2).length := by
            rw [List.length_append, List.length_take, Nat.min_eq_left hle]
          have hcat : pre ++ b :: t =
              (pre ++ (b :: t).take (decodeRune (b :: t)).2) ++ (b :: t).drop (decodeRune (b :: t)).2 := by
            simp
          rw [hpre, hcat, ih]
          simp [wordOpts_cons_known, argOf, known]
        · have hb : ¬ (sp.arity == NoArgument) = true := by
            rw [← arityOf_none_iff, ha]; simp
          have hr := (arityOf_required_iff _).mp ha
          simp only [hb, hr]
          by_cases he : (b :: t).drop (decodeRune (b :: t)).2 = []
          · simp [he, wordOpts, optsOf, known]
          · simp [he, wordOpts, optsOf, Item.toOpt, known, argOf]
        · have hb : ¬ (sp.arity == NoArgument) = true := by
            rw [← arityOf_none_iff, ha]; simp
          have hr : ¬ (sp.arity == RequiredArgument) = true := by
            rw [← arityOf_required_iff, ha]; simp
          simp [hb, hr, wordOpts, optsOf, Item.toOpt, known, argOf_nonEmpty]

/-- Fixed `parseShort` = the spec's `cluster`. -/
theorem parseShort_eq (specs : List OptionSpec) (s : Bytes) :
    parseShort true s specs = .ok (wordOpts (cluster specs s), (cluster specs s).2.isSome) := by
  have := parseShortLoop_eq specs s.length [] s []
  simpa [parseShort, runes, cluster] using this


/-! ### Long option words -/

/-- What `parseLongFrom` returns for the spec found by the look-up. -/
def longHit (value : Option Bytes) (x : Nat × OptionSpec) : Opt × Bool × Bool :=
  match value with
  | none => (known x.1 x.2 true [], x.2.arity == RequiredArgument, false)
  | some v => (known x.1 x.2 true v, false, x.2.arity == NoArgument)

theorem parseLongFrom_eq (s : Bytes) (l : List OptionSpec) (hwf : ∀ sp ∈ l, eqSign ∉ sp.long)
    (eq : Option Nat) (heq : indexEq s = eq) :
    ∀ k, parseLongFrom true s eq l k =
      .ok ((lookupFrom (fun sp => sp.long != [] && sp.long == (splitEq s).1) l k).map
        (longHit (splitEq s).2)) := by
  induction l with
  | nil => intro k; rfl
  | cons sp l ih =>
    intro k
    have hsp : eqSign ∉ sp.long := hwf sp (by simp)
    have ih' := ih (fun x hx => hwf x (by simp [hx])) (k + 1)
    rw [lookupFrom_cons]
    rcases eq with _ | e
    · obtain ⟨h1, _⟩ := indexEq_none s heq
      rw [parseLongFrom]
      simp only [h1] at ih' ⊢
      by_cases hempty : sp.long = []
      · simp [hempty, ih']
      · by_cases hs : s = sp.long
        · subst hs; simp [longHit, known, hempty]
        · have : ¬ sp.long = s := fun h => hs h.symm
          simp [hs, this, ih', hempty]
    · obtain ⟨h1, h2⟩ := indexEq_some s e heq
      have hmem := mem_of_indexEq_some s e heq
      have hs : ¬ s = sp.long := fun h => hsp (h ▸ hmem)
      rw [parseLongFrom]
      simp only [h2] at ih' ⊢
      rw [slice_to s e (by omega), slice_from s (e + 1) (by omega)]
      by_cases hempty : sp.long = []
      · simp [hempty, ih']
      · by_cases ht : s.take e = sp.long
        · simp [hs, ht, longHit, known, hempty]
        · have : ¬ sp.long = s.take e := fun h => ht h.symm
          simp [hs, ht, this, ih', hempty]

/-- Fixed `parseLong` = the spec's `longWord` (for long names without `=`). -/
theorem parseLong_eq (specs : List OptionSpec) (hwf : WF specs) (s : Bytes) :
    ∃ o, wordOpts (longWord specs s) = [o] ∧
      parseLong true s specs = .ok (o, (longWord specs s).2.isSome, (longWord specs s).1.any isBadArg) := by
  unfold parseLong
  simp only [parseLongFrom_eq s specs hwf _ rfl 0]
  unfold longWord lookupLong
  rcases hsp : splitEq s with ⟨name, value⟩
  simp only [lookup_eq]
  rcases hl : lookupFrom (fun sp => sp.long != [] && sp.long == name) specs 0 with _ | ⟨k, sp⟩
  · rcases hi : indexEq s with _ | e
    · obtain ⟨h1, _⟩ := indexEq_none s hi
      obtain ⟨rfl, rfl⟩ : name = s ∧ value = none := by
        rw [hsp] at h1; simpa using h1
      simp [wordOpts, optsOf, Item.toOpt, unknownLongOpt, argOf, isBadArg]
    · obtain ⟨h1, h2⟩ := indexEq_some s e hi
      obtain ⟨rfl, rfl⟩ : name = s.take e ∧ value = some (s.drop (e + 1)) := by
        rw [hsp] at h2; simpa using h2
      simp only [Option.map_none]
      rw [slice_to s e (by omega), slice_from s (e + 1) (by omega)]
      simp [wordOpts, optsOf, Item.toOpt, unknownLongOpt, argOf, isBadArg]
  · rcases value with _ | v
    · simp only [Option.map_some, longHit]
      rcases ha : arityOf sp.arity with _ | _ | _
      · have hr : ¬ (sp.arity == RequiredArgument) = true := by
          rw [← arityOf_required_iff, ha]; simp
        simp [hr, wordOpts, optsOf, Item.toOpt, argOf, isBadArg]
      · have hr := (arityOf_required_iff _).mp ha
        simp [hr, wordOpts, optsOf]
      · have hr : ¬ (sp.arity == RequiredArgument) = true := by
          rw [← arityOf_required_iff, ha]; simp
        simp [hr, wordOpts, optsOf, Item.toOpt, argOf, isBadArg]
    · simp only [Option.map_some, longHit]
      rcases ha : arityOf sp.arity with _ | _ | _
      · have hn := (arityOf_none_iff _).mp ha
        simp [hn, wordOpts, optsOf, Item.toOpt, argOf, isBadArg]
      · have hn : ¬ (sp.arity == NoArgument) = true := by
          rw [← arityOf_none_iff, ha]; simp
        simp [hn, wordOpts, optsOf, Item.toOpt, argOf, isBadArg]
      · have hn : ¬ (sp.arity == NoArgument) = true := by
          rw [← arityOf_none_iff, ha]; simp
        simp [hn, wordOpts, optsOf, Item.toOpt, argOf, isBadArg]

end C38.Proofs
