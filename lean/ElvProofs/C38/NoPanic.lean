/-
C38 helper lemmas, part 5: panic-freedom of the fixed code for EVERY spec list
(no `WF` hypothesis): each slice / index expression is in range.
-/
import ElvProofs.C38.Complete
namespace C38.Proofs
open Go C38 C38.Spec
open Gen.C38Config

theorem parseLongFrom_ok (s : Bytes) (eq : Option Nat) (heq : indexEq s = eq) (l : List OptionSpec) :
    ∀ k, ∃ r, parseLongFrom true s eq l k = .ok r := by
  induction l with
  | nil => intro k; exact ⟨_, rfl⟩
  | cons sp l ih =>
    intro k
    rcases eq with _ | e
    · rw [parseLongFrom]
      by_cases h1 : sp.long.isEmpty = true
      · simp only [h1, Bool.and_self, if_true]; exact ih (k + 1)
      · simp only [h1, Bool.and_false, Bool.false_eq_true, if_false]
        by_cases h2 : (s == sp.long) = true
        · simp only [h2, if_true]; exact ⟨_, rfl⟩
        · simp only [h2]; exact ih (k + 1)
    · obtain ⟨hlt, _⟩ := indexEq_some s e heq
      rw [parseLongFrom]
      by_cases h1 : sp.long.isEmpty = true
      · simp only [h1, Bool.and_self, if_true]; exact ih (k + 1)
      · simp only [h1, Bool.and_false, Bool.false_eq_true, if_false]
        by_cases h2 : (s == sp.long) = true
        · simp only [h2, if_true]; exact ⟨_, rfl⟩
        · simp only [h2]
          rw [slice_to s e (by omega), slice_from s (e + 1) (by omega)]
          by_cases h3 : (List.take e s == sp.long) = true
          · simp only [h3, if_true]; exact ⟨_, rfl⟩
          · simp only [h3]; exact ih (k + 1)

theorem parseLong_ok (specs : List OptionSpec) (s : Bytes) :
    ∃ o b x, parseLong true s specs = .ok (o, b, x) := by
  unfold parseLong
  obtain ⟨r, hr⟩ := parseLongFrom_ok s _ rfl specs 0
  simp only [hr]
  rcases r with _ | ⟨o, b, x⟩
  · rcases hi : indexEq s with _ | e
    · exact ⟨_, _, _, rfl⟩
    · obtain ⟨hlt, _⟩ := indexEq_some s e hi
      simp only
      rw [slice_to s e (by omega), slice_from s (e + 1) (by omega)]
      exact ⟨_, _, _, rfl⟩
  · exact ⟨o, b, x, rfl⟩

theorem longBranch_ok (specs : List OptionSpec) (st : PState) (s : Bytes) :
    ∃ st', (match parseLong true s specs with
      | .ok (newopt, needArg, extra) =>
        if extra then Res.ok { st with extraArg := st.extraArg ++ [newopt] }
        else if needArg then .ok { st with opt := some newopt }
        else .ok { st with opts := st.opts ++ [newopt] }
      | .exc x => .exc x
      | .panic p => .panic p) = .ok st' := by
  obtain ⟨o, b, x, h⟩ := parseLong_ok specs s
  rw [h]
  cases b <;> cases x <;> exact ⟨_, rfl⟩

theorem parseStep_ok (specs : List OptionSpec) (cfg : Nat) (st : PState) (w : Bytes) :
    ∃ st', parseStep true specs cfg st w = .ok st' := by
  obtain ⟨opts, nonOpt, opt, stop, extra⟩ := st
  unfold parseStep
  rcases opt with _ | o
  · simp only
    cases stop
    · simp only [Bool.false_eq_true, if_false]
      by_cases h1 : (has cfg StopAfterDoubleDash && w == dd) = true
      · simp only [h1, if_true]; exact ⟨_, rfl⟩
      · simp only [h1]
        by_cases h2 : (hasPrefix w dd && w != dd) = true
        · have hlen : 2 ≤ w.length := by
            rcases w with _ | ⟨a, _ | ⟨b, t⟩⟩ <;> simp_all [hasPrefix, dd]
          simp only [h2, if_true]
          rw [slice_two w hlen]
          exact longBranch_ok specs ⟨opts, nonOpt, none, false, extra⟩ _
        · simp only [h2]
          by_cases h3 : (hasPrefix w [dash] && w != dd && w != [dash]) = true
          · have hlen : 1 ≤ w.length := by
              rcases w with _ | ⟨a, t⟩ <;> simp_all [hasPrefix]
            simp only [h3, if_true]
            rw [slice_one w hlen]
            by_cases hlo : has cfg LongOnly = true
            · simp only [hlo, if_true]
              exact longBranch_ok specs ⟨opts, nonOpt, none, false, extra⟩ _
            · simp only [hlo]
              exact ⟨_, afterShort specs ⟨opts, nonOpt, none, false, extra⟩ _⟩
          · simp only [h3]; exact ⟨_, rfl⟩
    · exact ⟨_, rfl⟩
  · exact ⟨_, rfl⟩

theorem parseLoop_ok (specs : List OptionSpec) (cfg : Nat) (ws : List Bytes) :
    ∀ st, ∃ st', parseLoop true specs cfg st ws = .ok st' := by
  induction ws with
  | nil => intro st; exact ⟨_, rfl⟩
  | cons w ws ih =>
    intro st
    obtain ⟨st1, h1⟩ := parseStep_ok specs cfg st w
    rw [parseLoop, h1]
    exact ih st1

theorem parse_ok (specs : List OptionSpec) (cfg : Nat) (args : List Bytes) :
    ∃ st, parse true args specs cfg = .ok st := parseLoop_ok specs cfg args _

theorem longCtx_ok (specs : List OptionSpec) (st : PState) (s : Bytes) :
    ∃ r, (match parseLong true s specs with
      | .ok (newopt, _, _) =>
        Res.ok (st.opts, st.nonOptArgs, (⟨OptionArgument, some newopt, []⟩ : Context))
      | .exc x => .exc x
      | .panic p => .panic p) = .ok r ∧
        (r.2.2.typ = OptionArgument → r.2.2.option.isSome = true) := by
  obtain ⟨o, b, x, h⟩ := parseLong_ok specs s
  rw [h]
  exact ⟨_, rfl, fun _ => rfl⟩

set_option linter.unusedSimpArgs false in
theorem completeLast_ok (specs : List OptionSpec) (cfg : Nat) (st : PState) (last : Bytes) :
    ∃ r, completeLast true specs cfg st last = .ok r ∧
      (r.2.2.typ = OptionArgument → r.2.2.option.isSome = true) := by
  obtain ⟨opts, nonOpt, opt, stop, extra⟩ := st
  unfold completeLast
  rcases opt with _ | o
  · simp only
    cases stop
    · simp only [Bool.false_eq_true, if_false]
      by_cases h0 : (last == []) = true
      · simp only [h0, if_true]; exact ⟨_, rfl, by first | (intro _; rfl) | (intro h; simp [OptionArgument, OptionOrArgument, AnyOption, LongOption, ChainShortOption, Argument] at h)⟩
      · simp only [h0]
        by_cases h1 : (last == [dash]) = true
        · simp only [h1, if_true]; exact ⟨_, rfl, by first | (intro _; rfl) | (intro h; simp [OptionArgument, OptionOrArgument, AnyOption, LongOption, ChainShortOption, Argument] at h)⟩
        · simp only [h1]
          by_cases hdd : hasPrefix last dd = true
          · have hlen : 2 ≤ last.length := by
              rcases last with _ | ⟨a, _ | ⟨b, t⟩⟩ <;> simp_all [hasPrefix, dd]
            simp only [hdd, if_true]
            rw [slice_two last hlen]
            simp only
            by_cases hc : (!containsEq last) = true
            · simp only [hc, if_true]; exact ⟨_, rfl, by first | (intro _; rfl) | (intro h; simp [OptionArgument, OptionOrArgument, AnyOption, LongOption, ChainShortOption, Argument] at h)⟩
            · simp only [hc]
              exact longCtx_ok specs ⟨opts, nonOpt, none, false, extra⟩ _
          · simp only [hdd]
            by_cases hp : hasPrefix last [dash] = true
            · obtain ⟨b, t, rfl⟩ : ∃ b t, last = dash :: b :: t := by
                rcases last with _ | ⟨a, _ | ⟨b, t⟩⟩ <;> simp_all [hasPrefix]
              simp only [hp, if_true]
              rw [slice_one _ (by simp)]
              simp only [List.drop_succ_cons, List.drop_zero]
              by_cases hlo : has cfg LongOnly = true
              · simp only [hlo, if_true]
                by_cases hc : (!containsEq (dash :: b :: t)) = true
                · simp only [hc, if_true]; exact ⟨_, rfl, by first | (intro _; rfl) | (intro h; simp [OptionArgument, OptionOrArgument, AnyOption, LongOption, ChainShortOption, Argument] at h)⟩
                · simp only [hc]
                  exact longCtx_ok specs ⟨opts, nonOpt, none, false, extra⟩ _
              · simp only [hlo]
                rw [parseShort_eq]
                have hne := wordOpts_cluster_ne_nil specs (b :: t) (by simp)
                rcases hl : (wordOpts (cluster specs (b :: t))).getLast? with _ | o
                · simp at hl; exact absurd hl hne
                · simp only
                  rw [index_last _ o hl, slice_init _ hne]
                  simp only
                  by_cases hn : (o.spec.arity == NoArgument) = true
                  · simp only [hn, if_true]; exact ⟨_, rfl, by first | (intro _; rfl) | (intro h; simp [OptionArgument, OptionOrArgument, AnyOption, LongOption, ChainShortOption, Argument] at h)⟩
                  · simp only [hn]; exact ⟨_, rfl, by first | (intro _; rfl) | (intro h; simp [OptionArgument, OptionOrArgument, AnyOption, LongOption, ChainShortOption, Argument] at h)⟩
            · simp only [hp]; exact ⟨_, rfl, by first | (intro _; rfl) | (intro h; simp [OptionArgument, OptionOrArgument, AnyOption, LongOption, ChainShortOption, Argument] at h)⟩
    · exact ⟨_, rfl, by first | (intro _; rfl) | (intro h; simp [OptionArgument, OptionOrArgument, AnyOption, LongOption, ChainShortOption, Argument] at h)⟩
  · exact ⟨_, rfl, by first | (intro _; rfl) | (intro h; simp [OptionArgument, OptionOrArgument, AnyOption, LongOption, ChainShortOption, Argument] at h)⟩

end C38.Proofs
