/-
C38 helper lemmas, part 3: one iteration of `parse` on an option word, and
the whole loop against the spec's look-ahead reading.
-/
import ElvProofs.C38.Words
namespace C38.Proofs
open Go C38 C38.Spec
open Gen.C38Config

/-! ### Items of one option word -/

/-- Items an option word can produce. -/
def Item.isOpt : Item → Bool
  | .option _ _ _ _ => true
  | .badArg _ _ _ => true
  | .unknownShort _ _ => true
  | .unknownLong _ _ => true
  | _ => false

theorem longWord_items (specs : List OptionSpec) (s : Bytes) :
    ∀ i ∈ (longWord specs s).1, Item.isOpt i = true := by
  unfold longWord
  rcases splitEq s with ⟨name, value⟩
  simp only
  rcases lookupLong specs name with _ | ⟨k, sp⟩
  · simp [Item.isOpt]
  · rcases ha : arityOf sp.arity with _ | _ | _ <;> rcases value with _ | v <;> simp [ha, Item.isOpt]

theorem clusterN_items (specs : List OptionSpec) (n : Nat) :
    ∀ s, ∀ i ∈ (clusterN specs n s).1, Item.isOpt i = true := by
  induction n with
  | zero => intro s; simp [clusterN]
  | succ n ih =>
    intro s
    cases s with
    | nil => simp [clusterN]
    | cons b t =>
      rw [clusterN]
      rcases lookupShort specs (decodeRune (b :: t)).1 with _ | ⟨k, sp⟩
      · simp [Item.isOpt]
      · rcases ha : arityOf sp.arity with _ | _ | _
        · simp only [ha, List.mem_cons]
          rintro i (rfl | hi)
          · rfl
          · exact ih _ i hi
        · simp only [ha]; split <;> simp [Item.isOpt]
        · simp [ha, Item.isOpt]

theorem optionWord_items (cfg : Nat) (specs : List OptionSpec) (w : Bytes) :
    ∀ i ∈ (optionWord cfg specs w).1, Item.isOpt i = true := by
  unfold optionWord
  split
  · exact longWord_items _ _
  · split
    · exact longWord_items _ _
    · exact clusterN_items _ _ _

theorem operandsOf_isOpt (l : List Item) (h : ∀ i ∈ l, Item.isOpt i = true) : operandsOf l = [] := by
  induction l with
  | nil => rfl
  | cons a l ih =>
    have ha := h a (by simp)
    have := ih (fun i hi => h i (by simp [hi]))
    unfold operandsOf at this ⊢
    cases a <;> simp_all [Item.isOpt]

theorem missingOf_isOpt (l : List Item) (h : ∀ i ∈ l, Item.isOpt i = true) : missingOf l = none := by
  induction l with
  | nil => rfl
  | cons a l ih =>
    have ha := h a (by simp)
    have := ih (fun i hi => h i (by simp [hi]))
    unfold missingOf at this ⊢
    cases a <;> simp_all [Item.isOpt]

/-! ### Slices of a word -/

theorem slice_two (s : Bytes) (h : 2 ≤ s.length) : slice s 2 s.length = .ok (s.drop 2) := by
  simpa using slice_from s 2 h

theorem slice_one (s : Bytes) (h : 1 ≤ s.length) : slice s 1 s.length = .ok (s.drop 1) := by
  simpa using slice_from s 1 h

/-! ### One iteration on an option word -/

/-- The state after an option word: its options are delivered, except those
written `--name=value` for a no-argument option, which go to `extraArg`. -/
def afterWord (st : PState) (r : List Item × Awaiting) : PState :=
  match r.2 with
  | none => { st with opts := st.opts ++ optsOf false r.1, extraArg := st.extraArg ++ extraOf r.1 }
  | some (k, sp, l) =>
    { st with opts := st.opts ++ optsOf false r.1, opt := some (known k sp l []),
              extraArg := st.extraArg ++ extraOf r.1 }

/-- Without a `badArg` item the strict and the lenient reading deliver the same options … -/
theorem optsOf_false_eq (l : List Item) (h : l.any isBadArg = false) : optsOf false l = optsOf true l := by
  induction l with
  | nil => rfl
  | cons a l ih =>
    simp only [List.any_cons, Bool.or_eq_false_iff] at h
    have ih' := ih h.2
    have hc : ∀ b, optsOf b (a :: l) =
        (match Item.toOpt b a with | some o => [o] | none => []) ++ optsOf b l := by
      intro b
      unfold optsOf
      rw [List.filterMap_cons]
      cases Item.toOpt b a <;> rfl
    rw [hc, hc, ih']
    cases a <;> simp_all [Item.toOpt, isBadArg]

/-- … and none is set aside. -/
theorem extraOf_eq_nil (l : List Item) (h : l.any isBadArg = false) : extraOf l = [] := by
  induction l with
  | nil => rfl
  | cons a l ih =>
    simp only [List.any_cons, Bool.or_eq_false_iff] at h
    have ih' := ih h.2
    unfold extraOf at ih' ⊢
    rw [List.filterMap_cons]
    cases a <;> simp_all [isBadArg]

theorem clusterN_noBad (specs : List OptionSpec) (n : Nat) :
    ∀ s, (clusterN specs n s).1.any isBadArg = false := by
  induction n with
  | zero => intro s; simp [clusterN]
  | succ n ih =>
    intro s
    cases s with
    | nil => simp [clusterN]
    | cons b t =>
      rw [clusterN]
      rcases lookupShort specs (decodeRune (b :: t)).1 with _ | ⟨k, sp⟩
      · simp [isBadArg]
      · rcases ha : arityOf sp.arity with _ | _ | _
        · simp only [ha, List.any_cons, isBadArg, Bool.false_or]
          exact ih _
        · simp only [ha]; split <;> simp [isBadArg]
        · simp [ha, isBadArg]

/-- A long word with a `badArg` item is that item alone. -/
theorem longWord_bad (specs : List OptionSpec) (s : Bytes) (h : (longWord specs s).1.any isBadArg = true) :
    optsOf false (longWord specs s).1 = [] ∧
    extraOf (longWord specs s).1 = optsOf true (longWord specs s).1 ∧ (longWord specs s).2 = none := by
  revert h
  unfold longWord
  rcases splitEq s with ⟨name, value⟩
  simp only
  rcases lookupLong specs name with _ | ⟨k, sp⟩
  · simp [isBadArg]
  · rcases ha : arityOf sp.arity with _ | _ | _ <;> rcases value with _ | v <;>
      simp [ha, isBadArg, optsOf, extraOf, Item.toOpt]

theorem afterLong (specs : List OptionSpec) (hwf : WF specs) (st : PState) (s : Bytes) :
    (match parseLong true s specs with
      | .ok (newopt, needArg, extra) =>
        if extra then Res.ok { st with extraArg := st.extraArg ++ [newopt] }
        else if needArg then .ok { st with opt := some newopt }
        else .ok { st with opts := st.opts ++ [newopt] }
      | .exc x => .exc x
      | .panic p => .panic p) = .ok (afterWord st (longWord specs s)) := by
  obtain ⟨o, h1, h2⟩ := parseLong_eq specs hwf s
  rw [h2]
  by_cases hb : (longWord specs s).1.any isBadArg = true
  · obtain ⟨b1, b2, b3⟩ := longWord_bad specs s hb
    have ho : optsOf true (longWord specs s).1 = [o] := by
      unfold wordOpts at h1; rw [b3] at h1; simpa using h1
    unfold afterWord
    simp only [hb, if_true, b3]
    rw [b1, b2, ho]
    simp
  have hb' : (longWord specs s).1.any isBadArg = false := by simpa using hb
  simp only [hb', Bool.false_eq_true, if_false]
  unfold afterWord
  rw [optsOf_false_eq _ hb', extraOf_eq_nil _ hb']
  unfold wordOpts at h1
  rcases hr : (longWord specs s).2 with _ | ⟨k, sp, l⟩
  · rw [hr] at h1
    simp at h1
    simp [h1]
  · rw [hr] at h1
    simp only at h1
    have hlen := congrArg List.length h1
    simp at hlen
    have h0 : optsOf true (longWord specs s).1 = [] := by simpa using hlen
    rw [h0] at h1
    simp at h1
    simp [h0, h1]

theorem afterShort (specs : List OptionSpec) (st : PState) (s : Bytes) :
    (match parseShort true s specs with
      | .ok (newopts, needArg) =>
        if needArg then
          match slice newopts 0 ((newopts.length : Int) - 1),
                index newopts ((newopts.length : Int) - 1) with
          | .ok front, .ok last => Res.ok { st with opts := st.opts ++ front, opt := some last }
          | .panic p, _ => .panic p
          | .exc x, _ => .exc x
          | _, .panic p => .panic p
          | _, .exc x => .exc x
        else .ok { st with opts := st.opts ++ newopts }
      | .exc x => .exc x
      | .panic p => .panic p) = .ok (afterWord st (cluster specs s)) := by
  rw [parseShort_eq]
  have hb : (cluster specs s).1.any isBadArg = false := clusterN_noBad specs _ s
  unfold afterWord wordOpts
  rw [optsOf_false_eq _ hb, extraOf_eq_nil _ hb]
  rcases hr : (cluster specs s).2 with _ | ⟨k, sp, l⟩
  · simp
  · simp only [Option.isSome_some, if_true]
    rw [slice_init _ (by simp), index_last _ (known k sp l []) (by simp)]
    simp

theorem parseStep_optionWord (specs : List OptionSpec) (hwf : WF specs) (cfg : Nat) (st : PState)
    (w : Bytes) (h1 : st.opt = none) (h2 : st.stopOpt = false)
    (h3 : (has cfg StopAfterDoubleDash && w == dd) = false) (h4 : isOptionWord w = true) :
    parseStep true specs cfg st w = .ok (afterWord st (optionWord cfg specs w)) := by
  obtain ⟨opts, nonOpt, opt, stop, extra⟩ := st
  simp only at h1 h2
  subst h1 h2
  unfold parseStep
  simp only [Bool.false_eq_true, if_false, h3]
  unfold isOptionWord at h4
  simp only [Bool.and_eq_true] at h4
  obtain ⟨⟨hp, hnd⟩, hndd⟩ := h4
  unfold optionWord
  by_cases hdd : hasPrefix w dd = true
  · have hlen : 2 ≤ w.length := by
      rcases w with _ | ⟨a, _ | ⟨b, t⟩⟩ <;> simp_all [hasPrefix, dd]
    simp only [hdd, hndd, Bool.and_self, if_true]
    rw [slice_two w hlen]
    exact afterLong specs hwf ⟨opts, nonOpt, none, false, extra⟩ _
  · have hlen : 1 ≤ w.length := by
      rcases w with _ | ⟨a, t⟩ <;> simp_all [hasPrefix]
    simp only [hdd, Bool.false_and, Bool.false_eq_true, if_false, hp, hndd, hnd, Bool.and_self, if_true]
    rw [slice_one w hlen]
    by_cases hlo : has cfg LongOnly = true
    · simp only [hlo, if_true]
      exact afterLong specs hwf ⟨opts, nonOpt, none, false, extra⟩ _
    · simp only [hlo]
      exact afterShort specs ⟨opts, nonOpt, none, false, extra⟩ _


/-! ### The loop -/

/-- The loop variables of `parse` that correspond to a list of items read from state `st`. -/
def absState (cfg : Nat) (st : PState) (items : List Item) : PState :=
  ⟨st.opts ++ optsOf false items, st.nonOptArgs ++ operandsOf items, missingOf items,
    st.stopOpt || ended cfg items, st.extraArg ++ extraOf items⟩

theorem optsOf_append (b) (x y : List Item) : optsOf b (x ++ y) = optsOf b x ++ optsOf b y := by
  simp [optsOf]
theorem extraOf_append (x y : List Item) : extraOf (x ++ y) = extraOf x ++ extraOf y := by
  simp [extraOf]
theorem extraOf_operand (w l) : extraOf (Item.operand w :: l) = extraOf l := rfl
theorem extraOf_terminator (l) : extraOf (Item.terminator :: l) = extraOf l := rfl
theorem extraOf_missing (k sp v l) : extraOf (Item.missing k sp v :: l) = extraOf l := rfl
theorem extraOf_option (k sp v a l) : extraOf (Item.option k sp v a :: l) = extraOf l := rfl
theorem extraOf_nil : extraOf [] = [] := rfl
theorem operandsOf_append (x y : List Item) : operandsOf (x ++ y) = operandsOf x ++ operandsOf y := by
  simp [operandsOf]
theorem missingOf_append (x y : List Item) : missingOf (x ++ y) = (missingOf x).or (missingOf y) := by
  simp [missingOf, List.findSome?_append]
theorem ended_append_isOpt (cfg) (x y : List Item) (h : ∀ i ∈ x, Item.isOpt i = true) :
    ended cfg (x ++ y) = ended cfg y := by
  induction x with
  | nil => rfl
  | cons a x ih =>
    have ha := h a (by simp)
    have ih' := ih (fun i hi => h i (by simp [hi]))
    have : ended cfg (a :: (x ++ y)) = ended cfg (x ++ y) := by
      cases a <;> simp_all [Item.isOpt, ended]
    rw [List.cons_append, this, ih']

theorem optsOf_operand (b w l) : optsOf b (Item.operand w :: l) = optsOf b l := rfl
theorem optsOf_terminator (b l) : optsOf b (Item.terminator :: l) = optsOf b l := rfl
theorem optsOf_missing (b k sp v l) : optsOf b (Item.missing k sp v :: l) = optsOf b l := rfl
theorem optsOf_option (b k sp v a l) :
    optsOf b (Item.option k sp v a :: l) = known k sp v (argOf a) :: optsOf b l := rfl
theorem operandsOf_operand (w l) : operandsOf (Item.operand w :: l) = w :: operandsOf l := rfl
theorem operandsOf_terminator (l) : operandsOf (Item.terminator :: l) = operandsOf l := rfl
theorem operandsOf_missing (k sp v l) : operandsOf (Item.missing k sp v :: l) = operandsOf l := rfl
theorem operandsOf_option (k sp v a l) : operandsOf (Item.option k sp v a :: l) = operandsOf l := rfl
theorem missingOf_operand (w l) : missingOf (Item.operand w :: l) = missingOf l := rfl
theorem missingOf_terminator (l) : missingOf (Item.terminator :: l) = missingOf l := rfl
theorem missingOf_missing (k sp v l) :
    missingOf (Item.missing k sp v :: l) = some (known k sp v []) := rfl
theorem missingOf_option (k sp v a l) : missingOf (Item.option k sp v a :: l) = missingOf l := rfl
theorem ended_operand (cfg w l) :
    ended cfg (Item.operand w :: l) = (has cfg StopBeforeFirstNonOption || ended cfg l) := by
  simp only [ended, List.any_cons]
  cases has cfg StopBeforeFirstNonOption <;> simp
theorem ended_terminator (cfg l) : ended cfg (Item.terminator :: l) = true := by
  simp [ended]
theorem ended_missing (cfg k sp v l) : ended cfg (Item.missing k sp v :: l) = ended cfg l := by
  simp [ended]
theorem ended_option (cfg k sp v a l) : ended cfg (Item.option k sp v a :: l) = ended cfg l := by
  simp [ended]
theorem optsOf_nil (b) : optsOf b [] = [] := rfl
theorem operandsOf_nil : operandsOf [] = [] := rfl
theorem missingOf_nil : missingOf [] = none := rfl
theorem ended_nil (cfg) : ended cfg [] = false := by simp [ended]

theorem parseLoop_eq (specs : List OptionSpec) (hwf : WF specs) (cfg : Nat) :
    ∀ (n : Nat) (ws : List Bytes), ws.length ≤ n → ∀ st : PState, st.opt = none →
      parseLoop true specs cfg st ws = .ok (absState cfg st (Spec.read cfg specs ws st.stopOpt)) := by
  intro n
  induction n with
  | zero =>
    intro ws hlen st hst
    have : ws = [] := List.eq_nil_of_length_eq_zero (by omega)
    subst this
    obtain ⟨opts, nonOpt, opt, stop, extra⟩ := st
    simp only at hst; subst hst
    simp [parseLoop, Spec.read, absState, optsOf_nil, operandsOf_nil, missingOf_nil, ended_nil, extraOf_nil]
  | succ n ih =>
    intro ws hlen st hst
    obtain ⟨opts, nonOpt, opt, stop, extra⟩ := st
    simp only at hst; subst hst
    cases ws with
    | nil => simp [parseLoop, Spec.read, absState, optsOf_nil, operandsOf_nil, missingOf_nil, ended_nil, extraOf_nil]
    | cons w ws =>
      have hlen' : ws.length ≤ n := by simp at hlen; omega
      cases stop with
      | true =>
        have hstep : parseStep true specs cfg ⟨opts, nonOpt, none, true, extra⟩ w =
            .ok ⟨opts, nonOpt ++ [w], none, true, extra⟩ := by simp [parseStep]
        rw [parseLoop, hstep]
        simp only
        rw [ih ws hlen' _ rfl]
        simp [Spec.read, absState, optsOf_operand, operandsOf_operand, missingOf_operand, extraOf_operand]
      | false =>
        by_cases hterm : (has cfg StopAfterDoubleDash && w == dd) = true
        · have hstep : parseStep true specs cfg ⟨opts, nonOpt, none, false, extra⟩ w =
              .ok ⟨opts, nonOpt, none, true, extra⟩ := by simp [parseStep, hterm]
          rw [parseLoop, hstep]
          simp only
          rw [ih ws hlen' _ rfl]
          simp [Spec.read, hterm, absState, optsOf_terminator, operandsOf_terminator,
            missingOf_terminator, ended_terminator, extraOf_terminator]
        · have hterm' : (has cfg StopAfterDoubleDash && w == dd) = false := by simpa using hterm
          by_cases hw : isOptionWord w = true
          · have hstep := parseStep_optionWord specs hwf cfg ⟨opts, nonOpt, none, false, extra⟩ w rfl rfl hterm' hw
            have hitems := optionWord_items cfg specs w
            have ho := operandsOf_isOpt _ hitems
            have hm := missingOf_isOpt _ hitems
            have he := fun y => ended_append_isOpt cfg _ y hitems
            rw [parseLoop, hstep]
            simp only
            rw [Spec.read]
            simp only [hterm', Bool.false_eq_true, if_false, hw, if_true]
            unfold afterWord
            rcases haw : (optionWord cfg specs w).2 with _ | ⟨k, sp, l⟩
            · simp only
              rw [ih ws hlen' _ rfl]
              simp [absState, optsOf_append, operandsOf_append, missingOf_append, extraOf_append, he, ho, hm]
            · simp only
              cases ws with
              | nil =>
                simp [parseLoop, absState, optsOf_append, operandsOf_append, missingOf_append, extraOf_append,
                  he, ho, hm, optsOf_missing, operandsOf_missing, missingOf_missing, ended_missing, extraOf_missing,
                  optsOf_nil, operandsOf_nil, ended_nil, extraOf_nil]
              | cons a ws' =>
                have hstep2 : parseStep true specs cfg
                    ⟨opts ++ optsOf false (optionWord cfg specs w).1, nonOpt, some (known k sp l []), false,
                      extra ++ extraOf (optionWord cfg specs w).1⟩ a =
                    .ok ⟨opts ++ optsOf false (optionWord cfg specs w).1 ++ [known k sp l a], nonOpt, none, false,
                      extra ++ extraOf (optionWord cfg specs w).1⟩ := by
                  simp [parseStep, known]
                rw [parseLoop, hstep2]
                simp only
                rw [ih ws' (by simp at hlen'; omega) _ rfl]
                simp [absState, optsOf_append, operandsOf_append, missingOf_append, extraOf_append, he, ho, hm,
                  optsOf_option, operandsOf_option, missingOf_option, ended_option, extraOf_option, argOf]
          · have hw' : isOptionWord w = false := by simpa using hw
            have hstep : parseStep true specs cfg ⟨opts, nonOpt, none, false, extra⟩ w =
                .ok ⟨opts, nonOpt ++ [w], none, has cfg StopBeforeFirstNonOption, extra⟩ := by
              unfold isOptionWord at hw'
              unfold parseStep
              simp only [Bool.false_eq_true, if_false, hterm']
              by_cases hdd : hasPrefix w dd = true
              · have hp : hasPrefix w [dash] = true := by
                  rcases w with _ | ⟨a, _ | ⟨b, t⟩⟩ <;> simp_all [hasPrefix, dd]
                have : w = dd := by
                  false_or_by_contra
                  rename_i hne
                  have h1 : (w != dd) = true := by simpa using hne
                  have h2 : (w != [dash]) = true := by
                    rcases w with _ | ⟨a, _ | ⟨b, t⟩⟩ <;> simp_all [hasPrefix, dd]
                  simp [hp, h1, h2] at hw'
                subst this
                simp [hasPrefix, dd]
              · have hdd' : hasPrefix w dd = false := by simpa using hdd
                simp only [hdd', Bool.false_and, Bool.false_eq_true, if_false]
                have : (hasPrefix w [dash] && w != dd && w != [dash]) = false := by
                  rw [Bool.and_assoc, Bool.and_comm (w != dd), ← Bool.and_assoc]; exact hw'
                simp [this]
            rw [parseLoop, hstep]
            simp only
            rw [ih ws hlen' _ rfl]
            rw [Spec.read]
            simp only [hterm', Bool.false_eq_true, if_false, hw']
            rcases hs : has cfg StopBeforeFirstNonOption <;>
              simp [hs, absState, optsOf_operand, operandsOf_operand, missingOf_operand, ended_operand, extraOf_operand]

/-- `parse` of the fixed code computes exactly the spec's reading. -/
theorem parse_eq (specs : List OptionSpec) (hwf : WF specs) (cfg : Nat) (args : List Bytes) :
    parse true args specs cfg =
      .ok ⟨optsOf false (Spec.read cfg specs args false), operandsOf (Spec.read cfg specs args false),
           missingOf (Spec.read cfg specs args false), ended cfg (Spec.read cfg specs args false),
           extraOf (Spec.read cfg specs args false)⟩ := by
  unfold parse
  rw [parseLoop_eq specs hwf cfg args.length args (Nat.le_refl _) PState.init rfl]
  simp [absState, PState.init]

end C38.Proofs
