import ElvModel.C30.Model
import ElvModel.C30.Accept
import ElvProofs.C30.Pure
import ElvProofs.C30.Sort
import ElvProofs.C30.Protocol
import ElvProofs.C30.AcceptSound
import ElvProofs.C30.Sources
open Go C30

/-!
# C30 — syntax highlighting never changes the text and is never stale

All theorems are about the executable model `ElvModel/C30/Model.lean` of
`pkg/edit/highlight` (tied to the Go code by `./check C30`: differential runs
of `fixRegions`/`highlight` and trace refinement of `Highlighter.Get`).

Pure part: for EVERY code (any bytes, valid UTF-8 or not), every region list
and every outcome of the unstable `sort.Slice`.  Concurrent part: for every
`Reachable` state of the transition system, i.e. every interleaving of any
number of `Get(code′)` calls, late deliveries after arbitrary delays and
`InvalidateCache` calls (induction over the step relation, no bound).
-/

/-! ## (1) Region fixing and segment assembly -/

/-- `fixRegions`: whatever the sort left, the regions kept are a sub-list of it,
in order and non-overlapping (each begins at or after the end of the one before,
the first at or after 0); and a list that already is ordered is kept entirely. -/
theorem C30_fixRegions_ordered (sorted : List Region) :
    Ordered 0 (fixRegionsSorted sorted) ∧ (fixRegionsSorted sorted).Sublist sorted ∧
    (Ordered 0 sorted → fixRegionsSorted sorted = sorted) :=
  ⟨filterOverlap_ordered sorted 0, filterOverlap_sublist sorted 0, filterOverlap_id sorted 0⟩

example : fixRegionsSorted [⟨0, 2, .semantic, commandRegion⟩, ⟨0, 2, .lexical, []⟩, ⟨1, 3, .lexical, []⟩, ⟨2, 2, .semantic, []⟩, ⟨3, 4, .lexical, []⟩]
    = [⟨0, 2, .semantic, commandRegion⟩, ⟨2, 2, .semantic, []⟩, ⟨3, 4, .lexical, []⟩] := by decide

/-- The executable check the driver applies to the recorded result of
`sort.Slice` implies the declarative contract (a permutation, sorted by `less`),
and the contract can be met for every input. -/
theorem C30_sort_contract (input sorted : List Region) :
    (sortContract input sorted = true → SortedPerm input sorted) ∧ SortedPerm input (sortRegions input) :=
  ⟨sortContract_sound, sortRegions_contract input⟩

/-- a tie (same Begin, same kind) may come out either way; kind priority may not be violated -/
example : sortContract [⟨0, 3, .lexical, []⟩, ⟨0, 5, .lexical, []⟩, ⟨0, 1, .semantic, []⟩]
    [⟨0, 1, .semantic, []⟩, ⟨0, 5, .lexical, []⟩, ⟨0, 3, .lexical, []⟩] = true ∧
  sortContract [⟨0, 3, .lexical, []⟩, ⟨0, 5, .lexical, []⟩, ⟨0, 1, .semantic, []⟩]
    [⟨0, 1, .semantic, []⟩, ⟨0, 3, .lexical, []⟩, ⟨0, 5, .lexical, []⟩] = true ∧
  sortContract [⟨0, 3, .lexical, []⟩, ⟨0, 1, .semantic, []⟩] [⟨0, 3, .lexical, []⟩, ⟨0, 1, .semantic, []⟩] = false := by decide

/-- `highlight` NEVER changes the text, whatever the regions are: if the
assembly does not panic, the segments tile the code (consecutive,
non-overlapping slices in order, from 0 to `|code|`), hence their concatenation
is exactly the code.  No hypothesis on the regions: an out-of-range or inverted
region makes a checked slice panic, it cannot produce a wrong text. -/
theorem C30_text_preserved (code : Bytes) (hasCmd : Bool) (sorted : List Region) (t : Text) (cmds : List CmdRegion)
    (h : highlight code hasCmd sorted = .ok (t, cmds)) :
    Tiles code 0 t ∧ plain t = code := by
  obtain ⟨hT, _⟩ := highlight_ok h
  exact ⟨hT, by simpa using tiles_plain hT⟩

/-- Theorem (1): for any list of regions with `0 ≤ begin ≤ end ≤ |code|` and any
sorted permutation of it that `sort.Slice` may produce, `highlight` does not
panic, the assembled segments tile the code in order without overlap, and
concatenating their text gives back the code exactly. -/
theorem C30_highlight_total_lossless (code : Bytes) (hasCmd : Bool) (regions sorted : List Region)
    (hin : ∀ r ∈ regions, InBounds code.length r) (hs : SortedPerm regions sorted) :
    ∃ t cmds, highlight code hasCmd sorted = .ok (t, cmds) ∧ Tiles code 0 t ∧ plain t = code ∧
      ∀ c ∈ cmds, t[c.seg]? = some { style := {}, text := c.cmd } := by
  have hin' : ∀ r ∈ fixRegionsSorted sorted, InBounds code.length r :=
    fun r hr => hin r (hs.1.subset (filterOverlap_mem hr))
  obtain ⟨t, cmds, e⟩ := assembleFrom_no_panic code hasCmd (fixRegionsSorted sorted) 0 0
    (filterOverlap_ordered sorted 0) hin' (Int.le_refl 0) (Int.natCast_nonneg _)
  have e' : highlight code hasCmd sorted = .ok (t, cmds) := e
  obtain ⟨hT, hP⟩ := C30_text_preserved code hasCmd sorted t cmds e'
  exact ⟨t, cmds, e', hT, hP, (highlight_ok e').2⟩

/-- The hypothesis of `C30_highlight_total_lossless` holds for the parser's
contribution, by C01: every node of the tree `parse.Parse` returns for ANY source
(and so every region `getRegions` can emit, lexical or semantic) and every parse
error (the error regions of `addDiagError`) has `0 ≤ from ≤ to ≤ |src|`.  What
remains an assumption is the same bound for the errors `cfg.Check` returns. -/
theorem C30_parser_regions_in_bounds (isPrint : Int → Bool) (src : Bytes) :
    ∃ t errs, C01.parse isPrint src = .ok t errs ∧
      (∀ m, C01_Desc t m → ∀ k ty, InBounds src.length ⟨m.frm, m.to, k, ty⟩) ∧
      (∀ x ∈ errs, ∀ k ty, InBounds src.length ⟨x.frm, x.to, k, ty⟩) :=
  C30.parser_ranges_in_bounds isPrint src

/-- non-vacuity: `ls x` with a command region, a shadowed lexical region, an
overlapping region that is dropped and an argument. -/
example : highlight [108, 115, 32, 120] true
      [⟨0, 2, .semantic, commandRegion⟩, ⟨0, 2, .lexical, []⟩, ⟨1, 3, .lexical, []⟩, ⟨3, 4, .lexical, [118, 97, 114, 105, 97, 98, 108, 101]⟩]
    = .ok ([⟨{}, [108, 115]⟩, ⟨{}, [32]⟩, ⟨{ fg := .magenta }, [120]⟩], [⟨0, [108, 115]⟩]) := by decide
/-- outside the precondition a slice does panic (so the hypothesis matters for totality only) -/
example : highlight [108, 115] false [⟨1, 3, .lexical, []⟩] = .panic "slice bounds out of range" := by decide

/-! ## (2) Late restyling -/

/-- Theorem (2): the late restyling leaves the text of every segment untouched
(same number of segments, same texts, hence the same plain text and the same
tiling), whatever `HasCommand` answers. -/
theorem C30_late_restyle_preserves_text (t t' : Text) (cmds : List CmdRegion) (answers : List Bool)
    (h : restyle t cmds answers = .ok t') :
    t'.map (·.text) = t.map (·.text) ∧ plain t' = plain t ∧ ∀ code k, Tiles code k t → Tiles code k t' :=
  ⟨restyle_text _ _ _ _ h, plain_congr (restyle_text _ _ _ _ h), fun _ _ hT => tiles_congr (restyle_text _ _ _ _ h) hT⟩

/-- The goroutine's `newText[cmdRegion.seg]` never panics: every index recorded
by `highlight` lies inside the text it returned. -/
theorem C30_late_restyle_no_panic (code : Bytes) (hasCmd : Bool) (sorted : List Region) (t : Text)
    (cmds : List CmdRegion) (answers : List Bool) (h : highlight code hasCmd sorted = .ok (t, cmds)) :
    ∃ t', restyle t cmds answers = .ok t' ∧ plain t' = code := by
  obtain ⟨t', e⟩ := restyle_no_panic cmds answers t (cmds_in_range (highlight_ok h).2)
  exact ⟨t', e, by rw [plain_congr (restyle_text _ _ _ _ e)]; exact (C30_text_preserved _ _ _ _ _ h).2⟩

example : restyle [⟨{}, [108, 115]⟩, ⟨{}, [32]⟩, ⟨{ fg := .magenta }, [120]⟩] [⟨0, [108, 115]⟩] [false]
    = .ok [⟨{ fg := .red }, [108, 115]⟩, ⟨{}, [32]⟩, ⟨{ fg := .magenta }, [120]⟩] := by decide

/-! ## (3) `Highlighter.Get`, late deliveries, all interleavings -/

/-- Theorem (3a), the cache invariant: in every reachable state the cached text
consists of exactly the cached code (it tiles it), and it was computed by a
`highlight` call for that very code (ghost `origin`; `Computed`). -/
theorem C30_cache_invariant (s : State) (h : Reachable s) :
    plain s.styled = s.code ∧ Tiles s.code 0 s.styled ∧ s.origin = s.code ∧ Computed s.code s.styled := by
  have hi := reachable_inv h
  exact ⟨by simpa using tiles_plain hi.cache_tiles, hi.cache_tiles, hi.cache_origin, hi.cache_computed⟩

/-- Theorem (3b): whatever `Get(asked)` ever returns — the immediate result, a
cache hit, a cache hit after a late update — consists of exactly `asked` and was
computed by `highlight(asked)`. -/
theorem C30_shown_is_for_asked_code (s : State) (h : Reachable s) (asked origin : Bytes) (text : Text)
    (ho : Obs.shown asked text origin ∈ s.log) :
    plain text = asked ∧ origin = asked ∧ Computed asked text := by
  obtain ⟨h1, h2, h3⟩ := (reachable_inv h).log_ok _ ho
  exact ⟨by simpa using tiles_plain h2, h1, h3⟩

/-- Theorem (3c): a late result is stored only while the cache holds the code it
was computed for, it then leaves `cache.code` alone; otherwise it is dropped and
the cache is untouched.  (Both for the step relation and for every late
delivery recorded in the ghost log of a reachable state.) -/
theorem C30_late_only_for_its_code (s s' : State) (p : Pending) (hmu : s.mu = some (.late p)) :
    (∀ answers, step s (.lateStore answers) = some s' → s.code = p.code ∧ s'.code = s.code ∧ s'.origin = p.code) ∧
    (step s .lateDrop = some s' → s.code ≠ p.code ∧ s'.code = s.code ∧ s'.styled = s.styled ∧ s'.origin = s.origin) := by
  constructor
  · intro answers hs
    simp only [step, hmu] at hs
    split at hs
    · next hc =>
      split at hs
      · simp only [Option.some.injEq] at hs; subst hs; exact ⟨hc.1, rfl, rfl⟩
      · cases hs
    · cases hs
  · intro hs
    simp only [step, hmu] at hs
    split at hs
    · cases hs
    · next hne => simp only [Option.some.injEq] at hs; subst hs; exact ⟨hne, rfl, rfl, rfl⟩

theorem C30_late_deliveries_in_log (s : State) (h : Reachable s) :
    (∀ origin cached text, Obs.lateStored origin cached text ∈ s.log → origin = cached ∧ plain text = cached) ∧
    (∀ origin cached, Obs.lateDropped origin cached ∈ s.log → origin ≠ cached) := by
  have hi := reachable_inv h
  constructor
  · intro o c t hm
    obtain ⟨h1, h2, _⟩ := hi.log_ok _ hm
    exact ⟨h1, by simpa using tiles_plain h2⟩
  · intro o c hm
    exact hi.log_ok _ hm

/-- ABA (`c → c′ → c`) is harmless: when a late result for `p.code` is delivered
while the cache (again) holds `p.code`, what is stored is
`restyle imm cmds answers` with `(imm, cmds) = highlight p.code …` — a function
of the code, of the regions computed for it and of the answers of the
command-existence callback only.  The history of the cache in between does not
enter, and the stored text consists of exactly the cached code.  It is the same
text a `Get(p.code)` returns directly when the answers arrive within
`maxBlockForLate` (`runHighlight … fast := some answers`). -/
theorem C30_aba_harmless (s : State) (h : Reachable s) (p : Pending) (hmu : s.mu = some (.late p))
    (hc : s.code = p.code) (answers : List Bool) (hl : answers.length = p.cmds.length) :
    ∃ s' late hasCmd sorted,
      step s (.lateStore answers) = some s' ∧ s'.styled = late ∧ s'.code = s.code ∧ plain late = s.code ∧
      highlight p.code hasCmd sorted = .ok (p.imm, p.cmds) ∧ restyle p.imm p.cmds answers = .ok late ∧
      (hasCmd = true → p.cmds ≠ [] →
        runHighlight p.code { hasCmd := hasCmd, sorted := sorted, fast := some answers } = .ok (late, none)) := by
  obtain ⟨hcfg, sorted, hh⟩ := (reachable_inv h).holder_ok p hmu
  obtain ⟨late, hr, hp⟩ := C30_late_restyle_no_panic p.code hcfg sorted p.imm p.cmds answers hh
  refine ⟨{ s with mu := none, styled := late, origin := p.code,
                      log := .lateStored p.code s.code late :: s.log },
    late, hcfg, sorted, ?_, rfl, rfl, by rw [hc]; exact hp, hh, hr, ?_⟩
  · simp only [step, hmu, hc, hl, and_self, if_true, hr]
  · intro h1 h2
    subst h1
    simp [runHighlight, hh, h2, hl, hr]

/-- With region sources that stay inside the code (C01 for parse nodes and parse
errors; checked at run time for `cfg.Check`), `Get` never panics: the
`getPanic` step is never enabled, and a `Get` that holds the mutex and misses
the cache can always complete. -/
theorem C30_get_never_panics (code : Bytes) (env : Env) (regions : List Region)
    (hin : ∀ r ∈ regions, InBounds code.length r) (hs : SortedPerm regions env.sorted)
    (hfast : ∀ a, env.fast = some a → ∀ t cmds, highlight code env.hasCmd env.sorted = .ok (t, cmds) → a.length = cmds.length) :
    (∀ w, runHighlight code env ≠ .panic w) ∧
    ∀ s, s.mu = some (.get code) → step s (.getPanic env) = none := by
  obtain ⟨t, cmds, e, _, _, hC⟩ := C30_highlight_total_lossless code env.hasCmd regions env.sorted hin hs
  have hnp : ∀ w, runHighlight code env ≠ .panic w := by
    intro w
    unfold runHighlight
    rw [e]
    simp only
    split
    · cases hf : env.fast with
      | none => simp
      | some a =>
        simp only
        have hl := hfast a hf t cmds e
        obtain ⟨t', e'⟩ := restyle_no_panic cmds a t (cmds_in_range hC)
        simp [hl, e']
    · cases hf : env.fast with
      | none => simp
      | some a => simp
  refine ⟨hnp, ?_⟩
  intro s hmu
  simp only [step, hmu]
  split
  · rfl
  · cases hr : runHighlight code env with
    | panic w => exact absurd hr (hnp w)
    | ok _ => rfl
    | exc _ => rfl

/-! ## The trace acceptor -/

/-- Every candidate state the driver's acceptor ever holds is a `Reachable`
state of the model: an accepted recorded trace IS a model execution, so the
theorems above apply to it. -/
theorem C30_acceptor_sound (hasCmd : Bool) (cs : List Cand) (e : Entry) (h : CandsOK cs) :
    CandsOK [Cand.init] ∧ CandsOK (accept hasCmd cs e) ∧ CandsOK (finish hasCmd cs) :=
  ⟨init_cands_ok, accept_ok hasCmd e cs [] h (by intro x hx; cases hx), finish_ok hasCmd h⟩

/-- the acceptor accepts the beginning of a real trace and rejects an entry that no model step explains -/
example : (accept true [Cand.init] (.GL [108, 115])).length = 1 ∧
    accept true (accept true [Cand.init] (.GL [108, 115])) (.GH [108, 115] []) = [] ∧
    accept true [Cand.init] (.LS [108, 115] []) = [] := by decide

/-! ## The property at full strength -/

/-- C30: (a) for every code, every in-bounds region list and every outcome of
the sort, the highlighted text — immediate or restyled late — consists of
exactly that code; (b) in every reachable state of the highlighter, under every
interleaving, the cache holds a text for its own code, every text `Get` returns
consists of exactly the code asked for and was computed for it, and every late
result that was stored was computed for the code cached at that moment. -/
def C30_full : Prop :=
  (∀ (code : Bytes) (hasCmd : Bool) (regions sorted : List Region),
    (∀ r ∈ regions, InBounds code.length r) → SortedPerm regions sorted →
    ∃ t cmds, highlight code hasCmd sorted = .ok (t, cmds) ∧ plain t = code ∧
      ∀ answers, ∃ t', restyle t cmds answers = .ok t' ∧ plain t' = code) ∧
  (∀ s, Reachable s →
    plain s.styled = s.code ∧ s.origin = s.code ∧
    (∀ asked text origin, Obs.shown asked text origin ∈ s.log → plain text = asked ∧ origin = asked) ∧
    (∀ origin cached text, Obs.lateStored origin cached text ∈ s.log → origin = cached ∧ plain text = cached))

theorem C30_never_changes_text_never_stale : C30_full := by
  constructor
  · intro code hc regions sorted hin hs
    obtain ⟨t, cmds, e, _, hp, _⟩ := C30_highlight_total_lossless code hc regions sorted hin hs
    exact ⟨t, cmds, e, hp, fun answers => C30_late_restyle_no_panic code hc sorted t cmds answers e⟩
  · intro s hr
    obtain ⟨h1, _, h3, _⟩ := C30_cache_invariant s hr
    refine ⟨h1, h3, ?_, (C30_late_deliveries_in_log s hr).1⟩
    intro a t o hm
    obtain ⟨h1, h2, _⟩ := C30_shown_is_for_asked_code s hr a o t hm
    exact ⟨h1, h2⟩

/-! ## Non-vacuity of (3): a concrete ABA execution

`Get("ls")` (timer first: late result in flight), `Get("x")` with no lookup
pending, `Get("ls")` again (late text returned directly, answer `false`), then
the FIRST computation's late result is delivered with answer `true` and stored,
because the cache holds `ls` again. -/

def C30_demo_regions_ls : List Region := [⟨0, 2, .semantic, commandRegion⟩, ⟨0, 2, .lexical, [98, 97, 114, 101, 119, 111, 114, 100]⟩]
def C30_demo_labels : List Label :=
  [.getLock [108, 115], .getMiss { hasCmd := true, sorted := C30_demo_regions_ls, fast := none },
   .getLock [120], .getMiss { hasCmd := true, sorted := [⟨0, 1, .lexical, []⟩], fast := none },
   .getLock [108, 115], .getMiss { hasCmd := true, sorted := C30_demo_regions_ls, fast := some [false] },
   .lateLock 0, .lateStore [true], .getLock [108, 115], .getHit]

def C30_demo_run : List Label → State → Option State
  | [], s => some s
  | l :: ls, s => (step s l).bind (C30_demo_run ls)

theorem C30_demo_reachable : ∀ (ls : List Label) (s s' : State), Reachable s → C30_demo_run ls s = some s' → Reachable s' := by
  intro ls
  induction ls with
  | nil => intro s s' hr h; simp only [C30_demo_run, Option.some.injEq] at h; subst h; exact hr
  | cons l ls ih =>
    intro s s' hr h
    simp only [C30_demo_run] at h
    cases hs : step s l with
    | none => rw [hs] at h; cases h
    | some s1 => rw [hs] at h; exact ih s1 s' (Reachable.step l hr hs) h

example : ∃ s, Reachable s ∧ C30_demo_run C30_demo_labels init = some s ∧
    s.code = [108, 115] ∧ s.styled = [⟨{ fg := .green }, [108, 115]⟩] ∧
    s.log.head? = some (.shown [108, 115] [⟨{ fg := .green }, [108, 115]⟩] [108, 115]) ∧
    Obs.lateStored [108, 115] [108, 115] [⟨{ fg := .green }, [108, 115]⟩] ∈ s.log := by
  have h : (C30_demo_run C30_demo_labels init).isSome = true := by decide
  obtain ⟨s, hs⟩ := Option.isSome_iff_exists.mp h
  refine ⟨s, C30_demo_reachable _ _ _ Reachable.init hs, hs, ?_⟩
  have e : C30_demo_run C30_demo_labels init = some s := hs
  have d : ∀ s0, C30_demo_run C30_demo_labels init = some s0 →
      s0.code = [108, 115] ∧ s0.styled = [⟨{ fg := .green }, [108, 115]⟩] ∧
      s0.log.head? = some (.shown [108, 115] [⟨{ fg := .green }, [108, 115]⟩] [108, 115]) ∧
      Obs.lateStored [108, 115] [108, 115] [⟨{ fg := .green }, [108, 115]⟩] ∈ s0.log := by
    decide
  exact d s e
