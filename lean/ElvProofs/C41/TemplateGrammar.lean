/-
C41 helper lemmas: the reading of templates.  `tokenize` and the grammar
`renderToks` are inverse to each other between ALL templates and the NORMAL
token lists: every template is the rendering of its tokens, and a normal token
list is what its rendering is read as.
-/
import ElvProofs.C41.Template
namespace C41
open Go

theorem renderToks_append (a b : List Tok) : renderToks (a ++ b) = renderToks a ++ renderToks b := by
  induction a with
  | nil => rfl
  | cons t a ih => simp [renderToks, ih, List.append_assoc]

theorem renderToks_litTok (b : Bytes) : renderToks (litTok b) = b := by
  unfold litTok
  split
  · rename_i h; simp [h, renderToks]
  · simp [renderToks, Tok.render]

theorem take_getElem_drop {α} : ∀ (l : List α) (i : Nat) (c : α), l[i]? = some c →
    l = l.take i ++ c :: l.drop (i + 1)
  | [], _, _, h => by simp at h
  | a :: l, 0, c, h => by simp at h; simp [h]
  | a :: l, i + 1, c, h => by
    have := take_getElem_drop l i c (by simpa using h)
    simp only [List.take_succ_cons, List.drop_succ_cons, List.cons_append]
    rw [← this]

/-! ### every template is the rendering of its tokens -/

theorem renderToks_tokenizeLoop (isName : Rune → Bool) :
    ∀ (fuel : Nat) (t : Bytes), t.length < fuel → renderToks (tokenizeLoop isName fuel t) = t
  | 0, _, hf => by omega
  | fuel + 1, t, hf => by
    unfold tokenizeLoop
    cases hc : cutDollar t with
    | none => exact renderToks_litTok t
    | some p =>
      obtain ⟨before, after⟩ := p
      obtain ⟨ht, _⟩ := cutDollar_some hc
      have hlen : t.length = before.length + 1 + after.length := by rw [ht]; simp; omega
      simp only [renderToks_append, renderToks_litTok]
      rw [ht]
      congr 1
      split
      · rename_i t'
        simp only [renderToks, Tok.render]
        rw [renderToks_tokenizeLoop isName fuel t' (by simp at hlen; omega)]
        rfl
      · cases he : extract isName after with
        | none =>
          simp only [renderToks, Tok.render]
          rw [renderToks_tokenizeLoop isName fuel after (by omega)]
          rfl
        | some q =>
          obtain ⟨name, num, rest⟩ := q
          have hr := extract_rest_le he
          obtain ⟨brace, str, hs, hh, _, hname, _, hrest⟩ := extract_some he
          simp only [renderToks]
          rw [renderToks_tokenizeLoop isName fuel rest (by omega)]
          cases brace
          · simp only [Bool.false_eq_true, if_false] at hs hrest
            have : decide (after.head? = some 123) = false := by simpa using hh rfl
            rw [this]
            simp only [Tok.render, List.cons_append]
            rw [hname, hrest, List.take_append_drop, hs]
          · simp only [if_true] at hs hrest
            have : decide (after.head? = some 123) = true := by simp [hs]
            rw [this]
            simp only [Tok.render, List.cons_append, List.append_assoc]
            rw [hs, hname, hrest.2]
            congr 2
            exact (take_getElem_drop str _ 125 hrest.1).symm

/-! ### a normal token list is what its rendering is read as -/

theorem cutDollar_append (b x : Bytes) (h : noDollar b = true) : cutDollar (b ++ 36 :: x) = some (b, x) := by
  induction b with
  | nil => simp [cutDollar]
  | cons c b ih =>
    simp only [noDollar, List.all_cons, Bool.and_eq_true, decide_eq_true_eq] at h
    have := ih (by simpa [noDollar] using h.2)
    simp [cutDollar, h.1, this]

theorem cutDollar_noDollar (b : Bytes) (h : noDollar b = true) : cutDollar b = none := by
  induction b with
  | nil => rfl
  | cons c b ih =>
    simp only [noDollar, List.all_cons, Bool.and_eq_true, decide_eq_true_eq] at h
    have := ih (by simpa [noDollar] using h.2)
    simp [cutDollar, h.1, this]

theorem extract_unbraced (isName : Rune → Bool) (s : Bytes) (hne : s ≠ []) (hh : s.head? ≠ some 123)
    (hi : scanName isName s.length s ≠ 0) :
    extract isName s = some (s.take (scanName isName s.length s), refNum (s.take (scanName isName s.length s)),
      s.drop (scanName isName s.length s)) := by
  cases s with
  | nil => exact absurd rfl hne
  | cons c0 t0 =>
    have hc : ¬ c0 = 123 := by simpa using hh
    unfold extract
    simp only [hc, if_false]
    rw [if_neg hi]

theorem extract_braced (isName : Rune → Bool) (str : Bytes)
    (hi : scanName isName str.length str ≠ 0) (hc : str[scanName isName str.length str]? = some 125) :
    extract isName (123 :: str) = some (str.take (scanName isName str.length str),
      refNum (str.take (scanName isName str.length str)), str.drop (scanName isName str.length str + 1)) := by
  unfold extract
  simp only [if_true]
  rw [if_neg hi, if_pos hc]

theorem tokenizeLoop_lit_prefix (isName : Rune → Bool) (fuel : Nat) (b x : Bytes) (h : noDollar b = true) :
    tokenizeLoop isName (fuel + 1) (b ++ 36 :: x) = litTok b ++ tokenizeLoop isName (fuel + 1) (36 :: x) := by
  conv => lhs; unfold tokenizeLoop
  conv => rhs; unfold tokenizeLoop
  rw [cutDollar_append b x h]
  simp [cutDollar, litTok]

theorem tokenizeLoop_renderToks (isName : Rune → Bool) :
    ∀ (toks : List Tok) (fuel : Nat), NormalToks isName toks → (renderToks toks).length < fuel →
      tokenizeLoop isName fuel (renderToks toks) = toks
  | _, 0, _, hf => by omega
  | [], fuel + 1, _, _ => by simp [renderToks, tokenizeLoop, cutDollar, litTok]
  | .lit b :: l, fuel + 1, hn, hf => by
    obtain ⟨hb, hnd, hl, hn'⟩ := hn
    have hlen : (renderToks l).length < fuel + 1 := by
      simp [renderToks, Tok.render] at hf; omega
    have ih := tokenizeLoop_renderToks isName l (fuel + 1) hn' hlen
    have hlit : litTok b = [.lit b] := by simp [litTok, hb]
    cases l with
    | nil =>
      simp only [renderToks, Tok.render, List.append_nil]
      unfold tokenizeLoop
      rw [cutDollar_noDollar b hnd, hlit]
    | cons t l' =>
      have hstart : ∃ x, renderToks (t :: l') = 36 :: x := by
        cases t with
        | lit _ => exact absurd hl (by simp)
        | dollar => exact ⟨_, rfl⟩
        | raw => exact ⟨_, rfl⟩
        | ref br n => cases br <;> exact ⟨_, rfl⟩
      obtain ⟨x, hx⟩ := hstart
      simp only [renderToks.eq_2 (.lit b), Tok.render]
      rw [hx] at ih ⊢
      rw [tokenizeLoop_lit_prefix isName fuel b x hnd, ih, hlit]
      rfl
  | .dollar :: l, fuel + 1, hn, hf => by
    have hlen : (renderToks l).length < fuel := by
      simp [renderToks, Tok.render] at hf; omega
    have ih := tokenizeLoop_renderToks isName l fuel hn hlen
    simp only [renderToks, Tok.render]
    unfold tokenizeLoop
    simp [cutDollar, litTok, ih]
  | .raw :: l, fuel + 1, hn, hf => by
    obtain ⟨h36, hex, hn'⟩ := hn
    have hlen : (renderToks l).length < fuel := by
      simp [renderToks, Tok.render] at hf; omega
    have ih := tokenizeLoop_renderToks isName l fuel hn' hlen
    simp only [renderToks, Tok.render]
    unfold tokenizeLoop
    simp only [List.cons_append, List.nil_append, cutDollar, if_true, litTok]
    split
    · rename_i t' heq
      rw [heq] at h36
      exact absurd rfl h36
    · rw [hex, ih]
  | .ref false n :: l, fuel + 1, hn, hf => by
    obtain ⟨h123, h36, ⟨hne, hscan⟩, hn'⟩ := hn
    have hlen : (renderToks l).length < fuel := by
      simp [renderToks, Tok.render] at hf; omega
    have ih := tokenizeLoop_renderToks isName l fuel hn' hlen
    obtain ⟨c, n', rfl⟩ := List.exists_cons_of_ne_nil hne
    have hc36 : ¬ c = 36 := by simpa using h36
    have hc123 : ¬ c = 123 := by simpa using h123
    simp only [renderToks, Tok.render]
    unfold tokenizeLoop
    simp only [List.cons_append, cutDollar, if_true, litTok]
    have hex := extract_unbraced isName (c :: n' ++ renderToks l) (by simp) (by simpa using hc123)
      (by rw [hscan]; simp)
    rw [hscan] at hex
    simp only [List.take_left', List.drop_left'] at hex
    split
    · rename_i t' heq
      injection heq with h1 _
      exact absurd h1 hc36
    · simp only [List.cons_append] at hex
      rw [hex]
      simp [hc123, ih]
  | .ref true n :: l, fuel + 1, hn, hf => by
    obtain ⟨⟨hne, hscan⟩, hn'⟩ := hn
    have hlen : (renderToks l).length < fuel := by
      simp [renderToks, Tok.render] at hf; omega
    have ih := tokenizeLoop_renderToks isName l fuel hn' hlen
    simp only [renderToks, Tok.render]
    unfold tokenizeLoop
    simp only [List.cons_append, List.append_assoc, cutDollar, if_true, litTok]
    have hex := extract_braced isName (n ++ 125 :: renderToks l)
      (by rw [hscan]; exact fun h => hne (List.length_eq_zero_iff.mp h))
      (by rw [hscan]; simp)
    rw [hscan] at hex
    have hd : List.drop (n.length + 1) (n ++ 125 :: renderToks l) = renderToks l := by
      rw [← List.drop_drop]; simp
    simp only [List.take_left', hd] at hex
    simp only [List.nil_append]
    rw [hex]
    simp [ih]

end C41
