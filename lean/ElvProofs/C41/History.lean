/-
C41 helper lemmas: history independence of `makePattern` (fresh object per call).
-/
import ElvModel.C41.History
namespace C41
open Go

theorem setLongest_append_new (h : Heap) (o : ReObj) :
    setLongest (h ++ [o]) h.length = h ++ [{ o with longest := true }] := by
  induction h with
  | nil => rfl
  | cons a h ih => simp [setLongest, ih]

theorem getElem?_append_new (h : Heap) (o : ReObj) : (h ++ [o])[h.length]? = some o := by
  simp

/-- the builtin's result does not depend on the heap -/
theorem withPatternH_eq {β : Type} (E : Engine) (h : Heap) (p : Bytes) (posix longest : Bool) (src : Bytes)
    (bad nilDeref : β) (k : List Match → β) :
    (withPatternH E h p posix longest src bad nilDeref k).2 = withPattern E p posix longest src bad k := by
  unfold withPatternH makePatternH compileH withPattern
  cases hp : E.patOk p posix with
  | false => simp
  | true =>
    simp only [if_true]
    cases longest with
    | false => simp
    | true => simp [setLongest_append_new]

end C41
