/-
C41 helper lemmas: Regexp.Split as a function of the match list.
-/
import ElvProofs.C41.Re
namespace C41
open Go

/-- the loop of `Regexp.Split` for `n < 0`, with total slices -/
def splitSpecLoop (src : Bytes) : Int → Int → List Match → List Bytes
  | beg, end_, [] => if end_ ≠ src.length then [sub src beg src.length] else []
  | beg, _, m :: rest =>
    match m with
    | s :: e :: _ => (if e ≠ 0 then [sub src beg s] else []) ++ splitSpecLoop src e s rest
    | _ => []

theorem reSplitLoop_ok (src : Bytes) (n : Int) (hn : n < 0) :
    ∀ (full : List Match) (beg end_ : Int) (acc : List Bytes),
      (∀ m ∈ full, MatchOk src.length m) → Asc beg full → 0 ≤ beg → beg ≤ src.length →
      reSplitLoop src n full beg end_ acc = .ok (acc ++ splitSpecLoop src beg end_ full)
  | [], beg, end_, acc, _, _, h0, h1 => by
    unfold reSplitLoop splitFinish splitSpecLoop
    by_cases he : end_ = src.length
    · simp [he, pure]
    · simp [he, slice_ok src beg src.length h0 h1 (Int.le_refl _), bind, Res.bind, pure]
  | m :: rest, beg, end_, acc, hm, ha, h0, _ => by
    have hmo := hm m (by simp)
    rcases m with _ | ⟨s, _ | ⟨e, gs⟩⟩
    · simp [MatchOk] at hmo
    · simp [MatchOk] at hmo
    · obtain ⟨⟨hs0, hse, he⟩, _⟩ := hmo
      obtain ⟨hl, _, ha'⟩ := ha
      have hng : ¬ (n > 0 ∧ (acc.length : Int) ≥ n - 1) := by omega
      unfold reSplitLoop
      rw [if_neg hng]
      by_cases he0 : e = 0
      · have ih := reSplitLoop_ok src n hn rest e s acc (fun x hx => hm x (by simp [hx])) ha' (by omega) he
        simp [index, bind, Res.bind, pure, he0, splitSpecLoop] at ih ⊢
        exact ih
      · have ih := reSplitLoop_ok src n hn rest e s (acc ++ [sub src beg s])
          (fun x hx => hm x (by simp [hx])) ha' (by omega) he
        simp [index, bind, Res.bind, pure, he0, splitSpecLoop,
          slice_ok src beg s h0 hl (by omega)] at ih ⊢
        exact ih

theorem gaps_ne_nil (src : Bytes) : ∀ (full : List Match) (last : Int),
    (∀ m ∈ full, MatchOk src.length m) → gaps src last full ≠ []
  | [], _, _ => by simp [gaps]
  | m :: rest, last, hm => by
    have hmo := hm m (by simp)
    rcases m with _ | ⟨s, _ | ⟨e, gs⟩⟩
    · simp [MatchOk] at hmo
    · simp [MatchOk] at hmo
    · simp [gaps]

theorem dropLast_cons_of_ne_nil {α} (x : α) {l : List α} (h : l ≠ []) :
    (x :: l).dropLast = x :: l.dropLast := by
  cases l with
  | nil => exact absurd rfl h
  | cons y l => rfl

/-- when no match ends at 0 the loop yields the gaps, minus the last one if the
last match starts at the end -/
theorem splitSpecLoop_gaps (src : Bytes) : ∀ (full : List Match) (beg end_ prev : Int),
    (∀ m ∈ full, MatchOk src.length m) → EndsIncrease prev full → 0 ≤ prev →
    splitSpecLoop src beg end_ full =
      if lastStart end_ full = src.length then (gaps src beg full).dropLast else gaps src beg full
  | [], beg, end_, _, _, _, _ => by
    by_cases h : end_ = src.length <;> simp [splitSpecLoop, gaps, lastStart, h]
  | m :: rest, beg, end_, prev, hm, hs, hp => by
    have hmo := hm m (by simp)
    rcases m with _ | ⟨s, _ | ⟨e, gs⟩⟩
    · simp [MatchOk] at hmo
    · simp [MatchOk] at hmo
    · obtain ⟨hpe, hs'⟩ := hs
      have he0 : e ≠ 0 := by omega
      have hm' : ∀ x ∈ rest, MatchOk src.length x := fun x hx => hm x (by simp [hx])
      have ih := splitSpecLoop_gaps src rest e s e hm' hs' (by omega)
      have hne := gaps_ne_nil src rest e hm'
      simp only [splitSpecLoop, gaps, lastStart, if_pos he0, ih]
      by_cases hl : lastStart s rest = src.length
      · simp [hl, dropLast_cons_of_ne_nil _ hne]
      · simp [hl]

theorem regexpSplit_pieces (exprEmpty : Bool) (src : Bytes) (n : Int) (full : List Match)
    (hn : n < 0) (hc : EngineOk src.length full) (hne : exprEmpty = true ∨ src ≠ []) :
    regexpSplit exprEmpty src n full = .ok (piecesSpec src full) := by
  unfold regexpSplit
  rw [if_neg (by omega)]
  have h2 : ¬ ((!exprEmpty) = true ∧ src.isEmpty = true) := by
    rcases hne with h | h
    · simp [h]
    · simp [h]
  rw [if_neg h2]
  have htm : takeMax full n = full := by simp [takeMax, hn]
  rw [htm, reSplitLoop_ok src n hn full 0 0 [] hc.shape hc.asc (Int.le_refl _) (by omega)]
  simp only [List.nil_append]
  congr 1
  unfold piecesSpec
  cases full with
  | nil => by_cases h : (0 : Int) = src.length <;> simp [splitSpecLoop, gaps, lastStart, h]
  | cons m rest =>
    have hmo := hc.shape m (by simp)
    rcases m with _ | ⟨s, _ | ⟨e, gs⟩⟩
    · simp [MatchOk] at hmo
    · simp [MatchOk] at hmo
    · obtain ⟨hpe, hs'⟩ := hc.strict
      obtain ⟨⟨hs0, hse, _⟩, _⟩ := hmo
      have hm' : ∀ x ∈ rest, MatchOk src.length x := fun x hx => hc.shape x (by simp [hx])
      have ih := splitSpecLoop_gaps src rest e s e hm' hs' (by omega)
      have hne' := gaps_ne_nil src rest e hm'
      simp only [splitSpecLoop, gaps, lastStart, ih]
      by_cases he0 : e = 0
      · subst he0
        by_cases hl : lastStart s rest = src.length
        · simp [hl, dropLast_cons_of_ne_nil _ hne']
        · simp [hl]
      · by_cases hl : lastStart s rest = src.length
        · simp [he0, hl, dropLast_cons_of_ne_nil _ hne']
        · simp [he0, hl]

end C41
