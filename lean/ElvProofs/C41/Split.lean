/-
C41 helper lemmas: strings.Index / SplitN / explode and elvish's join.
-/
import ElvModel.C41.Spec
import ElvProofs.Lemmas.Utf8
namespace C41
open Go

theorem strIndex_spec {s sub : Bytes} {m : Nat} (h : strIndex s sub = some m) :
    s = s.take m ++ sub ++ s.drop (m + sub.length) := by
  induction s generalizing m with
  | nil =>
    unfold strIndex at h
    split at h
    · rename_i hp
      have : sub = [] := by simpa using hp
      subst this; simp
    · simp at h
  | cons b t ih =>
    unfold strIndex at h
    split at h
    · rename_i hp
      injection h with h; subst h
      obtain ⟨r, hr⟩ := List.isPrefixOf_iff_prefix.mp hp
      rw [← hr]; simp
    · simp only [Option.map_eq_some_iff] at h
      obtain ⟨m', hm', rfl⟩ := h
      have := ih hm'
      simp only [List.take_succ_cons, List.cons_append]
      rw [show m' + 1 + sub.length = (m' + sub.length) + 1 by omega, List.drop_succ_cons]
      exact congrArg (b :: ·) this

theorem intercal_cons_cons (sep x y : Bytes) (l : List Bytes) :
    intercal sep (x :: y :: l) = x ++ sep ++ intercal sep (y :: l) := rfl

theorem splitLoop_ne_nil (sep : Bytes) (n : Nat) (s : Bytes) : splitLoop sep n s ≠ [] := by
  cases n with
  | zero => simp [splitLoop]
  | succ n => unfold splitLoop; split <;> simp

theorem intercal_splitLoop (sep : Bytes) (n : Nat) (s : Bytes) :
    intercal sep (splitLoop sep n s) = s := by
  induction n generalizing s with
  | zero => simp [splitLoop, intercal]
  | succ n ih =>
    unfold splitLoop
    split
    · simp [intercal]
    · rename_i m hm
      have hne := splitLoop_ne_nil sep n (s.drop (m + sep.length))
      have h := ih (s.drop (m + sep.length))
      cases hr : splitLoop sep n (s.drop (m + sep.length)) with
      | nil => exact absurd hr hne
      | cons y l =>
        rw [hr] at h
        rw [intercal_cons_cons, h]
        exact (strIndex_spec hm).symm

theorem explodeLoop_ne_nil (k : Nat) (s : Bytes) : explodeLoop k s ≠ [] := by
  cases k <;> simp [explodeLoop]

theorem intercal_explodeLoop (k : Nat) (s : Bytes) : intercal [] (explodeLoop k s) = s := by
  induction k generalizing s with
  | zero => simp [explodeLoop, intercal]
  | succ k ih =>
    simp only [explodeLoop]
    have hne := explodeLoop_ne_nil k (s.drop (decodeRune s).2)
    have h := ih (s.drop (decodeRune s).2)
    cases hr : explodeLoop k (s.drop (decodeRune s).2) with
    | nil => exact absurd hr hne
    | cons y l =>
      rw [hr] at h
      rw [intercal_cons_cons, h]; simp

/-- the buffer of `joinLoop` after the first element: every further string is
preceded by the separator -/
theorem joinLoop_strs (sep : Bytes) (l : List Bytes) (buf : Bytes) :
    joinLoop sep (l.map Val.str) buf false = .ok (buf ++ l.flatMap (sep ++ ·)) := by
  induction l generalizing buf with
  | nil => simp [joinLoop]
  | cons x l ih => simp [joinLoop, ih, List.append_assoc]

theorem intercal_cons (sep x : Bytes) (l : List Bytes) :
    intercal sep (x :: l) = x ++ l.flatMap (sep ++ ·) := by
  induction l generalizing x with
  | nil => simp [intercal]
  | cons y l ih => rw [intercal_cons_cons, ih]; simp [List.append_assoc]

theorem join_strs (sep : Bytes) (l : List Bytes) :
    join sep (l.map Val.str) = .ok (intercal sep l) := by
  cases l with
  | nil => simp [join, joinLoop, intercal]
  | cons x l =>
    simp only [join, List.map_cons, joinLoop, if_true]
    rw [joinLoop_strs, intercal_cons]; simp

/-- a non-string input: the exception names the kind of the FIRST one -/
theorem join_type_error (sep : Bytes) (pre : List Bytes) (k : String) (rest : List Val) :
    join sep (pre.map Val.str ++ Val.other k :: rest) =
      .exc (badValue "input to str:join" "string" k) := by
  have : ∀ (buf : Bytes) (first : Bool),
      joinLoop sep (pre.map Val.str ++ Val.other k :: rest) buf first =
        .exc (badValue "input to str:join" "string" k) := by
    induction pre with
    | nil => intro buf first; simp [joinLoop]
    | cons x l ih => intro buf first; simp [joinLoop, ih]
  exact this _ _

theorem intercal_splitN (s sep : Bytes) (n : Int) (hn : n ≠ 0) :
    intercal sep (splitN s sep n) = s := by
  unfold splitN
  rw [if_neg hn]
  split
  · rename_i hsep
    have hsep : sep = [] := by simpa using hsep
    subst hsep
    have key : ∀ k : Nat, (k = 0 → s = []) →
        intercal [] (if k = 0 then [] else explodeLoop (k - 1) s) = s := by
      intro k hk
      by_cases h0 : k = 0
      · simp [h0, hk h0, intercal]
      · rw [if_neg h0]; exact intercal_explodeLoop _ _
    have hz : runeCount s = 0 → s = [] := fun hl =>
      (runes_eq_nil_iff s).mp (List.length_eq_zero_iff.mp hl)
    unfold explode
    simp only
    by_cases hc : n < 0 ∨ n > (runeCount s : Int)
    · rw [if_pos hc]; exact key _ hz
    · rw [if_neg hc]; exact key _ (fun h => by omega)
  · exact intercal_splitLoop _ _ _

end C41
