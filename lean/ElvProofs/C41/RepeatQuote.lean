/-
C41 helper lemmas: str:repeat (overflow guard) and regexp.QuoteMeta.
-/
import ElvModel.C41.Spec
namespace C41
open Go

theorem length_flatten_replicate (k : Nat) (s : Bytes) :
    (List.replicate k s).flatten.length = k * s.length := by
  induction k with
  | zero => simp
  | succ k ih => simp [List.replicate_succ, ih, Nat.succ_mul, Nat.add_comm]

/-- `strings.Repeat` does not panic when the product fits. -/
theorem stringsRepeat_ok (s : Bytes) (n : Int) (_h0 : 0 ≤ n) (h : (s.length : Int) * n ≤ maxInt) :
    stringsRepeat s n = .ok (List.replicate n.toNat s).flatten := by
  unfold stringsRepeat
  by_cases h1 : n = 0
  · simp [h1]
  by_cases h2 : n = 1
  · simp [h2]
  rw [if_neg h1, if_neg h2, if_neg (by omega)]
  have hpos : 0 < n := by omega
  have hle : (s.length : Int) ≤ maxInt / n := (Int.le_ediv_iff_mul_le hpos).mpr h
  rw [if_neg (by omega)]
  by_cases hs : s = []
  · subst hs; simp
  · have : s.isEmpty = false := by simpa using hs
    simp [this]

/-- `strings.Repeat` on a platform with allocation limit `maxAlloc`: fine when the
product fits and is within the limit. -/
theorem stringsRepeatA_ok (maxAlloc : Int) (s : Bytes) (n : Int) (_h0 : 0 ≤ n)
    (h : (s.length : Int) * n ≤ maxInt) (ha : (s.length : Int) * n ≤ maxAlloc) :
    stringsRepeatA maxAlloc s n = .ok (List.replicate n.toNat s).flatten := by
  unfold stringsRepeatA
  by_cases h1 : n = 0
  · simp [h1]
  by_cases h2 : n = 1
  · simp [h2]
  rw [if_neg h1, if_neg h2, if_neg (by omega)]
  have hpos : 0 < n := by omega
  have hle : (s.length : Int) ≤ maxInt / n := (Int.le_ediv_iff_mul_le hpos).mpr h
  rw [if_neg (by omega)]
  by_cases hs : s = []
  · subst hs; simp
  · have : s.isEmpty = false := by simpa using hs
    simp only [this, Bool.false_eq_true, if_false]
    rw [if_neg (by omega)]

theorem wrap64_id (x : Int) (h0 : 0 ≤ x) (h1 : x ≤ maxInt) : wrap64 x = x := by
  unfold wrap64
  unfold maxInt at h1
  omega

theorem guard_iff (s : Bytes) (n : Int) (h0 : 0 ≤ n) :
    (s.length > 0 ∧ n > maxInt / (s.length : Int)) ↔ (s.length : Int) * n > maxInt := by
  constructor
  · rintro ⟨hp, hg⟩
    have hp' : (0 : Int) < s.length := by omega
    have : ¬ n ≤ maxInt / (s.length : Int) := by omega
    rw [Int.le_ediv_iff_mul_le hp'] at this
    rw [Int.mul_comm]; omega
  · intro h
    have hp : s.length > 0 := by
      rcases Nat.eq_zero_or_pos s.length with hz | hp
      · rw [hz] at h; simp [maxInt] at h
      · exact hp
    have hp' : (0 : Int) < s.length := by omega
    refine ⟨hp, ?_⟩
    have : ¬ n ≤ maxInt / (s.length : Int) := by
      rw [Int.le_ediv_iff_mul_le hp', Int.mul_comm]; omega
    omega

/-! ### QuoteMeta -/

theorem special_92 : special 92 = true := by decide

theorem hasUnescapedMeta_esc (c : UInt8) (t : Bytes) :
    hasUnescapedMeta (92 :: c :: t) = hasUnescapedMeta t := by
  simp [hasUnescapedMeta]

theorem hasUnescapedMeta_plain (b : UInt8) (t : Bytes) (h : b ≠ 92) :
    hasUnescapedMeta (b :: t) = (special b || hasUnescapedMeta t) := by
  cases t <;> simp [hasUnescapedMeta, h]

theorem unquote_esc (c : UInt8) (t : Bytes) : unquote (92 :: c :: t) = c :: unquote t := by
  simp [unquote]

theorem unquote_plain (b : UInt8) (t : Bytes) (h : b ≠ 92) : unquote (b :: t) = b :: unquote t := by
  cases t <;> simp [unquote, h]

theorem hasUnescapedMeta_quoteMeta (s : Bytes) : hasUnescapedMeta (quoteMeta s) = false := by
  induction s with
  | nil => simp [quoteMeta, hasUnescapedMeta]
  | cons b t ih =>
    unfold quoteMeta
    split
    · rw [hasUnescapedMeta_esc, ih]
    · rename_i hb
      have hne : b ≠ 92 := by
        intro h; subst h; exact hb special_92
      rw [hasUnescapedMeta_plain b _ hne, ih]; simp [hb]

theorem unquote_quoteMeta (s : Bytes) : unquote (quoteMeta s) = s := by
  induction s with
  | nil => simp [quoteMeta, unquote]
  | cons b t ih =>
    unfold quoteMeta
    split
    · rw [unquote_esc, ih]
    · rename_i hb
      have hne : b ≠ 92 := by
        intro h; subst h; exact hb special_92
      rw [unquote_plain b _ hne, ih]

/-- every byte of the quoted pattern is a byte of the text or a backslash -/
theorem quoteMeta_length (s : Bytes) :
    (quoteMeta s).length = s.length + (s.filter special).length := by
  induction s with
  | nil => simp [quoteMeta]
  | cons b t ih =>
    unfold quoteMeta
    by_cases hb : special b = true <;> simp [hb, ih] <;> omega

end C41
