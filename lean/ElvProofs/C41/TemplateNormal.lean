/-
C41 helper lemmas: the tokenizer's output is a NORMAL token list.
-/
import ElvProofs.C41.TemplateGrammar
import ElvProofs.Lemmas.Utf8.Basic
namespace C41
open Go

theorem scanName_le (isName : Rune → Bool) : ∀ (f : Nat) (s : Bytes), scanName isName f s ≤ s.length
  | 0, _ => by simp [scanName]
  | f + 1, [] => by simp [scanName]
  | f + 1, c :: t => by
    unfold scanName
    simp only
    split
    · have h1 := decodeRune_size_le (c :: t)
      have h2 := scanName_le isName f ((c :: t).drop (decodeRune (c :: t)).2)
      simp only [List.length_drop] at h2
      omega
    · omega

theorem normal_litTok_append (isName : Rune → Bool) (b : Bytes) (l : List Tok) (hb : noDollar b = true)
    (hl : match l with | .lit _ :: _ => False | _ => True) (hn : NormalToks isName l) :
    NormalToks isName (litTok b ++ l) := by
  unfold litTok
  split
  · simpa using hn
  · rename_i hne
    exact ⟨hne, hb, hl, hn⟩

theorem normal_tokenizeLoop (isName : Rune → Bool) :
    ∀ (fuel : Nat) (t : Bytes), t.length < fuel → NormalToks isName (tokenizeLoop isName fuel t)
  | 0, _, hf => by omega
  | fuel + 1, t, hf => by
    unfold tokenizeLoop
    cases hc : cutDollar t with
    | none =>
      have := normal_litTok_append isName t [] (cutDollar_none hc) trivial trivial
      simpa using this
    | some p =>
      obtain ⟨before, after⟩ := p
      obtain ⟨ht, hnd⟩ := cutDollar_some hc
      have hlen : t.length = before.length + 1 + after.length := by rw [ht]; simp; omega
      simp only
      split
      · rename_i t'
        exact normal_litTok_append isName before _ hnd trivial
          (normal_tokenizeLoop isName fuel t' (by simp at hlen; omega))
      · rename_i hno36
        cases he : extract isName after with
        | none =>
          refine normal_litTok_append isName before _ hnd trivial ⟨?_, ?_, normal_tokenizeLoop isName fuel after (by omega)⟩
          · rw [renderToks_tokenizeLoop isName fuel after (by omega)]
            intro h
            cases after with
            | nil => simp at h
            | cons c a => simp at h; subst h; exact hno36 a rfl
          · rw [renderToks_tokenizeLoop isName fuel after (by omega)]; exact he
        | some q =>
          obtain ⟨name, num, rest⟩ := q
          have hr := extract_rest_le he
          obtain ⟨brace, str, hs, hh, hi, hname, _, hrest⟩ := extract_some he
          have hile := scanName_le isName str.length str
          have hnl : name.length = scanName isName str.length str := by rw [hname]; simp; omega
          have hne : name ≠ [] := by
            intro h; rw [h] at hnl; simp at hnl; omega
          have hrec := normal_tokenizeLoop isName fuel rest (by omega)
          have hrend := renderToks_tokenizeLoop isName fuel rest (by omega)
          simp only
          cases brace
          · simp only [Bool.false_eq_true, if_false] at hs hrest
            subst hs
            have hd : decide (after.head? = some 123) = false := by simpa using hh rfl
            rw [hd]
            refine normal_litTok_append isName before _ hnd trivial ⟨?_, ?_, ⟨hne, ?_⟩, hrec⟩
            · -- the name starts like `after`, which does not start with `{`
              rw [hname]
              cases after with
              | nil => exact absurd rfl hi
              | cons c a =>
                have : (List.take (scanName isName (c :: a).length (c :: a)) (c :: a)).head? = some c := by
                  cases hsn : scanName isName (c :: a).length (c :: a) with
                  | zero => exact absurd hsn hi
                  | succ k => rfl
                rw [this]
                simpa using hh rfl
            · rw [hname]
              cases after with
              | nil => exact absurd rfl hi
              | cons c a =>
                have : (List.take (scanName isName (c :: a).length (c :: a)) (c :: a)).head? = some c := by
                  cases hsn : scanName isName (c :: a).length (c :: a) with
                  | zero => exact absurd hsn hi
                  | succ k => rfl
                rw [this]
                intro h
                injection h with h
                subst h
                exact hno36 a rfl
            · rw [hrend, hname, hrest, List.take_append_drop, List.length_take]
              omega
          · simp only [if_true] at hs hrest
            have hd : decide (after.head? = some 123) = true := by simp [hs]
            rw [hd]
            refine normal_litTok_append isName before _ hnd trivial ⟨⟨hne, ?_⟩, hrec⟩
            rw [hrend, hname, hrest.2, ← take_getElem_drop str _ 125 hrest.1, List.length_take]
            omega

end C41
