/-
C41 helper lemmas: hex numerals, codepoint and utf8-byte conversions.
-/
import ElvModel.C41.Spec
import ElvProofs.Lemmas.Utf8
namespace C41
open Go

theorem hexVal_hexDigit : ∀ d, d < 16 → hexVal (hexDigit d) = some d := by decide

theorem hexRev_lt (f n : Nat) : ∀ d ∈ hexRev f n, d < 16 := by
  induction f generalizing n with
  | zero => simp [hexRev]
  | succ f ih =>
    unfold hexRev
    split
    · intro d hd; simp at hd; omega
    · intro d hd
      simp only [List.mem_cons] at hd
      rcases hd with rfl | hd
      · omega
      · exact ih _ d hd

theorem hexRev_ne_nil (f n : Nat) : hexRev (f + 1) n ≠ [] := by
  unfold hexRev; split <;> simp

theorem hexRev_eval (f n : Nat) (h : n < 16 ^ f) :
    (hexRev f n).foldr (fun d a => a * 16 + d) 0 = n := by
  induction f generalizing n with
  | zero => simp at h; simp [hexRev, h]
  | succ f ih =>
    unfold hexRev
    split
    · simp
    · have : n / 16 < 16 ^ f := by
        apply Nat.div_lt_of_lt_mul
        rw [Nat.pow_succ] at h; omega
      simp only [List.foldr_cons, ih _ this]
      omega

theorem foldlM_hexDigits (ds : List Nat) (h : ∀ d ∈ ds, d < 16) (acc : Nat) :
    (ds.map hexDigit).foldlM (fun acc c => (hexVal c).map fun d => acc * 16 + d) acc =
      some (ds.foldl (fun a d => a * 16 + d) acc) := by
  induction ds generalizing acc with
  | nil => rfl
  | cons d ds ih =>
    simp only [List.map_cons, List.foldlM_cons, List.foldl_cons]
    rw [hexVal_hexDigit d (h d (by simp))]
    simp only [Option.map_some, Option.bind_eq_bind, Option.bind_some]
    exact ih (fun x hx => h x (by simp [hx])) _

/-- the printed numeral reads back as the number (values below 2^64) -/
theorem parseHexChars_fmtHex (n : Nat) (h : n < 16 ^ 16) : parseHexChars (fmtHex n) = some n := by
  unfold fmtHex hexChars parseHexChars
  have hne : ((hexRev 16 n).reverse.map hexDigit).isEmpty = false := by
    have := hexRev_ne_nil 15 n
    cases hr : hexRev 16 n with
    | nil => exact absurd hr this
    | cons a l => simp
  simp only [hne]
  rw [foldlM_hexDigits _ (fun d hd => hexRev_lt 16 n d (by simpa using hd))]
  rw [List.foldl_reverse]
  simp only [Bool.false_eq_true, if_false]
  exact congrArg some (hexRev_eval 16 n h)

theorem mapM_parse_fmtHex (l : List Nat) (h : ∀ n ∈ l, n < 16 ^ 16) :
    (l.map fmtHex).mapM parseHexChars = some l := by
  induction l with
  | nil => rfl
  | cons a l ih =>
    simp only [List.map_cons, List.mapM_cons]
    rw [parseHexChars_fmtHex a (h a (by simp)), ih (fun n hn => h n (by simp [hn]))]
    rfl

theorem validRune_le {r : Nat} (h : validRune r = true) : r ≤ 0x10FFFF := by
  have := validRune_iff.mp h; omega

/-! ### fromCodepoints -/

/-- acceptable argument of `from-codepoints` -/
def GoodCp (n : Int) : Prop := 0 ≤ n ∧ n ≤ 0x10FFFF ∧ ¬ isSurrogate n

theorem goodCp_validRune {n : Int} (h : GoodCp n) : validRune n.toNat = true := by
  obtain ⟨h0, h1, h2⟩ := h
  simp only [isSurrogate] at h2
  rw [validRune_iff]
  omega

theorem fromCodepointsLoop_good (pre rest : List Int) (h : ∀ n ∈ pre, GoodCp n) (buf : Bytes) :
    fromCodepointsLoop (pre ++ rest) buf =
      fromCodepointsLoop rest (buf ++ encodeRunes (pre.map Int.toNat)) := by
  induction pre generalizing buf with
  | nil => simp [encodeRunes]
  | cons n pre ih =>
    have hn := h n (by simp)
    have hv := goodCp_validRune hn
    obtain ⟨h0, h1, _⟩ := hn
    simp only [List.cons_append, fromCodepointsLoop]
    rw [if_neg (by omega), hv]
    simp only [Bool.not_true, Bool.false_eq_true, if_false]
    rw [ih (fun m hm => h m (by simp [hm]))]
    simp [encodeRunes, List.append_assoc]

theorem fromCodepoints_runes (rs : List Nat) (h : ∀ r ∈ rs, validRune r = true) :
    fromCodepoints (rs.map Int.ofNat) = .ok (encodeRunes rs) := by
  have hg : ∀ n ∈ rs.map Int.ofNat, GoodCp n := by
    intro n hn
    simp only [List.mem_map] at hn
    obtain ⟨r, hr, rfl⟩ := hn
    have hv := h r hr
    have hle := validRune_le hv
    have hv := validRune_iff.mp hv
    refine ⟨by simp, by simp only [Int.ofNat_eq_natCast]; omega, ?_⟩
    simp only [isSurrogate, Int.ofNat_eq_natCast]; omega
  have := fromCodepointsLoop_good (rs.map Int.ofNat) [] hg []
  simp only [List.append_nil, List.nil_append, List.map_map] at this
  unfold fromCodepoints
  rw [this]
  simp [fromCodepointsLoop, Function.comp_def]

/-! ### fromUtf8Bytes -/

theorem fromUtf8BytesLoop_bytes (bs : Bytes) (buf : Bytes) :
    fromUtf8BytesLoop (bs.map fun b => (b.toNat : Int)) buf = fromUtf8BytesLoop [] (buf ++ bs) := by
  induction bs generalizing buf with
  | nil => simp
  | cons b bs ih =>
    simp only [List.map_cons, fromUtf8BytesLoop]
    have hb : b.toNat < 256 := b.toNat_lt
    rw [if_neg (by omega)]
    simp only [Int.toNat_natCast, UInt8.ofNat_toNat]
    rw [ih]; simp [fromUtf8BytesLoop]

theorem mapM_parse_toUtf8Bytes (s : Bytes) :
    (toUtf8Bytes s).mapM parseHexChars = some (s.map UInt8.toNat) := by
  have := mapM_parse_fmtHex (s.map UInt8.toNat) (by
    intro n hn
    simp only [List.mem_map] at hn
    obtain ⟨b, _, rfl⟩ := hn
    have : b.toNat < 256 := b.toNat_lt
    omega)
  simpa [toUtf8Bytes, List.map_map, Function.comp_def] using this

end C41
