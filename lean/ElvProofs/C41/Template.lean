/-
C41 helper lemmas: Go's `Regexp.expand` loop (model `expandLoop`) never panics
and never runs out of fuel under the engine contract, and produces the
concatenation of the token values of the template.
-/
import ElvModel.C41.Template
import ElvProofs.C41.Re
namespace C41
open Go

/-! ### shape lemmas for `cutDollar` / `extract` -/

theorem cutDollar_some {t before after : Bytes} (h : cutDollar t = some (before, after)) :
    t = before ++ 36 :: after ∧ noDollar before = true := by
  induction t generalizing before after with
  | nil => simp [cutDollar] at h
  | cons c t ih =>
    unfold cutDollar at h
    split at h
    · rename_i hc
      injection h with h
      injection h with h1 h2
      subst h1 h2 hc
      exact ⟨rfl, rfl⟩
    · rename_i hc
      cases hcd : cutDollar t with
      | none => simp [hcd] at h
      | some p =>
        obtain ⟨a, b⟩ := p
        simp only [hcd, Option.map_some] at h
        injection h with h
        injection h with h1 h2
        subst h1 h2
        obtain ⟨e, nd⟩ := ih hcd
        refine ⟨by rw [e]; rfl, ?_⟩
        simp only [noDollar, List.all_cons, Bool.and_eq_true, decide_eq_true_eq]
        exact ⟨hc, by simpa [noDollar] using nd⟩

theorem cutDollar_none {t : Bytes} (h : cutDollar t = none) : noDollar t = true := by
  induction t with
  | nil => rfl
  | cons c t ih =>
    unfold cutDollar at h
    split at h
    · simp at h
    · rename_i hc
      cases hcd : cutDollar t with
      | none =>
        simp only [noDollar, List.all_cons, Bool.and_eq_true, decide_eq_true_eq]
        exact ⟨hc, by simpa [noDollar] using ih hcd⟩
      | some p => simp [hcd] at h

theorem extract_some {isName : Rune → Bool} {s name rest : Bytes} {num : Int}
    (h : extract isName s = some (name, num, rest)) :
    ∃ (brace : Bool) (str : Bytes), s = (if brace then 123 :: str else str) ∧
      (brace = false → s.head? ≠ some 123) ∧
      scanName isName str.length str ≠ 0 ∧ name = str.take (scanName isName str.length str) ∧
      num = refNum name ∧
      (if brace then str[scanName isName str.length str]? = some 125 ∧
          rest = str.drop (scanName isName str.length str + 1)
       else rest = str.drop (scanName isName str.length str)) := by
  unfold extract at h
  cases s with
  | nil => simp at h
  | cons c0 t0 =>
    by_cases hb : c0 = 123
    · subst hb
      refine ⟨true, t0, rfl, by simp, ?_⟩
      simp only [if_true] at h
      split at h
      · simp at h
      · rename_i hi
        split at h
        · simp at h
        · rename_i i' hcl
          split at hcl
          · rename_i h125
            injection hcl with hcl
            subst hcl
            injection h with h
            injection h with hn h
            injection h with hnum hrest
            subst hn hnum hrest
            exact ⟨hi, rfl, rfl, by simp [h125]⟩
          · simp at hcl
    · refine ⟨false, c0 :: t0, rfl, by simp [hb], ?_⟩
      simp only [hb, if_false] at h
      split at h
      · simp at h
      · rename_i hi
        injection h with h
        injection h with hn h
        injection h with hnum hrest
        subst hn hnum hrest
        exact ⟨hi, rfl, rfl, by simp⟩

theorem extract_rest_le {isName : Rune → Bool} {s name rest : Bytes} {num : Int}
    (h : extract isName s = some (name, num, rest)) : rest.length ≤ s.length := by
  obtain ⟨brace, str, hs, _, _, _, _, hr⟩ := extract_some h
  cases brace
  · simp only [Bool.false_eq_true, if_false] at hs hr
    subst hs hr; simp
  · simp only [if_true] at hs hr
    rw [hs, hr.2]; simp; omega

theorem extract_num {isName : Rune → Bool} {s name rest : Bytes} {num : Int}
    (h : extract isName s = some (name, num, rest)) : num = refNum name := by
  obtain ⟨_, _, _, _, _, _, hn, _⟩ := extract_some h
  exact hn

/-! ### a match under the contract: every index pair is (-1,-1) or a range -/

theorem groupsOk_pair {len : Nat} : ∀ (k : Nat) (m : Match), GroupsOk len m → 2 * k + 1 < m.length →
    ∃ a b, m[2 * k]? = some a ∧ m[2 * k + 1]? = some b ∧
      ((a = -1 ∧ b = -1) ∨ (0 ≤ a ∧ a ≤ b ∧ b ≤ len))
  | _, [], _, hl => by simp at hl
  | _, [_], h, _ => by simp [GroupsOk] at h
  | 0, s :: e :: rest, h, _ => ⟨s, e, rfl, rfl, h.1⟩
  | k + 1, s :: e :: rest, h, hl => by
    have hl' : 2 * k + 1 < rest.length := by simp at hl; omega
    obtain ⟨a, b, ha, hb, hab⟩ := groupsOk_pair k rest h.2 hl'
    refine ⟨a, b, ?_, ?_, hab⟩
    · rw [show 2 * (k + 1) = 2 * k + 1 + 1 by omega]; simpa using ha
    · rw [show 2 * (k + 1) + 1 = 2 * k + 1 + 1 + 1 by omega]; simpa using hb

theorem matchOk_groupsOk {len : Nat} {m : Match} (h : MatchOk len m) : GroupsOk len m := by
  rcases m with _ | ⟨s, _ | ⟨e, g⟩⟩
  · simp [MatchOk] at h
  · simp [MatchOk] at h
  · exact ⟨Or.inr h.1, h.2⟩

theorem index_ok {α} (l : List α) (i : Nat) (a : α) (h : l[i]? = some a) : index l (i : Int) = .ok a := by
  unfold index
  simp [h]

/-- `appendGroup` under the contract: no panic; appends the group's text if there is one -/
theorem appendGroup_ok (src : Bytes) (m : Match) (k : Nat) (dst : Bytes) (h : GroupsOk src.length m) :
    appendGroup src m (k : Int) dst = .ok ((groupText src m k).map (dst ++ ·)) := by
  unfold appendGroup groupText
  by_cases hl : 2 * k + 1 < m.length
  · obtain ⟨a, b, ha, hb, hab⟩ := groupsOk_pair k m h hl
    have hl' : 2 * (k : Int) + 1 < (m.length : Int) := by omega
    rw [if_pos hl', ha, hb]
    have e1 : (2 * (k : Int)) = ((2 * k : Nat) : Int) := by omega
    have e2 : (2 * (k : Int) + 1) = ((2 * k + 1 : Nat) : Int) := by omega
    have i1 : index m (2 * (k : Int)) = .ok a := by rw [e1]; exact index_ok m _ a ha
    have i2 : index m (2 * (k : Int) + 1) = .ok b := by rw [e2]; exact index_ok m _ b hb
    rcases hab with ⟨rfl, rfl⟩ | ⟨h0, h1, h2⟩
    · simp [bind, Res.bind, pure, i1]
    · simp [bind, Res.bind, pure, h0, i1, i2, slice_ok src a b h0 h1 h2]
  · have hl' : ¬ 2 * (k : Int) + 1 < (m.length : Int) := by omega
    rw [if_neg hl']
    have : m[2 * k + 1]? = none := by simp; omega
    rw [this]
    cases m[2 * k]? <;> rfl

/-- `appendNamed` under the contract -/
theorem appendNamed_ok (src : Bytes) (m : Match) (name : Bytes) (h : GroupsOk src.length m) :
    ∀ (names : List Bytes) (i : Nat) (dst : Bytes),
      appendNamed src m name names (i : Int) dst = .ok (dst ++ namedText src m name names i)
  | [], _, dst => by simp [appendNamed, namedText]
  | namei :: rest, i, dst => by
    have ih := appendNamed_ok src m name h rest (i + 1) dst
    have e : ((i : Int) + 1) = ((i + 1 : Nat) : Int) := by omega
    unfold appendNamed namedText
    by_cases hn : name = namei
    · rw [if_pos hn, if_pos hn, appendGroup_ok src m i dst h]
      cases hg : groupText src m i with
      | none => simp only [Option.map_none, bind, Res.bind]; rw [e]; exact ih
      | some t => simp [bind, Res.bind, pure]
    · rw [if_neg hn, if_neg hn, e]; exact ih

/-! ### the loop -/

theorem flatten_map_litTok (f : Tok → Bytes) (hf : ∀ b, f (.lit b) = b) (b : Bytes) :
    ((litTok b).map f).flatten = b := by
  unfold litTok
  split
  · rename_i h; simp [h]
  · simp [hf]

/-- Go's `expand` loop: under the contract it finishes within the fuel, does not
panic, and appends the values of the template's tokens. -/
theorem expandLoop_eq (isName : Rune → Bool) (names : List Bytes) (src : Bytes) (m : Match)
    (h : GroupsOk src.length m) :
    ∀ (fuel : Nat) (t dst : Bytes), t.length < fuel →
      expandLoop isName names src m fuel t dst =
        .ok (dst ++ ((tokenizeLoop isName fuel t).map (tokValue names src m)).flatten)
  | 0, _, _, hf => by omega
  | fuel + 1, t, dst, hf => by
    have hlit := flatten_map_litTok (tokValue names src m) (fun _ => rfl)
    unfold expandLoop tokenizeLoop
    cases hc : cutDollar t with
    | none => simp only [hlit]
    | some p =>
      obtain ⟨before, after⟩ := p
      obtain ⟨ht, _⟩ := cutDollar_some hc
      have hlen : t.length = before.length + 1 + after.length := by rw [ht]; simp; omega
      simp only [List.map_append, List.flatten_append, hlit]
      split
      · rename_i t'
        have := expandLoop_eq isName names src m h fuel t' (dst ++ before ++ [36])
          (by simp at hlen; omega)
        rw [this]
        simp [tokValue, List.append_assoc]
      · cases he : extract isName after with
        | none =>
          have := expandLoop_eq isName names src m h fuel after (dst ++ before ++ [36]) (by omega)
          simp only [this]
          simp [tokValue, List.append_assoc]
        | some q =>
          obtain ⟨name, num, rest⟩ := q
          have hr := extract_rest_le he
          have hnum : num = refNum name := extract_num he
          subst hnum
          simp only
          by_cases hn : refNum name ≥ 0
          · rw [if_pos hn]
            obtain ⟨k, hk⟩ := Int.eq_ofNat_of_zero_le hn
            rw [hk, appendGroup_ok src m k _ h]
            simp only [bind, Res.bind]
            rw [expandLoop_eq isName names src m h fuel rest _ (by omega)]
            simp only [List.map_cons, List.flatten_cons, tokValue, hk]
            rw [if_pos (by omega)]
            simp only [Int.toNat_natCast]
            cases groupText src m k <;> simp [List.append_assoc]
          · rw [if_neg hn]
            rw [show (0 : Int) = ((0 : Nat) : Int) from rfl, appendNamed_ok src m name h names 0 (dst ++ before)]
            simp only [bind, Res.bind]
            rw [expandLoop_eq isName names src m h fuel rest _ (by omega)]
            simp only [List.map_cons, List.flatten_cons, tokValue]
            rw [if_neg hn]
            simp [List.append_assoc]

theorem expand_eq (isName : Rune → Bool) (names : List Bytes) (t src : Bytes) (m : Match)
    (h : MatchOk src.length m) :
    expand isName names t src m = .ok (expandSpec isName names t src m) := by
  unfold expand expandSpec tokenize
  rw [expandLoop_eq isName names src m (matchOk_groupsOk h) _ t [] (by omega)]
  simp

end C41
