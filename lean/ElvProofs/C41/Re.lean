/-
C41 helper lemmas: the re: wrappers under the engine contract.
-/
import ElvModel.C41.Spec
namespace C41
open Go

theorem slice_ok (src : Bytes) (s e : Int) (h0 : 0 ≤ s) (h1 : s ≤ e) (h2 : e ≤ src.length) :
    slice src s e = .ok (sub src s e) := by
  unfold slice sub
  rw [if_pos ⟨h0, h1, h2⟩]

theorem sub_append_sub (src : Bytes) (a b c : Int) (h0 : 0 ≤ a) (h1 : a ≤ b) (h2 : b ≤ c)
    (h3 : c ≤ src.length) : sub src a b ++ sub src b c = sub src a c := by
  unfold sub
  obtain ⟨a, rfl⟩ := Int.eq_ofNat_of_zero_le h0
  obtain ⟨b, rfl⟩ := Int.eq_ofNat_of_zero_le (Int.le_trans h0 h1)
  obtain ⟨c, rfl⟩ := Int.eq_ofNat_of_zero_le (Int.le_trans (Int.le_trans h0 h1) h2)
  simp only [Int.toNat_natCast]
  have h1 : a ≤ b := by omega
  have h2 : b ≤ c := by omega
  have hb : src.drop b = (src.drop a).drop (b - a) := by
    rw [List.drop_drop]; congr 1; omega
  rw [hb, show c - a = (b - a) + (c - b) by omega, List.take_add]

theorem sub_to_end (src : Bytes) (a : Int) : sub src a src.length = src.drop a.toNat := by
  unfold sub
  simp only [Int.toNat_natCast]
  apply List.take_of_length_le
  simp

theorem bind_ok {α β} (a : α) (f : α → Res β) : (Res.ok a >>= f) = f a := rfl

/-! ### find -/

theorem groupsOf_ok (src : Bytes) : ∀ m : Match, GroupsOk src.length m →
    groupsOf src m = .ok (groupsSpec src m)
  | [], _ => rfl
  | [_], h => by simp [GroupsOk] at h
  | s :: e :: rest, h => by
    obtain ⟨hse, hrest⟩ := h
    have ih := groupsOf_ok src rest hrest
    unfold groupsOf groupsSpec groupSpec
    rcases hse with ⟨rfl, rfl⟩ | ⟨h0, h1, h2⟩
    · simp [ih, bind, Res.bind, pure]
    · have hs : ¬ s = -1 := by omega
      have he : 0 ≤ e := by omega
      simp [ih, bind, Res.bind, pure, h0, he, hs, slice_ok src s e h0 h1 h2]

theorem findOne_ok (src : Bytes) (m : Match) (h : MatchOk src.length m) :
    findOne src m = .ok (matchSpec src m) := by
  rcases m with _ | ⟨s, _ | ⟨e, g⟩⟩
  · simp [MatchOk] at h
  · simp [MatchOk] at h
  · obtain ⟨⟨h0, h1, h2⟩, hg⟩ := h
    have hgs : GroupsOk src.length (s :: e :: g) := ⟨Or.inr ⟨h0, h1, h2⟩, hg⟩
    unfold findOne matchSpec
    simp [index, bind, Res.bind, pure, groupsOf_ok src _ hgs, slice_ok src s e h0 h1 h2]

theorem mapRes_ok {α β} (f : α → Res β) (g : α → β) (l : List α) (h : ∀ a ∈ l, f a = .ok (g a)) :
    mapRes f l = .ok (l.map g) := by
  induction l with
  | nil => rfl
  | cons a l ih =>
    simp [mapRes, h a (by simp), ih (fun x hx => h x (by simp [hx])), bind, Res.bind, pure]

theorem mem_takeMax {full : List Match} {n : Int} {m : Match} (h : m ∈ takeMax full n) : m ∈ full := by
  unfold takeMax at h
  split at h
  · exact h
  · exact List.mem_of_mem_take h

/-! ### replaceAll -/

/-- `replaceAll` with a replacement that cannot fail and keeps its state -/
theorem replaceAllLoop_ok {σ : Type} (src : Bytes) (repl : σ → Match → Res (Bytes × σ))
    (g : Match → Bytes) (st : σ) :
    ∀ (full : List Match) (last : Int) (buf : Bytes),
      (∀ m ∈ full, MatchOk src.length m) → (∀ m ∈ full, repl st m = .ok (g m, st)) →
      Asc last full → 0 ≤ last → last ≤ src.length →
      replaceAllLoop src repl full last buf st = .ok (buf ++ spliceSpec src g last full, st)
  | [], last, buf, _, _, _, h0, h1 => by
    simp [replaceAllLoop, spliceSpec, slice_ok src last src.length h0 h1 (Int.le_refl _), bind, Res.bind, pure]
  | m :: rest, last, buf, hm, hr, ha, h0, _ => by
    have hmo := hm m (by simp)
    rcases m with _ | ⟨s, _ | ⟨e, gs⟩⟩
    · simp [MatchOk] at hmo
    · simp [MatchOk] at hmo
    · obtain ⟨⟨_, hse, he⟩, _⟩ := hmo
      obtain ⟨hl, _, ha'⟩ := ha
      have ih := replaceAllLoop_ok src repl g st rest e (buf ++ sub src last s ++ g (s :: e :: gs))
        (fun x hx => hm x (by simp [hx])) (fun x hx => hr x (by simp [hx])) ha' (by omega) he
      simp only [List.append_assoc] at ih
      simp [replaceAllLoop, spliceSpec, index, bind, Res.bind,
        slice_ok src last s h0 hl (by omega), hr (s :: e :: gs) (by simp), ih, List.append_assoc]

/-- replacing every match by its own text gives the source back -/
theorem spliceSpec_self (src : Bytes) :
    ∀ (full : List Match) (last : Int), (∀ m ∈ full, MatchOk src.length m) → Asc last full →
      0 ≤ last → last ≤ src.length →
      spliceSpec src (fun m => (matchSpec src m).text) last full = src.drop last.toNat
  | [], last, _, _, _, _ => by simp [spliceSpec, sub_to_end]
  | m :: rest, last, hm, ha, h0, h1 => by
    have hmo := hm m (by simp)
    rcases m with _ | ⟨s, _ | ⟨e, gs⟩⟩
    · simp [MatchOk] at hmo
    · simp [MatchOk] at hmo
    · obtain ⟨⟨_, hse, he⟩, _⟩ := hmo
      obtain ⟨hl, _, ha'⟩ := ha
      have ih := spliceSpec_self src rest e (fun x hx => hm x (by simp [hx])) ha' (by omega) he
      simp only [spliceSpec]
      rw [ih]
      simp only [matchSpec]
      rw [← sub_to_end, List.append_assoc, sub_append_sub src s e src.length (by omega) hse he (Int.le_refl _),
        sub_append_sub src last s src.length h0 hl (by omega) (Int.le_refl _), sub_to_end]

/-- the splice is the gaps with the replacements in between -/
theorem spliceSpec_gaps (src : Bytes) (r : Bytes) :
    ∀ (full : List Match) (last : Int), (∀ m ∈ full, MatchOk src.length m) →
      spliceSpec src (fun _ => r) last full = intercal r (gaps src last full)
  | [], last, _ => by simp [spliceSpec, gaps, intercal]
  | m :: rest, last, hm => by
    have hmo := hm m (by simp)
    rcases m with _ | ⟨s, _ | ⟨e, gs⟩⟩
    · simp [MatchOk] at hmo
    · simp [MatchOk] at hmo
    · have ih := spliceSpec_gaps src r rest e (fun x hx => hm x (by simp [hx]))
      simp only [spliceSpec, gaps, ih]
      cases hg : gaps src e rest with
      | nil =>
        -- gaps is never empty for well-formed matches
        exfalso
        cases rest with
        | nil => simp [gaps] at hg
        | cons m' rest' =>
          have hmo' := hm m' (by simp)
          rcases m' with _ | ⟨s', _ | ⟨e', gs'⟩⟩
          · simp [MatchOk] at hmo'
          · simp [MatchOk] at hmo'
          · simp [gaps] at hg
      | cons y l => simp [intercal, List.append_assoc]

end C41
