/-
C41 helper lemmas: strings.Replace never takes the slice that would panic.
-/
import ElvModel.C41.Spec
namespace C41
open Go

theorem replaceLoop_empty_ok (new : Bytes) : ∀ (k : Nat) (first : Bool) (rest : Bytes),
    ∃ r, replaceLoop [] new k first rest = .ok r
  | 0, _, rest => ⟨rest, rfl⟩
  | k + 1, first, rest => by
    unfold replaceLoop
    cases first
    · obtain ⟨r, hr⟩ := replaceLoop_empty_ok new k false (rest.drop ((decodeRune rest).2))
      simp [hr]
    · obtain ⟨r, hr⟩ := replaceLoop_empty_ok new k false rest
      simp [hr]

theorem replaceLoop_count_ok (old new : Bytes) (ho : old.isEmpty = false) :
    ∀ (k fuel : Nat) (first : Bool) (rest : Bytes), k ≤ countLoop old fuel rest →
      ∃ r, replaceLoop old new k first rest = .ok r
  | 0, _, _, rest, _ => ⟨rest, rfl⟩
  | k + 1, fuel, first, rest, h => by
    cases fuel with
    | zero => simp [countLoop] at h
    | succ f =>
      unfold countLoop at h
      cases hi : strIndex rest old with
      | none => simp [hi] at h
      | some i =>
        simp only [hi] at h
        obtain ⟨r, hr⟩ := replaceLoop_count_ok old new ho k f false (rest.drop (i + old.length)) (by omega)
        unfold replaceLoop
        simp [ho, hi, hr]

theorem replace_no_panic (s old new : Bytes) (n : Int) : ∃ r, replace s old new n = .ok r := by
  unfold replace
  split
  · exact ⟨s, rfl⟩
  · simp only
    split
    · exact ⟨s, rfl⟩
    · by_cases ho : old.isEmpty = true
      · have : old = [] := by simpa using ho
        subst this
        exact replaceLoop_empty_ok new _ _ _
      · have ho : old.isEmpty = false := by simpa using ho
        apply replaceLoop_count_ok old new ho _ s.length
        have hc : count s old = countLoop old s.length s := by simp [count, ho]
        rw [← hc]
        split <;> omega

end C41
