/-
C41 helper lemmas: `re:awk` — the `broken` latch is an early stop, the fields are
Go's documented `Split` of the trimmed line, no panic under the engine contract.
-/
import ElvModel.C41.Awk
import ElvProofs.C41.ReSplit
namespace C41
open Go

theorem awkLoop_broken (exprEmpty : Bool) (call : List Bytes → Flow) (st : AwkSt) (hb : st.broken = true) :
    ∀ ins : List AwkIn, awkLoop exprEmpty call st ins = .ok st
  | [] => rfl
  | v :: rest => by
    have ih := awkLoop_broken exprEmpty call st hb rest
    unfold awkLoop
    cases v <;> simp [awkStep, hb, bind, Res.bind, pure, ih]

theorem awkFields_ok (exprEmpty : Bool) (b : Bytes) (ms : List Match)
    (h : EngineOk (trim b awkCutset).length ms) :
    regexpSplit exprEmpty (trim b awkCutset) (-1) ms = .ok (awkFields exprEmpty b ms) := by
  unfold awkFields
  by_cases hc : (!exprEmpty) = true ∧ trim b awkCutset = []
  · simp only [hc, and_self, if_true]
    unfold regexpSplit
    simp [hc.1]
  · rw [if_neg hc]
    apply regexpSplit_pieces exprEmpty _ (-1) ms (by omega) h
    cases exprEmpty with
    | true => exact Or.inl rfl
    | false => exact Or.inr (fun h => hc ⟨rfl, h⟩)

theorem awkLoop_spec (exprEmpty : Bool) (call : List Bytes → Flow) :
    ∀ (ins : List AwkIn) (st : AwkSt), AwkInputsOk ins → st.broken = false → st.err = none →
      ∃ st', awkLoop exprEmpty call st ins = .ok st' ∧
        st'.calls = st.calls ++ (awkSpec exprEmpty call ins).1 ∧ st'.err = (awkSpec exprEmpty call ins).2
  | [], st, _, _, he => ⟨st, rfl, by simp [awkSpec], by simp [awkSpec, he]⟩
  | .other k :: rest, st, _, hb, _ => by
    refine ⟨{ st with broken := true, err := some errAwkInput }, ?_, by simp [awkSpec], by simp [awkSpec]⟩
    unfold awkLoop
    simp only [awkStep, hb, Bool.false_eq_true, if_false, bind, Res.bind, pure]
    exact awkLoop_broken exprEmpty call _ rfl rest
  | .line b ms :: rest, st, hin, hb, he => by
    obtain ⟨hm, hin'⟩ := hin
    unfold awkLoop
    simp only [awkStep, hb, Bool.false_eq_true, if_false, bind, Res.bind, awkFields_ok exprEmpty b ms hm]
    simp only [awkSpec]
    cases hc : call (b :: awkFields exprEmpty b ms) with
    | ok =>
      obtain ⟨st', h1, h2, h3⟩ := awkLoop_spec exprEmpty call rest
        { broken := false, err := st.err, calls := st.calls ++ [b :: awkFields exprEmpty b ms] } hin' rfl he
      exact ⟨st', h1, by simp [h2], h3⟩
    | cont =>
      obtain ⟨st', h1, h2, h3⟩ := awkLoop_spec exprEmpty call rest
        { broken := false, err := st.err, calls := st.calls ++ [b :: awkFields exprEmpty b ms] } hin' rfl he
      exact ⟨st', h1, by simp [h2], h3⟩
    | brk =>
      exact ⟨_, awkLoop_broken exprEmpty call _ rfl rest, rfl, by simp [he]⟩
    | err e =>
      exact ⟨_, awkLoop_broken exprEmpty call _ rfl rest, rfl, rfl⟩

end C41
