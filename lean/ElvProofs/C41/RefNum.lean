/-
C41 helper lemmas: which reference names are numbers (`refNum`, the "Parse number"
part of Go's `extract`).
-/
import ElvModel.C41.Template
namespace C41
open Go

theorem pow10_le (j : Nat) (h : 8 ≤ j) : 10 ^ 8 ≤ 10 ^ j := Nat.pow_le_pow_right (by omega) h
theorem pow10_le' (k : Nat) (h : k ≤ 8) : 10 ^ k ≤ 10 ^ 8 := Nat.pow_le_pow_right (by omega) h

theorem numLoop_small : ∀ (ds : Bytes) (k acc : Nat), isDigits ds = true → ds.length + k ≤ 9 → acc < 10 ^ k →
    numLoop ds (acc : Int) = (decVal ds acc : Nat)
  | [], _, _, _, _, _ => rfl
  | c :: rest, k, acc, hd, hl, ha => by
    simp only [isDigits, List.all_cons, Bool.and_eq_true, decide_eq_true_eq] at hd
    obtain ⟨⟨h1, h2⟩, hr⟩ := hd
    have h1' : 48 ≤ c.toNat := by simpa using UInt8.le_iff_toNat_le.mp h1
    have h2' : c.toNat ≤ 57 := by simpa using UInt8.le_iff_toNat_le.mp h2
    have hk : k ≤ 8 := by simp at hl; omega
    have := pow10_le' k hk
    have hp := Nat.pow_succ 10 k
    unfold numLoop decVal
    have hc : ¬ (c < 48 ∨ 57 < c ∨ (acc : Int) ≥ 100000000) := by
      intro h
      rcases h with h | h | h
      · have := UInt8.lt_iff_toNat_lt.mp h; simp at this; omega
      · have := UInt8.lt_iff_toNat_lt.mp h; simp at this; omega
      · omega
    rw [if_neg hc]
    have e : (acc : Int) * 10 + ((c.toNat - 48 : Nat) : Int) = ((acc * 10 + (c.toNat - 48) : Nat) : Int) := by
      omega
    rw [e]
    exact numLoop_small rest (k + 1) _ (by simpa [isDigits] using hr) (by simp at hl; omega) (by omega)

theorem numLoop_big : ∀ (ds : Bytes) (j acc : Nat), isDigits ds = true → j ≤ 8 → 10 ^ j ≤ acc → 9 ≤ j + ds.length →
    numLoop ds (acc : Int) = -1
  | [], _, _, _, _, _, hl => by simp at hl; omega
  | c :: rest, j, acc, hd, hj, ha, hl => by
    simp only [isDigits, List.all_cons, Bool.and_eq_true, decide_eq_true_eq] at hd
    obtain ⟨⟨h1, h2⟩, hr⟩ := hd
    have h1' : 48 ≤ c.toNat := by simpa using UInt8.le_iff_toNat_le.mp h1
    unfold numLoop
    by_cases hc : (c < 48 ∨ 57 < c ∨ (acc : Int) ≥ 100000000)
    · rw [if_pos hc]
    · rw [if_neg hc]
      have hacc : acc < 100000000 := by omega
      have hj' : j < 8 := by
        rcases Nat.lt_or_ge j 8 with h | h
        · exact h
        · have := pow10_le j h; omega
      have hp := Nat.pow_succ 10 j
      have e : (acc : Int) * 10 + ((c.toNat - 48 : Nat) : Int) = ((acc * 10 + (c.toNat - 48) : Nat) : Int) := by
        omega
      rw [e]
      exact numLoop_big rest (j + 1) _ (by simpa [isDigits] using hr) (by omega) (by omega) (by simp at hl; omega)

theorem numLoop_nondigit : ∀ (ds : Bytes) (acc : Int), isDigits ds = false → numLoop ds acc = -1
  | [], _, h => by simp [isDigits] at h
  | c :: rest, acc, h => by
    unfold numLoop
    by_cases hc : (c < 48 ∨ 57 < c ∨ acc ≥ 100000000)
    · rw [if_pos hc]
    · rw [if_neg hc]
      apply numLoop_nondigit rest
      have h1 : ¬ c < 48 := fun h => hc (Or.inl h)
      have h2 : ¬ 57 < c := fun h => hc (Or.inr (Or.inl h))
      have h1' : 48 ≤ c := UInt8.not_lt.mp h1
      have h2' : c ≤ 57 := UInt8.not_lt.mp h2
      simpa [isDigits, h1', h2'] using h

/-- A reference name is a group NUMBER exactly when it consists of ASCII digits, has
no leading zero (`0` itself is fine) and at most nine digits; it then denotes its
decimal value.  Every other name (`01`, `1x`, ten digits, …) is the name of a named
group. -/
theorem refNum_spec (name : Bytes) :
    refNum name =
      if isDigits name = true ∧ name.length ≤ 9 ∧ ¬ (name.head? = some 48 ∧ name.length > 1)
      then ((decVal name 0 : Nat) : Int) else -1 := by
  unfold refNum
  by_cases hz : name.head? = some 48 ∧ name.length > 1
  · rw [if_pos hz, if_neg (fun h => h.2.2 hz)]
  · rw [if_neg hz]
    by_cases hd : isDigits name = true
    · by_cases hl : name.length ≤ 9
      · rw [if_pos ⟨hd, hl, hz⟩]
        exact numLoop_small name (9 - name.length) 0 hd (by omega) (Nat.pow_pos (by omega))
      · rw [if_neg (fun h => hl h.2.1)]
        -- ten or more digits without a leading zero: the value passes 1e8 before the last digit
        cases name with
        | nil => simp at hl
        | cons c rest =>
          have hc0 : c ≠ 48 := by
            intro h
            apply hz
            simp [h]; simp at hl; omega
          simp only [isDigits, List.all_cons, Bool.and_eq_true, decide_eq_true_eq] at hd
          obtain ⟨⟨h1, h2⟩, hr⟩ := hd
          have h1' : 48 ≤ c.toNat := by simpa using UInt8.le_iff_toNat_le.mp h1
          have hne : c.toNat ≠ 48 := fun h => hc0 (UInt8.toNat_inj.mp (by simpa using h))
          unfold numLoop
          have hc : ¬ (c < 48 ∨ 57 < c ∨ (0 : Int) ≥ 100000000) := by
            intro h
            rcases h with h | h | h
            · have := UInt8.lt_iff_toNat_lt.mp h; simp at this; omega
            · exact absurd h2 (UInt8.not_le.mpr h)
            · omega
          rw [if_neg hc]
          have e : (0 : Int) * 10 + ((c.toNat - 48 : Nat) : Int) = ((c.toNat - 48 : Nat) : Int) := by omega
          rw [e]
          exact numLoop_big rest 0 _ (by simpa [isDigits] using hr) (by omega) (by simp; omega)
            (by simp at hl; omega)
    · rw [if_neg (fun h => hd h.1)]
      exact numLoop_nondigit name 0 (by simpa using hd)

end C41
