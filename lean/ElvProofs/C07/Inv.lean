/-
C07 helper lemmas, part 4: lawful `eq`/`hash`, the well-formedness invariant
of the trie, and `find` read through the sparse-array view.
-/
import ElvProofs.C07.Slot
namespace C07
open Go Gen.C07Bits

variable {K V : Type}

/-- The hypotheses on the user-supplied `Equal` and `Hash`. -/
structure Lawful (eq : K → K → Bool) (hashf : K → UInt32) : Prop where
  refl : ∀ a, eq a a = true
  symm : ∀ a b, eq a b = true → eq b a = true
  trans : ∀ a b c, eq a b = true → eq b c = true → eq a c = true
  hash : ∀ a b, eq a b = true → hashf a = hashf b

/-- `EqEquiv eq`: the equality is an equivalence relation. -/
def EqEquiv (eq : K → K → Bool) : Prop :=
  (∀ a, eq a a = true) ∧ (∀ a b, eq a b = true → eq b a = true) ∧
    (∀ a b c, eq a b = true → eq b c = true → eq a c = true)

theorem Lawful.of (eq : K → K → Bool) (hashf : K → UInt32) (h : EqEquiv eq)
    (hh : ∀ a b, eq a b = true → hashf a = hashf b) : Lawful eq hashf :=
  ⟨h.1, h.2.1, h.2.2, hh⟩

@[simp] theorem ok_bind {α β} (a : α) (f : α → Res β) : (Res.ok a >>= f) = f a := rfl
@[simp] theorem exc_bind {α β} (e : String) (f : α → Res β) : (Res.exc e >>= f) = Res.exc e := rfl
@[simp] theorem panic_bind {α β} (e : String) (f : α → Res β) : (Res.panic e >>= f) = Res.panic e := rfl
@[simp] theorem pure_eq_ok {α} (a : α) : (pure a : Res α) = Res.ok a := rfl

/-- Well-formedness of a node at trie depth `d` (shift `5·d`). -/
inductive WF (eq : K → K → Bool) (hashf : K → UInt32) : Nat → Node K V → Prop
  | bitmap {d : Nat} {bm : UInt32} {es : List (Entry K V)} (hd : d ≤ 6)
      (hlen : es.length = rank bm 32)
      (hkv : ∀ c k v, c < 32 → slot bm es c = some (.kv k v) → chunkN d (hashf k) = c)
      (hsub : ∀ c n, c < 32 → slot bm es c = some (.sub n) → WF eq hashf (d + 1) n)
      (hkeys : ∀ c n, c < 32 → slot bm es c = some (.sub n) →
        n.toAList ≠ [] ∧ ∀ e ∈ n.toAList, chunkN d (hashf e.1) = c) :
      WF eq hashf d (.bitmap bm es)
  | array {d : Nat} {nc : Int} {cs : List (Option (Node K V))} (hd : d ≤ 5)
      (hlen : cs.length = 32)
      (hnc : nc = (cs.countP Option.isSome : Nat))
      (hmin : 8 ≤ nc)
      (hsub : ∀ (c : Nat) n, cs[c]? = some (some n) → WF eq hashf (d + 1) n)
      (hkeys : ∀ (c : Nat) n, cs[c]? = some (some n) →
        n.toAList ≠ [] ∧ ∀ e ∈ n.toAList, chunkN d (hashf e.1) = c) :
      WF eq hashf d (.array nc cs)
  | collision {d : Nat} {h : UInt32} {kvs : List (K × V)}
      (hne : kvs ≠ [])
      (hh : ∀ e ∈ kvs, hashf e.1 = h)
      (hnd : kvs.Pairwise (fun a b => eq a.1 b.1 = false)) :
      WF eq hashf d (.collision h kvs)

/-! ### `find` through the sparse view -/

theorem findAt_eq (eq : K → K → Bool) (es : List (Entry K V)) (i : Nat) (shift hash : UInt32) (k : K) :
    findAt eq es i shift hash k =
      match es[i]? with
      | none => .panic "index out of range"
      | some (.kv k0 v0) => .ok (if eq k0 k then some v0 else none)
      | some (.sub child) => child.find eq (nextShift shift) hash k := by
  induction es generalizing i with
  | nil => simp [findAt]
  | cons e es ih =>
    cases i with
    | zero => cases e <;> simp [findAt]; split <;> rfl
    | succ i => cases e <;> simp [findAt, ih]

theorem findChild_eq (eq : K → K → Bool) (cs : List (Option (Node K V))) (i : Nat)
    (shift hash : UInt32) (k : K) :
    findChild eq cs i shift hash k =
      match cs[i]? with
      | none => outside "arrayNode.children shorter than 32"
      | some none => .ok none
      | some (some child) => child.find eq (nextShift shift) hash k := by
  induction cs generalizing i with
  | nil => simp [findChild]
  | cons c cs ih =>
    cases i with
    | zero => cases c <;> simp [findChild]
    | succ i => cases c <;> simp [findChild, ih]

theorem find_bitmap (eq : K → K → Bool) (d : Nat) (hd : d ≤ 7) (bm : UInt32) (es : List (Entry K V))
    (hlen : es.length = rank bm 32) (hash : UInt32) (k : K) :
    Node.find eq (.bitmap bm es) (shiftOf d) hash k =
      match slot bm es (chunkN d hash) with
      | none => .ok none
      | some (.kv k0 v0) => .ok (if eq k0 k then some v0 else none)
      | some (.sub n) => n.find eq (shiftOf (d + 1)) hash k := by
  have hc := chunkN_lt d hash
  simp only [Node.find, bitpos_eq d hd, and_bitU_eq_zero _ _ hc, index_bitU _ _ hc, findAt_eq,
    nextShift_shiftOf]
  cases hb : hasBit bm (chunkN d hash)
  · simp [slot, hb]
  · obtain ⟨e, h1, h2⟩ := slot_isSome hlen hc hb
    simp only [h1, h2]
    cases e <;> rfl

theorem find_array (eq : K → K → Bool) (d : Nat) (hd : d ≤ 7) (nc : Int)
    (cs : List (Option (Node K V))) (hash : UInt32) (k : K) :
    Node.find eq (.array nc cs) (shiftOf d) hash k =
      match cs[chunkN d hash]? with
      | none => outside "arrayNode.children shorter than 32"
      | some none => .ok none
      | some (some child) => child.find eq (shiftOf (d + 1)) hash k := by
  simp only [Node.find, findChild_eq, chunk_toNat d hd, nextShift_shiftOf]

/-- `lookup` in an association list modulo `eq` (first match) -/
def lookup (eq : K → K → Bool) (al : List (K × V)) (k : K) : Option V :=
  (al.find? (fun e => eq e.1 k)).map (·.2)

theorem find_collision (eq : K → K → Bool) (h : UInt32) (kvs : List (K × V)) (shift hash : UInt32) (k : K) :
    Node.find eq (.collision h kvs) shift hash k =
      .ok ((kvs.find? (fun e => eq k e.1)).map (·.2)) := by
  simp only [Node.find, findIndex]
  induction kvs with
  | nil => simp
  | cons e kvs ih =>
    by_cases he : eq k e.1 = true
    · simp [List.findIdx?_cons, he]
    · simp only [Bool.not_eq_true] at he
      simp only [List.findIdx?_cons, he, List.find?_cons]
      cases hf : List.findIdx? (fun e => eq k e.1) kvs with
      | none => simp [hf] at ih ⊢; exact ih
      | some i => simp [hf] at ih ⊢; exact ih

end C07
