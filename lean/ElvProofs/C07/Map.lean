/-
C07 helper definitions: map-level vocabulary of the property theorems.
-/
import ElvProofs.C07.Assoc6
namespace C07
open Go Gen.C07Bits

variable {K V : Type}

/-- `eq` lifted to map keys (`none` = the nil key). -/
def keq (eq : K → K → Bool) : Option K → Option K → Bool
  | none, none => true
  | some a, some b => eq a b
  | _, _ => false

/-- Representation invariant of `hashMap`. -/
structure WFMap (eq : K → K → Bool) (hashf : K → UInt32) (m : HashMap K V) : Prop where
  root : WF eq hashf 0 m.root
  count : m.count = (m.toAList.length : Int)

/-- enough recursion budget for `Assoc` on any well-formed map -/
def assocFuel : Nat := 16


end C07
