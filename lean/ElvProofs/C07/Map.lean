/-
C07 helper definitions: map-level vocabulary of the property theorems.
-/
import ElvProofs.C07.Without4
namespace C07
open Go Gen.C07Bits

variable {K V : Type}

/-- `eq` lifted to map keys (`none` = the nil key). -/
def keq (eq : K → K → Bool) : Option K → Option K → Bool
  | none, none => true
  | some a, some b => eq a b
  | _, _ => false

/-- Representation invariant of `hashMap`. -/
structure WFMap (eq : K → K → Bool) (hashf : K → UInt32) (m : HashMap K V) : Prop where
  root : WF eq hashf 0 m.root
  count : m.count = (m.toAList.length : Int)

/-- enough recursion budget for `Assoc` on any well-formed map -/
def assocFuel : Nat := 16


theorem wf_empty (eq : K → K → Bool) (hashf : K → UInt32) :
    WF eq hashf 0 (emptyBitmapNode : Node K V) := by
  refine WF.bitmap (by omega) (by simp [rank_zero]) ?_ ?_ ?_
  · intro c _ _ _ hs
    simp [slot, hasBit_zero] at hs
  · intro c _ _ hs
    simp [slot, hasBit_zero] at hs
  · intro c _ _ hs
    simp [slot, hasBit_zero] at hs

theorem wfmap_of_root {eq : K → K → Bool} {hashf : K → UInt32} {m : HashMap K V}
    (hm : WFMap eq hashf m) (n' : Node K V) (del : Bool) (hwf : WF eq hashf 0 n')
    (hsize : n'.toAList.length + (if del then 1 else 0) = m.root.toAList.length) :
    WFMap eq hashf ⟨if del then m.count - 1 else m.count, n', m.nilV⟩ := by
  refine ⟨hwf, ?_⟩
  have hcount := hm.count
  simp only [HashMap.toAList, List.length_append, List.length_map] at hcount ⊢
  cases del <;> simp at hsize ⊢ <;> omega

end C07
