/-
C07 helper definitions and lemmas, part 18: operation histories and the
reference dictionary (an association list without duplicate keys).
-/
import ElvProofs.C07.Map
namespace C07
open Go Gen.C07Bits

variable {K V : Type}

/-- the mutating operations of the `Map` API -/
inductive Op (K V : Type) where
  | assoc (k : Option K) (v : V)
  | dissoc (k : Option K)

def applyOp (eq : K → K → Bool) (hashf : K → UInt32) (m : HashMap K V) : Op K V → Res (HashMap K V)
  | .assoc k v => m.assoc eq hashf assocFuel k v
  | .dissoc k => m.dissoc eq hashf k

/-- run a history on the map -/
def runOps (eq : K → K → Bool) (hashf : K → UInt32) : List (Op K V) → HashMap K V → Res (HashMap K V)
  | [], m => .ok m
  | op :: ops, m => applyOp eq hashf m op >>= runOps eq hashf ops

/-- the reference dictionary: an association list, newest binding first, old
bindings of an equal key removed -/
def refApply (eq : K → K → Bool) (r : List (Option K × V)) : Op K V → List (Option K × V)
  | .assoc k v => (k, v) :: r.filter (fun e => !keq eq e.1 k)
  | .dissoc k => r.filter (fun e => !keq eq e.1 k)

def refRun (eq : K → K → Bool) : List (Op K V) → List (Option K × V) → List (Option K × V)
  | [], r => r
  | op :: ops, r => refRun eq ops (refApply eq r op)

def refLookup (eq : K → K → Bool) (r : List (Option K × V)) (k : Option K) : Option V :=
  (r.find? (fun e => keq eq e.1 k)).map (·.2)

section
variable {eq : K → K → Bool} {hashf : K → UInt32}

theorem keq_refl (L : Lawful eq hashf) (a : Option K) : keq eq a a = true := by
  cases a <;> simp [keq, L.refl]

theorem keq_symm (L : Lawful eq hashf) {a b : Option K} (h : keq eq a b = true) : keq eq b a = true := by
  cases a <;> cases b <;> simp_all [keq]
  exact L.symm _ _ h

theorem keq_trans (L : Lawful eq hashf) {a b c : Option K} (h1 : keq eq a b = true) (h2 : keq eq b c = true) :
    keq eq a c = true := by
  cases a <;> cases b <;> cases c <;> simp_all [keq]
  exact L.trans _ _ _ h1 h2

theorem refLookup_filter (L : Lawful eq hashf) (r : List (Option K × V)) (k k' : Option K) :
    refLookup eq (r.filter (fun e => !keq eq e.1 k)) k' =
      if keq eq k k' then none else refLookup eq r k' := by
  unfold refLookup
  rw [List.find?_filter]
  by_cases hk : keq eq k k' = true
  · rw [if_pos hk, Option.map_eq_none_iff, List.find?_eq_none]
    intro e _
    cases h : keq eq e.1 k'
    · simp
    · have := keq_trans L h (keq_symm L hk)
      simp [this]
  · rw [if_neg hk]
    congr 2
    funext e
    cases h : keq eq e.1 k'
    · simp
    · have : keq eq e.1 k = false := by
        cases h2 : keq eq e.1 k
        · rfl
        · exact absurd (keq_trans L (keq_symm L h2) h) hk
      simp [this]

theorem refLookup_insert (L : Lawful eq hashf) (r : List (Option K × V)) (k : Option K) (v : V) (k' : Option K) :
    refLookup eq ((k, v) :: r.filter (fun e => !keq eq e.1 k)) k' =
      if keq eq k k' then some v else refLookup eq r k' := by
  by_cases hk : keq eq k k' = true
  · simp [refLookup, hk]
  · have := refLookup_filter L r k k'
    rw [if_neg hk] at this
    simp only [Bool.not_eq_true] at hk
    simp only [refLookup, List.find?_cons, hk] at this ⊢
    simpa using this

/-- no two bindings of equal keys -/
def RefNoDup (eq : K → K → Bool) (r : List (Option K × V)) : Prop :=
  r.Pairwise (fun a b => keq eq a.1 b.1 = false)

theorem length_filter_nodup (L : Lawful eq hashf) (k : Option K) :
    ∀ (r : List (Option K × V)), RefNoDup eq r →
      (r.filter (fun e => !keq eq e.1 k)).length + (if (refLookup eq r k).isSome then 1 else 0) = r.length := by
  intro r
  induction r with
  | nil => intro _; simp [refLookup]
  | cons e r ih =>
    intro hp
    unfold RefNoDup at hp
    rw [List.pairwise_cons] at hp
    by_cases he : keq eq e.1 k = true
    · have hall : ∀ x ∈ r, (!keq eq x.1 k) = true := by
        intro x hx
        cases h : keq eq x.1 k
        · rfl
        · have := keq_trans L he (keq_symm L h)
          rw [hp.1 x hx] at this; cases this
      have : r.filter (fun e => !keq eq e.1 k) = r := List.filter_eq_self.mpr hall
      simp [he, this, refLookup]
    · simp only [Bool.not_eq_true] at he
      have hlk : refLookup eq (e :: r) k = refLookup eq r k := by
        simp [refLookup, he]
      have hf : (e :: r).filter (fun e => !keq eq e.1 k) = e :: r.filter (fun e => !keq eq e.1 k) := by
        simp [he]
      have := ih hp.2
      rw [hlk, hf]
      simp only [List.length_cons]
      omega

theorem nodup_filter (r : List (Option K × V)) (p : Option K × V → Bool) (h : RefNoDup eq r) :
    RefNoDup eq (r.filter p) :=
  List.Pairwise.sublist List.filter_sublist h

theorem nodup_insert (L : Lawful eq hashf) (r : List (Option K × V)) (k : Option K) (v : V)
    (h : RefNoDup eq r) : RefNoDup eq ((k, v) :: r.filter (fun e => !keq eq e.1 k)) := by
  unfold RefNoDup
  rw [List.pairwise_cons]
  refine ⟨?_, nodup_filter r _ h⟩
  intro a ha
  have := (List.mem_filter.mp ha).2
  cases h2 : keq eq k a.1
  · rfl
  · have := keq_symm L h2
    simp_all

end

/-- the simulation relation between the map and the reference dictionary -/
structure Sim (eq : K → K → Bool) (hashf : K → UInt32) (m : HashMap K V) (r : List (Option K × V)) : Prop where
  wf : WFMap eq hashf m
  index : ∀ k, m.index eq hashf k = .ok (refLookup eq r k)
  len : m.len = (r.length : Int)
  nodup : RefNoDup eq r

end C07
