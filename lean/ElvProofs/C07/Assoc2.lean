/-
C07 helper lemmas, part 7: the specification `Post` of `node.assoc`, and the
cases of the main induction that do not create array nodes.
-/
import ElvProofs.C07.Assoc1
namespace C07
open Go Gen.C07Bits

variable {K V : Type} {eq : K → K → Bool} {hashf : K → UInt32}

/-- keys of `n` agree with `hash` on the chunks below depth `d` -/
def AgreeBelow (hashf : K → UInt32) (d : Nat) (n : Node K V) (hash : UInt32) : Prop :=
  ∀ e ∈ n.toAList, ∀ j < d, chunkN j (hashf e.1) = chunkN j hash

/-- recursion budget `assoc` needs on a node at depth `d` -/
def need (d : Nat) : Node K V → Nat
  | .collision _ _ => 2 * (7 - d) + 2
  | _ => 2 * (7 - d) + 1

theorem need_le (d : Nat) (n : Node K V) : need d n ≤ 2 * (7 - d) + 2 := by
  cases n <;> simp [need]

/-- what `n.assoc(shift, hash(k), k, v)` returning `(n', added)` guarantees -/
structure Post (eq : K → K → Bool) (hashf : K → UInt32) (d : Nat) (n : Node K V) (k : K) (v : V)
    (n' : Node K V) (added : Bool) : Prop where
  wf : WF eq hashf d n'
  find : ∀ k' old, n.find eq (shiftOf d) (hashf k') k' = .ok old →
      n'.find eq (shiftOf d) (hashf k') k' = .ok (if eq k k' then some v else old)
  size : n'.toAList.length = n.toAList.length + (if added then 1 else 0)
  keys : ∀ e ∈ n'.toAList, e ∈ n.toAList ∨ e = (k, v)
  ne : n'.toAList ≠ []
  isNew : ∀ old, n.find eq (shiftOf d) (hashf k) k = .ok old → added = old.isNone

/-- the induction hypothesis of the main theorem, for a given budget -/
def IH (eq : K → K → Bool) (hashf : K → UInt32) (fuel : Nat) : Prop :=
  ∀ (d : Nat) (n : Node K V) (k : K) (v : V), d ≤ 7 → need d n ≤ fuel → WF eq hashf d n →
    AgreeBelow hashf d n (hashf k) →
    ∃ n' added, assoc eq hashf fuel n (shiftOf d) (hashf k) k v = .ok (n', added) ∧
      Post eq hashf d n k v n' added

/-- hashes that agree below depth 7 are equal -/
theorem eq_of_agree7 {h1 h2 : UInt32} (h : ∀ j < 7, chunkN j h1 = chunkN j h2) : h1 = h2 :=
  eq_of_chunkN_eq h1 h2 (fun d hd => h d (by omega))

/-! ### bitmap node, chunk absent, fewer than 16 entries: insert -/

theorem assoc_bitmap_insert (L : Lawful eq hashf) (fuel d : Nat) (bm : UInt32) (es : List (Entry K V))
    (k : K) (v : V) (hwf : WF eq hashf d (.bitmap bm es))
    (hb : hasBit bm (chunkN d (hashf k)) = false) (hlt : es.length < 16) :
    ∃ n' added, assoc eq hashf (fuel + 1) (.bitmap bm es) (shiftOf d) (hashf k) k v = .ok (n', added) ∧
      Post eq hashf d (.bitmap bm es) k v n' added := by
  cases hwf with
  | bitmap hd hlen hkv hsub hkeys =>
  have hd7 : d ≤ 7 := by omega
  have hc := chunkN_lt d (hashf k)
  have hr : rank bm (chunkN d (hashf k)) ≤ es.length := by rw [hlen]; exact rank_mono bm (by omega)
  refine ⟨.bitmap (bm ||| bitU (chunkN d (hashf k)))
    (es.take (rank bm (chunkN d (hashf k))) ++ .kv k v :: es.drop (rank bm (chunkN d (hashf k)))), true, ?_, ?_⟩
  · rw [assoc]
    simp only [bitpos_eq d hd7, and_bitU_eq_zero _ _ hc, index_bitU _ _ hc, hb, nodeCap]
    simp [insertEntry, hr, Nat.not_le.mpr hlt]
  · have hlen' : (es.take (rank bm (chunkN d (hashf k))) ++ Entry.kv k v :: es.drop (rank bm (chunkN d (hashf k)))).length
        = rank (bm ||| bitU (chunkN d (hashf k))) 32 := by
      rw [length_insert _ _ _ hr, rank32_or hc hb, hlen]
    have hslot := fun c' => slot_insert hlen hc hb (Entry.kv k v) c'
    constructor
    · refine WF.bitmap hd hlen' ?_ ?_ ?_
      · intro c k0 v0 hc0 hs
        rw [hslot] at hs
        split at hs
        · next h => cases hs; exact h.symm
        · exact hkv c k0 v0 hc0 hs
      · intro c n hc0 hs
        rw [hslot] at hs
        split at hs
        · cases hs
        · exact hsub c n hc0 hs
      · intro c n hc0 hs
        rw [hslot] at hs
        split at hs
        · cases hs
        · exact hkeys c n hc0 hs
    · intro k' old hold
      rw [find_bitmap eq d hd7 _ _ hlen] at hold
      rw [find_bitmap eq d hd7 _ _ hlen', hslot]
      by_cases h : chunkN d (hashf k') = chunkN d (hashf k)
      · rw [if_pos h]
        rw [h, slot_none_of_not_hasBit hb] at hold
        cases hold
        rfl
      · rw [if_neg h]
        have hne := not_eq_of_chunk_ne L (fun e => h e.symm)
        rw [hne]
        simpa using hold
    · rw [toAList_bitmap, toAList_bitmap, length_flatMap_insert]; rfl
    · intro e he
      rw [toAList_bitmap] at he
      rcases mem_flatMap_insert entryAL he with h | h
      · left; rwa [toAList_bitmap]
      · right; simpa [entryAL] using h
    · rw [toAList_bitmap, flatMap_insert]; simp [entryAL]
    · intro old hold
      rw [find_bitmap eq d hd7 _ _ hlen, slot_none_of_not_hasBit hb] at hold
      cases hold; rfl

/-! ### bitmap node, chunk present: generic replacement of the entry -/

/-- Replacing the entry `x` stored for chunk `c` by `.sub m` or `.kv …`: all the
obligations about the other chunks are discharged here once. -/
theorem post_bitmap_set (L : Lawful eq hashf) {d : Nat} {bm : UInt32} {es : List (Entry K V)}
    {k : K} {v : V} (hwf : WF eq hashf d (.bitmap bm es))
    (hb : hasBit bm (chunkN d (hashf k)) = true) (x y : Entry K V) (added : Bool)
    (hx : slot bm es (chunkN d (hashf k)) = some x)
    -- the new entry is well-formed for this chunk
    (hykv : ∀ k0 v0, y = .kv k0 v0 → chunkN d (hashf k0) = chunkN d (hashf k))
    (hysub : ∀ m, y = .sub m → WF eq hashf (d + 1) m ∧ m.toAList ≠ [] ∧
      ∀ e ∈ m.toAList, chunkN d (hashf e.1) = chunkN d (hashf k))
    -- lookups inside the chunk
    (hfind : ∀ k' old, chunkN d (hashf k') = chunkN d (hashf k) →
      (match x with
        | .kv k0 v0 => Res.ok (if eq k0 k' then some v0 else none)
        | .sub n => n.find eq (shiftOf (d + 1)) (hashf k') k') = .ok old →
      (match y with
        | .kv k0 v0 => Res.ok (if eq k0 k' then some v0 else none)
        | .sub n => n.find eq (shiftOf (d + 1)) (hashf k') k') = .ok (if eq k k' then some v else old))
    (hadded : ∀ old,
      (match x with
        | .kv k0 v0 => Res.ok (if eq k0 k then some v0 else none)
        | .sub n => n.find eq (shiftOf (d + 1)) (hashf k) k) = .ok old → added = old.isNone)
    (hsize : (entryAL y).length = (entryAL x).length + (if added then 1 else 0))
    (hkeys' : ∀ e ∈ entryAL y, e ∈ entryAL x ∨ e = (k, v))
    (hne : entryAL y ≠ []) :
    Post eq hashf d (.bitmap bm es) k v (.bitmap bm (es.set (rank bm (chunkN d (hashf k))) y)) added := by
  cases hwf with
  | bitmap hd hlen hkv hsub hkeys =>
  have hd7 : d ≤ 7 := by omega
  have hc := chunkN_lt d (hashf k)
  have hr := rank_lt_len hlen hc hb
  have hlen' : (es.set (rank bm (chunkN d (hashf k))) y).length = rank bm 32 := by simpa using hlen
  have hslot := fun c' => slot_set hlen hc hb y c'
  have hxi : es[rank bm (chunkN d (hashf k))] = x := by
    rw [slot_of_hasBit hb, List.getElem?_eq_getElem hr] at hx
    exact Option.some.inj hx
  constructor
  · refine WF.bitmap hd hlen' ?_ ?_ ?_
    · intro c k0 v0 hc0 hs
      rw [hslot] at hs
      split at hs
      · next h => cases hs; rw [h]; exact hykv k0 v0 rfl
      · exact hkv c k0 v0 hc0 hs
    · intro c n hc0 hs
      rw [hslot] at hs
      split at hs
      · cases hs; exact (hysub n rfl).1
      · exact hsub c n hc0 hs
    · intro c n hc0 hs
      rw [hslot] at hs
      split at hs
      · next h => cases hs; rw [h]; exact (hysub n rfl).2
      · exact hkeys c n hc0 hs
  · intro k' old hold
    rw [find_bitmap eq d hd7 _ _ hlen] at hold
    rw [find_bitmap eq d hd7 _ _ hlen', hslot]
    by_cases h : chunkN d (hashf k') = chunkN d (hashf k)
    · rw [if_pos h]
      rw [h, hx] at hold
      have := hfind k' old h (by cases x <;> exact hold)
      cases y <;> exact this
    · rw [if_neg h]
      have hne := not_eq_of_chunk_ne L (fun e => h e.symm)
      rw [hne]
      simpa using hold
  · have := length_flatMap_set entryAL es _ y hr
    rw [hxi] at this
    simp only [toAList_bitmap]
    omega
  · intro e he
    rw [toAList_bitmap] at he
    rcases mem_flatMap_set entryAL he with h | h
    · left; rwa [toAList_bitmap]
    · rcases hkeys' e h with h2 | h2
      · left; exact mem_bitmap_of_slot hx h2
      · right; exact h2
  · rw [toAList_bitmap, flatMap_set entryAL _ _ _ hr]
    intro h
    simp only [List.append_eq_nil_iff] at h
    exact hne h.1.2
  · intro old hold
    rw [find_bitmap eq d hd7 _ _ hlen, hx] at hold
    exact hadded old (by cases x <;> exact hold)

end C07
