/-
C07 helper lemmas, part 10: `bitmapNode.unpack` — a bitmap node with 16 entries
becomes an array node when a 17th chunk value arrives.
-/
import ElvProofs.C07.Assoc4
namespace C07
open Go Gen.C07Bits

variable {K V : Type} {eq : K → K → Bool} {hashf : K → UInt32}

/-- what `unpack` turns an entry into -/
def conv (hashf : K → UInt32) (d : Nat) : Entry K V → Node K V
  | .kv k v => single (d + 1) (hashf k) k v
  | .sub n => n

@[simp] theorem toAList_conv (d : Nat) (x : Entry K V) : (conv hashf d x).toAList = entryAL x := by
  cases x <;> simp [conv, entryAL]

theorem chunkN_six_lt (h : UInt32) : chunkN 6 h < 4 := by
  have := h.toNat_lt
  unfold chunkN
  simp only [Nat.reduceMul, Nat.reducePow]
  omega

theorem rank_eq_of_no_bits (bm : UInt32) (c c' : Nat) (h : c ≤ c')
    (hno : ∀ i, c ≤ i → i < c' → hasBit bm i = false) : rank bm c' = rank bm c := by
  induction h with
  | refl => rfl
  | @step m hm ih =>
    rw [rank_succ, hno m hm (by omega), ih (fun i h1 h2 => hno i h1 (by omega))]
    simp

/-- a bitmap node at depth 6 has at most 4 entries (the chunk has 2 bits) -/
theorem len_le_of_depth6 {bm : UInt32} {es : List (Entry K V)} (hwf : WF eq hashf 6 (.bitmap bm es)) :
    es.length ≤ 4 := by
  cases hwf with
  | bitmap hd hlen hkv hsub hkeys =>
  have hno : ∀ i, 4 ≤ i → i < 32 → hasBit bm i = false := by
    intro i h4 h32
    cases hb : hasBit bm i
    · rfl
    · obtain ⟨x, hx, _⟩ := slot_isSome hlen h32 hb
      cases x with
      | kv k v => have := hkv i k v h32 hx; have := chunkN_six_lt (hashf k); omega
      | sub n =>
        obtain ⟨hne, hall⟩ := hkeys i n h32 hx
        cases hl : n.toAList with
        | nil => exact absurd hl hne
        | cons e _ =>
          have := hall e (by rw [hl]; simp); have := chunkN_six_lt (hashf e.1); omega
  rw [hlen, rank_eq_of_no_bits bm 4 32 (by omega) hno]
  exact bcN_le 4 _

theorem unpackLoop_spec (fuel d : Nat) (hd : d + 1 ≤ 7) (bm : UInt32) (es : List (Entry K V))
    (hlen : es.length = rank bm 32) :
    ∀ (rem i : Nat) (ch : List (Option (Node K V))), i + rem = 32 → ch.length = 32 →
      ∃ ch', unpackLoop (assoc eq hashf (fuel + 1)) hashf bm es (shiftOf d) rem i (rank bm i) ch = .ok ch' ∧
        ch'.length = 32 ∧
        ∀ c, ch'[c]? = if i ≤ c ∧ hasBit bm c = true
          then (es[rank bm c]?).map (fun x => some (conv hashf d x)) else ch[c]? := by
  intro rem
  induction rem with
  | zero =>
    intro i ch hi hl
    refine ⟨ch, rfl, hl, ?_⟩
    intro c
    have : ¬ (i ≤ c ∧ hasBit bm c = true) := by
      rintro ⟨h1, h2⟩
      rw [hasBit_ge bm c (by omega)] at h2; cases h2
    rw [if_neg this]
  | succ rem ih =>
    intro i ch hi hl
    have hi32 : i < 32 := by omega
    rw [unpackLoop]
    simp only [shr_and_one bm i hi32]
    cases hb : hasBit bm i
    · simp only [Bool.false_eq_true, if_false]
      have hr : rank bm (i + 1) = rank bm i := by rw [rank_succ, hb]; simp
      obtain ⟨ch', h1, h2, h3⟩ := ih (i + 1) ch (by omega) hl
      rw [hr] at h1
      refine ⟨ch', h1, h2, ?_⟩
      intro c
      rw [h3 c]
      by_cases hc : c = i
      · subst hc; simp [hb]
      · have : (i + 1 ≤ c ∧ hasBit bm c = true) ↔ (i ≤ c ∧ hasBit bm c = true) := by
          constructor <;> rintro ⟨a, b⟩ <;> exact ⟨by omega, b⟩
        simp only [this]
    · simp only [if_true]
      have hr : rank bm (i + 1) = rank bm i + 1 := by rw [rank_succ, hb]; simp
      have hlt := rank_lt_len hlen hi32 hb
      have hstep : ∀ (m : Node K V) (x : Entry K V), es[rank bm i]? = some x → conv hashf d x = m →
          ∃ ch', unpackLoop (assoc eq hashf (fuel + 1)) hashf bm es (shiftOf d) rem (i + 1) (rank bm i + 1)
              (ch.set i (some m)) = .ok ch' ∧ ch'.length = 32 ∧
            ∀ c, ch'[c]? = if i ≤ c ∧ hasBit bm c = true
              then (es[rank bm c]?).map (fun x => some (conv hashf d x)) else ch[c]? := by
        intro m x hx hm
        obtain ⟨ch', h1, h2, h3⟩ := ih (i + 1) (ch.set i (some m)) (by omega) (by simpa using hl)
        rw [hr] at h1
        refine ⟨ch', h1, h2, ?_⟩
        intro c
        rw [h3 c]
        by_cases hc : c = i
        · subst hc
          have : ¬ (c + 1 ≤ c ∧ hasBit bm c = true) := by omega
          rw [if_neg this, if_pos ⟨Nat.le_refl _, hb⟩, hx]
          simp [hl, hi32, hm]
        · have : (i + 1 ≤ c ∧ hasBit bm c = true) ↔ (i ≤ c ∧ hasBit bm c = true) := by
            constructor <;> rintro ⟨a, b⟩ <;> exact ⟨by omega, b⟩
          simp only [this]
          rw [List.getElem?_set_ne (fun e => hc e.symm)]
      rw [List.getElem?_eq_getElem hlt]
      cases hx : es[rank bm i] with
      | sub child =>
        simp only []
        exact hstep child (.sub child) (by rw [List.getElem?_eq_getElem hlt, hx]) rfl
      | kv k v =>
        simp only [nextShift_shiftOf, assoc_empty fuel (d + 1) hd, ok_bind]
        exact hstep (single (d + 1) (hashf k) k v) (.kv k v) (by rw [List.getElem?_eq_getElem hlt, hx]) rfl

/-- the children of the array node built by `unpack` -/
theorem unpack_spec (fuel d : Nat) (hd : d + 1 ≤ 7) (bm : UInt32) (es : List (Entry K V))
    (hlen : es.length = rank bm 32) (hash : UInt32) (newChild : Node K V) :
    ∃ ch', unpack (assoc eq hashf (fuel + 1)) hashf bm es (shiftOf d) (chunk (shiftOf d) hash) newChild
        = .ok (.array ((es.length : Int) + 1) ch') ∧ ch'.length = 32 ∧
      ∀ c, ch'[c]? = match slot bm es c with
        | some x => some (some (conv hashf d x))
        | none => if c = chunkN d hash then some (some newChild) else if c < 32 then some none else none := by
  have hc0 := chunkN_lt d hash
  obtain ⟨ch', h1, h2, h3⟩ := unpackLoop_spec (eq := eq) (hashf := hashf) fuel d hd bm es hlen 32 0
    ((List.replicate 32 (none : Option (Node K V))).set (chunkN d hash) (some newChild)) rfl (by simp)
  refine ⟨ch', ?_, h2, ?_⟩
  · unfold unpack
    simp only [chunk_toNat d (by omega), nodeCap, -List.reduceReplicate]
    have : rank bm 0 = 0 := rfl
    rw [this] at h1
    rw [h1]
    rfl
  · intro c
    rw [h3 c]
    cases hb : hasBit bm c
    · simp only [Nat.zero_le, true_and, Bool.false_eq_true, if_false, slot_none_of_not_hasBit hb]
      rw [List.getElem?_set]
      by_cases hc : chunkN d hash = c
      · subst hc; simp [hc0]
      · rw [if_neg hc, if_neg (fun e => hc e.symm), List.getElem?_replicate]
    · have h32 : c < 32 := by
        rcases Nat.lt_or_ge c 32 with h | h
        · exact h
        · rw [hasBit_ge bm c h] at hb; cases hb
      obtain ⟨x, hx1, hx2⟩ := slot_isSome hlen h32 hb
      simp [hx1, hx2]

theorem countP_take_eq_rank (bm : UInt32) (ch : List (Option (Node K V)))
    (h : ∀ c, c < ch.length → (ch[c]?.bind id).isSome = hasBit bm c) :
    ∀ w, w ≤ ch.length → (ch.take w).countP Option.isSome = rank bm w := by
  intro w
  induction w with
  | zero => intro _; simp [rank, bcN]
  | succ w ih =>
    intro hw
    have hw' : w < ch.length := by omega
    rw [List.take_add_one, List.countP_append, ih (by omega), rank_succ, ← h w hw']
    rw [List.getElem?_eq_getElem hw']
    cases ch[w] <;> simp

theorem flat_take_len (d : Nat) (bm : UInt32) (es : List (Entry K V)) (hlen : es.length = rank bm 32)
    (ch : List (Option (Node K V))) (hl : ch.length = 32) (c0 : Nat) (newChild : Node K V)
    (hb0 : hasBit bm c0 = false)
    (h : ∀ c, ch[c]? = match slot bm es c with
        | some x => some (some (conv hashf d x))
        | none => if c = c0 then some (some newChild) else if c < 32 then some none else none) :
    ∀ w, w ≤ 32 → ((ch.take w).flatMap childAL).length =
      ((es.take (rank bm w)).flatMap entryAL).length + (if c0 < w then newChild.toAList.length else 0) := by
  intro w
  induction w with
  | zero => intro _; simp [rank, bcN]
  | succ w ih =>
    intro hw
    have hw' : w < 32 := by omega
    rw [List.take_add_one, List.flatMap_append, List.length_append, ih (by omega), rank_succ]
    have hcw := h w
    cases hb : hasBit bm w
    · rw [slot_none_of_not_hasBit hb] at hcw
      simp only [Bool.false_eq_true, if_false, Nat.add_zero]
      by_cases hc : w = c0
      · subst hc
        rw [if_pos rfl] at hcw
        simp [hcw, childAL]
      · rw [if_neg hc, if_pos hw'] at hcw
        have : (c0 < w + 1) ↔ (c0 < w) := by omega
        simp [hcw, childAL, this]
    · obtain ⟨x, hx1, hx2⟩ := slot_isSome hlen hw' hb
      rw [hx1] at hcw
      have hne : w ≠ c0 := by intro e; subst e; rw [hb] at hb0; cases hb0
      have : (c0 < w + 1) ↔ (c0 < w) := by omega
      simp only [if_true, List.take_add_one, List.flatMap_append, List.length_append, hx2, hcw, this]
      simp [childAL]
      omega

end C07
