/-
C07 helper lemmas, part 3: a bitmap node as a sparse array.
`slot bm es c` is the entry stored for chunk value `c`; inserting, replacing and
removing an entry at `index(bitmap, bit)` are the corresponding sparse updates.
-/
import ElvProofs.C07.Bitmap
namespace C07

variable {α : Type}

/-- the entry a bitmap node stores for chunk value `c` -/
def slot (bm : UInt32) (es : List α) (c : Nat) : Option α :=
  if hasBit bm c then es[rank bm c]? else none

theorem slot_none_of_not_hasBit {bm : UInt32} {es : List α} {c : Nat} (h : hasBit bm c = false) :
    slot bm es c = none := by simp [slot, h]

theorem slot_of_hasBit {bm : UInt32} {es : List α} {c : Nat} (h : hasBit bm c = true) :
    slot bm es c = es[rank bm c]? := by simp [slot, h]

theorem rank_lt_len {bm : UInt32} {es : List α} {c : Nat} (hlen : es.length = rank bm 32) (hc : c < 32)
    (h : hasBit bm c = true) : rank bm c < es.length := by
  rw [hlen]; exact rank_lt_of_hasBit bm hc h

theorem slot_isSome {bm : UInt32} {es : List α} {c : Nat} (hlen : es.length = rank bm 32) (hc : c < 32)
    (h : hasBit bm c = true) : ∃ e, slot bm es c = some e ∧ es[rank bm c]? = some e := by
  have := rank_lt_len hlen hc h
  exact ⟨es[rank bm c], by simp [slot, h, this], by simp [this]⟩

theorem hasBit_of_slot {bm : UInt32} {es : List α} {c : Nat} {e : α} (h : slot bm es c = some e) :
    hasBit bm c = true := by
  unfold slot at h; split at h <;> simp_all

/-- every index of the entry list is the slot of exactly one chunk value -/
theorem exists_chunk_of_index (bm : UInt32) (w j : Nat) (hj : j < rank bm w) :
    ∃ c < w, hasBit bm c = true ∧ rank bm c = j := by
  induction w with
  | zero => simp [rank, bcN] at hj
  | succ w ih =>
    rw [rank_succ] at hj
    by_cases h : j < rank bm w
    · obtain ⟨c, hc, hb, hr⟩ := ih h
      exact ⟨c, by omega, hb, hr⟩
    · cases hb : hasBit bm w
      · simp [hb] at hj; omega
      · simp [hb] at hj; exact ⟨w, by omega, hb, by omega⟩

theorem mem_iff_slot {bm : UInt32} {es : List α} (hlen : es.length = rank bm 32) (e : α) :
    e ∈ es ↔ ∃ c < 32, slot bm es c = some e := by
  constructor
  · intro h
    obtain ⟨j, hj, rfl⟩ := List.getElem_of_mem h
    obtain ⟨c, hc, hb, hr⟩ := exists_chunk_of_index bm 32 j (hlen ▸ hj)
    exact ⟨c, hc, by simp [slot, hb, hr, hj]⟩
  · rintro ⟨c, _, h⟩
    unfold slot at h
    split at h
    · exact List.mem_of_getElem? h
    · simp at h

theorem rank_inj {bm : UInt32} {c c' : Nat} (hb : hasBit bm c = true) (hb' : hasBit bm c' = true)
    (h : rank bm c = rank bm c') : c = c' := by
  rcases Nat.lt_trichotomy c c' with lt | eq | gt
  · have := rank_lt_of_hasBit bm lt hb; omega
  · exact eq
  · have := rank_lt_of_hasBit bm gt hb'; omega

theorem getElem?_insert (es : List α) (r : Nat) (e : α) (hr : r ≤ es.length) (j : Nat) :
    (es.take r ++ e :: es.drop r)[j]? =
      if j < r then es[j]? else if j = r then some e else es[j - 1]? := by
  have hl : (es.take r).length = r := by simp [hr]
  by_cases h1 : j < r
  · rw [if_pos h1, List.getElem?_append_left (by omega), List.getElem?_take_of_lt h1]
  · rw [if_neg h1, List.getElem?_append_right (by omega), hl]
    by_cases h2 : j = r
    · subst h2; simp
    · rw [if_neg h2]
      obtain ⟨t, ht⟩ : ∃ t, j - r = t + 1 := ⟨j - r - 1, by omega⟩
      rw [ht, List.getElem?_cons_succ, List.getElem?_drop]
      congr 1; omega

/-- insertion of a new entry for a chunk value that was absent -/
theorem slot_insert {bm : UInt32} {es : List α} {c : Nat} (hlen : es.length = rank bm 32) (hc : c < 32)
    (hb : hasBit bm c = false) (e : α) (c' : Nat) :
    slot (bm ||| bitU c) (es.take (rank bm c) ++ e :: es.drop (rank bm c)) c' =
      if c' = c then some e else slot bm es c' := by
  have hr : rank bm c ≤ es.length := by rw [hlen]; exact rank_mono bm (by omega)
  unfold slot
  rw [hasBit_or_bitU _ _ _ hc, rank_or_bitU _ _ _ hc hb, getElem?_insert _ _ _ hr]
  by_cases h : c' = c
  · subst h; simp
  · have hne : decide (c = c') = false := by simp; omega
    rw [if_neg h, hne, Bool.or_false]
    cases hb' : hasBit bm c'
    · simp
    · simp only [if_true]
      rcases Nat.lt_or_gt_of_ne h with lt | gt
      · have := rank_lt_of_hasBit bm lt hb'
        rw [if_neg (show ¬ c < c' by omega), Nat.add_zero, if_pos this]
      · have := rank_mono bm (Nat.le_of_lt gt)
        rw [if_pos gt, if_neg (by omega), if_neg (by omega)]
        simp

theorem length_insert (es : List α) (r : Nat) (e : α) (hr : r ≤ es.length) :
    (es.take r ++ e :: es.drop r).length = es.length + 1 := by
  simp; omega

/-- replacement of the entry of a present chunk value -/
theorem slot_set {bm : UInt32} {es : List α} {c : Nat} (hlen : es.length = rank bm 32) (hc : c < 32)
    (hb : hasBit bm c = true) (e : α) (c' : Nat) :
    slot bm (es.set (rank bm c) e) c' = if c' = c then some e else slot bm es c' := by
  have hr := rank_lt_len hlen hc hb
  unfold slot
  by_cases h : c' = c
  · subst h; simp [hb, hr]
  · rw [if_neg h]
    cases hb' : hasBit bm c'
    · simp
    · simp only [if_true]
      rw [List.getElem?_set_ne]
      intro e'; exact h (rank_inj hb' hb e'.symm)

/-- removal of the entry of a present chunk value -/
theorem slot_erase {bm : UInt32} {es : List α} {c : Nat} (hc : c < 32)
    (hb : hasBit bm c = true) (c' : Nat) :
    slot (bm ^^^ bitU c) (es.eraseIdx (rank bm c)) c' = if c' = c then none else slot bm es c' := by
  unfold slot
  rw [hasBit_xor_bitU _ _ _ hc]
  by_cases h : c' = c
  · subst h; simp [hb]
  · have hne : decide (c = c') = false := by simp; omega
    rw [if_neg h, hne, Bool.xor_false]
    cases hb' : hasBit bm c'
    · simp
    · simp only [if_true]
      have hx := rank_xor_bitU bm c c' hc hb
      rw [List.getElem?_eraseIdx]
      rcases Nat.lt_or_gt_of_ne h with lt | gt
      · have := rank_lt_of_hasBit bm lt hb'
        rw [if_neg (show ¬ c < c' by omega), Nat.add_zero] at hx
        rw [← hx, if_pos (by omega)]
      · have := rank_lt_of_hasBit bm gt hb
        rw [if_pos gt] at hx
        rw [if_neg (by omega)]
        congr 1

theorem rank32_or {bm : UInt32} {c : Nat} (hc : c < 32) (hb : hasBit bm c = false) :
    rank (bm ||| bitU c) 32 = rank bm 32 + 1 := by
  rw [rank_or_bitU _ _ _ hc hb, if_pos hc]

theorem rank32_xor {bm : UInt32} {c : Nat} (hc : c < 32) (hb : hasBit bm c = true) :
    rank (bm ^^^ bitU c) 32 + 1 = rank bm 32 := by
  have := rank_xor_bitU bm c 32 hc hb
  rwa [if_pos hc] at this

end C07
