/-
C07 helper lemmas, part 6: `find` never fails on well-formed nodes; singleton
bitmap nodes; `emptyBitmapNode.assoc`; replacing/appending in collision nodes.
-/
import ElvProofs.C07.AList
namespace C07
open Go Gen.C07Bits

variable {K V : Type} {eq : K → K → Bool} {hashf : K → UInt32}

theorem find_ok {d : Nat} {n : Node K V} (h : WF eq hashf d n) :
    ∀ (hash : UInt32) (k : K), ∃ r, n.find eq (shiftOf d) hash k = .ok r := by
  induction h with
  | @bitmap d bm es hd hlen hkv hsub hkeys ih =>
    intro hash k
    rw [find_bitmap eq d (by omega) bm es hlen]
    have hc := chunkN_lt d hash
    cases hs : slot bm es (chunkN d hash) with
    | none => exact ⟨_, rfl⟩
    | some x =>
      cases x with
      | kv k0 v0 => exact ⟨_, rfl⟩
      | sub n => exact ih _ n hc hs hash k
  | @array d nc cs hd hlen hnc hmin hsub hkeys ih =>
    intro hash k
    rw [find_array eq d (by omega)]
    have hc := chunkN_lt d hash
    have : chunkN d hash < cs.length := by omega
    cases hs : cs[chunkN d hash]? with
    | none => simp at hs; omega
    | some x =>
      cases x with
      | none => exact ⟨_, rfl⟩
      | some n => exact ih _ n hs hash k
  | collision hne hh hnd =>
    intro hash k
    rw [find_collision]
    exact ⟨_, rfl⟩

theorem not_eq_of_chunk_ne (L : Lawful eq hashf) {d : Nat} {a b : K}
    (h : chunkN d (hashf a) ≠ chunkN d (hashf b)) : eq a b = false := by
  cases he : eq a b
  · rfl
  · exact absurd (congrArg (chunkN d) (L.hash a b he)) h

theorem eq_false_symm (L : Lawful eq hashf) {a b : K} (h : eq a b = false) : eq b a = false := by
  cases he : eq b a
  · rfl
  · rw [L.symm b a he] at h; cases h

/-! ### singleton bitmap nodes -/

/-- `bitmapNode{bitpos(shift, hash), [{k, v}]}` -/
def single (d : Nat) (hash : UInt32) (k : K) (v : V) : Node K V :=
  .bitmap (bitU (chunkN d hash)) [.kv k v]

theorem hasBit_zero (c : Nat) : hasBit 0 c = false := by
  unfold hasBit; exact Nat.zero_testBit c

theorem rank_zero (c : Nat) : rank 0 c = 0 := by
  unfold rank; exact bcN_zero_right c

theorem slot_single {α : Type} (c : Nat) (hc : c < 32) (x : α) (c' : Nat) :
    slot (bitU c) [x] c' = if c' = c then some x else none := by
  have := slot_insert (bm := 0) (es := ([] : List α)) (c := c) (by simp [rank_zero]) hc (hasBit_zero c) x c'
  simp only [rank_zero, List.take_nil, List.drop_nil, List.nil_append, UInt32.zero_or] at this
  rw [this]
  simp [slot, hasBit_zero]

theorem rank_bitU_32 (c : Nat) (hc : c < 32) : rank (bitU c) 32 = 1 := by
  have := rank32_or (bm := 0) hc (hasBit_zero c)
  simpa [rank_zero] using this

theorem wf_single (d : Nat) (hd : d ≤ 6) (k : K) (v : V) :
    WF eq hashf d (single d (hashf k) k v) := by
  have hc := chunkN_lt d (hashf k)
  refine WF.bitmap hd (by simp [rank_bitU_32 _ hc]) ?_ ?_ ?_
  · intro c k' v' _ hs
    rw [slot_single _ hc] at hs
    split at hs
    · next h => cases hs; exact h.symm
    · cases hs
  · intro c n _ hs
    rw [slot_single _ hc] at hs
    split at hs <;> cases hs
  · intro c n _ hs
    rw [slot_single _ hc] at hs
    split at hs <;> cases hs

@[simp] theorem toAList_single (d : Nat) (hash : UInt32) (k : K) (v : V) :
    (single d hash k v : Node K V).toAList = [(k, v)] := by
  simp [single, entryAL]

theorem find_single (L : Lawful eq hashf) (d : Nat) (hd : d ≤ 7) (k : K) (v : V) (k' : K) :
    (single d (hashf k) k v).find eq (shiftOf d) (hashf k') k' = .ok (if eq k k' then some v else none) := by
  have hc := chunkN_lt d (hashf k)
  unfold single
  rw [find_bitmap eq d hd _ _ (by simp [rank_bitU_32 _ hc]), slot_single _ hc]
  by_cases h : chunkN d (hashf k') = chunkN d (hashf k)
  · simp [h]
  · have := not_eq_of_chunk_ne L (fun e => h e.symm)
    simp [h, this]

theorem assoc_empty (fuel : Nat) (d : Nat) (hd : d ≤ 7) (hash : UInt32) (k : K) (v : V) :
    assoc eq hashf (fuel + 1) emptyBitmapNode (shiftOf d) hash k v = .ok (single d hash k v, true) := by
  have hc := chunkN_lt d hash
  have hi : (Gen.C07Bits.index 0 (bitU (chunkN d hash))).toNat = 0 := by
    rw [index_bitU _ _ hc, rank_zero]
  simp [assoc, emptyBitmapNode, bitpos_eq d hd, nodeCap, insertEntry, single, hi]

/-! ### collision-node updates -/

theorem coll_replace (L : Lawful eq hashf) (k : K) (v : V) :
    ∀ (kvs : List (K × V)) (i : Nat), kvs.findIdx? (fun e => eq k e.1) = some i → ∀ k',
      ((kvs.set i (k, v)).find? (fun e => eq k' e.1)).map (·.2) =
        if eq k k' then some v else (kvs.find? (fun e => eq k' e.1)).map (·.2) := by
  intro kvs
  induction kvs with
  | nil => intro i h; simp at h
  | cons e kvs ih =>
    intro i h k'
    rw [List.findIdx?_cons] at h
    by_cases he : eq k e.1 = true
    · simp only [he, if_true, Option.some.injEq] at h
      subst h
      simp only [List.set_cons_zero, List.find?_cons]
      by_cases hk : eq k k' = true
      · simp [hk, L.symm _ _ hk]
      · simp only [Bool.not_eq_true] at hk
        have h1 : eq k' k = false := eq_false_symm L hk
        have h2 : eq k' e.1 = false := by
          cases h2 : eq k' e.1
          · rfl
          · have := L.trans _ _ _ he (L.symm _ _ h2); rw [this] at hk; cases hk
        simp [hk, h1, h2]
    · simp only [Bool.not_eq_true] at he
      simp only [he] at h
      cases hf : List.findIdx? (fun e => eq k e.1) kvs with
      | none => simp [hf] at h
      | some j =>
        simp [hf] at h
        subst h
        simp only [List.set_cons_succ, List.find?_cons]
        by_cases h2 : eq k' e.1 = true
        · have : eq k k' = false := by
            cases h3 : eq k k'
            · rfl
            · have := L.trans _ _ _ h3 h2; rw [this] at he; cases he
          simp [h2, this]
        · simp only [Bool.not_eq_true] at h2
          simp only [h2]
          exact ih j hf k'

theorem coll_append (L : Lawful eq hashf) (k : K) (v : V) (kvs : List (K × V))
    (h : kvs.findIdx? (fun e => eq k e.1) = none) (k' : K) :
    ((kvs ++ [(k, v)]).find? (fun e => eq k' e.1)).map (·.2) =
      if eq k k' then some v else (kvs.find? (fun e => eq k' e.1)).map (·.2) := by
  rw [List.findIdx?_eq_none_iff] at h
  rw [List.find?_append]
  by_cases hk : eq k k' = true
  · have : kvs.find? (fun e => eq k' e.1) = none := by
      rw [List.find?_eq_none]
      intro e he h2
      have := L.trans _ _ _ hk h2
      have := h e he
      simp_all
    simp [this, hk, L.symm _ _ hk]
  · simp only [Bool.not_eq_true] at hk
    have h1 : eq k' k = false := eq_false_symm L hk
    simp [hk, h1]

theorem pairwise_set_of_eq (L : Lawful eq hashf) (k : K) (v : V) :
    ∀ (kvs : List (K × V)) (i : Nat), kvs.findIdx? (fun e => eq k e.1) = some i →
      kvs.Pairwise (fun a b => eq a.1 b.1 = false) →
      (kvs.set i (k, v)).Pairwise (fun a b => eq a.1 b.1 = false) := by
  intro kvs
  induction kvs with
  | nil => intro i h; simp at h
  | cons e kvs ih =>
    intro i h hp
    rw [List.pairwise_cons] at hp
    rw [List.findIdx?_cons] at h
    by_cases he : eq k e.1 = true
    · simp only [he, if_true, Option.some.injEq] at h
      subst h
      simp only [List.set_cons_zero, List.pairwise_cons]
      refine ⟨?_, hp.2⟩
      intro a ha
      cases h3 : eq k a.1
      · rfl
      · have := L.trans _ _ _ (L.symm _ _ he) h3
        rw [hp.1 a ha] at this; cases this
    · simp only [Bool.not_eq_true] at he
      simp only [he] at h
      cases hf : List.findIdx? (fun e => eq k e.1) kvs with
      | none => simp [hf] at h
      | some j =>
        simp [hf] at h
        subst h
        simp only [List.set_cons_succ, List.pairwise_cons]
        refine ⟨?_, ih j hf hp.2⟩
        intro a ha
        rcases List.mem_or_eq_of_mem_set ha with h1 | h1
        · exact hp.1 a h1
        · subst h1; exact eq_false_symm L he

end C07
