import ElvProofs.C07.Bits
import ElvModel.C07.Model
namespace C07
open Gen.C07Bits

/-- the shift at trie depth `d` -/
def shiftOf (d : Nat) : UInt32 := UInt32.ofNat (5 * d)
/-- the `d`-th 5-bit chunk of a hash -/
def chunkN (d : Nat) (h : UInt32) : Nat := (h.toNat / 2 ^ (5 * d)) % 32
/-- the single-bit bitmap `1 << c` -/
def bitU (c : Nat) : UInt32 := UInt32.ofNat (2 ^ c)
def hasBit (bm : UInt32) (c : Nat) : Bool := bm.toNat.testBit c
/-- number of set bits below position `c` -/
def rank (bm : UInt32) (c : Nat) : Nat := bcN c bm.toNat

theorem chunkN_lt (d h) : chunkN d h < 32 := Nat.mod_lt _ (by decide)

theorem nextShift_shiftOf (d : Nat) : nextShift (shiftOf d) = shiftOf (d + 1) := by
  unfold nextShift shiftOf chunkBits
  rw [show 5 * (d + 1) = 5 * d + 5 by omega, UInt32.ofNat_add]

theorem bitU_toNat (c : Nat) (hc : c < 32) : (bitU c).toNat = 2 ^ c := by
  unfold bitU
  rw [UInt32.toNat_ofNat']
  exact Nat.mod_eq_of_lt (Nat.pow_lt_pow_right (by decide) hc)

theorem chunk_toNat (d : Nat) (hd : d ≤ 7) (h : UInt32) : (chunk (shiftOf d) h).toNat = chunkN d h := by
  have hh := h.toNat_lt
  have : d = 0 ∨ d = 1 ∨ d = 2 ∨ d = 3 ∨ d = 4 ∨ d = 5 ∨ d = 6 ∨ d = 7 := by omega
  rcases this with rfl | rfl | rfl | rfl | rfl | rfl | rfl | rfl <;>
    simp [chunk, shiftOf, chunkN, chunkMask, UInt32.toNat_and, UInt32.toNat_shiftRight,
      Nat.shiftRight_eq_div_pow, Nat.and_two_pow_sub_one_eq_mod _ 5] <;> omega

theorem bitpos_eq (d : Nat) (hd : d ≤ 7) (h : UInt32) : bitpos (shiftOf d) h = bitU (chunkN d h) := by
  have hc := chunkN_lt d h
  apply UInt32.toNat_inj.mp
  rw [bitU_toNat _ hc]
  unfold bitpos
  rw [chunk_toNat d hd h, if_pos hc, UInt32.toNat_shiftLeft, UInt32.toNat_ofNat']
  have e : chunkN d h % 2 ^ 32 % 32 = chunkN d h := by omega
  rw [e, show (1 : UInt32).toNat = 1 from rfl, Nat.one_shiftLeft]
  exact Nat.mod_eq_of_lt (Nat.pow_lt_pow_right (by decide) hc)

theorem hasBit_ge (bm : UInt32) (i : Nat) (hi : 32 ≤ i) : hasBit bm i = false := by
  unfold hasBit
  apply Nat.testBit_lt_two_pow
  exact Nat.lt_of_lt_of_le bm.toNat_lt (Nat.pow_le_pow_right (by decide) hi)

theorem rank_succ (bm : UInt32) (c : Nat) : rank bm (c + 1) = rank bm c + (if hasBit bm c then 1 else 0) :=
  bcN_succ_top c bm.toNat

theorem rank_mono (bm : UInt32) {c c' : Nat} (h : c ≤ c') : rank bm c ≤ rank bm c' := bcN_mono _ h

theorem rank_lt_of_hasBit (bm : UInt32) {c c' : Nat} (h : c < c') (hb : hasBit bm c = true) :
    rank bm c < rank bm c' := bcN_lt_of_testBit _ h hb

theorem popCount_eq_rank (bm : UInt32) : (popCount bm).toNat = rank bm 32 := popCount_toNat bm

theorem and_bitU_eq_zero (bm : UInt32) (c : Nat) (hc : c < 32) :
    (bm &&& bitU c == 0) = !hasBit bm c := by
  have h2 : (bm &&& bitU c).toNat = bm.toNat &&& 2 ^ c := by rw [UInt32.toNat_and, bitU_toNat c hc]
  unfold hasBit
  cases hb : bm.toNat.testBit c
  · have h3 : bm.toNat &&& 2 ^ c = 0 := by
      apply Nat.eq_of_testBit_eq
      intro i
      rw [Nat.testBit_and, Nat.testBit_two_pow, Nat.zero_testBit]
      by_cases h : c = i
      · subst h; simp [hb]
      · simp [h]
    have : bm &&& bitU c = 0 := UInt32.toNat_inj.mp (by rw [h2, h3]; rfl)
    simp [this]
  · have h3 : (bm.toNat &&& 2 ^ c).testBit c = true := by
      rw [Nat.testBit_and, Nat.testBit_two_pow, hb]; simp
    have : bm &&& bitU c ≠ 0 := by
      intro e
      have e2 := congrArg UInt32.toNat e
      rw [h2] at e2
      rw [e2] at h3
      simp at h3
    simp [this]

theorem index_bitU (bm : UInt32) (c : Nat) (hc : c < 32) : (index bm (bitU c)).toNat = rank bm c := by
  unfold index rank
  rw [popCount_toNat, UInt32.toNat_and, UInt32.toNat_sub, bitU_toNat c hc]
  have hp : 0 < 2 ^ c := Nat.two_pow_pos c
  have hlt : 2 ^ c < 2 ^ 32 := Nat.pow_lt_pow_right (by decide) hc
  have e : (2 ^ 32 - (1 : UInt32).toNat + 2 ^ c) % 2 ^ 32 = 2 ^ c - 1 := by
    rw [show (1 : UInt32).toNat = 1 from rfl]
    have : 2 ^ 32 - 1 + 2 ^ c = (2 ^ c - 1) + 2 ^ 32 := by omega
    rw [this, Nat.add_mod_right]
    exact Nat.mod_eq_of_lt (by omega)
  rw [e, Nat.and_two_pow_sub_one_eq_mod, bcN_mod c 32 _ (by omega)]

theorem hasBit_or_bitU (bm : UInt32) (c i : Nat) (hc : c < 32) :
    hasBit (bm ||| bitU c) i = (hasBit bm i || decide (c = i)) := by
  unfold hasBit
  rw [UInt32.toNat_or, bitU_toNat c hc, Nat.testBit_or, Nat.testBit_two_pow]

theorem hasBit_xor_bitU (bm : UInt32) (c i : Nat) (hc : c < 32) :
    hasBit (bm ^^^ bitU c) i = (hasBit bm i ^^ decide (c = i)) := by
  unfold hasBit
  rw [UInt32.toNat_xor, bitU_toNat c hc, Nat.testBit_xor, Nat.testBit_two_pow]

theorem rank_or_bitU (bm : UInt32) (c i : Nat) (hc : c < 32) (hb : hasBit bm c = false) :
    rank (bm ||| bitU c) i = rank bm i + (if c < i then 1 else 0) := by
  induction i with
  | zero => simp [rank, bcN]
  | succ i ih =>
    rw [rank_succ, rank_succ, ih, hasBit_or_bitU _ _ _ hc]
    by_cases h : c = i
    · subst h; simp [hb]
    · have : decide (c = i) = false := by simp [h]
      rw [this, Bool.or_false]
      split <;> split <;> split <;> omega

theorem rank_xor_bitU (bm : UInt32) (c i : Nat) (hc : c < 32) (hb : hasBit bm c = true) :
    rank (bm ^^^ bitU c) i + (if c < i then 1 else 0) = rank bm i := by
  induction i with
  | zero => simp [rank, bcN]
  | succ i ih =>
    rw [rank_succ, rank_succ, ← ih, hasBit_xor_bitU _ _ _ hc]
    by_cases h : c = i
    · subst h; simp [hb]
    · have : decide (c = i) = false := by simp [h]
      rw [this, Bool.xor_false]
      split <;> split <;> split <;> omega

theorem shr_and_one (bm : UInt32) (i : Nat) (hi : i < 32) :
    ((bm >>> UInt32.ofNat i) &&& 1 != 0) = hasBit bm i := by
  have h1 : ((bm >>> UInt32.ofNat i) &&& 1).toNat = bm.toNat / 2 ^ i % 2 := by
    rw [UInt32.toNat_and, UInt32.toNat_shiftRight, UInt32.toNat_ofNat', Nat.shiftRight_eq_div_pow,
      show (1 : UInt32).toNat = 1 from rfl, Nat.and_one_is_mod]
    congr 3; omega
  unfold hasBit
  rw [Nat.testBit_eq_decide_div_mod_eq]
  by_cases h : bm.toNat / 2 ^ i % 2 = 1
  · have : (bm >>> UInt32.ofNat i) &&& 1 ≠ 0 := by
      intro e; rw [e] at h1; simp at h1; omega
    simp [this, h]
  · have : (bm >>> UInt32.ofNat i) &&& 1 = 0 := UInt32.toNat_inj.mp (by rw [h1]; simp; omega)
    simp [this, h]

theorem one_shl_eq_bitU (i : Nat) (hi : i < 32) : (1 : UInt32) <<< UInt32.ofNat i = bitU i := by
  apply UInt32.toNat_inj.mp
  rw [bitU_toNat i hi, UInt32.toNat_shiftLeft, UInt32.toNat_ofNat',
    show (1 : UInt32).toNat = 1 from rfl, Nat.one_shiftLeft]
  have : i % 2 ^ 32 % 32 = i := by omega
  rw [this]
  exact Nat.mod_eq_of_lt (Nat.pow_lt_pow_right (by decide) hi)

/-- hashes that agree in all seven chunks are equal (so a `collisionNode`'s
retry one level down terminates at shift ≤ 30) -/
theorem eq_of_chunkN_eq (h1 h2 : UInt32) (h : ∀ d ≤ 6, chunkN d h1 = chunkN d h2) : h1 = h2 := by
  apply UInt32.toNat_inj.mp
  have a := h1.toNat_lt; have b := h2.toNat_lt
  have c0 := h 0 (by omega); have c1 := h 1 (by omega); have c2 := h 2 (by omega)
  have c3 := h 3 (by omega); have c4 := h 4 (by omega); have c5 := h 5 (by omega)
  have c6 := h 6 (by omega)
  unfold chunkN at *
  simp only [Nat.reduceMul, Nat.reducePow] at *
  omega

theorem chunkN_seven (h : UInt32) : chunkN 7 h = 0 := by
  have := h.toNat_lt
  unfold chunkN
  simp only [Nat.reduceMul, Nat.reducePow]
  omega

end C07
