/-
C07 helper lemmas, part 12: the contents `toAList` of a well-formed node hold
no two `eq` keys, and `find` is exactly lookup in the contents.
-/
import ElvProofs.C07.Assoc6
namespace C07
open Go Gen.C07Bits

variable {K V : Type} {eq : K → K → Bool} {hashf : K → UInt32}

/-- no two entries with `eq` keys -/
def NoDupKeys (eq : K → K → Bool) (l : List (K × V)) : Prop :=
  l.Pairwise (fun a b => eq a.1 b.1 = false)

theorem entry_chunk {d : Nat} {bm : UInt32} {es : List (Entry K V)}
    (hwf : WF eq hashf d (.bitmap bm es)) {c : Nat} (hc : c < 32) {x : Entry K V}
    (hx : slot bm es c = some x) {e : K × V} (he : e ∈ entryAL x) : chunkN d (hashf e.1) = c := by
  cases hwf with
  | bitmap hd hlen hkv hsub hkeys =>
  cases x with
  | kv k v => simp [entryAL] at he; subst he; exact hkv c k v hc hx
  | sub n => exact (hkeys c n hc hx).2 e he

theorem nodup_toAList (L : Lawful eq hashf) {d : Nat} {n : Node K V} (h : WF eq hashf d n) :
    NoDupKeys eq n.toAList := by
  induction h with
  | @bitmap d bm es hd hlen hkv hsub hkeys ih =>
    have hwf : WF eq hashf d (.bitmap bm es) := WF.bitmap hd hlen hkv hsub hkeys
    unfold NoDupKeys
    rw [toAList_bitmap, List.pairwise_flatMap]
    constructor
    · intro x hx
      obtain ⟨c, hc, hs⟩ := (mem_iff_slot hlen x).mp hx
      cases x with
      | kv k v => simp [entryAL]
      | sub n => exact ih c n hc hs
    · rw [List.pairwise_iff_getElem]
      intro i j hi hj hij a ha b hb
      obtain ⟨ci, hci, hbi, hri⟩ := exists_chunk_of_index bm 32 i (hlen ▸ hi)
      obtain ⟨cj, hcj, hbj, hrj⟩ := exists_chunk_of_index bm 32 j (hlen ▸ hj)
      have hsi : slot bm es ci = some es[i] := by simp [slot, hbi, hri, hi]
      have hsj : slot bm es cj = some es[j] := by simp [slot, hbj, hrj, hj]
      have h1 := entry_chunk hwf hci hsi ha
      have h2 := entry_chunk hwf hcj hsj hb
      apply not_eq_of_chunk_ne L (d := d)
      rw [h1, h2]
      intro e; subst e; omega
  | @array d nc cs hd hlen hnc hmin hsub hkeys ih =>
    unfold NoDupKeys
    rw [toAList_array, List.pairwise_flatMap]
    constructor
    · intro x hx
      obtain ⟨c, hc, rfl⟩ := List.getElem_of_mem hx
      cases hxc : cs[c] with
      | none => simp [childAL]
      | some n => exact ih c n (by rw [List.getElem?_eq_getElem hc, hxc])
    · rw [List.pairwise_iff_getElem]
      intro i j hi hj hij a ha b hb
      cases hxi : cs[i] with
      | none => rw [hxi] at ha; simp [childAL] at ha
      | some ni =>
        cases hxj : cs[j] with
        | none => rw [hxj] at hb; simp [childAL] at hb
        | some nj =>
          rw [hxi] at ha; rw [hxj] at hb
          have h1 := (hkeys i ni (by rw [List.getElem?_eq_getElem hi, hxi])).2 a ha
          have h2 := (hkeys j nj (by rw [List.getElem?_eq_getElem hj, hxj])).2 b hb
          apply not_eq_of_chunk_ne L (d := d)
          rw [h1, h2]; omega
  | collision hne hh hnd => simpa [NoDupKeys] using hnd

/-- `find` returns only what the contents hold -/
theorem find_sound (L : Lawful eq hashf) {d : Nat} {n : Node K V} (h : WF eq hashf d n) :
    ∀ (hash : UInt32) (k : K) (v : V), n.find eq (shiftOf d) hash k = .ok (some v) →
      ∃ k0, eq k0 k = true ∧ (k0, v) ∈ n.toAList := by
  induction h with
  | @bitmap d bm es hd hlen hkv hsub hkeys ih =>
    intro hash k v hf
    rw [find_bitmap eq d (by omega) bm es hlen] at hf
    have hc := chunkN_lt d hash
    cases hs : slot bm es (chunkN d hash) with
    | none => rw [hs] at hf; cases hf
    | some x =>
      rw [hs] at hf
      cases x with
      | kv k0 v0 =>
        simp only [Res.ok.injEq] at hf
        by_cases he : eq k0 k = true
        · simp [he] at hf; subst hf
          exact ⟨k0, he, mem_bitmap_of_slot hs (by simp [entryAL])⟩
        · simp [he] at hf
      | sub n0 =>
        obtain ⟨k0, h1, h2⟩ := ih _ n0 hc hs hash k v hf
        exact ⟨k0, h1, mem_bitmap_of_slot hs (by simpa [entryAL] using h2)⟩
  | @array d nc cs hd hlen hnc hmin hsub hkeys ih =>
    intro hash k v hf
    rw [find_array eq d (by omega)] at hf
    cases hs : cs[chunkN d hash]? with
    | none => rw [hs] at hf; cases hf
    | some x =>
      rw [hs] at hf
      cases x with
      | none => cases hf
      | some n0 =>
        obtain ⟨k0, h1, h2⟩ := ih _ n0 hs hash k v hf
        exact ⟨k0, h1, mem_array_of_child hs h2⟩
  | @collision d h kvs hne hh hnd =>
    intro hash k v hf
    rw [find_collision] at hf
    simp only [Res.ok.injEq] at hf
    cases hfi : kvs.find? (fun e => eq k e.1) with
    | none => rw [hfi] at hf; cases hf
    | some e =>
      rw [hfi] at hf
      simp at hf; subst hf
      have := List.find?_some hfi
      exact ⟨e.1, L.symm _ _ this, by simpa using List.mem_of_find?_eq_some hfi⟩

theorem pairwise_unique {l : List (K × V)} (hp : NoDupKeys eq l) (L : Lawful eq hashf)
    {a b : K × V} (ha : a ∈ l) (hb : b ∈ l) (he : eq a.1 b.1 = true) : a = b := by
  induction l with
  | nil => cases ha
  | cons x l ih =>
    unfold NoDupKeys at hp
    rw [List.pairwise_cons] at hp
    rcases List.mem_cons.mp ha with rfl | ha' <;> rcases List.mem_cons.mp hb with rfl | hb'
    · rfl
    · have := hp.1 b hb'; rw [he] at this; cases this
    · have := hp.1 a ha'; rw [L.symm _ _ he] at this; cases this
    · exact ih hp.2 ha' hb'

/-- every entry of the contents is found under every key `eq` to its key -/
theorem find_complete (L : Lawful eq hashf) {d : Nat} {n : Node K V} (h : WF eq hashf d n) :
    ∀ (k0 k : K) (v : V), (k0, v) ∈ n.toAList → eq k0 k = true →
      n.find eq (shiftOf d) (hashf k) k = .ok (some v) := by
  induction h with
  | @bitmap d bm es hd hlen hkv hsub hkeys ih =>
    intro k0 k v hm he
    have hwf : WF eq hashf d (.bitmap bm es) := WF.bitmap hd hlen hkv hsub hkeys
    rw [toAList_bitmap, List.mem_flatMap] at hm
    obtain ⟨x, hx, hxm⟩ := hm
    obtain ⟨c, hc, hs⟩ := (mem_iff_slot hlen x).mp hx
    have hck := entry_chunk hwf hc hs hxm
    simp only at hck
    rw [L.hash _ _ he] at hck
    rw [find_bitmap eq d (by omega) bm es hlen, hck, hs]
    cases x with
    | kv k1 v1 =>
      simp [entryAL] at hxm
      obtain ⟨rfl, rfl⟩ := hxm
      simp [he]
    | sub n0 => exact ih c n0 hc hs k0 k v (by simpa [entryAL] using hxm) he
  | @array d nc cs hd hlen hnc hmin hsub hkeys ih =>
    intro k0 k v hm he
    rw [toAList_array, List.mem_flatMap] at hm
    obtain ⟨x, hx, hxm⟩ := hm
    obtain ⟨c, hc, rfl⟩ := List.getElem_of_mem hx
    cases hxc : cs[c] with
    | none => rw [hxc] at hxm; simp [childAL] at hxm
    | some n0 =>
      rw [hxc] at hxm
      have hs : cs[c]? = some (some n0) := by rw [List.getElem?_eq_getElem hc, hxc]
      have hck := (hkeys c n0 hs).2 _ hxm
      simp only at hck
      rw [L.hash _ _ he] at hck
      rw [find_array eq d (by omega), hck, hs]
      exact ih c n0 hs k0 k v hxm he
  | @collision d h kvs hne hh hnd =>
    intro k0 k v hm he
    rw [find_collision]
    simp only [toAList_collision] at hm
    cases hfi : kvs.find? (fun e => eq k e.1) with
    | none =>
      rw [List.find?_eq_none] at hfi
      have := hfi _ hm
      simp [L.symm _ _ he] at this
    | some e =>
      have h1 := List.find?_some hfi
      have h2 := List.mem_of_find?_eq_some hfi
      have : (k0, v) = e := pairwise_unique (eq := eq) (hashf := hashf) hnd L hm h2
        (L.trans _ _ _ he h1)
      subst this
      rfl

/-- **`find` is lookup in the contents**: `find k = some v` exactly when the
contents hold an entry `(k0, v)` with `eq k0 k`. -/
theorem find_iff_mem (L : Lawful eq hashf) {d : Nat} {n : Node K V} (h : WF eq hashf d n)
    (k : K) (v : V) :
    n.find eq (shiftOf d) (hashf k) k = .ok (some v) ↔ ∃ k0, eq k0 k = true ∧ (k0, v) ∈ n.toAList :=
  ⟨find_sound L h (hashf k) k v, fun ⟨k0, he, hm⟩ => find_complete L h k0 k v hm he⟩

end C07
