/-
C07 helper lemmas, part 13: `node.without` — unfolding lemmas, `pack`, and the
specification `WPost`.
-/
import ElvProofs.C07.Contents
namespace C07
open Go Gen.C07Bits

variable {K V : Type} {eq : K → K → Bool} {hashf : K → UInt32}

/-- what the parent does with the result of `child.without` -/
def stepOf : Res (WRes K V × Bool) → Res (Step K V)
  | .ok (.same, _) => .ok .keep
  | .ok (.emptyPtr, _) => .ok .drop
  | .ok (.fresh c, del) => .ok (.replace c del)
  | .exc e => .exc e
  | .panic w => .panic w

theorem withoutAt_eq (eq : K → K → Bool) (es : List (Entry K V)) (i : Nat) (shift hash : UInt32) (k : K) :
    withoutAt eq es i shift hash k =
      match es[i]? with
      | none => .panic "index out of range"
      | some (.kv k0 _) => .ok (if eq k0 k then .drop else .keep)
      | some (.sub child) => stepOf (child.without eq (nextShift shift) hash k) := by
  induction es generalizing i with
  | nil => simp [withoutAt]
  | cons e es ih =>
    cases i with
    | zero =>
      cases e with
      | kv k0 v0 => simp [withoutAt]; split <;> rfl
      | sub child =>
        simp only [withoutAt, List.getElem?_cons_zero, stepOf]
        split <;> simp_all
    | succ i => cases e <;> simp [withoutAt, ih]

theorem withoutChild_eq (eq : K → K → Bool) (cs : List (Option (Node K V))) (i : Nat)
    (shift hash : UInt32) (k : K) :
    withoutChild eq cs i shift hash k =
      match cs[i]? with
      | none => outside "arrayNode.children shorter than 32"
      | some none => .ok .keep
      | some (some child) => stepOf (child.without eq (nextShift shift) hash k) := by
  induction cs generalizing i with
  | nil => simp [withoutChild]
  | cons c cs ih =>
    cases i with
    | zero =>
      cases c with
      | none => simp [withoutChild]
      | some child =>
        simp only [withoutChild, List.getElem?_cons_zero, stepOf]
        split <;> simp_all
    | succ i => cases c <;> simp [withoutChild, ih]

/-! ### specification -/

/-- the node a `without` result denotes (`none` = the global empty node) -/
def WRes.node (n : Node K V) : WRes K V → Option (Node K V)
  | .same => some n
  | .emptyPtr => none
  | .fresh m => some m

def findOpt (eq : K → K → Bool) (d : Nat) (o : Option (Node K V)) (hash : UInt32) (k : K) : Res (Option V) :=
  match o with
  | none => .ok none
  | some m => m.find eq (shiftOf d) hash k

def alOpt : Option (Node K V) → List (K × V)
  | none => []
  | some m => m.toAList

/-- what `n.without(shift, hash(k), k)` returning `(r, deleted)` guarantees -/
structure WPost (eq : K → K → Bool) (hashf : K → UInt32) (d : Nat) (n : Node K V) (k : K)
    (r : WRes K V) (deleted : Bool) : Prop where
  same : (r = .same) ↔ deleted = false
  wf : ∀ m, r = .fresh m → WF eq hashf d m ∧ m.toAList ≠ []
  find : ∀ k' old, n.find eq (shiftOf d) (hashf k') k' = .ok old →
    findOpt eq d (r.node n) (hashf k') k' = .ok (if eq k k' then none else old)
  size : (alOpt (r.node n)).length + (if deleted then 1 else 0) = n.toAList.length
  keys : ∀ e ∈ alOpt (r.node n), e ∈ n.toAList
  isDel : ∀ old, n.find eq (shiftOf d) (hashf k) k = .ok old → deleted = old.isSome

/-- keys that are `eq` are looked up alike -/
theorem find_none_congr (L : Lawful eq hashf) {d : Nat} {n : Node K V} (h : WF eq hashf d n)
    {k k' : K} (he : eq k k' = true) (hk : n.find eq (shiftOf d) (hashf k) k = .ok none)
    {old : Option V} (hold : n.find eq (shiftOf d) (hashf k') k' = .ok old) : old = none := by
  cases old with
  | none => rfl
  | some v =>
    obtain ⟨k0, h1, h2⟩ := (find_iff_mem L h k' v).mp hold
    have := find_complete L h k0 k v h2 (L.trans _ _ _ h1 (L.symm _ _ he))
    rw [hk] at this; cases this

/-- nothing to delete: the receiver is returned -/
theorem wpost_same (L : Lawful eq hashf) {d : Nat} {n : Node K V} (h : WF eq hashf d n) (k : K)
    (hk : n.find eq (shiftOf d) (hashf k) k = .ok none) : WPost eq hashf d n k .same false := by
  refine ⟨by simp, (by intro m hm; cases hm), ?_, by simp [WRes.node, alOpt], by simp [WRes.node, alOpt], ?_⟩
  · intro k' old hold
    simp only [WRes.node, findOpt]
    cases he : eq k k'
    · simpa using hold
    · rw [hold, find_none_congr L h he hk hold]; rfl
  · intro old hold
    rw [hk] at hold; cases hold; rfl

theorem exists_other_bit {bm : UInt32} {c : Nat} (hc : c < 32) (hne : bm ≠ bitU c) (hb : hasBit bm c = true) :
    ∃ i, i < 32 ∧ i ≠ c ∧ hasBit bm i = true := by
  apply Classical.byContradiction
  intro hno
  apply hne
  apply UInt32.toNat_inj.mp
  rw [bitU_toNat c hc]
  apply Nat.eq_of_testBit_eq
  intro i
  rw [Nat.testBit_two_pow]
  by_cases hi : c = i
  · subst hi; simpa [hasBit] using hb
  · have : hasBit bm i = false := by
      cases h : hasBit bm i
      · rfl
      · exfalso
        apply hno
        refine ⟨i, ?_, fun e => hi e.symm, h⟩
        rcases Nat.lt_or_ge i 32 with h32 | h32
        · exact h32
        · rw [hasBit_ge bm i h32] at h; cases h
    simpa [hasBit, hi] using this

theorem toAList_ne_nil_of_entries {d : Nat} {bm : UInt32} {es : List (Entry K V)}
    (hwf : WF eq hashf d (.bitmap bm es)) (hne : es ≠ []) : (Node.bitmap bm es).toAList ≠ [] := by
  cases hwf with
  | bitmap hd hlen hkv hsub hkeys =>
  obtain ⟨x, hx⟩ := List.exists_mem_of_ne_nil es hne
  obtain ⟨c, hc, hs⟩ := (mem_iff_slot hlen x).mp hx
  rw [toAList_bitmap]
  intro h
  have := List.flatMap_eq_nil_iff.mp h x hx
  cases x with
  | kv k v => simp [entryAL] at this
  | sub n => exact (hkeys c n hc hs).1 (by simpa [entryAL] using this)

/-- bitmap node: the entry of chunk `c` disappears -/
theorem wpost_bitmap_drop (L : Lawful eq hashf) {d : Nat} {bm : UInt32} {es : List (Entry K V)} {k : K}
    (hwf : WF eq hashf d (.bitmap bm es)) (hb : hasBit bm (chunkN d (hashf k)) = true)
    (x : Entry K V) (hx : slot bm es (chunkN d (hashf k)) = some x)
    (hfind : ∀ k' old, chunkN d (hashf k') = chunkN d (hashf k) →
      (match x with
        | .kv k0 v0 => Res.ok (if eq k0 k' then some v0 else none)
        | .sub n => n.find eq (shiftOf (d + 1)) (hashf k') k') = .ok old →
      (if eq k k' then none else old) = none)
    (hsize : (entryAL x).length = 1)
    (hisdel : ∀ old,
      (match x with
        | .kv k0 v0 => Res.ok (if eq k0 k then some v0 else none)
        | .sub n => n.find eq (shiftOf (d + 1)) (hashf k) k) = .ok old → old.isSome = true) :
    ∃ r, bitmapWithoutEntry bm es (bitU (chunkN d (hashf k))) (rank bm (chunkN d (hashf k))) = .ok r ∧
      WPost eq hashf d (.bitmap bm es) k r true := by
  have hwf' := hwf
  cases hwf with
  | bitmap hd hlen hkv hsub hkeys =>
  have hd7 : d ≤ 7 := by omega
  have hc := chunkN_lt d (hashf k)
  have hr := rank_lt_len hlen hc hb
  have hxi : es[rank bm (chunkN d (hashf k))] = x := by
    rw [slot_of_hasBit hb, List.getElem?_eq_getElem hr] at hx
    exact Option.some.inj hx
  have hsz := flatMap_split entryAL es _ hr
  rw [hxi] at hsz
  have hfindn : ∀ k' old, (Node.bitmap bm es).find eq (shiftOf d) (hashf k') k' = .ok old →
      chunkN d (hashf k') = chunkN d (hashf k) → (if eq k k' then none else old) = none := by
    intro k' old hold h
    rw [find_bitmap eq d hd7 _ _ hlen, h, hx] at hold
    exact hfind k' old h (by cases x <;> exact hold)
  have hisd : ∀ old, (Node.bitmap bm es).find eq (shiftOf d) (hashf k) k = .ok old → true = old.isSome := by
    intro old hold
    rw [find_bitmap eq d hd7 _ _ hlen, hx] at hold
    exact (hisdel old (by cases x <;> exact hold)).symm
  unfold bitmapWithoutEntry
  by_cases hbe : (bm == bitU (chunkN d (hashf k))) = true
  · have hbm : bm = bitU (chunkN d (hashf k)) := by simpa using hbe
    have hl1 : es.length = 1 := by rw [hlen, hbm, rank_bitU_32 _ hc]
    have hes : es = [x] := by
      obtain ⟨y, hy⟩ := List.length_eq_one_iff.mp hl1
      subst hy
      simp at hxi
      rw [hxi]
    refine ⟨.emptyPtr, by simp [hbe], ⟨by simp, (by intro m hm; cases hm), ?_, ?_, by simp [WRes.node, alOpt], hisd⟩⟩
    · intro k' old hold
      simp only [WRes.node, findOpt]
      by_cases h : chunkN d (hashf k') = chunkN d (hashf k)
      · rw [hfindn k' old hold h]
      · have hne := not_eq_of_chunk_ne L (fun e => h e.symm)
        rw [find_bitmap eq d hd7 _ _ hlen, hbm, hes, slot_single _ hc, if_neg h] at hold
        cases hold
        simp [hne]
    · simp only [WRes.node, alOpt, toAList_bitmap, hes]
      simp [hsize]
  · simp only [hbe, Bool.false_eq_true, if_false, withoutEntry, hr, if_true, ok_bind, pure_eq_ok]
    have hbm : bm ≠ bitU (chunkN d (hashf k)) := by simpa using hbe
    have hlen' : (es.eraseIdx (rank bm (chunkN d (hashf k)))).length = rank (bm ^^^ bitU (chunkN d (hashf k))) 32 := by
      have := rank32_xor hc hb
      rw [List.length_eraseIdx_of_lt hr]; omega
    have hslot := fun c' => slot_erase (es := es) hc hb c'
    have hwfn : WF eq hashf d (.bitmap (bm ^^^ bitU (chunkN d (hashf k))) (es.eraseIdx (rank bm (chunkN d (hashf k))))) := by
      refine WF.bitmap hd hlen' ?_ ?_ ?_
      · intro c k0 v0 hc0 hs
        rw [hslot] at hs; split at hs
        · cases hs
        · exact hkv c k0 v0 hc0 hs
      · intro c n hc0 hs
        rw [hslot] at hs; split at hs
        · cases hs
        · exact hsub c n hc0 hs
      · intro c n hc0 hs
        rw [hslot] at hs; split at hs
        · cases hs
        · exact hkeys c n hc0 hs
    have hne : es.eraseIdx (rank bm (chunkN d (hashf k))) ≠ [] := by
      obtain ⟨i, hi, hic, hbi⟩ := exists_other_bit hc hbm hb
      have : hasBit (bm ^^^ bitU (chunkN d (hashf k))) i = true := by
        rw [hasBit_xor_bitU _ _ _ hc, hbi]
        have : decide (chunkN d (hashf k) = i) = false := by simp; exact fun e => hic e.symm
        simp [this]
      have := rank_lt_of_hasBit _ hi this
      intro e
      rw [e] at hlen'
      simp at hlen'
      omega
    refine ⟨_, rfl, ⟨by simp, ?_, ?_, ?_, ?_, hisd⟩⟩
    · intro m hm
      cases hm
      exact ⟨hwfn, toAList_ne_nil_of_entries hwfn hne⟩
    · intro k' old hold
      simp only [WRes.node, findOpt]
      rw [find_bitmap eq d hd7 _ _ hlen', hslot]
      by_cases h : chunkN d (hashf k') = chunkN d (hashf k)
      · rw [if_pos h, hfindn k' old hold h]
      · have hne' := not_eq_of_chunk_ne L (fun e => h e.symm)
        rw [if_neg h, hne']
        rw [find_bitmap eq d hd7 _ _ hlen] at hold
        simpa using hold
    · simp only [WRes.node, alOpt, toAList_bitmap, if_true]
      rw [hsz, List.eraseIdx_eq_take_drop_succ, List.flatMap_append]
      simp only [List.length_append, hsize]
      omega
    · intro e he
      simp only [WRes.node, alOpt, toAList_bitmap] at he ⊢
      rw [List.mem_flatMap] at he ⊢
      obtain ⟨a, ha, hea⟩ := he
      exact ⟨a, List.mem_of_mem_eraseIdx ha, hea⟩

end C07
