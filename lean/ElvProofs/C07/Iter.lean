import ElvProofs.C07.Assoc6
