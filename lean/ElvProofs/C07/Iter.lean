/-
C07 helper lemmas, part 17: the iterator protocol (`HasElem / Elem / Next` as a
state machine) yields exactly the contents `toAList`, each entry once.
-/
import ElvProofs.C07.Without4
namespace C07
open Go Gen.C07Bits

variable {K V : Type}

/-- what is still to be yielded by an iterator state -/
def Iter.rest : Iter K V → List (K × V)
  | .bitmapIt es ix cur =>
    (match cur with
      | some c => c.rest
      | none =>
        match es[ix]? with
        | some (.kv k v) => [(k, v)]
        | _ => []) ++ (es.drop (ix + 1)).flatMap entryAL
  | .arrayIt cs ix cur =>
    match cur with
    | some c => c.rest ++ (cs.drop (ix + 1)).flatMap childAL
    | none => []
  | .collIt kvs ix => kvs.drop ix

/-- the children of a bitmap node are non-empty and their iterators yield their contents -/
def GoodEs (es : List (Entry K V)) : Prop :=
  ∀ n, Entry.sub n ∈ es → n.iterator.rest = n.toAList ∧ n.toAList ≠ []

def GoodCs (cs : List (Option (Node K V))) : Prop :=
  ∀ n, some n ∈ cs → n.iterator.rest = n.toAList ∧ n.toAList ≠ []

/-- iterator states reachable from `node.iterator()` on trees without empty children -/
inductive Valid : Iter K V → Prop
  | bitmapKV {es : List (Entry K V)} {ix : Nat} {k : K} {v : V} :
      es[ix]? = some (.kv k v) → GoodEs es → (∀ n, Entry.sub n ∈ es → Valid n.iterator) →
      Valid (.bitmapIt es ix none)
  | bitmapEnd {es : List (Entry K V)} {ix : Nat} : es.length ≤ ix → Valid (.bitmapIt es ix none)
  | bitmapSub {es : List (Entry K V)} {ix : Nat} {child : Node K V} {c : Iter K V} :
      es[ix]? = some (.sub child) → Valid c → c.rest ≠ [] → GoodEs es →
      (∀ n, Entry.sub n ∈ es → Valid n.iterator) → Valid (.bitmapIt es ix (some c))
  | arrayEnd {cs : List (Option (Node K V))} {ix : Nat} : Valid (.arrayIt cs ix none)
  | arraySub {cs : List (Option (Node K V))} {ix : Nat} {c : Iter K V} :
      Valid c → c.rest ≠ [] → GoodCs cs → (∀ n, some n ∈ cs → Valid n.iterator) →
      Valid (.arrayIt cs ix (some c))
  | coll {kvs : List (K × V)} {ix : Nat} : Valid (.collIt kvs ix)

theorem fixB_eq (es : List (Entry K V)) (i : Nat) :
    fixB es i = match es[i]? with
      | some (.sub child) => some child.iterator
      | _ => none := by
  induction es generalizing i with
  | nil => simp [fixB]
  | cons e es ih =>
    cases i with
    | zero => cases e <;> simp [fixB]
    | succ i => cases e <;> simp [fixB, ih]

theorem drop_flatMap_cons {α β : Type} (f : α → List β) (l : List α) (j : Nat) (x : α) (h : l[j]? = some x) :
    (l.drop j).flatMap f = f x ++ (l.drop (j + 1)).flatMap f := by
  have hj : j < l.length := by
    rcases Nat.lt_or_ge j l.length with h' | h'
    · exact h'
    · rw [List.getElem?_eq_none h'] at h; cases h
  rw [List.drop_eq_getElem_cons hj, List.flatMap_cons]
  rw [List.getElem?_eq_getElem hj] at h
  rw [Option.some.inj h]

theorem fixB_spec (es : List (Entry K V)) (hg : GoodEs es) (hv : ∀ n, Entry.sub n ∈ es → Valid n.iterator)
    (j : Nat) :
    Valid (.bitmapIt es j (fixB es j)) ∧
      (Iter.bitmapIt es j (fixB es j)).rest = (es.drop j).flatMap entryAL := by
  rw [fixB_eq]
  cases hx : es[j]? with
  | none =>
    have hj : es.length ≤ j := by
      rcases Nat.lt_or_ge j es.length with h | h
      · rw [List.getElem?_eq_getElem h] at hx; cases hx
      · exact h
    refine ⟨Valid.bitmapEnd hj, ?_⟩
    simp [Iter.rest, hx, List.drop_eq_nil_of_le hj, List.drop_eq_nil_of_le (Nat.le_succ_of_le hj)]
  | some x =>
    cases x with
    | kv k v =>
      refine ⟨Valid.bitmapKV hx hg hv, ?_⟩
      simp [Iter.rest, hx, drop_flatMap_cons entryAL es j _ hx, entryAL]
    | sub child =>
      have hm : Entry.sub child ∈ es := List.mem_of_getElem? hx
      obtain ⟨h1, h2⟩ := hg child hm
      refine ⟨Valid.bitmapSub hx (hv child hm) (by rw [h1]; exact h2) hg hv, ?_⟩
      simp [Iter.rest, drop_flatMap_cons entryAL es j _ hx, entryAL, h1]

theorem fixA_spec (cs0 : List (Option (Node K V))) (hg : GoodCs cs0) (hv : ∀ n, some n ∈ cs0 → Valid n.iterator) :
    ∀ (cs pre : List (Option (Node K V))) (skip : Nat), cs0 = pre ++ cs →
      Valid (.arrayIt cs0 (fixA cs skip pre.length).1 (fixA cs skip pre.length).2) ∧
      (Iter.arrayIt cs0 (fixA cs skip pre.length).1 (fixA cs skip pre.length).2).rest =
        (cs.drop skip).flatMap childAL := by
  intro cs
  induction cs with
  | nil =>
    intro pre skip _
    simp [fixA, Iter.rest, Valid.arrayEnd]
  | cons c cs ih =>
    intro pre skip hcs
    have hpre : cs0 = (pre ++ [c]) ++ cs := by simp [hcs]
    have hl : (pre ++ [c]).length = pre.length + 1 := by simp
    cases skip with
    | succ skip =>
      have := ih (pre ++ [c]) skip hpre
      rw [hl] at this
      simpa [fixA] using this
    | zero =>
      cases c with
      | none =>
        have := ih (pre ++ [none]) 0 hpre
        rw [hl] at this
        simpa [fixA, childAL] using this
      | some child =>
        have hm : some child ∈ cs0 := by rw [hcs]; simp
        obtain ⟨h1, h2⟩ := hg child hm
        simp only [fixA]
        refine ⟨Valid.arraySub (hv child hm) (by rw [h1]; exact h2) hg hv, ?_⟩
        simp only [Iter.rest, h1, List.drop_zero, List.flatMap_cons, childAL]
        rw [hcs]
        simp

theorem hasElem_spec {it : Iter K V} (h : Valid it) : it.hasElem = !it.rest.isEmpty := by
  cases h with
  | @bitmapKV es ix k v hx hg hv =>
    have hj : ix < es.length := by
      rcases Nat.lt_or_ge ix es.length with h' | h'
      · exact h'
      · rw [List.getElem?_eq_none h'] at hx; cases hx
    simp only [Iter.hasElem, Iter.rest, hx]
    simp [hj]
  | @bitmapEnd es ix hj =>
    simp [Iter.hasElem, Iter.rest, List.getElem?_eq_none hj, List.drop_eq_nil_of_le (Nat.le_succ_of_le hj)]
    omega
  | @bitmapSub es ix child c hx hc hne hg hv =>
    have hj : ix < es.length := by
      rcases Nat.lt_or_ge ix es.length with h' | h'
      · exact h'
      · rw [List.getElem?_eq_none h'] at hx; cases hx
    simp [Iter.hasElem, Iter.rest, hj, hne]
  | arrayEnd => simp [Iter.hasElem, Iter.rest]
  | arraySub hc hne hg hv => simp [Iter.hasElem, Iter.rest, hne]
  | @coll kvs ix =>
    simp only [Iter.hasElem, Iter.rest]
    by_cases h : ix < kvs.length
    · simp [h] <;> omega
    · simp [h] <;> omega

/-- one step of the protocol: `Elem` is the head of what remains, `Next` moves to the tail -/
theorem step_spec {it : Iter K V} (h : Valid it) :
    ∀ e tl, it.rest = e :: tl → it.elem = .ok e ∧ ∃ it', it.next = .ok it' ∧ Valid it' ∧ it'.rest = tl := by
  induction h with
  | @bitmapKV es ix k v hx hg hv _ =>
    intro e tl hr
    simp only [Iter.rest, hx, List.singleton_append, List.cons.injEq] at hr
    obtain ⟨rfl, rfl⟩ := hr
    refine ⟨by simp [Iter.elem, hx], _, by simp [Iter.next], (fixB_spec es hg hv (ix + 1)).1, (fixB_spec es hg hv (ix + 1)).2⟩
  | @bitmapEnd es ix hj =>
    intro e tl hr
    simp [Iter.rest, List.getElem?_eq_none hj, List.drop_eq_nil_of_le (Nat.le_succ_of_le hj)] at hr
  | @bitmapSub es ix child c hx hc hne hg hv ih _ =>
    intro e tl hr
    simp only [Iter.rest] at hr
    cases hcr : c.rest with
    | nil => exact absurd hcr hne
    | cons e' tl' =>
      rw [hcr, List.cons_append, List.cons.injEq] at hr
      obtain ⟨rfl, rfl⟩ := hr
      obtain ⟨he, c', hn, hv', hr'⟩ := ih e' tl' hcr
      refine ⟨by simp [Iter.elem, he], ?_⟩
      have hh := hasElem_spec hv'
      cases htl : tl' with
      | nil =>
        rw [hr', htl] at hh
        refine ⟨_, by simp [Iter.next, hn, hh], (fixB_spec es hg hv (ix + 1)).1, ?_⟩
        rw [(fixB_spec es hg hv (ix + 1)).2]; rfl
      | cons a b =>
        rw [hr', htl] at hh
        refine ⟨.bitmapIt es ix (some c'), by simp [Iter.next, hn, hh],
          Valid.bitmapSub hx hv' (by rw [hr', htl]; simp) hg hv, ?_⟩
        simp [Iter.rest, hr', htl]
  | arrayEnd =>
    intro e tl hr
    simp [Iter.rest] at hr
  | @arraySub cs ix c hc hne hg hv ih _ =>
    intro e tl hr
    simp only [Iter.rest] at hr
    cases hcr : c.rest with
    | nil => exact absurd hcr hne
    | cons e' tl' =>
      rw [hcr, List.cons_append, List.cons.injEq] at hr
      obtain ⟨rfl, rfl⟩ := hr
      obtain ⟨he, c', hn, hv', hr'⟩ := ih e' tl' hcr
      refine ⟨by simp [Iter.elem, he], ?_⟩
      have hh := hasElem_spec hv'
      cases htl : tl' with
      | nil =>
        rw [hr', htl] at hh
        have hA := fixA_spec cs hg hv cs [] (ix + 1) rfl
        simp only [List.length_nil] at hA
        refine ⟨_, by simp [Iter.next, hn, hh], hA.1, ?_⟩
        rw [hA.2]; rfl
      | cons a b =>
        rw [hr', htl] at hh
        refine ⟨.arrayIt cs ix (some c'), by simp [Iter.next, hn, hh],
          Valid.arraySub hv' (by rw [hr', htl]; simp) hg hv, ?_⟩
        simp [Iter.rest, hr', htl]
  | @coll kvs ix =>
    intro e tl hr
    simp only [Iter.rest] at hr
    have hj : ix < kvs.length := by
      rcases Nat.lt_or_ge ix kvs.length with h' | h'
      · exact h'
      · rw [List.drop_eq_nil_of_le h'] at hr; cases hr
    rw [List.drop_eq_getElem_cons hj, List.cons.injEq] at hr
    obtain ⟨rfl, rfl⟩ := hr
    exact ⟨by simp [Iter.elem, hj], _, by simp [Iter.next], Valid.coll, rfl⟩

/-- draining a valid iterator with enough budget yields exactly what remains -/
theorem drain_spec : ∀ (fuel : Nat) (it : Iter K V), Valid it → it.rest.length ≤ fuel →
    drain fuel it = .ok it.rest := by
  intro fuel
  induction fuel with
  | zero =>
    intro it hv hl
    have : it.rest = [] := List.eq_nil_of_length_eq_zero (by omega)
    simp [drain, hasElem_spec hv, this]
  | succ fuel ih =>
    intro it hv hl
    cases hr : it.rest with
    | nil => simp [drain, hasElem_spec hv, hr]
    | cons e tl =>
      obtain ⟨he, it', hn, hv', hr'⟩ := step_spec hv e tl hr
      have := ih it' hv' (by rw [hr']; rw [hr] at hl; simp at hl; omega)
      simp [drain, hasElem_spec hv, hr, he, hn, this, hr']

/-- no empty sub-node anywhere (what the iterators rely on) -/
inductive NET : Node K V → Prop
  | bitmap {bm : UInt32} {es : List (Entry K V)} :
      (∀ n, Entry.sub n ∈ es → NET n) → (∀ n, Entry.sub n ∈ es → n.toAList ≠ []) → NET (.bitmap bm es)
  | array {nc : Int} {cs : List (Option (Node K V))} :
      (∀ n, some n ∈ cs → NET n) → (∀ n, some n ∈ cs → n.toAList ≠ []) → NET (.array nc cs)
  | collision {h : UInt32} {kvs : List (K × V)} : NET (.collision h kvs)

/-- `node.iterator()` is valid and yields the node's contents -/
theorem iterator_spec {n : Node K V} (h : NET n) : Valid n.iterator ∧ n.iterator.rest = n.toAList := by
  induction h with
  | @bitmap bm es hs hne ih =>
    have hg : GoodEs es := fun n hn => ⟨(ih n hn).2, hne n hn⟩
    have := fixB_spec es hg (fun n hn => (ih n hn).1) 0
    simpa [Node.iterator] using this
  | @array nc cs hs hne ih =>
    have hg : GoodCs cs := fun n hn => ⟨(ih n hn).2, hne n hn⟩
    have := fixA_spec cs hg (fun n hn => (ih n hn).1) cs [] 0 rfl
    simpa [Node.iterator] using this
  | collision => exact ⟨Valid.coll, by simp [Node.iterator, Iter.rest]⟩

theorem net_of_wf {eq : K → K → Bool} {hashf : K → UInt32} {d : Nat} {n : Node K V}
    (h : WF eq hashf d n) : NET n := by
  induction h with
  | @bitmap d bm es hd hlen hkv hsub hkeys ih =>
    refine NET.bitmap ?_ ?_
    · intro n hn
      obtain ⟨c, hc, hs⟩ := (mem_iff_slot hlen _).mp hn
      exact ih c n hc hs
    · intro n hn
      obtain ⟨c, hc, hs⟩ := (mem_iff_slot hlen _).mp hn
      exact (hkeys c n hc hs).1
  | @array d nc cs hd hlen hnc hmin hsub hkeys ih =>
    refine NET.array ?_ ?_
    · intro n hn
      obtain ⟨c, hc, hcx⟩ := List.getElem_of_mem hn
      exact ih c n (by rw [List.getElem?_eq_getElem hc, hcx])
    · intro n hn
      obtain ⟨c, hc, hcx⟩ := List.getElem_of_mem hn
      exact (hkeys c n (by rw [List.getElem?_eq_getElem hc, hcx])).1
  | collision => exact NET.collision

end C07
