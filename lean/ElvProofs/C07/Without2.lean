/-
C07 helper lemmas, part 14: `arrayNode.pack`, and the replace/drop cases of
`without` on bitmap and array nodes.
-/
import ElvProofs.C07.Without
namespace C07
open Go Gen.C07Bits

variable {K V : Type} {eq : K → K → Bool} {hashf : K → UInt32}

/-- bitmap node: the child of chunk `c` is replaced by a smaller one -/
theorem wpost_bitmap_replace (L : Lawful eq hashf) {d : Nat} {bm : UInt32} {es : List (Entry K V)} {k : K}
    (hwf : WF eq hashf d (.bitmap bm es)) (hb : hasBit bm (chunkN d (hashf k)) = true)
    (child : Node K V) (hx : slot bm es (chunkN d (hashf k)) = some (.sub child))
    (c' : Node K V) (del : Bool) (hp : WPost eq hashf (d + 1) child k (.fresh c') del) :
    WPost eq hashf d (.bitmap bm es) k
      (.fresh (.bitmap bm (es.set (rank bm (chunkN d (hashf k))) (.sub c')))) del := by
  have hwf' := hwf
  cases hwf with
  | bitmap hd hlen hkv hsub hkeys =>
  have hd7 : d ≤ 7 := by omega
  have hc := chunkN_lt d (hashf k)
  have hr := rank_lt_len hlen hc hb
  have hlen' : (es.set (rank bm (chunkN d (hashf k))) (.sub c')).length = rank bm 32 := by simpa using hlen
  have hslot := fun c'' => slot_set hlen hc hb (Entry.sub c') c''
  have hxi : es[rank bm (chunkN d (hashf k))] = .sub child := by
    rw [slot_of_hasBit hb, List.getElem?_eq_getElem hr] at hx
    exact Option.some.inj hx
  have hdel : del = true := by
    cases del
    · have := hp.same.mpr rfl; cases this
    · rfl
  obtain ⟨hcw, hcne⟩ := hp.wf c' rfl
  have hck := hkeys _ child hc hx
  have hwfn : WF eq hashf d (.bitmap bm (es.set (rank bm (chunkN d (hashf k))) (.sub c'))) := by
    refine WF.bitmap hd hlen' ?_ ?_ ?_
    · intro c k0 v0 hc0 hs
      rw [hslot] at hs; split at hs
      · cases hs
      · exact hkv c k0 v0 hc0 hs
    · intro c n hc0 hs
      rw [hslot] at hs; split at hs
      · cases hs; exact hcw
      · exact hsub c n hc0 hs
    · intro c n hc0 hs
      rw [hslot] at hs; split at hs
      · next h =>
        cases hs
        refine ⟨hcne, ?_⟩
        intro e he
        rw [h]
        exact hck.2 e (hp.keys e (by simpa [WRes.node, alOpt] using he))
      · exact hkeys c n hc0 hs
  refine ⟨by simp [hdel], ?_, ?_, ?_, ?_, ?_⟩
  · intro m hm
    cases hm
    refine ⟨hwfn, toAList_ne_nil_of_entries hwfn ?_⟩
    intro e
    rw [e] at hlen'
    simp at hlen'
    omega
  · intro k' old hold
    simp only [WRes.node, findOpt]
    rw [find_bitmap eq d hd7 _ _ hlen] at hold
    rw [find_bitmap eq d hd7 _ _ hlen', hslot]
    by_cases h : chunkN d (hashf k') = chunkN d (hashf k)
    · rw [if_pos h]
      rw [h, hx] at hold
      have := hp.find k' old hold
      simpa [WRes.node, findOpt] using this
    · have hne := not_eq_of_chunk_ne L (fun e => h e.symm)
      rw [if_neg h, hne]
      simpa using hold
  · have h1 := length_flatMap_set entryAL es _ (.sub c') hr
    rw [hxi] at h1
    have h2 := hp.size
    simp only [WRes.node, alOpt, toAList_bitmap, entryAL] at h1 h2 ⊢
    omega
  · intro e he
    simp only [WRes.node, alOpt, toAList_bitmap] at he ⊢
    rcases mem_flatMap_set entryAL he with h | h
    · exact h
    · have := hp.keys e (by simpa [WRes.node, alOpt, entryAL] using h)
      have := mem_bitmap_of_slot hx (e := e) (by simpa [entryAL] using this)
      simpa using this
  · intro old hold
    rw [find_bitmap eq d hd7 _ _ hlen, hx] at hold
    exact hp.isDel old hold

/-! ### pack -/

theorem packLoop_spec (skip : Nat) : ∀ (cs : List (Option (Node K V))) (i : Nat), i + cs.length = 32 →
    (packLoop skip cs i).2.length = rank (packLoop skip cs i).1 32 ∧
    (∀ c', c' < i → hasBit (packLoop skip cs i).1 c' = false) ∧
    (∀ c', slot (packLoop skip cs i).1 (packLoop skip cs i).2 c' =
      if c' < i ∨ c' = skip then none else ((cs[c' - i]?).bind id).map Entry.sub) := by
  intro cs
  induction cs with
  | nil =>
    intro i _
    simp [packLoop, rank_zero, slot, hasBit_zero]
  | cons c0 cs ih =>
    intro i hi
    simp only [List.length_cons] at hi
    have hi32 : i < 32 := by omega
    obtain ⟨h1, h2, h3⟩ := ih (i + 1) (by omega)
    rw [packLoop]
    generalize hpl : packLoop skip cs (i + 1) = r at h1 h2 h3
    obtain ⟨bm', es'⟩ := r
    simp only at h1 h2 h3 ⊢
    have hold : ∀ c', (if c' < i + 1 ∨ c' = skip then none else ((cs[c' - (i + 1)]?).bind id).map Entry.sub)
        = if c' = i then none else
          (if c' < i ∨ c' = skip then none else (((c0 :: cs)[c' - i]?).bind id).map Entry.sub) := by
      intro c'
      by_cases hci : c' = i
      · subst hci; simp
      · rw [if_neg hci]
        by_cases hlt : c' < i
        · simp [hlt, show c' < i + 1 by omega]
        · have : c' - i = (c' - (i + 1)) + 1 := by omega
          have e1 : (c' < i + 1 ∨ c' = skip) ↔ (c' < i ∨ c' = skip) := by
            constructor <;> rintro (h | h) <;> first | (left; omega) | (right; exact h)
          simp only [e1, this, List.getElem?_cons_succ]
    cases c0 with
    | none =>
      simp only []
      refine ⟨h1, fun c' hc' => h2 c' (by omega), ?_⟩
      intro c'
      rw [h3 c', hold c']
      by_cases hci : c' = i
      · subst hci; simp
      · rw [if_neg hci]
    | some child =>
      by_cases hsk : i = skip
      · simp only [hsk, bne_self_eq_false, Bool.false_eq_true, if_false]
        subst hsk
        refine ⟨h1, fun c' hc' => h2 c' (by omega), ?_⟩
        intro c'
        rw [h3 c', hold c']
        by_cases hci : c' = i
        · subst hci; simp
        · rw [if_neg hci]
      · have hbne : (i != skip) = true := by simp [hsk]
        simp only [hbne, if_true, one_shl_eq_bitU i hi32]
        have hbi : hasBit bm' i = false := h2 i (by omega)
        have hr0 : rank bm' i = 0 := by
          have := rank_eq_of_no_bits bm' 0 i (by omega) (fun j _ hj => h2 j (by omega))
          simpa [rank, bcN] using this
        have hins := fun c' => slot_insert (bm := bm') (es := es') h1 hi32 hbi (Entry.sub child) c'
        simp only [hr0, List.take_zero, List.drop_zero, List.nil_append] at hins
        refine ⟨?_, ?_, ?_⟩
        · rw [rank32_or hi32 hbi, List.length_cons, h1]
        · intro c' hc'
          rw [hasBit_or_bitU _ _ _ hi32, h2 c' (by omega)]
          simp; omega
        · intro c'
          rw [hins c', h3 c', hold c']
          by_cases hci : c' = i
          · subst hci
            simp [hsk]
          · simp [hci]

/-- the bitmap node built by `pack(skip)` -/
theorem pack_spec (nc : Int) (cs : List (Option (Node K V))) (c : Nat) (child : Node K V)
    (hlen : cs.length = 32) (hnc : nc = (cs.countP Option.isSome : Nat)) (hc : cs[c]? = some (some child)) :
    ∃ bm' es', pack nc cs c = .ok (.bitmap bm' es') ∧ es'.length = rank bm' 32 ∧
      (es'.length : Int) = nc - 1 ∧
      ∀ c', slot bm' es' c' = if c' = c then none else ((cs[c']?).bind id).map Entry.sub := by
  obtain ⟨h1, h2, h3⟩ := packLoop_spec c cs 0 (by omega)
  generalize hpl : packLoop c cs 0 = r at h1 h2 h3
  obtain ⟨bm', es'⟩ := r
  simp only [Nat.not_lt_zero, false_or, Nat.sub_zero] at h1 h2 h3
  have hc32 : c < 32 := by
    rcases Nat.lt_or_ge c 32 with h | h
    · exact h
    · rw [List.getElem?_eq_none (by omega)] at hc; cases hc
  have hbc : hasBit bm' c = false := by
    cases hb : hasBit bm' c
    · rfl
    · obtain ⟨x, hx, _⟩ := slot_isSome h1 hc32 hb
      rw [h3 c] at hx; simp at hx
  have hcount : cs.countP Option.isSome = rank bm' 32 + 1 := by
    have hiso : ∀ c', c' < cs.length → (cs[c']?.bind id).isSome = hasBit (bm' ||| bitU c) c' := by
      intro c' hc'
      rw [hasBit_or_bitU _ _ _ hc32]
      by_cases hcc : c' = c
      · subst hcc; simp [hc]
      · have hs := h3 c'
        rw [if_neg hcc] at hs
        have hne : decide (c = c') = false := by simp; exact fun e => hcc e.symm
        rw [hne, Bool.or_false]
        cases hb : hasBit bm' c'
        · rw [slot_none_of_not_hasBit hb] at hs
          cases hv : cs[c']?.bind id with
          | none => rfl
          | some _ => rw [hv] at hs; cases hs
        · obtain ⟨x, hx, _⟩ := slot_isSome h1 (by omega) hb
          rw [hs] at hx
          cases hv : cs[c']?.bind id with
          | none => rw [hv] at hx; cases hx
          | some _ => rfl
    have := countP_take_eq_rank _ cs hiso 32 (by omega)
    rw [List.take_of_length_le (by omega), rank32_or hc32 hbc] at this
    exact this
  refine ⟨bm', es', ?_, h1, by rw [hnc, hcount, h1]; simp, h3⟩
  unfold pack
  have hl : (cs.length != nodeCap) = false := by simp [hlen, nodeCap]
  simp only [hl, Bool.false_eq_true, if_false, hpl]
  have e1 : (es'.length : Int) = nc - 1 := by rw [hnc, hcount, h1]; simp
  have : ¬ (nc - 1 < 0) := by omega
  simp only [this, if_false, e1]
  simp

end C07
