/-
C07 helper lemmas, part 11: the remaining cases (`unpack`, a collision node
hit with a different hash) and the main theorem about `node.assoc`.
-/
import ElvProofs.C07.Assoc5
namespace C07
open Go Gen.C07Bits

variable {K V : Type} {eq : K → K → Bool} {hashf : K → UInt32}

theorem assoc_bitmap_unpack (L : Lawful eq hashf) (f d : Nat) (bm : UInt32) (es : List (Entry K V))
    (k : K) (v : V) (hwf : WF eq hashf d (.bitmap bm es))
    (hb : hasBit bm (chunkN d (hashf k)) = false) (hge : 16 ≤ es.length) :
    ∃ n' added, assoc eq hashf (f + 2) (.bitmap bm es) (shiftOf d) (hashf k) k v = .ok (n', added) ∧
      Post eq hashf d (.bitmap bm es) k v n' added := by
  have hd5 : d ≤ 5 := by
    have hwf' := hwf
    cases hwf with
    | bitmap hd _ _ _ _ =>
      rcases Nat.lt_or_ge d 6 with h | h
      · omega
      · have : d = 6 := by omega
        subst this
        have := len_le_of_depth6 hwf'
        omega
  cases hwf with
  | bitmap hd hlen hkv hsub hkeys =>
  have hd7 : d ≤ 7 := by omega
  have hc := chunkN_lt d (hashf k)
  obtain ⟨ch', hun, hl, hP⟩ := unpack_spec (eq := eq) (hashf := hashf) f d (by omega) bm es hlen (hashf k)
    (single (d + 1) (hashf k) k v)
  have hslotb : ∀ c x, slot bm es c = some x → c ≠ chunkN d (hashf k) := by
    intro c x hx e; subst e
    rw [slot_none_of_not_hasBit hb] at hx; cases hx
  -- the children, case by case
  have hchild : ∀ c m, ch'[c]? = some (some m) →
      (∃ x, slot bm es c = some x ∧ m = conv hashf d x) ∨
      (slot bm es c = none ∧ c = chunkN d (hashf k) ∧ m = single (d + 1) (hashf k) k v) := by
    intro c m hm
    rw [hP c] at hm
    cases hs : slot bm es c with
    | some x => rw [hs] at hm; simp at hm; exact Or.inl ⟨x, rfl, hm.symm⟩
    | none =>
      rw [hs] at hm
      by_cases h : c = chunkN d (hashf k)
      · simp [h] at hm; exact Or.inr ⟨rfl, h, hm.symm⟩
      · simp only [if_neg h] at hm
        split at hm <;> simp at hm
  refine ⟨.array ((es.length : Int) + 1) ch', true, ?_, ?_⟩
  · rw [assoc]
    simp only [bitpos_eq d hd7, and_bitU_eq_zero _ _ hc, hb, nodeCap, nextShift_shiftOf,
      assoc_empty f (d + 1) (by omega)]
    simp [hge, hun]
  · constructor
    · refine WF.array hd5 hl ?_ (by omega) ?_ ?_
      · have hiso : ∀ c, c < ch'.length →
            (ch'[c]?.bind id).isSome = hasBit (bm ||| bitU (chunkN d (hashf k))) c := by
          intro c hcl
          rw [hP c, hasBit_or_bitU _ _ _ hc]
          cases hs : slot bm es c with
          | some x => simp [hasBit_of_slot hs]
          | none =>
            have hbc : hasBit bm c = false := by
              cases hbc : hasBit bm c
              · rfl
              · obtain ⟨x, hx, _⟩ := slot_isSome hlen (by omega) hbc
                rw [hs] at hx; cases hx
            by_cases h : c = chunkN d (hashf k)
            · simp [h]
            · have : ¬ chunkN d (hashf k) = c := fun e => h e.symm
              simp [h, hbc, this, show c < 32 by omega]
        have := countP_take_eq_rank _ ch' hiso 32 (by omega)
        rw [List.take_of_length_le (by omega), rank32_or hc hb, ← hlen] at this
        rw [this]; simp
      · intro c m hm
        rcases hchild c m hm with ⟨x, hx, rfl⟩ | ⟨_, _, rfl⟩
        · have hc32 : c < 32 := by
            rcases Nat.lt_or_ge c 32 with h | h
            · exact h
            · have := hasBit_of_slot hx; rw [hasBit_ge bm c h] at this; cases this
          cases x with
          | kv k0 v0 => exact wf_single (d + 1) (by omega) k0 v0
          | sub n => exact hsub c n hc32 hx
        · exact wf_single (d + 1) (by omega) k v
      · intro c m hm
        rcases hchild c m hm with ⟨x, hx, rfl⟩ | ⟨_, h2, rfl⟩
        · have hc32 : c < 32 := by
            rcases Nat.lt_or_ge c 32 with h | h
            · exact h
            · have := hasBit_of_slot hx; rw [hasBit_ge bm c h] at this; cases this
          cases x with
          | kv k0 v0 =>
            refine ⟨by simp [conv], ?_⟩
            intro e he
            simp [conv] at he; subst he
            exact hkv c k0 v0 hc32 hx
          | sub n => exact hkeys c n hc32 hx
        · refine ⟨by simp, ?_⟩
          intro e he
          simp at he; subst he; exact h2.symm
    · intro k' old hold
      rw [find_bitmap eq d hd7 _ _ hlen] at hold
      rw [find_array eq d hd7, hP]
      cases hs : slot bm es (chunkN d (hashf k')) with
      | some x =>
        have hne : eq k k' = false :=
          not_eq_of_chunk_ne L (fun e => hslotb _ x hs e.symm)
        rw [hs] at hold
        rw [hne]
        cases x with
        | kv k0 v0 =>
          simp only [conv, Bool.false_eq_true, if_false]
          rw [find_single L (d + 1) (by omega)]
          exact hold
        | sub n => simpa [conv] using hold
      | none =>
        rw [hs] at hold
        simp only [Res.ok.injEq] at hold
        subst hold
        by_cases h : chunkN d (hashf k') = chunkN d (hashf k)
        · simp only [h, if_true]
          rw [find_single L (d + 1) (by omega)]
        · have hne : eq k k' = false := not_eq_of_chunk_ne L (fun e => h e.symm)
          simp [h, hne, chunkN_lt d (hashf k')]
    · have := flat_take_len (hashf := hashf) d bm es hlen ch' hl (chunkN d (hashf k))
        (single (d + 1) (hashf k) k v) hb hP 32 (by omega)
      rw [List.take_of_length_le (by omega), List.take_of_length_le (by omega)] at this
      simp only [toAList_array, toAList_bitmap, this, if_pos hc]
      simp
    · intro e he
      rw [toAList_array, List.mem_flatMap] at he
      obtain ⟨o, ho, heo⟩ := he
      obtain ⟨c, hcl, rfl⟩ := List.getElem_of_mem ho
      cases hoc : ch'[c] with
      | none => rw [hoc] at heo; simp [childAL] at heo
      | some m =>
        rw [hoc] at heo
        have hm : ch'[c]? = some (some m) := by rw [List.getElem?_eq_getElem hcl, hoc]
        rcases hchild c m hm with ⟨x, hx, rfl⟩ | ⟨_, _, rfl⟩
        · left
          simp only [childAL, toAList_conv] at heo
          exact mem_bitmap_of_slot hx heo
        · right
          simpa [childAL] using heo
    · have hm := hP (chunkN d (hashf k))
      rw [slot_none_of_not_hasBit hb] at hm
      simp only [if_true] at hm
      rw [toAList_array]
      intro h
      have := List.flatMap_eq_nil_iff.mp h _ (List.mem_of_getElem? hm)
      simp [childAL] at this
    · intro old hold
      rw [find_bitmap eq d hd7 _ _ hlen, slot_none_of_not_hasBit hb] at hold
      cases hold; rfl

/-- a collision node wrapped into a one-entry bitmap node (`collisionNode.assoc`
with a different hash) behaves like the collision node -/
theorem find_wrap (L : Lawful eq hashf) (d : Nat) (hd : d ≤ 6) (h : UInt32) (kvs : List (K × V))
    (hh : ∀ e ∈ kvs, hashf e.1 = h) (k' : K) :
    (Node.bitmap (bitU (chunkN d h)) [.sub (.collision h kvs)]).find eq (shiftOf d) (hashf k') k' =
      (Node.collision h kvs).find eq (shiftOf d) (hashf k') k' := by
  have hc := chunkN_lt d h
  rw [find_bitmap eq d (by omega) _ _ (by simp [rank_bitU_32 _ hc]), slot_single _ hc]
  by_cases hk : chunkN d (hashf k') = chunkN d h
  · simp only [hk, if_true, find_collision]
  · simp only [hk, if_false, find_collision]
    have : kvs.find? (fun e => eq k' e.1) = none := by
      rw [List.find?_eq_none]
      intro e he h2
      have := L.hash _ _ h2
      rw [hh e he] at this
      exact hk (by rw [this])
    simp [this]

theorem wf_wrap (d : Nat) (hd : d ≤ 6) (h : UInt32) (kvs : List (K × V))
    (hwf : WF eq hashf d (.collision h kvs)) :
    WF eq hashf d (.bitmap (bitU (chunkN d h)) [.sub (.collision h kvs)]) := by
  have hc := chunkN_lt d h
  cases hwf with
  | collision hne hh hnd =>
  refine WF.bitmap hd (by simp [rank_bitU_32 _ hc]) ?_ ?_ ?_
  · intro c k v _ hs
    rw [slot_single _ hc] at hs
    split at hs <;> cases hs
  · intro c n _ hs
    rw [slot_single _ hc] at hs
    split at hs
    · cases hs; exact WF.collision hne hh hnd
    · cases hs
  · intro c n _ hs
    rw [slot_single _ hc] at hs
    split at hs
    · next hcc =>
      cases hs
      refine ⟨by simpa using hne, ?_⟩
      intro e he
      simp only [toAList_collision] at he
      rw [hh e he, hcc]
    · cases hs

/-- **Main theorem about `node.assoc`.** -/
theorem assoc_spec (L : Lawful eq hashf) : ∀ fuel, IH (V := V) eq hashf fuel := by
  intro fuel
  induction fuel with
  | zero =>
    intro d n k v hd hneed
    cases n <;> simp [need] at hneed
  | succ fuel ih =>
    intro d n k v hd hneed hwf hag
    cases n with
    | bitmap bm es =>
      have hd6 : d ≤ 6 := by cases hwf; assumption
      simp only [need] at hneed
      cases hb : hasBit bm (chunkN d (hashf k))
      · rcases Nat.lt_or_ge es.length 16 with hlt | hge
        · exact assoc_bitmap_insert L fuel d bm es k v hwf hb hlt
        · obtain ⟨f, rfl⟩ : ∃ f, fuel = f + 1 := ⟨fuel - 1, by omega⟩
          exact assoc_bitmap_unpack L f d bm es k v hwf hb hge
      · exact assoc_bitmap_present L fuel d ih bm es k v hwf hag hneed hb
    | array nc cs =>
      simp only [need] at hneed
      exact assoc_array L fuel d ih nc cs k v hwf hag hneed
    | collision h kvs =>
      simp only [need] at hneed
      by_cases hh : hashf k = h
      · exact assoc_collision_same L fuel d h kvs k v hwf hh
      · -- wrap in a bitmap node and retry at the same depth
        have hkvs : ∀ e ∈ kvs, hashf e.1 = h := by cases hwf; assumption
        have hne : kvs ≠ [] := by cases hwf; assumption
        have hd6 : d ≤ 6 := by
          rcases Nat.lt_or_ge d 7 with h' | h'
          · omega
          · exfalso
            have : d = 7 := by omega
            subst this
            obtain ⟨e, he⟩ := List.exists_mem_of_ne_nil kvs hne
            have := eq_of_agree7 (hag e (by simpa using he))
            rw [hkvs e he] at this
            exact hh this.symm
        have hwrap := wf_wrap d hd6 h kvs hwf
        obtain ⟨n', added, hassoc, post⟩ := ih d _ k v hd (by simp only [need]; omega) hwrap
          (by intro e he j hj; exact hag e (by simpa [entryAL] using he) j hj)
        refine ⟨n', added, ?_, ?_⟩
        · rw [assoc]
          have : (hashf k == h) = false := by simpa using hh
          simp only [this, Bool.false_eq_true, if_false, bitpos_eq d hd]
          exact hassoc
        · constructor
          · exact post.wf
          · intro k' old hold
            exact post.find k' old (by rw [find_wrap L d hd6 h kvs hkvs]; exact hold)
          · simpa [entryAL] using post.size
          · intro e he
            simpa [entryAL] using post.keys e he
          · exact post.ne
          · intro old hold
            exact post.isNew old (by rw [find_wrap L d hd6 h kvs hkvs]; exact hold)

end C07
