/-
C07 helper lemmas, part 1: the bit arithmetic of the hash map
(`Gen.C07Bits`, regenerated from pkg/persistent/hashmap/hashmap.go).

* `bcN w n` — the number of set bits among the low `w` bits of `n` (spec).
* `popCount_toNat` — the generated SWAR `popCount` equals `bcN 32` (all 2^32
  inputs): byte-lane decomposition; the per-byte facts are finite checks
  (`decide +kernel`, ≤ 4096 cases each), the glue is `omega`.
* `index`, `bitpos`, `chunk` in terms of `Nat` arithmetic.
-/
import ElvModel.Generated.C07Bits
namespace C07
open Gen.C07Bits

/-- number of set bits among the low `w` bits of `n` -/
def bcN : Nat → Nat → Nat
  | 0, _ => 0
  | w + 1, n => n % 2 + bcN w (n / 2)

@[simp] theorem bcN_zero_right (w : Nat) : bcN w 0 = 0 := by
  induction w with
  | zero => rfl
  | succ w ih => simp [bcN, ih]

theorem bcN_append (k w a r : Nat) (ha : a < 2 ^ k) :
    bcN (k + w) (a + 2 ^ k * r) = bcN k a + bcN w r := by
  induction k generalizing a with
  | zero =>
    have : a = 0 := by simpa using ha
    subst this; simp [bcN]
  | succ k ih =>
    have e : k + 1 + w = (k + w) + 1 := by omega
    rw [e]
    have hp : 2 ^ (k + 1) = 2 * 2 ^ k := by rw [Nat.pow_succ]; omega
    have h1 : (a + 2 ^ (k + 1) * r) % 2 = a % 2 := by rw [hp, Nat.mul_assoc]; omega
    have h2 : (a + 2 ^ (k + 1) * r) / 2 = a / 2 + 2 ^ k * r := by rw [hp, Nat.mul_assoc]; omega
    have h3 : a / 2 < 2 ^ k := by omega
    simp only [bcN, h1, h2, ih (a / 2) h3]
    omega

/-- top-bit recursion -/
theorem bcN_succ_top (c n : Nat) : bcN (c + 1) n = bcN c n + (if n.testBit c then 1 else 0) := by
  induction c generalizing n with
  | zero => simp [bcN, Nat.testBit_zero]; split <;> omega
  | succ c ih =>
    rw [show bcN (c + 1 + 1) n = n % 2 + bcN (c + 1) (n / 2) from rfl, ih (n / 2)]
    rw [show bcN (c + 1) n = n % 2 + bcN c (n / 2) from rfl, Nat.testBit_succ]
    omega

theorem bcN_mono {c c' : Nat} (n : Nat) (h : c ≤ c') : bcN c n ≤ bcN c' n := by
  induction h with
  | refl => exact Nat.le_refl _
  | step _ ih => rw [bcN_succ_top]; omega

theorem bcN_lt_of_testBit {c c' : Nat} (n : Nat) (h : c < c') (hb : n.testBit c = true) :
    bcN c n < bcN c' n := by
  have h1 : bcN (c + 1) n = bcN c n + 1 := by rw [bcN_succ_top, hb]; rfl
  have h2 := bcN_mono n (show c + 1 ≤ c' from h)
  omega

theorem bcN_le (w n : Nat) : bcN w n ≤ w := by
  induction w generalizing n with
  | zero => simp [bcN]
  | succ w ih => have := ih (n / 2); simp only [bcN]; omega

theorem bcN_mod_self (c n : Nat) : bcN c (n % 2 ^ c) = bcN c n := by
  induction c generalizing n with
  | zero => rfl
  | succ c ih =>
    simp only [bcN]
    have hp : 2 ^ (c + 1) = 2 * 2 ^ c := by rw [Nat.pow_succ]; omega
    have h1 : n % 2 ^ (c + 1) % 2 = n % 2 := by rw [hp, Nat.mod_mul_right_mod]
    have h2 : n % 2 ^ (c + 1) / 2 = (n / 2) % 2 ^ c := by rw [hp, Nat.mod_mul_right_div_self]
    rw [h1, h2, ih]

theorem bcN_mod (c w n : Nat) (h : c ≤ w) : bcN w (n % 2 ^ c) = bcN c n := by
  have := bcN_append c (w - c) (n % 2 ^ c) 0 (Nat.mod_lt _ (Nat.two_pow_pos c))
  rw [show c + (w - c) = w by omega] at this
  simpa [bcN_mod_self] using this

/-! ### the SWAR stages over `Nat` -/

/-- one stage: `(u & m) + ((u >> s) & m)` -/
def st (m s u : Nat) : Nat := (u &&& m) + ((u / 2 ^ s) &&& m)

theorem and_split8 (x m : Nat) : x &&& m = (x % 256 &&& m % 256) + 256 * (x / 256 &&& m / 256) := by
  have := @Nat.and_mod_two_pow x m 8
  have := @Nat.and_div_two_pow x m 8
  have := Nat.mod_add_div (x &&& m) 256
  simp only [Nat.reducePow] at *
  omega

theorem and_split16 (x m : Nat) : x &&& m = (x % 65536 &&& m % 65536) + 65536 * (x / 65536 &&& m / 65536) := by
  have := @Nat.and_mod_two_pow x m 16
  have := @Nat.and_div_two_pow x m 16
  have := Nat.mod_add_div (x &&& m) 65536
  simp only [Nat.reducePow] at *
  omega

theorem lane1 : ∀ a < 256, ∀ c < 2, (a / 2 + 128 * c) &&& 0x55 = (a / 2) &&& 0x55 := by decide +kernel
theorem lane2 : ∀ a < 256, ∀ c < 4, (a / 4 + 64 * c) &&& 0x33 = (a / 4) &&& 0x33 := by decide +kernel
theorem lane4 : ∀ a < 256, ∀ c < 16, (a / 16 + 16 * c) &&& 0x0f = (a / 16) &&& 0x0f := by decide +kernel
theorem st1_lt : ∀ a < 256, st 0x55 1 a < 256 := by decide +kernel
theorem st2_lt : ∀ a < 256, st 0x33 2 a < 256 := by decide +kernel

theorem st_lane1 (m a r : Nat) (hm : m % 256 = 0x55) (ha : a < 256) :
    st m 1 (a + 256 * r) = st 0x55 1 a + 256 * st (m / 256) 1 r := by
  unfold st
  rw [and_split8 (a + 256 * r) m, and_split8 ((a + 256 * r) / 2 ^ 1) m, hm]
  have e1 : (a + 256 * r) % 256 = a := by omega
  have e2 : (a + 256 * r) / 256 = r := by omega
  have e3 : (a + 256 * r) / 2 ^ 1 % 256 = a / 2 + 128 * (r % 2) := by omega
  have e4 : (a + 256 * r) / 2 ^ 1 / 256 = r / 2 ^ 1 := by omega
  rw [e1, e2, e3, e4, lane1 a ha (r % 2) (by omega)]
  simp only [Nat.pow_one]
  omega

theorem st_lane2 (m a r : Nat) (hm : m % 256 = 0x33) (ha : a < 256) :
    st m 2 (a + 256 * r) = st 0x33 2 a + 256 * st (m / 256) 2 r := by
  unfold st
  rw [and_split8 (a + 256 * r) m, and_split8 ((a + 256 * r) / 2 ^ 2) m, hm]
  have e1 : (a + 256 * r) % 256 = a := by omega
  have e2 : (a + 256 * r) / 256 = r := by omega
  have e3 : (a + 256 * r) / 2 ^ 2 % 256 = a / 4 + 64 * (r % 4) := by omega
  have e4 : (a + 256 * r) / 2 ^ 2 / 256 = r / 2 ^ 2 := by omega
  rw [e1, e2, e3, e4, lane2 a ha (r % 4) (by omega)]
  simp only [Nat.reducePow]
  omega

theorem st_lane4 (m a r : Nat) (hm : m % 256 = 0x0f) (ha : a < 256) :
    st m 4 (a + 256 * r) = st 0x0f 4 a + 256 * st (m / 256) 4 r := by
  unfold st
  rw [and_split8 (a + 256 * r) m, and_split8 ((a + 256 * r) / 2 ^ 4) m, hm]
  have e1 : (a + 256 * r) % 256 = a := by omega
  have e2 : (a + 256 * r) / 256 = r := by omega
  have e3 : (a + 256 * r) / 2 ^ 4 % 256 = a / 16 + 16 * (r % 16) := by omega
  have e4 : (a + 256 * r) / 2 ^ 4 / 256 = r / 2 ^ 4 := by omega
  rw [e1, e2, e3, e4, lane4 a ha (r % 16) (by omega)]
  simp only [Nat.reducePow]
  omega

/-- the first three stages (they stay inside bytes) -/
def P3 (m1 m2 m4 u : Nat) : Nat := st m4 4 (st m2 2 (st m1 1 u))

theorem P3_lane (m1 m2 m4 a r : Nat) (h1 : m1 % 256 = 0x55) (h2 : m2 % 256 = 0x33)
    (h4 : m4 % 256 = 0x0f) (ha : a < 256) :
    P3 m1 m2 m4 (a + 256 * r) = P3 0x55 0x33 0x0f a + 256 * P3 (m1 / 256) (m2 / 256) (m4 / 256) r := by
  unfold P3
  rw [st_lane1 m1 a r h1 ha, st_lane2 m2 _ _ h2 (st1_lt a ha), st_lane4 m4 _ _ h4 (st2_lt _ (st1_lt a ha))]

theorem pc8_eq : ∀ a < 256, P3 0x55 0x33 0x0f a = bcN 8 a := by decide +kernel

theorem st8_16 (p0 p1 p2 p3 : Nat) (b0 : p0 ≤ 8) (b1 : p1 ≤ 8) (b2 : p2 ≤ 8) (b3 : p3 ≤ 8) :
    st 0xffff 16 (st 0xff00ff 8 (p0 + 256 * (p1 + 256 * (p2 + 256 * p3)))) = p0 + p1 + p2 + p3 := by
  have m8 : ∀ y, y &&& 0xff = y % 256 := fun y => Nat.and_two_pow_sub_one_eq_mod y 8
  have m16 : ∀ y, y &&& 0xffff = y % 65536 := fun y => Nat.and_two_pow_sub_one_eq_mod y 16
  have s8 : st 0xff00ff 8 (p0 + 256 * (p1 + 256 * (p2 + 256 * p3))) = (p0 + p1) + 65536 * (p2 + p3) := by
    unfold st
    generalize hX : p0 + 256 * (p1 + 256 * (p2 + 256 * p3)) = X
    rw [and_split16 X, and_split16 (X / 2 ^ 8)]
    simp only [Nat.reducePow, Nat.reduceMod, Nat.reduceDiv, m8]
    have e1 : X % 65536 % 256 = p0 := by omega
    have e2 : X / 65536 % 256 = p2 := by omega
    have e3 : X / 256 % 65536 % 256 = p1 := by omega
    have e4 : X / 256 / 65536 % 256 = p3 := by omega
    rw [e1, e2, e3, e4]
    omega
  rw [s8]
  unfold st
  simp only [m16, Nat.reducePow]
  omega

/-- the whole `popCount` over `Nat` -/
def pcNat (u : Nat) : Nat := st 0xffff 16 (st 0xff00ff 8 (P3 0x55555555 0x33333333 0x0f0f0f0f u))

theorem pcNat_eq (u : Nat) (hu : u < 2 ^ 32) : pcNat u = bcN 32 u := by
  -- bytes
  obtain ⟨a0, r1, rfl, h0⟩ : ∃ a r, u = a + 256 * r ∧ a < 256 := ⟨u % 256, u / 256, by omega, by omega⟩
  obtain ⟨a1, r2, rfl, h1⟩ : ∃ a r, r1 = a + 256 * r ∧ a < 256 := ⟨r1 % 256, r1 / 256, by omega, by omega⟩
  obtain ⟨a2, a3, rfl, h2⟩ : ∃ a r, r2 = a + 256 * r ∧ a < 256 := ⟨r2 % 256, r2 / 256, by omega, by omega⟩
  have h3 : a3 < 256 := by omega
  have b0 := bcN_le 8 a0; have b1 := bcN_le 8 a1; have b2 := bcN_le 8 a2; have b3 := bcN_le 8 a3
  have hP : P3 0x55555555 0x33333333 0x0f0f0f0f (a0 + 256 * (a1 + 256 * (a2 + 256 * a3)))
      = bcN 8 a0 + 256 * (bcN 8 a1 + 256 * (bcN 8 a2 + 256 * bcN 8 a3)) := by
    rw [P3_lane _ _ _ a0 _ (by decide) (by decide) (by decide) h0]
    simp only [Nat.reduceDiv]
    rw [P3_lane _ _ _ a1 _ (by decide) (by decide) (by decide) h1]
    simp only [Nat.reduceDiv]
    rw [P3_lane _ _ _ a2 _ (by decide) (by decide) (by decide) h2]
    simp only [Nat.reduceDiv]
    rw [pc8_eq a0 h0, pc8_eq a1 h1, pc8_eq a2 h2, pc8_eq a3 h3]
  have hB : bcN 32 (a0 + 256 * (a1 + 256 * (a2 + 256 * a3))) = bcN 8 a0 + bcN 8 a1 + bcN 8 a2 + bcN 8 a3 := by
    have := bcN_append 8 24 a0 (a1 + 256 * (a2 + 256 * a3)) h0
    have := bcN_append 8 16 a1 (a2 + 256 * a3) h1
    have := bcN_append 8 8 a2 a3 h2
    simp only [Nat.reducePow, Nat.reduceAdd] at *
    omega
  rw [hB]
  unfold pcNat
  rw [hP]
  generalize bcN 8 a0 = p0 at *
  generalize bcN 8 a1 = p1 at *
  generalize bcN 8 a2 = p2 at *
  generalize bcN 8 a3 = p3 at *
  rw [st8_16 p0 p1 p2 p3 b0 b1 b2 b3]

/-! ### the generated functions over `Nat` -/

theorem stU (x m s : UInt32) (hs : s.toNat < 32) (hm : 2 * m.toNat < 2 ^ 32) :
    ((x &&& m) + ((x >>> s) &&& m)).toNat = st m.toNat s.toNat x.toNat := by
  unfold st
  rw [UInt32.toNat_add, UInt32.toNat_and, UInt32.toNat_and, UInt32.toNat_shiftRight,
    Nat.mod_eq_of_lt hs, Nat.shiftRight_eq_div_pow]
  apply Nat.mod_eq_of_lt
  have := @Nat.and_le_right x.toNat m.toNat
  have := @Nat.and_le_right (x.toNat / 2 ^ s.toNat) m.toNat
  omega

theorem popCount_toNat (u : UInt32) : (popCount u).toNat = bcN 32 u.toNat := by
  rw [← pcNat_eq u.toNat u.toNat_lt]
  unfold popCount pcNat P3
  simp only []
  rw [stU _ m16 16 (by decide) (by decide), stU _ m8 8 (by decide) (by decide),
    stU _ m4 4 (by decide) (by decide), stU _ m2 2 (by decide) (by decide),
    stU _ m1 1 (by decide) (by decide)]
  rfl

end C07
