/-
C07 helper lemmas, part 16: `without` on collision nodes; the main theorem.
-/
import ElvProofs.C07.Without3
namespace C07
open Go Gen.C07Bits

variable {K V : Type} {eq : K → K → Bool} {hashf : K → UInt32}

theorem find?_eraseIdx_of_false {α : Type} (p : α → Bool) :
    ∀ (l : List α) (i : Nat) (hi : i < l.length), p l[i] = false → (l.eraseIdx i).find? p = l.find? p := by
  intro l
  induction l with
  | nil => intro i hi; simp at hi
  | cons a l ih =>
    intro i hi hp
    cases i with
    | zero => simp at hp; simp [hp]
    | succ i =>
      simp only [List.eraseIdx_cons_succ, List.find?_cons]
      cases p a
      · exact ih i (by simpa using hi) (by simpa using hp)
      · rfl

theorem coll_erase (L : Lawful eq hashf) (k : K) (kvs : List (K × V)) (i : Nat)
    (hf : kvs.findIdx? (fun e => eq k e.1) = some i) (hnd : NoDupKeys eq kvs) (k' : K) :
    ((kvs.eraseIdx i).find? (fun e => eq k' e.1)).map (·.2) =
      if eq k k' then none else (kvs.find? (fun e => eq k' e.1)).map (·.2) := by
  obtain ⟨hi, hpi, _⟩ := List.findIdx?_eq_some_iff_getElem.mp hf
  by_cases hk : eq k k' = true
  · rw [if_pos hk]
    have : (kvs.eraseIdx i).find? (fun e => eq k' e.1) = none := by
      rw [List.find?_eq_none]
      intro e he hpe
      obtain ⟨j, hj, hji, hje⟩ := List.mem_eraseIdx_iff_getElem.mp he
      subst hje
      have h1 : eq kvs[i].1 kvs[j].1 = true :=
        L.trans _ _ _ (L.symm _ _ hpi) (L.trans _ _ _ hk (by simpa using hpe))
      have hp := List.pairwise_iff_getElem.mp hnd
      rcases Nat.lt_or_gt_of_ne hji with lt | gt
      · have := hp j i hj hi lt; rw [L.symm _ _ h1] at this; cases this
      · have := hp i j hi hj gt; rw [h1] at this; cases this
    rw [this]; rfl
  · rw [if_neg hk]
    simp only [Bool.not_eq_true] at hk
    have : (fun e : K × V => eq k' e.1) kvs[i] = false := by
      cases h : eq k' kvs[i].1
      · exact h
      · have := L.trans _ _ _ hpi (L.symm _ _ h); rw [hk] at this; cases this
    rw [find?_eraseIdx_of_false _ kvs i hi this]

theorem without_collision (L : Lawful eq hashf) (d : Nat) (h : UInt32) (kvs : List (K × V)) (k : K)
    (hwf : WF eq hashf d (.collision h kvs)) (shift hash : UInt32) :
    ∃ r del, (Node.collision h kvs).without eq shift hash k = .ok (r, del) ∧
      WPost eq hashf d (.collision h kvs) k r del := by
  have hwf' := hwf
  cases hwf with
  | collision hne hhash hnd =>
  cases hf : kvs.findIdx? (fun e => eq k e.1) with
  | none =>
    refine ⟨.same, false, by simp [Node.without, findIndex, hf], wpost_same L hwf' k ?_⟩
    rw [find_collision]
    have : kvs.find? (fun e => eq k e.1) = none := by
      rw [List.find?_eq_none]
      intro e he
      have := List.findIdx?_eq_none_iff.mp hf e he
      simpa using this
    rw [this]; rfl
  | some i =>
    obtain ⟨hi, hpi, _⟩ := List.findIdx?_eq_some_iff_getElem.mp hf
    have hfound : (kvs.find? (fun e => eq k e.1)).isSome = true := by
      rw [List.find?_isSome]; exact ⟨kvs[i], List.getElem_mem hi, hpi⟩
    have hisd : ∀ old, (Node.collision h kvs).find eq (shiftOf d) (hashf k) k = .ok old → true = old.isSome := by
      intro old hold
      rw [find_collision] at hold
      simp only [Res.ok.injEq] at hold
      subst hold
      cases hv : kvs.find? (fun e => eq k e.1) with
      | none => rw [hv] at hfound; cases hfound
      | some _ => rfl
    by_cases h1 : kvs.length = 1
    · refine ⟨.emptyPtr, true, by simp [Node.without, findIndex, hf, h1], ⟨by simp, (by intro m hm; cases hm), ?_, ?_, by simp [WRes.node, alOpt], hisd⟩⟩
      · intro k' old hold
        simp only [WRes.node, findOpt]
        rw [find_collision] at hold
        simp only [Res.ok.injEq] at hold
        have := coll_erase L k kvs i hf hnd k'
        obtain ⟨y, hy⟩ := List.length_eq_one_iff.mp h1
        subst hy
        have hi0 : i = 0 := by simpa using hi
        subst hi0
        simp only [List.eraseIdx_cons_zero, List.find?_nil, Option.map_none] at this
        rw [← hold, ← this]
      · simp [WRes.node, alOpt, h1]
    · have h2 : 2 ≤ kvs.length := by
        have : kvs.length ≠ 0 := fun e => hne (List.eq_nil_of_length_eq_zero e)
        omega
      have hb1 : (kvs.length == 1) = false := by simp [h1]
      refine ⟨.fresh (.collision h (kvs.eraseIdx i)), true,
        by simp [Node.without, findIndex, hf, hb1, withoutEntry, hi], ⟨by simp, ?_, ?_, ?_, ?_, hisd⟩⟩
      · intro m hm
        cases hm
        have hne' : kvs.eraseIdx i ≠ [] := by
          intro e
          have := congrArg List.length e
          rw [List.length_eraseIdx_of_lt hi] at this
          simp at this; omega
        refine ⟨WF.collision hne' ?_ ?_, by simpa using hne'⟩
        · intro e he; exact hhash e (List.mem_of_mem_eraseIdx he)
        · exact List.Pairwise.sublist (List.eraseIdx_sublist kvs i) hnd
      · intro k' old hold
        simp only [WRes.node, findOpt]
        rw [find_collision] at hold ⊢
        simp only [Res.ok.injEq] at hold
        rw [coll_erase L k kvs i hf hnd k', hold]
      · simp only [WRes.node, alOpt, toAList_collision, if_true]
        rw [List.length_eraseIdx_of_lt hi]; omega
      · intro e he
        simp only [WRes.node, alOpt, toAList_collision] at he ⊢
        exact List.mem_of_mem_eraseIdx he

/-- **Main theorem about `node.without`.** -/
theorem without_spec (L : Lawful eq hashf) {d : Nat} {n : Node K V} (h : WF eq hashf d n) :
    ∀ k, ∃ r del, n.without eq (shiftOf d) (hashf k) k = .ok (r, del) ∧ WPost eq hashf d n k r del := by
  induction h with
  | @bitmap d bm es hd hlen hkv hsub hkeys ih =>
    intro k
    have hwf : WF eq hashf d (.bitmap bm es) := WF.bitmap hd hlen hkv hsub hkeys
    have hd7 : d ≤ 7 := by omega
    have hc := chunkN_lt d (hashf k)
    rw [Node.without]
    simp only [bitpos_eq d hd7, and_bitU_eq_zero _ _ hc, index_bitU _ _ hc, withoutAt_eq, nextShift_shiftOf]
    cases hb : hasBit bm (chunkN d (hashf k))
    · refine ⟨.same, false, by simp, wpost_same L hwf k ?_⟩
      rw [find_bitmap eq d hd7 _ _ hlen, slot_none_of_not_hasBit hb]
    · obtain ⟨x, hx, hxi⟩ := slot_isSome hlen hc hb
      have hr := rank_lt_len hlen hc hb
      simp only [Bool.not_true, Bool.false_eq_true, if_false, hxi]
      cases x with
      | kv k0 v0 =>
        by_cases he : eq k0 k = true
        · obtain ⟨r, hbw, hp⟩ := wpost_bitmap_drop L hwf hb (.kv k0 v0) hx
            (by
              intro k' old _ hold
              simp only [Res.ok.injEq] at hold; subst hold
              cases h1 : eq k k'
              · have : eq k0 k' = false := by
                  cases h2 : eq k0 k'
                  · rfl
                  · have := L.trans _ _ _ (L.symm _ _ he) h2; rw [h1] at this; cases this
                simp [this]
              · simp)
            (by simp [entryAL])
            (by intro old hold; simp only [Res.ok.injEq] at hold; subst hold; simp [he])
          exact ⟨r, true, by simp [he, hbw], hp⟩
        · simp only [Bool.not_eq_true] at he
          refine ⟨.same, false, by simp [he], wpost_same L hwf k ?_⟩
          rw [find_bitmap eq d hd7 _ _ hlen, hx]
          simp [he]
      | sub child =>
        obtain ⟨r', del', hw, hp⟩ := ih _ child hc hx k
        simp only [hw, stepOf]
        have hcw := hsub _ child hc hx
        obtain ⟨oldc, holdc⟩ := find_ok hcw (hashf k) k
        cases r' with
        | same =>
          have hdel : del' = false := hp.same.mp rfl
          refine ⟨.same, false, by simp, wpost_same L hwf k ?_⟩
          rw [find_bitmap eq d hd7 _ _ hlen, hx]
          have := hp.isDel oldc holdc
          rw [hdel] at this
          simp only [holdc]
          cases oldc with
          | none => rfl
          | some _ => cases this
        | emptyPtr =>
          have hdel : del' = true := by
            cases del'
            · have := hp.same.mpr rfl; cases this
            · rfl
          subst hdel
          obtain ⟨r, hbw, hpp⟩ := wpost_bitmap_drop L hwf hb (.sub child) hx
            (by
              intro k' old _ hold
              have := hp.find k' old hold
              simp only [WRes.node, findOpt, Res.ok.injEq] at this
              exact this.symm)
            (by have := hp.size; simpa [WRes.node, alOpt, entryAL] using this.symm)
            (by intro old hold; exact (hp.isDel old hold).symm)
          exact ⟨r, true, by simp [hbw], hpp⟩
        | fresh c' =>
          have := wpost_bitmap_replace L hwf hb child hx c' del' hp
          exact ⟨_, del', by simp [replaceEntry, hr], this⟩
  | @array d nc cs hd hlen hnc hmin hsub hkeys ih =>
    intro k
    have hwf : WF eq hashf d (.array nc cs) := WF.array hd hlen hnc hmin hsub hkeys
    have hd7 : d ≤ 7 := by omega
    have hc := chunkN_lt d (hashf k)
    have hcl : chunkN d (hashf k) < cs.length := by omega
    rw [Node.without]
    simp only [chunk_toNat d hd7, withoutChild_eq, nextShift_shiftOf, List.getElem?_eq_getElem hcl]
    cases hx : cs[chunkN d (hashf k)] with
    | none =>
      refine ⟨.same, false, by simp, wpost_same L hwf k ?_⟩
      rw [find_array eq d hd7, List.getElem?_eq_getElem hcl, hx]
    | some child =>
      have hxs : cs[chunkN d (hashf k)]? = some (some child) := by
        rw [List.getElem?_eq_getElem hcl, hx]
      obtain ⟨r', del', hw, hp⟩ := ih _ child hxs k
      simp only [hw, stepOf]
      have hcw := hsub _ child hxs
      obtain ⟨oldc, holdc⟩ := find_ok hcw (hashf k) k
      cases r' with
      | same =>
        have hdel : del' = false := hp.same.mp rfl
        refine ⟨.same, false, by simp, wpost_same L hwf k ?_⟩
        rw [find_array eq d hd7, hxs]
        have := hp.isDel oldc holdc
        rw [hdel] at this
        simp only [holdc]
        cases oldc with
        | none => rfl
        | some _ => cases this
      | emptyPtr =>
        obtain ⟨m, hm, hpp⟩ := wpost_array_drop L hwf child hxs del' hp
        exact ⟨.fresh m, true, hm, hpp⟩
      | fresh c' =>
        have := wpost_array_replace L hwf child hxs c' del' hp
        exact ⟨_, true, by simp, this⟩
  | @collision d h kvs hne hh hnd =>
    intro k
    exact without_collision L d h kvs k (WF.collision hne hh hnd) _ _

end C07
