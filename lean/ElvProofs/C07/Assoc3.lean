/-
C07 helper lemmas, part 8: `createNode`, and `assoc` on a bitmap node whose
chunk is present (child / same key / different key).
-/
import ElvProofs.C07.Assoc2
namespace C07
open Go Gen.C07Bits

variable {K V : Type} {eq : K → K → Bool} {hashf : K → UInt32}

theorem createNode_spec (L : Lawful eq hashf) (fuel d : Nat) (ih : IH (V := V) eq hashf fuel) (hd : d + 1 ≤ 7)
    (k0 : K) (v0 : V) (k : K) (v : V) (hne : eq k k0 = false)
    (hagree : ∀ j < d + 1, chunkN j (hashf k0) = chunkN j (hashf k))
    (hfuel : 2 * (7 - (d + 1)) + 1 ≤ fuel) :
    ∃ m, createNode (assoc eq hashf fuel) hashf (shiftOf (d + 1)) k0 v0 (hashf k) k v = .ok m ∧
      WF eq hashf (d + 1) m ∧
      (∀ k', m.find eq (shiftOf (d + 1)) (hashf k') k' =
        .ok (if eq k k' then some v else if eq k0 k' then some v0 else none)) ∧
      m.toAList.length = 2 ∧ (∀ e ∈ m.toAList, e = (k0, v0) ∨ e = (k, v)) := by
  have hne' : eq k0 k = false := eq_false_symm L hne
  unfold createNode
  by_cases hh : (hashf k0 == hashf k) = true
  · have hheq : hashf k0 = hashf k := by simpa using hh
    refine ⟨.collision (hashf k0) [(k0, v0), (k, v)], by simp [hh], ?_, ?_, by simp, by simp⟩
    · refine WF.collision (by simp) ?_ ?_
      · intro e he; simp at he; rcases he with rfl | rfl <;> simp [hheq]
      · simp [hne']
    · intro k'
      rw [find_collision]
      cases h1 : eq k k' <;> cases h2 : eq k0 k'
      · have a : eq k' k0 = false := eq_false_symm L h2
        have b : eq k' k = false := eq_false_symm L h1
        simp [a, b]
      · have a : eq k' k0 = true := L.symm _ _ h2
        simp [a]
      · have a : eq k' k0 = false := eq_false_symm L h2
        have b : eq k' k = true := L.symm _ _ h1
        simp [a, b]
      · have := L.trans _ _ _ h1 (L.symm _ _ h2); rw [hne] at this; cases this
  · have hd6 : d + 1 ≤ 6 := by
      rcases Nat.lt_or_ge (d + 1) 7 with h | h
      · omega
      · exfalso
        have : d + 1 = 7 := by omega
        rw [this] at hagree
        exact hh (by simp [eq_of_agree7 hagree])
    obtain ⟨f, rfl⟩ : ∃ f, fuel = f + 1 := ⟨fuel - 1, by omega⟩
    have hs := wf_single (eq := eq) (hashf := hashf) (d + 1) hd6 k0 v0
    obtain ⟨n', added, hassoc, post⟩ := ih (d + 1) (single (d + 1) (hashf k0) k0 v0) k v hd
      (by simpa [need, single] using hfuel) hs
      (by intro e he j hj; simp at he; subst he; exact hagree j hj)
    have hf0 := find_single L (d + 1) hd k0 v0
    have hadd : added = true := by
      have := post.isNew _ (hf0 k)
      simpa [hne'] using this
    refine ⟨n', ?_, post.wf, ?_, ?_, ?_⟩
    · simp only [hh, if_false, Bool.false_eq_true]
      rw [assoc_empty f (d + 1) hd]
      simp only [ok_bind]
      rw [hassoc]
      rfl
    · intro k'
      exact post.find k' _ (hf0 k')
    · have := post.size
      simpa [hadd] using this
    · intro e he
      rcases post.keys e he with h | h
      · left; simpa using h
      · right; exact h

/-! ### bitmap node, chunk present -/

theorem assoc_bitmap_present (L : Lawful eq hashf) (fuel d : Nat) (ih : IH (V := V) eq hashf fuel)
    (bm : UInt32) (es : List (Entry K V))
    (k : K) (v : V) (hwf : WF eq hashf d (.bitmap bm es))
    (hag : AgreeBelow hashf d (.bitmap bm es) (hashf k))
    (hfuel : 2 * (7 - d) + 1 ≤ fuel + 1)
    (hb : hasBit bm (chunkN d (hashf k)) = true) :
    ∃ n' added, assoc eq hashf (fuel + 1) (.bitmap bm es) (shiftOf d) (hashf k) k v = .ok (n', added) ∧
      Post eq hashf d (.bitmap bm es) k v n' added := by
  have hwf' := hwf
  cases hwf with
  | bitmap hd hlen hkv hsub hkeys =>
  have hd7 : d ≤ 7 := by omega
  have hc := chunkN_lt d (hashf k)
  have hr := rank_lt_len hlen hc hb
  obtain ⟨x, hx, hxi⟩ := slot_isSome hlen hc hb
  have hunf : ∀ (r : Res (Node K V × Bool)),
      (match some x with
        | none => Res.panic "index out of range"
        | some (.sub child) => do
          let (newChild, added) ← assoc eq hashf fuel child (shiftOf (d + 1)) (hashf k) k v
          let es' ← replaceEntry es (rank bm (chunkN d (hashf k))) (.sub newChild)
          pure (.bitmap bm es', added)
        | some (.kv k0 v0) =>
          if eq k k0 then do
            let es' ← replaceEntry es (rank bm (chunkN d (hashf k))) (.kv k v)
            pure (.bitmap bm es', false)
          else do
            let newNode ← createNode (assoc eq hashf fuel) hashf (shiftOf (d + 1)) k0 v0 (hashf k) k v
            let es' ← replaceEntry es (rank bm (chunkN d (hashf k))) (.sub newNode)
            pure (.bitmap bm es', true)) = r →
      assoc eq hashf (fuel + 1) (.bitmap bm es) (shiftOf d) (hashf k) k v = r := by
    intro r hr'
    rw [assoc]
    simp only [bitpos_eq d hd7, and_bitU_eq_zero _ _ hc, index_bitU _ _ hc, hb, hxi, nextShift_shiftOf]
    exact hr'
  cases x with
  | sub child =>
    have hcw := hsub _ child hc hx
    have hck := hkeys _ child hc hx
    have hcag : AgreeBelow hashf (d + 1) child (hashf k) := by
      intro e he j hj
      rcases Nat.lt_or_ge j d with h | h
      · exact hag e (mem_bitmap_of_slot hx he) j h
      · have : j = d := by omega
        subst this; exact hck.2 e he
    obtain ⟨child', added, hassoc, post⟩ := ih (d + 1) child k v (by omega)
      (by have := need_le (d + 1) child; omega) hcw hcag
    refine ⟨.bitmap bm (es.set (rank bm (chunkN d (hashf k))) (.sub child')), added, ?_, ?_⟩
    · apply hunf
      simp only [hassoc, ok_bind, replaceEntry, hr, if_true, pure_eq_ok]
    · refine post_bitmap_set L hwf' hb _ (.sub child') added hx (by intro _ _ h; cases h) ?_ ?_ ?_ ?_ ?_ ?_
      · intro m hm
        cases hm
        refine ⟨post.wf, post.ne, ?_⟩
        intro e he
        rcases post.keys e he with h | h
        · exact hck.2 e h
        · subst h; rfl
      · intro k' old _ hold
        exact post.find k' old hold
      · intro old hold
        exact post.isNew old hold
      · simpa [entryAL] using post.size
      · intro e he
        exact post.keys e he
      · exact post.ne
  | kv k0 v0 =>
    have hk0 := hkv _ k0 v0 hc hx
    by_cases he : eq k k0 = true
    · refine ⟨.bitmap bm (es.set (rank bm (chunkN d (hashf k))) (.kv k v)), false, ?_, ?_⟩
      · apply hunf
        simp [he, replaceEntry, hr]
      · refine post_bitmap_set L hwf' hb _ (.kv k v) false hx ?_ (by intro _ h; cases h) ?_ ?_ ?_ ?_ ?_
        · intro a b h; cases h; rfl
        · intro k' old _ hold
          simp only [Res.ok.injEq] at hold
          subst hold
          cases h1 : eq k k'
          · have : eq k0 k' = false := by
              cases h2 : eq k0 k'
              · rfl
              · have := L.trans _ _ _ he h2; rw [h1] at this; cases this
            simp [this, h1]
          · simp [h1]
        · intro old hold
          simp only [Res.ok.injEq] at hold
          subst hold
          simp [L.symm _ _ he]
        · simp [entryAL]
        · intro e he'; right; simpa [entryAL] using he'
        · simp [entryAL]
    · simp only [Bool.not_eq_true] at he
      have hagree : ∀ j < d + 1, chunkN j (hashf k0) = chunkN j (hashf k) := by
        intro j hj
        rcases Nat.lt_or_ge j d with h | h
        · exact hag (k0, v0) (mem_bitmap_of_slot hx (by simp [entryAL])) j h
        · have : j = d := by omega
          subst this; exact hk0
      obtain ⟨m, hcreate, mwf, mfind, msize, mkeys⟩ :=
        createNode_spec L fuel d ih (by omega) k0 v0 k v he hagree (by omega)
      have mne : m.toAList ≠ [] := by
        intro h; rw [h] at msize; cases msize
      refine ⟨.bitmap bm (es.set (rank bm (chunkN d (hashf k))) (.sub m)), true, ?_, ?_⟩
      · apply hunf
        simp [he, hcreate, replaceEntry, hr]
      · refine post_bitmap_set L hwf' hb _ (.sub m) true hx (by intro _ _ h; cases h) ?_ ?_ ?_ ?_ ?_ ?_
        · intro m' hm
          cases hm
          refine ⟨mwf, mne, ?_⟩
          intro e he'
          rcases mkeys e he' with h | h
          · subst h; exact hk0
          · subst h; rfl
        · intro k' old _ hold
          simp only [Res.ok.injEq] at hold
          subst hold
          exact mfind k'
        · intro old hold
          simp only [Res.ok.injEq] at hold
          subst hold
          simp [eq_false_symm L he]
        · simp [entryAL, msize]
        · intro e he'
          rcases mkeys e he' with h | h
          · left; simp [entryAL, h]
          · right; exact h
        · exact mne

end C07
