/-
C07 helper lemmas, part 15: `without` on array and collision nodes and the main
theorem about `node.without`.
-/
import ElvProofs.C07.Without2
namespace C07
open Go Gen.C07Bits

variable {K V : Type} {eq : K → K → Bool} {hashf : K → UInt32}

theorem countP_set_none {α : Type} (cs : List (Option α)) (c : Nat) (x : α)
    (hx : cs[c]? = some (some x)) :
    (cs.set c none).countP Option.isSome + 1 = cs.countP Option.isSome := by
  have hc : c < cs.length := by
    rcases Nat.lt_or_ge c cs.length with h | h
    · exact h
    · rw [List.getElem?_eq_none h] at hx; cases hx
  have hxi : cs[c] = some x := by rw [List.getElem?_eq_getElem hc] at hx; exact Option.some.inj hx
  have h1 : cs = cs.take c ++ cs[c] :: cs.drop (c + 1) := by
    rw [← List.drop_eq_getElem_cons hc, List.take_append_drop]
  rw [List.set_eq_take_append_cons_drop, if_pos hc]
  conv => rhs; rw [h1]
  simp only [List.countP_append, List.countP_cons, hxi]
  simp; omega

theorem array_ne_nil {d : Nat} {nc : Int} {cs : List (Option (Node K V))}
    (hwf : WF eq hashf d (.array nc cs)) : (Node.array nc cs).toAList ≠ [] := by
  cases hwf with
  | array hd hlen hnc hmin hsub hkeys =>
  have hpos : 0 < cs.countP Option.isSome := by omega
  obtain ⟨x, hx, hsome⟩ := List.countP_pos_iff.mp hpos
  cases x with
  | none => cases hsome
  | some n =>
    obtain ⟨c, hc, hcx⟩ := List.getElem_of_mem hx
    have hs : cs[c]? = some (some n) := by rw [List.getElem?_eq_getElem hc, hcx]
    rw [toAList_array]
    intro h
    have := List.flatMap_eq_nil_iff.mp h _ hx
    exact (hkeys c n hs).1 (by simpa [childAL] using this)

/-- array node: the child of chunk `c` is replaced by a smaller one -/
theorem wpost_array_replace (L : Lawful eq hashf) {d : Nat} {nc : Int} {cs : List (Option (Node K V))} {k : K}
    (hwf : WF eq hashf d (.array nc cs))
    (child : Node K V) (hx : cs[chunkN d (hashf k)]? = some (some child))
    (c' : Node K V) (del : Bool) (hp : WPost eq hashf (d + 1) child k (.fresh c') del) :
    WPost eq hashf d (.array nc cs) k
      (.fresh (.array (nc + 0) (cs.set (chunkN d (hashf k)) (some c')))) true := by
  have hwf' := hwf
  cases hwf with
  | array hd hlen hnc hmin hsub hkeys =>
  have hd7 : d ≤ 7 := by omega
  have hc := chunkN_lt d (hashf k)
  have hcl : chunkN d (hashf k) < cs.length := by omega
  have hxi : cs[chunkN d (hashf k)] = some child := by
    rw [List.getElem?_eq_getElem hcl] at hx; exact Option.some.inj hx
  have hdel : del = true := by
    cases del
    · have := hp.same.mpr rfl; cases this
    · rfl
  subst hdel
  obtain ⟨hcw, hcne⟩ := hp.wf c' rfl
  have hck := hkeys _ child hx
  have hwfn : WF eq hashf d (.array (nc + 0) (cs.set (chunkN d (hashf k)) (some c'))) := by
    refine WF.array hd (by simpa using hlen) ?_ (by omega) ?_ ?_
    · rw [countP_set_isSome cs _ (some child) c' hx, hnc]; simp
    · intro c n hs
      rw [List.getElem?_set] at hs
      split at hs
      · simp at hs; subst hs; exact hcw
      · exact hsub c n hs
    · intro c n hs
      rw [List.getElem?_set] at hs
      split at hs
      · next h =>
        simp at hs; subst hs
        refine ⟨hcne, ?_⟩
        intro e he
        rw [← h]
        exact hck.2 e (hp.keys e (by simpa [WRes.node, alOpt] using he))
      · exact hkeys c n hs
  refine ⟨by simp, ?_, ?_, ?_, ?_, ?_⟩
  · intro m hm; cases hm; exact ⟨hwfn, array_ne_nil hwfn⟩
  · intro k' old hold
    simp only [WRes.node, findOpt]
    rw [find_array eq d hd7] at hold
    rw [find_array eq d hd7, List.getElem?_set]
    by_cases h : chunkN d (hashf k') = chunkN d (hashf k)
    · rw [h, hx] at hold
      have := hp.find k' old hold
      simp only [WRes.node, findOpt] at this
      simp [h, hcl, this]
    · have hne := not_eq_of_chunk_ne L (fun e => h e.symm)
      rw [if_neg (fun e => h e.symm), hne]
      simpa using hold
  · have h1 := length_flatMap_set childAL cs _ (some c') hcl
    rw [hxi] at h1
    have h2 := hp.size
    simp only [WRes.node, alOpt, toAList_array, childAL, if_true] at h1 h2 ⊢
    omega
  · intro e he
    simp only [WRes.node, alOpt, toAList_array] at he ⊢
    rcases mem_flatMap_set childAL he with h | h
    · exact h
    · have := hp.keys e (by simpa [WRes.node, alOpt, childAL] using h)
      have := mem_array_of_child (nc := nc) hx this
      simpa using this
  · intro old hold
    rw [find_array eq d hd7, hx] at hold
    exact hp.isDel old hold

/-- array node: the child of chunk `c` becomes empty -/
theorem wpost_array_drop (L : Lawful eq hashf) {d : Nat} {nc : Int} {cs : List (Option (Node K V))} {k : K}
    (hwf : WF eq hashf d (.array nc cs))
    (child : Node K V) (hx : cs[chunkN d (hashf k)]? = some (some child))
    (del : Bool) (hp : WPost eq hashf (d + 1) child k .emptyPtr del) :
    ∃ m, (if nc ≤ ((nodeCap / 4 : Nat) : Int) then do
            let p ← pack nc cs (chunkN d (hashf k))
            pure (WRes.fresh p, true)
          else Res.ok (WRes.fresh (.array (nc + -1) (cs.set (chunkN d (hashf k)) none)), true)) = .ok (.fresh m, true) ∧
      WPost eq hashf d (.array nc cs) k (.fresh m) true := by
  have hwf' := hwf
  cases hwf with
  | array hd hlen hnc hmin hsub hkeys =>
  have hd7 : d ≤ 7 := by omega
  have hc := chunkN_lt d (hashf k)
  have hcl : chunkN d (hashf k) < cs.length := by omega
  have hxi : cs[chunkN d (hashf k)] = some child := by
    rw [List.getElem?_eq_getElem hcl] at hx; exact Option.some.inj hx
  have hdel : del = true := by
    cases del
    · have := hp.same.mpr rfl; cases this
    · rfl
  subst hdel
  have hsz1 : child.toAList.length = 1 := by
    have := hp.size; simpa [WRes.node, alOpt] using this.symm
  -- lookups that reach this child find nothing afterwards
  have hfindc : ∀ k' old, (Node.array nc cs).find eq (shiftOf d) (hashf k') k' = .ok old →
      chunkN d (hashf k') = chunkN d (hashf k) → (if eq k k' then none else old) = none := by
    intro k' old hold h
    rw [find_array eq d hd7, h, hx] at hold
    have := hp.find k' old hold
    simp only [WRes.node, findOpt, Res.ok.injEq] at this
    exact this.symm
  have hisd : ∀ old, (Node.array nc cs).find eq (shiftOf d) (hashf k) k = .ok old → true = old.isSome := by
    intro old hold
    rw [find_array eq d hd7, hx] at hold
    exact hp.isDel old hold
  have hsplit := flatMap_split childAL cs _ hcl
  rw [hxi] at hsplit
  by_cases hsmall : nc ≤ ((nodeCap / 4 : Nat) : Int)
  · -- pack into a bitmap node
    obtain ⟨bm', es', hpack, hl1, hl2, hslot⟩ := pack_spec nc cs _ child hlen hnc hx
    have hwfn : WF eq hashf d (.bitmap bm' es') := by
      refine WF.bitmap (by omega) hl1 ?_ ?_ ?_
      · intro c k0 v0 _ hs
        rw [hslot] at hs; split at hs
        · cases hs
        · cases hv : cs[c]?.bind id <;> rw [hv] at hs <;> cases hs
      · intro c n _ hs
        rw [hslot] at hs; split at hs
        · cases hs
        · cases hv : cs[c]?.bind id with
          | none => rw [hv] at hs; cases hs
          | some n' =>
            rw [hv] at hs; simp at hs; subst hs
            apply hsub c n'
            cases hcc : cs[c]? with
            | none => rw [hcc] at hv; cases hv
            | some o => rw [hcc] at hv; simp at hv; rw [hv]
      · intro c n _ hs
        rw [hslot] at hs; split at hs
        · cases hs
        · cases hv : cs[c]?.bind id with
          | none => rw [hv] at hs; cases hs
          | some n' =>
            rw [hv] at hs; simp at hs; subst hs
            apply hkeys c n'
            cases hcc : cs[c]? with
            | none => rw [hcc] at hv; cases hv
            | some o => rw [hcc] at hv; simp at hv; rw [hv]
    have hesne : es' ≠ [] := by
      intro e; rw [e] at hl2; simp at hl2; omega
    -- contents: the same children, without the emptied one
    have hmem : ∀ e, e ∈ es'.flatMap entryAL ↔
        ∃ c n, c ≠ chunkN d (hashf k) ∧ cs[c]? = some (some n) ∧ e ∈ n.toAList := by
      intro e
      rw [List.mem_flatMap]
      constructor
      · rintro ⟨x, hxm, hex⟩
        obtain ⟨c, hc32, hs⟩ := (mem_iff_slot hl1 x).mp hxm
        rw [hslot] at hs
        split at hs
        · cases hs
        · next hne =>
          cases hcc : cs[c]? with
          | none => rw [hcc] at hs; cases hs
          | some o =>
            cases o with
            | none => rw [hcc] at hs; cases hs
            | some n =>
              rw [hcc] at hs; simp at hs; subst hs
              exact ⟨c, n, hne, hcc, by simpa [entryAL] using hex⟩
      · rintro ⟨c, n, hne, hcc, hen⟩
        have hc32 : c < 32 := by
          rcases Nat.lt_or_ge c 32 with h | h
          · exact h
          · rw [List.getElem?_eq_none (by omega)] at hcc; cases hcc
        refine ⟨.sub n, (mem_iff_slot hl1 _).mpr ⟨c, hc32, ?_⟩, by simpa [entryAL] using hen⟩
        rw [hslot, if_neg hne, hcc]; rfl
    refine ⟨.bitmap bm' es', by rw [if_pos hsmall, hpack]; rfl, ⟨by simp, ?_, ?_, ?_, ?_, hisd⟩⟩
    · intro m hm; cases hm; exact ⟨hwfn, toAList_ne_nil_of_entries hwfn hesne⟩
    · intro k' old hold
      simp only [WRes.node, findOpt]
      rw [find_bitmap eq d hd7 _ _ hl1, hslot]
      by_cases h : chunkN d (hashf k') = chunkN d (hashf k)
      · rw [if_pos h, hfindc k' old hold h]
      · have hne := not_eq_of_chunk_ne L (fun e => h e.symm)
        rw [if_neg h, hne]
        rw [find_array eq d hd7] at hold
        have hlt : chunkN d (hashf k') < cs.length := by have := chunkN_lt d (hashf k'); omega
        rw [List.getElem?_eq_getElem hlt] at hold ⊢
        cases hv : cs[chunkN d (hashf k')] <;> rw [hv] at hold <;> simpa using hold
    · -- sizes: compare through the array with the child removed
      have hbc : hasBit bm' (chunkN d (hashf k)) = false := by
        cases hb : hasBit bm' (chunkN d (hashf k))
        · rfl
        · obtain ⟨x, hx', _⟩ := slot_isSome hl1 hc hb
          rw [hslot] at hx'; simp at hx'
      have hP : ∀ c, cs[c]? = match slot bm' es' c with
          | some x => some (some (conv hashf d x))
          | none => if c = chunkN d (hashf k) then some (some child) else if c < 32 then some none else none := by
        intro c
        rw [hslot]
        by_cases hcc : c = chunkN d (hashf k)
        · subst hcc; simp [hx]
        · rw [if_neg hcc]
          rcases Nat.lt_or_ge c 32 with h32 | h32
          · have hlt : c < cs.length := by omega
            rw [List.getElem?_eq_getElem hlt]
            cases hv : cs[c] with
            | none => simp [hcc, h32]
            | some n => simp [conv]
          · rw [List.getElem?_eq_none (by omega)]
            simp [hcc]; omega
      have hB := flat_take_len (hashf := hashf) d bm' es' hl1 cs hlen (chunkN d (hashf k)) child hbc hP 32 (by omega)
      rw [List.take_of_length_le (by omega), List.take_of_length_le (by omega), if_pos hc, hsz1] at hB
      simp only [WRes.node, alOpt, toAList_bitmap, toAList_array, if_true]
      omega
    · intro e he
      simp only [WRes.node, alOpt, toAList_bitmap] at he
      obtain ⟨c, n, _, hcc, hen⟩ := (hmem e).mp he
      exact mem_array_of_child hcc hen
  · -- stay an array node
    have hbig : 8 < nc := by simp [nodeCap] at hsmall; omega
    have hwfn : WF eq hashf d (.array (nc + -1) (cs.set (chunkN d (hashf k)) none)) := by
      refine WF.array hd (by simpa using hlen) ?_ (by omega) ?_ ?_
      · have := countP_set_none cs _ child hx
        omega
      · intro c n hs
        rw [List.getElem?_set] at hs
        split at hs
        · simp at hs
        · exact hsub c n hs
      · intro c n hs
        rw [List.getElem?_set] at hs
        split at hs
        · simp at hs
        · exact hkeys c n hs
    refine ⟨_, by rw [if_neg hsmall], ⟨by simp, ?_, ?_, ?_, ?_, hisd⟩⟩
    · intro m hm; cases hm; exact ⟨hwfn, array_ne_nil hwfn⟩
    · intro k' old hold
      simp only [WRes.node, findOpt]
      rw [find_array eq d hd7, List.getElem?_set]
      by_cases h : chunkN d (hashf k') = chunkN d (hashf k)
      · rw [hfindc k' old hold h]
        simp [h, hcl]
      · have hne := not_eq_of_chunk_ne L (fun e => h e.symm)
        rw [if_neg (fun e => h e.symm), hne]
        rw [find_array eq d hd7] at hold
        simpa using hold
    · have := length_flatMap_set childAL cs _ none hcl
      rw [hxi] at this
      simp only [WRes.node, alOpt, toAList_array, childAL, List.length_nil, if_true] at this ⊢
      omega
    · intro e he
      simp only [WRes.node, alOpt, toAList_array] at he ⊢
      rcases mem_flatMap_set childAL he with h | h
      · exact h
      · simp [childAL] at h

end C07
