/-
C07 helper lemmas, part 5: the contents `toAList` of nodes as `flatMap`s, and
how the slice updates of the Go code change them.
-/
import ElvProofs.C07.Inv
namespace C07
open Go Gen.C07Bits

variable {K V : Type}

/-- contents of one bitmap-node entry -/
def entryAL : Entry K V → List (K × V)
  | .kv k v => [(k, v)]
  | .sub n => n.toAList

/-- contents of one array-node child -/
def childAL : Option (Node K V) → List (K × V)
  | none => []
  | some n => n.toAList

theorem entriesToAList_eq (es : List (Entry K V)) : entriesToAList es = es.flatMap entryAL := by
  induction es with
  | nil => simp [entriesToAList]
  | cons e es ih => cases e <;> simp [entriesToAList, entryAL, ih]

theorem childrenToAList_eq (cs : List (Option (Node K V))) : childrenToAList cs = cs.flatMap childAL := by
  induction cs with
  | nil => simp [childrenToAList]
  | cons c cs ih => cases c <;> simp [childrenToAList, childAL, ih]

@[simp] theorem toAList_bitmap (bm : UInt32) (es : List (Entry K V)) :
    (Node.bitmap bm es).toAList = es.flatMap entryAL := by
  rw [Node.toAList, entriesToAList_eq]

@[simp] theorem toAList_array (nc : Int) (cs : List (Option (Node K V))) :
    (Node.array nc cs).toAList = cs.flatMap childAL := by
  rw [Node.toAList, childrenToAList_eq]

@[simp] theorem toAList_collision (h : UInt32) (kvs : List (K × V)) :
    (Node.collision h kvs).toAList = kvs := by
  rw [Node.toAList]

section flat
variable {α β : Type} (f : α → List β)

theorem flatMap_mid (a : List α) (x : α) (b : List α) :
    (a ++ x :: b).flatMap f = a.flatMap f ++ f x ++ b.flatMap f := by
  simp [List.flatMap_append]

theorem flatMap_split (l : List α) (i : Nat) (hi : i < l.length) :
    l.flatMap f = (l.take i).flatMap f ++ f l[i] ++ (l.drop (i + 1)).flatMap f := by
  have h : l = l.take i ++ l[i] :: l.drop (i + 1) := by
    rw [← List.drop_eq_getElem_cons hi, List.take_append_drop]
  exact (congrArg (List.flatMap f) h).trans (flatMap_mid f _ _ _)

theorem flatMap_set (l : List α) (i : Nat) (x : α) (hi : i < l.length) :
    (l.set i x).flatMap f = (l.take i).flatMap f ++ f x ++ (l.drop (i + 1)).flatMap f := by
  rw [List.set_eq_take_append_cons_drop, if_pos hi]
  simp [List.flatMap_append]

theorem length_flatMap_set (l : List α) (i : Nat) (x : α) (hi : i < l.length) :
    ((l.set i x).flatMap f).length + (f l[i]).length = (l.flatMap f).length + (f x).length := by
  rw [flatMap_set f l i x hi, flatMap_split f l i hi]
  simp only [List.length_append]; omega

theorem flatMap_insert (l : List α) (r : Nat) (x : α) :
    (l.take r ++ x :: l.drop r).flatMap f = (l.take r).flatMap f ++ f x ++ (l.drop r).flatMap f := by
  simp [List.flatMap_append]

theorem length_flatMap_insert (l : List α) (r : Nat) (x : α) :
    ((l.take r ++ x :: l.drop r).flatMap f).length = (l.flatMap f).length + (f x).length := by
  rw [flatMap_insert]
  have h : l.flatMap f = (l.take r).flatMap f ++ (l.drop r).flatMap f := by
    rw [← List.flatMap_append, List.take_append_drop]
  rw [h]
  simp only [List.length_append]; omega

theorem mem_flatMap_set {l : List α} {i : Nat} {x : α} {b : β} (h : b ∈ (l.set i x).flatMap f) :
    b ∈ l.flatMap f ∨ b ∈ f x := by
  rw [List.mem_flatMap] at h
  obtain ⟨a, ha, hb⟩ := h
  rcases List.mem_or_eq_of_mem_set ha with h1 | h1
  · exact Or.inl (List.mem_flatMap.mpr ⟨a, h1, hb⟩)
  · subst h1; exact Or.inr hb

theorem mem_flatMap_insert {l : List α} {r : Nat} {x : α} {b : β}
    (h : b ∈ (l.take r ++ x :: l.drop r).flatMap f) : b ∈ l.flatMap f ∨ b ∈ f x := by
  rw [List.mem_flatMap] at h
  obtain ⟨a, ha, hb⟩ := h
  rw [List.mem_append, List.mem_cons] at ha
  rcases ha with h1 | h1 | h1
  · exact Or.inl (List.mem_flatMap.mpr ⟨a, List.mem_of_mem_take h1, hb⟩)
  · subst h1; exact Or.inr hb
  · exact Or.inl (List.mem_flatMap.mpr ⟨a, List.mem_of_mem_drop h1, hb⟩)

end flat

/-- the contents of the child stored for chunk `c` are contents of the bitmap node -/
theorem mem_bitmap_of_slot {bm : UInt32} {es : List (Entry K V)} {c : Nat} {x : Entry K V}
    (h : slot bm es c = some x) {e : K × V} (he : e ∈ entryAL x) :
    e ∈ (Node.bitmap bm es).toAList := by
  rw [toAList_bitmap, List.mem_flatMap]
  refine ⟨x, ?_, he⟩
  unfold slot at h
  split at h
  · exact List.mem_of_getElem? h
  · simp at h

theorem mem_array_of_child {nc : Int} {cs : List (Option (Node K V))} {c : Nat} {n : Node K V}
    (h : cs[c]? = some (some n)) {e : K × V} (he : e ∈ n.toAList) :
    e ∈ (Node.array nc cs).toAList := by
  rw [toAList_array, List.mem_flatMap]
  exact ⟨some n, List.mem_of_getElem? h, he⟩

end C07
