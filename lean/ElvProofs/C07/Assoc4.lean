/-
C07 helper lemmas, part 9: `assoc` on array nodes and on collision nodes.
-/
import ElvProofs.C07.Assoc3
namespace C07
open Go Gen.C07Bits

variable {K V : Type} {eq : K → K → Bool} {hashf : K → UInt32}

theorem countP_set_isSome {α : Type} (cs : List (Option α)) (c : Nat) (x : Option α) (m : α)
    (hx : cs[c]? = some x) :
    (cs.set c (some m)).countP Option.isSome = cs.countP Option.isSome + (if x.isNone then 1 else 0) := by
  have hc : c < cs.length := by
    rcases Nat.lt_or_ge c cs.length with h | h
    · exact h
    · rw [List.getElem?_eq_none h] at hx; cases hx
  have hxi : cs[c] = x := by rw [List.getElem?_eq_getElem hc] at hx; exact Option.some.inj hx
  have h1 : cs = cs.take c ++ cs[c] :: cs.drop (c + 1) := by
    rw [← List.drop_eq_getElem_cons hc, List.take_append_drop]
  rw [List.set_eq_take_append_cons_drop, if_pos hc]
  conv => rhs; rw [h1]
  simp only [List.countP_append, List.countP_cons, hxi]
  cases x <;> simp <;> omega

/-- replacing the child stored for chunk `c` of an array node -/
theorem post_array_set (L : Lawful eq hashf) {d : Nat} {nc : Int} {cs : List (Option (Node K V))}
    {k : K} {v : V} (hwf : WF eq hashf d (.array nc cs))
    (x : Option (Node K V)) (m : Node K V) (added : Bool)
    (hx : cs[chunkN d (hashf k)]? = some x)
    (hm : WF eq hashf (d + 1) m ∧ m.toAList ≠ [] ∧
      ∀ e ∈ m.toAList, chunkN d (hashf e.1) = chunkN d (hashf k))
    (hfind : ∀ k' old, chunkN d (hashf k') = chunkN d (hashf k) →
      (match x with
        | none => Res.ok none
        | some n => n.find eq (shiftOf (d + 1)) (hashf k') k') = .ok old →
      m.find eq (shiftOf (d + 1)) (hashf k') k' = .ok (if eq k k' then some v else old))
    (hadded : ∀ old,
      (match x with
        | none => Res.ok none
        | some n => n.find eq (shiftOf (d + 1)) (hashf k) k) = .ok old → added = old.isNone)
    (hsize : m.toAList.length = (childAL x).length + (if added then 1 else 0))
    (hkeys' : ∀ e ∈ m.toAList, e ∈ childAL x ∨ e = (k, v)) :
    Post eq hashf d (.array nc cs) k v
      (.array (nc + (if x.isNone then 1 else 0)) (cs.set (chunkN d (hashf k)) (some m))) added := by
  cases hwf with
  | array hd hlen hnc hmin hsub hkeys =>
  have hd7 : d ≤ 7 := by omega
  have hc := chunkN_lt d (hashf k)
  have hcl : chunkN d (hashf k) < cs.length := by omega
  have hxi : cs[chunkN d (hashf k)] = x := by
    rw [List.getElem?_eq_getElem hcl] at hx; exact Option.some.inj hx
  constructor
  · refine WF.array hd (by simpa using hlen) ?_ ?_ ?_ ?_
    · rw [countP_set_isSome cs _ x m hx, hnc]
      cases x <;> simp
    · cases x <;> simp <;> omega
    · intro c n hs
      rw [List.getElem?_set] at hs
      split at hs
      · next h => simp at hs; subst hs; exact hm.1
      · exact hsub c n hs
    · intro c n hs
      rw [List.getElem?_set] at hs
      split at hs
      · next h => simp at hs; subst hs; rw [← h]; exact hm.2
      · exact hkeys c n hs
  · intro k' old hold
    rw [find_array eq d hd7] at hold
    rw [find_array eq d hd7, List.getElem?_set]
    by_cases h : chunkN d (hashf k') = chunkN d (hashf k)
    · rw [h, hx] at hold
      have := hfind k' old h (by cases x <;> exact hold)
      simp [h, hcl, this]
    · have hne := not_eq_of_chunk_ne L (fun e => h e.symm)
      rw [if_neg (fun e => h e.symm), hne]
      simpa using hold
  · have := length_flatMap_set childAL cs _ (some m) hcl
    rw [hxi] at this
    simp only [toAList_array, childAL] at this ⊢
    simp only [childAL] at hsize
    omega
  · intro e he
    rw [toAList_array] at he
    rcases mem_flatMap_set childAL he with h | h
    · left; rwa [toAList_array]
    · rcases hkeys' e h with h2 | h2
      · left
        rw [toAList_array, List.mem_flatMap]
        exact ⟨x, List.mem_of_getElem? hx, h2⟩
      · right; exact h2
  · rw [toAList_array, flatMap_set childAL _ _ _ hcl]
    intro h
    simp only [List.append_eq_nil_iff] at h
    exact hm.2.1 h.1.2
  · intro old hold
    rw [find_array eq d hd7, hx] at hold
    exact hadded old (by cases x <;> exact hold)

theorem assoc_array (L : Lawful eq hashf) (fuel d : Nat) (ih : IH (V := V) eq hashf fuel)
    (nc : Int) (cs : List (Option (Node K V)))
    (k : K) (v : V) (hwf : WF eq hashf d (.array nc cs))
    (hag : AgreeBelow hashf d (.array nc cs) (hashf k))
    (hfuel : 2 * (7 - d) + 1 ≤ fuel + 1) :
    ∃ n' added, assoc eq hashf (fuel + 1) (.array nc cs) (shiftOf d) (hashf k) k v = .ok (n', added) ∧
      Post eq hashf d (.array nc cs) k v n' added := by
  have hwf' := hwf
  cases hwf with
  | array hd hlen hnc hmin hsub hkeys =>
  have hd7 : d ≤ 7 := by omega
  have hc := chunkN_lt d (hashf k)
  have hcl : chunkN d (hashf k) < cs.length := by omega
  obtain ⟨x, hx⟩ : ∃ x, cs[chunkN d (hashf k)]? = some x := ⟨_, List.getElem?_eq_getElem hcl⟩
  have hunf : ∀ (r : Res (Node K V × Bool)),
      (match some x with
        | none => outside "arrayNode.children shorter than 32"
        | some none => do
          let (newChild, _) ← assoc eq hashf fuel emptyBitmapNode (shiftOf (d + 1)) (hashf k) k v
          pure (.array (nc + 1) (cs.set (chunkN d (hashf k)) (some newChild)), true)
        | some (some child) => do
          let (newChild, added) ← assoc eq hashf fuel child (shiftOf (d + 1)) (hashf k) k v
          pure (.array (nc + 0) (cs.set (chunkN d (hashf k)) (some newChild)), added)) = r →
      assoc eq hashf (fuel + 1) (.array nc cs) (shiftOf d) (hashf k) k v = r := by
    intro r hr'
    rw [assoc]
    simp only [chunk_toNat d hd7, hx, nextShift_shiftOf]
    exact hr'
  cases x with
  | none =>
    obtain ⟨f, rfl⟩ : ∃ f, fuel = f + 1 := ⟨fuel - 1, by omega⟩
    refine ⟨.array (nc + 1) (cs.set (chunkN d (hashf k)) (some (single (d + 1) (hashf k) k v))), true, ?_, ?_⟩
    · apply hunf
      simp [assoc_empty f (d + 1) (by omega)]
    · have := post_array_set L hwf' none (single (d + 1) (hashf k) k v) true hx
        ⟨wf_single (d + 1) (by omega) k v, by simp, by intro e he; simp at he; subst he; rfl⟩
        (by intro k' old _ hold
            simp only [Res.ok.injEq] at hold; subst hold
            simpa using find_single L (d + 1) (by omega) k v k')
        (by intro old hold; simp only [Res.ok.injEq] at hold; subst hold; rfl)
        (by simp [childAL])
        (by intro e he; right; simpa using he)
      simpa using this
  | some child =>
    have hcw := hsub _ child hx
    have hck := hkeys _ child hx
    have hcag : AgreeBelow hashf (d + 1) child (hashf k) := by
      intro e he j hj
      rcases Nat.lt_or_ge j d with h | h
      · exact hag e (mem_array_of_child hx he) j h
      · have : j = d := by omega
        subst this; exact hck.2 e he
    obtain ⟨child', added, hassoc, post⟩ := ih (d + 1) child k v (by omega)
      (by have := need_le (d + 1) child; omega) hcw hcag
    refine ⟨.array (nc + 0) (cs.set (chunkN d (hashf k)) (some child')), added, ?_, ?_⟩
    · apply hunf
      simp [hassoc]
    · have := post_array_set L hwf' (some child) child' added hx
        ⟨post.wf, post.ne, by
          intro e he
          rcases post.keys e he with h | h
          · exact hck.2 e h
          · subst h; rfl⟩
        (by intro k' old _ hold; exact post.find k' old hold)
        (by intro old hold; exact post.isNew old hold)
        (by simpa [childAL] using post.size)
        (by intro e he; exact post.keys e he)
      simpa using this

/-! ### collision node, same hash -/

theorem assoc_collision_same (L : Lawful eq hashf) (fuel d : Nat) (h : UInt32) (kvs : List (K × V))
    (k : K) (v : V) (hwf : WF eq hashf d (.collision h kvs)) (hh : hashf k = h) :
    ∃ n' added, assoc eq hashf (fuel + 1) (.collision h kvs) (shiftOf d) (hashf k) k v = .ok (n', added) ∧
      Post eq hashf d (.collision h kvs) k v n' added := by
  cases hwf with
  | collision hne hhash hnd =>
  cases hf : kvs.findIdx? (fun e => eq k e.1) with
  | some i =>
    have hi : i < kvs.length := by
      have := List.findIdx?_eq_some_iff_getElem.mp hf
      exact this.1
    refine ⟨.collision h (kvs.set i (k, v)), false, ?_, ?_⟩
    · rw [assoc]; simp [hh, findIndex, hf, replaceEntry, hi]
    · constructor
      · have hne' : kvs.set i (k, v) ≠ [] := by
          intro e
          apply hne
          have := congrArg List.length e
          rw [List.length_set] at this
          exact List.eq_nil_of_length_eq_zero this
        refine WF.collision hne' ?_ (pairwise_set_of_eq L k v kvs i hf hnd)
        intro e he
        rcases List.mem_or_eq_of_mem_set he with h1 | h1
        · exact hhash e h1
        · subst h1; exact hh
      · intro k' old hold
        rw [find_collision] at hold ⊢
        simp only [Res.ok.injEq] at hold
        rw [coll_replace L k v kvs i hf k', hold]
      · simp
      · intro e he
        simp only [toAList_collision] at he ⊢
        exact List.mem_or_eq_of_mem_set he
      · simp only [toAList_collision]
        intro e
        apply hne
        have := congrArg List.length e
        rw [List.length_set] at this
        exact List.eq_nil_of_length_eq_zero this
      · intro old hold
        rw [find_collision] at hold
        simp only [Res.ok.injEq] at hold
        subst hold
        have := List.findIdx?_eq_some_iff_getElem.mp hf
        obtain ⟨hi', hp, _⟩ := this
        have : (kvs.find? (fun e => eq k e.1)).isSome := by
          rw [List.find?_isSome]
          exact ⟨kvs[i], List.getElem_mem hi', hp⟩
        cases hfi : kvs.find? (fun e => eq k e.1) with
        | none => rw [hfi] at this; cases this
        | some _ => simp
  | none =>
    refine ⟨.collision h (kvs ++ [(k, v)]), true, ?_, ?_⟩
    · rw [assoc]; simp [hh, findIndex, hf]
    · have hall : ∀ e ∈ kvs, eq k e.1 = false := by
        intro e he
        have := List.findIdx?_eq_none_iff.mp hf e he
        simpa using this
      constructor
      · refine WF.collision (by simp) ?_ ?_
        · intro e he
          rw [List.mem_append] at he
          rcases he with h1 | h1
          · exact hhash e h1
          · simp at h1; subst h1; exact hh
        · rw [List.pairwise_append]
          refine ⟨hnd, by simp, ?_⟩
          intro a ha b hb
          simp at hb; subst hb
          exact eq_false_symm L (hall a ha)
      · intro k' old hold
        rw [find_collision] at hold ⊢
        simp only [Res.ok.injEq] at hold
        rw [coll_append L k v kvs hf k', hold]
      · simp
      · intro e he
        simp only [toAList_collision, List.mem_append, List.mem_singleton] at he ⊢
        exact he
      · simp
      · intro old hold
        rw [find_collision] at hold
        simp only [Res.ok.injEq] at hold
        subst hold
        have : kvs.find? (fun e => eq k e.1) = none := by
          rw [List.find?_eq_none]
          intro e he
          simp [hall e he]
        simp [this]

end C07
