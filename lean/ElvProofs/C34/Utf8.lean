/-
UTF-8 lemmas about `Go.decodeRune` / `Go.runes` used by C34 (and C33):
sizes, stability of decoding under truncation at or after the rune's end,
encode/decode round trip, and the structure of `for i, r := range s`.
-/
import ElvModel.Go.Utf8
namespace C34.Utf8
open Go

theorem decodeRune_size_pos (s : Bytes) (h : s ≠ []) : 1 ≤ (decodeRune s).2 := by
  match s, h with
  | b0 :: rest, _ =>
    simp only [decodeRune]
    repeat' split
    all_goals simp

theorem decodeRune_size_le (s : Bytes) : (decodeRune s).2 ≤ s.length := by
  match s with
  | [] => simp [decodeRune]
  | b0 :: rest =>
    simp only [decodeRune]
    repeat' split
    all_goals simp

/-- Decoding looks at no byte beyond the end of the rune it returns. -/
theorem decodeRune_take (s : Bytes) (m : Nat) (h : (decodeRune s).2 ≤ m) :
    decodeRune (s.take m) = decodeRune s := by
  match s, m with
  | [], _ => simp
  | b0 :: rest, 0 =>
    have := decodeRune_size_pos (b0 :: rest) (by simp)
    omega
  | [b0], m+1 => simp
  | [b0, b1], 1 =>
    revert h
    simp only [decodeRune, List.take]
    repeat' split
    all_goals simp_all
  | [b0, b1], m+2 => simp
  | [b0, b1, b2], 1 =>
    revert h
    simp only [decodeRune, List.take]
    repeat' split
    all_goals simp_all
  | [b0, b1, b2], 2 =>
    revert h
    simp only [decodeRune, List.take]
    repeat' split
    all_goals simp_all
  | [b0, b1, b2], m+3 => simp
  | b0 :: b1 :: b2 :: b3 :: t, 1 =>
    revert h
    simp only [decodeRune, List.take]
    repeat' split
    all_goals simp_all
  | b0 :: b1 :: b2 :: b3 :: t, 2 =>
    revert h
    simp only [decodeRune, List.take]
    repeat' split
    all_goals simp_all
  | b0 :: b1 :: b2 :: b3 :: t, 3 =>
    revert h
    simp only [decodeRune, List.take]
    repeat' split
    all_goals simp_all
  | b0 :: b1 :: b2 :: b3 :: t, m+4 =>
    simp only [decodeRune, List.take]

/-- Appending text that starts with an ASCII byte (or nothing) does not change
how a non-empty string starts to decode. -/
theorem decodeRune_append_ascii (c b : Bytes) (hc : c ≠ [])
    (hb : ∀ x t, b = x :: t → x.toNat < 0x80) : decodeRune (c ++ b) = decodeRune c := by
  match c, hc, b with
  | c, _, [] => simp
  | [b0], _, x :: t =>
    have := hb x t rfl
    simp only [decodeRune, List.cons_append, List.nil_append]
    repeat' split
    all_goals simp_all [isCont]
    all_goals omega
  | [b0, b1], _, [x] =>
    have := hb x [] rfl
    simp only [decodeRune, List.cons_append, List.nil_append]
    repeat' split
    all_goals simp_all [isCont]
    all_goals omega
  | [b0, b1], _, x :: y :: t =>
    have := hb x (y :: t) rfl
    simp only [decodeRune, List.cons_append, List.nil_append]
    repeat' split
    all_goals simp_all [isCont]
    all_goals omega
  | [b0, b1, b2], _, x :: t =>
    have := hb x t rfl
    simp only [decodeRune, List.cons_append, List.nil_append]
    repeat' split
    all_goals simp_all [isCont]
    all_goals omega
  | b0 :: b1 :: b2 :: b3 :: c', _, x :: t =>
    simp only [decodeRune, List.cons_append]

theorem validRune_iff (r : Nat) :
    validRune r = true ↔ (r < 0xD800 ∨ (0xDFFF < r ∧ r ≤ 0x10FFFF)) := by
  simp [validRune]

/-- `range` only ever yields Unicode scalar values. -/
theorem decodeRune_valid (s : Bytes) : validRune (decodeRune s).1 = true := by
  rw [validRune_iff]
  match s with
  | [] => simp [decodeRune, RuneError]
  | b0 :: rest =>
    simp only [decodeRune]
    repeat' split
    all_goals simp_all [RuneError, isCont]
    all_goals omega

theorem prod_eq {a b n : Nat} (h : a = b) : ((a, n) : Rune × Nat) = (b, n) := by subst h; rfl

/-- `utf8.DecodeRuneInString(string(r) + t) = (r, len(string(r)))` for scalar values. -/
theorem decodeRune_encodeRune (r : Nat) (t : Bytes) (h : validRune r = true) :
    decodeRune (encodeRune r ++ t) = (r, (encodeRune r).length) := by
  have h' := (validRune_iff r).1 h
  by_cases h1 : r < 0x80
  · have a : r % 256 = r := by omega
    simp [encodeRune, h1, decodeRune, a]
  · by_cases h2 : r < 0x800
    · have a : (192 + r / 64) % 256 = 192 + r/64 := by omega
      have b : (128 + r % 64) % 256 = 128 + r % 64 := by omega
      simp [encodeRune, h1, h2, decodeRune, isCont, a, b]
      repeat' split
      all_goals first | omega | (simp; omega) | (apply prod_eq; omega)
    · by_cases h3 : r < 0x10000
      · have a : (224 + r / 4096) % 256 = 224 + r/4096 := by omega
        have b : (128 + r / 64 % 64) % 256 = 128 + r /64 % 64 := by omega
        have c : (128 + r % 64) % 256 = 128 + r % 64 := by omega
        simp [encodeRune, h, h1, h2, h3, decodeRune, isCont, a, b, c]
        repeat' split
        all_goals first | omega | (simp; omega) | (apply prod_eq; omega)
      · have a : (240 + r / 262144) % 256 = 240 + r/262144 := by omega
        have b : (128 + r / 4096 % 64) % 256 = 128 + r /4096 % 64 := by omega
        have b' : (128 + r / 64 % 64) % 256 = 128 + r /64 % 64 := by omega
        have c : (128 + r % 64) % 256 = 128 + r % 64 := by omega
        simp [encodeRune, h, h1, h2, h3, decodeRune, isCont, a, b, b', c]
        repeat' split
        all_goals first | omega | (simp; omega) | (apply prod_eq; omega)

theorem encodeRune_ne_nil (r : Nat) : encodeRune r ≠ [] := by
  unfold encodeRune; repeat' split
  all_goals simp

/-! ### `for i, r := range s` -/

/-- Move every offset by `d`. -/
def shift (d : Nat) (x : Nat × Rune × Nat) : Nat × Rune × Nat := (x.1 + d, x.2.1, x.2.2)

theorem runesFrom_nil (fuel off : Nat) : runesFrom fuel off [] = [] := by
  cases fuel <;> rfl

theorem runesFrom_succ_cons (fuel off : Nat) (b : UInt8) (t : Bytes) :
    runesFrom (fuel + 1) off (b :: t) =
      (off, (decodeRune (b :: t)).1, (decodeRune (b :: t)).2) ::
        runesFrom fuel (off + (decodeRune (b :: t)).2) ((b :: t).drop (decodeRune (b :: t)).2) := by
  rfl

theorem runesFrom_shift (fuel off d : Nat) (s : Bytes) :
    runesFrom fuel (off + d) s = (runesFrom fuel off s).map (shift d) := by
  induction fuel generalizing off s with
  | zero => cases s <;> rfl
  | succ k ih =>
    cases s with
    | nil => rfl
    | cons b t =>
      rw [runesFrom_succ_cons, runesFrom_succ_cons, List.map_cons, Nat.add_right_comm, ih]
      rfl

theorem runesFrom_fuel (f1 f2 off : Nat) (s : Bytes) (h1 : s.length ≤ f1) (h2 : s.length ≤ f2) :
    runesFrom f1 off s = runesFrom f2 off s := by
  induction f1 generalizing f2 off s with
  | zero =>
    have : s = [] := List.eq_nil_of_length_eq_zero (by omega)
    subst this; rw [runesFrom_nil, runesFrom_nil]
  | succ k ih =>
    cases s with
    | nil => rw [runesFrom_nil, runesFrom_nil]
    | cons b t =>
      cases f2 with
      | zero => simp at h2
      | succ k2 =>
        rw [runesFrom_succ_cons, runesFrom_succ_cons]
        have hp := decodeRune_size_pos (b :: t) (by simp)
        have hl : ((b :: t).drop (decodeRune (b :: t)).2).length ≤ t.length := by
          simp only [List.length_drop, List.length_cons]; omega
        simp only [List.length_cons] at h1 h2
        rw [ih k2 _ _ (by omega) (by omega)]

theorem runes_nil : runes [] = [] := rfl

/-- One step of `range`. -/
theorem runes_cons (s : Bytes) (h : s ≠ []) :
    runes s = (0, (decodeRune s).1, (decodeRune s).2) ::
      (runes (s.drop (decodeRune s).2)).map (shift (decodeRune s).2) := by
  match s, h with
  | b :: t, _ =>
    unfold runes
    rw [List.length_cons, runesFrom_succ_cons, ← runesFrom_shift, Nat.zero_add]
    have hp := decodeRune_size_pos (b :: t) (by simp)
    congr 1
    apply runesFrom_fuel
    · simp only [List.length_drop, List.length_cons]; omega
    · exact Nat.le_refl _

theorem runes_eq_nil_iff (s : Bytes) : runes s = [] ↔ s = [] := by
  constructor
  · intro h
    cases s with
    | nil => rfl
    | cons b t => rw [runes_cons _ (by simp)] at h; simp at h
  · intro h; subst h; rfl

/-- Offsets produced by `range` are inside the string, and so is each rune. -/
theorem runes_bounds (s : Bytes) : ∀ x ∈ runes s, x.1 + x.2.2 ≤ s.length ∧ 1 ≤ x.2.2 := by
  generalize hn : s.length = n
  induction n using Nat.strongRecOn generalizing s with
  | _ n ih =>
    intro x hx
    cases s with
    | nil => simp [runes_nil] at hx
    | cons b t =>
      rw [runes_cons _ (by simp)] at hx
      have hp := decodeRune_size_pos (b :: t) (by simp)
      have hl := decodeRune_size_le (b :: t)
      rcases List.mem_cons.1 hx with h | h
      · subst h; simp only; omega
      · rcases List.mem_map.1 h with ⟨y, hy, rfl⟩
        have := ih ((b :: t).drop (decodeRune (b :: t)).2).length
          (by simp only [List.length_drop]; omega) _ rfl y hy
        simp only [List.length_drop] at this
        simp only [shift]; omega

/-- Cutting `s` at the offset of one of its runes keeps exactly the runes before it. -/
theorem runes_take (s : Bytes) (pre : List (Nat × Rune × Nat)) (x : Nat × Rune × Nat)
    (post : List (Nat × Rune × Nat)) (h : runes s = pre ++ x :: post) :
    runes (s.take x.1) = pre := by
  induction hlen : pre.length generalizing s pre x post with
  | zero =>
    have : pre = [] := List.eq_nil_of_length_eq_zero hlen
    subst this
    have hs : s ≠ [] := by intro h'; subst h'; simp [runes_nil] at h
    rw [runes_cons s hs] at h
    simp only [List.nil_append, List.cons.injEq] at h
    rw [← h.1]; simp [runes_nil]
  | succ n ih =>
    match pre, hlen with
    | p :: pre, hlen =>
    have hs : s ≠ [] := by intro h'; subst h'; simp [runes_nil] at h
    rw [runes_cons s hs] at h
    simp only [List.cons_append, List.cons.injEq] at h
    obtain ⟨hp, hrest⟩ := h
    obtain ⟨pre', rest', hsplit, hpre, hrest'⟩ := List.map_eq_append_iff.1 hrest
    obtain ⟨x', post', hrest'', hx, hpost⟩ := List.map_eq_cons_iff.1 hrest'
    subst hrest''
    have hl' : pre'.length = n := by
      have := congrArg List.length hpre
      simp only [List.length_map, List.length_cons] at this hlen; omega
    have ihh := ih (s.drop (decodeRune s).2) pre' x' post' hsplit hl'
    have hxo : x.1 = x'.1 + (decodeRune s).2 := by rw [← hx]; rfl
    have hn := decodeRune_size_pos s hs
    have hne : s.take x.1 ≠ [] := by
      cases s with
      | nil => exact absurd rfl hs
      | cons b t => rw [hxo]; cases hk : x'.1 + (decodeRune (b :: t)).2 with
        | zero => omega
        | succ k => simp
    rw [runes_cons _ hne, decodeRune_take s x.1 (by omega), ← hp]
    congr 1
    rw [← hpre]
    congr 1
    rw [hxo, Nat.add_comm, List.drop_take, Nat.add_sub_cancel_left]
    exact ihh

end C34.Utf8
