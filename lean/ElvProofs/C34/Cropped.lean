/-
Helper lemmas for C34, part 7 (round 2): `croppedLines.Render` on control-free rows.
-/
import ElvProofs.C34.TextView
namespace C34
open Go C34.Utf8

theorem Of_spaces (wd : Int → Int) (ok : WdOK wd) (k : Nat) : Of wd (List.replicate k 0x20) = k := by
  rw [Of_eq_sumW, runes_spaces, ok.ascii 0x20 (by omega) (by omega)]; omega

theorem repeatSpace_ok (n : Int) (h : 0 ≤ n) : repeatSpace n = .ok (List.replicate n.toNat 0x20) := by
  unfold repeatSpace; rw [if_neg (by omega)]

/-- The loop of `croppedLines.Render`: every row is trimmed so that it fits, and adds one line. -/
theorem cropped_go (wd : Int → Int) (ok : WdOK wd) (p sf st : Int) (ext : Bool) (w : Int) (hw : 0 ≤ w)
    (hp0 : 0 ≤ p) (hpw : p ≤ w) (leftSp rightSp : Bytes) (hl : NoCtl leftSp) (hr : NoCtl rightSp)
    (hlw : Of wd leftSp = p) (lines : List (List Bytes)) :
    ∀ (bb : BB) (i : Nat), (∀ row ∈ lines, ∀ s ∈ row, NoCtl s) → Rows wd w bb → (i = 0 → bb.col = 0) →
    Rows wd w (croppedLinesRender.go wd p sf st ext w leftSp rightSp bb i lines) ∧
      (0 < i → (croppedLinesRender.go wd p sf st ext w leftSp rightSp bb i lines).prev.length =
        bb.prev.length + lines.length) ∧
      (i = 0 → (croppedLinesRender.go wd p sf st ext w leftSp rightSp bb i lines).prev.length =
        bb.prev.length + (lines.length - 1)) := by
  induction lines with
  | nil => intro bb i _ h _; exact ⟨h, fun _ => rfl, fun _ => rfl⟩
  | cons line rest ih =>
    intro bb i hc h hcol
    simp only [croppedLinesRender.go]
    have hline := hc line List.mem_cons_self
    have hrest : ∀ row ∈ rest, ∀ s ∈ row, NoCtl s := fun row hrow => hc row (List.mem_cons_of_mem _ hrow)
    -- the row written
    have hacc0n : ∀ s ∈ leftSp :: trimSegs wd line (w - 2 * p), NoCtl s := by
      intro s hs
      rcases List.mem_cons.1 hs with rfl | hs
      · exact hl
      · exact trimSegs_noctl wd line _ hline s hs
    have hacc0w : lineWidth wd (leftSp :: trimSegs wd line (w - 2 * p)) ≤ w := by
      rw [lineWidth_cons, hlw]
      have := trimSegs_width wd ok.nonneg line (w - 2 * p)
      by_cases h2 : 0 ≤ w - 2 * p
      · have := this.2.1 h2; omega
      · have := this.2.2 (by omega); omega
    generalize hacc : (if (ext && !line.isEmpty || decide (sf ≤ (i : Int)) && decide ((i : Int) < st)) = true then
        trimSegs wd (leftSp :: trimSegs wd line (w - 2 * p) ++ [rightSp]) w
      else leftSp :: trimSegs wd line (w - 2 * p)) = acc
    have haccn : ∀ s ∈ acc, NoCtl s := by
      rw [← hacc]; split
      · apply trimSegs_noctl
        intro s hs
        rcases List.mem_append.1 hs with hs | hs
        · exact hacc0n s hs
        · simp only [List.mem_singleton] at hs; rw [hs]; exact hr
      · exact hacc0n
    have haccw : lineWidth wd acc ≤ w := by
      rw [← hacc]; split
      · exact (trimSegs_width wd ok.nonneg _ w).2.1 hw
      · exact hacc0w
    by_cases hi : i > 0
    · rw [if_pos hi]
      obtain ⟨n1, n2, n3⟩ := h.newline
      obtain ⟨w1, w2, _⟩ := n1.writeSegs ok.nonneg acc haccn (by rw [n3]; omega)
      obtain ⟨r1, r2, _⟩ := ih _ (i + 1) hrest w1 (by omega)
      refine ⟨r1, fun _ => ?_, fun h0 => by omega⟩
      rw [r2 (by omega), w2, n2]; simp only [List.length_cons]; omega
    · rw [if_neg hi]
      obtain ⟨w1, w2, _⟩ := h.writeSegs ok.nonneg acc haccn (by rw [hcol (by omega)]; omega)
      obtain ⟨r1, r2, _⟩ := ih _ (i + 1) hrest w1 (by omega)
      refine ⟨r1, fun h0 => by omega, fun _ => ?_⟩
      rw [r2 (by omega), w2]; simp only [List.length_cons]; omega

/-- `croppedLines.Render(w, _)` for `0 ≤ padding ≤ w`: one line per row (one empty line for no rows), each within `w`. -/
theorem croppedLinesRender_ok (wd : Int → Int) (ok : WdOK wd) (lines : List (List Bytes)) (p sf st : Int)
    (ext : Bool) (w : Int) (hw : 0 ≤ w) (hp0 : 0 ≤ p) (hpw : p ≤ w)
    (hc : ∀ row ∈ lines, ∀ s ∈ row, NoCtl s) :
    ∃ buf, croppedLinesRender wd lines p sf st ext w = .ok buf ∧ buf.width = w ∧
      buf.lines.length = lines.length - 1 + 1 ∧ ∀ l ∈ buf.lines, lineWidth wd l ≤ w := by
  obtain ⟨b, hb, hr, hp, hc0⟩ := Rows.new wd w hw
  unfold croppedLinesRender
  simp only [bind, Res.bind, pure, hb, repeatSpace_ok p hp0, repeatSpace_ok (w - p) (by omega)]
  obtain ⟨r1, _, r3⟩ := cropped_go wd ok p sf st ext w hw hp0 hpw (List.replicate p.toNat 0x20)
    (List.replicate (w - p).toNat 0x20) (NoCtl.spaces _) (NoCtl.spaces _)
    (by rw [Of_spaces wd ok]; omega) lines b 0 hc hr (fun _ => hc0)
  refine ⟨_, rfl, r1.width, ?_, r1.lines_fit⟩
  rw [BB.buffer_lines_length, r3 rfl, hp]; simp
end C34
