/-
Helper lemmas for C34, part 8 (round 2): `strings.Split(s, "\n")`, `Text.SplitByRune('\n')`
and `Text.CountLines` on segment texts.
-/
import ElvProofs.C34.Cropped
namespace C34
open Go C34.Utf8

theorem splitNL_length (s : Bytes) : (splitNL s).length = s.count 10 + 1 := by
  induction s with
  | nil => rfl
  | cons b rest ih =>
    simp only [splitNL, List.count_cons]
    by_cases hb : b = 10
    · subst hb; simp [ih]
    · rw [if_neg hb]
      have : (b == 10) = false := by simp [hb]
      rw [this]
      cases h : splitNL rest with
      | nil => rw [h] at ih; simp at ih
      | cons l ls => rw [h] at ih; simp only [List.length_cons] at ih ⊢; simp; omega

theorem splitNL_noctl (s : Bytes) (h : NoCtlNL s) : ∀ p ∈ splitNL s, NoCtl p := by
  induction s with
  | nil => intro p hp; simp [splitNL] at hp; rw [hp]; exact NoCtl.nil
  | cons b rest ih =>
    have hrest : NoCtlNL rest := fun x hx => h x (List.mem_cons_of_mem _ hx)
    have ih := ih hrest
    intro p hp
    simp only [splitNL] at hp
    by_cases hb : b = 10
    · rw [if_pos hb] at hp
      rcases List.mem_cons.1 hp with rfl | hp
      · exact NoCtl.nil
      · exact ih p hp
    · rw [if_neg hb] at hp
      have hbn : b.toNat ≠ 10 := fun e => hb (UInt8.toNat_inj.1 (by rw [e]; rfl))
      have hb' : 0x20 ≤ b.toNat ∧ b.toNat ≠ 0x7f := by
        rcases h b List.mem_cons_self with h' | h'
        · exact h'
        · exact absurd h' hbn
      cases hs : splitNL rest with
      | nil =>
        rw [hs] at hp
        simp only [List.mem_singleton] at hp
        rw [hp]; intro x hx; simp only [List.mem_singleton] at hx; rw [hx]; exact hb'
      | cons l ls =>
        rw [hs] at hp ih
        rcases List.mem_cons.1 hp with rfl | hp
        · intro x hx
          rcases List.mem_cons.1 hx with rfl | hx
          · exact hb'
          · exact ih l List.mem_cons_self x hx
        · exact ih p (List.mem_cons_of_mem _ hp)

/-- The step of the fold in `splitLinesSegs` (a copy of the local function of the model). -/
def splitStep (acc : List (List Bytes) × List Bytes) (seg : Bytes) : List (List Bytes) × List Bytes :=
  match splitNL seg with
  | [] => acc
  | [p] => (acc.1, if p.isEmpty then acc.2 else acc.2 ++ [p])
  | p :: ps =>
    let firstLine := if p.isEmpty then acc.2 else acc.2 ++ [p]
    let mids := ps.dropLast.map fun m => if m.isEmpty then [] else [m]
    let lastPiece := match ps.getLast? with
      | some l => if l.isEmpty then [] else [l]
      | none => []
    (acc.1 ++ [firstLine] ++ mids, lastPiece)

theorem splitLinesSegs_eq (t : List Bytes) :
    splitLinesSegs t = if t.isEmpty then [] else
      (t.foldl splitStep ([], [])).1 ++ [(t.foldl splitStep ([], [])).2] := rfl

/-- Rows all of whose pieces are control-free. -/
def RowsNoCtl (rows : List (List Bytes)) : Prop := ∀ row ∈ rows, ∀ s ∈ row, NoCtl s

theorem splitStep_ok (acc : List (List Bytes) × List Bytes) (seg : Bytes) (hseg : NoCtlNL seg)
    (hd : RowsNoCtl acc.1) (hp : ∀ s ∈ acc.2, NoCtl s) :
    (splitStep acc seg).1.length = acc.1.length + seg.count 10 ∧ RowsNoCtl (splitStep acc seg).1 ∧
      ∀ s ∈ (splitStep acc seg).2, NoCtl s := by
  have hlen := splitNL_length seg
  have hnc := splitNL_noctl seg hseg
  unfold splitStep
  split
  · rename_i h; rw [h] at hlen; simp at hlen
  · rename_i p h
    rw [h] at hlen hnc
    simp only [List.length_cons, List.length_nil] at hlen
    refine ⟨by simp only; omega, hd, ?_⟩
    simp only
    split
    · exact hp
    · intro s hs
      rcases List.mem_append.1 hs with hs | hs
      · exact hp s hs
      · simp only [List.mem_singleton] at hs; rw [hs]; exact hnc p List.mem_cons_self
  · rename_i p ps hne h
    rw [h] at hlen hnc
    simp only [List.length_cons] at hlen
    have hps : ∀ x ∈ ps, NoCtl x := fun x hx => hnc x (List.mem_cons_of_mem _ hx)
    refine ⟨?_, ?_, ?_⟩
    · simp only [List.length_append, List.length_cons, List.length_nil, List.length_map, List.length_dropLast]
      cases ps with
      | nil => exact (hne rfl).elim
      | cons q qs => simp only [List.length_cons] at hlen ⊢; omega
    · intro row hrow
      simp only [List.mem_append, List.mem_singleton, List.mem_map] at hrow
      rcases hrow with (hrow | hrow) | ⟨m, hm, rfl⟩
      · exact hd row hrow
      · rw [hrow]
        split
        · exact hp
        · intro s hs
          rcases List.mem_append.1 hs with hs | hs
          · exact hp s hs
          · simp only [List.mem_singleton] at hs; rw [hs]; exact hnc p List.mem_cons_self
      · split
        · intro s hs; simp at hs
        · intro s hs; simp only [List.mem_singleton] at hs; rw [hs]
          exact hps m ((List.dropLast_sublist ps).subset hm)
    · simp only
      split
      · rename_i l hl
        split
        · intro s hs; simp at hs
        · intro s hs; simp only [List.mem_singleton] at hs; rw [hs]
          exact hps l (List.mem_of_getLast? hl)
      · intro s hs; simp at hs

theorem splitFold_ok (t : List Bytes) (ht : ∀ seg ∈ t, NoCtlNL seg) :
    ∀ acc : List (List Bytes) × List Bytes, RowsNoCtl acc.1 → (∀ s ∈ acc.2, NoCtl s) →
    ((t.foldl splitStep acc).1.length : Int) = acc.1.length + (t.map fun s => (s.count 10 : Int)).sum ∧
      RowsNoCtl (t.foldl splitStep acc).1 ∧ ∀ s ∈ (t.foldl splitStep acc).2, NoCtl s := by
  induction t with
  | nil => intro acc h1 h2; simp; exact ⟨h1, h2⟩
  | cons seg t ih =>
    intro acc h1 h2
    simp only [List.foldl_cons, List.map_cons, List.sum_cons]
    obtain ⟨s1, s2, s3⟩ := splitStep_ok acc seg (ht seg List.mem_cons_self) h1 h2
    obtain ⟨r1, r2, r3⟩ := ih (fun x hx => ht x (List.mem_cons_of_mem _ hx)) _ s2 s3
    refine ⟨?_, r2, r3⟩
    rw [r1, s1]; simp only [Int.natCast_add]; omega

/-- `SplitByRune('\n')` yields `CountLines` rows (none for the empty text), all control-free. -/
theorem splitLinesSegs_ok (t : List Bytes) (ht : ∀ seg ∈ t, NoCtlNL seg) :
    RowsNoCtl (splitLinesSegs t) ∧ countLines t ≤ (splitLinesSegs t).length + 1 ∧
      ((splitLinesSegs t).length : Int) ≤ countLines t := by
  rw [splitLinesSegs_eq]
  cases t with
  | nil => simp [RowsNoCtl, countLines]
  | cons a t =>
    obtain ⟨r1, r2, r3⟩ := splitFold_ok (a :: t) ht ([], []) (by intro r hr; simp at hr) (by intro s hs; simp at hs)
    simp only [List.isEmpty_cons, Bool.false_eq_true, if_false]
    refine ⟨?_, ?_, ?_⟩
    · intro row hrow
      rcases List.mem_append.1 hrow with hrow | hrow
      · exact r2 row hrow
      · simp only [List.mem_singleton] at hrow; rw [hrow]; exact r3
    · simp only [List.length_append, List.length_cons, List.length_nil, countLines]
      simp only [List.length_nil] at r1
      omega
    · simp only [List.length_append, List.length_cons, List.length_nil, countLines]
      simp only [List.length_nil] at r1
      omega

theorem countLines_pos (t : List Bytes) : 1 ≤ countLines t := by
  unfold countLines
  have : ∀ t : List Bytes, 0 ≤ (t.map fun s => (s.count 10 : Int)).sum := by
    intro t; induction t with
    | nil => simp
    | cons a t ih => simp only [List.map_cons, List.sum_cons]; omega
  have := this t; omega

end C34
