/-
Helper lemmas for C34, part 10 (round 2): the horizontal `ListBox` — `maxWidth`,
`getHorizontalWindow` (in-range window, no division by zero, the loop ends), the
column loop (`ExtendRight` of `croppedLines` columns stays within the width).
-/
import ElvProofs.C34.Vertical
namespace C34
open Go C34.Utf8

theorem mw_go_ok (wd : Int → Int) (items : List (List Bytes)) (high n : Int) (hn : n = items.length) (k : Nat) :
    ∀ (i w : Int), 0 ≤ i → 0 ≤ w → ∃ r, maxWidth.go wd items high n i w k = .ok r ∧ 0 ≤ r := by
  induction k with
  | zero => intro i w _ hw; exact ⟨w, rfl, hw⟩
  | succ k ih =>
    intro i w hi hw
    simp only [maxWidth.go]
    by_cases hc : i < high ∧ i < n
    · have hc' : (decide (i < high) && decide (i < n)) = true := by simp [hc.1, hc.2]
      rw [if_pos hc']
      obtain ⟨it, hit, _⟩ := index_ok items i hi (by omega)
      simp only [bind, Res.bind, hit]
      apply ih _ _ (by omega)
      split <;> omega
    · have hc' : (decide (i < high) && decide (i < n)) = false := by
        simp only [Bool.and_eq_false_iff, decide_eq_false_iff_not]
        by_cases h1 : i < high
        · right; omega
        · left; exact h1
      rw [hc']; exact ⟨w, rfl, hw⟩

theorem maxWidth_ok (wd : Int → Int) (items : List (List Bytes)) (pad low high : Int) (hl : 0 ≤ low) :
    ∃ r, maxWidth wd items pad low high = .ok r ∧ 2 * pad ≤ r := by
  obtain ⟨r, hr, h0⟩ := mw_go_ok wd items high items.length rfl (items.length + 1) low 0 hl (Int.le_refl _)
  unfold maxWidth
  simp only [bind, Res.bind, hr, pure]
  exact ⟨_, rfl, by omega⟩

theorem goDiv_ok (a b : Int) (ha : 0 ≤ a) (hb : 0 < b) : goDiv a b = .ok (a / b) := by
  unfold goDiv
  rw [if_neg (by omega), Int.tdiv_eq_ediv_of_nonneg ha]

/-- The loop of `getHorizontalWindow`: `first` stays a non-negative multiple of the column height. -/
theorem hgo_ok (wd : Int → Int) (items : List (List Bytes)) (lastFirst pad width h : Int) (hlf : 0 ≤ lastFirst)
    (hh : 1 ≤ h) (k : Nat) : ∀ (m : Nat) (used : Int), m < k →
    ∃ f, getHorizontalWindow.go wd items lastFirst pad width h ((m : Int) * h) used k = .ok f ∧ 0 ≤ f ∧
      (f ≤ (m : Int) * h) := by
  induction k with
  | zero => intro m _ hm; omega
  | succ k ih =>
    intro m used hm
    have hmh : 0 ≤ (m : Int) * h := Int.mul_nonneg (by omega) (by omega)
    simp only [getHorizontalWindow.go]
    by_cases hgt : (m : Int) * h > lastFirst
    · rw [if_pos hgt]
      cases m with
      | zero => simp at hgt; omega
      | succ m' =>
        have e2 : ((m' + 1 : Nat) : Int) * h = (m' : Int) * h + h := by
          rw [Int.natCast_add, Int.add_mul]; simp
        have e : ((m' + 1 : Nat) : Int) * h - h = (m' : Int) * h := by omega
        have hneg : 0 ≤ (m' : Int) * h := Int.mul_nonneg (by omega) (by omega)
        rw [e]
        obtain ⟨w, hw, _⟩ := maxWidth_ok wd items pad ((m' : Int) * h) ((m' + 1 : Nat) * h) hneg
        simp only [bind, Res.bind, hw]
        split
        · exact ⟨_, rfl, by omega, Int.le_refl _⟩
        · obtain ⟨f, hf, f0, f1⟩ := ih m' (used + w + listBoxColGap) (by omega)
          exact ⟨f, hf, f0, by omega⟩
    · rw [if_neg hgt]
      exact ⟨_, rfl, hmh, Int.le_refl _⟩

theorem getHorizontalWindow_ok (wd : Int → Int) (items : List (List Bytes)) (sel lastFirst pad W H : Int)
    (hne : 0 < items.length) (hs0 : 0 ≤ sel) (hs1 : sel < items.length) (hlf : 0 ≤ lastFirst) (hp : 0 ≤ pad)
    (hW : 0 ≤ W) (hH : 1 ≤ H) :
    ∃ f ch sb, getHorizontalWindow wd items sel lastFirst pad W H = .ok (f, ch, sb) ∧ 0 ≤ f ∧ f < items.length ∧
      1 ≤ ch ∧ ch ≤ H := by
  unfold getHorizontalWindow
  obtain ⟨mw, hmw, hmw2⟩ := maxWidth_ok wd items pad 0 items.length (Int.le_refl _)
  simp only [bind, Res.bind, pure, hmw, goDiv_ok (W + listBoxColGap) (mw + listBoxColGap) (by simp only [listBoxColGap]; omega)
    (by simp only [listBoxColGap]; omega)]
  have hq0 : 0 ≤ (W + listBoxColGap) / (mw + listBoxColGap) :=
    Int.ediv_nonneg (by simp only [listBoxColGap]; omega) (by simp only [listBoxColGap]; omega)
  generalize hpr : (if (W + listBoxColGap) / (mw + listBoxColGap) = 0 then 1 else (W + listBoxColGap) / (mw + listBoxColGap)) = perRow
  have hpr1 : 1 ≤ perRow := by rw [← hpr]; split <;> omega
  by_cases hfit : H * perRow ≥ (items.length : Int)
  · rw [if_pos hfit]
    simp only [goDiv_ok ((items.length : Int) + perRow - 1) perRow (by omega) (by omega)]
    refine ⟨_, _, _, rfl, Int.le_refl _, by omega, ?_, ?_⟩
    · exact Int.le_ediv_of_mul_le (by omega) (by omega)
    · have : ((items.length : Int) + perRow - 1) / perRow < H + 1 :=
        Int.ediv_lt_of_lt_mul (by omega) (by rw [Int.add_mul]; omega)
      omega
  · rw [if_neg hfit]
    generalize hh' : (if H > 1 then H - 1 else H) = h'
    have hh1 : 1 ≤ h' ∧ h' ≤ H := by rw [← hh']; split <;> omega
    simp only [goDiv_ok sel h' hs0 (by omega)]
    have hq : 0 ≤ sel / h' := Int.ediv_nonneg hs0 (by omega)
    have hqm : sel / h' * h' ≤ sel := Int.ediv_mul_le sel (by omega)
    have hqs : sel / h' ≤ sel := Int.ediv_le_self _ hs0
    generalize sel / h' = q at hq hqm hqs ⊢
    obtain ⟨m, rfl⟩ : ∃ m : Nat, q = m := ⟨q.toNat, by omega⟩
    have hmh : 0 ≤ (m : Int) * h' := Int.mul_nonneg (by omega) (by omega)
    obtain ⟨u0, hu0, _⟩ := maxWidth_ok wd items pad ((m : Int) * h') ((m : Int) * h' + h') hmh
    simp only [hu0]
    obtain ⟨f, hf, f0, f1⟩ := hgo_ok wd items lastFirst pad W h' hlf hh1.1 (items.length + 2 + sel.natAbs) m u0 (by omega)
    simp only [hf]
    exact ⟨_, _, _, rfl, f0, by omega, hh1.1, hh1.2⟩

/-- Items of a horizontal list box: one row each, control-free. -/
def ItemsNoCtl (items : List (List Bytes)) : Prop := ∀ it ∈ items, ∀ seg ∈ it, NoCtl seg

/-- Collecting the items of one column: at most `colHeight` rows. -/
theorem hcol_ok (items : List (List Bytes)) (sel n ch i : Int) (hn : n = items.length) (hi : 0 ≤ i)
    (hit : ItemsNoCtl items) (k : Nat) :
    ∀ (j : Int) (acc : List (List Bytes)) (sr last : Int), (acc.length : Int) + i ≤ j → (acc.length : Int) ≤ ch →
      RowsNoCtl acc →
    ∃ r, listBoxHorizontal.cols.col items sel n ch i j acc sr last k = .ok r ∧ (r.1.length : Int) ≤ ch ∧
      RowsNoCtl r.1 := by
  induction k with
  | zero => intro j acc sr last _ h2 h3; exact ⟨_, rfl, h2, h3⟩
  | succ k ih =>
    intro j acc sr last h1 h2 h3
    simp only [listBoxHorizontal.cols.col]
    by_cases hc : j < i + ch ∧ j < n
    · have hc' : (decide (j < i + ch) && decide (j < n)) = true := by simp [hc.1, hc.2]
      rw [if_pos hc']
      obtain ⟨it, hitm, hmem⟩ := index_ok items j (by omega) (by omega)
      simp only [bind, Res.bind, hitm]
      apply ih
      · simp only [List.length_append, List.length_cons, List.length_nil, Int.natCast_add]; omega
      · simp only [List.length_append, List.length_cons, List.length_nil, Int.natCast_add]; omega
      · intro row hrow
        rcases List.mem_append.1 hrow with h | h
        · exact h3 row h
        · simp only [List.mem_singleton] at h; rw [h]; exact hit it hmem
    · have hc' : (decide (j < i + ch) && decide (j < n)) = false := by
        simp only [Bool.and_eq_false_iff, decide_eq_false_iff_not]
        by_cases h1 : j < i + ch
        · right; omega
        · left; exact h1
      rw [hc']; exact ⟨_, rfl, h2, h3⟩

/-- A buffer all of whose lines fit in its width. -/
def BufOK (wd : Int → Int) (b : Buf) : Prop := 0 ≤ b.width ∧ ∀ l ∈ b.lines, lineWidth wd l ≤ b.width

/-- The column loop of `renderHorizontal`. -/
theorem hcols_ok (wd : Int → Int) (ok : WdOK wd) (items : List (List Bytes)) (sel pad : Int) (ext : Bool)
    (n ch W : Int) (hn : n = items.length) (hch : 1 ≤ ch) (hp0 : 0 ≤ pad) (hp1 : pad ≤ 1)
    (hit : ItemsNoCtl items) (k : Nat) :
    ∀ (i : Int) (buf : Buf) (rem : Int) (hc : Bool) (last : Int), 0 ≤ i → n + 1 ≤ i + k → 1 ≤ k → BufOK wd buf →
      buf.width + rem ≤ W → 1 ≤ rem → (buf.lines.length : Int) ≤ ch →
    ∃ r, listBoxHorizontal.cols wd items sel pad ext n ch i buf rem hc last k = .ok r ∧ BufOK wd r.1 ∧
      r.1.width ≤ W ∧ (r.1.lines.length : Int) ≤ ch := by
  induction k with
  | zero => intro i buf rem hc last hi hf hk; omega
  | succ k ih =>
    intro i buf rem hc last hi hf _ hb hw hr hl
    simp only [listBoxHorizontal.cols]
    by_cases hin : i < n
    · rw [if_pos hin]
      obtain ⟨cr, hcr, hcl, hcn⟩ := hcol_ok items sel n ch i hn hi hit (items.length + 1) i [] (-1) last
        (by simp) (by simp only [List.length_nil]; omega) (by intro row h; simp at h)
      obtain ⟨colItems, selRow, last'⟩ := cr
      obtain ⟨cw0, hcw0, hcw2⟩ := maxWidth_ok wd items pad i (i + ch) hi
      simp only [bind, Res.bind, pure, hcr, hcw0]
      simp only at hcl hcn
      have hb0 : 0 ≤ buf.width := hb.1
      generalize hP : (if cw0 > rem then (rem, true) else (cw0, hc)) = P
      have hP1 : P.1 = if cw0 > rem then rem else cw0 := by rw [← hP]; split <;> rfl
      have hcw : pad ≤ P.1 ∧ 0 ≤ P.1 ∧ P.1 ≤ rem := by rw [hP1]; split <;> omega
      obtain ⟨cb, hcb, cbw, cbl, cbf⟩ := croppedLinesRender_ok wd ok colItems pad selRow (selRow + 1) ext P.1
        hcw.2.1 hp0 hcw.1 hcn
      obtain ⟨res, hres, rw', rlen, rfit⟩ := extendRight_ok wd ok buf cb P.1 false hb.1 hcw.2.1 hb.2 cbf
      simp only [hcb, hres]
      have hrl : (res.lines.length : Int) ≤ ch := by rw [rlen, cbl]; omega
      split
      · refine ⟨_, rfl, ⟨by rw [rw', cbw]; omega, ?_⟩, by simp only; rw [rw', cbw]; omega, hrl⟩
        intro l hl'; have := rfit l hl'; simp only; rw [rw', cbw]; exact this
      · rename_i hgap
        simp only [listBoxColGap] at hgap ⊢
        apply ih
        · omega
        · omega
        · omega
        · refine ⟨by simp only; rw [rw', cbw]; omega, ?_⟩
          intro l hl'; have := rfit l hl'; simp only at hl' ⊢; rw [rw', cbw]; omega
        · simp only; rw [rw', cbw]; omega
        · omega
        · exact hrl
    · rw [if_neg hin]
      exact ⟨_, rfl, hb, by simp only; omega, hl⟩

/-- The horizontal list box on items without control characters. -/
theorem listBoxHorizontal_fits (wd : Int → Int) (ok : WdOK wd) (items : List (List Bytes)) (sel lastFirst pad : Int)
    (ext : Bool) (W H : Int) (hW : 2 ≤ W) (hH : 1 ≤ H) (hlf : 0 ≤ lastFirst) (hp0 : 0 ≤ pad) (hp1 : pad ≤ 1)
    (hne : items ≠ []) (hs0 : 0 ≤ sel) (hs1 : sel < items.length) (hit : ItemsNoCtl items) :
    ∃ buf, listBoxHorizontal wd items sel lastFirst pad ext W H = .ok buf ∧ (buf.lines.length : Int) ≤ H ∧
      ∀ l ∈ buf.lines, lineWidth wd l ≤ W := by
  have hlen : 0 < items.length := List.length_pos_iff.2 hne
  obtain ⟨f, ch, sb, hwin, hf0, hf1, hch1, hchH⟩ := getHorizontalWindow_ok wd items sel lastFirst pad W H hlen hs0 hs1
    hlf hp0 (by omega) hH
  obtain ⟨r, hr, hrb, hrw, hrl⟩ := hcols_ok wd ok items sel pad ext items.length ch W rfl hch1 hp0 hp1 hit
    (items.length + 1) f { width := 0, lines := [], dot := (0, 0) } W false f hf0 (by omega) (by omega)
    ⟨Int.le_refl _, by intro l hl; simp at hl⟩ (by simp) (by omega) (by simp only [List.length_nil]; omega)
  obtain ⟨buf, hc', last'⟩ := r
  unfold listBoxHorizontal
  simp only [bind, Res.bind, pure, hwin, hr]
  simp only at hrb hrw hrl
  have hfit : ∀ l ∈ buf.lines, lineWidth wd l ≤ W := fun l hl => by have := hrb.2 l hl; omega
  split
  · rename_i hcond
    have hlt : ch < H := by
      simp only [Bool.and_eq_true, decide_eq_true_eq] at hcond; exact hcond.1
    obtain ⟨sbuf, hsb, sl, sfit⟩ := hscrollbarRender_ok wd ok W (by omega)
    simp only [hsb]
    refine ⟨_, rfl, ?_, ?_⟩
    · unfold Buf.extendDown
      have : sbuf.lines.isEmpty = false := by
        cases h : sbuf.lines with
        | nil => rw [h] at sl; simp at sl
        | cons a t => rfl
      simp only [this, Bool.false_eq_true, if_false, List.length_append, Int.natCast_add, sl]
      omega
    · unfold Buf.extendDown
      split
      · exact hfit
      · intro l hl
        simp only at hl
        rcases List.mem_append.1 hl with h | h
        · exact hfit l h
        · exact sfit l h
  · exact ⟨_, rfl, by simp only; omega, hfit⟩

end C34
