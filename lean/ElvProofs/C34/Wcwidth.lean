/-
Helper lemmas for C34, part 1: the table, `sort.Search`, `OfRune`, `Trim`, `Force`.
-/
import ElvModel.C34.Model
import ElvProofs.C34.Utf8
namespace C34
open Go C34.Utf8

/-! ### the generated table -/

set_option maxRecDepth 100000 in
theorem table_wellformed : combining.length = Gen.C34Wcwidth.combiningRanges.length := by decide

/-- Every range is non-empty, and the ranges are strictly increasing and disjoint. -/
def SortedRanges (rs : List (Int × Int)) : Prop :=
  (∀ p ∈ rs, p.1 ≤ p.2) ∧ rs.Pairwise (fun p q => p.2 < q.1)

instance (rs : List (Int × Int)) : Decidable (SortedRanges rs) := by
  unfold SortedRanges; exact inferInstance

set_option maxRecDepth 100000 in
theorem combining_sorted : SortedRanges combining := by decide

/-! ### `sort.Search` -/

theorem search_spec (n : Nat) (f : Fin n → Bool) (i j : Nat) (hj : j ≤ n)
    (mono : ∀ a b : Fin n, a.1 ≤ b.1 → f a = true → f b = true)
    (hlo : ∀ m : Fin n, m.1 < i → f m = false)
    (hhi : ∀ m : Fin n, j ≤ m.1 → f m = true) (hij : i ≤ j) :
    let k := search n f i j hj
    k ≤ n ∧ (∀ m : Fin n, m.1 < k → f m = false) ∧ (∀ m : Fin n, k ≤ m.1 → f m = true) := by
  induction hd : j - i using Nat.strongRecOn generalizing i j with
  | _ d ih =>
    rw [search]
    by_cases hlt : i < j
    · simp only [hlt, ↓reduceDIte]
      have hh : (i + j) / 2 < n := by omega
      cases hf : f ⟨(i + j) / 2, hh⟩ with
      | true =>
        simp only [Bool.not_true, Bool.false_eq_true, ↓reduceIte]
        exact ih ((i + j) / 2 - i) (by omega) i ((i + j) / 2) (by omega) hlo
          (fun m hm => mono ⟨(i + j) / 2, hh⟩ m hm hf) (by omega) rfl
      | false =>
        simp only [Bool.not_false, ↓reduceIte]
        refine ih (j - ((i + j) / 2 + 1)) (by omega) ((i + j) / 2 + 1) j hj ?_ hhi (by omega) rfl
        intro m hm
        cases hfm : f m with
        | false => rfl
        | true =>
          have := mono m ⟨(i + j) / 2, hh⟩ (by simp only; omega) hfm
          rw [hf] at this; exact absurd this (by simp)
    · simp only [hlt, ↓reduceDIte]
      have : i = j := by omega
      subst this
      exact ⟨hj, hlo, hhi⟩

/-- The binary search of `inRange` over a sorted table is plain membership in
one of the ranges. -/
theorem inRange_eq_any (r : Int) (rs : List (Int × Int)) (hs : SortedRanges rs) :
    inRange r rs = rs.any (fun p => decide (p.1 ≤ r) && decide (r ≤ p.2)) := by
  obtain ⟨hne, hpw⟩ := hs
  have hpw' := List.pairwise_iff_getElem.1 hpw
  have hhi : ∀ a b (ha : a < rs.length) (hb : b < rs.length), a ≤ b → rs[a].2 ≤ rs[b].2 := by
    intro a b ha hb hab
    rcases Nat.lt_or_ge a b with h | h
    · have h1 := hpw' a b ha hb h
      have h2 := hne rs[b] (List.getElem_mem hb)
      omega
    · have : a = b := by omega
      subst this; exact Int.le_refl _
  have spec := search_spec rs.length (fun k => decide (r ≤ (rs[k.1]'k.2).2)) 0 rs.length (Nat.le_refl _)
    (by
      intro a b hab hfa
      simp only [decide_eq_true_eq] at hfa ⊢
      have := hhi a.1 b.1 a.2 b.2 hab
      omega)
    (by intro m hm; omega)
    (by intro m hm; have := m.2; omega) (Nat.zero_le _)
  simp only at spec
  obtain ⟨_, hbelow, habove⟩ := spec
  unfold inRange
  simp only
  generalize search rs.length (fun k => decide (r ≤ (rs[k.1]'k.2).2)) 0 rs.length (Nat.le_refl _) = k at *
  apply Bool.eq_iff_iff.2
  constructor
  · intro h
    split at h
    · rename_i hk
      simp only [ge_iff_le, decide_eq_true_eq] at h
      have := habove ⟨k, hk⟩ (Nat.le_refl _)
      simp only [decide_eq_true_eq] at this
      exact List.any_eq_true.2 ⟨rs[k], List.getElem_mem hk, by simp [h, this]⟩
    · exact absurd h (by simp)
  · intro h
    obtain ⟨p, hp, hpr⟩ := List.any_eq_true.1 h
    simp only [Bool.and_eq_true, decide_eq_true_eq] at hpr
    obtain ⟨m, hm, rfl⟩ := List.getElem_of_mem hp
    have hkm : k ≤ m := by
      rcases Nat.lt_or_ge m k with hlt | hge
      · have := hbelow ⟨m, hm⟩ hlt
        simp only [decide_eq_false_iff_not] at this
        omega
      · exact hge
    have hk : k < rs.length := by omega
    simp only [hk, ↓reduceDIte, ge_iff_le, decide_eq_true_eq]
    rcases Nat.lt_or_ge k m with hlt | hge
    · have h1 := hpw' k m hk hm hlt
      have h2 := habove ⟨k, hk⟩ (Nat.le_refl _)
      simp only [decide_eq_true_eq] at h2
      omega
    · have : k = m := by omega
      subst this; exact hpr.1

/-- `inRange(r, combiningRanges)` is membership in the table. -/
theorem inRange_combining (r : Int) :
    inRange r combining = combining.any (fun p => decide (p.1 ≤ r) && decide (r ≤ p.2)) :=
  inRange_eq_any r combining combining_sorted

/-! ### `OfRune` -/

theorem getOverride_mem (ovr : Overrides) (r w : Int) (h : getOverride ovr r = some w) :
    (r, w) ∈ ovr := by
  induction ovr with
  | nil => simp [getOverride] at h
  | cons p rest ih =>
    obtain ⟨k, v⟩ := p
    simp only [getOverride] at h
    split at h
    · rename_i hk; subst hk; simp only [Option.some.injEq] at h; subst h; exact List.mem_cons_self
    · exact List.mem_cons_of_mem _ (ih h)

/-- All override values are non-negative (what `Override` guarantees). -/
def OvrNonneg (ovr : Overrides) : Prop := ∀ p ∈ ovr, 0 ≤ p.2

theorem override_nonneg (ovr : Overrides) (r w : Int) (h : OvrNonneg ovr) :
    OvrNonneg (override ovr r w) := by
  unfold override unoverride
  intro p hp
  split at hp
  · exact h p (List.mem_filter.1 hp).1
  · rcases List.mem_cons.1 hp with rfl | hp
    · simp only; omega
    · exact h p (List.mem_filter.1 hp).1

theorem OfRune_nonneg (ovr : Overrides) (h : OvrNonneg ovr) (r : Int) : 0 ≤ OfRune ovr r := by
  unfold OfRune
  split
  · rename_i w hw; exact h _ (getOverride_mem ovr r w hw)
  · repeat' split
    all_goals omega

theorem OfRune_le_two (r : Int) : OfRune [] r ≤ 2 := by
  unfold OfRune
  simp only [getOverride]
  repeat' split
  all_goals omega

set_option maxRecDepth 100000 in
theorem combining_lo : ∀ p ∈ combining, 0x300 ≤ p.1 := by decide

/-- Printable ASCII has width 1. -/
theorem OfRune_ascii (r : Int) (h1 : 0x20 ≤ r) (h2 : r < 0x7f) : OfRune [] r = 1 := by
  have hnr : inRange r combining = false := by
    rw [inRange_combining]
    apply Bool.eq_false_iff.2
    intro h
    obtain ⟨p, hp, hpr⟩ := List.any_eq_true.1 h
    simp only [Bool.and_eq_true, decide_eq_true_eq] at hpr
    have := combining_lo p hp
    omega
  have hw : isWide r = false := by
    unfold isWide
    have : ¬ (r ≥ 0x1100) := by omega
    simp [this]
  unfold OfRune
  simp only [getOverride, hnr, hw]
  have a : (r == 0) = false := by simp; omega
  have b : decide (r < 32) = false := by simp; omega
  have c : decide (0x7f ≤ r) = false := by simp; omega
  simp [a, b, c]

end C34
