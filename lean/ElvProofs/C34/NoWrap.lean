/-
Helper lemmas for C34, part 4 (round 2): text without C0 control characters /
DEL is written to a `BufferBuilder` cell by cell without `^X` expansion, so a
row whose `wcwidth.Of` fits in the remaining columns never wraps.  `Rows` is the
light invariant used for the text area of `TextView`, `croppedLines` and the
scrollbars (their width can be 1 or 0, where `Inv` — width ≥ 2 — does not apply).
-/
import ElvModel.C34.Buffer
import ElvProofs.C34.Utf8
import ElvProofs.C34.Trim
import ElvProofs.C34.Buffer
namespace C34
open Go C34.Utf8

/-- No C0 control character (newline included) and no DEL, at byte level.  A
byte below 0x80 always decodes as itself (also inside invalid UTF-8) and every
other rune is ≥ 0x80 (`runes_noctl`), so this is the same as "no rune `< 0x20`
or `= 0x7f`": exactly the complement of the finding class `*-control-char`. -/
def NoCtl (s : Bytes) : Prop := ∀ b ∈ s, 0x20 ≤ b.toNat ∧ b.toNat ≠ 0x7f

/-- As `NoCtl`, but newlines are allowed (items of a vertical list box are multi-line). -/
def NoCtlNL (s : Bytes) : Prop := ∀ b ∈ s, (0x20 ≤ b.toNat ∧ b.toNat ≠ 0x7f) ∨ b.toNat = 10

instance (s : Bytes) : Decidable (NoCtl s) := by unfold NoCtl; exact inferInstance
instance (s : Bytes) : Decidable (NoCtlNL s) := by unfold NoCtlNL; exact inferInstance

theorem NoCtl.nil : NoCtl [] := by intro b hb; simp at hb

theorem NoCtl.take {s : Bytes} (h : NoCtl s) (n : Nat) : NoCtl (s.take n) :=
  fun b hb => h b (List.mem_of_mem_take hb)

theorem NoCtl.drop {s : Bytes} (h : NoCtl s) (n : Nat) : NoCtl (s.drop n) :=
  fun b hb => h b (List.mem_of_mem_drop hb)

theorem NoCtl.spaces (n : Nat) : NoCtl (List.replicate n 0x20) := by
  intro b hb
  rw [List.mem_replicate] at hb
  rw [hb.2]; decide

/-! ### runes of control-free text -/

theorem decodeRune_lo (b : UInt8) (t : Bytes) (h : b.toNat < 0x80) : decodeRune (b :: t) = (b.toNat, 1) := by
  simp only [decodeRune]; rw [if_pos h]

theorem decodeRune_hi (b : UInt8) (t : Bytes) (h : 0x80 ≤ b.toNat) : (0x80 : Nat) ≤ (decodeRune (b :: t)).1 := by
  simp only [decodeRune]
  rw [if_neg (by omega)]
  repeat' split
  all_goals simp only [RuneError, Bool.and_eq_true, decide_eq_true_eq, isCont] at *
  all_goals omega

/-- Every rune `range` yields for a control-free string is neither a C0 control nor DEL. -/
theorem runes_noctl (s : Bytes) (h : NoCtl s) : ∀ x ∈ runes s, (0x20 : Nat) ≤ x.2.1 ∧ @Ne Nat x.2.1 0x7f := by
  generalize hn : s.length = n
  induction n using Nat.strongRecOn generalizing s with
  | _ n ih =>
    intro x hx
    cases s with
    | nil => simp [runes_nil] at hx
    | cons b t =>
      rw [runes_cons _ (by simp)] at hx
      have hp := decodeRune_size_pos (b :: t) (by simp)
      have hl := decodeRune_size_le (b :: t)
      rcases List.mem_cons.1 hx with h1 | h1
      · subst h1
        simp only
        by_cases hb : b.toNat < 0x80
        · rw [decodeRune_lo b t hb]
          exact h b List.mem_cons_self
        · have := decodeRune_hi b t (by omega)
          omega
      · rcases List.mem_map.1 h1 with ⟨y, hy, rfl⟩
        exact ih ((b :: t).drop (decodeRune (b :: t)).2).length
          (by simp only [List.length_drop]; omega) _ (h.drop _) rfl y hy

theorem toRunes_noctl (s : Bytes) (h : NoCtl s) : ∀ r ∈ toRunes s, (0x20 : Nat) ≤ r ∧ @Ne Nat r 0x7f := by
  intro r hr
  unfold toRunes at hr
  obtain ⟨x, hx, rfl⟩ := List.mem_map.1 hr
  exact runes_noctl s h x hx

/-- `wcwidth.Of` as a sum over `[]rune(s)`. -/
theorem Of_eq_toRunes (wd : Int → Int) (s : Bytes) : Of wd s = ((toRunes s).map fun (r : Nat) => wd (r : Int)).sum := by
  unfold Of toRunes
  rw [List.map_map]; rfl

theorem sum_wd_nonneg (wd : Int → Int) (h : ∀ r, 0 ≤ wd r) (rs : List Nat) :
    0 ≤ (rs.map fun (r : Nat) => wd (r : Int)).sum := by
  induction rs with
  | nil => simp
  | cons r rs ih => simp only [List.map_cons, List.sum_cons]; have := h (r : Int); omega

theorem Of_nonneg (wd : Int → Int) (h : ∀ r, 0 ≤ wd r) (s : Bytes) : 0 ≤ Of wd s := by
  rw [Of_eq_sumW]; exact sumW_nonneg wd h _

/-- `styledWcswidth` / line width of a list of strings. -/
theorem segsWidth_eq_lineWidth (wd : Int → Int) (t : List Bytes) : segsWidth wd t = lineWidth wd t := rfl

theorem lineWidth_nil (wd : Int → Int) : lineWidth wd [] = 0 := rfl
theorem lineWidth_cons (wd : Int → Int) (a : Bytes) (t : List Bytes) :
    lineWidth wd (a :: t) = Of wd a + lineWidth wd t := by simp [lineWidth]

theorem lineWidth_nonneg (wd : Int → Int) (h : ∀ r, 0 ≤ wd r) (t : List Bytes) : 0 ≤ lineWidth wd t := by
  induction t with
  | nil => simp [lineWidth]
  | cons a t ih => rw [lineWidth_cons]; have := Of_nonneg wd h a; omega

/-! ### the light invariant -/

/-- A builder made by `NewBufferBuilder(w)` (no eager wrap, no indent) all of
whose rows fit in `w` columns. -/
structure Rows (wd : Int → Int) (w : Int) (b : BB) : Prop where
  width : b.width = w
  eager : b.eager = false
  indent : b.indent = 0
  col : b.col = lineWidth wd b.cur.reverse
  colnn : 0 ≤ b.col
  curfit : b.col ≤ w
  prevfit : ∀ l ∈ b.prev, lineWidth wd l ≤ w

theorem Rows.new (wd : Int → Int) (w : Int) (hw : 0 ≤ w) :
    ∃ b, newBB w = .ok b ∧ Rows wd w b ∧ b.prev = [] ∧ b.col = 0 := by
  refine ⟨_, by unfold newBB; rw [if_neg (by omega)], ?_, rfl, rfl⟩
  exact ⟨rfl, rfl, rfl, by simp [lineWidth], by simp, by simpa using hw, by simp⟩

theorem Rows.newline {wd : Int → Int} {w : Int} {b : BB} (h : Rows wd w b) :
    Rows wd w (b.newline wd) ∧ (b.newline wd).prev.length = b.prev.length + 1 ∧ (b.newline wd).col = 0 := by
  have e : b.newline wd = b.appendLine := by
    unfold BB.newline
    simp only
    rw [if_neg (by show ¬ b.indent > 0; rw [h.indent]; omega)]
  rw [e]
  refine ⟨⟨h.width, h.eager, h.indent, by simp [BB.appendLine, lineWidth], by simp [BB.appendLine], ?_, ?_⟩, by simp [BB.appendLine], rfl⟩
  · simp only [BB.appendLine]; have := h.colnn; have := h.curfit; omega
  · intro l hl
    simp only [BB.appendLine] at hl
    rcases List.mem_cons.1 hl with rfl | hl
    · rw [← h.col]; exact h.curfit
    · exact h.prevfit l hl

/-- A rune that is not a control character is written as one cell holding the
rune itself, and does not wrap when it fits. -/
theorem writeRune_nowrap (wd : Int → Int) (b : BB) (r : Nat) (hv : validRune r = true)
    (h20 : 0x20 ≤ r) (h7f : r ≠ 0x7f) (he : b.eager = false) (hfit : b.col + wd (r : Int) ≤ b.width) :
    b.writeRune wd r = b.appendCell wd (encodeRune r) ∧ Of wd (encodeRune r) = wd (r : Int) := by
  have hO := Of_encodeRune wd r hv
  refine ⟨?_, hO⟩
  unfold BB.writeRune
  rw [if_neg (show ¬ r = 10 by omega)]
  have hc : cellOf r = encodeRune r := by
    unfold cellOf
    have : (decide (r < 0x20) || r == 0x7f) = false := by simp; omega
    rw [this]; rfl
  simp only [hc]
  rw [if_neg (by rw [hO]; omega)]
  have : (b.appendCell wd (encodeRune r)).eager = false := he
  simp [this]

theorem Rows.appendCell {wd : Int → Int} {w : Int} {b : BB} (h : Rows wd w b) (c : Bytes)
    (hc0 : 0 ≤ Of wd c) (hfit : b.col + Of wd c ≤ w) :
    Rows wd w (b.appendCell wd c) ∧ (b.appendCell wd c).prev = b.prev ∧
      (b.appendCell wd c).col = b.col + Of wd c := by
  refine ⟨⟨h.width, h.eager, h.indent, ?_, ?_, hfit, h.prevfit⟩, rfl, rfl⟩
  · simp only [BB.appendCell, List.reverse_cons, lineWidth_append, h.col]
    simp [lineWidth]
  · simp only [BB.appendCell]; have := h.colnn; omega

theorem Rows.writeRunes {wd : Int → Int} (nn : ∀ r, 0 ≤ wd r) {w : Int} (rs : List Nat)
    (hrs : ∀ r ∈ rs, validRune r = true ∧ 0x20 ≤ r ∧ r ≠ 0x7f) {b : BB} (h : Rows wd w b)
    (hfit : b.col + (rs.map fun (r : Nat) => wd (r : Int)).sum ≤ w) :
    Rows wd w (rs.foldl (BB.writeRune wd) b) ∧ (rs.foldl (BB.writeRune wd) b).prev = b.prev ∧
      (rs.foldl (BB.writeRune wd) b).col = b.col + (rs.map fun (r : Nat) => wd (r : Int)).sum := by
  induction rs generalizing b with
  | nil => simp; exact h
  | cons r rs ih =>
    simp only [List.foldl_cons, List.map_cons, List.sum_cons] at hfit ⊢
    obtain ⟨hv, h20, h7f⟩ := hrs r List.mem_cons_self
    have hs := sum_wd_nonneg wd nn rs
    have hw := nn (r : Int)
    obtain ⟨e1, e2⟩ := writeRune_nowrap wd b r hv h20 h7f h.eager (by rw [h.width]; omega)
    rw [e1]
    obtain ⟨i1, i2, i3⟩ := h.appendCell (encodeRune r) (by rw [e2]; exact hw) (by rw [e2]; omega)
    obtain ⟨j1, j2, j3⟩ := ih (fun x hx => hrs x (List.mem_cons_of_mem _ hx)) i1 (by rw [i3, e2]; omega)
    exact ⟨j1, by rw [j2, i2], by rw [j3, i3, e2]; omega⟩

theorem Rows.writeString {wd : Int → Int} (nn : ∀ r, 0 ≤ wd r) {w : Int} {b : BB} (h : Rows wd w b)
    (s : Bytes) (hs : NoCtl s) (hfit : b.col + Of wd s ≤ w) :
    Rows wd w (b.writeString wd s) ∧ (b.writeString wd s).prev = b.prev ∧
      (b.writeString wd s).col = b.col + Of wd s := by
  unfold BB.writeString
  rw [Of_eq_toRunes] at hfit ⊢
  exact h.writeRunes nn (toRunes s)
    (fun r hr => ⟨toRunes_valid s r hr, (toRunes_noctl s hs r hr).1, (toRunes_noctl s hs r hr).2⟩) hfit

theorem Rows.writeSegs {wd : Int → Int} (nn : ∀ r, 0 ≤ wd r) {w : Int} {b : BB} (h : Rows wd w b)
    (segs : List Bytes) (hs : ∀ s ∈ segs, NoCtl s) (hfit : b.col + lineWidth wd segs ≤ w) :
    Rows wd w (b.writeSegs wd segs) ∧ (b.writeSegs wd segs).prev = b.prev ∧
      (b.writeSegs wd segs).col = b.col + lineWidth wd segs := by
  unfold BB.writeSegs
  induction segs generalizing b with
  | nil => simp [lineWidth]; exact h
  | cons s segs ih =>
    simp only [List.foldl_cons]
    rw [lineWidth_cons] at hfit ⊢
    have h0 := lineWidth_nonneg wd nn segs
    obtain ⟨i1, i2, i3⟩ := h.writeString nn s (hs s List.mem_cons_self) (by omega)
    obtain ⟨j1, j2, j3⟩ := ih i1 (fun x hx => hs x (List.mem_cons_of_mem _ hx)) (by rw [i3]; omega)
    exact ⟨j1, by rw [j2, i2], by rw [j3, i3]; omega⟩

theorem Rows.lines_fit {wd : Int → Int} {w : Int} {b : BB} (h : Rows wd w b) :
    ∀ l ∈ b.buffer.lines, lineWidth wd l ≤ w := by
  intro l hl
  simp only [BB.buffer, BB.lines, List.mem_reverse, List.mem_cons] at hl
  rcases hl with rfl | hl
  · rw [← h.col]; exact h.curfit
  · exact h.prevfit l hl

theorem BB.buffer_lines_length (b : BB) : b.buffer.lines.length = b.prev.length + 1 := by
  simp [BB.buffer, BB.lines]

/-! ### `Trim`, `TrimWcwidth` on control-free text -/

theorem Trim_noctl (wd : Int → Int) (s : Bytes) (w : Int) (h : NoCtl s) : NoCtl (Trim wd s w) := by
  unfold Trim
  split
  · exact h.take _
  · exact h

theorem Trim_width (wd : Int → Int) (nn : ∀ r, 0 ≤ wd r) (s : Bytes) (w : Int) :
    0 ≤ Of wd (Trim wd s w) ∧ (0 ≤ w → Of wd (Trim wd s w) ≤ w) ∧ (w < 0 → Of wd (Trim wd s w) = 0) := by
  refine ⟨Of_nonneg wd nn _, ?_, ?_⟩
  · intro hw
    rcases Trim_cases wd s w hw with ⟨h1, h2⟩ | ⟨pre, x, post, _, h1, h2, h3, _⟩
    · rw [h1]; exact h2
    · rw [h1, Of_eq_sumW, h2]; exact h3
  · intro hw; rw [Trim_neg wd nn s w hw]; rfl

theorem trimSegs_noctl (wd : Int → Int) (t : List Bytes) (w : Int) (h : ∀ s ∈ t, NoCtl s) :
    ∀ s ∈ trimSegs wd t w, NoCtl s := by
  induction t generalizing w with
  | nil => intro s hs; simp [trimSegs] at hs
  | cons a t ih =>
    intro s hs
    simp only [trimSegs] at hs
    split at hs
    · simp only [List.mem_singleton] at hs
      rw [hs]; exact Trim_noctl wd a w (h a List.mem_cons_self)
    · rcases List.mem_cons.1 hs with rfl | hs
      · exact h _ List.mem_cons_self
      · exact ih _ (fun x hx => h x (List.mem_cons_of_mem _ hx)) s hs

/-- `TrimWcwidth(w)` is at most `max w 0` columns wide. -/
theorem trimSegs_width (wd : Int → Int) (nn : ∀ r, 0 ≤ wd r) (t : List Bytes) (w : Int) :
    0 ≤ lineWidth wd (trimSegs wd t w) ∧ (0 ≤ w → lineWidth wd (trimSegs wd t w) ≤ w) ∧
      (w < 0 → lineWidth wd (trimSegs wd t w) = 0) := by
  refine ⟨lineWidth_nonneg wd nn _, ?_, ?_⟩
  · induction t generalizing w with
    | nil => intro hw; simp [trimSegs, lineWidth]; exact hw
    | cons a t ih =>
      intro hw
      simp only [trimSegs]
      split
      · rw [lineWidth_cons, lineWidth_nil]
        have := (Trim_width wd nn a w).2.1 hw; omega
      · rename_i hle
        rw [lineWidth_cons]
        have := ih (w - Of wd a) (by omega); omega
  · intro hw
    cases t with
    | nil => simp [trimSegs, lineWidth]
    | cons a t =>
      simp only [trimSegs]
      have := Of_nonneg wd nn a
      rw [if_pos (by omega)]
      rw [lineWidth_cons, lineWidth_nil, (Trim_width wd nn a w).2.2 hw]; rfl

end C34
