/-
Helper lemmas for C34, part 5 (round 2): the scrollbars and `Buffer.ExtendRight`.
-/
import ElvProofs.C34.NoWrap
namespace C34
open Go C34.Utf8

theorem scrollCell_noctl : NoCtl scrollCell := by decide

theorem Of_scrollCell (wd : Int → Int) (ok : WdOK wd) : Of wd scrollCell = 1 := Of_space wd ok

theorem lineWidth_spacing (wd : Int → Int) (ok : WdOK wd) (k : Nat) :
    lineWidth wd (List.replicate k [0x20]) = k := by
  induction k with
  | zero => simp [lineWidth]
  | succ k ih => rw [List.replicate_succ, lineWidth_cons, ih, Of_space wd ok]; omega

/-! ### VScrollbar -/

theorem vscroll_go_pos (wd : Int → Int) (ok : WdOK wd) (k : Nat) : ∀ (bb : BB) (i : Nat), 0 < i → Rows wd 1 bb →
    Rows wd 1 (vscrollbarRender.go wd bb i k) ∧
      (vscrollbarRender.go wd bb i k).prev.length = bb.prev.length + k := by
  induction k with
  | zero => intro bb i _ h; exact ⟨h, rfl⟩
  | succ k ih =>
    intro bb i hi h
    simp only [vscrollbarRender.go]
    rw [if_pos (by omega)]
    obtain ⟨n1, n2, n3⟩ := h.newline
    obtain ⟨w1, w2, _⟩ := n1.writeString ok.nonneg scrollCell scrollCell_noctl (by rw [n3, Of_scrollCell wd ok]; omega)
    obtain ⟨r1, r2⟩ := ih _ (i + 1) (by omega) w1
    exact ⟨r1, by rw [r2, w2, n2]; omega⟩

/-- `VScrollbar.Render(1, H)`, `H ≥ 1`: `H` rows, one column. -/
theorem vscrollbarRender_ok (wd : Int → Int) (ok : WdOK wd) (H : Int) (hH : 1 ≤ H) :
    ∃ sb, vscrollbarRender wd H = .ok sb ∧ sb.width = 1 ∧ (sb.lines.length : Int) = H ∧
      ∀ l ∈ sb.lines, lineWidth wd l ≤ 1 := by
  obtain ⟨b, hb, hr, hp, hc⟩ := Rows.new wd 1 (by omega)
  obtain ⟨k, hk⟩ : ∃ k, H.toNat = k + 1 := ⟨H.toNat - 1, by omega⟩
  unfold vscrollbarRender
  simp only [bind, Res.bind, hb, pure, hk]
  simp only [vscrollbarRender.go]
  rw [if_neg (by omega)]
  obtain ⟨w1, w2, _⟩ := hr.writeString ok.nonneg scrollCell scrollCell_noctl (by rw [hc, Of_scrollCell wd ok]; omega)
  obtain ⟨r1, r2⟩ := vscroll_go_pos wd ok k _ 1 (by omega) w1
  refine ⟨_, rfl, ?_, ?_, r1.lines_fit⟩
  · exact r1.width
  · rw [BB.buffer_lines_length, r2, w2, hp]; simp only [List.length_nil]; omega

/-! ### HScrollbar -/

theorem hscroll_go (wd : Int → Int) (ok : WdOK wd) (w : Int) (k : Nat) : ∀ (bb : BB), Rows wd w bb →
    bb.col + k ≤ w →
    Rows wd w (hscrollbarRender.go wd bb k) ∧ (hscrollbarRender.go wd bb k).prev = bb.prev := by
  induction k with
  | zero => intro bb h _; exact ⟨h, rfl⟩
  | succ k ih =>
    intro bb h hf
    simp only [hscrollbarRender.go]
    obtain ⟨w1, w2, w3⟩ := h.writeString ok.nonneg scrollCell scrollCell_noctl (by rw [Of_scrollCell wd ok]; omega)
    obtain ⟨r1, r2⟩ := ih _ w1 (by rw [w3, Of_scrollCell wd ok]; omega)
    exact ⟨r1, by rw [r2, w2]⟩

/-- `HScrollbar.Render(W, 1)`, `W ≥ 0`: one row of at most `W` columns. -/
theorem hscrollbarRender_ok (wd : Int → Int) (ok : WdOK wd) (W : Int) (hW : 0 ≤ W) :
    ∃ sb, hscrollbarRender wd W = .ok sb ∧ sb.lines.length = 1 ∧ ∀ l ∈ sb.lines, lineWidth wd l ≤ W := by
  obtain ⟨b, hb, hr, hp, hc⟩ := Rows.new wd W hW
  unfold hscrollbarRender
  simp only [bind, Res.bind, hb, pure]
  obtain ⟨r1, r2⟩ := hscroll_go wd ok W W.toNat b hr (by rw [hc]; omega)
  refine ⟨_, rfl, ?_, r1.lines_fit⟩
  rw [BB.buffer_lines_length, r2, hp]; rfl

/-! ### ExtendRight -/

theorem extendRows_ok (wd : Int → Int) (ok : WdOK wd) (w w2 : Int) (hw : 0 ≤ w) (hw2 : 0 ≤ w2) :
    ∀ (ls ls2 : List (List Bytes)), (∀ l ∈ ls, lineWidth wd l ≤ w) → (∀ l ∈ ls2, lineWidth wd l ≤ w2) →
    ∃ r, extendRows wd w ls ls2 = .ok r ∧ r.length = max ls.length ls2.length ∧
      ∀ l ∈ r, lineWidth wd l ≤ w + w2 := by
  intro ls
  induction ls with
  | nil =>
    intro ls2
    induction ls2 with
    | nil => intro _ _; exact ⟨[], by simp [extendRows, pure], by simp, by simp⟩
    | cons l2 ls2 ih2 =>
      intro h1 h2
      obtain ⟨r, hr, hlen, hfit⟩ := ih2 h1 (fun l hl => h2 l (List.mem_cons_of_mem _ hl))
      refine ⟨(List.replicate w.toNat [0x20] ++ l2) :: r, ?_, ?_, ?_⟩
      · simp only [extendRows, makeSpacing, bind, Res.bind, pure, hr]
        rw [if_neg (by omega)]
      · simp only [List.length_cons, List.length_nil] at hlen ⊢; omega
      · intro l hl
        rcases List.mem_cons.1 hl with rfl | hl
        · rw [lineWidth_append, lineWidth_spacing wd ok]
          have := h2 l2 List.mem_cons_self; omega
        · exact hfit l hl
  | cons l ls ih =>
    intro ls2 h1 h2
    cases ls2 with
    | nil =>
      refine ⟨l :: ls, by simp [extendRows, pure], by simp, ?_⟩
      intro x hx; have := h1 x hx; omega
    | cons l2 ls2 =>
      obtain ⟨r, hr, hlen, hfit⟩ := ih ls2 (fun x hx => h1 x (List.mem_cons_of_mem _ hx))
        (fun x hx => h2 x (List.mem_cons_of_mem _ hx))
      have hl := h1 l List.mem_cons_self
      have hl2 := h2 l2 List.mem_cons_self
      by_cases hlt : lineWidth wd l < w
      · refine ⟨((l ++ List.replicate (w - lineWidth wd l).toNat [0x20]) ++ l2) :: r, ?_, ?_, ?_⟩
        · simp only [extendRows, makeSpacing, bind, Res.bind, pure, hr]
          rw [if_pos hlt, if_neg (by omega)]
        · simp only [List.length_cons] at hlen ⊢; omega
        · intro x hx
          rcases List.mem_cons.1 hx with rfl | hx
          · rw [lineWidth_append, lineWidth_append, lineWidth_spacing wd ok]; omega
          · exact hfit x hx
      · refine ⟨(l ++ l2) :: r, ?_, ?_, ?_⟩
        · simp only [extendRows, bind, Res.bind, pure, hr]
          rw [if_neg hlt]
        · simp only [List.length_cons] at hlen ⊢; omega
        · intro x hx
          rcases List.mem_cons.1 hx with rfl | hx
          · rw [lineWidth_append]; omega
          · exact hfit x hx

theorem extendRight_ok (wd : Int → Int) (ok : WdOK wd) (b b2 : Buf) (w2 : Int) (md : Bool) (hw : 0 ≤ b.width)
    (hw2 : 0 ≤ w2) (h1 : ∀ l ∈ b.lines, lineWidth wd l ≤ b.width) (h2 : ∀ l ∈ b2.lines, lineWidth wd l ≤ w2) :
    ∃ r, b.extendRight wd b2 md = .ok r ∧ r.width = b.width + b2.width ∧
      r.lines.length = max b.lines.length b2.lines.length ∧ ∀ l ∈ r.lines, lineWidth wd l ≤ b.width + w2 := by
  obtain ⟨r, hr, hlen, hfit⟩ := extendRows_ok wd ok b.width w2 hw hw2 b.lines b2.lines h1 h2
  unfold Buf.extendRight
  simp only [bind, Res.bind, hr, pure]
  exact ⟨_, rfl, rfl, hlen, hfit⟩

end C34
