/-
Helper lemmas for C34, part 2: `Of`, `Trim`, `Force`, `TrimEachLine`.
-/
import ElvModel.C34.Model
import ElvProofs.C34.Utf8
namespace C34
open Go C34.Utf8

/-- Total width of a list of `range` entries. -/
def sumW (wd : Int → Int) (L : List (Nat × Rune × Nat)) : Int :=
  (L.map fun x => wd (x.2.1 : Int)).sum

theorem Of_eq_sumW (wd : Int → Int) (s : Bytes) : Of wd s = sumW wd (runes s) := rfl

theorem sumW_nil (wd : Int → Int) : sumW wd [] = 0 := rfl
theorem sumW_cons (wd : Int → Int) (x) (L) : sumW wd (x :: L) = wd (x.2.1 : Int) + sumW wd L := by
  simp [sumW]
theorem sumW_append (wd : Int → Int) (A B) : sumW wd (A ++ B) = sumW wd A + sumW wd B := by
  simp [sumW]
theorem sumW_map_shift (wd : Int → Int) (d : Nat) (L) : sumW wd (L.map (shift d)) = sumW wd L := by
  simp [sumW, shift, Function.comp_def]

theorem sumW_nonneg (wd : Int → Int) (h : ∀ r, 0 ≤ wd r) (L) : 0 ≤ sumW wd L := by
  induction L with
  | nil => simp [sumW]
  | cons x L ih => rw [sumW_cons]; have := h (x.2.1 : Int); omega

theorem Of_nil (wd : Int → Int) : Of wd [] = 0 := rfl

/-! ### the loop of `Trim` -/

theorem trimIdx_none (wd : Int → Int) (L : List (Nat × Rune × Nat)) (w wmax : Int)
    (hw : w ≤ wmax) (h : trimIdx wd L w wmax = none) : w + sumW wd L ≤ wmax := by
  induction L generalizing w with
  | nil => simp [sumW]; exact hw
  | cons x L ih =>
    obtain ⟨i, r, n⟩ := x
    simp only [trimIdx] at h
    split at h
    · simp at h
    · rename_i hgt
      have := ih (w + wd (r : Int)) (by omega) h
      rw [sumW_cons]; simp only; omega

theorem trimIdx_some (wd : Int → Int) (L : List (Nat × Rune × Nat)) (w wmax : Int) (i : Nat)
    (hw : w ≤ wmax) (h : trimIdx wd L w wmax = some i) :
    ∃ pre x post, L = pre ++ x :: post ∧ i = x.1 ∧ w + sumW wd pre ≤ wmax ∧
      w + sumW wd pre + wd (x.2.1 : Int) > wmax := by
  induction L generalizing w with
  | nil => simp [trimIdx] at h
  | cons x L ih =>
    obtain ⟨j, r, n⟩ := x
    simp only [trimIdx] at h
    split at h
    · rename_i hgt
      simp only [Option.some.injEq] at h
      exact ⟨[], (j, r, n), L, rfl, h.symm, by simp [sumW]; exact hw, by simp [sumW]; omega⟩
    · rename_i hgt
      obtain ⟨pre, x, post, hL, hi, h1, h2⟩ := ih (w + wd (r : Int)) (by omega) h
      refine ⟨(j, r, n) :: pre, x, post, by rw [hL]; rfl, hi, ?_, ?_⟩
      · rw [sumW_cons]; simp only; omega
      · rw [sumW_cons]; simp only; omega

/-- What `Trim` returns, in terms of the runes of `s`. -/
theorem Trim_cases (wd : Int → Int) (s : Bytes) (wmax : Int) (hw : 0 ≤ wmax) :
    (Trim wd s wmax = s ∧ Of wd s ≤ wmax) ∨
    ∃ pre x post, runes s = pre ++ x :: post ∧ Trim wd s wmax = s.take x.1 ∧
      runes (s.take x.1) = pre ∧ sumW wd pre ≤ wmax ∧ sumW wd pre + wd (x.2.1 : Int) > wmax := by
  unfold Trim
  cases h : trimIdx wd (runes s) 0 wmax with
  | none =>
    left
    have := trimIdx_none wd (runes s) 0 wmax hw h
    exact ⟨rfl, by rw [Of_eq_sumW]; omega⟩
  | some i =>
    right
    obtain ⟨pre, x, post, hL, hi, h1, h2⟩ := trimIdx_some wd (runes s) 0 wmax i hw h
    refine ⟨pre, x, post, hL, by rw [hi], runes_take s pre x post hL, by omega, by omega⟩

/-- For a negative limit `Trim` returns the empty string when widths are non-negative. -/
theorem Trim_neg (wd : Int → Int) (hwd : ∀ r, 0 ≤ wd r) (s : Bytes) (wmax : Int) (hw : wmax < 0) :
    Trim wd s wmax = [] := by
  unfold Trim
  cases s with
  | nil => simp [runes_nil, trimIdx]
  | cons b t =>
    rw [runes_cons _ (by simp)]
    simp only [trimIdx]
    have := hwd ((decodeRune (b :: t)).1 : Int)
    rw [if_pos (by omega)]
    rfl

/-! ### appending ASCII text -/

/-- `range` over `a ++ b` is `range a` followed by `range b` when `b` starts with
an ASCII byte (decoding of the tail of `a` cannot be changed by it). -/
theorem runes_append_ascii (a b : Bytes) (hb : ∀ x t, b = x :: t → x.toNat < 0x80) :
    runes (a ++ b) = runes a ++ (runes b).map (shift a.length) := by
  induction hn : a.length using Nat.strongRecOn generalizing a with
  | _ n ih =>
    subst hn
    cases a with
    | nil =>
      simp only [List.nil_append, runes_nil, List.length_nil]
      have : shift 0 = id := by funext x; simp [shift]
      rw [this]; simp
    | cons c a' =>
      have hne : (c :: a') ++ b ≠ [] := by simp
      rw [runes_cons _ hne, runes_cons (c :: a') (by simp), decodeRune_append_ascii (c :: a') b (by simp) hb]
      have hp := decodeRune_size_pos (c :: a') (by simp)
      have hl := decodeRune_size_le (c :: a')
      simp only [List.cons_append, List.map_append, List.map_map]
      congr 1
      have hd : ((c :: a') ++ b).drop (decodeRune (c :: a')).2 = (c :: a').drop (decodeRune (c :: a')).2 ++ b := by
        rw [List.drop_append_of_le_length hl]
      rw [← List.cons_append, hd]
      rw [ih ((c :: a').drop (decodeRune (c :: a')).2).length
        (by simp only [List.length_drop]; omega) _ rfl]
      simp only [List.map_append, List.map_map]
      congr 1
      apply List.map_congr_left
      intro x _
      simp only [Function.comp, shift, List.length_drop]
      have : x.1 + ((c :: a').length - (decodeRune (c :: a')).2) + (decodeRune (c :: a')).2 = x.1 + (c :: a').length := by omega
      rw [this]

theorem runes_spaces (k : Nat) : sumW wd (runes (List.replicate k (0x20 : UInt8))) = k * wd 0x20 := by
  induction k with
  | zero => simp [runes_nil, sumW]
  | succ k ih =>
    rw [List.replicate_succ, runes_cons _ (by simp)]
    have hd : decodeRune ((0x20 : UInt8) :: List.replicate k 0x20) = (0x20, 1) := by
      simp [decodeRune]
    rw [hd, sumW_cons, sumW_map_shift]
    simp only [List.drop_succ_cons, List.drop_zero]
    rw [ih]
    have e : ((k + 1 : Nat) : Int) * wd 32 = (k : Int) * wd 32 + wd 32 := by
      rw [Int.natCast_add, Int.add_mul]; simp
    rw [e]
    have : (((0x20 : Rune), 1).1 : Int) = 32 := rfl
    simp only [this]; omega

theorem Of_append_spaces (wd : Int → Int) (a : Bytes) (k : Nat) :
    Of wd (a ++ List.replicate k (0x20 : UInt8)) = Of wd a + k * wd 0x20 := by
  rw [Of_eq_sumW, runes_append_ascii, sumW_append, sumW_map_shift, runes_spaces, Of_eq_sumW]
  intro x t h
  cases k with
  | zero => simp at h
  | succ k =>
    rw [List.replicate_succ] at h
    simp only [List.cons.injEq] at h
    rw [← h.1]; decide

/-! ### the loop of `Force` -/

theorem forceIdx_none (wd : Int → Int) (L : List (Nat × Rune × Nat)) (w width w' : Int)
    (hw : w ≤ width) (h : forceIdx wd L w width = (none, w')) :
    w' = w + sumW wd L ∧ w' ≤ width := by
  induction L generalizing w with
  | nil => simp only [forceIdx, Prod.mk.injEq, true_and] at h; subst h; simp [sumW]; exact hw
  | cons x L ih =>
    obtain ⟨i, r, n⟩ := x
    simp only [forceIdx] at h
    split at h
    · simp at h
    · rename_i hgt
      have := ih (w + wd (r : Int)) (by omega) h
      rw [sumW_cons]; simp only; omega

theorem forceIdx_some (wd : Int → Int) (L : List (Nat × Rune × Nat)) (w width w' : Int) (i : Nat)
    (hw : w ≤ width) (h : forceIdx wd L w width = (some i, w')) :
    ∃ pre x post, L = pre ++ x :: post ∧ i = x.1 ∧ w' = w + sumW wd pre ∧ w' ≤ width ∧
      w' + wd (x.2.1 : Int) > width := by
  induction L generalizing w with
  | nil => simp [forceIdx] at h
  | cons x L ih =>
    obtain ⟨j, r, n⟩ := x
    simp only [forceIdx] at h
    split at h
    · rename_i hgt
      simp only [Prod.mk.injEq, Option.some.injEq] at h
      refine ⟨[], (j, r, n), L, rfl, h.1.symm, by simp [sumW]; omega, by omega, by simp only; omega⟩
    · rename_i hgt
      obtain ⟨pre, x, post, hL, hi, h1, h2, h3⟩ := ih (w + wd (r : Int)) (by omega) h
      refine ⟨(j, r, n) :: pre, x, post, by rw [hL]; rfl, hi, ?_, h2, h3⟩
      rw [sumW_cons]; simp only; omega

/-! ### lines -/

theorem splitNL_ne_nil (s : Bytes) : splitNL s ≠ [] := by
  induction s with
  | nil => simp [splitNL]
  | cons b t ih =>
    simp only [splitNL]
    split
    · simp
    · split <;> simp

end C34
