/-
Helper lemmas for C34, part 6 (round 2): `TextView.Render` on control-free lines.
-/
import ElvProofs.C34.Extend
namespace C34
open Go C34.Utf8

theorem index_ok {α} (l : List α) (i : Int) (h0 : 0 ≤ i) (h : i < l.length) :
    ∃ a, index l i = .ok a ∧ a ∈ l := by
  unfold index
  rw [if_pos h0]
  have hlt : i.toNat < l.length := by omega
  rw [List.getElem?_eq_getElem hlt]
  exact ⟨_, rfl, List.getElem_mem hlt⟩

theorem slice_ok {α} (l : List α) (i j : Int) (h0 : 0 ≤ i) (hij : i ≤ j) (hj : j ≤ l.length) :
    ∃ r, slice l i j = .ok r ∧ (r.length : Int) = j - i ∧ ∀ x ∈ r, x ∈ l := by
  unfold slice
  rw [if_pos ⟨h0, hij, hj⟩]
  refine ⟨_, rfl, ?_, ?_⟩
  · simp only [List.length_take, List.length_drop]; omega
  · intro x hx; exact List.mem_of_mem_drop (List.mem_of_mem_take hx)

/-- The loop of `TextView.Render`: every visited line adds one row (none wraps). -/
theorem textView_go (wd : Int → Int) (ok : WdOK wd) (lines : List Bytes) (H n first tw : Int)
    (hn : n = lines.length) (hf : 0 ≤ first) (htw : 0 ≤ tw) (hc : ∀ l ∈ lines, NoCtl l) (k : Nat) :
    ∀ (bb : BB) (i : Int), first ≤ i → Rows wd tw bb → (i = first → bb.col = 0) →
    ∃ bb', textViewRender.go wd lines H n first tw bb i k = .ok bb' ∧ Rows wd tw bb' ∧
      (first < i → (bb'.prev.length : Int) ≤ bb.prev.length ∨ (bb'.prev.length : Int) + i ≤ bb.prev.length + first + H) ∧
      (i = first → (bb'.prev.length : Int) ≤ bb.prev.length ∨ (bb'.prev.length : Int) + 1 ≤ bb.prev.length + H) := by
  induction k with
  | zero =>
    intro bb i _ h _
    exact ⟨bb, rfl, h, fun _ => Or.inl (Int.le_refl _), fun _ => Or.inl (Int.le_refl _)⟩
  | succ k ih =>
    intro bb i hi h hcol
    simp only [textViewRender.go]
    by_cases hcond : i < first + H ∧ i < n
    · have hc' : (decide (i < first + H) && decide (i < n)) = true := by simp [hcond.1, hcond.2]
      rw [if_pos hc']
      obtain ⟨line, hline, hmem⟩ := index_ok lines i (by omega) (by omega)
      simp only [bind, Res.bind, hline, BB.write]
      have hT := Trim_width wd ok.nonneg line tw
      have hN := Trim_noctl wd line tw (hc line hmem)
      by_cases hgt : i > first
      · rw [if_pos hgt]
        obtain ⟨n1, n2, n3⟩ := h.newline
        obtain ⟨w1, w2, _⟩ := n1.writeString ok.nonneg _ hN (by rw [n3]; have := hT.2.1 htw; omega)
        obtain ⟨bb', e, r, p1, p2⟩ := ih _ (i + 1) (by omega) w1 (by omega)
        refine ⟨bb', e, r, ?_, ?_⟩
        · intro _
          have := p1 (by omega)
          rw [w2, n2] at this
          omega
        · intro h'; omega
      · rw [if_neg hgt]
        have hif : i = first := by omega
        obtain ⟨w1, w2, _⟩ := h.writeString ok.nonneg _ hN (by rw [hcol hif]; have := hT.2.1 htw; omega)
        obtain ⟨bb', e, r, p1, p2⟩ := ih _ (i + 1) (by omega) w1 (by omega)
        refine ⟨bb', e, r, ?_, ?_⟩
        · intro h'; omega
        · intro _
          have := p1 (by omega)
          rw [w2] at this
          omega
    · have hc' : (decide (i < first + H) && decide (i < n)) = false := by
        simp only [Bool.and_eq_false_iff, decide_eq_false_iff_not]
        by_cases h1 : i < first + H
        · right; omega
        · left; exact h1
      rw [hc']
      exact ⟨bb, rfl, h, fun _ => Or.inl (Int.le_refl _), fun _ => Or.inl (Int.le_refl _)⟩

end C34

namespace C34
open Go C34.Utf8

theorem textView_fits (wd : Int → Int) (ok : WdOK wd) (sc : Bool) (lines : List Bytes) (first0 W H : Int)
    (hW : 2 ≤ W) (hH : 1 ≤ H) (hf : 0 ≤ first0) (hc : ∀ l ∈ lines, NoCtl l) :
    ∃ buf, textViewRender wd sc lines first0 W H = .ok buf ∧ (buf.lines.length : Int) ≤ H ∧
      ∀ l ∈ buf.lines, lineWidth wd l ≤ W := by
  unfold textViewRender
  simp only [bind, Res.bind, pure]
  generalize hF : (if (decide (first0 > ↑lines.length - H) && decide ((lines.length : Int) - H ≥ 0)) = true
      then (lines.length : Int) - H else first0) = first
  have hf' : 0 ≤ first := by
    rw [← hF]; split
    · rename_i h; simp only [Bool.and_eq_true, decide_eq_true_eq] at h; omega
    · exact hf
  generalize (sc && (decide (first > 0) || decide (first + H < ↑lines.length))) = ns
  cases ns with
  | false =>
    simp only [Bool.false_eq_true, if_false]
    obtain ⟨b, hb, hr, hp, hc0⟩ := Rows.new wd W (by omega)
    obtain ⟨bb', e, r, _, p2⟩ := textView_go wd ok lines H lines.length first W rfl hf' (by omega) hc
      (lines.length + 1) b first (Int.le_refl _) hr (fun _ => hc0)
    simp only [hb, e]
    refine ⟨_, rfl, ?_, r.lines_fit⟩
    rw [BB.buffer_lines_length]
    have := p2 rfl
    rw [hp] at this
    simp only [List.length_nil] at this
    omega
  | true =>
    simp only [if_true]
    obtain ⟨b, hb, hr, hp, hc0⟩ := Rows.new wd (W - 1) (by omega)
    obtain ⟨bb', e, r, _, p2⟩ := textView_go wd ok lines H lines.length first (W - 1) rfl hf' (by omega) hc
      (lines.length + 1) b first (Int.le_refl _) hr (fun _ => hc0)
    obtain ⟨sb, hsb, sw, slen, sfit⟩ := vscrollbarRender_ok wd ok H hH
    have hbw : bb'.buffer.width = W - 1 := r.width
    obtain ⟨res, hres, _, rlen, rfit⟩ := extendRight_ok wd ok bb'.buffer sb 1 false (by rw [hbw]; omega) (by omega)
      (by rw [hbw]; exact r.lines_fit) sfit
    simp only [hb, e, hsb, hres]
    refine ⟨_, rfl, ?_, ?_⟩
    · rw [rlen, BB.buffer_lines_length]
      have := p2 rfl
      rw [hp] at this
      simp only [List.length_nil] at this
      omega
    · intro l hl; have := rfit l hl; rw [hbw] at this; omega

end C34
