/-
Helper lemmas for C34, part 9 (round 2): the vertical `ListBox` — `getVerticalWindow`
returns an in-range window, the item loop collects at most `height` control-free rows.
-/
import ElvProofs.C34.Split
namespace C34
open Go C34.Utf8

/-- What `getVerticalWindow` guarantees about `(first, crop)`. -/
def WinOK (items : List (List Bytes)) (f c : Int) : Prop :=
  0 ≤ f ∧ f < items.length ∧ 0 ≤ c ∧ ∀ it, index items f = .ok it → c < countLines it

theorem WinOK.zero_crop (items : List (List Bytes)) (f : Int) (h0 : 0 ≤ f) (h1 : f < items.length) :
    WinOK items f 0 :=
  ⟨h0, h1, Int.le_refl _, fun it _ => by have := countLines_pos it; omega⟩

theorem vdown_ok (items : List (List Bytes)) (n budget : Int) (hn : n = items.length) (k : Nat) :
    ∀ (i u : Int), 0 ≤ i → 0 ≤ u → ∃ r, getVerticalWindow.down items n budget i u k = .ok r ∧ 0 ≤ r := by
  induction k with
  | zero => intro i u _ hu; exact ⟨u, rfl, hu⟩
  | succ k ih =>
    intro i u hi hu
    simp only [getVerticalWindow.down]
    by_cases hlt : i < n
    · rw [if_pos hlt]
      obtain ⟨it, hit, _⟩ := index_ok items i hi (by omega)
      simp only [bind, Res.bind, hit]
      have := countLines_pos it
      split
      · exact ⟨_, rfl, by omega⟩
      · exact ih _ _ (by omega) (by omega)
    · rw [if_neg hlt]; exact ⟨u, rfl, hu⟩

theorem vup_ok (items : List (List Bytes)) (lastFirst budget useDown budgetUp : Int) (hne : 0 < items.length)
    (k : Nat) :
    ∀ (i u : Int), i < items.length → 0 ≤ u → u < budgetUp →
    ∃ f c, getVerticalWindow.up items lastFirst budget useDown budgetUp i u k = .ok (f, c) ∧ WinOK items f c := by
  induction k with
  | zero => intro i u _ _ _; exact ⟨0, 0, rfl, WinOK.zero_crop items 0 (Int.le_refl _) (by omega)⟩
  | succ k ih =>
    intro i u hi hu hub
    simp only [getVerticalWindow.up]
    by_cases hge : i ≥ 0
    · rw [if_pos hge]
      obtain ⟨it, hit, _⟩ := index_ok items i hge hi
      simp only [bind, Res.bind, hit]
      have := countLines_pos it
      split
      · refine ⟨_, _, rfl, hge, hi, by omega, ?_⟩
        intro it' hit'
        rw [hit] at hit'
        cases hit'
        omega
      · split
        · exact ⟨_, _, rfl, WinOK.zero_crop items i hge hi⟩
        · exact ih _ _ (by omega) (by omega) (by omega)
    · rw [if_neg hge]; exact ⟨0, 0, rfl, WinOK.zero_crop items 0 (Int.le_refl _) (by omega)⟩

theorem getVerticalWindow_ok (items : List (List Bytes)) (sel lastFirst H : Int) (hne : 0 < items.length) :
    ∃ f c, getVerticalWindow items sel lastFirst H = .ok (f, c) ∧ WinOK items f c := by
  unfold getVerticalWindow
  simp only [bind, Res.bind, pure]
  generalize hs : (if sel < 0 then 0 else if sel ≥ (items.length : Int) then (items.length : Int) - 1 else sel) = s
  have hs0 : 0 ≤ s ∧ s < items.length := by
    rw [← hs]; split
    · omega
    · split <;> omega
  obtain ⟨selIt, hsel, _⟩ := index_ok items s hs0.1 hs0.2
  simp only [hsel]
  split
  · exact ⟨_, _, rfl, WinOK.zero_crop items s hs0.1 hs0.2⟩
  · rename_i hH
    obtain ⟨ud, hud, hud0⟩ := vdown_ok items items.length (H - countLines selIt) rfl (items.length + 1)
      (s + 1) 0 (by omega) (Int.le_refl _)
    simp only [hud]
    have hb : 0 ≤ H - countLines selIt := by omega
    have ht : (H - countLines selIt).tdiv 2 = (H - countLines selIt) / 2 := Int.tdiv_eq_ediv_of_nonneg hb
    apply vup_ok items _ _ _ _ hne
    · omega
    · exact Int.le_refl _
    · simp only [respectDistance, ht]
      split <;> split <;> omega

theorem vgo_ok (items : List (List Bytes)) (sel H n first crop : Int) (hn : n = items.length)
    (hitems : ∀ it ∈ items, ∀ seg ∈ it, NoCtlNL seg) (hwin : WinOK items first crop) (k : Nat) :
    ∀ (i : Int) (all : List (List Bytes)) (sf st : Int) (hc : Bool), first ≤ i → (all.length : Int) ≤ H →
      RowsNoCtl all →
    ∃ r, listBoxVertical.go items sel H n first crop i all sf st hc k = .ok r ∧
      (r.2.1.length : Int) ≤ H ∧ RowsNoCtl r.2.1 := by
  induction k with
  | zero => intro i all sf st hc _ h1 h2; exact ⟨_, rfl, h1, h2⟩
  | succ k ih =>
    intro i all sf st hc hi h1 h2
    simp only [listBoxVertical.go]
    by_cases hcond : i < n ∧ (all.length : Int) < H
    · have hc' : (decide (i < n) && decide ((all.length : Int) < H)) = true := by simp [hcond.1, hcond.2]
      rw [if_pos hc']
      obtain ⟨item, hitem, hmem⟩ := index_ok items i (by have := hwin.1; omega) (by omega)
      simp only [bind, Res.bind, hitem, pure]
      have hso := splitLinesSegs_ok item (hitems item hmem)
      have tail : ∀ (lines1 : List (List Bytes)) (X Y : Int) (Z : Bool), RowsNoCtl lines1 →
          ∃ r, (if decide ((all.length : Int) + (lines1.length : Int) > H) = true then
              Res.bind (slice lines1 0 (H - (all.length : Int)))
                (fun a_1 => listBoxVertical.go items sel H n first crop (i + 1) (all ++ a_1) X Y Z k)
            else listBoxVertical.go items sel H n first crop (i + 1) (all ++ lines1) X Y Z k) = Res.ok r ∧
            (r.2.1.length : Int) ≤ H ∧ RowsNoCtl r.2.1 := by
        intro lines1 X Y Z hrows
        by_cases hov : (all.length : Int) + (lines1.length : Int) > H
        · rw [if_pos (decide_eq_true hov)]
          obtain ⟨a, ha, hlen, hsub⟩ := slice_ok lines1 0 (H - (all.length : Int)) (Int.le_refl _) (by omega) (by omega)
          simp only [ha, Res.bind]
          apply ih
          · omega
          · simp only [List.length_append, Int.natCast_add]; omega
          · intro row hrow
            rcases List.mem_append.1 hrow with h | h
            · exact h2 row h
            · exact hrows row (hsub row h)
        · rw [if_neg (by simpa using hov)]
          apply ih
          · omega
          · simp only [List.length_append, Int.natCast_add]; omega
          · intro row hrow
            rcases List.mem_append.1 hrow with h | h
            · exact h2 row h
            · exact hrows row h
      by_cases hif : i = first
      · rw [if_pos hif]
        have hcrop := hwin.2.2.2 item (by rw [← hif]; exact hitem)
        obtain ⟨a, ha, _, hsub⟩ := slice_ok (splitLinesSegs item) crop (splitLinesSegs item).length hwin.2.2.1
          (by omega) (Int.le_refl _)
        simp only [ha]
        generalize (if i = sel then ((all.length : Int), (all.length : Int) + (a.length : Int)) else (sf, st)) = P
        generalize (hc || decide ((all.length : Int) + (a.length : Int) > H)) = Z
        have t := tail a P.1 P.2 Z (fun row hrow => hso.1 row (hsub row hrow))
        simp only [Res.bind] at t
        exact t
      · rw [if_neg hif]
        generalize (if i = sel then ((all.length : Int), (all.length : Int) + ((splitLinesSegs item).length : Int)) else (sf, st)) = P
        generalize (hc || decide ((all.length : Int) + ((splitLinesSegs item).length : Int) > H)) = Z
        have t := tail _ P.1 P.2 Z hso.1
        simp only [Res.bind] at t
        exact t
    · have hc' : (decide (i < n) && decide ((all.length : Int) < H)) = false := by
        simp only [Bool.and_eq_false_iff, decide_eq_false_iff_not]
        by_cases h1 : i < n
        · right; omega
        · left; exact h1
      rw [hc']
      exact ⟨_, rfl, h1, h2⟩

end C34

namespace C34
open Go C34.Utf8

/-- The vertical list box on items without control characters (newlines allowed). -/
theorem listBoxVertical_fits (wd : Int → Int) (ok : WdOK wd) (items : List (List Bytes)) (sel lastFirst pad : Int)
    (ext : Bool) (W H : Int) (hW : 2 ≤ W) (hH : 1 ≤ H) (hp0 : 0 ≤ pad) (hp1 : pad ≤ 1) (hne : items ≠ [])
    (hitems : ∀ it ∈ items, ∀ seg ∈ it, NoCtlNL seg) :
    ∃ buf, listBoxVertical wd items sel lastFirst pad ext W H = .ok buf ∧ (buf.lines.length : Int) ≤ H ∧
      ∀ l ∈ buf.lines, lineWidth wd l ≤ W := by
  have hlen : 0 < items.length := List.length_pos_iff.2 hne
  obtain ⟨f, c, hwin, hw⟩ := getVerticalWindow_ok items sel lastFirst H hlen
  obtain ⟨r, hr, hrl, hrn⟩ := vgo_ok items sel H items.length f c rfl hitems hw (items.length + 1) f [] 0 0
    (decide (c > 0)) (Int.le_refl _) (by simp only [List.length_nil]; omega) (by intro row h; simp at h)
  obtain ⟨i', all', sf', st', hc'⟩ := r
  unfold listBoxVertical
  simp only [bind, Res.bind, pure, hwin, hr]
  simp only at hrl hrn
  split
  · obtain ⟨buf, hb, bw, bl, bf⟩ := croppedLinesRender_ok wd ok all' pad sf' st' ext (W - 1) (by omega) hp0 (by omega) hrn
    obtain ⟨sb, hsb, sw, slen, sfit⟩ := vscrollbarRender_ok wd ok H hH
    obtain ⟨res, hres, _, rlen, rfit⟩ := extendRight_ok wd ok buf sb 1 false (by rw [bw]; omega) (by omega)
      (by rw [bw]; exact bf) sfit
    simp only [hb, hsb, hres]
    refine ⟨_, rfl, ?_, ?_⟩
    · rw [rlen, bl]; omega
    · intro l hl; have := rfit l hl; rw [bw] at this; omega
  · obtain ⟨buf, hb, bw, bl, bf⟩ := croppedLinesRender_ok wd ok all' pad sf' st' ext W (by omega) hp0 (by omega) hrn
    exact ⟨_, hb, by rw [bl]; omega, bf⟩

end C34
