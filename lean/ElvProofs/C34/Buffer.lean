/-
Helper lemmas for C34, part 3: the `BufferBuilder` invariant ("every line fits"),
`Label` and `CodeArea`.
-/
import ElvModel.C34.Buffer
import ElvProofs.C34.Utf8
import ElvProofs.C34.Trim
namespace C34
open Go C34.Utf8

/-- What the widget theorems need from the rune width function; `OfRune []`
(no overrides) satisfies it (`C34_ofRune_range`). -/
structure WdOK (wd : Int → Int) : Prop where
  nonneg : ∀ r, 0 ≤ wd r
  le2 : ∀ r, wd r ≤ 2
  ascii : ∀ r, 0x20 ≤ r → r < 0x7f → wd r = 1

theorem runes_valid (s : Bytes) : ∀ x ∈ runes s, validRune x.2.1 = true := by
  generalize hn : s.length = n
  induction n using Nat.strongRecOn generalizing s with
  | _ n ih =>
    intro x hx
    cases s with
    | nil => simp [runes_nil] at hx
    | cons b t =>
      rw [runes_cons _ (by simp)] at hx
      have hp := decodeRune_size_pos (b :: t) (by simp)
      have hl := decodeRune_size_le (b :: t)
      rcases List.mem_cons.1 hx with h | h
      · subst h; exact decodeRune_valid _
      · rcases List.mem_map.1 h with ⟨y, hy, rfl⟩
        exact ih ((b :: t).drop (decodeRune (b :: t)).2).length
          (by simp only [List.length_drop]; omega) _ rfl y hy

theorem toRunes_valid (s : Bytes) : ∀ r ∈ toRunes s, validRune r = true := by
  intro r hr
  unfold toRunes at hr
  obtain ⟨x, hx, rfl⟩ := List.mem_map.1 hr
  exact runes_valid s x hx

/-- `string(r)` decodes to the single rune `r`. -/
theorem runes_encodeRune (r : Nat) (h : validRune r = true) :
    runes (encodeRune r) = [(0, r, (encodeRune r).length)] := by
  have hd := decodeRune_encodeRune r [] h
  rw [List.append_nil] at hd
  rw [runes_cons _ (encodeRune_ne_nil r), hd]
  simp [runes_nil]

theorem Of_encodeRune (wd : Int → Int) (r : Nat) (h : validRune r = true) :
    Of wd (encodeRune r) = wd (r : Int) := by
  rw [Of_eq_sumW, runes_encodeRune r h]; simp [sumW]

theorem xor40_small : ∀ r : Nat, r < 32 → r ^^^ 0x40 = r + 0x40 := by decide

theorem Of_two_ascii (wd : Int → Int) (a b : Nat) (ha : a < 0x80) (hb : b < 0x80) :
    Of wd [UInt8.ofNat a, UInt8.ofNat b] = wd (a : Int) + wd (b : Int) := by
  have ea : (UInt8.ofNat a).toNat = a := by simp [UInt8.toNat_ofNat']; omega
  have eb : (UInt8.ofNat b).toNat = b := by simp [UInt8.toNat_ofNat']; omega
  rw [Of_eq_sumW, runes_cons _ (by simp)]
  have h1 : decodeRune [UInt8.ofNat a, UInt8.ofNat b] = (a, 1) := by
    simp only [decodeRune, ea]; rw [if_pos ha]
  rw [h1]
  simp only [List.drop_succ_cons, List.drop_zero]
  rw [runes_cons _ (by simp)]
  have h2 : decodeRune [UInt8.ofNat b] = (b, 1) := by
    simp only [decodeRune, eb]; rw [if_pos hb]
  rw [h2]
  simp [runes_nil, sumW, shift]

/-- A cell is 0, 1 or 2 columns wide. -/
theorem cellOf_width (wd : Int → Int) (ok : WdOK wd) (r : Nat) (h : validRune r = true) :
    0 ≤ Of wd (cellOf r) ∧ Of wd (cellOf r) ≤ 2 := by
  unfold cellOf
  by_cases hc : r < 0x20
  · have hx := xor40_small r hc
    have he : encodeRune (r ^^^ 0x40) = [UInt8.ofNat (r + 0x40)] := by
      rw [hx]; unfold encodeRune; rw [if_pos (show r + 0x40 < 0x80 by omega)]
    have : (r < 0x20 || r == 0x7f) = true := by simp [hc]
    rw [if_pos this, he]
    have h5e : (0x5E : UInt8) = UInt8.ofNat 0x5E := rfl
    rw [h5e, Of_two_ascii wd 0x5E (r + 0x40) (by omega) (by omega)]
    have a := ok.ascii 0x5E (by omega) (by omega)
    have b := ok.ascii ((r + 0x40 : Nat) : Int) (by omega) (by omega)
    have : ((0x5E : Nat) : Int) = 0x5E := rfl
    rw [this, a, b]; omega
  · by_cases hd : r = 0x7f
    · subst hd
      have : ((0x7f : Nat) < 0x20 || (0x7f : Nat) == 0x7f) = true := by decide
      rw [if_pos this]
      have he : encodeRune (0x7f ^^^ 0x40) = [UInt8.ofNat 0x3f] := by decide
      have h5e : (0x5E : UInt8) = UInt8.ofNat 0x5E := rfl
      rw [he, h5e, Of_two_ascii wd 0x5E 0x3f (by omega) (by omega)]
      have a := ok.ascii 0x5E (by omega) (by omega)
      have b := ok.ascii 0x3f (by omega) (by omega)
      have e1 : ((0x5E : Nat) : Int) = 0x5E := rfl
      have e2 : ((0x3f : Nat) : Int) = 0x3f := rfl
      rw [e1, e2, a, b]; omega
    · have : (r < 0x20 || r == 0x7f) = false := by simp [hc, hd]
      rw [if_neg (by simp [this])]
      rw [Of_encodeRune wd r h]
      exact ⟨ok.nonneg _, ok.le2 _⟩

theorem Of_space (wd : Int → Int) (ok : WdOK wd) : Of wd [0x20] = 1 := by
  have : ([0x20] : Bytes) = encodeRune 0x20 := by decide
  rw [this, Of_encodeRune wd 0x20 (by decide)]
  exact ok.ascii 0x20 (by omega) (by omega)

theorem lineWidth_append (wd : Int → Int) (a b : List Bytes) :
    lineWidth wd (a ++ b) = lineWidth wd a + lineWidth wd b := by simp [lineWidth]

/-! ### the invariant -/

/-- Every line built so far fits in the width; `col` is the width of the last line. -/
structure Inv (wd : Int → Int) (b : BB) : Prop where
  wpos : 2 ≤ b.width
  ind : b.indent + 2 ≤ b.width
  col : b.col = lineWidth wd b.cur.reverse
  curfit : b.col ≤ b.width
  colnn : 0 ≤ b.col
  prevfit : ∀ l ∈ b.prev, lineWidth wd l ≤ b.width
  dotlo : 0 ≤ b.dot.1
  dothi : b.dot.1 ≤ b.prev.length

theorem Inv.appendCell {wd : Int → Int} {b : BB} (h : Inv wd b) (c : Bytes)
    (hc0 : 0 ≤ Of wd c) (hfit : b.col + Of wd c ≤ b.width) : Inv wd (b.appendCell wd c) := by
  refine ⟨h.wpos, h.ind, ?_, hfit, ?_, h.prevfit, h.dotlo, h.dothi⟩
  · simp only [BB.appendCell, List.reverse_cons, lineWidth_append, h.col]
    simp [lineWidth]
  · simp only [BB.appendCell]; have := h.colnn; omega

theorem Inv.appendSpaces {wd : Int → Int} (ok : WdOK wd) {b : BB} (h : Inv wd b) (n : Nat)
    (hfit : b.col + n ≤ b.width) :
    Inv wd (b.appendSpaces wd n) ∧ (b.appendSpaces wd n).col = b.col + n ∧
      (b.appendSpaces wd n).prev = b.prev ∧ (b.appendSpaces wd n).width = b.width ∧
      (b.appendSpaces wd n).indent = b.indent ∧ (b.appendSpaces wd n).eager = b.eager := by
  induction n generalizing b with
  | zero => simp [BB.appendSpaces]; exact h
  | succ n ih =>
    simp only [BB.appendSpaces]
    have hs := Of_space wd ok
    have h1 : Inv wd (b.appendCell wd [0x20]) := h.appendCell _ (by omega) (by omega)
    have hc : (b.appendCell wd [0x20]).col = b.col + 1 := by simp [BB.appendCell, hs]
    obtain ⟨i1, i2, i3, i4, i5, i6⟩ := ih h1 (by rw [hc]; simp only [BB.appendCell]; omega)
    refine ⟨i1, ?_, ?_, ?_, ?_, ?_⟩
    · rw [i2, hc]; omega
    · rw [i3]; rfl
    · rw [i4]; rfl
    · rw [i5]; rfl
    · rw [i6]; rfl

/-- After `Newline` there is room for a two-column cell. -/
theorem Inv.newline {wd : Int → Int} (ok : WdOK wd) {b : BB} (h : Inv wd b) :
    Inv wd (b.newline wd) ∧ (b.newline wd).col + 2 ≤ (b.newline wd).width ∧
      (b.newline wd).width = b.width ∧ (b.newline wd).indent = b.indent ∧
      (b.newline wd).eager = b.eager := by
  have hl : Inv wd b.appendLine := by
    refine ⟨h.wpos, h.ind, by simp [BB.appendLine, lineWidth], ?_, by simp [BB.appendLine], ?_, h.dotlo, ?_⟩
    · simp only [BB.appendLine]; have := h.wpos; omega
    · intro l hl
      simp only [BB.appendLine] at hl
      rcases List.mem_cons.1 hl with rfl | hl
      · rw [← h.col]; exact h.curfit
      · exact h.prevfit l hl
    · simp only [BB.appendLine, List.length_cons]; have := h.dothi; omega
  unfold BB.newline
  simp only
  by_cases hi : b.appendLine.indent > 0
  · rw [if_pos hi]
    have hind := h.ind
    have e : b.appendLine.indent = b.indent := rfl
    have ew : b.appendLine.width = b.width := rfl
    have ec : b.appendLine.col = 0 := rfl
    obtain ⟨i1, i2, _, i4, i5, i6⟩ := hl.appendSpaces ok b.appendLine.indent.toNat
      (by rw [ec, ew, e]; have := Int.toNat_of_nonneg (show 0 ≤ b.indent by omega); omega)
    refine ⟨i1, ?_, i4.trans rfl, i5.trans rfl, i6.trans rfl⟩
    rw [i2, i4, ec, ew, e]
    have := Int.toNat_of_nonneg (show 0 ≤ b.indent by omega); omega
  · rw [if_neg hi]
    refine ⟨hl, ?_, rfl, rfl, rfl⟩
    simp only [BB.appendLine]; have := h.wpos; omega

theorem Inv.writeRune {wd : Int → Int} (ok : WdOK wd) {b : BB} (h : Inv wd b) (r : Nat)
    (hr : validRune r = true) :
    Inv wd (b.writeRune wd r) ∧ (b.writeRune wd r).width = b.width ∧
      (b.writeRune wd r).indent = b.indent ∧ (b.writeRune wd r).eager = b.eager := by
  unfold BB.writeRune
  by_cases h10 : r = 10
  · rw [if_pos h10]
    obtain ⟨a, _, c, d, e⟩ := h.newline ok
    exact ⟨a, c, d, e⟩
  · rw [if_neg h10]
    simp only
    obtain ⟨c0, c2⟩ := cellOf_width wd ok r hr
    by_cases hw : b.col + Of wd (cellOf r) > b.width
    · rw [if_pos hw]
      obtain ⟨a, fit, c, d, e⟩ := h.newline ok
      exact ⟨a.appendCell _ c0 (by omega), c, d, e⟩
    · rw [if_neg hw]
      have h1 : Inv wd (b.appendCell wd (cellOf r)) := h.appendCell _ c0 (by omega)
      split
      · obtain ⟨a, _, c, d, e⟩ := h1.newline ok
        exact ⟨a, c, d, e⟩
      · exact ⟨h1, rfl, rfl, rfl⟩

theorem Inv.foldRunes {wd : Int → Int} (ok : WdOK wd) (rs : List Nat) (hrs : ∀ r ∈ rs, validRune r = true)
    {b : BB} (h : Inv wd b) :
    Inv wd (rs.foldl (BB.writeRune wd) b) ∧ (rs.foldl (BB.writeRune wd) b).width = b.width ∧
      (rs.foldl (BB.writeRune wd) b).indent = b.indent ∧ (rs.foldl (BB.writeRune wd) b).eager = b.eager := by
  induction rs generalizing b with
  | nil => exact ⟨h, rfl, rfl, rfl⟩
  | cons r rs ih =>
    simp only [List.foldl_cons]
    obtain ⟨a, c, d, e⟩ := h.writeRune ok r (hrs r List.mem_cons_self)
    obtain ⟨a', c', d', e'⟩ := ih (fun x hx => hrs x (List.mem_cons_of_mem _ hx)) a
    exact ⟨a', by rw [c', c], by rw [d', d], by rw [e', e]⟩

theorem Inv.writeString {wd : Int → Int} (ok : WdOK wd) {b : BB} (h : Inv wd b) (s : Bytes) :
    Inv wd (b.writeString wd s) ∧ (b.writeString wd s).width = b.width ∧
      (b.writeString wd s).indent = b.indent ∧ (b.writeString wd s).eager = b.eager :=
  h.foldRunes ok (toRunes s) (toRunes_valid s)

theorem Inv.writeSegs {wd : Int → Int} (ok : WdOK wd) {b : BB} (h : Inv wd b) (segs : List Bytes) :
    Inv wd (b.writeSegs wd segs) ∧ (b.writeSegs wd segs).width = b.width ∧
      (b.writeSegs wd segs).indent = b.indent ∧ (b.writeSegs wd segs).eager = b.eager := by
  unfold BB.writeSegs
  induction segs generalizing b with
  | nil => exact ⟨h, rfl, rfl, rfl⟩
  | cons s segs ih =>
    simp only [List.foldl_cons]
    obtain ⟨a, c, d, e⟩ := h.writeString ok s
    obtain ⟨a', c', d', e'⟩ := ih a
    exact ⟨a', by rw [c', c], by rw [d', d], by rw [e', e]⟩

theorem Inv.new (wd : Int → Int) (w : Int) (hw : 2 ≤ w) :
    ∃ b, newBB w = .ok b ∧ Inv wd b ∧ b.width = w := by
  refine ⟨_, by unfold newBB; rw [if_neg (by omega)], ?_, rfl⟩
  refine ⟨hw, by simp only; omega, by simp [lineWidth], by simp only; omega, by simp, by simp, by simp, by simp⟩

/-- All lines of the buffer of a builder satisfying the invariant fit. -/
theorem Inv.lines_fit {wd : Int → Int} {b : BB} (h : Inv wd b) :
    ∀ l ∈ b.lines, lineWidth wd l ≤ b.width := by
  intro l hl
  simp only [BB.lines, List.mem_reverse, List.mem_cons] at hl
  rcases hl with rfl | hl
  · rw [← h.col]; exact h.curfit
  · exact h.prevfit l hl

theorem BB.lines_length (b : BB) : b.lines.length = b.prev.length + 1 := by
  simp [BB.lines]

/-- `TrimToLines` with in-range bounds keeps a sublist of at most `high - low` lines. -/
theorem trimToLines_ok (b : Buf) (low high : Int) (h0 : 0 ≤ low) (hlh : low ≤ high ∨ low ≤ b.lines.length)
    (hlow : low ≤ b.lines.length) (hh : low ≤ high) :
    ∃ b', b.trimToLines low high = .ok b' ∧ b'.width = b.width ∧
      (b'.lines.length : Int) ≤ high - low ∧ ∀ l ∈ b'.lines, l ∈ b.lines := by
  unfold Buf.trimToLines
  simp only [bind, Res.bind, pure]
  rw [if_neg (by omega)]
  unfold slice
  by_cases hc : high > b.lines.length
  · simp only [hc, ↓reduceIte]
    rw [if_pos ⟨h0, hlow, Int.le_refl _⟩]
    refine ⟨_, rfl, rfl, ?_, ?_⟩
    · simp only [List.length_take, List.length_drop]; omega
    · intro l hl; exact List.mem_of_mem_drop (List.mem_of_mem_take hl)
  · simp only [hc, ↓reduceIte]
    rw [if_pos ⟨h0, hh, by omega⟩]
    refine ⟨_, rfl, rfl, ?_, ?_⟩
    · simp only [List.length_take, List.length_drop]; omega
    · intro l hl; exact List.mem_of_mem_drop (List.mem_of_mem_take hl)

end C34

namespace C34
open Go C34.Utf8

/-! ### `renderView` step by step -/

theorem Inv.setFlags {wd : Int → Int} {b : BB} (h : Inv wd b) (e : Bool) (k : Int) (hk : k + 2 ≤ b.width) :
    Inv wd { b with eager := e, indent := k } :=
  ⟨h.wpos, hk, h.col, h.curfit, h.colnn, h.prevfit, h.dotlo, h.dothi⟩

theorem rvPrompt_inv {wd : Int → Int} (ok : WdOK wd) (prompt : List Bytes) {b : BB} (h : Inv wd b) :
    Inv wd (rvPrompt wd prompt b) ∧ (rvPrompt wd prompt b).width = b.width := by
  unfold rvPrompt
  have e0 : Inv wd { b with eager := true } :=
    ⟨h.wpos, h.ind, h.col, h.curfit, h.colnn, h.prevfit, h.dotlo, h.dothi⟩
  obtain ⟨i1, w1, _, _⟩ := e0.writeSegs ok prompt
  simp only
  split
  · rename_i hc
    simp only [Bool.and_eq_true, decide_eq_true_eq] at hc
    have := i1.wpos
    exact ⟨⟨i1.wpos, by simp only; omega, i1.col, i1.curfit, i1.colnn, i1.prevfit, i1.dotlo, i1.dothi⟩, w1⟩
  · exact ⟨i1, w1⟩

theorem rvCode_inv {wd : Int → Int} (ok : WdOK wd) (before after : List Bytes) {b : BB} (h : Inv wd b) :
    Inv wd (rvCode wd before after b) ∧ (rvCode wd before after b).width = b.width := by
  unfold rvCode
  obtain ⟨i3, w3, _, _⟩ := h.writeSegs ok before
  have i4 : Inv wd (b.writeSegs wd before).setDotHere :=
    ⟨i3.wpos, i3.ind, i3.col, i3.curfit, i3.colnn, i3.prevfit, by simp [BB.setDotHere, BB.cursor],
      by simp [BB.setDotHere, BB.cursor]⟩
  obtain ⟨i5, w5, _, _⟩ := i4.writeSegs ok after
  exact ⟨i5, by rw [w5]; exact w3⟩

theorem rvRPrompt_inv {wd : Int → Int} (ok : WdOK wd) (rprompt : List Bytes) {b : BB} (h : Inv wd b) :
    ∃ b', rvRPrompt wd rprompt b = .ok b' ∧ Inv wd b' ∧ b'.width = b.width := by
  unfold rvRPrompt
  have i6 : Inv wd { b with eager := false, indent := 0 } :=
    h.setFlags false 0 (by have := h.wpos; omega)
  simp only
  split
  · split
    · rename_i hp
      unfold repeatSpace
      rw [if_neg (by omega)]
      simp only
      obtain ⟨j1, v1, _, _⟩ := i6.writeString ok (List.replicate (b.width - b.col - segsWidth wd rprompt).toNat 0x20)
      obtain ⟨j2, v2, _, _⟩ := j1.writeSegs ok rprompt
      exact ⟨_, rfl, j2, v2.trans v1⟩
    · exact ⟨_, rfl, i6, rfl⟩
  · exact ⟨_, rfl, i6, rfl⟩

theorem rvTips_inv {wd : Int → Int} (ok : WdOK wd) (tips : List (List Bytes)) {b : BB} (h : Inv wd b) :
    Inv wd (rvTips wd tips b) ∧ (rvTips wd tips b).width = b.width := by
  unfold rvTips
  induction tips generalizing b with
  | nil => exact ⟨h, rfl⟩
  | cons t ts ih =>
    simp only [List.foldl_cons]
    obtain ⟨n1, _, nw, _, _⟩ := h.newline ok
    obtain ⟨n2, nw2, _, _⟩ := n1.writeSegs ok t
    obtain ⟨a, b'⟩ := ih n2
    exact ⟨a, by rw [b', nw2, nw]⟩

theorem renderView_inv {wd : Int → Int} (ok : WdOK wd) (prompt before after rprompt : List Bytes)
    (tips : List (List Bytes)) {b : BB} (h : Inv wd b) :
    ∃ b', renderView wd prompt before after rprompt tips b = .ok b' ∧ Inv wd b' ∧ b'.width = b.width := by
  unfold renderView
  obtain ⟨i1, w1⟩ := rvPrompt_inv ok prompt h
  obtain ⟨i2, w2⟩ := rvCode_inv ok before after i1
  obtain ⟨b3, h3, i3, w3⟩ := rvRPrompt_inv ok rprompt i2
  obtain ⟨i4, w4⟩ := rvTips_inv ok tips i3
  rw [h3]
  exact ⟨_, rfl, i4, by rw [w4, w3, w2, w1]⟩

end C34
