/-
Helper lemmas for C34, part 11 (round 2): `TrimEachLine` — `strings.Split`/`strings.Join`
on "\n" are inverse on newline-free lines, and `Trim` keeps a line newline-free.
-/
import ElvProofs.C34.Trim
namespace C34
open Go C34.Utf8

/-- No newline byte. -/
def NoNL (s : Bytes) : Prop := ∀ b ∈ s, b ≠ 10

theorem splitNL_nonl (s : Bytes) : ∀ p ∈ splitNL s, NoNL p := by
  induction s with
  | nil => intro p hp; simp [splitNL] at hp; rw [hp]; intro b hb; simp at hb
  | cons b rest ih =>
    intro p hp
    simp only [splitNL] at hp
    by_cases hb : b = 10
    · rw [if_pos hb] at hp
      rcases List.mem_cons.1 hp with rfl | hp
      · intro x hx; simp at hx
      · exact ih p hp
    · rw [if_neg hb] at hp
      cases hs : splitNL rest with
      | nil =>
        rw [hs] at hp
        simp only [List.mem_singleton] at hp
        rw [hp]; intro x hx; simp only [List.mem_singleton] at hx; rw [hx]; exact hb
      | cons l ls =>
        rw [hs] at hp ih
        rcases List.mem_cons.1 hp with rfl | hp
        · intro x hx
          rcases List.mem_cons.1 hx with rfl | hx
          · exact hb
          · exact ih l List.mem_cons_self x hx
        · exact ih p (List.mem_cons_of_mem _ hp)

theorem splitNL_of_nonl (l : Bytes) (h : NoNL l) : splitNL l = [l] := by
  induction l with
  | nil => rfl
  | cons b l ih =>
    simp only [splitNL]
    rw [if_neg (h b List.mem_cons_self), ih (fun x hx => h x (List.mem_cons_of_mem _ hx))]

theorem splitNL_append_nl (l rest : Bytes) (h : NoNL l) : splitNL (l ++ 10 :: rest) = l :: splitNL rest := by
  induction l with
  | nil => simp [splitNL]
  | cons b l ih =>
    simp only [List.cons_append, splitNL]
    rw [if_neg (h b List.mem_cons_self), ih (fun x hx => h x (List.mem_cons_of_mem _ hx))]

theorem splitNL_joinNL (ls : List Bytes) (hne : ls ≠ []) (h : ∀ l ∈ ls, NoNL l) : splitNL (joinNL ls) = ls := by
  induction ls with
  | nil => exact absurd rfl hne
  | cons l ls ih =>
    cases ls with
    | nil => simp only [joinNL]; exact splitNL_of_nonl l (h l List.mem_cons_self)
    | cons l2 ls2 =>
      simp only [joinNL]
      rw [splitNL_append_nl l _ (h l List.mem_cons_self),
        ih (by simp) (fun x hx => h x (List.mem_cons_of_mem _ hx))]

theorem Trim_nonl (wd : Int → Int) (s : Bytes) (w : Int) (h : NoNL s) : NoNL (Trim wd s w) := by
  unfold Trim
  split
  · exact fun b hb => h b (List.mem_of_mem_take hb)
  · exact h

/-- `TrimEachLine` trims line by line: the lines of the result are the `Trim`s of the lines of the input. -/
theorem trimEachLine_lines (wd : Int → Int) (s : Bytes) (w : Int) :
    splitNL (TrimEachLine wd s w) = (splitNL s).map fun l => Trim wd l w := by
  unfold TrimEachLine
  apply splitNL_joinNL
  · intro h
    have := splitNL_ne_nil s
    exact this (List.map_eq_nil_iff.1 h)
  · intro l hl
    obtain ⟨l0, h0, rfl⟩ := List.mem_map.1 hl
    exact Trim_nonl wd l0 w (splitNL_nonl s l0 h0)

end C34
