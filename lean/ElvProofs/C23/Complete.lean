/-
C23 helper lemmas, part 2: completeness of greedy chunk matching on `greedyOK`.

Positions in the name are counted in rune steps (`iter`).  With valid UTF-8
literals every position the matcher or a declarative match visits lies on the
one decoding grid of the name, a fixed-length run always advances `gridLen`
steps, and so a greedy (leftmost) choice for a chunk leaves the rest of a
valid match reachable — provided the next star may swallow the difference
(it carries no matcher) .
-/
import ElvProofs.C23.Elem
namespace C23
open Go

/-! ## Fixed-length runs -/

theorem matches_nil_inv {s : Bytes} (h : Matches [] s) : s = [] := by
  cases h; rfl

/-- a fixed-length run at the head of a valid match is found by `matchFixedLength` -/
theorem mFL_complete : ∀ (F R : List Seg) (s : Bytes), fixedOK F = true → Matches (F ++ R) s →
    matchFixedLength F s = .ok (some (iter (gridLen F) s)) ∧ Matches R (iter (gridLen F) s) := by
  intro F
  induction F with
  | nil => intro R s _ h; simpa [matchFixedLength, gridLen, iter] using h
  | cons seg F ih =>
    intro R s hF h
    cases seg with
    | slash => simp [fixedOK] at hF
    | lit d =>
      simp [fixedOK] at hF
      obtain ⟨⟨hdne, hdv⟩, hF'⟩ := hF
      cases h with
      | lit hm =>
        next s' =>
        obtain ⟨h1, h2⟩ := ih R s' hF' hm
        have hne : d ++ s' ≠ [] := by simp [hdne]
        have hit : iter (gridLen (.lit d :: F)) (d ++ s') = iter (gridLen F) s' := by
          simp only [gridLen]; rw [iter_add, iter_valid_append hdv]
        rw [hit]
        refine ⟨?_, h2⟩
        unfold matchFixedLength
        simp [hne, h1]
    | wild w =>
      simp [fixedOK] at hF
      obtain ⟨hq, hF'⟩ := hF
      cases h with
      | skip hnq _ => exact absurd hq hnq
      | step hnq _ _ => exact absurd hq hnq
      | question _ hstep hm =>
        obtain ⟨hne, hn, hacc, _⟩ := hstep
        subst hn
        obtain ⟨h1, h2⟩ := ih R _ hF' hm
        have hit : iter (gridLen (.wild w :: F)) s = iter (gridLen F) (s.drop (decodeRune s).2) := by
          simp only [gridLen]; rw [Nat.add_comm, iter]; rfl
        rw [hit]
        refine ⟨?_, h2⟩
        unfold matchFixedLength
        simp [hne, hq, hacc, h1]

/-- whatever `matchFixedLength` returns for a well-formed run is `gridLen` steps on -/
theorem mFL_grid : ∀ (F : List Seg) (s rest : Bytes), fixedOK F = true →
    matchFixedLength F s = .ok (some rest) → rest = iter (gridLen F) s := by
  intro F
  induction F with
  | nil => intro s rest _ h; simp [matchFixedLength] at h; simp [gridLen, iter, h]
  | cons seg F ih =>
    intro s rest hF h
    unfold matchFixedLength at h
    split at h
    · simp at h
    · next hne =>
      cases seg with
      | slash => simp [fixedOK] at hF
      | lit d =>
        simp [fixedOK] at hF
        obtain ⟨⟨_, hdv⟩, hF'⟩ := hF
        simp only at h
        split at h
        · next hc =>
          have hsd : s = d ++ s.drop d.length := by
            conv => lhs; rw [← List.take_append_drop d.length s, hc.2]
          have := ih _ _ hF' h
          rw [this]
          simp only [gridLen]
          rw [iter_add]
          conv => rhs; rw [hsd, iter_valid_append hdv]
        · simp at h
      | wild w =>
        simp [fixedOK] at hF
        simp only at h
        split at h
        · split at h
          · have := ih _ _ hF.2 h
            rw [this]; simp only [gridLen]; rw [Nat.add_comm, iter]; rfl
          · simp at h
        · simp at h

/-- no panic, no error on a well-formed run -/
theorem mFL_total : ∀ (F : List Seg) (s : Bytes), fixedOK F = true →
    ∃ r, matchFixedLength F s = .ok r := by
  intro F
  induction F with
  | nil => intro s _; exact ⟨_, rfl⟩
  | cons seg F ih =>
    intro s hF
    unfold matchFixedLength
    split
    · exact ⟨_, rfl⟩
    · cases seg with
      | slash => simp [fixedOK] at hF
      | lit d =>
        simp [fixedOK] at hF
        simp only
        split
        · exact ih _ hF.2
        · exact ⟨_, rfl⟩
      | wild w =>
        simp [fixedOK] at hF
        simp only [hF.1, if_true]
        split
        · exact ih _ hF.2
        · exact ⟨_, rfl⟩

/-! ## Stars -/

/-- a star at the head of a valid match swallows `k` accepted runes -/
theorem star_unfold {segs : List Seg} {t : Bytes} (h : Matches segs t) :
    ∀ w X, segs = .wild w :: X → w.type ≠ .question →
    ∃ k, (∀ j, j < k → iter j t ≠ [] ∧ w.accepts (decodeRune (iter j t)).1 = true) ∧
      Matches X (iter k t) := by
  induction h with
  | nil => intro w X e; cases e
  | lit _ _ => intro w X e; cases e
  | question hq _ _ _ => intro w X e hw; cases e; exact absurd hq hw
  | skip _ hm _ =>
    intro w X e _; cases e
    exact ⟨0, fun j hj => absurd hj (Nat.not_lt_zero _), hm⟩
  | step _ hs _ ih =>
    intro w X e hw; cases e
    obtain ⟨hne, hn, hacc, _⟩ := hs
    subst hn
    obtain ⟨k, hk, hm⟩ := ih _ _ rfl hw
    refine ⟨k + 1, ?_, hm⟩
    intro j hj
    cases j with
    | zero => exact ⟨hne, hacc⟩
    | succ j => exact hk j (by omega)

/-- The loop of `matchElement` finds a position for the chunk at or before the
one a valid match uses (`iter M x`), if the star accepts every rune up to there
and the direct attempt at `x` did not succeed. -/
theorem starLoop_complete (w : Wild) (F : List Seg) (hF : fixedOK F = true) (last : Bool) :
    ∀ (fuel : Nat) (x : Bytes) (M : Nat), x.length ≤ fuel →
    (∀ j, j < M → iter j x ≠ [] → w.accepts (decodeRune (iter j x)).1 = true) →
    (∃ q, matchFixedLength F (iter M x) = .ok (some q) ∧ (q = [] ∨ last = false)) →
    (¬ ∃ q, matchFixedLength F x = .ok (some q) ∧ (q = [] ∨ last = false)) →
    ∃ j rest, 1 ≤ j ∧ j ≤ M ∧ starLoop w F last fuel x = .ok (some rest) ∧
      matchFixedLength F (iter j x) = .ok (some rest) ∧ (rest = [] ∨ last = false) := by
  intro fuel
  induction fuel with
  | zero =>
    intro x M hlen _ hv hnd
    have hx : x = [] := List.length_eq_zero_iff.1 (by omega)
    subst hx
    rw [iter_nil] at hv
    exact absurd hv hnd
  | succ fuel ih =>
    intro x M hlen hacc hv hnd
    cases x with
    | nil => rw [iter_nil] at hv; exact absurd hv hnd
    | cons b t =>
      have hne : (b :: t) ≠ [] := by simp
      have hM : 1 ≤ M := by
        cases M with
        | zero => exact absurd hv hnd
        | succ M => omega
      have hacc0 : w.accepts (decodeRune (b :: t)).1 = true := hacc 0 (by omega) hne
      have hlen' : (stepF (b :: t)).length ≤ fuel := by
        have := stepF_length_lt hne; omega
      -- what the recursive call gives
      have recur : (¬ ∃ q, matchFixedLength F (stepF (b :: t)) = .ok (some q) ∧ (q = [] ∨ last = false)) →
          ∃ j rest, 1 ≤ j ∧ j ≤ M ∧ starLoop w F last fuel (stepF (b :: t)) = .ok (some rest) ∧
            matchFixedLength F (iter j (b :: t)) = .ok (some rest) ∧ (rest = [] ∨ last = false) := by
        intro hnd'
        have hM2 : 2 ≤ M := by
          cases M with
          | zero => omega
          | succ M =>
            cases M with
            | zero => exact absurd hv hnd'
            | succ M => omega
        obtain ⟨M', rfl⟩ : ∃ M', M = M' + 1 := ⟨M - 1, by omega⟩
        obtain ⟨j, rest, hj1, hj2, hl, hm, hc⟩ := ih (stepF (b :: t)) M' hlen'
          (fun j hj => hacc (j + 1) (by omega)) hv hnd'
        exact ⟨j + 1, rest, by omega, by omega, hl, hm, hc⟩
      obtain ⟨r, hr⟩ := mFL_total F (stepF (b :: t)) hF
      simp only [starLoop, hacc0, Bool.not_true, Bool.false_eq_true, if_false]
      change ∃ j rest, 1 ≤ j ∧ j ≤ M ∧
        (match matchFixedLength F (stepF (b :: t)) with
          | Res.ok (some rest) =>
            if rest = [] ∨ last = false then Res.ok (some rest) else starLoop w F last fuel (stepF (b :: t))
          | Res.ok none => starLoop w F last fuel (stepF (b :: t))
          | Res.exc e => Res.exc e
          | Res.panic p => Res.panic p) = Res.ok (some rest) ∧ _
      rw [hr]
      cases r with
      | none =>
        simp only
        exact recur (by rintro ⟨q, hq, _⟩; rw [hr] at hq; cases hq)
      | some rest' =>
        simp only
        by_cases hc : rest' = [] ∨ last = false
        · rw [if_pos hc]
          exact ⟨1, rest', by omega, hM, rfl, hr, hc⟩
        · rw [if_neg hc]
          exact recur (by
            rintro ⟨q, hq, hqc⟩
            rw [hr] at hq
            cases hq
            exact hc hqc)

/-! ## Chunks -/

/-- a chunk made of a star and a well-formed fixed run -/
def starChunk (c : List Seg) : Bool :=
  match c with
  | .wild w :: F => w.type != .question && fixedOK F
  | _ => false

def chunkUnrestricted (c : List Seg) : Bool :=
  match c with
  | .wild w :: _ => w.unrestricted
  | _ => false

theorem accepts_of_unrestricted {w : Wild} (h : w.unrestricted = true) (r : Rune) :
    w.accepts r = true := by
  simp [Wild.unrestricted] at h
  simp [Wild.accepts, h]

/-- One star chunk: if a valid match of the chunk and what follows starts
`M₀` rune steps after `s`, and the star accepts the `M₀` runes in between,
then greedy matching of the chunk at `s` succeeds and the tail is matched by
the induction hypothesis. -/
theorem chunk_complete (w : Wild) (hw : w.type ≠ .question) (F : List Seg) (hF : fixedOK F = true)
    (cs' : List (List Seg)) (s : Bytes) (M₀ : Nat)
    (hacc : ∀ j, j < M₀ → iter j s ≠ [] → w.accepts (decodeRune (iter j s)).1 = true)
    (hv : Matches (.wild w :: (F ++ cs'.flatten)) (iter M₀ s))
    (IH : cs' ≠ [] → ∀ s' m', Matches cs'.flatten (iter m' s') → matchChunks cs' s' = .ok true) :
    matchChunks ((.wild w :: F) :: cs') s = .ok true := by
  obtain ⟨k, hk, hm⟩ := star_unfold hv w _ rfl hw
  rw [← iter_add] at hm
  -- the valid match places the fixed run at `iter M s`
  let M := M₀ + k
  have hacc' : ∀ j, j < M → iter j s ≠ [] → w.accepts (decodeRune (iter j s)).1 = true := by
    intro j hj hne
    by_cases h : j < M₀
    · exact hacc j h hne
    · have : j = M₀ + (j - M₀) := by omega
      rw [this, iter_add]
      exact (hk (j - M₀) (by omega)).2
  obtain ⟨hfix, hrest⟩ := mFL_complete F cs'.flatten (iter M s) hF hm
  have hcond : iter (gridLen F) (iter M s) = [] ∨ cs'.isEmpty = false := by
    cases cs' with
    | nil => left; simpa using matches_nil_inv hrest
    | cons _ _ => right; rfl
  have hvq : ∃ q, matchFixedLength F (iter M s) = .ok (some q) ∧ (q = [] ∨ cs'.isEmpty = false) :=
    ⟨_, hfix, hcond⟩
  -- once the chunk is placed at `iter j s` with `j ≤ M`, the tail follows
  have tail : ∀ j rest, j ≤ M → matchFixedLength F (iter j s) = .ok (some rest) →
      (rest = [] ∨ cs'.isEmpty = false) → matchChunks cs' rest = .ok true := by
    intro j rest hj hmf hc
    have hg := mFL_grid F _ _ hF hmf
    cases cs' with
    | nil =>
      cases hc with
      | inl h => subst h; simp [matchChunks]
      | inr h => simp at h
    | cons c cs'' =>
      apply IH (by simp) rest (M - j)
      have : iter (M - j) rest = iter (gridLen F) (iter M s) := by
        have hjm : j + (M - j) = M := by omega
        rw [hg, iter_comm (M - j) (gridLen F), ← iter_add j (M - j), hjm]
      rw [this]; exact hrest
  have hparts : chunkParts (.wild w :: F) = (some w, F) := by simp [chunkParts, hw]
  unfold matchChunks
  rw [hparts]
  simp only
  obtain ⟨r, hr⟩ := mFL_total F s hF
  by_cases hd : ∃ q, matchFixedLength F s = .ok (some q) ∧ (q = [] ∨ cs'.isEmpty = false)
  · obtain ⟨q, hq, hqc⟩ := hd
    have : tryChunk (some w) F cs'.isEmpty s = .ok (some q) := by
      unfold tryChunk; simp only [hq]; rw [if_pos hqc]
    rw [this]
    exact tail 0 q (by omega) hq hqc
  · obtain ⟨j, rest, _, hjM, hl, hmf, hc⟩ :=
      starLoop_complete w F hF cs'.isEmpty s.length s M (Nat.le_refl _) hacc' hvq hd
    have : tryChunk (some w) F cs'.isEmpty s = .ok (some rest) := by
      unfold tryChunk
      simp only
      rw [hr]
      cases r with
      | none => simp only; exact hl
      | some q =>
        simp only
        rw [if_neg (fun hqc => hd ⟨q, hr, hqc⟩)]
        exact hl
    rw [this]
    exact tail j rest hjM hmf hc

/-- A list of star chunks, all unrestricted except possibly the first when the
valid match starts exactly at `s`. -/
theorem starChunks_complete : ∀ (cs : List (List Seg)),
    (∀ c ∈ cs, starChunk c = true) → (∀ c ∈ cs.tail, chunkUnrestricted c = true) →
    ∀ (s : Bytes) (m : Nat), (m = 0 ∨ ∀ c ∈ cs.head?, chunkUnrestricted c = true) →
    (cs = [] → m = 0) →
    Matches cs.flatten (iter m s) → matchChunks cs s = .ok true := by
  intro cs
  induction cs with
  | nil =>
    intro _ _ s m _ hm0 hv
    have := hm0 rfl; subst this
    have := matches_nil_inv (by simpa [iter] using hv)
    simp [matchChunks, iter] at this ⊢
    exact this
  | cons c cs' ih =>
    intro hsc hun s m hm _ hv
    have hc := hsc c (by simp)
    cases c with
    | nil => simp [starChunk] at hc
    | cons seg F =>
      cases seg with
      | lit _ => simp [starChunk] at hc
      | slash => simp [starChunk] at hc
      | wild w =>
        simp [starChunk] at hc
        obtain ⟨hw, hF⟩ := hc
        apply chunk_complete w hw F hF cs' s m
        · intro j hj hne
          cases hm with
          | inl h0 => omega
          | inr hu =>
            have := hu (Seg.wild w :: F) (by simp)
            simp [chunkUnrestricted] at this
            exact accepts_of_unrestricted this _
        · simpa using hv
        · intro hne s' m' hv'
          apply ih (fun c hc => hsc c (by simp [hc]))
            (fun c hc => hun c (by simp; exact List.mem_of_mem_tail hc)) s' m'
          · right
            intro c hc
            apply hun c
            cases cs' with
            | nil => simp at hc
            | cons a b => simp at hc; simp [hc]
          · intro h; exact absurd h hne
          · exact hv'

/-! ## From the pattern to its chunks -/

def notStar (s : Seg) : Bool := !isStarLike s

theorem chunkify_cons (s : Seg) (t : List Seg) :
    chunkify (s :: t) = (s :: t.takeWhile notStar) :: chunkify (t.dropWhile notStar) := by
  induction t generalizing s with
  | nil => simp [chunkify]
  | cons x t ih =>
    have hx := ih x
    conv => lhs; unfold chunkify
    rw [hx]
    simp only
    by_cases hs : isStarLike x = true
    · have hn : notStar x = false := by simp [notStar, hs]
      simp [startsStar, hs, List.takeWhile_cons, List.dropWhile_cons, hn, hx]
    · have hn : notStar x = true := by simp [notStar, hs]
      simp [startsStar, hs, List.takeWhile_cons, List.dropWhile_cons, hn]

theorem matches_noSlash {segs : List Seg} {s : Bytes} (h : Matches segs s) : NoSlash segs := by
  induction h with
  | nil => intro x hx; cases hx
  | lit _ ih => intro x hx; cases hx with
    | head => rfl
    | tail _ h => exact ih x h
  | question _ _ _ ih => intro x hx; cases hx with
    | head => rfl
    | tail _ h => exact ih x h
  | skip _ _ ih => intro x hx; cases hx with
    | head => rfl
    | tail _ h => exact ih x h
  | step _ _ _ ih => exact ih

theorem greedyOK_mono : ∀ (l : List Seg), greedyOK true l = true → greedyOK false l = true := by
  intro l
  induction l with
  | nil => intro _; rfl
  | cons x l ih =>
    intro h
    cases x with
    | slash => simpa [greedyOK] using h
    | lit d => simp [greedyOK] at h ⊢; exact ⟨h.1, ih h.2⟩
    | wild w =>
      simp only [greedyOK] at h ⊢
      split at h
      · next hq => simp only [hq, if_true]; exact ih h
      · next hq => simp only [hq]; simp at h ⊢; exact h.2

/-- the fixed run after a star, and what is left, inherit `greedyOK` -/
theorem greedyOK_span (sn : Bool) : ∀ (t : List Seg), NoSlash t → greedyOK sn t = true →
    fixedOK (t.takeWhile notStar) = true ∧ greedyOK sn (t.dropWhile notStar) = true := by
  intro t
  induction t with
  | nil => intro _ _; simp [fixedOK, greedyOK]
  | cons x t ih =>
    intro hns h
    have hns' : NoSlash t := fun y hy => hns y (by simp [hy])
    cases x with
    | slash => have := hns .slash (by simp); simp [isSlash] at this
    | lit d =>
      simp [greedyOK] at h
      have hn : notStar (.lit d) = true := by simp [notStar, isStarLike]
      obtain ⟨h1, h2⟩ := ih hns' h.2
      simp [List.takeWhile_cons, List.dropWhile_cons, hn, fixedOK, h.1, h1, h2]
    | wild w =>
      by_cases hq : w.type = .question
      · have hn : notStar (.wild w) = true := by simp [notStar, isStarLike, hq]
        simp [greedyOK, hq] at h
        obtain ⟨h1, h2⟩ := ih hns' h
        simp [List.takeWhile_cons, List.dropWhile_cons, hn, fixedOK, hq, h1, h2]
      · have hn : notStar (.wild w) = false := by simp [notStar, isStarLike, hq]
        simp [List.takeWhile_cons, List.dropWhile_cons, hn, fixedOK]
        exact h

theorem dropWhile_head_star (t : List Seg) :
    t.dropWhile notStar = [] ∨ ∃ w rest, t.dropWhile notStar = .wild w :: rest ∧ w.type ≠ .question := by
  induction t with
  | nil => left; rfl
  | cons x t ih =>
    by_cases hn : notStar x = true
    · simpa [List.dropWhile_cons, hn] using ih
    · right
      cases x with
      | lit d => simp [notStar, isStarLike] at hn
      | slash => simp [notStar, isStarLike] at hn
      | wild w =>
        refine ⟨w, t, ?_, ?_⟩
        · simp [List.dropWhile_cons, hn]
        · simpa [notStar, isStarLike] using hn

theorem mem_head_or_tail {α : Type} {l : List α} {x : α} (h : x ∈ l) : x ∈ l.head? ∨ x ∈ l.tail := by
  cases l with
  | nil => cases h
  | cons a l =>
    cases h with
    | head => left; simp
    | tail _ h => right; exact h

theorem dropWhile_length_le (t : List Seg) : (t.dropWhile notStar).length ≤ t.length := by
  induction t with
  | nil => simp
  | cons x t ih => simp only [List.dropWhile_cons]; split <;> simp <;> omega

theorem noSlash_dropWhile {t : List Seg} (h : NoSlash t) : NoSlash (t.dropWhile notStar) :=
  fun x hx => h x ((List.dropWhile_sublist _).subset hx)

/-- the chunks of a slash-free `greedyOK` pattern that starts with a star -/
theorem chunkify_star : ∀ (n : Nat) (sn : Bool) (w : Wild) (t : List Seg), t.length ≤ n →
    w.type ≠ .question → NoSlash (.wild w :: t) → greedyOK sn (.wild w :: t) = true →
    (∀ c ∈ chunkify (.wild w :: t), starChunk c = true) ∧
    (∀ c ∈ (chunkify (.wild w :: t)).tail, chunkUnrestricted c = true) ∧
    (sn = true → ∀ c ∈ (chunkify (.wild w :: t)).head?, chunkUnrestricted c = true) := by
  intro n
  induction n with
  | zero =>
    intro sn w t hl hw hns h
    have : t = [] := List.length_eq_zero_iff.1 (by omega)
    subst this
    simp [greedyOK, hw] at h
    simp [chunkify, starChunk, hw, fixedOK, chunkUnrestricted]
    intro hsn; simpa [hsn] using h
  | succ n ih =>
    intro sn w t hl hw hns h
    have hns' : NoSlash t := fun y hy => hns y (by simp [hy])
    simp only [greedyOK] at h
    have hq : (w.type == WildType.question) = false := by simp [hw]
    rw [hq] at h
    simp only [Bool.false_eq_true, if_false, Bool.and_eq_true, Bool.or_eq_true, Bool.not_eq_true'] at h
    obtain ⟨hsn, ht⟩ := h
    obtain ⟨hfix, hdrop⟩ := greedyOK_span true t hns' ht
    rw [chunkify_cons]
    have hhead : starChunk (.wild w :: t.takeWhile notStar) = true := by
      simp [starChunk, hw, hfix]
    have hheadU : sn = true → chunkUnrestricted (.wild w :: t.takeWhile notStar) = true := by
      intro hs; simp [chunkUnrestricted]; cases hsn with
      | inl h => rw [hs] at h; cases h
      | inr h => exact h
    rcases dropWhile_head_star t with hnil | ⟨w', rest, hd, hw'⟩
    · rw [hnil]
      simp [chunkify, hhead]
      exact hheadU
    · rw [hd]
      have hlen : rest.length ≤ n := by
        have := dropWhile_length_le t; rw [hd] at this; simp at this; omega
      have hnsd : NoSlash (.wild w' :: rest) := by rw [← hd]; exact noSlash_dropWhile hns'
      have hgd : greedyOK true (.wild w' :: rest) = true := by rw [← hd]; exact hdrop
      obtain ⟨a, b, c⟩ := ih true w' rest hlen hw' hnsd hgd
      refine ⟨?_, ?_, ?_⟩
      · intro x hx
        simp at hx
        cases hx with
        | inl h => rw [h]; exact hhead
        | inr h => exact a x h
      · intro x hx
        simp at hx
        -- every chunk of the rest: its head by `c`, its tail by `b`
        have hcs : ∀ y ∈ chunkify (.wild w' :: rest), chunkUnrestricted y = true := by
          intro y hy
          rcases mem_head_or_tail hy with h | h
          · exact c rfl y h
          · exact b y h
        exact hcs x hx
      · intro hs x hx
        simp at hx
        rw [← hx]; exact hheadU hs

/-- **Completeness of `matchElement` on `greedyOK` patterns.** -/
theorem matchElement_complete {segs : List Seg} {name : Bytes} (hg : greedyOK false segs = true)
    (h : ElemMatches segs name) : matchElement segs name = .ok true := by
  obtain ⟨hh, hm⟩ := h
  have hns := matches_noSlash hm
  unfold matchElement
  cases segs with
  | nil => simp [matches_nil_inv hm]
  | cons s0 t =>
    simp only
    rw [hiddenReject_of_OK hh]
    simp only [Bool.false_eq_true, if_false]
    have hflat := chunkify_flatten (s0 :: t)
    by_cases hs0 : isStarLike s0 = true
    · -- the pattern starts with a star: all chunks are star chunks
      cases s0 with
      | lit _ => simp [isStarLike] at hs0
      | slash => simp [isStarLike] at hs0
      | wild w =>
        have hw : w.type ≠ .question := by simpa [isStarLike] using hs0
        obtain ⟨a, b, _⟩ := chunkify_star t.length false w t (Nat.le_refl _) hw hns hg
        apply starChunks_complete _ a b name 0 (Or.inl rfl)
        · intro _; rfl
        · rw [hflat]; exact hm
    · -- a fixed first chunk, then star chunks
      have hns' : NoSlash t := fun y hy => hns y (by simp [hy])
      have hgt : greedyOK false t = true ∧ fixedOK [s0] = true := by
        cases s0 with
        | slash => have := hns .slash (by simp); simp [isSlash] at this
        | lit d => simp [greedyOK] at hg; simp [fixedOK, hg.1, hg.2]
        | wild w =>
          have hq : w.type = .question := by
            simp [isStarLike] at hs0; exact hs0
          simp [greedyOK, hq] at hg; simp [fixedOK, hq, hg]
      obtain ⟨hfix, hdrop⟩ := greedyOK_span false t hns' hgt.1
      have hF : fixedOK (s0 :: t.takeWhile notStar) = true := by
        have := hgt.2
        cases s0 with
        | slash => simp [fixedOK] at this
        | lit d => simp [fixedOK] at this ⊢; exact ⟨this, hfix⟩
        | wild w => simp [fixedOK] at this ⊢; exact ⟨this, hfix⟩
      have hparts : chunkParts (s0 :: t.takeWhile notStar) = (none, s0 :: t.takeWhile notStar) := by
        cases s0 with
        | slash => rfl
        | lit d => rfl
        | wild w =>
          have hq : w.type = .question := by simp [isStarLike] at hs0; exact hs0
          simp [chunkParts, hq]
      rw [chunkify_cons] at hflat ⊢
      have hm' : Matches ((s0 :: t.takeWhile notStar) ++ (chunkify (t.dropWhile notStar)).flatten) name := by
        have : (s0 :: t.takeWhile notStar) ++ (chunkify (t.dropWhile notStar)).flatten = s0 :: t := by
          simpa using hflat
        rw [this]; exact hm
      obtain ⟨hmf, hrest⟩ := mFL_complete _ _ name hF hm'
      unfold matchChunks
      rw [hparts]
      simp only
      rcases dropWhile_head_star t with hnil | ⟨w', rest, hd, hw'⟩
      · rw [hnil] at hrest ⊢
        simp [chunkify] at hrest ⊢
        have hq := matches_nil_inv hrest
        have : tryChunk none (s0 :: t.takeWhile notStar) true name = .ok (some []) := by
          unfold tryChunk; simp only [hmf, hq]; simp
        rw [this]; simp [matchChunks]
      · rw [hd] at hrest hdrop ⊢
        have hnsd : NoSlash (.wild w' :: rest) := by rw [← hd]; exact noSlash_dropWhile hns'
        obtain ⟨a, b, _⟩ := chunkify_star rest.length false w' rest (Nat.le_refl _) hw' hnsd hdrop
        have hne : (chunkify (.wild w' :: rest)).isEmpty = false := by
          rw [chunkify_cons]; rfl
        have : tryChunk none (s0 :: t.takeWhile notStar) (chunkify (.wild w' :: rest)).isEmpty name
            = .ok (some (iter (gridLen (s0 :: t.takeWhile notStar)) name)) := by
          unfold tryChunk; simp only [hmf, hne]; simp
        rw [this]
        simp only
        apply starChunks_complete _ a b _ 0 (Or.inl rfl)
        · intro _; rfl
        · exact hrest

end C23
