/-
C23 helper lemmas, part 5: a lower bound on the length of a matched name.

Every literal of a path element occupies its own bytes of the name, every `?`
at least one byte; in particular `lit₁ * lit₂` only matches names of at least
`|lit₁| + |lit₂|` bytes.  (A "starts with lit₁ and ends with lit₂" test accepts
`a` for `a*a` and `aba` for `ab*ba`: the two literals would share bytes.)
-/
import ElvProofs.C23.Top
namespace C23
open Go

/-- bytes a segment needs at least -/
def minLen : List Seg → Nat
  | [] => 0
  | .lit d :: rest => d.length + minLen rest
  | .slash :: rest => minLen rest
  | .wild w :: rest => (if w.type = .question then 1 else 0) + minLen rest

theorem matches_minLen {segs : List Seg} {name : Bytes} (h : Matches segs name) :
    minLen segs ≤ name.length := by
  induction h with
  | nil => simp [minLen]
  | lit _ ih => simp [minLen]; omega
  | @question w rest s n hq hr _ ih =>
    obtain ⟨hne, hn, _, _⟩ := hr
    have hp : 0 < n := by rw [hn]; exact decodeRune_size_pos hne
    have hle : n ≤ s.length := by rw [hn]; exact decodeRune_size_le s
    simp only [minLen, hq, if_true]
    simp only [List.length_drop] at ih
    omega
  | skip hq _ ih => simpa [minLen, hq] using ih
  | @step w rest s n hq hr _ ih =>
    simp only [List.length_drop] at ih
    omega

/-- a match begins with the leading literal -/
theorem matches_lit_prefix {d : Bytes} {rest : List Seg} {name : Bytes}
    (h : Matches (.lit d :: rest) name) : ∃ t, name = d ++ t ∧ Matches rest t := by
  cases h with
  | lit h => exact ⟨_, rfl, h⟩

/-- a match ends with the trailing literal -/
theorem matches_lit_suffix {d : Bytes} : ∀ {segs : List Seg} {name : Bytes},
    Matches (segs ++ [.lit d]) name → ∃ t, name = t ++ d := by
  intro segs name h
  generalize hx : segs ++ [Seg.lit d] = x at h
  induction h generalizing segs with
  | nil => cases segs <;> simp at hx
  | @lit d' rest s h ih =>
    cases segs with
    | nil =>
      simp at hx
      obtain ⟨rfl, rfl⟩ := hx
      cases h
      exact ⟨[], by simp⟩
    | cons a segs =>
      simp at hx
      obtain ⟨rfl, rfl⟩ := hx
      obtain ⟨t, ht⟩ := ih rfl
      exact ⟨d' ++ t, by rw [ht]; simp⟩
  | @question w rest s n hq hr h ih =>
    cases segs with
    | nil => simp at hx
    | cons a segs =>
      simp at hx
      obtain ⟨rfl, rfl⟩ := hx
      obtain ⟨t, ht⟩ := ih rfl
      exact ⟨s.take n ++ t, by rw [List.append_assoc, ← ht, List.take_append_drop]⟩
  | @skip w rest s hq h ih =>
    cases segs with
    | nil => simp at hx
    | cons a segs =>
      simp at hx
      obtain ⟨rfl, rfl⟩ := hx
      exact ih rfl
  | @step w rest s n hq hr h ih =>
    obtain ⟨t, ht⟩ := ih hx
    exact ⟨s.take n ++ t, by rw [List.append_assoc, ← ht, List.take_append_drop]⟩

end C23
