/-
C23 helper lemmas, part 8: `glob.Parse` (`parse`, `parseLoop`, `parseLit` of the model).

* totality: the fuel `len(s)+1` suffices, the literal loop always consumes its
  first rune, no panic;
* printing the segments back: for a pattern string that is valid UTF-8 and
  holds no backslash the printed segments are the string with every run of `/`
  squeezed to one `/` and every run of two or more `*` squeezed to `**`
  (`squeeze`); for strings without `//` and `***` that is the string itself;
* every wildcard `Parse` produces carries no matcher and no match-hidden flag.
-/
import ElvProofs.C23.Top
namespace C23
open Go

/-! ## Printing and the normal form of a pattern string -/

def printSeg : Seg → Bytes
  | .lit d => d
  | .slash => [0x2F]
  | .wild w =>
    match w.type with
    | .question => [0x3F]
    | .star => [0x2A]
    | .starstar => [0x2A, 0x2A]

def printSegs (l : List Seg) : Bytes := l.flatMap printSeg

/-- every run of `/` becomes one `/`, every run of two or more `*` becomes `**` -/
def squeeze : Bytes → Bytes
  | [] => []
  | [a] => [a]
  | a :: b :: t =>
    if a = 0x2F ∧ b = 0x2F then squeeze (b :: t)
    else if a = 0x2A ∧ b = 0x2A ∧ t.head? = some 0x2A then squeeze (b :: t)
    else a :: squeeze (b :: t)

/-- no `//` and no `***` -/
def normalRuns : Bytes → Bool
  | [] => true
  | [_] => true
  | a :: b :: t =>
    !(a == 0x2F && b == 0x2F) && !(a == 0x2A && b == 0x2A && t.head? == some 0x2A) &&
      normalRuns (b :: t)

theorem squeeze_of_normal : ∀ (s : Bytes), normalRuns s = true → squeeze s = s
  | [], _ => rfl
  | [_], _ => rfl
  | a :: b :: t, h => by
    simp only [normalRuns, Bool.and_eq_true, Bool.not_eq_true', Bool.and_eq_false_iff,
      beq_eq_false_iff_ne, ne_eq] at h
    obtain ⟨⟨h1, h2⟩, h3⟩ := h
    have ih := squeeze_of_normal (b :: t) h3
    rw [squeeze, if_neg (by
      rintro ⟨ha, hb⟩
      rcases h1 with h1 | h1
      · exact h1 ha
      · exact h1 hb), if_neg (by
      rintro ⟨ha, hb, hc⟩
      rcases h2 with (h2 | h2) | h2
      · exact h2 ha
      · exact h2 hb
      · exact h2 hc), ih]

theorem squeeze_plain (b : UInt8) (t : Bytes) (h1 : b ≠ 0x2F) (h2 : b ≠ 0x2A) :
    squeeze (b :: t) = b :: squeeze t := by
  cases t with
  | nil => rfl
  | cons c t => rw [squeeze, if_neg (fun h => h1 h.1), if_neg (fun h => h2 h.1)]

theorem squeeze_plain_append : ∀ (pre rest : Bytes), (∀ x ∈ pre, x ≠ 0x2F ∧ x ≠ 0x2A) →
    squeeze (pre ++ rest) = pre ++ squeeze rest := by
  intro pre
  induction pre with
  | nil => intro rest _; rfl
  | cons x pre ih =>
    intro rest h
    obtain ⟨h1, h2⟩ := h x (by simp)
    rw [List.cons_append, squeeze_plain _ _ h1 h2, ih rest (fun y hy => h y (by simp [hy]))]
    rfl

theorem squeeze_slash : ∀ (t : Bytes),
    squeeze (0x2F :: t) = 0x2F :: squeeze (t.dropWhile (· == 0x2F)) := by
  intro t
  induction t with
  | nil => rfl
  | cons b t ih =>
    by_cases hb : b = 0x2F
    · subst hb
      rw [squeeze, if_pos ⟨rfl, rfl⟩, ih]
      simp [List.dropWhile]
    · have hb' : (b == 0x2F) = false := by simpa using hb
      rw [squeeze, if_neg (fun h => hb h.2), if_neg (fun h => by simp at h)]
      simp [List.dropWhile, hb']

theorem squeeze_star : ∀ (t : Bytes),
    squeeze (0x2A :: t) =
      (if t.head? = some 0x2A then [0x2A, 0x2A] else [0x2A]) ++ squeeze (t.dropWhile (· == 0x2A)) := by
  intro t
  induction t with
  | nil => rfl
  | cons b t ih =>
    by_cases hb : b = 0x2A
    · subst hb
      simp only [List.head?_cons, if_true, List.dropWhile, beq_self_eq_true]
      by_cases hc : t.head? = some 0x2A
      · rw [squeeze, if_neg (fun h => by simp at h), if_pos ⟨rfl, rfl, hc⟩, ih, if_pos hc]
      · rw [squeeze, if_neg (fun h => by simp at h), if_neg (fun h => hc h.2.2), ih, if_neg hc]
        rfl
    · have hb' : (b == 0x2A) = false := by simpa using hb
      have hne : ¬ (some b = some (0x2A : UInt8)) := by simpa using hb
      rw [squeeze, if_neg (fun h => by simp at h), if_neg (fun h => hb h.2.1)]
      simp only [List.head?_cons, hne, if_false, List.dropWhile, hb']
      rfl

/-! ## ASCII runes -/

theorem decodeCase_ascii {b : UInt8} {t : Bytes} {r n : Nat} (hc : DecodeCase (b :: t) r n)
    (h : r < 0x80) : b.toNat = r ∧ n = 1 := by
  cases hc with
  | one => exact ⟨rfl, rfl⟩
  | two => omega
  | three => omega
  | four => omega
  | invalid => exact absurd h (by decide)

theorem decodeCase_take_ascii {s : Bytes} {r n : Nat} (hc : DecodeCase s r n) {x : UInt8}
    (hx : x ∈ s.take n) (h : x.toNat < 0x80) : x.toNat = r := by
  cases hc with
  | empty => simp at hx
  | one b0 t _ =>
    change x ∈ [b0] at hx
    rw [List.mem_singleton] at hx; subst hx; rfl
  | two b0 b1 t =>
    change x ∈ [b0, b1] at hx
    simp only [List.mem_cons, List.not_mem_nil, or_false] at hx
    rcases hx with rfl | rfl <;> omega
  | three b0 b1 b2 t =>
    change x ∈ [b0, b1, b2] at hx
    simp only [List.mem_cons, List.not_mem_nil, or_false] at hx
    rcases hx with rfl | rfl | rfl <;> omega
  | four b0 b1 b2 b3 t =>
    change x ∈ [b0, b1, b2, b3] at hx
    simp only [List.mem_cons, List.not_mem_nil, or_false] at hx
    rcases hx with rfl | rfl | rfl | rfl <;> omega
  | invalid b0 t _ =>
    change x ∈ [b0] at hx
    rw [List.mem_singleton] at hx; subst hx; omega

theorem byte_eq_of_toNat {b : UInt8} {c : Nat} (hc : c < 256) (h : b.toNat = c) :
    b = UInt8.ofNat c := by
  apply UInt8.toNat_inj.1
  rw [h, toNat_ofNat_of_lt hc]

/-- a decoded rune below 0x80 is the first byte, one byte wide -/
theorem decodeRune_ascii {b : UInt8} {t : Bytes} {r n : Nat} (h : decodeRune (b :: t) = (r, n))
    (hr : r < 0x80) : b.toNat = r ∧ n = 1 :=
  decodeCase_ascii (decodeRune_case_of_eq h) hr

theorem validUtf8_cons_ascii {b : UInt8} {t : Bytes} (hb : b.toNat < 0x80)
    (h : validUtf8 (b :: t) = true) : validUtf8 t = true := by
  rw [validUtf8_of_ne_nil (by simp), decodeRune_one b t hb, Bool.and_eq_true] at h
  simpa using h.2

theorem validUtf8_dropWhile_ascii (c : UInt8) (hc : c.toNat < 0x80) : ∀ (t : Bytes),
    validUtf8 t = true → validUtf8 (t.dropWhile (· == c)) = true := by
  intro t
  induction t with
  | nil => intro h; exact h
  | cons x t ih =>
    intro h
    by_cases hx : x = c
    · subst hx
      simp only [List.dropWhile, beq_self_eq_true]
      exact ih (validUtf8_cons_ascii hc h)
    · have : (x == c) = false := by simpa using hx
      simp only [List.dropWhile, this]
      exact h

theorem mem_of_mem_dropWhile {α : Type} {p : α → Bool} {x : α} : ∀ {l : List α},
    x ∈ l.dropWhile p → x ∈ l := by
  intro l
  induction l with
  | nil => intro h; exact h
  | cons y l ih =>
    intro h
    simp only [List.dropWhile] at h
    split at h
    · exact List.mem_cons_of_mem _ (ih h)
    · exact h

theorem length_dropWhile_le {α : Type} (p : α → Bool) : ∀ (l : List α),
    (l.dropWhile p).length ≤ l.length := by
  intro l
  induction l with
  | nil => simp
  | cons y l ih =>
    simp only [List.dropWhile]
    split
    · simp only [List.length_cons]; omega
    · exact Nat.le_refl _

/-- `dropWhile` keeps the whole list exactly when its head fails the test -/
theorem length_dropWhile_eq_iff (c : UInt8) (t : Bytes) :
    (t.dropWhile (· == c)).length = t.length ↔ ¬ t.head? = some c := by
  cases t with
  | nil => simp
  | cons x t =>
    by_cases hx : x = c
    · subst hx
      have := length_dropWhile_le (· == x) t
      simp only [List.dropWhile, beq_self_eq_true, List.length_cons, List.head?_cons, not_true,
        iff_false]
      omega
    · have : (x == c) = false := by simpa using hx
      simp [List.dropWhile, this, hx]

/-! ## The literal loop -/

def specialRune (r : Nat) : Prop := r = 0x3F ∨ r = 0x2A ∨ r = 0x2F

theorem parseLit_total : ∀ (fuel : Nat) (s acc : Bytes), s.length < fuel →
    ∃ d rest, parseLit fuel s acc = .ok (d, rest) ∧ rest.length ≤ s.length ∧
      (s ≠ [] → ¬ specialRune (decodeRune s).1 → rest.length < s.length) := by
  intro fuel
  induction fuel with
  | zero => intro s acc h; omega
  | succ fuel ih =>
    intro s acc hl
    cases s with
    | nil => exact ⟨acc, [], by simp [parseLit], Nat.le_refl _, fun h => absurd rfl h⟩
    | cons b t =>
      rcases hdr : decodeRune (b :: t) with ⟨r, n⟩
      have hpos : 0 < n := by
        have := decodeRune_size_pos (s := b :: t) (by simp); rw [hdr] at this; exact this
      have hle : n ≤ (b :: t).length := by
        have := decodeRune_size_le (b :: t); rw [hdr] at this; exact this
      simp only [parseLit, hdr]
      split
      · next hsp =>
        refine ⟨acc, b :: t, rfl, Nat.le_refl _, fun _ hns => absurd ?_ hns⟩
        exact hsp
      · split
        · split
          · exact ⟨acc, [], rfl, by simp, fun _ _ => by simp⟩
          · next c u hs' =>
            have hlen' : (c :: u).length = (b :: t).length - n := by
              rw [← hs', List.length_drop]
            simp only [hs']
            rcases hdr2 : decodeRune (c :: u) with ⟨r2, n2⟩
            obtain ⟨d, rest, hp, hl1, _⟩ := ih ((c :: u).drop n2) (acc ++ encodeRune r2) (by
              simp only [List.length_drop]; simp only [List.length_cons] at hl hlen' ⊢; omega)
            refine ⟨d, rest, hp, ?_, fun _ _ => ?_⟩ <;>
              (simp only [List.length_drop] at hl1; simp only [List.length_cons] at hl hlen' hl1 ⊢; omega)
        · obtain ⟨d, rest, hp, hl1, _⟩ := ih ((b :: t).drop n) (acc ++ encodeRune r) (by
            simp only [List.length_drop]; simp only [List.length_cons] at hl hle ⊢; omega)
          refine ⟨d, rest, hp, ?_, fun _ _ => ?_⟩ <;>
            (simp only [List.length_drop] at hl1; simp only [List.length_cons] at hl hle hl1 ⊢; omega)

/-- On valid UTF-8 without backslash the literal is the input up to the first `?`, `*`, `/`. -/
theorem parseLit_spec : ∀ (fuel : Nat) (s acc d rest : Bytes), parseLit fuel s acc = .ok (d, rest) →
    validUtf8 s = true → (0x5C : UInt8) ∉ s →
    ∃ pre, s = pre ++ rest ∧ d = acc ++ pre ∧ (∀ x ∈ pre, x ≠ 0x2F ∧ x ≠ 0x2A) ∧
      validUtf8 rest = true := by
  intro fuel
  induction fuel with
  | zero => intro s acc d rest h; simp [parseLit] at h
  | succ fuel ih =>
    intro s acc d rest h hv hb
    cases s with
    | nil =>
      simp [parseLit] at h
      obtain ⟨rfl, rfl⟩ := h
      exact ⟨[], rfl, by simp, by simp, rfl⟩
    | cons b t =>
      rcases hdr : decodeRune (b :: t) with ⟨r, n⟩
      simp only [parseLit, hdr] at h
      split at h
      · simp only [Res.ok.injEq, Prod.mk.injEq] at h
        obtain ⟨rfl, rfl⟩ := h
        exact ⟨[], rfl, by simp, by simp, hv⟩
      · next hns =>
        split at h
        · next hbs =>
          -- a backslash rune is a backslash byte
          exfalso
          obtain ⟨hbn, _⟩ := decodeRune_ascii hdr (by rw [hbs]; decide)
          exact hb (by rw [byte_eq_of_toNat (by decide) (hbn.trans hbs)]; exact List.mem_cons_self)
        · next hnb =>
          rw [validUtf8_of_ne_nil (by simp), hdr, Bool.and_eq_true] at hv
          obtain ⟨herr, hv'⟩ := hv
          have herr' : ¬ (r = RuneError ∧ n = 1) := by
            intro ⟨h1, h2⟩; simp [h1, h2] at herr
          obtain ⟨_, htake⟩ := decodeRune_valid_take hdr (by simp) herr'
          obtain ⟨pre', hs, hd, hpre, hvr⟩ := ih _ _ _ _ h hv'
            (fun hm => hb (List.mem_of_mem_drop hm))
          refine ⟨(b :: t).take n ++ pre', ?_, ?_, ?_, hvr⟩
          · rw [List.append_assoc, ← hs, List.take_append_drop]
          · rw [hd, htake, List.append_assoc]
          · intro x hx
            rcases List.mem_append.1 hx with hx | hx
            · have hc := decodeRune_case_of_eq hdr
              constructor
              · intro hx2
                have := decodeCase_take_ascii hc hx (by rw [hx2]; decide)
                rw [hx2] at this
                exact hns (Or.inr (Or.inr this.symm))
              · intro hx2
                have := decodeCase_take_ascii hc hx (by rw [hx2]; decide)
                rw [hx2] at this
                exact hns (Or.inr (Or.inl this.symm))
            · exact hpre x hx

/-! ## `parseLoop` -/

theorem parseLoop_total : ∀ (fuel : Nat) (s : Bytes), s.length < fuel →
    ∃ segs, parseLoop fuel s = .ok segs := by
  intro fuel
  induction fuel with
  | zero => intro s h; omega
  | succ fuel ih =>
    intro s hl
    cases s with
    | nil => exact ⟨[], by simp [parseLoop]⟩
    | cons b t =>
      rcases hdr : decodeRune (b :: t) with ⟨r, n⟩
      have hpos : 0 < n := by
        have := decodeRune_size_pos (s := b :: t) (by simp); rw [hdr] at this; exact this
      have hdrop : ((b :: t).drop n).length < (b :: t).length := by
        simp only [List.length_drop, List.length_cons]; omega
      simp only [parseLoop, hdr]
      split
      · obtain ⟨t', ht'⟩ := ih ((b :: t).drop n) (by omega)
        exact ⟨_, bind_eq_ok.2 ⟨t', ht', rfl⟩⟩
      · split
        · have := length_dropWhile_le (· == (0x2A : UInt8)) ((b :: t).drop n)
          obtain ⟨t', ht'⟩ := ih (((b :: t).drop n).dropWhile (· == 0x2A)) (by omega)
          exact ⟨_, bind_eq_ok.2 ⟨t', ht', rfl⟩⟩
        · split
          · have := length_dropWhile_le (· == (0x2F : UInt8)) ((b :: t).drop n)
            obtain ⟨t', ht'⟩ := ih (((b :: t).drop n).dropWhile (· == 0x2F)) (by omega)
            exact ⟨_, bind_eq_ok.2 ⟨t', ht', rfl⟩⟩
          · next h1 h2 h3 =>
            obtain ⟨d, rest, hp, hl1, hl2⟩ := parseLit_total ((b :: t).length + 1) (b :: t) []
              (Nat.lt_succ_self _)
            have hlt : rest.length < (b :: t).length := hl2 (by simp) (by
              rw [hdr]; rintro (h | h | h)
              · exact h1 h
              · exact h2 h
              · exact h3 h)
            rw [hp]
            simp only [hlt, if_true]
            obtain ⟨t', ht'⟩ := ih rest (by omega)
            exact ⟨_, bind_eq_ok.2 ⟨t', ht', rfl⟩⟩

/-- **`glob.Parse` is total.** -/
theorem parse_total (s : Bytes) : ∃ segs, parse s = .ok segs :=
  parseLoop_total _ _ (Nat.lt_succ_self _)

theorem printSegs_cons (x : Seg) (l : List Seg) : printSegs (x :: l) = printSeg x ++ printSegs l := by
  simp [printSegs]

theorem parseLoop_print : ∀ (fuel : Nat) (s : Bytes) (segs : List Seg), parseLoop fuel s = .ok segs →
    validUtf8 s = true → (0x5C : UInt8) ∉ s → printSegs segs = squeeze s := by
  intro fuel
  induction fuel with
  | zero => intro s segs h; simp [parseLoop] at h
  | succ fuel ih =>
    intro s segs h hv hb
    cases s with
    | nil =>
      simp [parseLoop] at h
      subst h
      rfl
    | cons b t =>
      rcases hdr : decodeRune (b :: t) with ⟨r, n⟩
      simp only [parseLoop, hdr] at h
      have hbt : ∀ x ∈ t, x ≠ (0x5C : UInt8) := fun x hx hx2 => hb (by rw [← hx2]; simp [hx])
      split at h
      · next hq =>
        obtain ⟨hbn, hn1⟩ := decodeRune_ascii hdr (by rw [hq]; decide)
        have hbq : b = 0x3F := byte_eq_of_toNat (by decide) (hbn.trans hq)
        subst hn1 hbq
        obtain ⟨t', ht', hs⟩ := bind_eq_ok.1 h
        rw [pure_eq_ok] at hs
        subst hs
        have hvt := validUtf8_cons_ascii (by decide) hv
        rw [printSegs_cons, ih _ _ ht' hvt (fun hm => hbt _ hm rfl),
          squeeze_plain _ _ (by decide) (by decide)]
        rfl
      · split at h
        · next hst =>
          obtain ⟨hbn, hn1⟩ := decodeRune_ascii hdr (by rw [hst]; decide)
          have hbq : b = 0x2A := byte_eq_of_toNat (by decide) (hbn.trans hst)
          subst hn1 hbq
          simp only [List.drop_succ_cons, List.drop_zero] at h
          obtain ⟨t', ht', hs⟩ := bind_eq_ok.1 h
          rw [pure_eq_ok] at hs
          subst hs
          have hvt := validUtf8_dropWhile_ascii 0x2A (by decide) t (validUtf8_cons_ascii (by decide) hv)
          rw [printSegs_cons, ih _ _ ht' hvt (fun hm => hbt _ (mem_of_mem_dropWhile hm) rfl),
            squeeze_star]
          congr 1
          have hle := length_dropWhile_le (· == (0x2A : UInt8)) t
          have hiff := length_dropWhile_eq_iff 0x2A t
          by_cases hh : t.head? = some 0x2A
          · have hne : (t.dropWhile (· == (0x2A : UInt8))).length ≠ t.length := fun he => hiff.1 he hh
            have hcnt : ¬ ((0x2A :: t).length - (t.dropWhile (· == (0x2A : UInt8))).length = 1) := by
              simp only [List.length_cons]; omega
            simp only [printSeg, hcnt, if_false, hh, if_true]
          · have heq : (t.dropWhile (· == (0x2A : UInt8))).length = t.length := hiff.2 hh
            have hcnt : (0x2A :: t).length - (t.dropWhile (· == (0x2A : UInt8))).length = 1 := by
              simp only [List.length_cons]; omega
            simp only [printSeg, hcnt, if_true, hh, if_false]
        · split at h
          · next hsl =>
            obtain ⟨hbn, hn1⟩ := decodeRune_ascii hdr (by rw [hsl]; decide)
            have hbq : b = 0x2F := byte_eq_of_toNat (by decide) (hbn.trans hsl)
            subst hn1 hbq
            simp only [List.drop_succ_cons, List.drop_zero] at h
            obtain ⟨t', ht', hs⟩ := bind_eq_ok.1 h
            rw [pure_eq_ok] at hs
            subst hs
            have hvt := validUtf8_dropWhile_ascii 0x2F (by decide) t (validUtf8_cons_ascii (by decide) hv)
            rw [printSegs_cons, ih _ _ ht' hvt (fun hm => hbt _ (mem_of_mem_dropWhile hm) rfl),
              squeeze_slash]
            rfl
          · split at h
            · next d rest hp =>
              split at h
              · obtain ⟨t', ht', hs⟩ := bind_eq_ok.1 h
                rw [pure_eq_ok] at hs
                subst hs
                obtain ⟨pre, hs, hd, hpre, hvr⟩ := parseLit_spec _ _ _ _ _ hp hv hb
                simp only [List.nil_append] at hd
                subst hd
                have hbr : (0x5C : UInt8) ∉ rest := fun hm => hb (by rw [hs]; exact List.mem_append_right _ hm)
                rw [printSegs_cons, ih _ _ ht' hvr hbr, hs, squeeze_plain_append _ _ hpre]
                rfl
              · cases h
            · cases h
            · cases h

/-- **Printing the parsed segments gives the pattern back**, up to the runs Parse
merges (valid UTF-8, no backslash escapes). -/
theorem parse_print {s : Bytes} {segs : List Seg} (hv : validUtf8 s = true)
    (hb : (0x5C : UInt8) ∉ s) (h : parse s = .ok segs) : printSegs segs = squeeze s :=
  parseLoop_print _ _ _ h hv hb

theorem parse_print_normal {s : Bytes} {segs : List Seg} (hv : validUtf8 s = true)
    (hb : (0x5C : UInt8) ∉ s) (hn : normalRuns s = true) (h : parse s = .ok segs) :
    printSegs segs = s := by
  rw [parse_print hv hb h, squeeze_of_normal s hn]

/-! ## Shape: `Parse` never produces matchers or match-hidden -/

def plainWild : Seg → Prop
  | .wild w => w.hidden = false ∧ w.matchers = []
  | _ => True

theorem parseLoop_plain : ∀ (fuel : Nat) (s : Bytes) (segs : List Seg), parseLoop fuel s = .ok segs →
    ∀ x ∈ segs, plainWild x := by
  intro fuel
  induction fuel with
  | zero => intro s segs h; simp [parseLoop] at h
  | succ fuel ih =>
    intro s segs h
    cases s with
    | nil => simp [parseLoop] at h; subst h; intro x hx; cases hx
    | cons b t =>
      rcases hdr : decodeRune (b :: t) with ⟨r, n⟩
      simp only [parseLoop, hdr] at h
      have fin : ∀ (x0 : Seg) (s' : Bytes),
          (parseLoop fuel s' >>= fun t' => pure (x0 :: t')) = .ok segs → plainWild x0 →
          ∀ x ∈ segs, plainWild x := by
        intro x0 s' h' h0
        obtain ⟨t', ht', hs⟩ := bind_eq_ok.1 h'
        rw [pure_eq_ok] at hs
        subst hs
        intro x hx
        rcases List.mem_cons.1 hx with rfl | hx
        · exact h0
        · exact ih _ _ ht' x hx
      split at h
      · exact fin _ _ h ⟨rfl, rfl⟩
      · split at h
        · exact fin _ _ h ⟨rfl, rfl⟩
        · split at h
          · exact fin _ _ h trivial
          · split at h
            · split at h
              · exact fin _ _ h trivial
              · cases h
            · cases h
            · cases h

theorem parse_plain {s : Bytes} {segs : List Seg} (h : parse s = .ok segs) :
    ∀ x ∈ segs, plainWild x := parseLoop_plain _ _ _ h

end C23
