/-
C23 helper lemmas, part 7: the driver's tree model has a rank (`FSRank`), so the
driver's fuel `fuelFor` is sufficient and `FUEL` is unreachable.

The rank of a directory path is `depthBound + 1 - |location it resolves to|`.
A listing entry with `IsDir() = true` is a real directory entry of the tree one
component below the listed location, and the path `dir ++ name ++ "/"` resolves
to exactly that location (symbolic links are listed with `IsDir() = false`, so
wildcard components never go through them).
-/
import ElvProofs.C23.Total
import ElvModel.C23.FsTree
namespace C23
open Go

/-! ## `splitSlash` -/

theorem splitSlash_ne_nil (s : Bytes) : splitSlash s ≠ [] := by
  cases s with
  | nil => simp [splitSlash]
  | cons b t =>
    unfold splitSlash
    split
    · simp
    · split <;> simp

theorem splitSlash_append_slash (a b : Bytes) :
    splitSlash (a ++ slashByte :: b) = splitSlash a ++ splitSlash b := by
  induction a with
  | nil =>
    obtain ⟨c, cs, h⟩ := List.exists_cons_of_ne_nil (splitSlash_ne_nil b)
    simp [splitSlash, h]
  | cons x a ih =>
    obtain ⟨c, cs, h⟩ := List.exists_cons_of_ne_nil (splitSlash_ne_nil a)
    simp only [List.cons_append]
    rw [splitSlash, ih, splitSlash, h]
    simp only [List.cons_append]
    split <;> rfl

theorem splitSlash_noSlash {a : Bytes} (h : slashByte ∉ a) : splitSlash a = [a] := by
  induction a with
  | nil => rfl
  | cons x a ih =>
    have hx : (x == slashByte) = false := by
      simp only [beq_eq_false_iff_ne, ne_eq]
      intro hx; exact h (by simp [hx])
    rw [splitSlash, ih (fun hm => h (by simp [hm]))]
    simp [hx]

/-! ## `walk` -/

theorem walk_succ_cons (t : Tree) (fl : Bool) (steps links : Nat) (loc : List Bytes) (c : Bytes)
    (rest : List Bytes) :
    t.walk fl (steps + 1) links loc (c :: rest) =
    if t.nodeAt loc ≠ some .dir then none
    else if c = [] ∨ c = [dotByte] then t.walk fl steps links loc rest
    else if c = [dotByte, dotByte] then t.walk fl steps links loc.dropLast rest
    else
      match t.nodeAt (loc ++ [c]) with
      | none => none
      | some (.symlink tgt) =>
        if rest = [] ∧ !fl then some (loc ++ [c])
        else
          match links with
          | 0 => none
          | links + 1 =>
            if tgt = [] then none
            else
              match tgt with
              | b :: _ =>
                if b == slashByte then
                  match t.absComps tgt with
                  | some cs => t.walk fl steps links [] (cs ++ rest)
                  | none => none
                else t.walk fl steps links loc (splitSlash tgt ++ rest)
              | [] => none
      | some _ => t.walk fl steps links (loc ++ [c]) rest := by
  rw [Tree.walk]
  rfl

/-- walking `c1 ++ c2` (following a final link) passes through the end of `c1` -/
theorem walk_append (t : Tree) : ∀ (s l : Nat) (loc : List Bytes) (c1 c2 : List Bytes) (r : List Bytes),
    t.walk true s l loc (c1 ++ c2) = some r →
    ∃ mid s' l', t.walk true s l loc c1 = some mid ∧ t.walk true s' l' mid c2 = some r := by
  intro s
  induction s with
  | zero =>
    intro l loc c1 c2 r h
    cases c1 with
    | nil => exact ⟨loc, 0, l, by simp [Tree.walk], h⟩
    | cons c rest => simp [Tree.walk] at h
  | succ s ih =>
    intro l loc c1 c2 r h
    cases c1 with
    | nil => exact ⟨loc, s + 1, l, by simp [Tree.walk], h⟩
    | cons c rest =>
      simp only [List.cons_append] at h
      rw [walk_succ_cons] at h
      split at h
      · cases h
      · next hdir =>
        split at h
        · next hc =>
          obtain ⟨mid, s', l', hm, hw⟩ := ih _ _ _ _ _ h
          exact ⟨mid, s', l', by rw [walk_succ_cons, if_neg hdir, if_pos hc]; exact hm, hw⟩
        · next hc =>
          split at h
          · next hdd =>
            obtain ⟨mid, s', l', hm, hw⟩ := ih _ _ _ _ _ h
            exact ⟨mid, s', l', by rw [walk_succ_cons, if_neg hdir, if_neg hc, if_pos hdd]; exact hm, hw⟩
          · next hdd =>
            split at h
            · cases h
            · next tgt hn =>
              simp only [Bool.not_true, Bool.false_eq_true, and_false, if_false] at h
              cases l with
              | zero => simp at h
              | succ l =>
                simp only at h
                split at h
                · cases h
                · next htg =>
                  cases tgt with
                  | nil => simp at h
                  | cons b tg =>
                    simp only at h
                    split at h
                    · next hb =>
                      split at h
                      · next cs hcs =>
                        rw [← List.append_assoc] at h
                        obtain ⟨mid, s', l', hm, hw⟩ := ih _ _ _ _ _ h
                        refine ⟨mid, s', l', ?_, hw⟩
                        rw [walk_succ_cons, if_neg hdir, if_neg hc, if_neg hdd, hn]
                        simp only [Bool.not_true, Bool.false_eq_true, and_false, if_false, htg, hb,
                          if_true, hcs]
                        exact hm
                      · cases h
                    · next hb =>
                      rw [← List.append_assoc] at h
                      obtain ⟨mid, s', l', hm, hw⟩ := ih _ _ _ _ _ h
                      refine ⟨mid, s', l', ?_, hw⟩
                      rw [walk_succ_cons, if_neg hdir, if_neg hc, if_neg hdd, hn]
                      simp only [Bool.not_true, Bool.false_eq_true, and_false, if_false, htg, hb]
                      exact hm
            · next nd hns hn =>
              obtain ⟨mid, s', l', hm, hw⟩ := ih _ _ _ _ _ h
              refine ⟨mid, s', l', ?_, hw⟩
              rw [walk_succ_cons, if_neg hdir, if_neg hc, if_neg hdd, hn]
              cases nd with
              | symlink tg => exact absurd rfl (hns tg)
              | file => exact hm
              | dir => exact hm
              | other => exact hm

/-- a trailing empty component (trailing slash): the location must be a directory -/
theorem walk_trailing (t : Tree) (s l : Nat) (loc r : List Bytes)
    (h : t.walk true s l loc [[]] = some r) : r = loc ∧ t.nodeAt loc = some .dir := by
  cases s with
  | zero => simp [Tree.walk] at h
  | succ s =>
    unfold Tree.walk at h
    split at h
    · cases h
    · next hd =>
      simp only [true_or, if_true] at h
      have : t.walk true s l loc [] = some loc := by cases s <;> simp [Tree.walk]
      rw [this] at h
      exact ⟨(Option.some.inj h).symm, by simpa using hd⟩

/-- the same for `.` (how the empty directory string is listed) -/
theorem walk_dot (t : Tree) (s l : Nat) (loc r : List Bytes)
    (h : t.walk true s l loc [[dotByte]] = some r) : r = loc ∧ t.nodeAt loc = some .dir := by
  cases s with
  | zero => simp [Tree.walk] at h
  | succ s =>
    unfold Tree.walk at h
    split at h
    · cases h
    · next hd =>
      simp only [or_true, if_true] at h
      have : t.walk true s l loc [] = some loc := by cases s <;> simp [Tree.walk]
      rw [this] at h
      exact ⟨(Option.some.inj h).symm, by simpa using hd⟩

/-- one real sub-directory followed by a trailing slash -/
theorem walk_dirstep (t : Tree) (s l : Nat) (loc r : List Bytes) (name : Bytes)
    (hn : nameOK name = true) (hc : t.nodeAt (loc ++ [name]) = some .dir)
    (h : t.walk true s l loc [name, []] = some r) : r = loc ++ [name] := by
  simp only [nameOK, Bool.and_eq_true, bne_iff_ne, ne_eq] at hn
  obtain ⟨⟨⟨h1, h2⟩, h3⟩, _⟩ := hn
  cases s with
  | zero => simp [Tree.walk] at h
  | succ s =>
    unfold Tree.walk at h
    split at h
    · cases h
    · simp only [h1, h2, or_self, if_false, hc] at h
      exact (walk_trailing t s l _ _ h).1

/-! ## `dropPrefix`, `insertSorted`, `depthBound` -/

theorem dropPrefix_append : ∀ (p l m r : List Bytes), dropPrefix p l = some r →
    dropPrefix p (l ++ m) = some (r ++ m) := by
  intro p
  induction p with
  | nil => intro l m r h; simp [dropPrefix] at h ⊢; exact h
  | cons x p ih =>
    intro l m r h
    cases l with
    | nil => simp [dropPrefix] at h
    | cons y l =>
      simp only [dropPrefix, List.cons_append] at h ⊢
      split at h
      · next hxy => simp only [hxy, if_true]; exact ih _ _ _ h
      · cases h

theorem mem_insertSorted (x y : Bytes × Bool) : ∀ (l : List (Bytes × Bool)),
    y ∈ insertSorted x l ↔ y = x ∨ y ∈ l := by
  intro l
  induction l with
  | nil => simp [insertSorted]
  | cons z l ih =>
    unfold insertSorted
    split
    · simp
    · simp [ih]; constructor
      · rintro (h | h | h) <;> simp [h]
      · rintro (h | h | h) <;> simp [h]

theorem mem_foldr_insertSorted (y : Bytes × Bool) : ∀ (l : List (Bytes × Bool)),
    y ∈ l.foldr insertSorted [] ↔ y ∈ l := by
  intro l
  induction l with
  | nil => simp
  | cons z l ih => simp [mem_insertSorted, ih]

theorem depthBound_cwd (t : Tree) : t.cwd.length ≤ t.depthBound := by
  unfold Tree.depthBound
  induction t.entries with
  | nil => simp
  | cons e es ih => simp only [List.foldr_cons]; omega

theorem foldr_max_ge (e : List Bytes × Node) (n : Nat) : ∀ (l : List (List Bytes × Node)), e ∈ l →
    e.1.length ≤ l.foldr (fun e m => max e.1.length m) n := by
  intro l
  induction l with
  | nil => intro he; cases he
  | cons e' es ih =>
    intro he
    simp only [List.foldr_cons]
    rcases List.mem_cons.1 he with rfl | he
    · omega
    · have := ih he; omega

theorem depthBound_entry (t : Tree) (e : List Bytes × Node) (he : e ∈ t.entries) :
    e.1.length ≤ t.depthBound := foldr_max_ge e _ _ he

/-! ## The rank -/

/-- how `Tree.readDir` reads its argument -/
def listedPath (p : Bytes) : Bytes := if p = [] then [dotByte] else p

def Tree.rank (t : Tree) (p : Bytes) : Nat :=
  match t.resolve true (listedPath p) with
  | some loc => t.depthBound + 1 - loc.length
  | none => 0

/-- what a `true` entry of a listing is: a `dir` entry one component below -/
theorem readDir_dir_entry (t : Tree) (hwf : t.wf = true) (dir : Bytes) (es : List (Bytes × Bool))
    (name : Bytes) (h : t.readDir dir = some es) (hm : (name, true) ∈ es) :
    ∃ loc, t.resolve true (listedPath dir) = some loc ∧ t.nodeAt loc = some .dir ∧
      t.nodeAt (loc ++ [name]) = some .dir ∧ nameOK name = true ∧ loc.length + 1 ≤ t.depthBound := by
  unfold Tree.readDir at h
  simp only at h
  split at h
  · cases h
  · next loc hres =>
    split at h
    · cases h
    · next hd =>
      have hd : t.nodeAt loc = some .dir := by simpa using hd
      simp only [Option.some.injEq] at h
      subst h
      rw [mem_foldr_insertSorted, List.mem_filterMap] at hm
      obtain ⟨⟨l, n⟩, hmem, hf⟩ := hm
      simp only at hf
      split at hf
      · next nm hlast =>
        split at hf
        · next hdl =>
          simp only [Option.some.injEq, Prod.mk.injEq] at hf
          obtain ⟨rfl, hn⟩ := hf
          have hn : n = .dir := by simpa using hn
          subst hn
          have hl : l = loc ++ [nm] := by
            obtain ⟨ys, rfl⟩ := List.getLast?_eq_some_iff.1 hlast
            simp only [List.dropLast_concat, beq_iff_eq] at hdl
            rw [hdl]
          simp only [Tree.wf, Bool.and_eq_true, List.all_eq_true, decide_eq_true_eq] at hwf
          obtain ⟨hnames, hnd⟩ := hwf
          refine ⟨loc, hres, hd, ?_, ?_, ?_⟩
          · -- the entry is the only one at its location
            unfold Tree.nodeAt
            rw [if_neg (by simp)]
            have hfind : ∀ (ents : List (List Bytes × Node)), (l, Node.dir) ∈ ents →
                (ents.map (·.1)).Nodup → ents.find? (·.1 == l) = some (l, Node.dir) := by
              intro ents
              induction ents with
              | nil => intro hm; cases hm
              | cons e ents ih =>
                intro hm hnd
                simp only [List.map_cons, List.nodup_cons] at hnd
                rcases List.mem_cons.1 hm with rfl | hm
                · simp
                · have hne : e.1 ≠ l := by
                    intro he
                    exact hnd.1 (List.mem_map.2 ⟨(l, Node.dir), hm, he.symm⟩)
                  rw [List.find?_cons_of_neg (by simpa using hne)]
                  exact ih hm hnd.2
            rw [← hl, hfind _ hmem hnd]
            rfl
          · have := hnames (l, Node.dir) hmem
            simp only at this
            exact this nm (by rw [hl]; simp)
          · have := depthBound_entry t _ hmem
            simp only [hl, List.length_append, List.length_singleton] at this
            exact this
        · cases hf
      · cases hf

theorem slash_notMem_of_nameOK {name : Bytes} (h : nameOK name = true) : slashByte ∉ name := by
  simp only [nameOK, Bool.and_eq_true, Bool.not_eq_true'] at h
  have := h.2
  intro hm
  simp [hm] at this

/-- the path of a listed real directory resolves one component below the listing -/
theorem resolve_child (t : Tree) (dir name : Bytes) (loc loc' : List Bytes) (hdp : DirPath dir)
    (hres : t.resolve true (listedPath dir) = some loc)
    (hn : nameOK name = true) (hc : t.nodeAt (loc ++ [name]) = some .dir)
    (h : t.resolve true (dir ++ name ++ [slashByte]) = some loc') : loc' = loc ++ [name] := by
  have hns := slash_notMem_of_nameOK hn
  have hne : name ≠ [] := by
    intro h0; subst h0; simp [nameOK] at hn
  obtain ⟨b0, nt, rfl⟩ := List.exists_cons_of_ne_nil hne
  have hb0 : (b0 == slashByte) = false := by
    simp only [beq_eq_false_iff_ne, ne_eq]
    intro hx; exact hns (by simp [hx])
  have hsplitName : splitSlash ((b0 :: nt) ++ [slashByte]) = [b0 :: nt, []] := by
    rw [splitSlash_append_slash, splitSlash_noSlash hns]; rfl
  rcases hdp with rfl | ⟨d0, rfl⟩
  · -- the empty directory string: listed as `.`, the child is `name/`
    simp only [listedPath, if_true, Tree.resolve] at hres
    have hdot : (dotByte == slashByte) = false := by decide
    simp only [hdot] at hres
    have hsd : splitSlash [dotByte] = [[dotByte]] := by decide
    rw [hsd] at hres
    obtain ⟨rfl, hd⟩ := walk_dot t _ _ _ _ hres
    simp only [List.nil_append, List.cons_append, Tree.resolve, hb0] at h
    have : splitSlash (b0 :: (nt ++ [slashByte])) = [b0 :: nt, []] := hsplitName
    rw [this] at h
    exact walk_dirstep t _ _ _ _ _ hn hc h
  · have hlp : listedPath (d0 ++ [slashByte]) = d0 ++ [slashByte] := by simp [listedPath]
    rw [hlp] at hres
    have hs1 : splitSlash (d0 ++ [slashByte]) = splitSlash d0 ++ [[]] := by
      rw [splitSlash_append_slash]; rfl
    have hs2 : splitSlash (d0 ++ [slashByte] ++ (b0 :: nt) ++ [slashByte]) =
        splitSlash d0 ++ [b0 :: nt, []] := by
      rw [List.append_assoc, List.append_assoc]
      show splitSlash (d0 ++ slashByte :: ((b0 :: nt) ++ [slashByte])) = _
      rw [splitSlash_append_slash, hsplitName]
    -- both paths start with the same byte
    obtain ⟨c0, ct, hct⟩ : ∃ c0 ct, d0 ++ [slashByte] = c0 :: ct := by
      cases d0 with
      | nil => exact ⟨_, _, rfl⟩
      | cons x d0 => exact ⟨_, _, rfl⟩
    have hct' : d0 ++ [slashByte] ++ (b0 :: nt) ++ [slashByte] = c0 :: (ct ++ (b0 :: nt) ++ [slashByte]) := by
      rw [hct]; simp
    have finish : ∀ (s l : Nat) (start Y : List Bytes),
        t.walk true s l start (Y ++ [[]]) = some loc →
        t.walk true s l start (Y ++ [b0 :: nt, []]) = some loc' → loc' = loc ++ [b0 :: nt] := by
      intro s l start Y h1 h2
      obtain ⟨mid, s1, l1, hm1, hw1⟩ := walk_append t _ _ _ _ _ _ h1
      obtain ⟨mid', s2, l2, hm2, hw2⟩ := walk_append t _ _ _ _ _ _ h2
      rw [hm1] at hm2
      obtain rfl := Option.some.inj hm2
      obtain ⟨rfl, _⟩ := walk_trailing t _ _ _ _ hw1
      exact walk_dirstep t _ _ _ _ _ hn hc hw2
    unfold Tree.resolve at hres h
    rw [hct] at hres
    rw [hct'] at h
    simp only at hres h
    rw [← hct] at hres
    rw [← hct'] at h
    split at hres
    · -- absolute
      next hslash =>
      simp only [hslash, if_true] at h
      unfold Tree.absComps at hres h
      rw [hs1] at hres
      rw [hs2] at h
      have hf1 : (splitSlash d0 ++ [[]]).filter (· ≠ []) = (splitSlash d0).filter (· ≠ []) := by
        simp
      have hf2 : (splitSlash d0 ++ [b0 :: nt, []]).filter (· ≠ []) =
          (splitSlash d0).filter (· ≠ []) ++ [b0 :: nt] := by
        simp
      rw [hf1] at hres
      rw [hf2] at h
      have hl1 : (d0 ++ [slashByte]).getLast? = some slashByte := List.getLast?_concat
      have hl2 : (d0 ++ [slashByte] ++ (b0 :: nt) ++ [slashByte]).getLast? = some slashByte :=
        List.getLast?_concat
      simp only [hl1, hl2, beq_self_eq_true, if_true] at hres h
      cases hcs : dropPrefix t.absRoot ((splitSlash d0).filter (· ≠ [])) with
      | none => rw [hcs] at hres; cases hres
      | some cs =>
        rw [hcs] at hres
        rw [dropPrefix_append _ _ [b0 :: nt] _ hcs] at h
        simp only at hres h
        rw [List.append_assoc] at h
        exact finish _ _ _ _ hres h
    · next hslash =>
      simp only [hslash] at h
      rw [hs1] at hres
      rw [hs2] at h
      exact finish _ _ _ _ hres h

/-- **The tree model has a rank**: real sub-directories lie strictly deeper. -/
def Tree.fsRank (t : Tree) (hwf : t.wf = true) : FSRank t.toFS (t.depthBound + 1) where
  rk := t.rank
  le := by
    intro p
    unfold Tree.rank
    split <;> omega
  desc := by
    intro dir es name hdp hrd hm
    obtain ⟨loc, hres, _, hc, hn, hlen⟩ := readDir_dir_entry t hwf dir es name hrd hm
    have hne : dir ++ name ++ [slashByte] ≠ [] := by simp
    have hrk : t.rank dir = t.depthBound + 1 - loc.length := by
      unfold Tree.rank; rw [hres]
    rw [hrk]
    unfold Tree.rank
    rw [show listedPath (dir ++ name ++ [slashByte]) = dir ++ name ++ [slashByte] from if_neg hne]
    split
    · next loc' hres' =>
      have := resolve_child t dir name loc loc' hdp hres hn hc hres'
      subst this
      simp only [List.length_append, List.length_singleton]
      omega
    · omega

/-- The driver's fuel is sufficient on every well-formed tree: `FUEL` is unreachable. -/
theorem tree_patternGlob_total (t : Tree) (hwf : t.wf = true) (segs : List Seg) :
    ∃ outs, patternGlob t.toFS (fuelFor t segs) segs = .ok outs := by
  apply patternGlob_total t.toFS (t.fsRank hwf)
  unfold fuelFor
  exact Nat.lt_succ_self _

end C23
