/-
C23 helper lemmas, part 3: the directory walk (`glob`, `enum`, `followLits`)
against the declarative `Expands`, de-duplication and `doGlob`.
-/
import ElvProofs.C23.Complete
namespace C23
open Go

/-! ## The `Res` monad -/

theorem bind_eq_ok {α β : Type} {r : Res α} {g : α → Res β} {x : β} :
    (r >>= g) = .ok x ↔ ∃ a, r = .ok a ∧ g a = .ok x := by
  cases r <;> simp [bind, Res.bind]

theorem pure_eq_ok {α : Type} {a x : α} : (pure a : Res α) = .ok x ↔ a = x := by
  simp [pure]

/-! ## `forEntries` -/

theorem forEntries_ok {f : Bytes → Bool → Res (List Out)} :
    ∀ {es : List (Bytes × Bool)} {outs : List Out}, forEntries es f = .ok outs →
    (∀ n d, (n, d) ∈ es → ∃ a, f n d = .ok a ∧ ∀ o ∈ a, o ∈ outs) ∧
    (∀ o ∈ outs, ∃ n d a, (n, d) ∈ es ∧ f n d = .ok a ∧ o ∈ a) := by
  intro es
  induction es with
  | nil =>
    intro outs h
    simp [forEntries] at h
    subst h
    exact ⟨fun _ _ h => (by cases h), fun _ h => (by cases h)⟩
  | cons e rest ih =>
    intro outs h
    obtain ⟨n0, d0⟩ := e
    simp only [forEntries] at h
    rw [bind_eq_ok] at h
    obtain ⟨a, ha, h⟩ := h
    rw [bind_eq_ok] at h
    obtain ⟨b, hb, h⟩ := h
    rw [pure_eq_ok] at h
    subst h
    obtain ⟨ih1, ih2⟩ := ih hb
    constructor
    · intro n d hm
      cases hm with
      | head => exact ⟨a, ha, fun o ho => List.mem_append_left _ ho⟩
      | tail _ hm =>
        obtain ⟨a', ha', hsub⟩ := ih1 n d hm
        exact ⟨a', ha', fun o ho => List.mem_append_right _ (hsub o ho)⟩
    · intro o ho
      rcases List.mem_append.1 ho with ho | ho
      · exact ⟨n0, d0, a, by simp, ha, ho⟩
      · obtain ⟨n, d, a', hm, ha', ho'⟩ := ih2 o ho
        exact ⟨n, d, a', by simp [hm], ha', ho'⟩

theorem mem_lstatOut {fs : FS} {path : Bytes} {o : Out} :
    o ∈ lstatOut fs path ↔ o.1 = path ∧ fs.lstat path = some o.2 := by
  unfold lstatOut
  split
  · next k hk =>
    obtain ⟨p, k'⟩ := o
    simp [hk]
    intro _; exact eq_comm
  · next hk => simp [hk]

/-! ## `greedyOK` and the pieces `glob` hands to `matchElement` -/

theorem greedyOK_prefix : ∀ (a b : List Seg) (sn : Bool), greedyOK sn (a ++ b) = true →
    greedyOK sn a = true := by
  intro a
  induction a with
  | nil => intro _ _ _; rfl
  | cons x a ih =>
    intro b sn h
    cases x with
    | slash => simp [greedyOK] at h ⊢; exact ih _ _ h
    | lit d => simp [greedyOK] at h ⊢; exact ⟨h.1, ih _ _ h.2⟩
    | wild w =>
      simp only [List.cons_append, greedyOK] at h ⊢
      split at h
      · next hq => simp only [hq, if_true]; exact ih _ _ h
      · next hq =>
        simp only [hq]
        simp at h ⊢
        exact ⟨h.1, ih _ _ h.2⟩

theorem greedyOK_suffix : ∀ (a b : List Seg) (sn : Bool), greedyOK sn (a ++ b) = true →
    greedyOK false b = true := by
  intro a
  induction a with
  | nil =>
    intro b sn h
    cases sn with
    | false => exact h
    | true => exact greedyOK_mono _ h
  | cons x a ih =>
    intro b sn h
    cases x with
    | slash => simp [greedyOK] at h; exact ih _ _ h
    | lit d => simp [greedyOK] at h; exact ih _ _ h.2
    | wild w =>
      simp only [List.cons_append, greedyOK] at h
      split at h
      · exact ih _ _ h
      · simp at h; exact ih _ _ h.2

/-! ## `followLits` -/

/-- the pattern does not begin with a literal component followed by `/` -/
def NoLitDir (segs : List Seg) : Prop := ∀ d rest, segs ≠ .lit d :: .slash :: rest

theorem followLits_sound_aux (fs : FS) : ∀ (n : Nat) (segs : List Seg), segs.length ≤ n →
    ∀ (dir : Bytes) (segs' : List Seg) (dir' : Bytes),
    followLits fs segs dir = some (segs', dir') →
    NoLitDir segs' ∧ (∀ p, Expands fs segs' dir' p → Expands fs segs dir p) ∧
      (greedyOK false segs = true → greedyOK false segs' = true) := by
  intro n
  induction n with
  | zero =>
    intro segs hl dir segs' dir' h
    have : segs = [] := List.length_eq_zero_iff.1 (by omega)
    subst this
    simp [followLits] at h
    obtain ⟨rfl, rfl⟩ := h
    exact ⟨fun _ _ h => (by cases h), fun _ h => h, fun h => h⟩
  | succ n ih =>
    intro segs hl dir segs' dir' h
    unfold followLits at h
    split at h
    · next d rest =>
      simp only at h
      split at h
      · next hdir =>
        obtain ⟨a, b, c⟩ := ih rest (by simp at hl; omega) _ _ _ h
        refine ⟨a, fun p hp => Expands.litDir hdir (b p hp), fun hg => c ?_⟩
        simp [greedyOK] at hg
        exact hg.2
      · cases h
    · next hno =>
      simp at h
      obtain ⟨rfl, rfl⟩ := h
      exact ⟨fun d rest he => hno d rest he, fun _ h => h, fun h => h⟩

theorem followLits_sound (fs : FS) (segs : List Seg) (dir : Bytes) (segs' : List Seg) (dir' : Bytes)
    (h : followLits fs segs dir = some (segs', dir')) :
    NoLitDir segs' ∧ (∀ p, Expands fs segs' dir' p → Expands fs segs dir p) ∧
      (greedyOK false segs = true → greedyOK false segs' = true) :=
  followLits_sound_aux fs segs.length segs (Nat.le_refl _) dir segs' dir' h

theorem glob_litDir (fs : FS) (fuel : Nat) (d : Bytes) (rest : List Seg) (dir : Bytes)
    (h : fs.lstat (dir ++ d ++ [slashByte]) = some .dir) :
    glob fs (fuel + 1) (.lit d :: .slash :: rest) dir = glob fs (fuel + 1) rest (dir ++ d ++ [slashByte]) := by
  simp only [glob, followLits, if_pos h]

theorem followLits_noLitDir (fs : FS) {segs : List Seg} (dir : Bytes) (h : NoLitDir segs) :
    followLits fs segs dir = some (segs, dir) := by
  unfold followLits
  split
  · next d rest => exact absurd rfl (h d rest)
  · rfl

/-! ## `enum`: soundness -/

/-- what is assumed of the recursive call -/
def RecurSound (fs : FS) (recur : List Seg → Bytes → Res (List Out)) : Prop :=
  ∀ segs dir outs, recur segs dir = .ok outs → ∀ o ∈ outs, Expands fs segs dir o.1 ∧ fs.lstat o.1 = some o.2

theorem noSlash_append_singleton {pre : List Seg} {x : Seg} (h : NoSlash pre) (hx : isSlash x = false) :
    NoSlash (pre ++ [x]) := by
  intro y hy
  rcases List.mem_append.1 hy with hy | hy
  · exact h y hy
  · simp at hy; rw [hy]; exact hx

theorem enum_sound (fs : FS) (recur : List Seg → Bytes → Res (List Out)) (hrec : RecurSound fs recur)
    (dir : Bytes) (es : List (Bytes × Bool)) (hrd : fs.readDir dir = some es)
    (hnames : ∀ n d, (n, d) ∈ es → slashByte ∉ n) :
    ∀ (post pre : List Seg) (outs : List Out), NoSlash pre → pre ++ post ≠ [] →
    ¬ SingleLit (pre ++ post) → NoLitDir (pre ++ post) →
    enum fs recur dir es pre post = .ok outs →
    ∀ o ∈ outs, Expands fs (pre ++ post) dir o.1 ∧ fs.lstat o.1 = some o.2 := by
  intro post
  induction post with
  | nil =>
    intro pre outs hns hne hnsl _ h o ho
    simp only [enum] at h
    obtain ⟨_, h2⟩ := forEntries_ok h
    obtain ⟨n, d, a, hm, hf, hoa⟩ := h2 o ho
    rw [bind_eq_ok] at hf
    obtain ⟨b, hb, hf⟩ := hf
    cases b with
    | false => simp [pure] at hf; subst hf; cases hoa
    | true =>
      simp [pure] at hf; subst hf
      obtain ⟨h1, h2⟩ := mem_lstatOut.1 hoa
      simp only [List.append_nil] at hne hnsl ⊢
      rw [h1]
      exact ⟨Expands.last hne hns hnsl hrd hm (matchElement_sound (hnames n d hm) hb) h2, h2⟩
  | cons x rest ih =>
    intro pre outs hns hne hnsl hnld h o ho
    cases x with
    | slash =>
      simp only [enum] at h
      obtain ⟨_, h2⟩ := forEntries_ok h
      obtain ⟨n, d, a, hm, hf, hoa⟩ := h2 o ho
      rw [bind_eq_ok] at hf
      obtain ⟨b, hb, hf⟩ := hf
      by_cases hc : (b && d) = true
      · simp only [hc, if_true] at hf
        simp at hc
        obtain ⟨rfl, rfl⟩ := hc
        obtain ⟨e1, e2⟩ := hrec _ _ _ hf o hoa
        have hnsp : ¬ SingleLit pre := by
          rintro ⟨d, rfl⟩
          exact hnld d rest rfl
        exact ⟨Expands.sub hns hnsp hrd hm (matchElement_sound (hnames n _ hm) hb) e1, e2⟩
      · simp only [hc] at hf
        simp [pure] at hf; subst hf; cases hoa
    | lit d =>
      simp only [enum] at h
      have := ih (pre ++ [.lit d]) outs (noSlash_append_singleton hns rfl)
        (by simp) (by simpa using hnsl) (by simpa using hnld) h o ho
      simpa using this
    | wild w =>
      simp only [enum] at h
      split at h
      · next hss =>
        rw [bind_eq_ok] at h
        obtain ⟨a, ha, h⟩ := h
        rw [bind_eq_ok] at h
        obtain ⟨b, hb, h⟩ := h
        rw [pure_eq_ok] at h
        subst h
        rcases List.mem_append.1 ho with ho | ho
        · obtain ⟨_, h2⟩ := forEntries_ok ha
          obtain ⟨n, d, a', hm, hf, hoa⟩ := h2 o ho
          rw [bind_eq_ok] at hf
          obtain ⟨bb, hbb, hf⟩ := hf
          by_cases hc : (bb && d) = true
          · simp only [hc, if_true] at hf
            simp at hc
            obtain ⟨rfl, rfl⟩ := hc
            obtain ⟨e1, e2⟩ := hrec _ _ _ hf o hoa
            exact ⟨Expands.cross hns hss hrd hm (matchElement_sound (hnames n _ hm) hbb) e1, e2⟩
          · simp only [hc] at hf
            simp [pure] at hf; subst hf; cases hoa
        · have := ih (pre ++ [.wild w]) b (noSlash_append_singleton hns rfl)
            (by simp) (by simpa using hnsl) (by simpa using hnld) hb o ho
          simpa using this
      · have := ih (pre ++ [.wild w]) outs (noSlash_append_singleton hns rfl)
          (by simp) (by simpa using hnsl) (by simpa using hnld) h o ho
        simpa using this

/-- names returned by `ReadDir` contain no `/` -/
def FSNames (fs : FS) : Prop :=
  ∀ dir es, fs.readDir dir = some es → ∀ n d, (n, d) ∈ es → slashByte ∉ n

theorem glob_sound (fs : FS) (hfs : FSNames fs) : ∀ (fuel : Nat), RecurSound fs (glob fs fuel) := by
  intro fuel
  induction fuel with
  | zero => intro segs dir outs h; simp [glob] at h
  | succ fuel ih =>
    intro segs dir outs h o ho
    unfold glob at h
    split at h
    · simp at h; subst h; cases ho
    · next segs' dir' hfl =>
      obtain ⟨hnld, hexp, _⟩ := followLits_sound fs segs dir segs' dir' hfl
      split at h
      · simp at h; subst h
        obtain ⟨h1, h2⟩ := mem_lstatOut.1 ho
        rw [h1]
        exact ⟨hexp _ (Expands.endDir h2), h2⟩
      · next d =>
        simp at h; subst h
        obtain ⟨h1, h2⟩ := mem_lstatOut.1 ho
        rw [h1]
        exact ⟨hexp _ (Expands.litLast h2), h2⟩
      · next hne hnl =>
        split at h
        · simp at h; subst h; cases ho
        · next es hrd =>
          have := enum_sound fs (glob fs fuel) ih dir' es hrd (hfs dir' es hrd) segs' [] outs
            (fun _ h => by cases h) (by simpa using hne)
            (by rintro ⟨d, hd⟩; simp at hd; exact hnl d hd) (by simpa using hnld) h o ho
          simp only [List.nil_append] at this
          exact ⟨hexp _ this.1, this.2⟩

/-! ## `enum` and `glob`: completeness -/

theorem glob_general (fs : FS) (fuel : Nat) {segs : List Seg} {dir : Bytes} {es : List (Bytes × Bool)}
    (hnld : NoLitDir segs) (hne : segs ≠ []) (hnsl : ¬ SingleLit segs) (hrd : fs.readDir dir = some es) :
    glob fs (fuel + 1) segs dir = enum fs (glob fs fuel) dir es [] segs := by
  unfold glob
  rw [followLits_noLitDir fs dir hnld]
  simp only
  split
  · exact absurd rfl hne
  · next d => exact absurd ⟨d, rfl⟩ hnsl
  · rw [hrd]

theorem enum_complete_last (fs : FS) (recur : List Seg → Bytes → Res (List Out)) (dir : Bytes)
    (es : List (Bytes × Bool)) (name : Bytes) (isd : Bool) (k : Kind) (hm : (name, isd) ∈ es)
    (hl : fs.lstat (dir ++ name) = some k) :
    ∀ (post pre : List Seg) (outs : List Out), NoSlash post →
    enum fs recur dir es pre post = .ok outs → matchElement (pre ++ post) name = .ok true →
    (dir ++ name, k) ∈ outs := by
  intro post
  induction post with
  | nil =>
    intro pre outs _ h hme
    simp only [enum] at h
    obtain ⟨h1, _⟩ := forEntries_ok h
    obtain ⟨a, ha, hsub⟩ := h1 name isd hm
    simp only [List.append_nil] at hme
    rw [hme] at ha
    simp [bind, Res.bind, pure] at ha
    subst ha
    exact hsub _ (mem_lstatOut.2 ⟨rfl, hl⟩)
  | cons x rest ih =>
    intro pre outs hns h hme
    have hns' : NoSlash rest := fun y hy => hns y (by simp [hy])
    cases x with
    | slash => have := hns .slash (by simp); simp [isSlash] at this
    | lit d =>
      simp only [enum] at h
      exact ih (pre ++ [.lit d]) outs hns' h (by simpa using hme)
    | wild w =>
      simp only [enum] at h
      split at h
      · rw [bind_eq_ok] at h
        obtain ⟨a, _, h⟩ := h
        rw [bind_eq_ok] at h
        obtain ⟨b, hb, h⟩ := h
        rw [pure_eq_ok] at h
        subst h
        exact List.mem_append_right _ (ih (pre ++ [.wild w]) b hns' hb (by simpa using hme))
      · exact ih (pre ++ [.wild w]) outs hns' h (by simpa using hme)

theorem enum_complete_sub (fs : FS) (recur : List Seg → Bytes → Res (List Out)) (dir : Bytes)
    (es : List (Bytes × Bool)) (name : Bytes) (hm : (name, true) ∈ es) (rest : List Seg) (p : Bytes)
    (hrec : ∀ a, recur rest (dir ++ name ++ [slashByte]) = .ok a → ∃ k, (p, k) ∈ a) :
    ∀ (comp pre : List Seg) (outs : List Out), NoSlash comp →
    enum fs recur dir es pre (comp ++ .slash :: rest) = .ok outs →
    matchElement (pre ++ comp) name = .ok true → ∃ k, (p, k) ∈ outs := by
  intro comp
  induction comp with
  | nil =>
    intro pre outs _ h hme
    simp only [List.nil_append, enum] at h
    obtain ⟨h1, _⟩ := forEntries_ok h
    obtain ⟨a, ha, hsub⟩ := h1 name true hm
    simp only [List.append_nil] at hme
    rw [hme] at ha
    simp [bind, Res.bind] at ha
    obtain ⟨k, hk⟩ := hrec a (by simpa using ha)
    exact ⟨k, hsub _ hk⟩
  | cons x comp ih =>
    intro pre outs hns h hme
    have hns' : NoSlash comp := fun y hy => hns y (by simp [hy])
    cases x with
    | slash => have := hns .slash (by simp); simp [isSlash] at this
    | lit d =>
      simp only [List.cons_append, enum] at h
      exact ih (pre ++ [.lit d]) outs hns' h (by simpa using hme)
    | wild w =>
      simp only [List.cons_append, enum] at h
      split at h
      · rw [bind_eq_ok] at h
        obtain ⟨a, _, h⟩ := h
        rw [bind_eq_ok] at h
        obtain ⟨b, hb, h⟩ := h
        rw [pure_eq_ok] at h
        subst h
        obtain ⟨k, hk⟩ := ih (pre ++ [.wild w]) b hns' hb (by simpa using hme)
        exact ⟨k, List.mem_append_right _ hk⟩
      · exact ih (pre ++ [.wild w]) outs hns' h (by simpa using hme)

theorem enum_complete_cross (fs : FS) (recur : List Seg → Bytes → Res (List Out)) (dir : Bytes)
    (es : List (Bytes × Bool)) (name : Bytes) (hm : (name, true) ∈ es) (w : Wild)
    (hss : w.type = .starstar) (post : List Seg) (p : Bytes)
    (hrec : ∀ a, recur (.wild w :: post) (dir ++ name ++ [slashByte]) = .ok a → ∃ k, (p, k) ∈ a) :
    ∀ (pre' pre : List Seg) (outs : List Out), NoSlash pre' →
    enum fs recur dir es pre (pre' ++ .wild w :: post) = .ok outs →
    matchElement (pre ++ pre' ++ [.wild w]) name = .ok true → ∃ k, (p, k) ∈ outs := by
  intro pre'
  induction pre' with
  | nil =>
    intro pre outs _ h hme
    simp only [List.nil_append, enum, hss, if_true] at h
    rw [bind_eq_ok] at h
    obtain ⟨a, ha, h⟩ := h
    rw [bind_eq_ok] at h
    obtain ⟨b, _, h⟩ := h
    rw [pure_eq_ok] at h
    subst h
    obtain ⟨h1, _⟩ := forEntries_ok ha
    obtain ⟨a', ha', hsub⟩ := h1 name true hm
    simp only [List.append_nil] at hme
    rw [hme] at ha'
    simp [bind, Res.bind] at ha'
    obtain ⟨k, hk⟩ := hrec a' (by simpa using ha')
    exact ⟨k, List.mem_append_left _ (hsub _ hk)⟩
  | cons x pre' ih =>
    intro pre outs hns h hme
    have hns' : NoSlash pre' := fun y hy => hns y (by simp [hy])
    cases x with
    | slash => have := hns .slash (by simp); simp [isSlash] at this
    | lit d =>
      simp only [List.cons_append, enum] at h
      exact ih (pre ++ [.lit d]) outs hns' h (by simpa using hme)
    | wild w' =>
      simp only [List.cons_append, enum] at h
      split at h
      · rw [bind_eq_ok] at h
        obtain ⟨a, _, h⟩ := h
        rw [bind_eq_ok] at h
        obtain ⟨b, hb, h⟩ := h
        rw [pure_eq_ok] at h
        subst h
        obtain ⟨k, hk⟩ := ih (pre ++ [.wild w']) b hns' hb (by simpa using hme)
        exact ⟨k, List.mem_append_right _ hk⟩
      · exact ih (pre ++ [.wild w']) outs hns' h (by simpa using hme)

theorem noLitDir_of_noSlash {segs : List Seg} (h : NoSlash segs) : NoLitDir segs := by
  intro d rest he
  have := h .slash (by rw [he]; simp)
  simp [isSlash] at this

/-- **Completeness of the walk**: every declaratively expanded path is reported,
for patterns on which greedy element matching is complete. -/
theorem glob_complete (fs : FS) {segs : List Seg} {dir p : Bytes} (h : Expands fs segs dir p) :
    ∀ (fuel : Nat) (outs : List Out), greedyOK false segs = true →
    glob fs fuel segs dir = .ok outs → ∃ k, (p, k) ∈ outs := by
  induction h with
  | endDir hl =>
    intro fuel outs _ hg
    cases fuel with
    | zero => simp [glob] at hg
    | succ fuel =>
      simp [glob, followLits] at hg
      subst hg
      exact ⟨_, mem_lstatOut.2 ⟨rfl, hl⟩⟩
  | litLast hl =>
    intro fuel outs _ hg
    cases fuel with
    | zero => simp [glob] at hg
    | succ fuel =>
      simp [glob, followLits] at hg
      subst hg
      exact ⟨_, mem_lstatOut.2 ⟨rfl, hl⟩⟩
  | litDir hl _ ih =>
    intro fuel outs hgr hg
    cases fuel with
    | zero => simp [glob] at hg
    | succ fuel =>
      rw [glob_litDir fs fuel _ _ _ hl] at hg
      simp [greedyOK] at hgr
      exact ih (fuel + 1) outs hgr.2 hg
  | last hne hns hnsl hrd hm hem hl =>
    intro fuel outs hgr hg
    cases fuel with
    | zero => simp [glob] at hg
    | succ fuel =>
      rw [glob_general fs fuel (noLitDir_of_noSlash hns) hne hnsl hrd] at hg
      exact ⟨_, enum_complete_last fs _ _ _ _ _ _ hm hl _ [] outs hns hg
        (by simpa using matchElement_complete hgr hem)⟩
  | @sub comp rest dir es name p hns hnsl hrd hm hem _ ih =>
    intro fuel outs hgr hg
    cases fuel with
    | zero => simp [glob] at hg
    | succ fuel =>
      have hnld : NoLitDir (comp ++ .slash :: rest) := by
        intro d r he
        cases comp with
        | nil => simp at he
        | cons c cs =>
          simp at he
          obtain ⟨rfl, he⟩ := he
          cases cs with
          | nil => exact hnsl ⟨d, rfl⟩
          | cons c2 cs2 =>
            simp at he
            have := hns c2 (by simp)
            rw [he.1] at this; simp [isSlash] at this
      have hne : comp ++ .slash :: rest ≠ [] := by simp
      have hnsl' : ¬ SingleLit (comp ++ .slash :: rest) := by
        rintro ⟨d, he⟩
        cases comp with
        | nil => simp at he
        | cons c cs => simp at he
      rw [glob_general fs fuel hnld hne hnsl' hrd] at hg
      have hg1 : greedyOK false comp = true := greedyOK_prefix comp _ false hgr
      have hg2 : greedyOK false rest = true := by
        have : comp ++ .slash :: rest = (comp ++ [.slash]) ++ rest := by simp
        rw [this] at hgr
        exact greedyOK_suffix _ _ _ hgr
      exact enum_complete_sub fs _ _ _ _ hm rest p (fun a ha => ih fuel a hg2 ha) comp [] outs hns hg
        (by simpa using matchElement_complete hg1 hem)
  | @cross pre w post dir es name p hns hss hrd hm hem _ ih =>
    intro fuel outs hgr hg
    cases fuel with
    | zero => simp [glob] at hg
    | succ fuel =>
      have hnld : NoLitDir (pre ++ .wild w :: post) := by
        intro d r he
        cases pre with
        | nil => simp at he
        | cons c cs =>
          simp at he
          obtain ⟨rfl, he⟩ := he
          cases cs with
          | nil => simp at he
          | cons c2 cs2 =>
            simp at he
            have := hns c2 (by simp)
            rw [he.1] at this; simp [isSlash] at this
      have hne : pre ++ .wild w :: post ≠ [] := by simp
      have hnsl' : ¬ SingleLit (pre ++ .wild w :: post) := by
        rintro ⟨d, he⟩
        cases pre with
        | nil => simp at he
        | cons c cs => simp at he
      rw [glob_general fs fuel hnld hne hnsl' hrd] at hg
      have hg1 : greedyOK false (pre ++ [.wild w]) = true := by
        have : pre ++ .wild w :: post = (pre ++ [.wild w]) ++ post := by simp
        rw [this] at hgr
        exact greedyOK_prefix _ _ _ hgr
      have hg2 : greedyOK false (.wild w :: post) = true := greedyOK_suffix pre _ _ hgr
      exact enum_complete_cross fs _ _ _ _ hm w hss post p (fun a ha => ih fuel a hg2 ha) pre [] outs hns hg
        (by simpa using matchElement_complete hg1 hem)

end C23
