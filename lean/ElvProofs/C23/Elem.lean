/-
C23 helper lemmas, part 1: matching one path element.

Soundness of `matchElement` (whatever it accepts is matched declaratively) and
its completeness on the class `greedyOK` (leftmost-greedy chunk matching finds a
match whenever one exists, by an exchange argument on rune positions).
-/
import ElvModel.C23.Spec
import ElvProofs.Lemmas.Utf8
namespace C23
open Go

/-! ## Rune positions -/

/-- one rune further -/
def stepF (s : Bytes) : Bytes := s.drop (decodeRune s).2

/-- `n` runes further (stays at the end once there) -/
def iter : Nat → Bytes → Bytes
  | 0, s => s
  | n + 1, s => iter n (stepF s)

theorem stepF_nil : stepF [] = [] := by simp [stepF]

theorem iter_nil (n : Nat) : iter n [] = [] := by
  induction n with
  | zero => rfl
  | succ n ih => simp [iter, stepF_nil, ih]

theorem iter_add (a b : Nat) (s : Bytes) : iter (a + b) s = iter b (iter a s) := by
  induction a generalizing s with
  | zero => simp [iter]
  | succ a ih => rw [Nat.succ_add]; simp [iter, ih]

theorem iter_succ' (n : Nat) (s : Bytes) : iter (n + 1) s = stepF (iter n s) := by
  rw [iter_add]; rfl

theorem iter_comm (a b : Nat) (s : Bytes) : iter a (iter b s) = iter b (iter a s) := by
  rw [← iter_add, ← iter_add, Nat.add_comm]

theorem stepF_length_lt {s : Bytes} (h : s ≠ []) : (stepF s).length < s.length := by
  have := decodeRune_size_pos h
  have h2 : 0 < s.length := List.length_pos_iff.2 h
  simp [stepF]; omega

theorem mem_of_mem_stepF {b : UInt8} {s : Bytes} (h : b ∈ stepF s) : b ∈ s :=
  List.mem_of_mem_drop h

/-- rune steps through a valid rune encoding -/
theorem stepF_encodeRune_append (r : Nat) (h : validRune r = true) (t : Bytes) :
    stepF (encodeRune r ++ t) = t := by
  simp [stepF, decodeRune_encodeRune_append r h t]

theorem iter_encodeRunes_append (rs : List Rune) (h : ∀ r ∈ rs, validRune r = true) (t : Bytes) :
    iter rs.length (encodeRunes rs ++ t) = t := by
  induction rs with
  | nil => simp [encodeRunes, iter]
  | cons r rs ih =>
    have hr : validRune r = true := h r (by simp)
    have : encodeRunes (r :: rs) ++ t = encodeRune r ++ (encodeRunes rs ++ t) := by
      simp [encodeRunes]
    rw [this, List.length_cons, iter, stepF_encodeRune_append r hr]
    exact ih (fun x hx => h x (by simp [hx]))

/-- a valid UTF-8 literal is passed in `(toRunes d).length` rune steps -/
theorem iter_valid_append {d : Bytes} (hd : validUtf8 d = true) (t : Bytes) :
    iter (toRunes d).length (d ++ t) = t := by
  have h1 := encodeRunes_toRunes hd
  have h2 := iter_encodeRunes_append (toRunes d) (toRunes_validRune d) t
  rw [h1] at h2; exact h2

/-! ## Shape of fixed-length runs and chunks -/

/-- a literal or a `?` -/
def fixedSeg : Seg → Bool
  | .lit _ => true
  | .wild w => w.type == .question
  | .slash => false

/-- rune steps a fixed-length run consumes (for valid UTF-8 literals) -/
def gridLen : List Seg → Nat
  | [] => 0
  | .lit d :: rest => (toRunes d).length + gridLen rest
  | _ :: rest => 1 + gridLen rest

/-- literals non-empty and valid UTF-8, the rest `?` -/
def fixedOK : List Seg → Bool
  | [] => true
  | .lit d :: rest => !d.isEmpty && validUtf8 d && fixedOK rest
  | .wild w :: rest => w.type == .question && fixedOK rest
  | .slash :: _ => false

theorem chunkify_flatten (segs : List Seg) : (chunkify segs).flatten = segs := by
  induction segs with
  | nil => rfl
  | cons s t ih =>
    unfold chunkify
    split
    · next h => rw [h] at ih; simp at ih; simp [ih]
    · next c cs h =>
      rw [h] at ih
      split <;> simp_all

/-! ## Soundness -/

theorem mFL_sound : ∀ (F : List Seg) (s rest : Bytes), slashByte ∉ s →
    matchFixedLength F s = .ok (some rest) →
    (∃ pre, s = pre ++ rest) ∧ ∀ R, Matches R rest → Matches (F ++ R) s := by
  intro F
  induction F with
  | nil =>
    intro s rest _ h
    simp [matchFixedLength] at h
    subst h
    exact ⟨⟨[], rfl⟩, fun R hR => hR⟩
  | cons seg F ih =>
    intro s rest hs h
    unfold matchFixedLength at h
    split at h
    · simp at h
    · next hne =>
      cases seg with
      | lit d =>
        simp only at h
        split at h
        · next hc =>
          have hsd : s = d ++ s.drop d.length := by
            conv => lhs; rw [← List.take_append_drop d.length s, hc.2]
          have hs' : slashByte ∉ s.drop d.length := fun hm => hs (List.mem_of_mem_drop hm)
          obtain ⟨⟨pre, hpre⟩, hM⟩ := ih _ _ hs' h
          refine ⟨⟨d ++ pre, ?_⟩, ?_⟩
          · rw [List.append_assoc, ← hpre]; exact hsd
          · intro R hR
            have := Matches.lit (d := d) (hM R hR)
            rw [← hsd] at this
            exact this
        · simp at h
      | slash => simp at h
      | wild w =>
        simp only at h
        split at h
        · next hq =>
          split at h
          · next hacc =>
            have hs' : slashByte ∉ s.drop (decodeRune s).2 := fun hm => hs (List.mem_of_mem_drop hm)
            obtain ⟨⟨pre, hpre⟩, hM⟩ := ih _ _ hs' h
            refine ⟨⟨s.take (decodeRune s).2 ++ pre, ?_⟩, ?_⟩
            · rw [List.append_assoc, ← hpre, List.take_append_drop]
            · intro R hR
              exact Matches.question hq
                ⟨hne, rfl, hacc, fun hm => hs (List.mem_of_mem_take hm)⟩ (hM R hR)
          · simp at h
        · simp at h

theorem starLoop_sound (w : Wild) (hw : w.type ≠ .question) (F : List Seg) (last : Bool) :
    ∀ (fuel : Nat) (s rest : Bytes), slashByte ∉ s →
    starLoop w F last fuel s = .ok (some rest) →
    (∃ pre, s = pre ++ rest) ∧ ∀ R, Matches R rest → Matches (.wild w :: (F ++ R)) s := by
  intro fuel
  induction fuel with
  | zero =>
    intro s rest _ h
    cases s <;> simp [starLoop] at h
  | succ fuel ih =>
    intro s rest hs h
    cases s with
    | nil => simp [starLoop] at h
    | cons b t =>
      have hne : (b :: t) ≠ [] := by simp
      simp only [starLoop] at h
      split at h
      · simp at h
      · next hacc =>
        simp only [Bool.not_eq_true, Bool.not_eq_eq_eq_not, Bool.not_not] at hacc
        have hacc' : w.accepts (decodeRune (b :: t)).1 = true := by
          cases hh : w.accepts (decodeRune (b :: t)).1 <;> simp_all
        have hs' : slashByte ∉ (b :: t).drop (decodeRune (b :: t)).2 :=
          fun hm => hs (List.mem_of_mem_drop hm)
        have hstep : RuneStep w (b :: t) (decodeRune (b :: t)).2 :=
          ⟨hne, rfl, hacc', fun hm => hs (List.mem_of_mem_take hm)⟩
        have wrap : ∀ rest',
            ((∃ pre, (b :: t).drop (decodeRune (b :: t)).2 = pre ++ rest') ∧
              ∀ R, Matches R rest' → Matches (.wild w :: (F ++ R)) ((b :: t).drop (decodeRune (b :: t)).2)) →
            ((∃ pre, (b :: t) = pre ++ rest') ∧
              ∀ R, Matches R rest' → Matches (.wild w :: (F ++ R)) (b :: t)) := by
          intro rest' ⟨⟨pre, hpre⟩, hM⟩
          refine ⟨⟨(b :: t).take (decodeRune (b :: t)).2 ++ pre, ?_⟩, ?_⟩
          · rw [List.append_assoc, ← hpre, List.take_append_drop]
          · intro R hR; exact Matches.step hw hstep (hM R hR)
        split at h
        · next rest' hm =>
          split at h
          · simp at h; subst h
            apply wrap
            obtain ⟨hp, hM⟩ := mFL_sound F _ _ hs' hm
            exact ⟨hp, fun R hR => Matches.skip hw (hM R hR)⟩
          · exact wrap _ (ih _ _ hs' h)
        · exact wrap _ (ih _ _ hs' h)
        · simp at h
        · simp at h

/-- the chunk denoted by an optional star and a fixed run -/
def chunkOf : Option Wild → List Seg → List Seg
  | none, F => F
  | some w, F => .wild w :: F

theorem chunkParts_spec (c : List Seg) :
    chunkOf (chunkParts c).1 (chunkParts c).2 = c ∧
      ∀ w, (chunkParts c).1 = some w → w.type ≠ .question := by
  unfold chunkParts
  split
  · next w f =>
    split
    · simp [chunkOf]
    · next h => simp [chunkOf]; exact h
  · simp [chunkOf]

theorem tryChunk_sound (star : Option Wild) (hstar : ∀ w, star = some w → w.type ≠ .question)
    (F : List Seg) (last : Bool) (s rest : Bytes) (hs : slashByte ∉ s)
    (h : tryChunk star F last s = .ok (some rest)) :
    (∃ pre, s = pre ++ rest) ∧ ∀ R, Matches R rest → Matches (chunkOf star F ++ R) s := by
  have loopCase : (match star with
      | none => (.ok none : Res (Option Bytes))
      | some w => starLoop w F last s.length s) = .ok (some rest) →
      (∃ pre, s = pre ++ rest) ∧ ∀ R, Matches R rest → Matches (chunkOf star F ++ R) s := by
    intro hl
    cases star with
    | none => simp at hl
    | some w =>
      simp only at hl
      have := starLoop_sound w (hstar w rfl) F last _ _ _ hs hl
      simpa [chunkOf] using this
  have directCase : matchFixedLength F s = .ok (some rest) →
      (∃ pre, s = pre ++ rest) ∧ ∀ R, Matches R rest → Matches (chunkOf star F ++ R) s := by
    intro hd
    obtain ⟨hp, hM⟩ := mFL_sound F s rest hs hd
    refine ⟨hp, fun R hR => ?_⟩
    cases star with
    | none => simpa [chunkOf] using hM R hR
    | some w => simpa [chunkOf] using Matches.skip (hstar w rfl) (hM R hR)
  unfold tryChunk at h
  simp only at h
  split at h
  · simp at h
  · simp at h
  · next rest' hm =>
    split at h
    · simp at h; subst h; exact directCase hm
    · exact loopCase h
  · exact loopCase h

theorem matchChunks_sound : ∀ (cs : List (List Seg)) (s : Bytes), slashByte ∉ s →
    matchChunks cs s = .ok true → Matches cs.flatten s := by
  intro cs
  induction cs with
  | nil =>
    intro s _ h
    simp [matchChunks] at h
    subst h; exact Matches.nil
  | cons c cs ih =>
    intro s hs h
    unfold matchChunks at h
    split at h
    · next rest ht =>
      obtain ⟨hc, hst⟩ := chunkParts_spec c
      obtain ⟨⟨pre, hpre⟩, hM⟩ := tryChunk_sound _ hst _ _ _ _ hs ht
      have hs' : slashByte ∉ rest := fun hm => hs (by rw [hpre]; exact List.mem_append_right _ hm)
      have := hM _ (ih rest hs' h)
      rw [hc] at this
      simpa using this
    · simp at h
    · simp at h
    · simp at h

theorem hiddenOK_of_reject {segs : List Seg} {name : Bytes} (h : hiddenReject segs name = false) :
    HiddenOK segs name := by
  unfold HiddenOK
  split
  · next w _ b _ =>
    intro hb
    simp [hiddenReject, hb] at h
    exact h
  · trivial

theorem hiddenReject_of_OK {segs : List Seg} {name : Bytes} (h : HiddenOK segs name) :
    hiddenReject segs name = false := by
  unfold hiddenReject
  split
  · next w _ b _ =>
    simp [HiddenOK] at h
    cases hb : (b == dotByte) with
    | false => simp
    | true => simp at hb; simp [h hb]
  · rfl

theorem matchElement_sound {segs : List Seg} {name : Bytes} (hs : slashByte ∉ name)
    (h : matchElement segs name = .ok true) : ElemMatches segs name := by
  unfold matchElement at h
  split at h
  · simp at h; subst h; exact ⟨by simp [HiddenOK], Matches.nil⟩
  · next s t =>
    split at h
    · simp at h
    · next hr =>
      refine ⟨hiddenOK_of_reject (by simpa using hr), ?_⟩
      have := matchChunks_sound _ _ hs h
      rwa [chunkify_flatten] at this

end C23
