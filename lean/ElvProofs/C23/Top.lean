/-
C23 helper lemmas, part 4: `Pattern.Glob` (leading slash, de-duplication),
`doGlob`, and the spec-level fact that wildcards never consume a `/`.
-/
import ElvProofs.C23.Glob
namespace C23
open Go

/-! ## de-duplication -/

theorem dedup_sub : ∀ (l : List Out) (seen : List Bytes) (o : Out), o ∈ dedup l seen → o ∈ l ∧ o.1 ∉ seen := by
  intro l
  induction l with
  | nil => intro _ _ h; cases h
  | cons x l ih =>
    intro seen o h
    obtain ⟨p, k⟩ := x
    simp only [dedup] at h
    split at h
    · obtain ⟨a, b⟩ := ih seen o h
      exact ⟨List.mem_cons_of_mem _ a, b⟩
    · next hc =>
      cases h with
      | head => exact ⟨List.mem_cons_self, by simpa using hc⟩
      | tail _ h =>
        obtain ⟨a, b⟩ := ih (p :: seen) o h
        exact ⟨List.mem_cons_of_mem _ a, fun hm => b (List.mem_cons_of_mem _ hm)⟩

theorem dedup_keeps : ∀ (l : List Out) (seen : List Bytes) (p : Bytes), p ∈ l.map (·.1) → p ∉ seen →
    p ∈ (dedup l seen).map (·.1) := by
  intro l
  induction l with
  | nil => intro _ _ h; cases h
  | cons x l ih =>
    intro seen p h hs
    obtain ⟨q, k⟩ := x
    simp only [dedup]
    by_cases hpq : p = q
    · subst hpq
      have : seen.contains p = false := by simpa using hs
      rw [this]
      simp
    · have hl : p ∈ l.map (·.1) := by
        simp at h
        rcases h with h | h
        · exact absurd h hpq
        · simpa using h
      split
      · exact ih seen p hl hs
      · simp only [List.map_cons, List.mem_cons]
        right
        exact ih (q :: seen) p hl (by simp [hpq, hs])

theorem dedup_nodup : ∀ (l : List Out) (seen : List Bytes), ((dedup l seen).map (·.1)).Nodup := by
  intro l
  induction l with
  | nil => intro _; simp [dedup]
  | cons x l ih =>
    intro seen
    obtain ⟨p, k⟩ := x
    simp only [dedup]
    split
    · exact ih seen
    · simp only [List.map_cons, List.nodup_cons]
      refine ⟨?_, ih (p :: seen)⟩
      intro hm
      obtain ⟨o, ho, hop⟩ := List.mem_map.1 hm
      have := (dedup_sub l (p :: seen) o ho).2
      apply this
      rw [hop]; simp

/-! ## `Pattern.Glob` -/

theorem patternGlob_ok {fs : FS} {fuel : Nat} {segs : List Seg} {outs : List Out}
    (h : patternGlob fs fuel segs = .ok outs) :
    ∃ raw, patternGlobRaw fs fuel segs = .ok raw ∧ outs = dedup raw [] := by
  unfold patternGlob at h
  rw [bind_eq_ok] at h
  obtain ⟨raw, hr, h⟩ := h
  rw [pure_eq_ok] at h
  exact ⟨raw, hr, h.symm⟩

theorem patternGlobRaw_sound {fs : FS} (hfs : FSNames fs) {fuel : Nat} {segs : List Seg} {raw : List Out}
    (h : patternGlobRaw fs fuel segs = .ok raw) (o : Out) (ho : o ∈ raw) :
    ExpandsTop fs segs o.1 ∧ fs.lstat o.1 = some o.2 := by
  unfold patternGlobRaw at h
  unfold ExpandsTop
  split at h
  · exact glob_sound fs hfs fuel _ _ _ h o ho
  · next hn =>
    have := glob_sound fs hfs fuel _ _ _ h o ho
    split
    · next rest => exact absurd rfl (hn rest)
    · exact this

theorem patternGlobRaw_complete {fs : FS} {fuel : Nat} {segs : List Seg} {raw : List Out}
    (hg : greedyOK false segs = true) (h : patternGlobRaw fs fuel segs = .ok raw) (p : Bytes)
    (hp : ExpandsTop fs segs p) : ∃ k, (p, k) ∈ raw := by
  unfold patternGlobRaw at h
  unfold ExpandsTop at hp
  split at h
  · next rest =>
    simp only at hp
    exact glob_complete fs hp fuel raw (by simpa [greedyOK] using hg) h
  · next hn =>
    split at hp
    · next rest => exact absurd rfl (hn rest)
    · exact glob_complete fs hp fuel raw hg h

/-! ## wildcards never consume `/` -/

theorem matches_no_slash {segs : List Seg} {name : Bytes} (h : Matches segs name)
    (hl : ∀ d, Seg.lit d ∈ segs → slashByte ∉ d) : slashByte ∉ name := by
  induction h with
  | nil => simp
  | lit _ ih =>
    intro hm
    rcases List.mem_append.1 hm with hm | hm
    · exact hl _ (by simp) hm
    · exact ih (fun d hd => hl d (by simp [hd])) hm
  | @question w rest s n _ hs _ ih =>
    intro hm
    rw [← List.take_append_drop n s] at hm
    rcases List.mem_append.1 hm with hm | hm
    · exact hs.2.2.2 hm
    · exact ih (fun d hd => hl d (by simp [hd])) hm
  | skip _ _ ih => exact ih (fun d hd => hl d (by simp [hd]))
  | @step w rest s n _ hs _ ih =>
    intro hm
    rw [← List.take_append_drop n s] at hm
    rcases List.mem_append.1 hm with hm | hm
    · exact hs.2.2.2 hm
    · exact ih hl hm

end C23
