/-
C23 helper lemmas, part 6: totality.

* `matchElement` on a slash-free pattern always returns (`.ok b`): the panics
  of `matchFixedLength` are unreachable because the chunks it is handed hold
  only literals and `?`, and the fuel of the inner star loop (`len(name)`)
  suffices because every round removes at least one byte.
* `glob` returns when the fuel exceeds `len(segs) * (D+1) + rank(dir)`, for
  every file system that has a rank on directory paths bounded by `D` which
  decreases along every listed REAL directory (`FSRank`).  Measure: a recursive
  call either has a strictly shorter pattern (a `/` was consumed; the new
  directory is arbitrary because literal components such as `..` or a symbolic
  link are followed as paths), or the same pattern (`**` crossing a `/`) in a
  sub-directory of strictly smaller rank.
-/
import ElvProofs.C23.Top
namespace C23
open Go

/-! ## `matchElement` is total on slash-free patterns -/

theorem fixedSeg_iff (s : Seg) : fixedSeg s = true ↔ isSlash s = false ∧ isStarLike s = false := by
  cases s with
  | lit d => simp [fixedSeg, isSlash, isStarLike]
  | slash => simp [fixedSeg, isSlash]
  | wild w => cases h : w.type <;> simp [fixedSeg, isSlash, isStarLike, h]

theorem mFL_ok : ∀ (F : List Seg) (name : Bytes), (∀ s ∈ F, fixedSeg s = true) →
    ∃ o, matchFixedLength F name = .ok o := by
  intro F
  induction F with
  | nil => intro name _; exact ⟨_, rfl⟩
  | cons seg F ih =>
    intro name hF
    have hseg := hF seg (by simp)
    have hrest : ∀ s ∈ F, fixedSeg s = true := fun s hs => hF s (by simp [hs])
    unfold matchFixedLength
    split
    · exact ⟨_, rfl⟩
    · cases seg with
      | lit d =>
        simp only
        split
        · exact ih _ hrest
        · exact ⟨_, rfl⟩
      | slash => simp [fixedSeg] at hseg
      | wild w =>
        have hq : w.type = .question := by simpa [fixedSeg] using hseg
        simp only [hq, if_true]
        split
        · exact ih _ hrest
        · exact ⟨_, rfl⟩

theorem starLoop_total (w : Wild) (F : List Seg) (last : Bool) (hF : ∀ s ∈ F, fixedSeg s = true) :
    ∀ (fuel : Nat) (name : Bytes), name.length ≤ fuel → ∃ o, starLoop w F last fuel name = .ok o := by
  intro fuel
  induction fuel with
  | zero =>
    intro name hl
    have : name = [] := List.length_eq_zero_iff.1 (by omega)
    subst this
    exact ⟨none, by simp [starLoop]⟩
  | succ fuel ih =>
    intro name hl
    cases name with
    | nil => exact ⟨none, by simp [starLoop]⟩
    | cons b t =>
      have hpos : 0 < (decodeRune (b :: t)).2 := decodeRune_size_pos (by simp)
      have hlen : ((b :: t).drop (decodeRune (b :: t)).2).length ≤ fuel := by
        simp only [List.length_drop]
        simp only [List.length_cons] at hl ⊢
        omega
      obtain ⟨o, ho⟩ := mFL_ok F ((b :: t).drop (decodeRune (b :: t)).2) hF
      obtain ⟨o', ho'⟩ := ih _ hlen
      unfold starLoop
      split
      · exact ⟨_, rfl⟩
      · simp only [ho]
        cases o with
        | none => exact ⟨_, ho'⟩
        | some rest =>
          simp only
          split
          · exact ⟨_, rfl⟩
          · exact ⟨_, ho'⟩

theorem tryChunk_total (star : Option Wild) (F : List Seg) (last : Bool) (name : Bytes)
    (hF : ∀ s ∈ F, fixedSeg s = true) : ∃ o, tryChunk star F last name = .ok o := by
  obtain ⟨o, ho⟩ := mFL_ok F name hF
  have hloop : ∃ o' : Option Bytes, (match star with
      | none => (.ok none : Res (Option Bytes))
      | some w => starLoop w F last name.length name) = .ok o' := by
    cases star with
    | none => exact ⟨_, rfl⟩
    | some w => exact starLoop_total w F last hF _ _ (Nat.le_refl _)
  obtain ⟨o', ho'⟩ := hloop
  unfold tryChunk
  simp only [ho]
  cases o with
  | none => exact ⟨_, ho'⟩
  | some rest =>
    simp only
    split
    · exact ⟨_, rfl⟩
    · exact ⟨_, ho'⟩

/-- inside a chunk only the first segment can be a `*`/`**` -/
theorem chunkify_tail (segs : List Seg) :
    ∀ c ∈ chunkify segs, ∀ s ∈ c.tail, isStarLike s = false := by
  induction segs with
  | nil => intro c hc; simp [chunkify] at hc
  | cons x t ih =>
    intro c hc
    unfold chunkify at hc
    split at hc
    · simp at hc; subst hc; simp
    · next c0 cs h0 =>
      rw [h0] at ih
      split at hc
      · rcases List.mem_cons.1 hc with rfl | hc
        · simp
        · exact ih c hc
      · next hst =>
        rcases List.mem_cons.1 hc with rfl | hc
        · intro s hs
          simp only [List.tail_cons] at hs
          cases c0 with
          | nil => cases hs
          | cons y c0 =>
            rcases List.mem_cons.1 hs with rfl | hs
            · simpa [startsStar] using hst
            · exact ih (y :: c0) (by simp) s (by simpa using hs)
        · exact ih c (by simp [hc])

theorem chunkify_mem (segs : List Seg) : ∀ c ∈ chunkify segs, ∀ s ∈ c, s ∈ segs := by
  intro c hc s hs
  rw [← chunkify_flatten segs]
  exact List.mem_flatten.2 ⟨c, hc, hs⟩

theorem chunkParts_fixed (c : List Seg) (hns : ∀ s ∈ c, isSlash s = false)
    (ht : ∀ s ∈ c.tail, isStarLike s = false) : ∀ s ∈ (chunkParts c).2, fixedSeg s = true := by
  have htail : ∀ s ∈ c.tail, fixedSeg s = true := fun s hs =>
    (fixedSeg_iff s).2 ⟨hns s (List.mem_of_mem_tail hs), ht s hs⟩
  unfold chunkParts
  split
  · next w f =>
    split
    · next hq =>
      intro s hs
      rcases List.mem_cons.1 hs with rfl | hs
      · simp [fixedSeg, hq]
      · exact htail s (by simpa using hs)
    · intro s hs
      exact htail s (by simpa using hs)
  · next hnw =>
    intro s hs
    cases c with
    | nil => cases hs
    | cons y c =>
      rcases List.mem_cons.1 hs with rfl | hs
      · cases s with
        | lit d => rfl
        | slash => simpa [isSlash] using hns .slash (by simp)
        | wild w => exact absurd rfl (hnw w c)
      · exact htail s (by simpa using hs)

theorem matchChunks_total : ∀ (cs : List (List Seg)) (name : Bytes),
    (∀ c ∈ cs, ∀ s ∈ (chunkParts c).2, fixedSeg s = true) → ∃ b, matchChunks cs name = .ok b := by
  intro cs
  induction cs with
  | nil => intro name _; exact ⟨_, rfl⟩
  | cons c cs ih =>
    intro name h
    obtain ⟨o, ho⟩ := tryChunk_total (chunkParts c).1 (chunkParts c).2 cs.isEmpty name (h c (by simp))
    unfold matchChunks
    simp only [ho]
    cases o with
    | none => exact ⟨_, rfl⟩
    | some rest => exact ih rest (fun c' hc' => h c' (by simp [hc']))

/-- `matchElement` never panics and never runs out of fuel on a slash-free pattern. -/
theorem matchElement_total {segs : List Seg} (hns : NoSlash segs) (name : Bytes) :
    ∃ b, matchElement segs name = .ok b := by
  unfold matchElement
  split
  · exact ⟨_, rfl⟩
  · split
    · exact ⟨_, rfl⟩
    · apply matchChunks_total
      intro c hc
      exact chunkParts_fixed c (fun s hs => hns s (chunkify_mem _ c hc s hs)) (chunkify_tail _ c hc)

/-! ## `glob` returns when the fuel covers pattern length × depth -/

/-- the directory strings `glob` works with: empty, or ending in `/` -/
def DirPath (dir : Bytes) : Prop := dir = [] ∨ ∃ d0, dir = d0 ++ [slashByte]

/-- A rank on directory path strings, at most `D`, that strictly decreases from
a directory to every entry its listing reports as a real directory
(`DirEntry.IsDir()`, false for symbolic links).  Such a rank exists exactly when
following listed real directories from any directory terminates within `D`
steps — true of every finite tree, since directories cannot be hard-linked
into cycles and wildcard components do not follow symbolic links. -/
structure FSRank (fs : FS) (D : Nat) where
  rk : Bytes → Nat
  le : ∀ p, rk p ≤ D
  desc : ∀ dir es name, DirPath dir → fs.readDir dir = some es → (name, true) ∈ es →
    rk (dir ++ name ++ [slashByte]) < rk dir

theorem forEntries_total {f : Bytes → Bool → Res (List Out)} :
    ∀ (es : List (Bytes × Bool)), (∀ n d, (n, d) ∈ es → ∃ a, f n d = .ok a) →
    ∃ outs, forEntries es f = .ok outs := by
  intro es
  induction es with
  | nil => intro _; exact ⟨_, rfl⟩
  | cons e rest ih =>
    intro h
    obtain ⟨n0, d0⟩ := e
    obtain ⟨a, ha⟩ := h n0 d0 (by simp)
    obtain ⟨b, hb⟩ := ih (fun n d hm => h n d (by simp [hm]))
    exact ⟨a ++ b, by simp [forEntries, ha, hb, bind, Res.bind, pure]⟩

theorem followLits_shape (fs : FS) : ∀ (n : Nat) (segs : List Seg), segs.length ≤ n →
    ∀ (dir : Bytes) (segs' : List Seg) (dir' : Bytes), DirPath dir →
    followLits fs segs dir = some (segs', dir') →
    DirPath dir' ∧ ((segs' = segs ∧ dir' = dir) ∨ segs'.length + 2 ≤ segs.length) := by
  intro n
  induction n with
  | zero =>
    intro segs hl dir segs' dir' hd h
    have : segs = [] := List.length_eq_zero_iff.1 (by omega)
    subst this
    simp [followLits] at h
    obtain ⟨rfl, rfl⟩ := h
    exact ⟨hd, Or.inl ⟨rfl, rfl⟩⟩
  | succ n ih =>
    intro segs hl dir segs' dir' hd h
    unfold followLits at h
    split at h
    · next d rest =>
      simp only at h
      split at h
      · have hl' : rest.length ≤ n := by simp at hl; omega
        obtain ⟨hd', hor⟩ := ih rest hl' _ _ _ (Or.inr ⟨dir ++ d, rfl⟩) h
        refine ⟨hd', Or.inr ?_⟩
        rcases hor with ⟨rfl, _⟩ | hlt
        · simp
        · simp; omega
      · cases h
    · simp at h
      obtain ⟨rfl, rfl⟩ := h
      exact ⟨hd, Or.inl ⟨rfl, rfl⟩⟩

theorem noSlash_snoc {pre : List Seg} {s : Seg} (hp : NoSlash pre) (hs : isSlash s = false) :
    NoSlash (pre ++ [s]) := by
  intro x hx
  rcases List.mem_append.1 hx with hx | hx
  · exact hp x hx
  · simp at hx; subst hx; exact hs

/-- the body shared by the `/` and `**` cases of `enum` -/
theorem enumBody_total {recur : List Seg → Bytes → Res (List Out)} {dir : Bytes}
    {es : List (Bytes × Bool)} {pre segs' : List Seg} (hpre : NoSlash pre)
    (H : ∀ name, (name, true) ∈ es → ∃ o, recur segs' (dir ++ name ++ [slashByte]) = .ok o) :
    ∃ outs, (forEntries es fun name isDir => do
      if (← matchElement pre name) && isDir then recur segs' (dir ++ name ++ [slashByte])
      else pure []) = .ok outs := by
  apply forEntries_total
  intro name isDir hm
  obtain ⟨b, hb⟩ := matchElement_total hpre name
  cases b with
  | false => exact ⟨[], bind_eq_ok.2 ⟨false, hb, by simp [pure]⟩⟩
  | true =>
    cases isDir with
    | false => exact ⟨[], bind_eq_ok.2 ⟨true, hb, by simp [pure]⟩⟩
    | true =>
      obtain ⟨o, ho⟩ := H name hm
      exact ⟨o, bind_eq_ok.2 ⟨true, hb, by simpa using ho⟩⟩

theorem enum_total (fs : FS) (recur : List Seg → Bytes → Res (List Out)) (dir : Bytes)
    (es : List (Bytes × Bool)) : ∀ (post pre : List Seg), NoSlash pre →
    (∀ name segs', (name, true) ∈ es → segs'.length ≤ post.length →
      ∃ o, recur segs' (dir ++ name ++ [slashByte]) = .ok o) →
    ∃ outs, enum fs recur dir es pre post = .ok outs := by
  intro post
  induction post with
  | nil =>
    intro pre hpre _
    unfold enum
    apply forEntries_total
    intro name isDir _
    obtain ⟨b, hb⟩ := matchElement_total hpre name
    cases b with
    | false => exact ⟨[], bind_eq_ok.2 ⟨false, hb, by simp [pure]⟩⟩
    | true => exact ⟨lstatOut fs (dir ++ name), bind_eq_ok.2 ⟨true, hb, by simp [pure]⟩⟩
  | cons x rest ih =>
    intro pre hpre H
    cases x with
    | slash =>
      unfold enum
      exact enumBody_total hpre (fun name hm => H name rest hm (by simp))
    | lit d =>
      unfold enum
      exact ih _ (noSlash_snoc hpre rfl) (fun name segs' hm hl => H name segs' hm (by simp; omega))
    | wild w =>
      have hpre' : NoSlash (pre ++ [.wild w]) := noSlash_snoc hpre rfl
      obtain ⟨b, hb⟩ := ih _ hpre' (fun name segs' hm hl => H name segs' hm (by simp; omega))
      unfold enum
      split
      · obtain ⟨a, ha⟩ := enumBody_total (recur := recur) (dir := dir) (es := es)
          (segs' := .wild w :: rest) hpre' (fun name hm => H name _ hm (by simp))
        exact ⟨a ++ b, bind_eq_ok.2 ⟨a, ha, bind_eq_ok.2 ⟨b, hb, rfl⟩⟩⟩
      · exact ⟨b, hb⟩

/-- **Fuel sufficiency.**  With a rank bounded by `D`, `glob` returns as soon as
the fuel exceeds `len(segs) * (D+1) + rank(dir)`. -/
theorem glob_total (fs : FS) {D : Nat} (R : FSRank fs D) : ∀ (fuel : Nat) (segs : List Seg)
    (dir : Bytes), DirPath dir → segs.length * (D + 1) + R.rk dir < fuel →
    ∃ outs, glob fs fuel segs dir = .ok outs := by
  intro fuel
  induction fuel with
  | zero => intro segs dir _ h; omega
  | succ fuel ih =>
    intro segs dir hd hf
    unfold glob
    split
    · exact ⟨_, rfl⟩
    · next segs1 dir1 hfl =>
      obtain ⟨hd1, hor⟩ := followLits_shape fs segs.length segs (Nat.le_refl _) dir segs1 dir1 hd hfl
      split
      · exact ⟨_, rfl⟩
      · exact ⟨_, rfl⟩
      · split
        · exact ⟨_, rfl⟩
        · next es hes =>
          apply enum_total fs (glob fs fuel) dir1 es segs1 [] (by intro s hs; cases hs)
          intro name segs' hm hl
          apply ih segs' _ (Or.inr ⟨dir1 ++ name, rfl⟩)
          have hle := R.le (dir1 ++ name ++ [slashByte])
          rcases hor with ⟨rfl, rfl⟩ | hlt
          · have hlt := R.desc dir1 es name hd1 hes hm
            have : segs'.length * (D + 1) ≤ segs1.length * (D + 1) := Nat.mul_le_mul_right _ hl
            omega
          · have : (segs'.length + 2) * (D + 1) ≤ segs.length * (D + 1) :=
              Nat.mul_le_mul_right _ (by omega)
            rw [Nat.add_mul] at this
            omega

theorem patternGlobRaw_total (fs : FS) {D : Nat} (R : FSRank fs D) (fuel : Nat) (segs : List Seg)
    (hf : (segs.length + 1) * (D + 1) < fuel) : ∃ outs, patternGlobRaw fs fuel segs = .ok outs := by
  have h1 : ∀ (s : List Seg) (dir : Bytes), s.length ≤ segs.length → DirPath dir →
      ∃ outs, glob fs fuel s dir = .ok outs := by
    intro s dir hl hd
    apply glob_total fs R fuel s dir hd
    have hle := R.le dir
    have : s.length * (D + 1) ≤ segs.length * (D + 1) := Nat.mul_le_mul_right _ hl
    rw [Nat.add_mul] at hf
    omega
  unfold patternGlobRaw
  split
  · exact h1 _ _ (by simp) (Or.inr ⟨[], rfl⟩)
  · exact h1 _ _ (Nat.le_refl _) (Or.inl rfl)

theorem patternGlob_total (fs : FS) {D : Nat} (R : FSRank fs D) (fuel : Nat) (segs : List Seg)
    (hf : (segs.length + 1) * (D + 1) < fuel) : ∃ outs, patternGlob fs fuel segs = .ok outs := by
  obtain ⟨raw, hr⟩ := patternGlobRaw_total fs R fuel segs hf
  exact ⟨dedup raw [], by simp [patternGlob, hr, bind, Res.bind, pure]⟩

/-! ## More fuel never changes a result -/

theorem forEntries_mono {f g : Bytes → Bool → Res (List Out)}
    (h : ∀ n d a, f n d = .ok a → g n d = .ok a) : ∀ (es : List (Bytes × Bool)) (o : List Out),
    forEntries es f = .ok o → forEntries es g = .ok o := by
  intro es
  induction es with
  | nil => intro o ho; exact ho
  | cons e rest ih =>
    intro o ho
    obtain ⟨n0, d0⟩ := e
    simp only [forEntries] at ho ⊢
    obtain ⟨a, ha, ho⟩ := bind_eq_ok.1 ho
    obtain ⟨b, hb, ho⟩ := bind_eq_ok.1 ho
    exact bind_eq_ok.2 ⟨a, h _ _ _ ha, bind_eq_ok.2 ⟨b, ih _ hb, ho⟩⟩

theorem enumBody_mono {r1 r2 : List Seg → Bytes → Res (List Out)}
    (h : ∀ s d a, r1 s d = .ok a → r2 s d = .ok a) (dir : Bytes) (es : List (Bytes × Bool))
    (pre segs' : List Seg) (o : List Out)
    (ho : (forEntries es fun name isDir => do
      if (← matchElement pre name) && isDir then r1 segs' (dir ++ name ++ [slashByte])
      else pure []) = .ok o) :
    (forEntries es fun name isDir => do
      if (← matchElement pre name) && isDir then r2 segs' (dir ++ name ++ [slashByte])
      else pure []) = .ok o := by
  refine forEntries_mono ?_ es o ho
  intro n d a ha
  obtain ⟨b, hb, ha⟩ := bind_eq_ok.1 ha
  refine bind_eq_ok.2 ⟨b, hb, ?_⟩
  split
  · next hc => rw [if_pos hc] at ha; exact h _ _ _ ha
  · next hc => rw [if_neg hc] at ha; exact ha

theorem enum_mono (fs : FS) {r1 r2 : List Seg → Bytes → Res (List Out)}
    (h : ∀ s d a, r1 s d = .ok a → r2 s d = .ok a) (dir : Bytes) (es : List (Bytes × Bool)) :
    ∀ (post pre : List Seg) (o : List Out), enum fs r1 dir es pre post = .ok o →
    enum fs r2 dir es pre post = .ok o := by
  intro post
  induction post with
  | nil => intro pre o ho; unfold enum at ho ⊢; exact ho
  | cons x rest ih =>
    intro pre o ho
    cases x with
    | slash =>
      unfold enum at ho ⊢
      exact enumBody_mono h dir es pre rest o ho
    | lit d =>
      unfold enum at ho ⊢
      exact ih _ _ ho
    | wild w =>
      unfold enum at ho ⊢
      split
      · next hw =>
        rw [if_pos hw] at ho
        obtain ⟨a, ha, ho⟩ := bind_eq_ok.1 ho
        obtain ⟨b, hb, ho⟩ := bind_eq_ok.1 ho
        exact bind_eq_ok.2 ⟨a, enumBody_mono h dir es _ _ a ha, bind_eq_ok.2 ⟨b, ih _ _ hb, ho⟩⟩
      · next hw =>
        rw [if_neg hw] at ho
        exact ih _ _ ho

/-- A run that returned keeps its result under any larger fuel: the fuel only
decides between a result and `FUEL`. -/
theorem glob_mono (fs : FS) : ∀ (f1 f2 : Nat) (segs : List Seg) (dir : Bytes) (o : List Out), f1 ≤ f2 →
    glob fs f1 segs dir = .ok o → glob fs f2 segs dir = .ok o := by
  intro f1
  induction f1 with
  | zero => intro f2 segs dir o _ h; simp [glob] at h
  | succ f1 ih =>
    intro f2 segs dir o hle h
    obtain ⟨f2', rfl⟩ : ∃ k, f2 = k + 1 := ⟨f2 - 1, by omega⟩
    unfold glob at h ⊢
    split
    · next hfl => rw [hfl] at h; exact h
    · next segs1 dir1 hfl =>
      rw [hfl] at h
      simp only at h ⊢
      split
      · exact h
      · exact h
      · next hne1 hne2 =>
        split at h
        · exact absurd rfl (hne1)
        · next d => exact absurd rfl (hne2 d)
        · split
          · next hrd => rw [hrd] at h; exact h
          · next es hrd =>
            rw [hrd] at h
            exact enum_mono fs (fun s d a ha => ih f2' s d a (by omega) ha) dir1 es _ _ o h

theorem patternGlob_mono (fs : FS) (f1 f2 : Nat) (segs : List Seg) (o : List Out) (hle : f1 ≤ f2)
    (h : patternGlob fs f1 segs = .ok o) : patternGlob fs f2 segs = .ok o := by
  unfold patternGlob at h ⊢
  obtain ⟨raw, hr, ho⟩ := bind_eq_ok.1 h
  refine bind_eq_ok.2 ⟨raw, ?_, ho⟩
  unfold patternGlobRaw at hr ⊢
  split
  · exact glob_mono fs _ _ _ _ _ hle hr
  · next hns =>
    split at hr
    · next rest => exact absurd rfl (hns rest)
    · exact glob_mono fs _ _ _ _ _ hle hr

end C23
