/-
C06 helper lemmas, part 9: histories over named versions.  A history is a
list of operations, each applied to an earlier version (by position in the
store) and appending its result to the store.  The same history is run on
plain lists.  The refinement theorem says that the two runs stay in the
abstraction relation; since the store only grows, every earlier version keeps
representing the same list after every later step.
-/
import ElvProofs.C06.Reach
namespace C06
open Go

variable {α : Type}

inductive Op (α : Type) where
  | conj (src : Nat) (x : α)
  | assoc (src : Nat) (i : Int) (x : α)
  | pop (src : Nat)
  | sub (src : Nat) (i j : Int)

/-- one operation on the model of the Go code -/
def Op.apply (w : Vec α) : Op α → Res (Vec α)
  | .conj _ x => w.Conj x
  | .assoc _ i x => w.Assoc i x
  | .pop _ => w.Pop
  | .sub _ i j => w.SubVector i j

def Op.src : Op α → Nat
  | .conj s _ => s
  | .assoc s _ _ => s
  | .pop s => s
  | .sub s _ _ => s

/-- the same operation on a plain list; `none` = "no value" -/
def Op.spec (l : List α) : Op α → Option (List α)
  | .conj _ x => some (l ++ [x])
  | .assoc _ i x =>
    if i < 0 ∨ i > l.length then none
    else if i = l.length then some (l ++ [x])
    else some (l.set i.toNat x)
  | .pop _ => if l.isEmpty then none else some l.dropLast
  | .sub _ i j =>
    if 0 ≤ i ∧ i ≤ j ∧ j ≤ l.length then some ((l.drop i.toNat).take (j.toNat - i.toNat)) else none

/-- run a history on the model: every result (also a nil one) becomes a new version -/
def runHist : List (Op α) → List (Vec α) → Res (List (Vec α))
  | [], st => .ok st
  | op :: rest, st =>
    match st[op.src]? with
    | none => .exc "no such version"
    | some w => do
      let w' ← op.apply w
      runHist rest (st ++ [w'])

/-- run a history on plain lists; an operation on a missing version or on a
"no value" version is not a history (`none`). -/
def specHist : List (Op α) → List (Option (List α)) → Option (List (Option (List α)))
  | [], st => some st
  | op :: rest, st =>
    match st[op.src]? with
    | some (some l) => specHist rest (st ++ [op.spec l])
    | _ => none

/-- a version against its specification -/
def VRel (w : Vec α) : Option (List α) → Prop
  | none => w = .nil
  | some l => VReps w l

def Sim : List (Vec α) → List (Option (List α)) → Prop
  | [], [] => True
  | w :: cs, a :: as => VRel w a ∧ Sim cs as
  | _, _ => False

theorem Sim.lookup : ∀ {cs : List (Vec α)} {as : List (Option (List α))}, Sim cs as →
    ∀ (k : Nat) (a : Option (List α)), as[k]? = some a → ∃ w, cs[k]? = some w ∧ VRel w a := by
  intro cs
  induction cs with
  | nil =>
    intro as h k a hk
    cases as with
    | nil => simp at hk
    | cons _ _ => exact absurd h id
  | cons w cs ih =>
    intro as h k a hk
    cases as with
    | nil => exact absurd h id
    | cons a' as =>
      obtain ⟨h1, h2⟩ := h
      cases k with
      | zero =>
        simp at hk
        subst hk
        exact ⟨w, by simp, h1⟩
      | succ k =>
        simp at hk
        obtain ⟨w', hw', hr⟩ := ih h2 k a hk
        exact ⟨w', by simpa using hw', hr⟩

theorem Sim.snoc : ∀ {cs : List (Vec α)} {as : List (Option (List α))} {w : Vec α}
    {a : Option (List α)}, Sim cs as → VRel w a → Sim (cs ++ [w]) (as ++ [a]) := by
  intro cs
  induction cs with
  | nil =>
    intro as w a h hr
    cases as with
    | nil => exact ⟨hr, trivial⟩
    | cons _ _ => exact absurd h id
  | cons w' cs ih =>
    intro as w a h hr
    cases as with
    | nil => exact absurd h id
    | cons a' as => exact ⟨h.1, ih h.2 hr⟩

/-- one operation refines its specification -/
theorem op_refines {w : Vec α} {l : List α} (H : VReps w l) (op : Op α) :
    ∃ w', op.apply w = .ok w' ∧ VRel w' (op.spec l) := by
  cases op with
  | conj s x =>
    obtain ⟨w', h1, h2⟩ := vreps_conj H x
    exact ⟨w', h1, h2⟩
  | assoc s i x =>
    simp only [Op.apply, Op.spec]
    by_cases h1 : i < 0 ∨ i > l.length
    · rw [if_pos h1]
      exact ⟨.nil, vreps_assoc_nil H i x h1, rfl⟩
    · rw [if_neg h1]
      by_cases h2 : i = l.length
      · rw [if_pos h2]
        obtain ⟨w', h3, h4⟩ := vreps_assoc_end H i x h2
        exact ⟨w', h3, h4⟩
      · rw [if_neg h2]
        obtain ⟨w', h3, h4⟩ := vreps_assoc_set H i x (by omega) (by omega)
        exact ⟨w', h3, h4⟩
  | pop s =>
    simp only [Op.apply, Op.spec]
    cases l with
    | nil => exact ⟨.nil, vreps_pop_nil H, rfl⟩
    | cons a t =>
      obtain ⟨w', h1, h2⟩ := vreps_pop H (by simp)
      exact ⟨w', h1, h2⟩
  | sub s i j =>
    simp only [Op.apply, Op.spec]
    by_cases h : 0 ≤ i ∧ i ≤ j ∧ j ≤ l.length
    · rw [if_pos h]
      obtain ⟨w', h1, h2⟩ := vreps_subVector_ok H h
      exact ⟨w', h1, h2⟩
    · rw [if_neg h]
      exact ⟨.nil, vreps_subVector_nil H h, rfl⟩

/-- Histories refine: no panic, every new version represents the list the
plain-array run computes (or is nil exactly when that run has no value), and
both stores only grow — the old versions are still there, unchanged. -/
theorem hist_refines : ∀ (ops : List (Op α)) {cs : List (Vec α)} {as as' : List (Option (List α))},
    Sim cs as → specHist ops as = some as' →
    ∃ cs', runHist ops cs = .ok cs' ∧ Sim cs' as' ∧ cs <+: cs' ∧ as <+: as' := by
  intro ops
  induction ops with
  | nil =>
    intro cs as as' h hs
    simp only [specHist, Option.some.injEq] at hs
    subst hs
    exact ⟨cs, rfl, h, List.prefix_refl _, List.prefix_refl _⟩
  | cons op rest ih =>
    intro cs as as' h hs
    simp only [specHist] at hs
    split at hs
    · rename_i l hl
      obtain ⟨w, hw, hr⟩ := h.lookup _ _ hl
      obtain ⟨w', h1, h2⟩ := op_refines (show VReps w l from hr) op
      obtain ⟨cs', h3, h4, h5, h6⟩ := ih (h.snoc h2) hs
      refine ⟨cs', ?_, h4, ?_, ?_⟩
      · simp only [runHist, hw, h1, ok_bind]
        exact h3
      · exact List.IsPrefix.trans (List.prefix_append _ _) h5
      · exact List.IsPrefix.trans (List.prefix_append _ _) h6
    · exact absurd hs (by simp)

/-- the store only grows -/
theorem runHist_prefix : ∀ (ops : List (Op α)) {cs cs' : List (Vec α)},
    runHist ops cs = .ok cs' → cs <+: cs' := by
  intro ops
  induction ops with
  | nil =>
    intro cs cs' hrun
    simp only [runHist, Res.ok.injEq] at hrun
    exact hrun ▸ List.prefix_refl _
  | cons op rest ih =>
    intro cs cs' hrun
    simp only [runHist] at hrun
    split at hrun
    · exact absurd hrun (by simp)
    · rename_i w0 _
      cases hop : op.apply w0 with
      | ok w' =>
        rw [hop] at hrun
        exact List.IsPrefix.trans (List.prefix_append _ _) (ih hrun)
      | exc e => rw [hop] at hrun; simp at hrun
      | panic e => rw [hop] at hrun; simp at hrun

end C06
