/-
C06 helper lemmas, part 8: every list is represented by some vector
(non-vacuity of the abstraction relation), and the relation is functional.
-/
import ElvProofs.C06.Iface
namespace C06
open Go
open Gen.C06Consts

variable {α : Type}

theorem exists_reps_of_length (n : Nat) : ∀ l : List α, l.length = n → ∃ v, Reps v l := by
  induction n with
  | zero =>
    intro l hl
    have : l = [] := List.length_eq_zero_iff.mp hl
    subst this
    exact ⟨empty, reps_empty⟩
  | succ n ih =>
    intro l hl
    have hne : l ≠ [] := by intro h; subst h; simp at hl
    obtain ⟨v, hv⟩ := ih l.dropLast (by rw [List.length_dropLast]; omega)
    obtain ⟨v', _, hv'⟩ := vConj_spec hv (l.getLast hne)
    rw [List.dropLast_concat_getLast hne] at hv'
    exact ⟨v', hv'⟩

/-- every list is the abstraction of some well-formed vector (built by `Conj`) -/
theorem exists_reps (l : List α) : ∃ v, Reps v l := exists_reps_of_length l.length l rfl

/-- a well-formed vector represents exactly one list -/
theorem vreps_functional {w : Vec α} {l l' : List α} (H : VReps w l) (H' : VReps w l') : l = l' := by
  apply List.ext_getElem?
  intro i
  have h1 := vreps_index H (i : Int)
  have h2 := vreps_index H' (i : Int)
  rw [h1] at h2
  simp only [Int.toNat_natCast, Int.natCast_nonneg, if_true] at h2
  cases h : l[i]? <;> cases h' : l'[i]? <;> simp [h, h'] at h2 ⊢
  exact h2

end C06
