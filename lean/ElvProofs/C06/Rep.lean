/-
C06 helper lemmas, part 2: the tree invariant `RepF` and the specification of
every tree-level function (`descend`, `doAssoc`, `newPath`, `pushTail`,
`popTail`) against it.

`RepF h s n f`: the slot `s` is a well-formed subtree of height `h` holding
exactly the `n` elements `f 0 … f (n-1)` (`0 < n ≤ cap h`, `n` a multiple of
the leaf size; leaves are full, children to the left of the last non-empty
child are full, children to its right are untyped nil).
-/
import ElvProofs.C06.Arith
namespace C06
open Go
open Gen.C06Consts

variable {α : Type}

def RepF : Nat → Slot α → Nat → (Nat → Option α) → Prop
  | 0, s, n, f => ∃ cs, s = .node cs ∧ cs.length = nodeSize ∧ n = nodeSize ∧
      ∀ i, i < nodeSize → ∃ a, f i = some a ∧ cs[i]? = some (.val a)
  | h + 1, s, n, f => ∃ cs, s = .node cs ∧ cs.length = nodeSize ∧ 0 < n ∧ n ≤ cap (h + 1) ∧
      nodeSize ∣ n ∧
      ∀ k, k < nodeSize → ∃ c, cs[k]? = some c ∧
        ((n ≤ cap h * k ∧ c = .nil) ∨
         (cap h * k < n ∧ RepF h c (min (cap h) (n - cap h * k)) (fun i => f (cap h * k + i))))

theorem RepF.bounds {h : Nat} {s : Slot α} {n : Nat} {f : Nat → Option α} (H : RepF h s n f) :
    0 < n ∧ n ≤ cap h ∧ nodeSize ∣ n := by
  cases h with
  | zero =>
    obtain ⟨cs, _, _, hn, _⟩ := H
    subst hn
    exact ⟨nodeSize_pos, by rw [cap_zero]; exact Nat.le_refl _, Nat.dvd_refl _⟩
  | succ h =>
    obtain ⟨cs, _, _, h0, h1, h2, _⟩ := H
    exact ⟨h0, h1, h2⟩

theorem RepF.isNode {h : Nat} {s : Slot α} {n : Nat} {f : Nat → Option α} (H : RepF h s n f) :
    ∃ cs, s = .node cs ∧ cs.length = nodeSize := by
  cases h with
  | zero => obtain ⟨cs, h1, h2, _⟩ := H; exact ⟨cs, h1, h2⟩
  | succ h => obtain ⟨cs, h1, h2, _⟩ := H; exact ⟨cs, h1, h2⟩

theorem RepF.congr {h : Nat} : ∀ {s : Slot α} {n : Nat} {f g : Nat → Option α},
    (∀ i, i < n → f i = g i) → RepF h s n f → RepF h s n g := by
  induction h with
  | zero =>
    intro s n f g hfg H
    obtain ⟨cs, h1, h2, hn, h3⟩ := H
    refine ⟨cs, h1, h2, hn, ?_⟩
    intro i hi
    obtain ⟨a, ha, hc⟩ := h3 i hi
    exact ⟨a, by rw [← hfg i (by omega)]; exact ha, hc⟩
  | succ h ih =>
    intro s n f g hfg H
    obtain ⟨cs, h1, h2, h0, hle, hd, h3⟩ := H
    refine ⟨cs, h1, h2, h0, hle, hd, ?_⟩
    intro k hk
    obtain ⟨c, hc, hcase⟩ := h3 k hk
    refine ⟨c, hc, ?_⟩
    rcases hcase with ⟨ha, hb⟩ | ⟨ha, hb⟩
    · exact Or.inl ⟨ha, hb⟩
    · refine Or.inr ⟨ha, ih ?_ hb⟩
      intro i hi
      apply hfg
      have : min (cap h) (n - cap h * k) ≤ n - cap h * k := Nat.min_le_right _ _
      omega

/-! ### arithmetic of positions -/

theorem div_mod_unique {S a r : Nat} (hr : r < S) : (S * a + r) / S = a ∧ (S * a + r) % S = r := by
  have hS : 0 < S := by omega
  constructor
  · rw [Nat.mul_add_div hS, Nat.div_eq_of_lt hr, Nat.add_zero]
  · rw [Nat.mul_add_mod, Nat.mod_eq_of_lt hr]

theorem mul_add_inj {S k k' i q : Nat} (hi : i < S) (hq : q < S) (h : S * k' + i = S * k + q) :
    k' = k ∧ i = q := by
  have h1 := (div_mod_unique (a := k') hi)
  have h2 := (div_mod_unique (a := k) hq)
  rw [h] at h1
  exact ⟨by rw [← h1.1, h2.1], by rw [← h1.2, h2.2]⟩

theorem block_split {B S k q : Nat} (hB : 0 < B) (hS : B ∣ S) :
    B * ((S * k + q) / B) = S * k + B * (q / B) := by
  obtain ⟨S', rfl⟩ := hS
  rw [Nat.mul_assoc, Nat.mul_add_div hB, Nat.mul_add]

/-- monotonicity of `S * k` in the form `omega` can use -/
theorem mul_succ_le {S k k' : Nat} (h : k' < k) : S * k' + S ≤ S * k := by
  have := Nat.mul_le_mul_left S (show k' + 1 ≤ k from h)
  rw [Nat.mul_succ] at this
  exact this

/-! ### `descend`: the leaf of position `i` -/

theorem descend_spec {h : Nat} : ∀ {cs : Arr α} {n : Nat} {f : Nat → Option α} (i : Nat),
    RepF h (.node cs) n f → i % cap h < n →
    ∃ leaf, descend h (some cs) i = .ok (some leaf) ∧ leaf.length = nodeSize ∧
      ∀ j, j < nodeSize →
        ∃ a, f (nodeSize * ((i % cap h) / nodeSize) + j) = some a ∧ leaf[j]? = some (.val a) := by
  induction h with
  | zero =>
    intro cs n f i H hi
    obtain ⟨cs', h1, h2, hn, h3⟩ := H
    cases h1
    refine ⟨cs, rfl, h2, ?_⟩
    intro j hj
    have : i % cap 0 / nodeSize = 0 := by
      rw [cap_zero]; exact Nat.div_eq_of_lt (Nat.mod_lt _ nodeSize_pos)
    rw [this, Nat.mul_zero, Nat.zero_add]
    exact h3 j hj
  | succ h ih =>
    intro cs n f i H hi
    obtain ⟨cs', h1, h2, h0, hle, hd, h3⟩ := H
    cases h1
    have hp : i % cap (h + 1) < cap (h + 1) := Nat.mod_lt _ (cap_pos _)
    obtain ⟨hsplit, hq, hk⟩ := split_pos h _ hp
    obtain ⟨c, hc, hcase⟩ := h3 _ hk
    rcases hcase with ⟨ha, _⟩ | ⟨ha, hb⟩
    · omega
    · obtain ⟨ccs, rfl, _⟩ := hb.isNode
      have hlocal : i % cap h = i % cap (h + 1) % cap h := (mod_cap_succ_mod h i).symm
      have hlt : i % cap h < min (cap h) (n - cap h * (i % cap (h + 1) / cap h)) := by
        rw [hlocal]
        apply Nat.lt_min.mpr
        constructor
        · exact hq
        · omega
      obtain ⟨leaf, hdesc, hlen, hleaf⟩ := ih i hb hlt
      refine ⟨leaf, ?_, hlen, ?_⟩
      · simp only [descend, deref_some, ok_bind]
        rw [digit_succ_local, getIdx_of_getElem? hc]
        simp only [ok_bind, asNode_node]
        exact hdesc
      · intro j hj
        obtain ⟨a, ha1, ha2⟩ := hleaf j hj
        refine ⟨a, ?_, ha2⟩
        rw [← ha1, hlocal]
        congr 1
        have := block_split (B := nodeSize) (S := cap h) (k := i % cap (h + 1) / cap h)
          (q := i % cap (h + 1) % cap h) nodeSize_pos (nodeSize_dvd_cap h)
        rw [hsplit] at this
        omega

/-! ### `doAssoc` -/

theorem doAssoc_spec {h : Nat} : ∀ {cs : Arr α} {n : Nat} {f : Nat → Option α} (i : Nat) (x : α),
    RepF h (.node cs) n f → i % cap h < n →
    ∃ cs', doAssoc h (some cs) i x = .ok (some cs') ∧
      RepF h (.node cs') n (fun j => if j = i % cap h then some x else f j) := by
  induction h with
  | zero =>
    intro cs n f i x H hi
    obtain ⟨cs', h1, h2, hn, h3⟩ := H
    cases h1
    have hlt : i % nodeSize < cs.length := by rw [h2]; exact Nat.mod_lt _ nodeSize_pos
    refine ⟨cs.set (i % nodeSize) (.val x), ?_, ?_⟩
    · simp only [doAssoc, deref_some, ok_bind, and_mask, setIdx_of_lt _ hlt, pure_eq_ok]
    · refine ⟨_, rfl, by simp [h2], hn, ?_⟩
      intro j hj
      rw [cap_zero]
      by_cases hji : j = i % nodeSize
      · subst hji
        exact ⟨x, by simp, by simp [hlt]⟩
      · obtain ⟨a, ha1, ha2⟩ := h3 j hj
        refine ⟨a, by simp [hji, ha1], ?_⟩
        rw [List.getElem?_set]
        simp [Ne.symm hji, ha2]
  | succ h ih =>
    intro cs n f i x H hi
    obtain ⟨cs', h1, h2, h0, hle, hd, h3⟩ := H
    cases h1
    have hp : i % cap (h + 1) < cap (h + 1) := Nat.mod_lt _ (cap_pos _)
    obtain ⟨hsplit, hq, hk⟩ := split_pos h _ hp
    obtain ⟨c, hc, hcase⟩ := h3 _ hk
    rcases hcase with ⟨ha, _⟩ | ⟨ha, hb⟩
    · omega
    · obtain ⟨ccs, rfl, _⟩ := hb.isNode
      have hlocal : i % cap h = i % cap (h + 1) % cap h := (mod_cap_succ_mod h i).symm
      have hlt : i % cap h < min (cap h) (n - cap h * (i % cap (h + 1) / cap h)) := by
        rw [hlocal]
        apply Nat.lt_min.mpr
        constructor
        · exact hq
        · omega
      obtain ⟨ccs', hrec, hrep⟩ := ih i x hb hlt
      have hklt : i % cap (h + 1) / cap h < cs.length := by rw [h2]; exact hk
      refine ⟨cs.set (i % cap (h + 1) / cap h) (.node ccs'), ?_, ?_⟩
      · simp only [doAssoc, deref_some, ok_bind]
        rw [digit_succ_local, getIdx_of_getElem? hc]
        simp only [ok_bind, asNode_node, hrec, toAny_some, setIdx_of_lt _ hklt, pure_eq_ok]
      · refine ⟨_, rfl, by simp [h2], h0, hle, hd, ?_⟩
        intro k' hk'
        by_cases hkk : k' = i % cap (h + 1) / cap h
        · subst hkk
          refine ⟨.node ccs', by simp [hklt], Or.inr ⟨ha, ?_⟩⟩
          refine RepF.congr ?_ hrep
          intro j hj
          have hjS : j < cap h := Nat.lt_of_lt_of_le hj (Nat.min_le_left _ _)
          by_cases hjq : j = i % cap h
          · subst hjq
            have : cap h * (i % cap (h + 1) / cap h) + i % cap h = i % cap (h + 1) := by
              rw [hlocal]; exact hsplit
            simp [this]
          · have : cap h * (i % cap (h + 1) / cap h) + j ≠ i % cap (h + 1) := by
              intro heq
              rw [← hsplit] at heq
              have := (mul_add_inj hjS hq heq).2
              rw [← hlocal] at this
              exact hjq this
            simp [hjq, this]
        · obtain ⟨c', hc', hcase'⟩ := h3 k' hk'
          refine ⟨c', by rw [List.getElem?_set]; simp [Ne.symm hkk, hc'], ?_⟩
          rcases hcase' with ⟨hx, hy⟩ | ⟨hx, hy⟩
          · exact Or.inl ⟨hx, hy⟩
          · refine Or.inr ⟨hx, RepF.congr ?_ hy⟩
            intro j hj
            have hjS : j < cap h := Nat.lt_of_lt_of_le hj (Nat.min_le_left _ _)
            have : cap h * k' + j ≠ i % cap (h + 1) := by
              intro heq
              rw [← hsplit] at heq
              exact hkk (mul_add_inj hjS hq heq).1
            simp [this]

end C06
