/-
C06 helper lemmas, part 3: `newPath` and `pushTail` against `RepF`.
-/
import ElvProofs.C06.Rep
namespace C06
open Go
open Gen.C06Consts

variable {α : Type}

theorem newNode_length : (newNode : Arr α).length = nodeSize := by simp [newNode]

theorem newNode_getElem? {k : Nat} (hk : k < nodeSize) : (newNode : Arr α)[k]? = some .nil := by
  simp [newNode, hk]

theorem newPath_spec {lf : Arr α} {g : Nat → Option α} (hl : RepF 0 (.node lf) nodeSize g) :
    ∀ h, ∃ cs', newPath h (some lf) = .ok (some cs') ∧ RepF h (.node cs') nodeSize g := by
  intro h
  induction h with
  | zero => exact ⟨lf, rfl, hl⟩
  | succ h ih =>
    obtain ⟨p, hp, hrep⟩ := ih
    have h0 : 0 < (newNode : Arr α).length := by rw [newNode_length]; exact nodeSize_pos
    refine ⟨(newNode : Arr α).set 0 (.node p), ?_, ?_⟩
    · simp only [newPath, hp, ok_bind, toAny_some, setIdx_of_lt _ h0, pure_eq_ok]
    · refine ⟨_, rfl, by simp [newNode_length], nodeSize_pos, nodeSize_le_cap _, Nat.dvd_refl _, ?_⟩
      intro k hk
      have hB := nodeSize_le_cap h
      by_cases hk0 : k = 0
      · subst hk0
        refine ⟨.node p, by simp [h0], Or.inr ⟨by simp [nodeSize_pos], ?_⟩⟩
        have hmin : min (cap h) (nodeSize - cap h * 0) = nodeSize := by
          rw [Nat.mul_zero, Nat.sub_zero]; exact Nat.min_eq_right hB
        rw [hmin]
        exact RepF.congr (by intro i _; simp) hrep
      · refine ⟨.nil, ?_, Or.inl ⟨?_, rfl⟩⟩
        · rw [List.getElem?_set]
          simp [Ne.symm hk0, newNode_getElem? hk]
        · have : cap h * 1 ≤ cap h * k := Nat.mul_le_mul_left _ (by omega)
          omega

theorem pushTail_spec {lf : Arr α} {g : Nat → Option α} (hl : RepF 0 (.node lf) nodeSize g)
    (count : Nat) {h : Nat} :
    ∀ {cs : Arr α} {n : Nat} {f f' : Nat → Option α},
      RepF h (.node cs) n f → n + nodeSize ≤ cap h → (count - 1) % cap h = n + nodeSize - 1 →
      (∀ i, i < n → f' i = f i) → (∀ i, i < nodeSize → f' (n + i) = g i) →
      ∃ cs', pushTail count h (some cs) (some lf) = .ok (some cs') ∧
        RepF h (.node cs') (n + nodeSize) f' := by
  induction h with
  | zero =>
    intro cs n f f' H hroom _ _ _
    have := H.bounds
    rw [cap_zero] at hroom this
    have := nodeSize_pos
    omega
  | succ h ih =>
    intro cs n f f' H hroom hpos hold hnew
    obtain ⟨cs', h1, h2, h0, hle, hd, h3⟩ := H
    cases h1
    have hBpos := nodeSize_pos
    have hBS := nodeSize_le_cap h
    have hSpos := cap_pos h
    -- split n = S * kn + qn
    have hn : cap h * (n / cap h) + n % cap h = n := Nat.div_add_mod _ _
    have hqn : n % cap h < cap h := Nat.mod_lt _ hSpos
    have hdq : nodeSize ∣ n % cap h := dvd_mod_of_dvd (nodeSize_dvd_cap h) hd
    have hroomq : n % cap h + nodeSize ≤ cap h := dvd_lt_add_le hdq (nodeSize_dvd_cap h) hqn
    have hkn : n / cap h < nodeSize := by
      rw [Nat.div_lt_iff_lt_mul hSpos, Nat.mul_comm, ← cap_succ]; omega
    -- the position of the last new element
    have hp : n + nodeSize - 1 = cap h * (n / cap h) + (n % cap h + nodeSize - 1) := by omega
    have hdm := div_mod_unique (S := cap h) (a := n / cap h) (r := n % cap h + nodeSize - 1) (by omega)
    rw [← hp] at hdm
    have hdigit : digit (h + 1) (count - 1) = n / cap h := by
      rw [digit_succ_local, hpos]; exact hdm.1
    have hposc : (count - 1) % cap h = n % cap h + nodeSize - 1 := by
      rw [← mod_cap_succ_mod, hpos]; exact hdm.2
    obtain ⟨c, hc, hcase⟩ := h3 _ hkn
    have hklt : n / cap h < cs.length := by rw [h2]; exact hkn
    -- the new child
    have hchild : ∃ X, pushTail count (h + 1) (some cs) (some lf) =
          .ok (some (cs.set (n / cap h) (.node X))) ∧
        RepF h (.node X) (n % cap h + nodeSize) (fun i => f' (cap h * (n / cap h) + i)) := by
      rcases hcase with ⟨ha, hb⟩ | ⟨ha, hb⟩
      · subst hb
        have hq0 : n % cap h = 0 := by omega
        obtain ⟨X, hX, hrep⟩ := newPath_spec hl h
        refine ⟨X, ?_, ?_⟩
        · simp only [pushTail, deref_some, ok_bind, hdigit, getIdx_of_getElem? hc, hX, toAny_some,
            setIdx_of_lt _ hklt, pure_eq_ok]
        · rw [hq0, Nat.zero_add]
          refine RepF.congr ?_ hrep
          intro i hi
          rw [← hnew i hi]
          congr 1
          omega
      · obtain ⟨ccs, rfl, _⟩ := hb.isNode
        have hcnt : min (cap h) (n - cap h * (n / cap h)) = n % cap h := by
          have : n - cap h * (n / cap h) = n % cap h := by omega
          rw [this]; exact Nat.min_eq_right (Nat.le_of_lt hqn)
        rw [hcnt] at hb
        obtain ⟨X, hX, hrep⟩ := ih (f' := fun i => f' (cap h * (n / cap h) + i)) hb hroomq hposc
          (by intro i hi; exact hold _ (by omega))
          (by
            intro i hi
            rw [← hnew i hi]
            congr 1
            omega)
        refine ⟨X, ?_, hrep⟩
        simp only [pushTail, deref_some, ok_bind, hdigit, getIdx_of_getElem? hc, asNode_node, hX,
          toAny_some, setIdx_of_lt _ hklt, pure_eq_ok]
    obtain ⟨X, hX, hrepX⟩ := hchild
    refine ⟨_, hX, ?_⟩
    refine ⟨_, rfl, by simp [h2], by omega, hroom, Nat.dvd_add hd (Nat.dvd_refl _), ?_⟩
    intro k' hk'
    rcases Nat.lt_trichotomy k' (n / cap h) with hlt | heq | hgt
    · -- full children to the left: unchanged
      have hmono := mul_succ_le (S := cap h) hlt
      obtain ⟨c', hc', hcase'⟩ := h3 k' hk'
      refine ⟨c', by rw [List.getElem?_set]; simp [Nat.ne_of_gt hlt, hc'], ?_⟩
      rcases hcase' with ⟨hx, _⟩ | ⟨hx, hy⟩
      · omega
      · refine Or.inr ⟨by omega, ?_⟩
        have e1 : min (cap h) (n - cap h * k') = cap h := Nat.min_eq_left (by omega)
        have e2 : min (cap h) (n + nodeSize - cap h * k') = cap h := Nat.min_eq_left (by omega)
        rw [e1] at hy
        rw [e2]
        refine RepF.congr ?_ hy
        intro i hi
        exact (hold _ (by omega)).symm
    · subst heq
      refine ⟨.node X, by simp [hklt], Or.inr ⟨by omega, ?_⟩⟩
      have e : min (cap h) (n + nodeSize - cap h * (n / cap h)) = n % cap h + nodeSize := by
        have : n + nodeSize - cap h * (n / cap h) = n % cap h + nodeSize := by omega
        rw [this]; exact Nat.min_eq_right hroomq
      rw [e]
      exact hrepX
    · -- to the right: still nil
      have hmono := mul_succ_le (S := cap h) hgt
      obtain ⟨c', hc', hcase'⟩ := h3 k' hk'
      refine ⟨c', by rw [List.getElem?_set]; simp [Nat.ne_of_lt hgt, hc'], ?_⟩
      rcases hcase' with ⟨hx, hy⟩ | ⟨hx, _⟩
      · exact Or.inl ⟨by omega, hy⟩
      · omega

end C06
