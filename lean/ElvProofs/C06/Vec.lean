/-
C06 helper lemmas, part 4: the abstraction relation `Reps v l` ("the vector
`v` is well formed and represents the list `l`") and `Index`, `Conj`, `Assoc`
of `*vector` against it.
-/
import ElvProofs.C06.RepPush
namespace C06
open Go
open Gen.C06Consts

variable {α : Type}

/-- `treeSize` as a function of the length -/
def tsz (c : Nat) : Nat := if c < nodeSize then 0 else (c - 1) / nodeSize * nodeSize

theorem treeSize_eq (v : Vector α) : treeSize v = tsz v.count := by
  unfold treeSize tsz
  rw [tailMaxLen_eq, Nat.shiftRight_eq_div_pow, Nat.shiftLeft_eq, ← nodeSize_eq]

/-- `c = B*m + r` with `1 ≤ r ≤ B`: `m` full leaves in the tree, `r` elements in the tail -/
theorem tsz_of_rep {c m r : Nat} (h : c = nodeSize * m + r) (h1 : 1 ≤ r) (h2 : r ≤ nodeSize) :
    tsz c = nodeSize * m := by
  unfold tsz
  have hB := nodeSize_pos
  split
  · rename_i hlt
    rcases Nat.eq_zero_or_pos m with h0 | h0
    · simp [h0]
    · have : nodeSize * 1 ≤ nodeSize * m := Nat.mul_le_mul_left _ h0
      omega
  · have hc : c - 1 = nodeSize * m + (r - 1) := by omega
    rw [hc, (div_mod_unique (S := nodeSize) (a := m) (r := r - 1) (by omega)).1, Nat.mul_comm]

theorem rep_exists {c : Nat} (hc : 0 < c) :
    ∃ m r, c = nodeSize * m + r ∧ 1 ≤ r ∧ r ≤ nodeSize := by
  refine ⟨(c - 1) / nodeSize, (c - 1) % nodeSize + 1, ?_, by omega, ?_⟩
  · have := Nat.div_add_mod (c - 1) nodeSize
    omega
  · have := Nat.mod_lt (c - 1) nodeSize_pos
    omega

theorem tsz_zero : tsz 0 = 0 := by
  unfold tsz; simp [nodeSize_pos]

theorem tsz_le (c : Nat) : tsz c ≤ c := by
  rcases Nat.eq_zero_or_pos c with h | h
  · subst h; rw [tsz_zero]; exact Nat.le_refl _
  · obtain ⟨m, r, h1, h2, h3⟩ := rep_exists h
    rw [tsz_of_rep h1 h2 h3]; omega

theorem tsz_dvd (c : Nat) : nodeSize ∣ tsz c := by
  unfold tsz; split
  · exact Nat.dvd_zero _
  · exact Nat.dvd_mul_left _ _

/-- `v` is well formed and represents `l` -/
structure Reps (v : Vector α) (l : List α) : Prop where
  count : v.count = l.length
  tail : v.tail = (l.drop (tsz l.length)).map Slot.val
  tree : tsz l.length = 0 ∨
    ∃ r, v.root = some r ∧ RepF v.height (.node r) (tsz l.length) (fun i => l[i]?)
  hhi : tsz l.length ≤ cap v.height
  hlow : v.height ≠ 0 → cap (v.height - 1) < tsz l.length

theorem reps_empty : Reps (empty : Vector α) [] := by
  refine ⟨rfl, ?_, Or.inl ?_, ?_, ?_⟩
  · simp [empty]
  · simp [tsz_zero]
  · simp [tsz_zero]
  · intro h; simp [empty] at h

/-! ### Index -/

theorem vIndex_spec {v : Vector α} {l : List α} (H : Reps v l) (i : Int) :
    vIndex v i = .ok (if 0 ≤ i then (l[i.toNat]?).map Slot.val else none) := by
  unfold vIndex
  have hcount := H.count
  by_cases hr : i < 0 ∨ i ≥ v.count
  · rw [if_pos hr]
    rcases hr with h | h
    · simp [show ¬ (0 ≤ i) by omega]
    · have : l.length ≤ i.toNat := by omega
      simp [show 0 ≤ i by omega, List.getElem?_eq_none this]
  · rw [if_neg hr]
    have h0 : 0 ≤ i := by omega
    have hk : i.toNat < l.length := by omega
    rw [if_pos h0]
    generalize i.toNat = k at hk
    simp only [treeSize_eq, hcount]
    have hlpos : 0 < l.length := by omega
    obtain ⟨m, r, hrep, hr1, hr2⟩ := rep_exists hlpos
    have hts := tsz_of_rep hrep hr1 hr2
    by_cases hkt : k ≥ tsz l.length
    · rw [if_pos hkt]
      have hkr : k = nodeSize * m + (k - nodeSize * m) := by omega
      have hmod : k % nodeSize = k - nodeSize * m := by
        have := (div_mod_unique (S := nodeSize) (a := m) (r := k - nodeSize * m) (by omega)).2
        rw [← hkr] at this; exact this
      have : v.tail[k &&& chunkMask]? = some (Slot.val l[k]) := by
        rw [and_mask, hmod, H.tail, hts, List.getElem?_map, List.getElem?_drop]
        have : nodeSize * m + (k - nodeSize * m) = k := by omega
        rw [this]
        simp [hk]
      simp [getIdx_of_getElem? this, hk]
    · rw [if_neg hkt]
      rcases H.tree with h | ⟨rt, hroot, hrepF⟩
      · omega
      · have hkc : k % cap v.height = k := Nat.mod_eq_of_lt (by have := H.hhi; omega)
        obtain ⟨leaf, hdesc, hlen, hleaf⟩ := descend_spec k hrepF (by omega)
        obtain ⟨a, ha1, ha2⟩ := hleaf (k % nodeSize) (Nat.mod_lt _ nodeSize_pos)
        rw [hkc, Nat.div_add_mod] at ha1
        rw [hroot, hdesc]
        simp only [ok_bind, deref_some, and_mask, getIdx_of_getElem? ha2, pure_eq_ok]
        have ha1' : l[k]? = some a := ha1
        simp [ha1']

/-! ### Conj -/

theorem nodeFromSlice_full {s : List (Slot α)} (h : s.length = nodeSize) : nodeFromSlice s = s := by
  unfold nodeFromSlice
  rw [h, Nat.sub_self, ← h, List.take_length]
  simp

theorem vConj_spec {v : Vector α} {l : List α} (H : Reps v l) (x : α) :
    ∃ v', vConj v x = .ok v' ∧ Reps v' (l ++ [x]) := by
  have hB := nodeSize_pos
  have hcount := H.count
  unfold vConj
  simp only [treeSize_eq, hcount, tailMaxLen_eq]
  -- new length c+1 = B*m' + r'
  rcases Nat.eq_zero_or_pos l.length with hl0 | hlpos
  · -- empty vector
    have hl : l = [] := List.length_eq_zero_iff.mp hl0
    subst hl
    have h2 := two_le_nodeSize
    simp only [List.length_nil, tsz_zero, Nat.sub_zero, hB, if_true]
    refine ⟨_, rfl, ?_⟩
    have hts1 : tsz 1 = 0 := by unfold tsz; rw [if_pos (by omega)]
    refine ⟨by simp, ?_, Or.inl ?_, ?_, ?_⟩
    · simp [hts1, H.tail, tsz_zero]
    · simpa using hts1
    · simp [hts1]
    · intro hh
      have := H.hlow hh
      simp [tsz_zero] at this
  · obtain ⟨m, r, hrep, hr1, hr2⟩ := rep_exists hlpos
    have hts := tsz_of_rep hrep hr1 hr2
    by_cases hroom : l.length - tsz l.length < nodeSize
    · -- room in the tail
      rw [if_pos hroom]
      refine ⟨_, rfl, ?_⟩
      have hts' : tsz (l ++ [x]).length = tsz l.length := by
        rw [hts]
        exact tsz_of_rep (m := m) (r := r + 1) (by simp; omega) (by omega) (by omega)
      refine ⟨by simp, ?_, ?_, ?_, ?_⟩
      · rw [hts', H.tail, List.drop_append_of_le_length (tsz_le _)]
        simp
      · rw [hts']
        rcases H.tree with h | ⟨rt, hroot, hrepF⟩
        · exact Or.inl h
        · refine Or.inr ⟨rt, hroot, RepF.congr ?_ hrepF⟩
          intro i hi
          have : i < l.length := Nat.lt_of_lt_of_le hi (tsz_le _)
          simp [List.getElem?_append_left this]
      · rw [hts']; exact H.hhi
      · rw [hts']; exact H.hlow
    · -- full tail: push it into the tree
      rw [if_neg hroom]
      have hrB : r = nodeSize := by omega
      subst hrB
      have htl : v.tail.length = nodeSize := by
        rw [H.tail, hts]; simp; omega
      rw [nodeFromSlice_full htl]
      have hts' : tsz (l ++ [x]).length = tsz l.length + nodeSize := by
        rw [hts]
        have := tsz_of_rep (c := (l ++ [x]).length) (m := m + 1) (r := 1)
          (by simp [Nat.mul_succ]; omega) (by omega) (by omega)
        rw [this, Nat.mul_succ]
      -- the tail as a leaf
      have hleaf : RepF 0 (.node v.tail) nodeSize (fun i => l[tsz l.length + i]?) := by
        refine ⟨_, rfl, htl, rfl, ?_⟩
        intro i hi
        have hlt : tsz l.length + i < l.length := by omega
        refine ⟨l[tsz l.length + i], by simp [hlt], ?_⟩
        rw [H.tail, List.getElem?_map, List.getElem?_drop]
        simp [hlt]
      have hold : ∀ i, i < tsz l.length → (l ++ [x])[i]? = l[i]? := by
        intro i hi
        have : i < l.length := Nat.lt_of_lt_of_le hi (tsz_le _)
        simp [List.getElem?_append_left this]
      have hnew : ∀ i, i < nodeSize → (l ++ [x])[tsz l.length + i]? = l[tsz l.length + i]? := by
        intro i hi
        have : tsz l.length + i < l.length := by omega
        simp [List.getElem?_append_left this]
      have htail' : ([Slot.val x] : List (Slot α)) =
          ((l ++ [x]).drop (tsz (l ++ [x]).length)).map Slot.val := by
        rw [hts']
        have : tsz l.length + nodeSize = l.length := by omega
        rw [this]
        simp
      -- overflow test
      have hovf : (l.length >>> chunkBits > 1 <<< (v.height * chunkBits)) ↔ tsz l.length = cap v.height := by
        rw [Nat.shiftRight_eq_div_pow, Nat.shiftLeft_eq, Nat.one_mul, Nat.pow_mul', ← nodeSize_eq]
        have hdiv : l.length / nodeSize = m + 1 := by
          have : l.length = nodeSize * (m + 1) + 0 := by rw [Nat.mul_succ]; omega
          rw [this]; exact (div_mod_unique (S := nodeSize) (a := m + 1) (r := 0) hB).1
        rw [hdiv, hts]
        have hcap : cap v.height = nodeSize * nodeSize ^ v.height := by
          unfold cap; rw [Nat.pow_succ, Nat.mul_comm]
        have hhi := H.hhi
        rw [hts, hcap] at hhi
        rw [hcap]
        constructor
        · intro hgt
          have : nodeSize * nodeSize ^ v.height ≤ nodeSize * m := Nat.mul_le_mul_left _ (by omega)
          omega
        · intro heq
          have : m = nodeSize ^ v.height := Nat.eq_of_mul_eq_mul_left hB heq
          omega
      by_cases hov : l.length >>> chunkBits > 1 <<< (v.height * chunkBits)
      · -- new root
        rw [if_pos hov]
        have hfull := hovf.mp hov
        have htpos : 0 < tsz l.length := by rw [hfull]; exact cap_pos _
        rcases H.tree with h | ⟨rt, hroot, hrepF⟩
        · omega
        · obtain ⟨p, hp, hrepP⟩ := newPath_spec hleaf v.height
          have hlen0 : 0 < (newNode : Arr α).length := by rw [newNode_length]; omega
          have hlen1 : 1 < ((newNode : Arr α).set 0 (Slot.node rt)).length := by
            simp [newNode_length]; have := two_le_nodeSize; omega
          refine ⟨_, by
            simp only [hp, ok_bind, hroot, toAny_some, setIdx_of_lt _ hlen0, setIdx_of_lt _ hlen1,
              pure_eq_ok]
            rfl, ?_⟩
          refine ⟨by simp [hcount], htail', Or.inr ⟨_, rfl, ?_⟩, ?_, ?_⟩
          · rw [hts']
            have hBc := nodeSize_le_cap v.height
            have h2 := two_le_nodeSize
            refine ⟨_, rfl, by simp [newNode_length], by omega, ?_, Nat.dvd_add (tsz_dvd _) (Nat.dvd_refl _), ?_⟩
            · rw [cap_succ, hfull]
              have : cap v.height * 2 ≤ cap v.height * nodeSize := Nat.mul_le_mul_left _ h2
              omega
            · intro k hk
              rcases Nat.lt_trichotomy k 1 with hk0 | hk1 | hk2
              · have : k = 0 := by omega
                subst this
                refine ⟨.node rt, by simp [hlen0], Or.inr ⟨by simp; omega, ?_⟩⟩
                have e : min (cap v.height) (tsz l.length + nodeSize - cap v.height * 0) = tsz l.length := by
                  rw [Nat.mul_zero, Nat.sub_zero, hfull]; exact Nat.min_eq_left (by omega)
                rw [e]
                refine RepF.congr ?_ hrepF
                intro i hi
                simp [hold i hi]
              · subst hk1
                refine ⟨.node p, by rw [List.getElem?_set, if_pos rfl, if_pos hlen1], Or.inr ⟨by rw [Nat.mul_one]; omega, ?_⟩⟩
                have e : min (cap v.height) (tsz l.length + nodeSize - cap v.height * 1) = nodeSize := by
                  rw [Nat.mul_one, hfull, Nat.add_sub_cancel_left]; exact Nat.min_eq_right hBc
                rw [e]
                refine RepF.congr ?_ hrepP
                intro i hi
                rw [Nat.mul_one, ← hfull]
                exact (hnew i hi).symm
              · refine ⟨.nil, ?_, Or.inl ⟨?_, rfl⟩⟩
                · rw [List.getElem?_set, List.getElem?_set]
                  simp [show ¬ (1 = k) by omega, show ¬ (0 = k) by omega, newNode_getElem? hk]
                · have : cap v.height * 2 ≤ cap v.height * k := Nat.mul_le_mul_left _ hk2
                  omega
          · simp only []
            rw [hts', cap_succ, hfull]
            have h2 := two_le_nodeSize
            have hBc := nodeSize_le_cap v.height
            have : cap v.height * 2 ≤ cap v.height * nodeSize := Nat.mul_le_mul_left _ h2
            omega
          · intro _
            simp only [Nat.add_sub_cancel]
            rw [hts', hfull]; omega
      · -- push into the existing tree
        rw [if_neg hov]
        have hnfull : tsz l.length ≠ cap v.height := fun h => hov (hovf.mpr h)
        have hroomT : tsz l.length + nodeSize ≤ cap v.height :=
          dvd_lt_add_le (tsz_dvd _) (nodeSize_dvd_cap _) (by have := H.hhi; omega)
        by_cases hh0 : v.height = 0
        · -- height 0: the tail becomes the root leaf
          have ht0 : tsz l.length = 0 := by
            rw [hh0, cap_zero] at hroomT; omega
          refine ⟨_, by simp only [hh0, pushTail, ok_bind, pure_eq_ok]; rfl, ?_⟩
          refine ⟨by simp [hcount], htail', Or.inr ⟨_, rfl, ?_⟩, ?_, ?_⟩
          · simp only [hh0]
            rw [hts', ht0, Nat.zero_add]
            refine RepF.congr ?_ hleaf
            intro i hi
            have := hnew i hi
            rw [ht0, Nat.zero_add] at this
            simp [ht0, this]
          · simp only [hh0]; rw [hts', ht0, cap_zero]; omega
          · intro hc; exact absurd rfl hc
        · have htpos : 0 < tsz l.length := by
            have := H.hlow hh0
            omega
          rcases H.tree with h | ⟨rt, hroot, hrepF⟩
          · omega
          · have hpos : (l.length - 1) % cap v.height = tsz l.length + nodeSize - 1 := by
              have : l.length - 1 = tsz l.length + nodeSize - 1 := by omega
              rw [this]
              exact Nat.mod_eq_of_lt (by omega)
            obtain ⟨cs', hpush, hrep'⟩ := pushTail_spec hleaf l.length hrepF hroomT hpos hold hnew
            refine ⟨_, by simp only [hroot, hpush, ok_bind, pure_eq_ok]; rfl, ?_⟩
            refine ⟨by simp [hcount], htail', Or.inr ⟨_, rfl, ?_⟩, ?_, ?_⟩
            · rw [hts']; exact hrep'
            · rw [hts']; exact hroomT
            · intro hc
              have := H.hlow hc
              simp only []
              rw [hts']; omega

end C06
