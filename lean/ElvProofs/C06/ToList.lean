/-
C06 helper lemmas, part 11: the abstraction function `toList` agrees with the
abstraction relation: `VReps w l → w.toList = l`.
-/
import ElvModel.C06.Spec
import ElvProofs.C06.Iface
namespace C06
open Go
open Gen.C06Consts

variable {α : Type}

theorem flatMap_blocks {β γ : Type} : ∀ (cs : List β) (g : β → List γ) (blk : Nat → List γ),
    (∀ k, k < cs.length → ∃ c, cs[k]? = some c ∧ g c = blk k) →
    cs.flatMap g = (List.range cs.length).flatMap blk := by
  intro cs
  induction cs with
  | nil => intro g blk _; rfl
  | cons c cs ih =>
    intro g blk h
    obtain ⟨c0, hc0, hg0⟩ := h 0 (by simp)
    simp at hc0
    subst hc0
    rw [List.flatMap_cons, List.length_cons, List.range_succ_eq_map, List.flatMap_cons, hg0,
      List.flatMap_map]
    congr 1
    exact ih g (fun k => blk (k + 1)) (fun k hk => by
      obtain ⟨c', hc', hg'⟩ := h (k + 1) (by simp; omega)
      exact ⟨c', by simpa using hc', hg'⟩)

theorem range_filterMap_add {γ : Type} (f : Nat → Option γ) (a c : Nat) :
    (List.range (a + c)).filterMap f =
      (List.range a).filterMap f ++ (List.range c).filterMap (fun i => f (a + i)) := by
  rw [List.range_add, List.filterMap_append, List.filterMap_map]
  rfl

theorem blocks_sum {γ : Type} (f : Nat → Option γ) (S n : Nat) : ∀ K : Nat,
    (List.range K).flatMap (fun k =>
      (List.range (if n ≤ S * k then 0 else min S (n - S * k))).filterMap (fun i => f (S * k + i))) =
    (List.range (min n (S * K))).filterMap f := by
  intro K
  induction K with
  | zero => simp
  | succ K ih =>
    rw [List.range_succ, List.flatMap_append, ih, List.flatMap_singleton]
    by_cases hn : n ≤ S * K
    · rw [if_pos hn]
      have e1 : min n (S * K) = n := Nat.min_eq_left hn
      have e2 : min n (S * (K + 1)) = n := Nat.min_eq_left (by rw [Nat.mul_succ]; omega)
      rw [e1, e2]; simp
    · rw [if_neg hn]
      have e1 : min n (S * K) = S * K := Nat.min_eq_right (by omega)
      have e2 : min n (S * (K + 1)) = S * K + min S (n - S * K) := by
        rw [Nat.mul_succ]; omega
      rw [e1, e2, range_filterMap_add]

theorem elems_spec {h : Nat} : ∀ {s : Slot α} {n : Nat} {f : Nat → Option α},
    RepF h s n f → elems h s = (List.range n).filterMap f := by
  induction h with
  | zero =>
    intro s n f H
    obtain ⟨cs, rfl, h2, rfl, h3⟩ := H
    simp only [elems]
    have : cs.map slotVal = (List.range nodeSize).map f := by
      apply List.ext_getElem?
      intro i
      rw [List.getElem?_map, List.getElem?_map]
      by_cases hi : i < nodeSize
      · obtain ⟨a, ha1, ha2⟩ := h3 i hi
        rw [ha2, List.getElem?_range hi]
        simp [slotVal, ha1]
      · have e1 : cs.length ≤ i := by omega
        have e2 : (List.range nodeSize).length ≤ i := by simp; omega
        rw [List.getElem?_eq_none e1, List.getElem?_eq_none e2]
        rfl
    have h1 : cs.filterMap slotVal = (cs.map slotVal).filterMap id := by
      rw [List.filterMap_map]; rfl
    have h4 : (List.range nodeSize).filterMap f = ((List.range nodeSize).map f).filterMap id := by
      rw [List.filterMap_map]; rfl
    rw [h1, h4, this]
  | succ h ih =>
    intro s n f H
    obtain ⟨cs, rfl, h2, h0, hle, hd, h3⟩ := H
    simp only [elems]
    rw [flatMap_blocks cs (elems h) (fun k =>
      (List.range (if n ≤ cap h * k then 0 else min (cap h) (n - cap h * k))).filterMap
        (fun i => f (cap h * k + i)))]
    · rw [blocks_sum, h2]
      have : min n (cap h * nodeSize) = n := Nat.min_eq_left (by rw [← cap_succ]; exact hle)
      rw [this]
    · intro k hk
      obtain ⟨c, hc, hcase⟩ := h3 k (by omega)
      refine ⟨c, hc, ?_⟩
      rcases hcase with ⟨hx, rfl⟩ | ⟨hx, hy⟩
      · show elems h Slot.nil = _
        rw [if_pos hx]
        cases h <;> rfl
      · show elems h c = _
        rw [if_neg (by omega)]
        exact ih hy

theorem range_filterMap_getElem? (l : List α) : ∀ n : Nat,
    (List.range n).filterMap (fun i => l[i]?) = l.take n := by
  intro n
  induction n with
  | zero => simp
  | succ n ih =>
    rw [List.range_succ, List.filterMap_append, ih, List.take_add_one]
    congr 1

theorem filterMap_slotVal_map (l : List α) : (l.map Slot.val).filterMap slotVal = l := by
  rw [List.filterMap_map]
  have : (slotVal ∘ (Slot.val : α → Slot α)) = some := rfl
  rw [this, List.filterMap_some]

theorem reps_toList {v : Vector α} {l : List α} (H : Reps v l) : v.toList = l := by
  unfold Vector.toList
  rw [treeSize_eq, H.count, H.tail, filterMap_slotVal_map]
  by_cases h0 : tsz l.length = 0
  · rw [if_pos h0, h0]; simp
  · rw [if_neg h0]
    rcases H.tree with h | ⟨r, hroot, hrepF⟩
    · exact absurd h h0
    · rw [hroot, toAny_some, elems_spec hrepF, range_filterMap_getElem?, List.take_append_drop]

/-- the abstraction function computes the represented list -/
theorem vreps_toList {w : Vec α} {l : List α} (H : VReps w l) : w.toList = l := by
  cases w with
  | nil => exact absurd H id
  | vec v => exact reps_toList H
  | sub v b e =>
    obtain ⟨lp, hR, _, _, _, rfl⟩ := H
    simp only [Vec.toList, reps_toList hR]
    rfl

/-- well-formedness of an interface value -/
def WF (w : Vec α) : Prop := ∃ l, VReps w l

theorem WF.vreps {w : Vec α} (H : WF w) : VReps w w.toList := by
  obtain ⟨l, hl⟩ := H
  rw [vreps_toList hl]; exact hl

end C06
