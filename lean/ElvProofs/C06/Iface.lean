/-
C06 helper lemmas, part 7: the `Vector` interface (`*vector` and `*subVector`
behind dynamic dispatch) against the abstraction relation `VReps`.
-/
import ElvProofs.C06.Vec2
namespace C06
open Go
open Gen.C06Consts

variable {α : Type}

/-- `l[b:e]` of a plain list -/
def lslice (l : List α) (b e : Nat) : List α := (l.drop b).take (e - b)

theorem lslice_getElem? (l : List α) (b e i : Nat) :
    (lslice l b e)[i]? = if i < e - b then l[b + i]? else none := by
  unfold lslice
  rw [List.getElem?_take, List.getElem?_drop]

theorem lslice_length {l : List α} {b e : Nat} (hbe : b ≤ e) (he : e ≤ l.length) :
    (lslice l b e).length = e - b := by
  unfold lslice
  rw [List.length_take, List.length_drop]
  omega

/-- the interface value `w` is well formed and represents `l` -/
def VReps : Vec α → List α → Prop
  | .nil, _ => False
  | .vec v, l => Reps v l
  | .sub v b e, l => ∃ lp, Reps v lp ∧ 0 ≤ b ∧ b ≤ e ∧ e ≤ lp.length ∧ l = lslice lp b.toNat e.toNat

theorem vreps_len {w : Vec α} {l : List α} (H : VReps w l) : w.Len = .ok (l.length : Int) := by
  cases w with
  | nil => exact absurd H id
  | vec v => simp only [Vec.Len]; rw [(show Reps v l from H).count]
  | sub v b e =>
    obtain ⟨lp, _, hb, hbe, he, rfl⟩ := H
    simp only [Vec.Len]
    rw [lslice_length (by omega) (by omega)]
    congr 1
    omega

theorem vreps_index {w : Vec α} {l : List α} (H : VReps w l) (i : Int) :
    w.Index i = .ok (if 0 ≤ i then (l[i.toNat]?).map Slot.val else none) := by
  cases w with
  | nil => exact absurd H id
  | vec v => exact vIndex_spec H i
  | sub v b e =>
    obtain ⟨lp, hR, hb, hbe, he, rfl⟩ := H
    simp only [Vec.Index]
    by_cases hi : i < 0 ∨ i ≥ e - b
    · rw [if_pos hi]
      rcases hi with h | h
      · rw [if_neg (by omega)]
      · rw [if_pos (by omega), lslice_getElem?, if_neg (by omega)]
        rfl
    · rw [if_neg hi, vIndex_spec hR, if_pos (by omega), if_pos (by omega), lslice_getElem?,
        if_pos (by omega)]
      congr 3
      omega

theorem vSubVector_ok {v : Vector α} {l : List α} (H : Reps v l) {i j : Int}
    (h : 0 ≤ i ∧ i ≤ j ∧ j ≤ l.length) :
    vSubVector v i j = .sub v i j ∧ VReps (.sub v i j) (lslice l i.toNat j.toNat) := by
  constructor
  · unfold vSubVector
    rw [H.count, if_neg (by omega)]
  · exact ⟨l, H, h.1, h.2.1, h.2.2, rfl⟩

theorem vSubVector_nil {v : Vector α} {l : List α} (H : Reps v l) {i j : Int}
    (h : ¬ (0 ≤ i ∧ i ≤ j ∧ j ≤ l.length)) : vSubVector v i j = .nil := by
  unfold vSubVector
  rw [H.count, if_pos (by omega)]

theorem lslice_lslice {l : List α} {b e i j : Nat} (hj : j ≤ e - b) :
    lslice (lslice l b e) i j = lslice l (b + i) (b + j) := by
  apply List.ext_getElem?
  intro k
  rw [lslice_getElem?, lslice_getElem?, lslice_getElem?]
  by_cases hk : k < j - i
  · rw [if_pos hk, if_pos (by omega), if_pos (by omega), Nat.add_assoc]
  · rw [if_neg hk, if_neg (by omega)]

theorem vreps_subVector_ok {w : Vec α} {l : List α} (H : VReps w l) {i j : Int}
    (h : 0 ≤ i ∧ i ≤ j ∧ j ≤ l.length) :
    ∃ w', w.SubVector i j = .ok w' ∧ VReps w' (lslice l i.toNat j.toNat) := by
  cases w with
  | nil => exact absurd H id
  | vec v =>
    obtain ⟨h1, h2⟩ := vSubVector_ok (show Reps v l from H) h
    exact ⟨_, by simp only [Vec.SubVector, h1], h2⟩
  | sub v b e =>
    obtain ⟨lp, hR, hb, hbe, he, rfl⟩ := H
    have hlen := lslice_length (l := lp) (b := b.toNat) (e := e.toNat) (by omega) (by omega)
    rw [hlen] at h
    obtain ⟨h1, h2⟩ := vSubVector_ok hR (i := b + i) (j := b + j) (by omega)
    refine ⟨_, by simp only [Vec.SubVector]; rw [if_neg (by omega), h1], ?_⟩
    rw [lslice_lslice (by omega)]
    have e1 : (b + i).toNat = b.toNat + i.toNat := by omega
    have e2 : (b + j).toNat = b.toNat + j.toNat := by omega
    rw [e1, e2] at h2
    exact h2

theorem vreps_subVector_nil {w : Vec α} {l : List α} (H : VReps w l) {i j : Int}
    (h : ¬ (0 ≤ i ∧ i ≤ j ∧ j ≤ l.length)) : w.SubVector i j = .ok .nil := by
  cases w with
  | nil => exact absurd H id
  | vec v => simp only [Vec.SubVector, vSubVector_nil (show Reps v l from H) h]
  | sub v b e =>
    obtain ⟨lp, hR, hb, hbe, he, rfl⟩ := H
    have hlen := lslice_length (l := lp) (b := b.toNat) (e := e.toNat) (by omega) (by omega)
    rw [hlen] at h
    simp only [Vec.SubVector]
    rw [if_pos (by omega)]

theorem vreps_conj {w : Vec α} {l : List α} (H : VReps w l) (x : α) :
    ∃ w', w.Conj x = .ok w' ∧ VReps w' (l ++ [x]) := by
  cases w with
  | nil => exact absurd H id
  | vec v =>
    obtain ⟨v', h1, h2⟩ := vConj_spec (show Reps v l from H) x
    exact ⟨.vec v', by simp only [Vec.Conj, h1]; rfl, h2⟩
  | sub v b e =>
    obtain ⟨lp, hR, hb, hbe, he, rfl⟩ := H
    have key : ∃ v' lp', vAssoc v e x = .ok (.vec v') ∧ Reps v' lp' ∧ e + 1 ≤ lp'.length ∧
        (∀ k, k < e.toNat → lp'[k]? = lp[k]?) ∧ lp'[e.toNat]? = some x := by
      by_cases hend : e = lp.length
      · obtain ⟨v', h1, h2⟩ := vAssoc_end hR e x hend
        refine ⟨v', _, h1, h2, by simp; omega, ?_, ?_⟩
        · intro k hk
          rw [List.getElem?_append_left (by omega)]
        · have : e.toNat = lp.length := by omega
          rw [this]; simp
      · obtain ⟨v', h1, h2⟩ := vAssoc_set hR e x (by omega) (by omega)
        refine ⟨v', _, h1, h2, by simp; omega, ?_, ?_⟩
        · intro k hk
          rw [List.getElem?_set]; simp [show ¬ (e.toNat = k) by omega]
        · rw [List.getElem?_set]; simp; omega
    obtain ⟨v', lp', h1, hR', hlen', hold, hnew⟩ := key
    obtain ⟨h2, h3⟩ := vSubVector_ok hR' (i := b) (j := e + 1) (by omega)
    refine ⟨_, by simp only [Vec.Conj, h1, ok_bind, Vec.SubVector, h2]; rfl, ?_⟩
    have : lslice lp' b.toNat (e + 1).toNat = lslice lp b.toNat e.toNat ++ [x] := by
      apply List.ext_getElem?
      intro k
      rw [lslice_getElem?, List.getElem?_append, lslice_length (by omega) (by omega),
        lslice_getElem?]
      by_cases hk : k < e.toNat - b.toNat
      · rw [if_pos (by omega), if_pos hk, if_pos hk, hold _ (by omega)]
      · rw [if_neg hk]
        by_cases hk2 : k = e.toNat - b.toNat
        · rw [if_pos (by omega)]
          have : b.toNat + k = e.toNat := by omega
          rw [this, hnew, hk2]; simp
        · rw [if_neg (by omega)]
          have : ¬ (k - (e.toNat - b.toNat) < 1) := by omega
          simp; omega
    rw [this] at h3
    exact h3

theorem vreps_assoc_nil {w : Vec α} {l : List α} (H : VReps w l) (i : Int) (x : α)
    (hi : i < 0 ∨ i > l.length) : w.Assoc i x = .ok .nil := by
  cases w with
  | nil => exact absurd H id
  | vec v => exact vAssoc_nil H i x hi
  | sub v b e =>
    obtain ⟨lp, hR, hb, hbe, he, rfl⟩ := H
    have hlen := lslice_length (l := lp) (b := b.toNat) (e := e.toNat) (by omega) (by omega)
    rw [hlen] at hi
    simp only [Vec.Assoc]
    rw [if_pos (by omega)]

theorem vreps_assoc_end {w : Vec α} {l : List α} (H : VReps w l) (i : Int) (x : α)
    (hi : i = l.length) : ∃ w', w.Assoc i x = .ok w' ∧ VReps w' (l ++ [x]) := by
  cases w with
  | nil => exact absurd H id
  | vec v =>
    obtain ⟨v', h1, h2⟩ := vAssoc_end (show Reps v l from H) i x hi
    exact ⟨.vec v', h1, h2⟩
  | sub v b e =>
    obtain ⟨w', h1, h2⟩ := vreps_conj H x
    obtain ⟨lp, hR, hb, hbe, he, rfl⟩ := H
    have hlen := lslice_length (l := lp) (b := b.toNat) (e := e.toNat) (by omega) (by omega)
    rw [hlen] at hi
    refine ⟨w', ?_, h2⟩
    simp only [Vec.Assoc]
    rw [if_neg (by omega), if_pos (by omega)]
    exact h1

theorem vreps_assoc_set {w : Vec α} {l : List α} (H : VReps w l) (i : Int) (x : α)
    (h0 : 0 ≤ i) (h1 : i < l.length) :
    ∃ w', w.Assoc i x = .ok w' ∧ VReps w' (l.set i.toNat x) := by
  cases w with
  | nil => exact absurd H id
  | vec v =>
    obtain ⟨v', h2, h3⟩ := vAssoc_set (show Reps v l from H) i x h0 h1
    exact ⟨.vec v', h2, h3⟩
  | sub v b e =>
    obtain ⟨lp, hR, hb, hbe, he, rfl⟩ := H
    have hlen := lslice_length (l := lp) (b := b.toNat) (e := e.toNat) (by omega) (by omega)
    rw [hlen] at h1
    obtain ⟨v', h2, h3⟩ := vAssoc_set hR (b + i) x (by omega) (by omega)
    have hl' : (lp.set (b + i).toNat x).length = lp.length := List.length_set
    obtain ⟨h4, h5⟩ := vSubVector_ok h3 (i := b) (j := e) (by omega)
    refine ⟨_, by
      simp only [Vec.Assoc]
      rw [if_neg (by omega), if_neg (by omega), h2]
      simp only [ok_bind, Vec.SubVector, h4]
      rfl, ?_⟩
    have : lslice (lp.set (b + i).toNat x) b.toNat e.toNat =
        (lslice lp b.toNat e.toNat).set i.toNat x := by
      apply List.ext_getElem?
      intro k
      rw [lslice_getElem?, List.getElem?_set, List.getElem?_set, lslice_getElem?,
        lslice_length (by omega) (by omega)]
      by_cases hk : k < e.toNat - b.toNat
      · rw [if_pos hk]
        by_cases hik : i.toNat = k
        · rw [if_pos hik, if_pos (by omega), if_pos (by omega), if_pos (by omega)]
        · rw [if_neg hik, if_neg (by omega), if_pos hk]
      · rw [if_neg hk, if_neg (by omega), if_neg hk]
    rw [this] at h5
    exact h5

theorem vreps_pop_nil {w : Vec α} (H : VReps w ([] : List α)) : w.Pop = .ok .nil := by
  cases w with
  | nil => exact absurd H id
  | vec v => exact vPop_nil H
  | sub v b e =>
    obtain ⟨lp, hR, hb, hbe, he, hl⟩ := H
    have hlen := lslice_length (l := lp) (b := b.toNat) (e := e.toNat) (by omega) (by omega)
    rw [← hl] at hlen
    simp at hlen
    simp only [Vec.Pop]
    rw [if_pos (by omega)]

theorem vreps_pop {w : Vec α} {l : List α} (H : VReps w l) (hne : l ≠ []) :
    ∃ w', w.Pop = .ok w' ∧ VReps w' l.dropLast := by
  cases w with
  | nil => exact absurd H id
  | vec v =>
    obtain ⟨v', h1, h2⟩ := vPop_spec (show Reps v l from H) hne
    exact ⟨.vec v', h1, h2⟩
  | sub v b e =>
    obtain ⟨lp, hR, hb, hbe, he, rfl⟩ := H
    have hlen := lslice_length (l := lp) (b := b.toNat) (e := e.toNat) (by omega) (by omega)
    have hpos : 0 < (lslice lp b.toNat e.toNat).length := List.length_pos_iff.mpr hne
    simp only [Vec.Pop]
    rw [if_neg (by omega)]
    by_cases h1 : e - b = 1
    · rw [if_pos h1]
      refine ⟨_, rfl, ?_⟩
      have : (lslice lp b.toNat e.toNat).dropLast = [] :=
        List.length_eq_zero_iff.mp (by rw [List.length_dropLast]; omega)
      rw [this]
      exact reps_empty
    · rw [if_neg h1]
      obtain ⟨h4, h5⟩ := vSubVector_ok hR (i := b) (j := e - 1) (by omega)
      refine ⟨_, by rw [h4], ?_⟩
      have : lslice lp b.toNat (e - 1).toNat = (lslice lp b.toNat e.toNat).dropLast := by
        apply List.ext_getElem?
        intro k
        rw [List.dropLast_eq_take, List.getElem?_take, lslice_getElem?, lslice_getElem?, hlen]
        by_cases hk : k < e.toNat - b.toNat - 1
        · rw [if_pos (by omega), if_pos hk, if_pos (by omega)]
        · rw [if_neg (by omega), if_neg hk]
      rw [this] at h5
      exact h5

end C06
