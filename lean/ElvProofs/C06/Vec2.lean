/-
C06 helper lemmas, part 6: `Assoc` and `Pop` of `*vector` against `Reps`.
-/
import ElvProofs.C06.Vec
import ElvProofs.C06.RepPop
namespace C06
open Go
open Gen.C06Consts

variable {α : Type}

/-! ### Assoc -/

theorem vAssoc_nil {v : Vector α} {l : List α} (H : Reps v l) (i : Int) (x : α)
    (hi : i < 0 ∨ i > l.length) : vAssoc v i x = .ok .nil := by
  unfold vAssoc
  rw [H.count, if_pos hi]

theorem vAssoc_end {v : Vector α} {l : List α} (H : Reps v l) (i : Int) (x : α)
    (hi : i = l.length) : ∃ v', vAssoc v i x = .ok (.vec v') ∧ Reps v' (l ++ [x]) := by
  obtain ⟨v', h1, h2⟩ := vConj_spec H x
  refine ⟨v', ?_, h2⟩
  unfold vAssoc
  rw [H.count, if_neg (by omega), if_pos hi, h1]
  rfl

theorem vAssoc_set {v : Vector α} {l : List α} (H : Reps v l) (i : Int) (x : α)
    (h0 : 0 ≤ i) (h1 : i < l.length) :
    ∃ v', vAssoc v i x = .ok (.vec v') ∧ Reps v' (l.set i.toNat x) := by
  unfold vAssoc
  have hcount := H.count
  rw [hcount, if_neg (by omega), if_neg (by omega)]
  have hk : i.toNat < l.length := by omega
  generalize i.toNat = k at hk
  simp only [treeSize_eq, hcount]
  have hlpos : 0 < l.length := by omega
  obtain ⟨m, r, hrep, hr1, hr2⟩ := rep_exists hlpos
  have hts := tsz_of_rep hrep hr1 hr2
  have hlen : (l.set k x).length = l.length := List.length_set
  by_cases hkt : k ≥ tsz l.length
  · rw [if_pos hkt]
    have hkr : k = nodeSize * m + (k - nodeSize * m) := by omega
    have hmod : k % nodeSize = k - nodeSize * m := by
      have := (div_mod_unique (S := nodeSize) (a := m) (r := k - nodeSize * m) (by omega)).2
      rw [← hkr] at this; exact this
    have htl : v.tail.length = l.length - tsz l.length := by rw [H.tail]; simp
    have hlt : k &&& chunkMask < v.tail.length := by rw [and_mask, hmod, htl, hts]; omega
    refine ⟨_, by rw [setIdx_of_lt _ hlt]; rfl, ?_⟩
    refine ⟨by simp [hcount], ?_, ?_, ?_, ?_⟩
    · simp only [hlen]
      apply List.ext_getElem?
      intro j
      rw [and_mask, hmod, H.tail, hts, List.getElem?_set]
      simp only [List.getElem?_map, List.getElem?_drop, List.getElem?_set, List.length_map,
        List.length_drop]
      by_cases hj : k - nodeSize * m = j
      · have e1 : k = nodeSize * m + j := by omega
        rw [if_pos hj, if_pos e1, if_pos (show k - nodeSize * m < l.length - nodeSize * m by omega),
          if_pos hk]
        rfl
      · have : ¬ (k = nodeSize * m + j) := by omega
        simp [hj, this]
    · rw [hlen]
      rcases H.tree with h | ⟨rt, hroot, hrepF⟩
      · exact Or.inl h
      · refine Or.inr ⟨rt, hroot, RepF.congr ?_ hrepF⟩
        intro j hj
        rw [List.getElem?_set]
        simp [show ¬ (k = j) by omega]
    · rw [hlen]; exact H.hhi
    · rw [hlen]; exact H.hlow
  · rw [if_neg hkt]
    rcases H.tree with h | ⟨rt, hroot, hrepF⟩
    · omega
    · have hkc : k % cap v.height = k := Nat.mod_eq_of_lt (by have := H.hhi; omega)
      obtain ⟨cs', hdo, hrep'⟩ := doAssoc_spec k x hrepF (by omega)
      rw [hroot, hdo]
      refine ⟨_, rfl, ?_⟩
      refine ⟨by simp [hcount], ?_, ?_, ?_, ?_⟩
      · simp only [hlen]
        rw [H.tail]
        congr 1
        apply List.ext_getElem?
        intro j
        rw [List.getElem?_drop, List.getElem?_drop, List.getElem?_set]
        simp [show ¬ (k = tsz l.length + j) by omega]
      · rw [hlen]
        refine Or.inr ⟨cs', rfl, RepF.congr ?_ hrep'⟩
        intro j hj
        rw [hkc, List.getElem?_set]
        by_cases hjk : j = k
        · subst hjk; simp [hk]
        · simp [hjk, Ne.symm hjk]
      · rw [hlen]; exact H.hhi
      · rw [hlen]; exact H.hlow

/-! ### Pop -/

theorem vPop_nil {v : Vector α} (H : Reps v ([] : List α)) : vPop v = .ok .nil := by
  unfold vPop
  have := H.count
  simp at this
  rw [if_pos this]

theorem dropLast_getElem? {l : List α} {i : Nat} (hi : i < l.length - 1) :
    l.dropLast[i]? = l[i]? := by
  rw [List.dropLast_eq_take, List.getElem?_take, if_pos hi]

theorem vPop_spec {v : Vector α} {l : List α} (H : Reps v l) (hne : l ≠ []) :
    ∃ v', vPop v = .ok (.vec v') ∧ Reps v' l.dropLast := by
  have hB := nodeSize_pos
  have h2 := two_le_nodeSize
  have hcount := H.count
  have hlpos : 0 < l.length := List.length_pos_iff.mpr hne
  have hdl : l.dropLast.length = l.length - 1 := List.length_dropLast
  unfold vPop
  rw [if_neg (by omega)]
  by_cases h1 : v.count = 1
  · rw [if_pos h1]
    refine ⟨empty, rfl, ?_⟩
    have : l.dropLast = [] := List.length_eq_zero_iff.mp (by omega)
    rw [this]
    exact reps_empty
  · rw [if_neg h1]
    simp only [treeSize_eq, hcount]
    obtain ⟨m, r, hrep, hr1, hr2⟩ := rep_exists hlpos
    have hts := tsz_of_rep hrep hr1 hr2
    have htl : v.tail.length = l.length - tsz l.length := by rw [H.tail]; simp
    by_cases hroom : l.length - tsz l.length > 1
    · -- more than one element in the tail
      rw [if_pos hroom, if_neg (by omega)]
      refine ⟨_, rfl, ?_⟩
      have hts' : tsz l.dropLast.length = tsz l.length := by
        rw [hts, hdl]
        exact tsz_of_rep (m := m) (r := r - 1) (by omega) (by omega) (by omega)
      refine ⟨by simp [hcount], ?_, ?_, ?_, ?_⟩
      · rw [hts']
        apply List.ext_getElem?
        intro j
        rw [List.getElem?_take, H.tail]
        simp only [List.getElem?_map, List.getElem?_drop, List.length_map, List.length_drop]
        by_cases hj : j < l.length - tsz l.length - 1
        · rw [if_pos hj, dropLast_getElem? (by omega)]
        · rw [if_neg hj]
          have : l.dropLast.length ≤ tsz l.length + j := by omega
          simp [List.getElem?_eq_none this]
      · rw [hts']
        rcases H.tree with h | ⟨rt, hroot, hrepF⟩
        · exact Or.inl h
        · refine Or.inr ⟨rt, hroot, RepF.congr ?_ hrepF⟩
          intro i hi
          exact (dropLast_getElem? (by omega)).symm
      · rw [hts']; exact H.hhi
      · rw [hts']; exact H.hlow
    · -- the tail has one element: the last leaf becomes the tail
      rw [if_neg hroom]
      have hr : r = 1 := by omega
      subst hr
      have hmpos : 0 < m := by
        rcases Nat.eq_zero_or_pos m with h | h
        · subst h; simp at hrep; omega
        · exact h
      obtain ⟨m', rfl⟩ : ∃ m', m = m' + 1 := ⟨m - 1, by omega⟩
      have hm : nodeSize * (m' + 1) = nodeSize * m' + nodeSize := Nat.mul_succ _ _
      have hts' : tsz l.dropLast.length = tsz l.length - nodeSize := by
        rw [hts, hdl]
        have := tsz_of_rep (c := l.length - 1) (m := m') (r := nodeSize) (by omega) (by omega)
          (Nat.le_refl _)
        omega
      have htpos : 0 < tsz l.length := by omega
      rcases H.tree with h | ⟨rt, hroot, hrepF⟩
      · omega
      · -- new tail
        have hi2 : l.length - 2 = tsz l.length - 1 := by omega
        have hmodc : (tsz l.length - 1) % cap v.height = tsz l.length - 1 :=
          Nat.mod_eq_of_lt (by have := H.hhi; omega)
        obtain ⟨leaf, hdesc, hleaflen, hleaf⟩ := descend_spec (tsz l.length - 1) hrepF (by omega)
        have hblock : nodeSize * ((tsz l.length - 1) % cap v.height / nodeSize) =
            tsz l.length - nodeSize := by
          rw [hmodc]
          have e : tsz l.length - 1 = nodeSize * m' + (nodeSize - 1) := by omega
          rw [e, (div_mod_unique (S := nodeSize) (a := m') (r := nodeSize - 1) (by omega)).1]
          omega
        have hslice : sliceFor v (l.length - 2) = .ok leaf := by
          unfold sliceFor
          rw [treeSize_eq, hcount, if_neg (by omega), hi2, hroot, hdesc]
          rfl
        have htail' : leaf = (l.dropLast.drop (tsz l.dropLast.length)).map Slot.val := by
          rw [hts']
          apply List.ext_getElem?
          intro j
          simp only [List.getElem?_map, List.getElem?_drop]
          by_cases hj : j < nodeSize
          · obtain ⟨a, ha1, ha2⟩ := hleaf j hj
            rw [hblock] at ha1
            have ha1' : l[tsz l.length - nodeSize + j]? = some a := ha1
            rw [ha2, dropLast_getElem? (by omega), ha1']
            rfl
          · have e1 : leaf.length ≤ j := by omega
            have e2 : l.dropLast.length ≤ tsz l.length - nodeSize + j := by omega
            rw [List.getElem?_eq_none e1, List.getElem?_eq_none e2]
            rfl
        have hold : ∀ i, i < tsz l.length - nodeSize → l[i]? = l.dropLast[i]? := by
          intro i hi
          exact (dropLast_getElem? (by omega)).symm
        rw [hslice]
        simp only [ok_bind, hroot]
        by_cases hh0 : v.height = 0
        · -- height 0: the root leaf becomes the tail, the root is left behind unused
          have hrepF0 := hrepF
          rw [hh0] at hrepF0
          obtain ⟨cs0, hc0, hlen0, hn0, _⟩ := hrepF0
          cases hc0
          have hdig : digit 0 (l.length - 2) ≠ 0 := by
            rw [digit_zero, hi2, hn0]
            have : (nodeSize - 1) % nodeSize = nodeSize - 1 := Nat.mod_eq_of_lt (by omega)
            omega
          have hdlt : digit 0 (l.length - 2) < rt.length := by
            rw [hlen0]; exact digit_lt _ _
          refine ⟨_, by
            simp only [hh0, popTail, popTailLow, if_neg hdig, deref_some, ok_bind,
              setIdx_of_lt _ hdlt, pure_eq_ok, Nat.lt_irrefl, if_false]
            rfl, ?_⟩
          have ht0 : tsz l.dropLast.length = 0 := by omega
          refine ⟨by simp [hcount], htail', Or.inl ht0, by omega, ?_⟩
          intro hc; exact absurd rfl hc
        · obtain ⟨h, hh⟩ : ∃ h, v.height = h + 1 := ⟨v.height - 1, by omega⟩
          have hlow := H.hlow hh0
          have hBc := nodeSize_le_cap h
          rw [hh] at hrepF hlow
          simp only [Nat.add_sub_cancel] at hlow
          have hposp : (l.length - 2) % cap (h + 1) = tsz l.length - 1 := by
            rw [hi2, ← hh]; exact hmodc
          obtain ⟨_, hpopN⟩ := popTail_spec l.length hrepF hposp
          obtain ⟨cs', hpop, hrep'⟩ := hpopN (by omega)
          have hgeS : cap h + nodeSize ≤ tsz l.length :=
            dvd_lt_add_le (nodeSize_dvd_cap h) (tsz_dvd _) hlow
          rw [hh, hpop]
          simp only [ok_bind, Nat.succ_pos, if_true, deref_some]
          have hrep'' := hrep'
          obtain ⟨cs'', hc'', hlen'', hn0, hnle, hnd, hch⟩ := hrep'
          cases hc''
          obtain ⟨c1, hc1, hcase1⟩ := hch 1 (by omega)
          obtain ⟨c0, hc0, hcase0⟩ := hch 0 (by omega)
          rw [getIdx_of_getElem? hc1]
          simp only [ok_bind]
          rcases hcase1 with ⟨hx, rfl⟩ | ⟨hx, hy⟩
          · -- the root has a single child left: the tree loses a level
            rcases hcase0 with ⟨hx0, _⟩ | ⟨hx0, hy0⟩
            · omega
            · obtain ⟨ccs, rfl, _⟩ := hy0.isNode
              refine ⟨_, by
                simp only [getIdx_of_getElem? hc0, ok_bind, asNode_node, pure_eq_ok]
                rfl, ?_⟩
              have e : min (cap h) (tsz l.length - nodeSize - cap h * 0) = tsz l.length - nodeSize := by
                rw [Nat.mul_zero, Nat.sub_zero]; exact Nat.min_eq_right (by omega)
              rw [e] at hy0
              refine ⟨by simp [hcount], htail', Or.inr ⟨_, rfl, ?_⟩, ?_, ?_⟩
              · simp only [Nat.add_sub_cancel]
                rw [hts']
                refine RepF.congr ?_ hy0
                intro i hi
                simp only [Nat.mul_zero, Nat.zero_add]
                exact hold i hi
              · simp only [Nat.add_sub_cancel]; rw [hts']; omega
              · simp only [Nat.add_sub_cancel]
                intro hh1
                rw [hts']
                obtain ⟨h', rfl⟩ : ∃ h', h = h' + 1 := ⟨h - 1, by omega⟩
                simp only [Nat.add_sub_cancel]
                have := cap_lt_cap_succ h'
                omega
          · obtain ⟨ccs, rfl, _⟩ := hy.isNode
            refine ⟨_, rfl, ?_⟩
            refine ⟨by simp [hcount], htail', Or.inr ⟨_, rfl, ?_⟩, ?_, ?_⟩
            · rw [hts']
              exact RepF.congr (fun i hi => hold i hi) hrep''
            · rw [hts']; omega
            · intro _
              simp only [Nat.add_sub_cancel]
              rw [hts']; omega

end C06
