/-
C06 helper lemmas, part 10: the iterator.  `adv` is a top-down formulation of
the path update of `(*iterator).Next`; it is shown equal to the model's
literal bottom-up scan (`splitAdv` over the reversed path), and correct with
respect to the tree invariant: the path stack of position `p` becomes the path
stack of position `p+1`.
-/
import ElvProofs.C06.Iface
namespace C06
open Go
open Gen.C06Consts

variable {α : Type}

/-! ### the path update, top-down -/

def adv : List (PathEntry α) → Option (Res (List (PathEntry α)))
  | [] => none
  | e :: rest =>
    match adv rest with
    | some r => some (do let rest' ← r; pure (e :: rest'))
    | none =>
      if e.index + 1 < nodeSize then
        some (do
          let deeper ← Iter.repop rest.length ⟨e.node, e.index + 1⟩
          pure ((⟨e.node, e.index + 1⟩ : PathEntry α) :: deeper))
      else none

/-- the path update as the model's `Next` computes it -/
def nextPath (path : List (PathEntry α)) : Res (List (PathEntry α)) :=
  match Iter.splitAdv path.reverse 0 with
  | none => .panic "cannot advance; vector iterator bug"
  | some (pre, e, k) => do
    let deeper ← Iter.repop k ⟨e.node, e.index + 1⟩
    pure (pre ++ [(⟨e.node, e.index + 1⟩ : PathEntry α)] ++ deeper)

theorem splitAdv_skip : ∀ (X R : List (PathEntry α)) (k : Nat),
    (∀ e, e ∈ X → ¬ (e.index + 1 < nodeSize)) →
    Iter.splitAdv (X ++ R) k = Iter.splitAdv R (k + X.length) := by
  intro X
  induction X with
  | nil => intro R k _; simp
  | cons e X ih =>
    intro R k h
    have he := h e (by simp)
    simp only [List.cons_append, Iter.splitAdv, if_neg he]
    rw [ih R (k + 1) (fun e' he' => h e' (by simp [he']))]
    congr 1
    simp; omega

theorem adv_none : ∀ (Q : List (PathEntry α)), adv Q = none →
    ∀ e, e ∈ Q → ¬ (e.index + 1 < nodeSize) := by
  intro Q
  induction Q with
  | nil => intro _ e he; simp at he
  | cons e0 rest ih =>
    intro h e he
    simp only [adv] at h
    split at h
    · exact absurd h (by simp)
    · rename_i hrest
      split at h
      · exact absurd h (by simp)
      · rename_i hadv
        rcases List.mem_cons.mp he with rfl | h'
        · exact hadv
        · exact ih hrest e h'

theorem adv_some : ∀ (path : List (PathEntry α)) (r : Res (List (PathEntry α))), adv path = some r →
    ∃ P e Q, path = P ++ e :: Q ∧ e.index + 1 < nodeSize ∧
      (∀ e', e' ∈ Q → ¬ (e'.index + 1 < nodeSize)) ∧
      r = (do
        let deeper ← Iter.repop Q.length ⟨e.node, e.index + 1⟩
        pure (P ++ [(⟨e.node, e.index + 1⟩ : PathEntry α)] ++ deeper)) := by
  intro path
  induction path with
  | nil => intro r h; simp [adv] at h
  | cons e0 rest ih =>
    intro r h
    simp only [adv] at h
    split at h
    · rename_i r0 hrest
      obtain ⟨P, e, Q, hp, he, hQ, hr0⟩ := ih r0 hrest
      refine ⟨e0 :: P, e, Q, by simp [hp], he, hQ, ?_⟩
      simp only [Option.some.injEq] at h
      rw [← h, hr0, bind_assoc']
      rfl
    · rename_i hrest
      split at h
      · rename_i hadv
        simp only [Option.some.injEq] at h
        exact ⟨[], e0, rest, rfl, hadv, adv_none rest hrest, by rw [← h]; rfl⟩
      · exact absurd h (by simp)

theorem nextPath_eq_adv (path : List (PathEntry α)) :
    nextPath path = (match adv path with
      | none => .panic "cannot advance; vector iterator bug"
      | some r => r) := by
  unfold nextPath
  cases h : adv path with
  | none =>
    have hall := adv_none path h
    have := splitAdv_skip path.reverse [] 0 (fun e he => hall e (List.mem_reverse.mp he))
    rw [List.append_nil] at this
    rw [this]
    rfl
  | some r =>
    obtain ⟨P, e, Q, hp, he, hQ, hr⟩ := adv_some path r h
    have hrev : path.reverse = Q.reverse ++ (e :: P.reverse) := by
      rw [hp]; simp
    have := splitAdv_skip Q.reverse (e :: P.reverse) 0 (fun e' he' => hQ e' (List.mem_reverse.mp he'))
    rw [hrev, this]
    simp only [Iter.splitAdv, if_pos he, List.reverse_reverse, List.length_reverse, Nat.zero_add]
    rw [hr]

/-! ### paths against the tree invariant -/

def PathOK : Nat → Arr α → Nat → List (PathEntry α) → Prop
  | 0, a, p, path => path = [⟨some a, p⟩]
  | h + 1, a, p, path => ∃ child rest, path = ⟨some a, p / cap h⟩ :: rest ∧
      a[p / cap h]? = some (.node child) ∧ PathOK h child (p % cap h) rest

theorem PathOK.length {h : Nat} : ∀ {a : Arr α} {p : Nat} {path : List (PathEntry α)},
    PathOK h a p path → path.length = h + 1 := by
  induction h with
  | zero => intro a p path H; rw [show path = [⟨some a, p⟩] from H]; rfl
  | succ h ih =>
    intro a p path H
    obtain ⟨child, rest, hp, _, hr⟩ := H
    rw [hp, List.length_cons, ih hr]

/-- the child `k` of a node, when position `S*k` is occupied -/
theorem RepF.child {h : Nat} {a : Arr α} {n : Nat} {f : Nat → Option α}
    (H : RepF (h + 1) (.node a) n f) {k : Nat} (hk : cap h * k < n) :
    ∃ c, a[k]? = some (.node c) ∧
      RepF h (.node c) (min (cap h) (n - cap h * k)) (fun i => f (cap h * k + i)) := by
  obtain ⟨cs', h1, h2, h0, hle, hd, h3⟩ := H
  cases h1
  have hkB : k < nodeSize := by
    have : cap h * k < cap h * nodeSize := by rw [← cap_succ]; omega
    exact Nat.lt_of_mul_lt_mul_left this
  obtain ⟨c, hc, hcase⟩ := h3 k hkB
  rcases hcase with ⟨hx, _⟩ | ⟨_, hy⟩
  · omega
  · obtain ⟨cc, rfl, _⟩ := hy.isNode
    exact ⟨cc, hc, hy⟩

theorem descendPath_spec {h : Nat} : ∀ {a : Arr α} {n : Nat} {f : Nat → Option α} (i : Nat)
    (acc : List (PathEntry α)), RepF h (.node a) n f → i % cap h < n →
    ∃ path, descendPath i h (some a) acc = .ok (acc ++ path) ∧ PathOK h a (i % cap h) path := by
  induction h with
  | zero =>
    intro a n f i acc _ _
    refine ⟨[⟨some a, i % cap 0⟩], ?_, rfl⟩
    simp only [descendPath, and_mask, cap_zero]
  | succ h ih =>
    intro a n f i acc H hi
    have hp : i % cap (h + 1) < cap (h + 1) := Nat.mod_lt _ (cap_pos _)
    obtain ⟨hsplit, hq, hk⟩ := split_pos h _ hp
    obtain ⟨c, hc, hrep⟩ := H.child (k := i % cap (h + 1) / cap h) (by omega)
    have hlocal : i % cap h = i % cap (h + 1) % cap h := (mod_cap_succ_mod h i).symm
    have hlt : i % cap h < min (cap h) (n - cap h * (i % cap (h + 1) / cap h)) := by
      rw [hlocal]; apply Nat.lt_min.mpr; constructor
      · exact hq
      · omega
    obtain ⟨rest, hdesc, hok⟩ := ih i (acc ++ [⟨some a, i % cap (h + 1) / cap h⟩]) hrep hlt
    refine ⟨⟨some a, i % cap (h + 1) / cap h⟩ :: rest, ?_, ⟨c, rest, rfl, hc, ?_⟩⟩
    · simp only [descendPath, deref_some, ok_bind]
      rw [digit_succ_local, getIdx_of_getElem? hc]
      simp only [ok_bind, asNode_node]
      rw [hdesc, List.append_assoc]
      rfl
    · rw [← hlocal]; exact hok

theorem path_elem {h : Nat} : ∀ {a : Arr α} {n : Nat} {f : Nat → Option α} {p : Nat}
    {path : List (PathEntry α)}, PathOK h a p path → RepF h (.node a) n f → p < n →
    ∃ e x, path.getLast? = some e ∧ e.current = .ok (.val x) ∧ f p = some x := by
  induction h with
  | zero =>
    intro a n f p path hp H hn
    obtain ⟨cs, h1, h2, hnB, h3⟩ := H
    cases h1
    obtain ⟨x, hx1, hx2⟩ := h3 p (by omega)
    refine ⟨⟨some a, p⟩, x, by rw [show path = [⟨some a, p⟩] from hp]; rfl, ?_, hx1⟩
    simp only [PathEntry.current, deref_some, ok_bind, getIdx_of_getElem? hx2]
  | succ h ih =>
    intro a n f p path hp H hn
    obtain ⟨child, rest, hpath, hchild, hrest⟩ := hp
    have hb := H.bounds
    have hsplit : cap h * (p / cap h) + p % cap h = p := Nat.div_add_mod _ _
    have hq : p % cap h < cap h := Nat.mod_lt _ (cap_pos h)
    obtain ⟨c, hc, hrep⟩ := H.child (k := p / cap h) (by omega)
    rw [hchild] at hc
    cases hc
    obtain ⟨e, x, he, hcur, hfx⟩ := ih hrest hrep (by apply Nat.lt_min.mpr; constructor <;> omega)
    refine ⟨e, x, ?_, hcur, ?_⟩
    · have hne : rest ≠ [] := by
        intro h0; rw [h0] at he; simp at he
      rw [hpath, List.getLast?_cons_of_ne_nil hne] at *
      exact he
    · have hfx' : f (cap h * (p / cap h) + p % cap h) = some x := hfx
      rw [hsplit] at hfx'
      exact hfx'

theorem adv_last {h : Nat} : ∀ {a : Arr α} {path : List (PathEntry α)},
    PathOK h a (cap h - 1) path → adv path = none := by
  induction h with
  | zero =>
    intro a path hp
    rw [show path = [⟨some a, cap 0 - 1⟩] from hp]
    have := nodeSize_pos
    simp only [adv, cap_zero]
    rw [if_neg (by omega)]
  | succ h ih =>
    intro a path hp
    obtain ⟨child, rest, hpath, _, hrest⟩ := hp
    have hS := cap_pos h
    have hB := nodeSize_pos
    have e : cap (h + 1) - 1 = cap h * (nodeSize - 1) + (cap h - 1) := by
      rw [cap_succ, Nat.mul_sub, Nat.mul_one]
      have : cap h * 1 ≤ cap h * nodeSize := Nat.mul_le_mul_left _ hB
      omega
    have hdm := div_mod_unique (S := cap h) (a := nodeSize - 1) (r := cap h - 1) (by omega)
    rw [← e] at hdm
    rw [hdm.2] at hrest
    rw [hpath]
    simp only [adv, ih hrest, hdm.1]
    rw [if_neg (by omega)]

theorem repop_leftmost {h : Nat} : ∀ {a c : Arr α} {k n : Nat} {f : Nat → Option α},
    a[k]? = some (.node c) → RepF h (.node c) n f →
    ∃ path0, Iter.repop (h + 1) ⟨some a, k⟩ = .ok path0 ∧ PathOK h c 0 path0 := by
  induction h with
  | zero =>
    intro a c k n f hk _
    refine ⟨[⟨some c, 0⟩], ?_, rfl⟩
    simp only [Iter.repop, PathEntry.current, deref_some, ok_bind, getIdx_of_getElem? hk,
      asNode_node, pure_eq_ok]
  | succ h ih =>
    intro a c k n f hk H
    have hb := H.bounds
    obtain ⟨c0, hc0, hrep0⟩ := H.child (k := 0) (by omega)
    obtain ⟨path0, hp0, hok0⟩ := ih hc0 hrep0
    refine ⟨⟨some c, 0⟩ :: path0, ?_, ⟨c0, path0, ?_, ?_, ?_⟩⟩
    · rw [Iter.repop]
      simp only [PathEntry.current, deref_some, ok_bind, getIdx_of_getElem? hk, asNode_node]
      rw [hp0]; rfl
    · rw [Nat.zero_div]
    · rw [Nat.zero_div]; exact hc0
    · rw [Nat.zero_mod]; exact hok0

theorem adv_step {h : Nat} : ∀ {a : Arr α} {n : Nat} {f : Nat → Option α} {p : Nat}
    {path : List (PathEntry α)}, PathOK h a p path → RepF h (.node a) n f → p + 1 < n →
    ∃ path', adv path = some (.ok path') ∧ PathOK h a (p + 1) path' := by
  induction h with
  | zero =>
    intro a n f p path hp H hn
    obtain ⟨cs, h1, h2, hnB, h3⟩ := H
    rw [show path = [⟨some a, p⟩] from hp]
    refine ⟨[⟨some a, p + 1⟩], ?_, rfl⟩
    simp only [adv]
    rw [if_pos (by omega)]
    rfl
  | succ h ih =>
    intro a n f p path hp H hn
    obtain ⟨child, rest, hpath, hchild, hrest⟩ := hp
    have hb := H.bounds
    have hS := cap_pos h
    have hsplit : cap h * (p / cap h) + p % cap h = p := Nat.div_add_mod _ _
    have hq : p % cap h < cap h := Nat.mod_lt _ hS
    obtain ⟨c, hc, hrep⟩ := H.child (k := p / cap h) (by omega)
    rw [hchild] at hc
    cases hc
    by_cases hcarry : p % cap h + 1 < cap h
    · -- the step stays inside the same child
      have hdm := div_mod_unique (S := cap h) (a := p / cap h) (r := p % cap h + 1) hcarry
      have e : cap h * (p / cap h) + (p % cap h + 1) = p + 1 := by omega
      rw [e] at hdm
      obtain ⟨rest', hadv, hok⟩ := ih hrest hrep (by apply Nat.lt_min.mpr; constructor <;> omega)
      refine ⟨⟨some a, p / cap h⟩ :: rest', ?_, ⟨child, rest', ?_, ?_, ?_⟩⟩
      · rw [hpath]; simp only [adv, hadv]; rfl
      · rw [hdm.1]
      · rw [hdm.1]; exact hchild
      · rw [hdm.2]; exact hok
    · -- carry: the next child, leftmost path
      have hqS : p % cap h = cap h - 1 := by omega
      rw [hqS] at hrest
      have hnone := adv_last hrest
      have e : cap h * (p / cap h + 1) + 0 = p + 1 := by rw [Nat.mul_succ]; omega
      have hdm := div_mod_unique (S := cap h) (a := p / cap h + 1) (r := 0) hS
      rw [e] at hdm
      have hnext : cap h * (p / cap h + 1) < n := by omega
      have hkB : p / cap h + 1 < nodeSize := by
        have : cap h * (p / cap h + 1) < cap h * nodeSize := by rw [← cap_succ]; omega
        exact Nat.lt_of_mul_lt_mul_left this
      obtain ⟨c', hc', hrep'⟩ := H.child hnext
      obtain ⟨path0, hp0, hok0⟩ := repop_leftmost hc' hrep'
      refine ⟨⟨some a, p / cap h + 1⟩ :: path0, ?_, ⟨c', path0, ?_, ?_, ?_⟩⟩
      · rw [hpath]
        simp only [adv, hnone]
        rw [if_pos hkB, hrest.length, hp0]
        rfl
      · rw [hdm.1]
      · rw [hdm.1]; exact hc'
      · rw [hdm.2]; exact hok0

/-! ### the iterator loop -/

structure IterInv (it : Iter α) (lp : List α) : Prop where
  reps : Reps it.v lp
  ts : it.treeSize = tsz lp.length
  stop : it.stop ≤ lp.length
  path : it.index < it.treeSize →
    ∃ r, it.v.root = some r ∧ PathOK it.v.height r it.index it.path

theorem iter_elem {it : Iter α} {lp : List α} (H : IterInv it lp) (hi : it.index < it.stop) :
    ∃ x, lp[it.index]? = some x ∧ it.Elem = .ok (.val x) := by
  have hlen : it.index < lp.length := Nat.lt_of_lt_of_le hi H.stop
  refine ⟨lp[it.index], by simp [hlen], ?_⟩
  unfold Iter.Elem
  by_cases ht : it.index ≥ it.treeSize
  · rw [if_pos ht]
    apply getIdx_of_getElem?
    rw [H.reps.tail, H.ts, List.getElem?_map, List.getElem?_drop]
    have : tsz lp.length + (it.index - tsz lp.length) = it.index := by have := H.ts; omega
    rw [this]; simp [hlen]
  · rw [if_neg ht]
    obtain ⟨r, hroot, hpath⟩ := H.path (by omega)
    rcases H.reps.tree with h0 | ⟨r', hroot', hrepF⟩
    · have := H.ts; omega
    · rw [hroot] at hroot'; cases hroot'
      obtain ⟨e, x, he, hcur, hfx⟩ := path_elem hpath hrepF (by have := H.ts; omega)
      rw [he]
      simp only []
      rw [hcur]
      have hfx' : lp[it.index]? = some x := hfx
      simp [hlen] at hfx'
      rw [hfx']

theorem iter_next {it : Iter α} {lp : List α} (H : IterInv it lp) (hi : it.index < it.stop) :
    ∃ it', it.Next = .ok it' ∧ IterInv it' lp ∧ it'.index = it.index + 1 ∧ it'.stop = it.stop := by
  unfold Iter.Next
  by_cases ht : it.index + 1 ≥ it.treeSize
  · rw [if_pos ht]
    exact ⟨_, rfl, ⟨H.reps, H.ts, H.stop, fun h => absurd h (by simp; omega)⟩, rfl, rfl⟩
  · rw [if_neg ht]
    obtain ⟨r, hroot, hpath⟩ := H.path (by omega)
    rcases H.reps.tree with h0 | ⟨r', hroot', hrepF⟩
    · have := H.ts; omega
    · rw [hroot] at hroot'; cases hroot'
      obtain ⟨path', hadv, hok⟩ := adv_step hpath hrepF (by have := H.ts; omega)
      have hnp := nextPath_eq_adv it.path
      rw [hadv] at hnp
      unfold nextPath at hnp
      cases hs : Iter.splitAdv it.path.reverse 0 with
      | none => rw [hs] at hnp; simp at hnp
      | some t =>
        obtain ⟨pre, e, k⟩ := t
        rw [hs] at hnp
        simp only [] at hnp ⊢
        cases hr : Iter.repop k ⟨e.node, e.index + 1⟩ with
        | ok deeper =>
          rw [hr] at hnp
          simp only [ok_bind, pure_eq_ok, Res.ok.injEq] at hnp
          refine ⟨_, rfl, ⟨H.reps, H.ts, H.stop, fun _ => ⟨r, hroot, ?_⟩⟩, rfl, rfl⟩
          simp only []
          rw [hnp]; exact hok
        | exc w => rw [hr] at hnp; simp at hnp
        | panic w => rw [hr] at hnp; simp at hnp

theorem lslice_cons {l : List α} {b e : Nat} (hbe : b < e) (he : e ≤ l.length) :
    lslice l b e = l[b]'(by omega) :: lslice l (b + 1) e := by
  apply List.ext_getElem?
  intro k
  rw [lslice_getElem?]
  cases k with
  | zero => simp [show 0 < e - b by omega]
  | succ k =>
    rw [List.getElem?_cons_succ, lslice_getElem?]
    by_cases hk : k + 1 < e - b
    · rw [if_pos hk, if_pos (by omega)]; congr 1; omega
    · rw [if_neg hk, if_neg (by omega)]

theorem iter_collect : ∀ (fuel : Nat) {it : Iter α} {lp : List α}, IterInv it lp →
    fuel = it.stop - it.index →
    Iter.collect fuel it = .ok ((lslice lp it.index it.stop).map Slot.val) := by
  intro fuel
  induction fuel with
  | zero =>
    intro it lp H hf
    have : ¬ (it.index < it.stop) := by omega
    simp only [Iter.collect, Iter.HasElem, decide_eq_true_eq, if_neg this]
    have : lslice lp it.index it.stop = [] := by
      unfold lslice
      rw [show it.stop - it.index = 0 by omega]; simp
    rw [this]; rfl
  | succ fuel ih =>
    intro it lp H hf
    have hi : it.index < it.stop := by omega
    obtain ⟨x, hx, helem⟩ := iter_elem H hi
    obtain ⟨it', hnext, hinv', hidx', hstop'⟩ := iter_next H hi
    have hrec := ih hinv' (by omega)
    simp only [Iter.collect, Iter.HasElem, decide_eq_true_eq, if_pos hi, helem, hnext, ok_bind, hrec,
      pure_eq_ok]
    have hlen : it.index < lp.length := Nat.lt_of_lt_of_le hi H.stop
    rw [lslice_cons hi H.stop, hidx', hstop']
    simp [hlen] at hx
    rw [hx]
    rfl

theorem newIterator_spec {v : Vector α} {lp : List α} (H : Reps v lp) {b e : Nat}
    (hbe : b ≤ e) (he : e ≤ lp.length) :
    ∃ it, newIteratorWithRange v b e = .ok it ∧ IterInv it lp ∧ it.index = b ∧ it.stop = e := by
  unfold newIteratorWithRange
  rw [treeSize_eq, H.count]
  by_cases hb : b ≥ tsz lp.length
  · rw [if_pos hb]
    exact ⟨_, rfl, ⟨H, rfl, he, fun h => absurd h (by simp; omega)⟩, rfl, rfl⟩
  · rw [if_neg hb]
    rcases H.tree with h0 | ⟨r, hroot, hrepF⟩
    · omega
    · have hmod : b % cap v.height = b := Nat.mod_eq_of_lt (by have := H.hhi; omega)
      obtain ⟨path, hdesc, hok⟩ := descendPath_spec b [] hrepF (by omega)
      rw [hroot, hdesc]
      refine ⟨_, rfl, ⟨H, rfl, he, fun _ => ⟨r, hroot, ?_⟩⟩, rfl, rfl⟩
      simp only [List.nil_append]
      rw [← hmod]; exact hok

/-- iteration yields exactly the represented list, in order -/
theorem vreps_iterate {w : Vec α} {l : List α} (H : VReps w l) :
    w.iterate = .ok (l.map Slot.val) := by
  cases w with
  | nil => exact absurd H id
  | vec v =>
    have H' : Reps v l := H
    obtain ⟨it, hit, hinv, hidx, hstop⟩ := newIterator_spec H' (b := 0) (e := l.length)
      (Nat.zero_le _) (Nat.le_refl _)
    simp only [Vec.iterate, Vec.Iterator, H'.count, hit, ok_bind, Iter.toSlots]
    rw [iter_collect _ hinv rfl, hidx, hstop]
    simp [lslice]
  | sub v b e =>
    obtain ⟨lp, hR, hb, hbe, he, rfl⟩ := H
    obtain ⟨it, hit, hinv, hidx, hstop⟩ := newIterator_spec hR (b := b.toNat) (e := e.toNat)
      (by omega) (by omega)
    simp only [Vec.iterate, Vec.Iterator, hit, ok_bind, Iter.toSlots]
    rw [iter_collect _ hinv rfl, hidx, hstop]

end C06
