/-
C06 helper lemmas, part 5: `popTail` against `RepF`.
-/
import ElvProofs.C06.RepPush
namespace C06
open Go
open Gen.C06Consts

variable {α : Type}

/-- a non-empty multiple of `B` different from `B` is at least `2B` -/
theorem two_leaves {n : Nat} (h0 : 0 < n) (hd : nodeSize ∣ n) (hn : n ≠ nodeSize) :
    nodeSize + nodeSize ≤ n := by
  have h1 : nodeSize ≤ n := Nat.le_of_dvd h0 hd
  exact dvd_lt_add_le (Nat.dvd_refl _) hd (by omega)

/-- Replacing the last non-empty child of a node by the same child minus its
last leaf (or by nil when that leaf was all it had). -/
theorem pop_parent {h : Nat} {cs : Arr α} {n : Nat} {f : Nat → Option α}
    (H : RepF (h + 1) (.node cs) n f) (hn : n ≠ nodeSize) (c' : Slot α)
    (hc' : (n - nodeSize ≤ cap h * ((n - 1) / cap h) ∧ c' = .nil) ∨
      (cap h * ((n - 1) / cap h) < n - nodeSize ∧
        RepF h c' (min (cap h) (n - nodeSize - cap h * ((n - 1) / cap h)))
          (fun i => f (cap h * ((n - 1) / cap h) + i)))) :
    RepF (h + 1) (.node (cs.set ((n - 1) / cap h) c')) (n - nodeSize) f := by
  obtain ⟨cs', h1, h2, h0, hle, hd, h3⟩ := H
  cases h1
  have hB := nodeSize_pos
  have hSpos := cap_pos h
  have h2B := two_leaves h0 hd hn
  have hsplit : cap h * ((n - 1) / cap h) + (n - 1) % cap h = n - 1 := Nat.div_add_mod _ _
  have hq : (n - 1) % cap h < cap h := Nat.mod_lt _ hSpos
  have hidx : (n - 1) / cap h < nodeSize := by
    rw [Nat.div_lt_iff_lt_mul hSpos, Nat.mul_comm, ← cap_succ]; omega
  -- the last child holds at least one leaf
  have hlast : nodeSize ≤ (n - 1) % cap h + 1 := by
    have hdq : nodeSize ∣ n - cap h * ((n - 1) / cap h) :=
      Nat.dvd_sub hd (Nat.dvd_trans (nodeSize_dvd_cap h) (Nat.dvd_mul_right _ _))
    have : n - cap h * ((n - 1) / cap h) = (n - 1) % cap h + 1 := by omega
    rw [this] at hdq
    exact Nat.le_of_dvd (by omega) hdq
  refine ⟨_, rfl, by simp [h2], by omega, by omega, Nat.dvd_sub hd (Nat.dvd_refl _), ?_⟩
  intro k' hk'
  rcases Nat.lt_trichotomy k' ((n - 1) / cap h) with hlt | heq | hgt
  · have hmono := mul_succ_le (S := cap h) hlt
    obtain ⟨c, hc, hcase⟩ := h3 k' hk'
    refine ⟨c, by rw [List.getElem?_set]; simp [Nat.ne_of_gt hlt, hc], ?_⟩
    rcases hcase with ⟨hx, _⟩ | ⟨hx, hy⟩
    · omega
    · refine Or.inr ⟨by omega, ?_⟩
      have e1 : min (cap h) (n - cap h * k') = cap h := Nat.min_eq_left (by omega)
      have e2 : min (cap h) (n - nodeSize - cap h * k') = cap h := Nat.min_eq_left (by omega)
      rw [e1] at hy
      rw [e2]
      exact hy
  · subst heq
    have hlt : (n - 1) / cap h < cs.length := by rw [h2]; exact hidx
    exact ⟨c', by simp [hlt], hc'⟩
  · have hmono := mul_succ_le (S := cap h) hgt
    obtain ⟨c, hc, hcase⟩ := h3 k' hk'
    refine ⟨c, by rw [List.getElem?_set]; simp [Nat.ne_of_lt hgt, hc], ?_⟩
    rcases hcase with ⟨hx, hy⟩ | ⟨hx, _⟩
    · exact Or.inl ⟨by omega, hy⟩
    · omega

theorem popTail_spec (count : Nat) {h : Nat} :
    ∀ {cs : Arr α} {n : Nat} {f : Nat → Option α},
      RepF (h + 1) (.node cs) n f → (count - 2) % cap (h + 1) = n - 1 →
      (n = nodeSize → popTail count (h + 1) (some cs) = .ok none) ∧
      (n ≠ nodeSize → ∃ cs', popTail count (h + 1) (some cs) = .ok (some cs') ∧
        RepF (h + 1) (.node cs') (n - nodeSize) f) := by
  induction h with
  | zero =>
    intro cs n f H hpos
    have H' := H
    obtain ⟨cs', h1, h2, h0, hle, hd, h3⟩ := H
    cases h1
    have hB := nodeSize_pos
    have hdigit : digit 1 (count - 2) = (n - 1) / cap 0 := by
      rw [digit_succ_local, hpos]
    -- n = B * (m' + 1)
    obtain ⟨m, hm⟩ := hd
    have hmpos : 0 < m := by
      rcases Nat.eq_zero_or_pos m with h | h
      · subst h; simp at hm; omega
      · exact h
    obtain ⟨m', rfl⟩ : ∃ m', m = m' + 1 := ⟨m - 1, by omega⟩
    rw [Nat.mul_succ] at hm
    have hdm := div_mod_unique (S := nodeSize) (a := m') (r := nodeSize - 1) (by omega)
    have hn1 : n - 1 = nodeSize * m' + (nodeSize - 1) := by omega
    rw [← hn1] at hdm
    constructor
    · intro hn
      have : m' = 0 := by
        rcases Nat.eq_zero_or_pos m' with h | h
        · exact h
        · have : nodeSize * 1 ≤ nodeSize * m' := Nat.mul_le_mul_left _ h
          omega
      simp only [popTail, popTailLow, hdigit, cap_zero, hdm.1, this, if_true]
    · intro hn
      have hm'pos : m' ≠ 0 := by
        intro h; subst h; simp at hm; omega
      have hidx : (n - 1) / cap 0 < cs.length := by
        rw [h2, cap_zero, hdm.1]
        rw [cap_succ, cap_zero] at hle
        have : nodeSize * (m' + 1) ≤ nodeSize * nodeSize := by rw [Nat.mul_succ]; omega
        have := Nat.le_of_mul_le_mul_left this hB
        omega
      refine ⟨cs.set ((n - 1) / cap 0) .nil, ?_, ?_⟩
      · have hne : ¬ ((n - 1) / cap 0 = 0) := by rw [cap_zero, hdm.1]; exact hm'pos
        simp only [popTail, popTailLow, hdigit, if_neg hne, deref_some, ok_bind,
          setIdx_of_lt _ hidx, pure_eq_ok]
      · refine pop_parent H' hn .nil (Or.inl ⟨?_, rfl⟩)
        rw [cap_zero, hdm.1]; omega
  | succ h ih =>
    intro cs n f H hpos
    have H' := H
    obtain ⟨cs', h1, h2, h0, hle, hd, h3⟩ := H
    cases h1
    have hB := nodeSize_pos
    have hSpos := cap_pos (h + 1)
    have hBS := nodeSize_le_cap (h + 1)
    have hdigit : digit (h + 2) (count - 2) = (n - 1) / cap (h + 1) := by
      rw [digit_succ_local, hpos]
    have hsplit : cap (h + 1) * ((n - 1) / cap (h + 1)) + (n - 1) % cap (h + 1) = n - 1 :=
      Nat.div_add_mod _ _
    have hq : (n - 1) % cap (h + 1) < cap (h + 1) := Nat.mod_lt _ hSpos
    have hidx : (n - 1) / cap (h + 1) < nodeSize := by
      rw [Nat.div_lt_iff_lt_mul hSpos, Nat.mul_comm, ← cap_succ]; omega
    have hidxl : (n - 1) / cap (h + 1) < cs.length := by rw [h2]; exact hidx
    obtain ⟨c, hc, hcase⟩ := h3 _ hidx
    rcases hcase with ⟨hx, _⟩ | ⟨hx, hy⟩
    · omega
    · obtain ⟨ccs, rfl, _⟩ := hy.isNode
      have hcnt : min (cap (h + 1)) (n - cap (h + 1) * ((n - 1) / cap (h + 1))) =
          (n - 1) % cap (h + 1) + 1 := by
        have : n - cap (h + 1) * ((n - 1) / cap (h + 1)) = (n - 1) % cap (h + 1) + 1 := by omega
        rw [this]; exact Nat.min_eq_right (by omega)
      rw [hcnt] at hy
      have hposc : (count - 2) % cap (h + 1) = (n - 1) % cap (h + 1) + 1 - 1 := by
        rw [← mod_cap_succ_mod, hpos]; omega
      obtain ⟨ihB, ihN⟩ := ih hy hposc
      by_cases hlastB : (n - 1) % cap (h + 1) + 1 = nodeSize
      · -- the last child had exactly one leaf
        have hrec := ihB hlastB
        constructor
        · intro hn
          have hk0 : (n - 1) / cap (h + 1) = 0 := Nat.div_eq_of_lt (by omega)
          simp only [popTail, deref_some, ok_bind, hdigit, getIdx_of_getElem? hc, asNode_node, hrec]
          simp [hk0]
        · intro hn
          have hk0 : (n - 1) / cap (h + 1) ≠ 0 := by
            intro hk0
            rw [hk0, Nat.mul_zero, Nat.zero_add] at hsplit
            omega
          refine ⟨cs.set ((n - 1) / cap (h + 1)) .nil, ?_, ?_⟩
          · simp only [popTail, deref_some, ok_bind, hdigit, getIdx_of_getElem? hc, asNode_node, hrec]
            simp [hk0, setIdx_of_lt _ hidxl]
          · exact pop_parent H' hn .nil (Or.inl ⟨by omega, rfl⟩)
      · obtain ⟨ccs', hrec, hrep⟩ := ihN hlastB
        have hlast2 := two_leaves (by omega) hy.bounds.2.2 hlastB
        have hn : n ≠ nodeSize := by omega
        have hres : ∃ cs', popTail count (h + 2) (some cs) = Res.ok (some cs') ∧
            RepF (h + 2) (.node cs') (n - nodeSize) f := by
          refine ⟨cs.set ((n - 1) / cap (h + 1)) (.node ccs'), ?_, ?_⟩
          · simp only [popTail, deref_some, ok_bind, hdigit, getIdx_of_getElem? hc, asNode_node, hrec]
            simp [setIdx_of_lt _ hidxl]
          · refine pop_parent H' hn (.node ccs') (Or.inr ⟨by omega, ?_⟩)
            have e : min (cap (h + 1)) (n - nodeSize - cap (h + 1) * ((n - 1) / cap (h + 1))) =
                (n - 1) % cap (h + 1) + 1 - nodeSize := by
              have : n - nodeSize - cap (h + 1) * ((n - 1) / cap (h + 1)) =
                  (n - 1) % cap (h + 1) + 1 - nodeSize := by omega
              rw [this]; exact Nat.min_eq_right (by omega)
            rw [e]
            exact hrep
        exact ⟨fun h => absurd h hn, fun _ => hres⟩

end C06
