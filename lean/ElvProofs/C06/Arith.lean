/-
C06 helper lemmas, part 1: the four facts about the generated constants that
every later proof uses (nothing else about the constants is ever unfolded, so
the proofs are generic in the branching exponent), digit arithmetic, and the
`Res` monad rewriting rules.
-/
import ElvModel.C06.Model
namespace C06
open Go
open Gen.C06Consts

/-! ### the only facts used about the generated constants -/

theorem nodeSize_eq : nodeSize = 2 ^ chunkBits := by decide
theorem chunkMask_eq : chunkMask = nodeSize - 1 := by decide
theorem tailMaxLen_eq : tailMaxLen = nodeSize := by decide
theorem chunkBits_pos : 1 ≤ chunkBits := by decide

theorem two_le_nodeSize : 2 ≤ nodeSize := by
  rw [nodeSize_eq]
  have h := chunkBits_pos
  calc 2 = 2 ^ 1 := rfl
    _ ≤ 2 ^ chunkBits := Nat.pow_le_pow_right (by decide) h

theorem nodeSize_pos : 0 < nodeSize := by have := two_le_nodeSize; omega

/-- capacity (number of elements) of a full subtree of height `h` -/
def cap (h : Nat) : Nat := nodeSize ^ (h + 1)

theorem cap_zero : cap 0 = nodeSize := by simp [cap]
theorem cap_succ (h : Nat) : cap (h + 1) = cap h * nodeSize := by simp [cap, Nat.pow_succ]
theorem cap_pos (h : Nat) : 0 < cap h := Nat.pow_pos nodeSize_pos
theorem nodeSize_dvd_cap (h : Nat) : nodeSize ∣ cap h := by
  unfold cap; rw [Nat.pow_succ]; exact Nat.dvd_mul_left _ _
theorem nodeSize_le_cap (h : Nat) : nodeSize ≤ cap h :=
  Nat.le_of_dvd (cap_pos h) (nodeSize_dvd_cap h)
theorem cap_lt_cap_succ (h : Nat) : cap h < cap (h + 1) := by
  rw [cap_succ]
  have h1 := cap_pos h
  have h2 := two_le_nodeSize
  calc cap h = cap h * 1 := by omega
    _ < cap h * nodeSize := Nat.mul_lt_mul_of_le_of_lt (Nat.le_refl _) (by omega) h1

theorem and_mask (i : Nat) : i &&& chunkMask = i % nodeSize := by
  rw [chunkMask_eq, nodeSize_eq, Nat.and_two_pow_sub_one_eq_mod]

theorem digit_zero (i : Nat) : digit 0 i = i % nodeSize := by
  simp [digit, and_mask]

theorem digit_succ (h i : Nat) : digit (h + 1) i = i / cap h % nodeSize := by
  unfold digit
  rw [and_mask, Nat.shiftRight_eq_div_pow, Nat.pow_mul', ← nodeSize_eq]
  rfl

/-- the digit only depends on the position inside the subtree of height `h+1` -/
theorem digit_succ_local (h i : Nat) : digit (h + 1) i = (i % cap (h + 1)) / cap h := by
  rw [digit_succ, cap_succ, Nat.mod_mul_right_div_self]

theorem mod_cap_succ_mod (h i : Nat) : (i % cap (h + 1)) % cap h = i % cap h := by
  rw [cap_succ, Nat.mod_mul_right_mod]

theorem digit_lt (h i : Nat) : digit h i < nodeSize := by
  cases h with
  | zero => rw [digit_zero]; exact Nat.mod_lt _ nodeSize_pos
  | succ h => rw [digit_succ]; exact Nat.mod_lt _ nodeSize_pos

/-- splitting a position `p` inside a subtree of height `h+1` -/
theorem split_pos (h p : Nat) (hp : p < cap (h + 1)) :
    cap h * (p / cap h) + p % cap h = p ∧ p % cap h < cap h ∧ p / cap h < nodeSize := by
  refine ⟨Nat.div_add_mod _ _, Nat.mod_lt _ (cap_pos h), ?_⟩
  rw [Nat.div_lt_iff_lt_mul (cap_pos h), Nat.mul_comm, ← cap_succ]
  exact hp

/-- multiples of `B` below a multiple of `B` leave room for a whole `B` -/
theorem dvd_lt_add_le {B n m : Nat} (hn : B ∣ n) (hm : B ∣ m) (h : n < m) : n + B ≤ m := by
  obtain ⟨a, rfl⟩ := hn
  obtain ⟨c, rfl⟩ := hm
  have hB : 0 < B := by
    rcases Nat.eq_zero_or_pos B with h0 | h0
    · subst h0; simp at h
    · exact h0
  have hac : a < c := Nat.lt_of_mul_lt_mul_left h
  have : B * (a + 1) ≤ B * c := Nat.mul_le_mul_left B hac
  rw [Nat.mul_add, Nat.mul_one] at this
  exact this

theorem dvd_mod_of_dvd {B S n : Nat} (hS : B ∣ S) (hn : B ∣ n) : B ∣ n % S :=
  (Nat.dvd_mod_iff hS).mpr hn

/-! ### `Res` monad -/

@[simp] theorem ok_bind {β γ : Type} (a : β) (f : β → Res γ) : (Res.ok a >>= f) = f a := rfl
@[simp] theorem pure_eq_ok {β : Type} (a : β) : (pure a : Res β) = Res.ok a := rfl
@[simp] theorem panic_bind {β γ : Type} (w : String) (f : β → Res γ) :
    ((Res.panic w : Res β) >>= f) = Res.panic w := rfl
@[simp] theorem exc_bind {β γ : Type} (w : String) (f : β → Res γ) :
    ((Res.exc w : Res β) >>= f) = Res.exc w := rfl

theorem bind_assoc' {β γ δ : Type} (r : Res β) (f : β → Res γ) (g : γ → Res δ) :
    ((r >>= f) >>= g) = (r >>= fun a => f a >>= g) := by
  cases r <;> rfl

variable {α : Type}

@[simp] theorem deref_some (a : Arr α) : deref (some a) = .ok a := rfl
@[simp] theorem asNode_node (a : Arr α) : asNode (Slot.node a) = .ok (some a) := rfl
@[simp] theorem toAny_some (a : Arr α) : toAny (some a) = Slot.node a := rfl

theorem getIdx_of_getElem? {β : Type} {a : List β} {i : Nat} {x : β} (h : a[i]? = some x) :
    getIdx a i = .ok x := by simp [getIdx, h]

theorem setIdx_of_lt {β : Type} {a : List β} {i : Nat} (x : β) (h : i < a.length) :
    setIdx a i x = .ok (a.set i x) := by simp [setIdx, h]

end C06
