/-
C27 — daemon activation yields one live daemon per socket: property theorems.

Model: lean/ElvModel/C27/Model.lean (interleaving semantics of `Activate` and
`Serve` over the shared socket path and database lock, any number of shells);
the property: lean/ElvModel/C27/Spec.lean (`Safe` = I1 ∧ I1own ∧ I2 ∧ I2s ∧ I3 ∧ I4 ∧ L).

The property at full strength is FALSE for the code (also after
fixes/C27-no-unlink-on-close.patch): `C27_counterexample`.  What is proved:

  * `C27_safe_partial`     every reachable state in whose history no shell
                           removed a live daemon's socket file satisfies `Safe`
                           (the hypothesis excludes exactly the finding's class);
  * `C27_safe_atomic_removal`  the same, phrased on schedules (`AtomicRemoval`);
  * `C27_safe_exclusive`   schedules in which the refused→remove window of a
                           shell is not interleaved with another activation;
  * `C27_safe_sequential`  one shell activating at a time, with arbitrary
                           crashes, signals and exits in between;
  * `C27_acceptor_sound`   accepted logs of real processes are model executions.
-/
import ElvProofs.C27.Inv
import ElvProofs.C27.Sched
import ElvProofs.C27.Cex
import ElvProofs.C27.AcceptSound
open C27

/-- The property at full strength: every state of every interleaving is safe. -/
def C27_full : Prop := ∀ s, Reachable s → Safe s

/-- Concurrent activation over a stale socket breaks it: after the schedule
`cexA` two daemons serve the socket path (I1) and daemon 1 is orphaned on an
unlinked socket (I1own); after `cexB` shell 2's `Activate` has returned nil with
a client to daemon 2, which serves without the database (I2s, L); after `cexC`
daemon 1's exit has removed daemon 2's socket file (I4). -/
theorem C27_counterexample :
    (∃ s, Reachable s ∧ ¬ I1 s ∧ ¬ I1own s) ∧
    (∃ s, Reachable s ∧ ¬ I2s s ∧ ¬ L s) ∧
    (∃ s, Reachable s ∧ ¬ I4 s ∧ ¬ I1own s) ∧
    ¬ C27_full := by
  have hA := cexA_facts
  have hB := cexB_facts
  have hC := cexC_facts
  cases rA : run init cexA with
  | none => simp [rA] at hA
  | some sA =>
  cases rB : run init cexB with
  | none => simp [rB] at hB
  | some sB =>
  cases rC : run init cexC with
  | none => simp [rC] at hC
  | some sC =>
  simp only [rA, rB, rC, Option.map_some, Option.some.injEq, factsOf, Facts.mk.injEq] at hA hB hC
  have reachA : Reachable sA := reachable_run .init rA
  have reachB : Reachable sB := reachable_run .init rB
  have reachC : Reachable sC := reachable_run .init rC
  have nI1 : ¬ I1 sA := by
    intro h
    have := h 1 2 (by simp [hA.2.2.1, DPc.ownsPath]) (by simp [hA.2.2.2.1, DPc.ownsPath])
    omega
  have nOwnA : ¬ I1own sA := by
    intro h
    have := h 1 (by simp [hA.2.2.1, DPc.ownsPath])
    simp [hA.1] at this
  have nI2s : ¬ I2s sB := by
    intro h
    have := h 2 (by simp [hB.2.2.2.1, DPc.answers])
    simp [hB.2.2.2.2.1] at this
  have nL : ¬ L sB := by
    intro h
    have := h 2 2 (Or.inl hB.2.2.2.2.2.2.1)
    simp [goodDaemon, hB.2.2.2.2.1, hB.2.2.2.2.2.1] at this
  have nI4 : ¬ I4 sC := by simp [I4, hC.2.2.2.2.2.2.2.1]
  have nOwnC : ¬ I1own sC := by
    intro h
    have := h 2 (by simp [hC.2.2.2.1, DPc.ownsPath])
    simp [hC.1] at this
  exact ⟨⟨sA, reachA, nI1, nOwnA⟩, ⟨sB, reachB, nI2s, nL⟩, ⟨sC, reachC, nI4, nOwnC⟩,
    fun h => nI1 (h sA reachA).1⟩

/-- In the counterexample a shell removed a live daemon's socket file
(ghost flag `liveRm`): the schedule is outside the hypothesis of `C27_safe_partial`. -/
theorem C27_counterexample_class : ∃ s, run init cexA = some s ∧ s.liveRm = true := by
  have hA := cexA_facts
  cases rA : run init cexA with
  | none => simp [rA] at hA
  | some sA =>
    simp only [rA, Option.map_some, Option.some.injEq, factsOf, Facts.mk.injEq] at hA
    exact ⟨sA, rfl, hA.2.2.2.2.2.2.2.2⟩

/-- Schedules whose every `os.Remove(sockpath)` by a shell removes a genuinely
stale socket file (its creator is dead) are safe: I1–I4 and L hold in every state. -/
theorem C27_safe_atomic_removal (s : State) (h : ReachableG AtomicRemoval s) : Safe s :=
  safe_of_inv (inv_of_reachableG h)

example : ∃ s, ReachableG AtomicRemoval s ∧ s.sh 0 = .detected false .missing 0 :=
  ⟨_, .step (.step (.step .init (by intro k h; cases h) (l := .sh 0 .start) rfl)
        (by intro k h; cases h) (l := .sh 0 .begin) rfl) (by intro k h; cases h) (l := .sh 0 .lstat) rfl, rfl⟩

/-- PARTIAL form of `C27_full`: every reachable state in whose history no shell
removed the socket file of a live daemon satisfies the whole property.  The
missing part is exactly the class of `C27_counterexample` (known finding
`concurrent-activation-over-stale-socket`): `detectDaemon … connectionRefused`
and `os.Remove(sockpath)` are separate steps and the removal is by path. -/
theorem C27_safe_partial (s : State) (h : Reachable s) (hl : s.liveRm = false) : Safe s := by
  apply C27_safe_atomic_removal
  induction h with
  | init => exact .init
  | step hr hs ih => exact .step (ih (liveRm_mono hs hl)) (atomic_of_liveRm hs hl) hs

/-- non-vacuity: the stale-socket case with ONE activating shell (daemon 0
killed, shell 1 removes the stale socket and ends connected to daemon 1, which
holds the database) is inside the hypothesis. -/
example : ∃ s, Reachable s ∧ s.liveRm = false ∧ connectedTo s 1 1 ∧ (s.dm 0).pc = .dead .crashed ∧
    (s.dm 1).hasDB = true := by
  have h := seqTrace_facts
  cases r : run init seqTrace with
  | none => simp [r] at h
  | some s =>
    simp only [r, Option.map_some, Option.some.injEq, Prod.mk.injEq] at h
    exact ⟨s, reachable_run .init r, h.1, Or.inl h.2.1, h.2.2.1, h.2.2.2⟩

/-- The concurrent case under the hypothesis that stale-socket removal is not
concurrent with another activation (`Exclusive`: while a shell is between its
"connection refused" and its `os.Remove`, no other shell takes a step of
`Activate`; a shell enters that window only when no other shell is activating;
nobody dials inside a starting daemon's bind→listen window).  Daemons, exits,
SIGKILLs and SIGTERMs interleave freely. -/
theorem C27_safe_exclusive (s : State) (h : ReachableG Exclusive s) : Safe s :=
  C27_safe_atomic_removal s (atomic_of_exclusive h)

/-- The single-shell case: any number of activations one after the other (a
shell starts `Activate` only when no other shell is inside it), with crashes of
shells and daemons, signals and exits at any time, and slow daemons left over
from earlier activations. -/
theorem C27_safe_sequential (s : State) (h : ReachableG Sequential s) : Safe s :=
  C27_safe_exclusive s (exclusive_of_reachable_sequential h).1

example : ∃ s, ReachableG Sequential s ∧ s.sh 0 = .spawn :=
  ⟨_, .step (.step (.step (.step .init
      ⟨(by intro k _ j; rfl), (by intro k h; cases h)⟩ (l := .sh 0 .start) rfl)
      ⟨(by intro k h; cases h), (by intro k h; cases h)⟩ (l := .sh 0 .begin) rfl)
      ⟨(by intro k h; cases h), (by intro k h; cases h)⟩ (l := .sh 0 .lstat) rfl)
      ⟨(by intro k h; cases h), (by intro k h; cases h)⟩ (l := .sh 0 .branch) rfl, rfl⟩

/-- Consequences in the property's own words, for safe states: at most one
daemon serves the socket and it is the one whose file is at the path; a shell
whose `Activate` returned nil is connected to a serving daemon that holds the
database (unless that daemon was signalled or killed), which cannot leave its
loop while the shell lives. -/
theorem C27_activation_outcome (s : State) (h : Safe s) (k d : Nat) (hk : s.sh k = .done (.ok d))
    (hd : (s.dm d).killed = false) :
    (s.dm d).pc = .serving ∧ (s.dm d).hasDB = true ∧ k ∈ (s.dm d).conns ∧ s.sock = some d ∧
      ∀ d', (s.dm d').pc.ownsPath = true → d' = d := by
  obtain ⟨h1, h1o, _, _, _, _, hL⟩ := h
  have hg := hL k d (Or.inl hk)
  simp only [goodDaemon, hd, Bool.false_eq_true, false_or] at hg
  have hown : (s.dm d).pc.ownsPath = true := by simp [hg.1, DPc.ownsPath]
  exact ⟨hg.1, hg.2.2, hg.2.1, h1o d hown, fun d' hd' => h1 d' d hd' hown⟩

/-- Every candidate state the driver's trace acceptor ever holds is reachable:
a log of real processes that the acceptor accepts entry by entry is an
execution of the model. -/
theorem C27_acceptor_sound (n : Nat) (es : List Entry) :
    ∀ c ∈ es.foldl (process n) [Cand.init n], Reachable c.s :=
  foldl_process_reach n es _ (init_reach n)
