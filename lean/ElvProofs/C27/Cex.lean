/-
C27 — the counterexample: concurrent activation over a stale socket.
(The same schedule is replayed against real processes by the harness:
scenario `stale-race` of harness/c27/scen.go.)
-/
import ElvModel.C27.Spec
namespace C27

/-- Shell 0 brings daemon 0 up; daemon 0 is SIGKILLed (stale socket); shell 0 leaves. -/
def cexPrelude : List Label :=
  [.sh 0 .start, .sh 0 .begin, .sh 0 .lstat, .sh 0 .branch, .sh 0 .spawn,
   .dm 0 .bind, .dm 0 .listen, .dm 0 .openOk, .dm 0 .enter,
   .sh 0 .poll, .sh 0 .lstat, .sh 0 .dial, .dm 0 (.accept 0), .sh 0 .branch,
   .dm 0 .crash, .sh 0 .exit]

/-- Shells 1 and 2 both get "connection refused" from the stale socket. -/
def cexBothRefused : List Label :=
  [.sh 1 .start, .sh 1 .begin, .sh 1 .lstat, .sh 1 .dial,
   .sh 2 .start, .sh 2 .begin, .sh 2 .lstat, .sh 2 .dial]

/-- Shell 1 removes the stale socket, spawns daemon 1 and is connected to it. -/
def cexFirst : List Label :=
  [.sh 1 .branch, .sh 1 .remove, .sh 1 .spawn,
   .dm 1 .bind, .dm 1 .listen, .dm 1 .openOk, .dm 1 .enter,
   .sh 1 .poll, .sh 1 .lstat, .sh 1 .dial, .dm 1 (.accept 1), .sh 1 .branch]

/-- Shell 2 removes daemon 1's FRESH socket and spawns daemon 2, which binds a new file. -/
def cexSecond : List Label :=
  [.sh 2 .branch, .sh 2 .remove, .sh 2 .spawn, .dm 2 .bind, .dm 2 .listen]

/-- Daemon 2 cannot get the database lock (daemon 1 holds it), serves anyway; shell 2 connects. -/
def cexNoDb : List Label :=
  [.dm 2 .openFail, .dm 2 .enter, .sh 2 .poll, .sh 2 .lstat, .sh 2 .dial, .dm 2 (.accept 2), .sh 2 .branch]

/-- Shell 1 leaves; daemon 1 exits and removes daemon 2's socket by path. -/
def cexExit : List Label :=
  [.sh 1 .exit, .dm 1 (.connDone 1), .dm 1 .removeSock]

def cexA : List Label := cexPrelude ++ cexBothRefused ++ cexFirst ++ cexSecond
def cexB : List Label := cexA ++ cexNoDb
def cexC : List Label := cexB ++ cexExit

/-- What the counterexample needs to know about a state, as data. -/
structure Facts where
  sock : Option Nat
  db : Option Nat
  pc1 : DPc
  pc2 : DPc
  db2 : Bool
  killed2 : Bool
  sh2 : SPc
  foreign : Bool
  liveRm : Bool
  deriving DecidableEq, Repr

def factsOf (s : State) : Facts :=
  { sock := s.sock, db := s.db, pc1 := (s.dm 1).pc, pc2 := (s.dm 2).pc, db2 := (s.dm 2).hasDB,
    killed2 := (s.dm 2).killed, sh2 := s.sh 2, foreign := s.foreign, liveRm := s.liveRm }

theorem cexA_facts : (run init cexA).map factsOf =
    some { sock := some 2, db := some 1, pc1 := .serving, pc2 := .listened, db2 := false, killed2 := false,
           sh2 := .pollTop, foreign := false, liveRm := true } := by decide

theorem cexB_facts : (run init cexB).map factsOf =
    some { sock := some 2, db := some 1, pc1 := .serving, pc2 := .serving, db2 := false, killed2 := false,
           sh2 := .done (.ok 2), foreign := false, liveRm := true } := by decide

theorem cexC_facts : (run init cexC).map factsOf =
    some { sock := none, db := some 1, pc1 := .removed, pc2 := .serving, db2 := false, killed2 := false,
           sh2 := .done (.ok 2), foreign := true, liveRm := true } := by decide

/-- One shell alone over the stale socket (inside the hypothesis of the safety theorems). -/
def seqTrace : List Label :=
  cexPrelude ++ [.sh 1 .start, .sh 1 .begin, .sh 1 .lstat, .sh 1 .dial] ++ cexFirst

theorem seqTrace_facts : (run init seqTrace).map
    (fun s => (s.liveRm, s.sh 1, (s.dm 0).pc, (s.dm 1).hasDB)) =
    some (false, .done (.ok 1), .dead .crashed, true) := by decide

end C27
