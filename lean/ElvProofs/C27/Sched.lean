/-
C27 — schedules under which `AtomicRemoval` holds automatically.

`Exclusive`: the window between a shell's "connection refused" and its
`os.Remove(sockpath)` is not interleaved with any other shell's activation,
and no shell dials inside a starting daemon's bind→listen window.
`Sequential`: one shell activates at a time (shells may exit or be killed, and
daemons may do anything, at any time).
-/
import ElvProofs.C27.Inv
namespace C27

/-- Inside `Activate` (between its first statement and its return). -/
def SPc.active : SPc → Bool
  | .idle | .done _ | .gone => false
  | _ => true

/-- Between "connection refused" from the first detectDaemon and `os.Remove`. -/
def SPc.inWindow : SPc → Bool
  | .detected false .refused _ | .remove => true
  | _ => false

/-- The next `dial` of shell `k` will be refused. -/
def entersWindow (s : State) (k : Nat) : Prop :=
  s.sh k = .dial false ∧ ∃ d, s.sock = some d ∧ (s.dm d).pc.listenerOpen = false

/-- No shell dials a socket file whose daemon is between bind(2) and listen(2). -/
def NoDialInBindWindow (s : State) (l : Label) : Prop :=
  ∀ k, l = .sh k .dial → ∀ d, s.sock = some d → (s.dm d).pc ≠ .bound

def Exclusive (s : State) (l : Label) : Prop :=
  (∀ k a, l = .sh k a → a ≠ .exit → a ≠ .crash → ∀ j, j ≠ k → (s.sh j).inWindow = false) ∧
  (∀ k, l = .sh k .dial → entersWindow s k → ∀ j, j ≠ k → (s.sh j).active = false) ∧
  NoDialInBindWindow s l

def Sequential (s : State) (l : Label) : Prop :=
  (∀ k, l = .sh k .start → ∀ j, (s.sh j).active = false) ∧ NoDialInBindWindow s l

/-- Extra invariant for the exclusive schedules. -/
structure InvX (s : State) : Prop extends Inv s where
  born : ∀ d, s.sock = some d → (s.dm d).pc ≠ .unborn ∧ (s.dm d).pc ≠ .start ∧ (s.dm d).pc ≠ .failed
  win : ∀ k, (s.sh k).inWindow = true → ∃ d, s.sock = some d ∧ (s.dm d).pc.isAlive = false

theorem born_step {s s' : State} {l : Label} (h : InvX s) (hs : step s l = some s') :
    ∀ d, s'.sock = some d → (s'.dm d).pc ≠ .unborn ∧ (s'.dm d).pc ≠ .start ∧ (s'.dm d).pc ≠ .failed := by
  have h1 := h.born
  intro d
  cases l with
  | sh k a => cases a <;> step_cases hs <;> grind
  | dm k a => cases a <;> step_cases hs <;> grind [DPc.isAlive]

theorem atomic_of_invX {s : State} {l : Label} (h : InvX s) {s' : State} (hs : step s l = some s') :
    AtomicRemoval s l := by
  intro k hl d hd
  subst hl
  have hw := h.win k
  simp only [step, stepSh] at hs
  split at hs
  · rename_i hpc
    simp [hpc, SPc.inWindow] at hw
    grind
  · simp at hs

theorem not_alive_of {pc : DPc} (h1 : pc.listenerOpen = false) (h2 : pc ≠ .unborn) (h3 : pc ≠ .start)
    (h4 : pc ≠ .failed) (h5 : pc ≠ .bound) : pc.isAlive = false := by
  cases pc <;> simp_all [DPc.listenerOpen, DPc.isAlive]

theorem win_step {s s' : State} {l : Label} (h : InvX s) (g : Exclusive s l) (hs : step s l = some s') :
    ∀ k, (s'.sh k).inWindow = true → ∃ d, s'.sock = some d ∧ (s'.dm d).pc.isAlive = false := by
  have h1 := h.win
  have h2 := h.born
  have h3 := h.own
  obtain ⟨g1, g2, g3⟩ := g
  intro j
  have h1j := h1 j
  cases l with
  | sh k a =>
    have g1' := g1 k a rfl
    cases a <;> (try have g2' := g2 k rfl) <;> (try have g3' := g3 k rfl) <;> step_cases hs <;>
      grind [SPc.inWindow, entersWindow, not_alive_of]
  | dm k a =>
    cases a <;> step_cases hs <;>
      grind [SPc.inWindow, DPc.isAlive, DPc.ownsPath]

theorem invX_init : InvX init :=
  { inv_init with
    born := by simp [init]
    win := by simp [init, SPc.inWindow] }

theorem invX_step {s s' : State} {l : Label} (h : InvX s) (g : Exclusive s l) (hs : step s l = some s') :
    InvX s' :=
  { inv_step h.toInv (atomic_of_invX h hs) hs with
    born := born_step h hs
    win := win_step h g hs }

theorem invX_of_reachableG {s : State} (h : ReachableG Exclusive s) : InvX s := by
  induction h with
  | init => exact invX_init
  | step _ g hs ih => exact invX_step ih g hs

/-- Exclusive schedules are schedules with atomic stale-socket removal. -/
theorem atomic_of_exclusive {s : State} (h : ReachableG Exclusive s) : ReachableG AtomicRemoval s := by
  induction h with
  | init => exact .init
  | step hr _ hs ih => exact .step ih (atomic_of_invX (invX_of_reachableG hr) hs) hs

/-! Sequential activations -/

def OneActive (s : State) : Prop := ∀ j k, (s.sh j).active = true → (s.sh k).active = true → j = k

theorem inWindow_active {pc : SPc} (h : pc.inWindow = true) : pc.active = true := by
  cases pc <;> simp_all [SPc.inWindow, SPc.active]

theorem oneActive_step {s s' : State} {l : Label} (h : OneActive s) (g : Sequential s l)
    (hs : step s l = some s') : OneActive s' := by
  obtain ⟨g1, _⟩ := g
  intro i j
  have hij := h i j
  cases l with
  | sh k a =>
    have hik := h i k
    have hkj := h k j
    cases a <;> (try have g1' := g1 k rfl) <;> step_cases hs <;> grind [SPc.active]
  | dm k a =>
    cases a <;> step_cases hs <;> grind [SPc.active]

theorem exclusive_of_sequential {s s' : State} {l : Label} (h : OneActive s) (g : Sequential s l)
    (hs : step s l = some s') : Exclusive s l := by
  obtain ⟨g1, g2⟩ := g
  refine ⟨?_, ?_, g2⟩
  · intro k a hl hne1 hne2 j hjk
    subst hl
    cases hw : (s.sh j).inWindow with
    | false => rfl
    | true =>
      have hj := inWindow_active hw
      have hjk' := h j k hj
      have g1' := g1 k
      cases a <;> step_cases hs <;> grind [SPc.active]
  · intro k hl _ j hjk
    subst hl
    cases hw : (s.sh j).active with
    | false => rfl
    | true =>
      have hjk' := h j k hw
      step_cases hs <;> grind [SPc.active]

theorem exclusive_of_reachable_sequential {s : State} (h : ReachableG Sequential s) :
    ReachableG Exclusive s ∧ OneActive s := by
  induction h with
  | init => exact ⟨.init, by simp [OneActive, init, SPc.active]⟩
  | step _ g hs ih => exact ⟨.step ih.1 (exclusive_of_sequential ih.2 g hs) hs, oneActive_step ih.2 g hs⟩

end C27
