/-
C27 — the inductive invariant behind the safety theorems.

`Inv` strengthens `Safe`; it is preserved by every model step that satisfies
`AtomicRemoval` (a shell's `os.Remove(sockpath)` only ever removes a file whose
creator is dead, i.e. a genuinely stale socket).
-/
import ElvModel.C27.Spec
namespace C27

/-- The hypothesis under which the property holds: when a shell executes
`os.Remove(sockpath)`, the file at the path (if any) was created by a daemon
that is no longer alive.  (False in general — see `C27_counterexample`: the
check `connectionRefused` and the removal are two steps.) -/
def AtomicRemoval (s : State) (l : Label) : Prop :=
  ∀ k, l = .sh k .remove → ∀ d, s.sock = some d → (s.dm d).pc.isAlive = false

structure Inv (s : State) : Prop where
  own : ∀ d, (s.dm d).pc.ownsPath = true → s.sock = some d
  fresh : ∀ d, (s.dm d).pc = .unborn → (s.dm d).killed = false ∧ (s.dm d).conns = [] ∧ (s.dm d).hasDB = false
  dbIff : ∀ d, (s.dm d).hasDB = true ↔ s.db = some d
  dbPc : ∀ d, (s.dm d).hasDB = true →
    (s.dm d).pc = .opened ∨ (s.dm d).pc = .serving ∨ (s.dm d).pc = .exiting ∨ (s.dm d).pc = .removed
  ans : ∀ d, (s.dm d).pc.answers = true → (s.dm d).hasDB = true
  i3 : ∀ d, (s.dm d).killed = false → (s.dm d).pc ≠ .serving → (s.dm d).conns = []
  i4 : s.foreign = false
  l : L s

@[simp] theorem setSh_sh (s : State) (k : Nat) (pc : SPc) (j : Nat) :
    (s.setSh k pc).sh j = if j = k then pc else s.sh j := rfl
@[simp] theorem setSh_dm (s : State) (k : Nat) (pc : SPc) : (s.setSh k pc).dm = s.dm := rfl
@[simp] theorem setSh_sock (s : State) (k : Nat) (pc : SPc) : (s.setSh k pc).sock = s.sock := rfl
@[simp] theorem setSh_db (s : State) (k : Nat) (pc : SPc) : (s.setSh k pc).db = s.db := rfl
@[simp] theorem setSh_foreign (s : State) (k : Nat) (pc : SPc) : (s.setSh k pc).foreign = s.foreign := rfl
@[simp] theorem setDm_dm (s : State) (k : Nat) (d : Daemon) (j : Nat) :
    (s.setDm k d).dm j = if j = k then d else s.dm j := rfl
@[simp] theorem setDm_sh (s : State) (k : Nat) (d : Daemon) : (s.setDm k d).sh = s.sh := rfl
@[simp] theorem setDm_sock (s : State) (k : Nat) (d : Daemon) : (s.setDm k d).sock = s.sock := rfl
@[simp] theorem setDm_db (s : State) (k : Nat) (d : Daemon) : (s.setDm k d).db = s.db := rfl
@[simp] theorem setDm_foreign (s : State) (k : Nat) (d : Daemon) : (s.setDm k d).foreign = s.foreign := rfl

/-- Case analysis of one model step: afterwards `s'` is replaced by the
concrete successor state in every remaining goal. -/
macro "step_cases" hs:ident : tactic =>
  `(tactic| (
    simp only [step, stepSh, stepDm] at $hs:ident
    repeat' split at $hs:ident
    all_goals (try simp only [Option.some.injEq, reduceCtorEq] at $hs:ident)
    all_goals (try subst $hs:ident)
    all_goals (try simp only [setSh_sh, setSh_dm, setSh_sock, setSh_db, setSh_foreign,
      setDm_dm, setDm_sh, setDm_sock, setDm_db, setDm_foreign] at *)))


theorem ownsPath_alive {pc : DPc} (h : pc.ownsPath = true) : pc.isAlive = true := by
  cases pc <;> simp_all [DPc.ownsPath, DPc.isAlive]

theorem inv_init : Inv init := by
  refine ⟨?_, ?_, ?_, ?_, ?_, ?_, ?_, ?_⟩ <;> simp [init, DPc.ownsPath, DPc.answers, L, connectedTo]

theorem own_step {s s' : State} {l : Label} (h : Inv s) (g : AtomicRemoval s l) (hs : step s l = some s') :
    ∀ d, (s'.dm d).pc.ownsPath = true → s'.sock = some d := by
  have hown := h.own
  intro d
  cases l with
  | sh k a =>
    cases a <;> (try have g' := g _ rfl) <;> step_cases hs <;>
      grind [DPc.ownsPath, ownsPath_alive, State.setSh, State.setDm]
  | dm k a =>
    cases a <;> step_cases hs <;> grind [DPc.ownsPath, ownsPath_alive, State.setSh, State.setDm]

theorem fresh_step {s s' : State} {l : Label} (h : Inv s) (hs : step s l = some s') :
    ∀ d, (s'.dm d).pc = .unborn → (s'.dm d).killed = false ∧ (s'.dm d).conns = [] ∧ (s'.dm d).hasDB = false := by
  have hf := h.fresh
  intro d
  cases l with
  | sh k a => cases a <;> step_cases hs <;> grind [State.setSh, State.setDm, DPc.listenerOpen]
  | dm k a => cases a <;> step_cases hs <;> grind [State.setSh, State.setDm, DPc.isAlive]

theorem dbIff_step {s s' : State} {l : Label} (h : Inv s) (hs : step s l = some s') :
    ∀ d, (s'.dm d).hasDB = true ↔ s'.db = some d := by
  have h1 := h.dbIff
  have h2 := h.fresh
  intro d
  cases l with
  | sh k a => cases a <;> step_cases hs <;> grind [State.setSh, State.setDm]
  | dm k a => cases a <;> step_cases hs <;> grind [State.setSh, State.setDm]

theorem dbPc_step {s s' : State} {l : Label} (h : Inv s) (hs : step s l = some s') :
    ∀ d, (s'.dm d).hasDB = true →
      (s'.dm d).pc = .opened ∨ (s'.dm d).pc = .serving ∨ (s'.dm d).pc = .exiting ∨ (s'.dm d).pc = .removed := by
  have h1 := h.dbPc
  have h2 := h.fresh
  intro d
  cases l with
  | sh k a => cases a <;> step_cases hs <;> grind [State.setSh, State.setDm]
  | dm k a => cases a <;> step_cases hs <;> grind [State.setSh, State.setDm]

theorem ans_step {s s' : State} {l : Label} (h : Inv s) (hs : step s l = some s') :
    ∀ d, (s'.dm d).pc.answers = true → (s'.dm d).hasDB = true := by
  have h1 := h.ans
  have h2 := h.own
  have h3 := h.dbIff
  have h4 := h.dbPc
  intro d
  cases l with
  | sh k a => cases a <;> step_cases hs <;> grind [State.setSh, State.setDm, DPc.answers]
  | dm k a => cases a <;> step_cases hs <;> grind [State.setSh, State.setDm, DPc.answers, DPc.ownsPath]

theorem i3_step {s s' : State} {l : Label} (h : Inv s) (hs : step s l = some s') :
    ∀ d, (s'.dm d).killed = false → (s'.dm d).pc ≠ .serving → (s'.dm d).conns = [] := by
  have h1 := h.i3
  have h2 := h.fresh
  intro d
  cases l with
  | sh k a => cases a <;> step_cases hs <;> grind [State.setSh, State.setDm]
  | dm k a => cases a <;> step_cases hs <;> grind [State.setSh, State.setDm]

theorem i4_step {s s' : State} {l : Label} (h : Inv s) (hs : step s l = some s') : s'.foreign = false := by
  have h1 := h.i4
  have h2 := h.own
  cases l with
  | sh k a => cases a <;> step_cases hs <;> grind [State.setSh, State.setDm]
  | dm k a => cases a <;> step_cases hs <;> grind [State.setSh, State.setDm, DPc.ownsPath]

theorem l_step {s s' : State} {l : Label} (h : Inv s) (hs : step s l = some s') : L s' := by
  have h1 := h.l
  have h2 := h.ans
  have h3 := h.fresh
  intro j d
  have h1' := h1 j d
  simp only [connectedTo, goodDaemon] at h1' ⊢
  cases l with
  | sh k a =>
    cases a <;> step_cases hs <;>
      grind [DPc.listenerOpen]
  | dm k a =>
    cases a <;> step_cases hs <;>
      grind [DPc.answers, DPc.isAlive]

/-- `Inv` is inductive under `AtomicRemoval`. -/
theorem inv_step {s s' : State} {l : Label} (h : Inv s) (g : AtomicRemoval s l) (hs : step s l = some s') :
    Inv s' :=
  ⟨own_step h g hs, fresh_step h hs, dbIff_step h hs, dbPc_step h hs, ans_step h hs, i3_step h hs,
   i4_step h hs, l_step h hs⟩

theorem inv_of_reachableG {s : State} (h : ReachableG AtomicRemoval s) : Inv s := by
  induction h with
  | init => exact inv_init
  | step _ g hs ih => exact inv_step ih g hs

theorem safe_of_inv {s : State} (h : Inv s) : Safe s := by
  refine ⟨?_, h.own, ?_, ?_, ?_, h.i4, h.l⟩
  · intro d d' hd hd'
    have := h.own d hd
    have := h.own d' hd'
    simp_all
  · intro d d' hd hd'
    have := (h.dbIff d).1 hd
    have := (h.dbIff d').1 hd'
    simp_all
  · exact h.ans
  · intro d hk hl
    apply h.i3 d hk
    intro hpc
    simp [hpc, DPc.leftLoop] at hl

/-- `liveRm` is never reset. -/
theorem liveRm_mono {s s' : State} {l : Label} (hs : step s l = some s') (h : s'.liveRm = false) :
    s.liveRm = false := by
  cases l with
  | sh k a => cases a <;> step_cases hs <;> simp_all [State.setSh, State.setDm]
  | dm k a => cases a <;> step_cases hs <;> simp_all [State.setSh, State.setDm]

theorem atomic_of_liveRm {s s' : State} {l : Label} (hs : step s l = some s') (h : s'.liveRm = false) :
    AtomicRemoval s l := by
  intro k hl d hd
  subst hl
  step_cases hs <;> simp_all [State.setSh]

end C27
