/-
C27 — soundness of the trace acceptor: every candidate state it ever holds is
a `Reachable` state of the model, so an accepted log of real processes is a
model execution.
-/
import ElvModel.C27.Accept
namespace C27

theorem range_map_get {α : Type} (n : Nat) (f : Nat → α) (j : Nat) (x : α)
    (h : ((Array.range n).map f)[j]? = some x) : x = f j := by
  simp [Array.getElem?_map] at h
  obtain ⟨a, ha, hx⟩ := h
  by_cases hj : j < n
  · simp [hj] at ha
    subst ha
    exact hx.symm
  · simp [hj] at ha

theorem State.rebuild_eq (n : Nat) (s : State) : s.rebuild n = s := by
  cases s with
  | mk sock db sh dm foreign liveRm =>
    simp only [State.rebuild]
    congr 1
    · funext j
      split
      · rename_i x hx
        exact range_map_get n sh j x hx
      · rfl
    · funext j
      split
      · rename_i x hx
        exact range_map_get n dm j x hx
      · rfl

@[simp] theorem Cand.make_s (n : Nat) (s : State) (run : List PId) (toks : List Tok) :
    (Cand.make n s run toks).s = s := by
  simp [Cand.make, State.rebuild_eq]

def AllReach (cs : List Cand) : Prop := ∀ c ∈ cs, Reachable c.s

theorem stepBy_reach {n : Nat} {c c' : Cand} {l : Label} (h : Reachable c.s) (hs : c.stepBy n l = some c') :
    Reachable c'.s := by
  simp only [Cand.stepBy] at hs
  split at hs
  · rename_i s' hstep
    simp at hs
    subst hs
    simpa using Reachable.step h hstep
  · simp at hs

theorem fire_reach {n : Nat} {c c' : Cand} {t : Tok} (h : Reachable c.s) (hs : c.fire n t = some c') :
    Reachable c'.s := by
  simp only [Cand.fire] at hs
  split at hs
  · rename_i c1 h1
    simp at hs
    subst hs
    exact stepBy_reach (c' := c1) h h1
  · simp at hs

theorem succs_reach {n : Nat} {c : Cand} (h : Reachable c.s) : AllReach (c.succs n) := by
  intro c' hc'
  simp only [Cand.succs, List.mem_append, List.mem_flatMap, List.mem_filterMap] at hc'
  rcases hc' with ⟨p, _, l, _, hl⟩ | ⟨t, _, ht⟩
  · exact stepBy_reach h hl
  · exact fire_reach h ht

theorem addNew_reach (seen : Std.HashSet CKey) (acc fresh new : List Cand)
    (ha : AllReach acc) (hf : AllReach fresh) (hn : AllReach new) :
    AllReach (addNew seen acc fresh new).2.1 ∧ AllReach (addNew seen acc fresh new).2.2 := by
  induction new generalizing seen acc fresh with
  | nil => exact ⟨ha, hf⟩
  | cons c rest ih =>
    simp only [addNew]
    have hc : Reachable c.s := hn c (by simp)
    have hrest : AllReach rest := fun x hx => hn x (by simp [hx])
    split
    · exact ih seen acc fresh ha hf hrest
    · apply ih _ _ _ _ _ hrest
      · intro x hx
        rcases List.mem_cons.1 hx with rfl | hx
        · exact hc
        · exact ha x hx
      · intro x hx
        rcases List.mem_cons.1 hx with rfl | hx
        · exact hc
        · exact hf x hx

theorem closure_reach (n fuel : Nat) (seen : Std.HashSet CKey) (frontier acc : List Cand)
    (hf : AllReach frontier) (ha : AllReach acc) : AllReach (closure n fuel seen frontier acc) := by
  induction fuel generalizing seen frontier acc with
  | zero => exact ha
  | succ fuel ih =>
    simp only [closure]
    have hnew : AllReach (frontier.flatMap (Cand.succs n)) := by
      intro c hc
      obtain ⟨c0, hc0, hc⟩ := List.mem_flatMap.1 hc
      exact succs_reach (hf c0 hc0) c hc
    have h := addNew_reach seen acc [] _ ha (by intro x hx; simp at hx) hnew
    generalize hr : addNew seen acc [] (frontier.flatMap (Cand.succs n)) = r at h
    obtain ⟨seen', acc', fresh'⟩ := r
    simp only at h ⊢
    cases fresh' with
    | nil => exact h.1
    | cons c cs => exact ih _ _ _ h.2 h.1

theorem closeAll_reach (n : Nat) (cs : List Cand) (h : AllReach cs) : AllReach (closeAll n cs) :=
  closure_reach n _ _ cs cs h h

theorem process_reach (n : Nat) (cs : List Cand) (e : Entry) (h : AllReach cs) : AllReach (process n cs e) := by
  cases e <;> simp only [process]
  case env t =>
    intro c hc
    obtain ⟨c0, hc0, rfl⟩ := List.mem_map.1 hc
    exact h c0 hc0
  case rel p =>
    intro c hc
    obtain ⟨c0, hc0, rfl⟩ := List.mem_map.1 hc
    exact h c0 hc0
  all_goals
    intro c hc
    exact closeAll_reach n cs h c (List.mem_filter.1 hc).1

theorem init_reach (n : Nat) : AllReach [Cand.init n] := by
  intro c hc
  simp at hc
  subst hc
  simpa [Cand.init] using Reachable.init

theorem foldl_process_reach (n : Nat) (es : List Entry) (cs : List Cand) (h : AllReach cs) :
    AllReach (es.foldl (process n) cs) := by
  induction es generalizing cs with
  | nil => exact h
  | cons e es ih => exact ih _ (process_reach n cs e h)

end C27
