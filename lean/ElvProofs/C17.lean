/-
C17 — No program can crash the interpreter.

The property quantifies over every program and the whole builtin surface; no
model of the whole interpreter exists.  Following DESIGN §8 it is discharged
as ONE PANIC-FREEDOM THEOREM PER MODELLED FUNCTION:

* §1–§3  the builtin-surface glue modelled here (`ElvModel/C17/Model.lean`):
  `goFn.Call` (arity / option handling, the argument loop, the precondition of
  `reflect.Value.Call`), `Closure.Call` (slot arithmetic) and
  `strutil.HasSubseq`;
* §4     the panic-freedom facts of the models of the other properties,
  re-exported under `C17_…` names so that this file's audit covers them and
  breaks when they break.

`C17_covered_partial` is their conjunction.  The GAP to the full property is
explicit and regenerated on every run: `harness/c17/inventory` lists every
partial operation (index, slice, integer division, unchecked assertion,
`panic`, channel send/close, deny-listed library call) of the files that define
the registered commands; each site is `covered-by:<theorem of this file>`,
`reviewed:<reason>` or `uncovered` in `harness/c17/inventory_baseline.txt`,
and a site not in the baseline breaks the check.  For uncovered code the check
only EXPLORES (every command × an adversarial value pool, in worker processes).
-/
import Lean
import ElvModel.C17.Model
import ElvModel.C17.Covered
import ElvProofs.C17.GoFn
import ElvProofs.C17.Closure
import ElvProofs.C17.Subseq
import ElvProofs.C17.DocShow
import ElvProofs.C17.ClosureSrc
import ElvProofs.C17.MakeMap
import ElvProofs.C01
import ElvProofs.C03
import ElvProofs.C06
import ElvProofs.C07
import ElvProofs.C11
import ElvProofs.C13
import ElvProofs.C14
import ElvProofs.C18
import ElvProofs.C19
import ElvProofs.C20
import ElvProofs.C28
import ElvProofs.C30
import ElvProofs.C31
import ElvProofs.C34
import ElvProofs.C35
import ElvProofs.C37
import ElvProofs.C38
import ElvProofs.C41
import ElvProofs.C40
import ElvProofs.C42
import ElvProofs.C43
import ElvProofs.C44
open Go C17

/-! ## 1. `goFn.Call` (pkg/eval/go_fn.go) -/

/-- `goFn.Call` reaches `reflect.Value.Call` or returns an exception for EVERY
`goFn` (any combination of the fields `NewGoFn` sets), every argument list,
every number of options: `b.normalArgs[i]` is in range, the `panic("impossible")`
branch is dead, `args[len(args)-1]` exists when it is evaluated. -/
theorem C17_goFn_call_no_panic (b : GoFn) (args : List Arg) (nopts : Nat) (optScanFails : Bool) :
    ∃ r, goFnCall b args nopts optScanFails = .ok r :=
  goFnCall_no_panic b args nopts optScanFails

example : goFnCall ⟨true, false, none, true, [.plain 0], none⟩
    [⟨7, fun _ => true, false⟩, ⟨8, fun _ => true, true⟩] 0 false =
    .ok (.ok [.frame, .scanned (.plain 0) 7, .inputsArg 8]) := rfl

/-- For a function whose signature `NewGoFn` accepts, the vector handed to
`reflect.Value.Call` has exactly the number and the types of values the
signature asks for (variadic: at least the fixed ones, every further one of
the element type) — so `reflect.Value.Call` cannot panic with "too few/many
input arguments" or a type mismatch.  `hwf` is Go's own guarantee that the last
parameter of a variadic function is a slice. -/
theorem C17_goFn_reflect_call_precondition (sig : List PTy) (variadic : Bool) (b : GoFn)
    (hwf : variadic = true → ∃ init e, sig = init ++ [.slice e])
    (hnew : newGoFn sig variadic = .ok b) (args : List Arg) (nopts : Nat) (optScanFails : Bool)
    (ins : List InVal) (hcall : goFnCall b args nopts optScanFails = .ok (.ok ins)) :
    callOK variadic sig ins = true :=
  goFn_reflect_precondition sig variadic b hwf hnew args nopts optScanFails ins hcall

example : ∃ b, newGoFn [.frame, .options, .plain 1, .slice (.plain 0)] true = .ok b ∧
    goFnCall b [⟨0, fun _ => true, false⟩, ⟨1, fun _ => true, false⟩, ⟨2, fun _ => true, false⟩] 1 false =
      .ok (.ok [.frame, .optsStruct, .scanned (.plain 1) 0, .scanned (.plain 0) 1, .scanned (.plain 0) 2]) :=
  ⟨_, rfl, rfl⟩
/-- the precondition is a real constraint: one value too few violates it -/
example : callOK true [.frame, .plain 1, .slice (.plain 0)] [.frame] = false := by decide

/-- The only panic of `NewGoFn` is the documented one (both `RawOptions` and an
options struct), raised when the builtin is REGISTERED, never by a call. -/
theorem C17_newGoFn_panics_only_on_both_options (sig : List PTy) (variadic : Bool) (w : String)
    (hwf : variadic = true → ∃ init e, sig = init ++ [.slice e])
    (h : newGoFn sig variadic = .panic w) :
    w = "Function declares both RawOptions and Options parameters" := by
  unfold newGoFn at h
  simp only at h
  split at h
  · simpa using h.symm
  · split at h
    · simp at h
    · simp at h
    · rename_i w' hsp
      -- scanParams panics only when Elem() is taken of a non-slice: excluded by hwf
      exfalso
      cases variadic with
      | false =>
        have : ∀ l, ∀ w, scanParams false l ≠ .panic w := by
          intro l
          induction l with
          | nil => intro w; simp [scanParams]
          | cons p t ih =>
            intro w
            cases t with
            | nil => simp [scanParams]; split <;> simp
            | cons q r =>
              simp only [scanParams, bind, Res.bind]
              cases hr : scanParams false (q :: r) with
              | ok x => simp
              | exc e => simp
              | panic w2 => exact absurd hr (ih w2)
        exact this _ _ hsp
      | true =>
        obtain ⟨init, e, hs⟩ := hwf rfl
        -- the remaining parameters still end with the slice
        have key : ∀ (l : List PTy) (w : String), (∃ init e, l = init ++ [.slice e]) → scanParams true l ≠ .panic w := by
          intro l
          induction l with
          | nil => intro w _; simp [scanParams]
          | cons p t ih =>
            intro w ⟨init, e, hl⟩
            cases t with
            | nil =>
              cases init with
              | nil =>
                simp only [List.nil_append, List.cons.injEq, and_true] at hl
                subst hl
                simp [scanParams, elemOf, bind, Res.bind]
              | cons a as => simp at hl
            | cons q r =>
              simp only [scanParams, bind, Res.bind]
              cases hr : scanParams true (q :: r) with
              | ok x => simp
              | exc e => simp
              | panic w2 =>
                refine absurd hr (ih w2 ?_)
                cases init with
                | nil => simp at hl
                | cons a as =>
                  simp only [List.cons_append, List.cons.injEq] at hl
                  exact ⟨as, e, hl.2⟩
        have hstrip : ∀ (p : PTy) (l : List PTy), (∀ e, p ≠ .slice e) → (∃ init e, l = init ++ [.slice e]) →
            ∃ init e, (stripHead p l).2 = init ++ [.slice e] := by
          intro p l hp ⟨init, e, hl⟩
          cases l with
          | nil => simp at hl
          | cons q r =>
            unfold stripHead
            by_cases hq : q = p
            · simp only [hq, if_true]
              cases init with
              | nil =>
                simp only [List.nil_append, List.cons.injEq] at hl
                exact absurd (hq ▸ hl.1) (hp e)
              | cons a as =>
                simp only [List.cons_append, List.cons.injEq] at hl
                exact ⟨as, e, hl.2⟩
            · simp only [hq, if_false]
              exact ⟨init, e, hl⟩
        have h1 := hstrip .frame sig (by simp) ⟨init, e, hs⟩
        have h2 := hstrip .rawOptions _ (by simp) h1
        have h3 := hstrip .options _ (by simp) h2
        exact key _ _ h3 hsp

example : newGoFn [.rawOptions, .options] false = .panic "Function declares both RawOptions and Options parameters" := rfl

/-! ## 2. `Closure.Call` (pkg/eval/closure.go) -/

/-- The prologue of `Closure.Call` (arity check, option check, population of
`local.slots` / `local.infos`) never panics for a closure the compiler can
produce — `-1 ≤ RestArg < len(ArgNames)`, one default per option — whatever the
arguments and options; a successful prologue fills a namespace of exactly
`len(ArgNames)+len(OptNames)+len(newLocal)` slots. -/
theorem C17_closure_call_no_panic (c : Closure) (args : List Nat) (opts : List (Nat × Nat))
    (hrest : -1 ≤ c.restArg ∧ c.restArg < c.nArgs)
    (hdef : c.optDefaults.length = c.optNames.length) :
    ∃ r, closureCall c args opts = .ok r ∧
      ∀ slots, r = .ok slots → slots.length = c.nArgs + c.optNames.length + c.nNew :=
  closureCall_no_panic c args opts hrest hdef

example : closureCall ⟨4, 2, [1, 2], [10, 20], 2⟩ [1, 2, 3, 4, 5, 6] [(2, 99)] =
    .ok (.ok [.val 1, .val 2, .list [3, 4, 5], .val 6, .val 10, .val 99, .fresh 0, .fresh 1]) := rfl
/-- the hypotheses matter: a rest index outside the parameter list panics -/
example : closureCall ⟨1, 1, [], [], 0⟩ [1] [] = .panic "slice bounds out of range" := rfl
example : closureCall ⟨0, -1, [5], [], 0⟩ [] [] = .panic "index out of range" := rfl

/-- Arity errors are exactly the documented ones. -/
theorem C17_closure_arity (c : Closure) (args : List Nat) (opts : List (Nat × Nat)) (l h a : Int) :
    closureCall c args opts = .ok (.error (.arity l h a)) →
      a = args.length ∧
        ((c.restArg ≠ -1 ∧ l = c.nArgs - 1 ∧ h = -1 ∧ a < l) ∨ (c.restArg = -1 ∧ l = c.nArgs ∧ h = l ∧ a ≠ l)) := by
  intro hc
  unfold closureCall at hc
  split at hc
  · rename_i e he
    simp only [Res.ok.injEq, Except.error.injEq] at hc
    subst hc
    unfold closArityErr at he
    simp only at he
    split at he
    · rename_i hr
      split at he
      · simp only [Option.some.injEq, ClosErr.arity.injEq] at he
        obtain ⟨rfl, rfl, rfl⟩ := he
        exact ⟨rfl, Or.inl ⟨hr, rfl, rfl, by assumption⟩⟩
      · simp at he
    · rename_i hr
      split at he
      · simp only [Option.some.injEq, ClosErr.arity.injEq] at he
        obtain ⟨rfl, rfl, rfl⟩ := he
        exact ⟨rfl, Or.inr ⟨by simpa using hr, rfl, rfl, by assumption⟩⟩
      · simp at he
  · simp only at hc
    split at hc
    · simp at hc
    · simp only [bind, Res.bind] at hc
      repeat (split at hc <;> try simp at hc)

/-! ## 3. `strutil.HasSubseq` (`edit:match-subseq`) -/

/-- The repaired `HasSubseq` never slices out of range, for arbitrary byte
strings (invalid UTF-8 included). -/
theorem C17_hasSubseq_no_panic (s t : Bytes) : ∃ b, hasSubseq true s t = .ok b :=
  hasSubseqLoop_fixed_ok (toRunes t) s

example : hasSubseq true [0xFF] [0xEF, 0xBF, 0xBD] = .ok true := by decide
example : hasSubseq true [97, 0xC3, 0xA9, 98] [0xC3, 0xA9, 98] = .ok true := by decide

/-- The code as found panics: the pattern rune U+FFFD is found at an invalid
byte of `s` (1 byte), and the code advances by `len(string(p))` = 3.
Witness in `harness/corpus/C17.txt`. -/
theorem C17_counterexample : hasSubseq false [0xFF] [0xEF, 0xBF, 0xBD] = .panic "slice bounds out of range" := by
  decide

/-! ## 3a. `doc:find` highlighting (pkg/mods/doc/match.go) — round 2 -/

/-- `sortAndMergeMatches`, for ANY outcome of `sort.Slice` that meets its
contract (a permutation ordered by `From`, stable or not): on a non-empty slice
of matches lying inside a text of `n` bytes the loop never indexes out of
range (`rs[j]`, `rs[j-1]`, `rs[i]`, `rs[i] = …`, `rs[:i+1]`), and what it
returns is ORDERED AND NON-OVERLAPPING — every range ends strictly before the
next one starts — non-empty and inside the text. -/
theorem C17_docfind_merge_no_panic (sort : List Ranging → List Ranging) (hsort : SortContract sort) (n : Int)
    (rs : List Ranging) (hne : rs ≠ []) (hvalid : ∀ r ∈ rs, r.Valid n) :
    ∃ out, sortAndMergeMatches sort rs = .ok out ∧ Sep n 0 out ∧ out ≠ [] ∧ out.length ≤ rs.length :=
  sortAndMergeMatches_ok sort hsort n rs hne hvalid

/-- non-vacuity: the sort of the driver meets the contract; three nested /
chained matches (`doc:find 'whose documentation contains all strings' contains strings`
has this shape) are merged into separated ranges -/
example : SortContract stableSortByFrom := stableSortByFrom_contract
example : mergeSorted [⟨0, 10⟩, ⟨2, 4⟩, ⟨6, 8⟩] = .ok [⟨0, 4⟩, ⟨6, 8⟩] := by decide
example : C17.Sep 12 0 [⟨0, 4⟩, ⟨6, 8⟩] := by simp [C17.Sep]
/-- an empty slice does panic (`rs[:1]`): `match` only calls it for `len(bMatches[i]) > 0` -/
example : mergeSorted [] = .panic "slice bounds out of range" := by decide

/-- `matchedBlock.Show` (both branches, with `firstSentenceStart`,
`lastSentenceStart`, `firstLineEnd`, `lastLineStart`): on ordered,
non-overlapping matches inside the text every one of the fourteen slice
expressions is in range, whatever `ui.T(…).String()` renders. -/
theorem C17_docfind_show_no_panic (styled : Bytes → Bytes) (b : MatchedBlock)
    (h : Sep b.block.text.length 0 b.isMatches) : ∃ out, showBlock styled b = .ok out :=
  showBlock_ok styled b h

/-- "ab. cd ef" with `cd` matched: `… ` + sentence start + styled match + rest -/
example : showBlock styledBoldRed ⟨⟨[97, 98, 46, 32, 99, 100, 32, 101, 102], false⟩, [⟨4, 6⟩]⟩ =
    .ok ([0xE2, 0x80, 0xA6, 32] ++ [27, 91, 59, 49, 59, 51, 49, 109, 99, 100, 27, 91, 109] ++ [32, 101, 102]) := by decide
/-- the separation matters: the ranges `[0,10) [6,8)` that the seeded change
`rs[i].To = max(rs[i].To, rs[j].To)` returns for the matches above make `Show`
evaluate `Text[10:6]` -/
example : showBlock styledBoldRed ⟨⟨[97, 98, 99, 100, 101, 102, 103, 104, 105, 106, 107, 108], false⟩, [⟨0, 10⟩, ⟨6, 8⟩]⟩ =
    .panic "slice bounds out of range" := by decide

/-- The whole `findIn` of `doc:find` from the rendered blocks on — `match`
(`bMatches[i]` ×4), `sortAndMergeMatches`, `Show` of every matched block — never
panics, for any blocks (arbitrary bytes), any queries (empty, overlapping,
nested, repeated) and any `sort.Slice` meeting its contract. -/
theorem C17_docfind_no_panic (sort : List Ranging → List Ranging) (hsort : SortContract sort)
    (styled : Bytes → Bytes) (bs : List Block) (qs : List Bytes) :
    ∃ r, docFindIn sort styled bs qs = .ok r :=
  docFindIn_ok sort hsort styled bs qs

/-- three queries, one containing another, a third starting inside the container after the contained one ended -/
example : docFindIn stableSortByFrom id [⟨[97, 98, 99, 100, 101, 102, 103, 104, 105, 106, 107, 108], false⟩]
    [[97, 98, 99, 100, 101, 102, 103, 104, 105, 106], [99, 100], [103, 104]] =
    .ok (some [[97, 98, 99, 100] ++ [101, 102] ++ [103, 104] ++ [105, 106, 107, 108]]) := by decide

/-! ## 3d. `make-map`'s pair handling (pkg/eval/builtin_fn_container.go `makeMap`) — after seeded change C17-makemap-unchecked-pair-length -/

/-- One input of `make-map`, for EVERY value and EVERY behaviour of `vals.CanIterate` / `vals.Len` /
`vals.Collect` (in particular when `Len` and `Collect` disagree, as they do for strings: bytes vs. runes):
the callback never panics, and it reaches `elems[0]`, `elems[1]` only when `vals.Collect` returned EXACTLY
two entries — otherwise it records an exception (or keeps the pending one) and leaves the map alone. -/
theorem C17_makeMap_pair_checked {V : Type} (ops : IterOps V) (st : MMState V) (v : V) :
    (∃ e, makeMapStep ops true st v = .ok (st.1, some e)) ∨
    (∃ k x, ops.collect v = .ok [k, x] ∧ st.2 = none ∧
      makeMapStep ops true st v = .ok (st.1 ++ [(k, x)], none)) := by
  have h := makeMapStep_spec ops st v
  generalize makeMapStep ops true st v = r at h
  cases h with
  | pending e h => exact .inl ⟨e, by rw [← h]⟩
  | error e _ => exact .inl ⟨e, rfl⟩
  | pair k x h hc => exact .inr ⟨k, x, hc, h, rfl⟩

/-- `makeMap` as a whole never panics: it raises an exception, or every input collected to exactly two
entries and the map is built from exactly these pairs, in input order.  No hypothesis. -/
theorem C17_makeMap_no_panic {V : Type} (ops : IterOps V) (inputs : List V) :
    (∃ e, makeMap ops true inputs = .exc e) ∨
    (∃ ps, makeMap ops true inputs = .ok ps ∧ inputs.map ops.collect = ps.map (fun p => .ok [p.1, p.2])) := by
  unfold makeMap
  rcases makeMapLoop_spec ops inputs [] with ⟨acc', e, h⟩ | ⟨ps, h, hf⟩
  · exact .inl ⟨e, by rw [h]; rfl⟩
  · exact .inr ⟨ps, by rw [h]; simp [Res.bind], hf⟩

/-- non-vacuity: a map of two pairs, the second a 2-rune string of 3 bytes … is refused (Len = 3); a string of
two ASCII characters is a pair. -/
example : (makeMap MV.ops true [.list [.str [0x6b], .str [0x76]], .str [0x61, 0x62]]).isPanic = false ∧
    (match makeMap MV.ops true [.list [.str [0x6b], .str [0x76]], .str [0x61, 0x62]] with
      | .ok ps => ps.length == 2 | _ => false) = true := by
  constructor <;> rfl

/-- The last check is NOT dead code: `é` (2 bytes, 1 rune) passes `vals.Len(v) == 2` and collects to one
element.  With the check `make-map [é]` raises "internal bug: collected 1 values"; without it (the seeded
change, `guard = false`) `elems[1]` panics. -/
theorem C17_makeMap_unguarded_counterexample :
    makeMap MV.ops true [.str [0xc3, 0xa9]] = .exc "internal bug: collected 1 values" ∧
    makeMap MV.ops false [.str [0xc3, 0xa9]] = .panic "index out of range" := by
  constructor <;> rfl

/-! ## 3b. `closure[def]` / `closure[body]` (pkg/eval/closure.go) — round 2 -/

/-- For every source (arbitrary bytes): the parser returns a tree, and for every
lambda of it `Src.Code[DefRange.From:DefRange.To]` and
`Src.Code[op.Range().From:op.Range().To]` (the `Chunk` child) are in range;
`closure[def]` is the lambda's own text.  Rests on C01 (node ranges lie inside
the source) and on reading `lambdaOp.exec`, the only place a `Closure` is made
(tied by the `closrc` ops). -/
theorem C17_closure_src_fields_no_panic (isPrint : Int → Bool) (src : Bytes) :
    ∃ t errs, C01.parse isPrint src = .ok t errs ∧
      (∀ m, C01_Desc t m → closureSrcSlice src m = .ok m.text) ∧
      ∀ lam ∈ lambdasOf t, ∃ r, closureDefBody src lam = .ok r ∧ r.1 = lam.text := by
  obtain ⟨t, errs, hp, hall, _⟩ := C01_total_lossless isPrint src
  exact ⟨t, errs, hp, fun m hm => closureSrcSlice_ok src m (hall m hm),
    fun lam hl => closureDefBody_ok src t lam hall hl⟩

/-! ## 3c. the replaced range of completion (pkg/edit/completion.go `completionStart`) — round 2 -/

/-- `s.Buffer.Content[result.Replace.From:result.Replace.To]`: whenever
`complete.Complete` answers, the slice is in range (C43: the replaced range lies
within the buffer).  The buffer sliced is the buffer completed: both are read on
the editor's event-loop goroutine (C32) with nothing in between. -/
theorem C17_completion_replace_no_panic (env : C43.Env) (src : Bytes) (dot : Int) (r : C43.Result)
    (h : C43.complete env src dot = .result r) : ∃ rep, slice src r.frm r.to = .ok rep := by
  obtain ⟨h1, h2⟩ := C43_range env src dot r h
  unfold slice
  have : (0 : Int) ≤ (r.frm : Int) ∧ (r.frm : Int) ≤ (r.to : Int) ∧ (r.to : Int) ≤ (src.length : Int) :=
    ⟨by omega, by omega, by omega⟩
  rw [if_pos this]
  exact ⟨_, rfl⟩

/-! ## 4. Panic-freedom of the models of the other properties -/

/-- parser (C01): `parse.Parse…` on any bytes, any fuel. -/
theorem C17_parse_no_panic (isPrint : Int → Bool) (fuel : Nat) (nt : C01.NT) (src : Bytes)
    (hnt : ∀ l, nt ≠ .redir (some l)) (w : String) : C01.parseAsFuel isPrint fuel nt src ≠ .panic w :=
  C01_no_panic isPrint fuel nt src hnt w

/-- persistent hash map (C07): lookups on a well-formed map. -/
theorem C17_hashmap_index_no_panic {K V : Type} {eq : K → K → Bool} {hashf : K → UInt32} {m : C07.HashMap K V}
    (hm : C07.WFMap eq hashf m) (k : Option K) : ∃ r, m.index eq hashf k = .ok r :=
  C07_index_total hm k

/-- persistent vector (C06): Index / SubVector / Assoc / Pop on a well-formed vector, any indices. -/
theorem C17_vector_ops_no_panic {α : Type} {w : C06.Vec α} (H : C06.WF w) :
    (∀ i, ∃ r, w.Index i = .ok r) ∧ (∀ i j, ∃ r, w.SubVector i j = .ok r) ∧
    (∀ i x, ∃ r, w.Assoc i x = .ok r) ∧ (∃ r, w.Pop = .ok r) := by
  refine ⟨fun i => ⟨_, C06_index H i⟩, fun i j => ?_, fun i x => ?_, ?_⟩
  · by_cases h : 0 ≤ i ∧ i ≤ j ∧ j ≤ (w.toList.length : Int)
    · obtain ⟨w', h1, _⟩ := (C06_subvector H i j).1 h
      exact ⟨_, h1⟩
    · exact ⟨_, (C06_subvector H i j).2 h⟩
  · obtain ⟨h1, h2, h3⟩ := C06_assoc H i x
    by_cases ha : i < 0 ∨ i > (w.toList.length : Int)
    · exact ⟨_, h1 ha⟩
    · by_cases hb : i = (w.toList.length : Int)
      · obtain ⟨w', hw, _⟩ := h2 hb
        exact ⟨_, hw⟩
      · obtain ⟨w', hw, _⟩ := h3 (by omega) (by omega)
        exact ⟨_, hw⟩
  · obtain ⟨h1, h2⟩ := C06_pop H
    by_cases he : w.toList = []
    · exact ⟨_, h1 he⟩
    · obtain ⟨w', hw, _⟩ := h2 he
      exact ⟨_, hw⟩

/-- numeric builtins and `math:` (C11): `+ - * / % abs ceil floor round round-to-even trunc max min pow range`
on exact arguments (the inexact paths are float operations, which cannot panic). -/
theorem C17_arith_no_panic {F : Type} (ops : C11.F64Ops F) (cmd : String) (args : List (C11.Num F)) (st : Option (C11.Num F))
    (hcmd : cmd ∈ ["+", "-", "*", "%", "abs", "ceil", "floor", "round", "round-to-even", "trunc",
      "max", "min", "pow"] ∨ (cmd = "/" ∧ args ≠ []) ∨ (cmd = "range"))
    (hc : ∀ a ∈ args, C11.ExactC a) (hst : ∀ z, st = some z → C11.ExactC z) :
    (C11.run ops cmd args st).isPanic = false :=
  C11_no_panic ops cmd args st hcmd hc hst

/-- list indexing (C13): index conversion of any raw index. -/
theorem C17_index_no_panic (raw : C13.Raw) (n : Int) (w : String) : C13.convertListIndex raw n ≠ .panic w :=
  C13_convert_no_panic raw n w

/-- string indexing / assoc (C13), arbitrary bytes. -/
theorem C17_string_index_no_panic (s : Bytes) (raw : C13.Raw) (v : Option Bytes) (w : String) :
    C13.indexString s raw ≠ .panic w ∧ C13.assocString s raw v ≠ .panic w :=
  C13_string_no_panic s raw v w

/-- pipelines (C18): no reachable state of the pipeline protocol has a crashed goroutine. -/
theorem C17_pipeline_no_panic {cfg : C18.Cfg} {s : C18.State} (h : C18.Reachable cfg s) : s.crashed = false :=
  C18_no_go_panic h

/-- `peach` (C20): the semaphore is never released more than held. -/
theorem C17_peach_no_panic (c : C20.Cfg) (tr : List C20.Label) (s : C20.State) (h : C20.Run c tr s)
    (hg : c.checkAcq = true ∨ C20.Label.cancel ∉ tr) : s.panicked = false :=
  C20_never_panics c tr s h hg

/-- terminal input decoding (C31). -/
theorem C17_term_reader_no_panic (T : C31.Tables) (s : C31.Src) (w : String) :
    ((C31.readEvent T).run s).1 ≠ .panic w :=
  C31_no_panic T s w

/-- `diag.NewContext` (C37) on ranges inside the source. -/
theorem C17_diag_context_no_panic (src : Bytes) (f t : Int) (h0 : 0 ≤ f) (h1 : f ≤ t) (h2 : t ≤ src.length) :
    ∃ d, C37.getContextDetails src f t = .ok d :=
  C37_no_panic src f t h0 h1 h2

/-- `getopt.Parse` / `Complete` (C38, `flag:parse-getopt`, `edit:complete-getopt`). -/
theorem C17_getopt_no_panic : C38_full_no_panic := C38_no_panic

theorem C17_getopt_complete_no_panic (specs : List C38.OptionSpec) (cfg : Nat)
    (args : List Bytes) (r : List C38.Opt × List Bytes × C38.Context)
    (h : C38.Complete true args specs cfg = .ok r) :
    ∃ out, C38.completeGetoptOut specs r = .ok out :=
  C38_complete_getopt_dispatch_no_panic specs cfg args r h

/-- `str:repeat` (C41): the overflow guard and the size cap (results above
`C41.maxRepeatLen` bytes are a BadValue error, so Go's allocator is never asked
for more than any platform can give: `maxAlloc` is the platform's limit). -/
theorem C17_str_repeat_no_panic (maxAlloc : Int) (hA : C41.maxRepeatLen ≤ maxAlloc) (s : Bytes) (n : Int) :
    (C41.strRepeatA maxAlloc s n).isPanic = false :=
  C41_repeat_no_panic maxAlloc hA s n

/-- `str:replace` (C41). -/
theorem C17_str_replace_no_panic (max : Int) (old repl s : Bytes) : ∃ r, C41.strReplace max old repl s = .ok r :=
  C41_replace_no_panic max old repl s

/-- redirections (C42): the whole redirection loop of a form that owns no value channel. -/
theorem C17_redir_no_panic (st : C42.St) (rs : List C42.Redir)
    (h : ∀ (i : Nat) (f : C42.Fop), st.fops[i]? = some f → f.chan = false) :
    ∃ s, C42.execRedirs C42.Cfg.fixed st rs = .ok s :=
  C42_no_panic_without_owned_channel st rs h

/-- redirections (C42): every fd value gives an exception or an index for which both tables grow. -/
theorem C17_redir_fd_in_range (st : C42.St) (r : C42.Redir) :
    (∃ e, C42.evalDst C42.Cfg.fixed r = .exc e) ∨
    ∃ dst x, C42.evalDst C42.Cfg.fixed r = .ok dst ∧ 0 ≤ dst ∧ dst ≤ C42.maxRedirFD ∧
      C42.prepDst C42.Cfg.fixed st dst = .ok x :=
  C42_every_dst_fd_port_or_exception st r

/-- `wcwidth.Trim` (C34): the slice it takes is in bounds. -/
theorem C17_wcwidth_trim_no_panic (wd : Int → Int) (s : Bytes) (wmax : Int) (i : Nat)
    (h : C34.trimIdx wd (runes s) 0 wmax = some i) (hw : 0 ≤ wmax) : slice s 0 i = .ok (s.take i) :=
  C34_trim_slice_in_bounds wd s wmax i h hw

/-- LSP server (C44): every well-formed request is answered (no nil dereference, no index out of
range).  `ParserHeads` (every Indexing node of a parsed tree has a Primary head) is C44's remaining
stated hypothesis about the parser; requests other than hover need none
(`C44_answers_every_request_but_hover`). -/
theorem C17_lsp_answers_every_request (lib : C44.Lib) (empty : C44.Text) (s : C44.Server) (hasId : Bool) (r : C44.Req)
    (he : empty.wf) (hs : s.wf lib) (hr : r.wf) (hh : C44.ParserHeads lib.isPrint) :
    ∃ o, C44.serve .fixed lib empty s hasId r = .ok o ∧ o.srv.wf lib ∧ (o.reply = .none ↔ hasId = false) :=
  C44_answers_every_request lib empty s hasId r he hs hr hh

/-! ### imported in round 2 -/

/-- `parse.Quote` / `QuoteAs` / `QuoteCommandName` / `QuoteVariableName` (C03; `repr`, `to-string` of
containers, error messages of every builtin): total on arbitrary bytes. -/
theorem C17_quote_no_panic (isPrint : Int → Bool) (s : Bytes) (q : Int) :
    (∃ text ty, C03.QuoteAs isPrint s q = .ok (text, ty)) ∧ (∃ text, C03.Quote isPrint s = .ok text) ∧
    (∃ text, C03.QuoteCommandName isPrint s = .ok text) ∧ (∃ text, C03.QuoteVariableName isPrint s = .ok text) :=
  C03_quote_total isPrint s q

/-- element assignment and `del` (C14): no Go-panic branch (index arithmetic, nil containers, `ends[level]`). -/
theorem C17_assign_no_panic (σ : C14.Store) (temp : Bool) (lv : C14.LV) (r : C14.Rhs) (w : String)
    (hdecl : (σ.get lv.head).isSome) (hrhs : ∀ x p, r = .ref x p → (σ.get x).isSome) :
    (C14.exec σ (.assign temp [lv] [r])).err ≠ some (.panic w) ∧
    (lv.idx ≠ [] → (C14.exec σ (.del lv)).err ≠ some (.panic w)) :=
  C14_set_del_no_panic σ temp lv r w hdecl hrhs

/-- `peach` while the evaluation is interrupted (C19): never "semaphore: released more than held". -/
theorem C17_peach_interrupt_no_panic (tr : List C19.Label) (s : C19.State) (h : C19.Run tr s) :
    ∀ i ∈ s.insts, ∀ K, i.cfg.k = some K → i.st.running ≤ K ∧ i.st.panicked = false :=
  C19_bound_while_interrupted tr s h

/-- editor buffer commands (C28): no sequence of keys, paste markers and builtin commands panics
(the slice expressions of the movers, kill commands and abbreviation expansion). -/
theorem C17_editor_events_no_panic (E : C28.Env) (S : C28.Spec) (hS : C28.SpecOK S) (b : C28.CodeBuffer)
    (hb : C28.Boundary b.content b.dot) (evs : List C28.Event) :
    ∃ s', C28.runEvents E S (C28.initState b) evs = .ok s' ∧ C28.Boundary s'.buffer.content s'.buffer.dot :=
  C28_sequence_safe E S hS b hb evs

/-- syntax highlighting (C30): `highlight` on regions inside the code, any sort order `sort.Slice` may produce. -/
theorem C17_highlight_no_panic (code : Bytes) (hasCmd : Bool) (regions sorted : List C30.Region)
    (hin : ∀ r ∈ regions, C30.InBounds code.length r) (hs : C30.SortedPerm regions sorted) :
    ∃ t cmds, C30.highlight code hasCmd sorted = .ok (t, cmds) := by
  obtain ⟨t, cmds, h, _⟩ := C30_highlight_total_lossless code hasCmd regions sorted hin hs
  exact ⟨t, cmds, h⟩

/-- the late restyling goroutine of the highlighter (C30): `newText[cmdRegion.seg]` is in range. -/
theorem C17_highlight_late_no_panic (code : Bytes) (hasCmd : Bool) (sorted : List C30.Region) (t : C30.Text)
    (cmds : List C30.CmdRegion) (answers : List Bool) (h : C30.highlight code hasCmd sorted = .ok (t, cmds)) :
    ∃ t', C30.restyle t cmds answers = .ok t' := by
  obtain ⟨t', h', _⟩ := C30_late_restyle_no_panic code hasCmd sorted t cmds answers h
  exact ⟨t', h'⟩

/-- Markdown emphasis processing (C35, `md:show`, `doc:show`, `doc:find`): `Text[1:]` / `Text[2:]` stay in range. -/
theorem C17_md_emph_no_panic (G : C35.GoU) (text : Bytes) : C35.renderEmph G text ≠ .panic :=
  fun h => (C35_emph_total G text).2 h

/-- stage epilogue of a pipeline form (C40, `formOwnedPort.close` over `newFm.ports[i]`): no nil port is
dereferenced, whether the form ended normally, a redirection failed half-way or the body raised. -/
theorem C17_form_cleanup_no_nil_deref (f : C40.Form) (hf : f.noBg = true) (w : C40.World) (ports : C40.Ports)
    (fops : C40.Fops) (B : Nat → Prop) (h : C40.FormInv w ports fops B) :
    (C40.runStage C40.Cfg.fixed w ports fops f).1.panics = w.panics :=
  (C40_form_closes_exactly_what_it_owns f hf w ports fops B h).2.2.2

/-! ## 5. The covered set -/

/-- The part of C17 that is PROVED: the surface glue modelled here.  (The
re-exported facts of §4 are theorems of this file as well; they are not
repeated in the conjunction because their statements live in the vocabularies
of their own models.)

GAP to the property as stated (every program, every command): the functions
whose partial operations are `uncovered` in the regenerated inventory, and the
parts of the interpreter outside the inventory's files.  Known to be false on
the unchanged tree outside the covered set: see notes/C17.md (fix patches and
finding lines). -/
def C17_covered : Prop :=
  (∀ (b : GoFn) (args : List Arg) (nopts : Nat) (bad : Bool), ∃ r, goFnCall b args nopts bad = .ok r) ∧
  (∀ (sig : List PTy) (variadic : Bool) (b : GoFn), (variadic = true → ∃ init e, sig = init ++ [.slice e]) →
    newGoFn sig variadic = .ok b → ∀ args nopts bad ins, goFnCall b args nopts bad = .ok (.ok ins) →
      callOK variadic sig ins = true) ∧
  (∀ (c : Closure) (args : List Nat) (opts : List (Nat × Nat)),
    (-1 ≤ c.restArg ∧ c.restArg < c.nArgs) → c.optDefaults.length = c.optNames.length →
      ∃ r, closureCall c args opts = .ok r) ∧
  (∀ s t : Bytes, ∃ b, hasSubseq true s t = .ok b) ∧
  (∀ (sort : List Ranging → List Ranging), SortContract sort → ∀ (styled : Bytes → Bytes) (bs : List Block)
    (qs : List Bytes), ∃ r, docFindIn sort styled bs qs = .ok r) ∧
  (∀ (isPrint : Int → Bool) (src : Bytes), ∃ t errs, C01.parse isPrint src = .ok t errs ∧
    ∀ lam ∈ lambdasOf t, ∃ r, closureDefBody src lam = .ok r) ∧
  (∀ (V : Type) (ops : IterOps V) (inputs : List V), (makeMap ops true inputs).isPanic = false)

theorem C17_covered_partial : C17_covered :=
  ⟨C17_goFn_call_no_panic, C17_goFn_reflect_call_precondition,
   fun c args opts h1 h2 => (C17_closure_call_no_panic c args opts h1 h2).imp fun _ h => h.1,
   C17_hasSubseq_no_panic, C17_docfind_no_panic,
   fun isPrint src => by
     obtain ⟨t, errs, hp, _, hl⟩ := C17_closure_src_fields_no_panic isPrint src
     exact ⟨t, errs, hp, fun lam h => (hl lam h).imp fun _ h => h.1⟩,
   fun V ops inputs => by
     rcases C17_makeMap_no_panic ops inputs with ⟨e, h⟩ | ⟨ps, h, _⟩ <;> rw [h] <;> rfl⟩

/-! ## 6. Every theorem the inventory may name exists -/

open Lean Elab Command in
run_cmd do
  let env ← getEnv
  for n in C17.coveredTheorems do
    unless env.contains (Name.mkSimple n) do
      throwError "C17.coveredTheorems names {n}, which is not a theorem of ElvProofs/C17.lean"
