/-
C18 — Pipelines deliver data exactly once, in order, and never hang writers.

Theorems over `C18.Reachable`, i.e. over EVERY interleaving of the stage
goroutines and EVERY behaviour of the stage programs (a running stage may
begin any operation at any time; `C18_holds_for_every_stage_program` makes the
quantification over programs explicit).  Model: ElvModel/C18/Model.lean
(transition system of `pipelineOp.exec`, `valueOutput.Put`, `byteOutput.Write`,
`MakePipelineError`; channel capacity regenerated from the Go source).  The
tie to the real code is trace refinement (harness/c18): every event log
recorded from the instrumented interpreter must be a path of `C18.step`.

What is NOT claimed: freedom from deadlock for arbitrary stage programs.  Two
stage programs can wait for each other (`C18_stage_programs_can_deadlock`);
C18 only says that a stage which EXITS never is the reason others hang, and
that is what `C18_no_deadlock_by_exiting` states.
-/
import ElvProofs.C18.Progress
import ElvModel.C18.Prog

open C18

/-! ## The statement of C18, clause by clause, as one proposition -/

/-- C18 for one configuration (number of stages, channel capacity, pipe capacity). -/
def C18_full (cfg : Cfg) : Prop :=
  ∀ s, Reachable cfg s →
    -- no Go panic (close of closed channel, send on closed channel, negative WaitGroup)
    s.crashed = false ∧
    -- each link: what was received is a prefix of what was sent, the rest is in flight
    (∀ k, (s.link k).sent = (s.link k).recvd ++ (s.link k).q ∧ (s.link k).bsent = (s.link k).brecvd ++ (s.link k).pipe) ∧
    -- a reader that saw the closed channel / EOF has received everything
    (∀ k, ((s.link k).sawClosed = true → (s.link k).recvd = (s.link k).sent) ∧
          ((s.link k).sawEof = true → (s.link k).brecvd = (s.link k).bsent)) ∧
    -- after the reader signalled, a pending Put / Write of the upstream stage completes with reader-gone
    (∀ k v, k + 1 < cfg.n → 4 ≤ (s.stage (k + 1)).pc → (s.stage k).out = .putting v → (s.stage k).outRedir = 0 →
      ∃ s', step cfg s (.selStop k) = some s' ∧ (s'.stage k).out = .putDone (.stopped (some .readerGone))) ∧
    (∀ k todo m, k + 1 < cfg.n → 6 ≤ (s.stage (k + 1)).pc → (s.stage k).out = .writing todo m → (s.stage k).outRedir = 0 →
      ∃ s', step cfg s (.wrEpipe k) = some s' ∧ (s'.stage k).out = .writeDone m (some .readerGone)) ∧
    -- which is never reported for a stage whose output is a pipe
    (∀ i, i + 1 < cfg.n → (s.stage i).exc ≠ some .readerGone) ∧
    -- exec returns only after every stage is done, with MakePipelineError of what remains
    (∀ r, s.result = some r → (∀ i, i < cfg.n → (s.stage i).pc = 9) ∧ r = mpeSpec (s.excs cfg)) ∧
    -- if the protocol is stuck, only stages still running their programs are involved
    (s.result = none → ProtocolStuck cfg s → StuckShape cfg s)

/-! ## Safety -/

/-- The protocol never panics: no close of a closed channel, no send on a
closed channel, no negative WaitGroup counter, no index panic in
`MakePipelineError` — for every pipeline and every schedule. -/
theorem C18_no_go_panic {cfg : Cfg} {s : State} (h : Reachable cfg s) : s.crashed = false :=
  (reachable_all h).inv.2.2

/-- (1) Exactly once, in order, within each of the two channels: everything
ever sent on a link is what was received so far followed by what is still
buffered — nothing is lost, duplicated or reordered. -/
theorem C18_exactly_once_in_order {cfg : Cfg} {s : State} (h : Reachable cfg s) (k : Nat) :
    (s.link k).sent = (s.link k).recvd ++ (s.link k).q ∧
    (s.link k).bsent = (s.link k).brecvd ++ (s.link k).pipe :=
  ⟨((reachable_all h).inv.1 k).queue, ((reachable_all h).inv.1 k).bqueue⟩

/-- … hence the received sequence is a prefix of the sent sequence. -/
theorem C18_received_prefix_of_sent {cfg : Cfg} {s : State} (h : Reachable cfg s) (k : Nat) :
    (s.link k).recvd <+: (s.link k).sent ∧ (s.link k).brecvd <+: (s.link k).bsent := by
  obtain ⟨h1, h2⟩ := C18_exactly_once_in_order h k
  exact ⟨⟨_, h1.symm⟩, ⟨_, h2.symm⟩⟩

/-- The value channel never holds more than `pipelineChanBufferSize` values. -/
theorem C18_channel_bounded {cfg : Cfg} {s : State} (h : Reachable cfg s) (k : Nat) :
    (s.link k).q.length ≤ cfg.cap ∧ (s.link k).pipe.length ≤ cfg.pcap :=
  ⟨((reachable_all h).inv.1 k).cap, ((reachable_all h).inv.1 k).bcap⟩

/-- (2) A stage that reads to the end sees everything: once the reader has
observed the closed channel (resp. EOF), it has received every value (byte)
its predecessor ever sent — in this and in every later state, because the
statement is an invariant and `sawClosed` / `sawEof` are never reset. -/
theorem C18_reader_to_end_sees_all {cfg : Cfg} {s : State} (h : Reachable cfg s) (k : Nat) :
    ((s.link k).sawClosed = true → (s.link k).recvd = (s.link k).sent) ∧
    ((s.link k).sawEof = true → (s.link k).brecvd = (s.link k).bsent) := by
  have hk := (reachable_all h).inv.1 k
  refine ⟨fun hc => ?_, fun he => ?_⟩
  · rw [hk.queue, (hk.sawC hc).2, List.append_nil]
  · rw [hk.bqueue, (hk.sawE he).2, List.append_nil]

/-- … because the predecessor closes only after its last send: the channel is
closed only once the producer is past its last operation (or redirected its
output), and a closed channel is never sent on again. -/
theorem C18_close_after_last_send {cfg : Cfg} {s : State} (h : Reachable cfg s) (k : Nat)
    (hc : (s.link k).chClosed = true) :
    k + 1 < cfg.n ∧ (s.stage k).out = .idle ∨ (s.stage k).outRedir = 2 := by
  have hk := (reachable_all h).inv.1 k
  have hs := (reachable_all h).inv.2.1 k
  have := hk.pC.mp hc
  rcases this with ⟨hn, h2 | ⟨h0, h8⟩⟩
  · exact Or.inr h2
  · refine Or.inl ⟨hn, ?_⟩
    apply Classical.byContradiction
    intro hne
    have := (hs.outBusy hne).1
    omega

/-- `Put` never returns a nil error without having sent the value, and on a
pipe of the pipeline the only error it returns is reader-gone. -/
theorem C18_put_error_is_reader_gone {cfg : Cfg} {s : State} (h : Reachable cfg s) (i : Nat) (e : Option Exc)
    (hout : (s.stage i).out = .putDone (.stopped e)) (hr : (s.stage i).outRedir = 0) : e = some .readerGone :=
  (((reachable_all h).err i).putErr e hout).1 hr

/-! ## Early exit of a reader -/

/-- (3a) After the downstream stage has closed `sendStop` (it does so right
after its `form.exec` returned, without any blocking step in between — see
`C18_epilogue_never_blocks`), a `Put` of the upstream stage that is waiting in
its select can complete, and it completes with reader-gone. -/
theorem C18_put_never_hangs_after_reader_exit {cfg : Cfg} {s : State} (h : Reachable cfg s) (k : Nat) (v : Val)
    (hk : k + 1 < cfg.n) (hpc : 4 ≤ (s.stage (k + 1)).pc) (hout : (s.stage k).out = .putting v)
    (hr : (s.stage k).outRedir = 0) :
    ∃ s', step cfg s (.selStop k) = some s' ∧ (s'.stage k).out = .putDone (.stopped (some .readerGone)) :=
  put_completes_after_stop (reachable_all h) hk hpc hout hr

/-- (3b) The same for byte writes once the reader closed its end of the pipe. -/
theorem C18_write_never_hangs_after_reader_exit {cfg : Cfg} {s : State} (h : Reachable cfg s) (k : Nat)
    (todo : List Byte) (m : Nat) (hk : k + 1 < cfg.n) (hpc : 6 ≤ (s.stage (k + 1)).pc)
    (hout : (s.stage k).out = .writing todo m) (hr : (s.stage k).outRedir = 0) :
    ∃ s', step cfg s (.wrEpipe k) = some s' ∧ (s'.stage k).out = .writeDone m (some .readerGone) :=
  write_completes_after_close (reachable_all h) hk (Or.inr hpc) hout hr

/-- (3c) The exit sequence of a stage (record the exception, signal
reader-gone, close the ports, `wg.Done`) never blocks, whatever the other
stages are doing. -/
theorem C18_epilogue_never_blocks {cfg : Cfg} {s : State} (h : Reachable cfg s) (i : Nat) (hi : i < cfg.n)
    (h2 : 2 ≤ (s.stage i).pc) (h8 : (s.stage i).pc ≤ 8) :
    ∃ s', step cfg s (epilogueLabel (s.stage i).pc i) = some s' :=
  epilogue_enabled (C18_no_go_panic h) hi h2 h8

/-- (3d) … and reader-gone is not reported: `excs[i]` of a stage whose output
is a pipe is never reader-gone. -/
theorem C18_reader_gone_not_reported {cfg : Cfg} {s : State} (h : Reachable cfg s) (i : Nat) (hi : i + 1 < cfg.n) :
    (s.stage i).exc ≠ some .readerGone := by
  have hs := (reachable_all h).inv.2.1 i
  cases hr : (s.stage i).retv with
  | none => rw [hs.retvN hr]; simp
  | some r =>
    rw [hs.retv r hr]
    unfold keptExc
    cases r with
    | none => simp
    | some e =>
      by_cases he : e = Exc.readerGone
      · simp [hi, he]
      · simp [he]

/-! ## The pipeline's result -/

/-- (4) `exec` has a result only after every stage has called `wg.Done`, and
the result is `MakePipelineError` of the recorded exceptions, which equals its
specification `mpeSpec`. -/
theorem C18_result {cfg : Cfg} {s : State} (h : Reachable cfg s) (r : PipeRes) (hr : s.result = some r) :
    (∀ i, i < cfg.n → (s.stage i).pc = 9) ∧ r = mpeSpec (s.excs cfg) := by
  have ha := reachable_all h
  obtain ⟨hw, hm⟩ := ha.g.res r hr
  refine ⟨fun i hi => ?_, ?_⟩
  · rw [ha.g.wg] at hw
    have := cnt_zero hw i hi
    simpa [notDone] using this
  · rw [makePipelineError_eq] at hm
    exact (Option.some.inj hm).symm

/-- `MakePipelineError` (the Go loop with its `notOK` counter and `lastNotOK`
index) never indexes out of range and computes `mpeSpec`. -/
theorem C18_makePipelineError_spec (excs : List (Option Exc)) : makePipelineError excs = some (mpeSpec excs) :=
  makePipelineError_eq excs

/-- nothing left → nil -/
theorem C18_result_nil (excs : List (Option Exc)) (h : notOKs excs = []) : mpeSpec excs = .nil := by
  unfold mpeSpec; rw [h]

/-- exactly one exception left → that exception itself -/
theorem C18_result_single (excs : List (Option Exc)) (e : Exc) (h : notOKs excs = [e]) : mpeSpec excs = .single e := by
  unfold mpeSpec; rw [h]

/-- several → a pipeline error listing EVERY stage in order (OK for the others):
none is dropped -/
theorem C18_result_multi (excs : List (Option Exc)) (e1 e2 : Exc) (rest : List Exc) (h : notOKs excs = e1 :: e2 :: rest) :
    mpeSpec excs = .multi (newexcs excs) ∧ (newexcs excs).length = excs.length ∧
    ∀ e, e ∈ notOKs excs → e ∈ newexcs excs := by
  refine ⟨by unfold mpeSpec; rw [h], by simp [newexcs], fun e he => ?_⟩
  unfold notOKs at he
  exact (List.mem_filter.mp he).1

/-! ## Deadlock: what exiting can and cannot cause -/

/-- (5) No stage can make the PROTOCOL deadlock by exiting early: in any
reachable state in which `exec` has not returned and no protocol step is
enabled (only the stage programs could move), every stage is either completely
done or still inside its own `form.exec`; some stage is still inside
`form.exec`; and every blocked `Put` / `Write` / receive / read waits for a
neighbour that is itself still inside `form.exec`.  So a stage that has exited
— or is exiting — is never what anybody waits for. -/
theorem C18_no_deadlock_by_exiting {cfg : Cfg} {s : State} (h : Reachable cfg s) (hres : s.result = none)
    (hstuck : ProtocolStuck cfg s) : StuckShape cfg s :=
  stuck_shape (reachable_all h) hres hstuck

/-- (6) The pipeline finishes once all its stages finish: from any reachable
state in which every `form.exec` has returned, some step is enabled as long as
`exec` has no result, every possible step keeps that situation and decreases
`remaining` by one — so under every schedule `exec` returns after exactly
`remaining` more steps. -/
theorem C18_finishes_once_stages_finish {cfg : Cfg} {s : State} (h : Reachable cfg s) (hret : AllReturned cfg s) :
    (s.result = none → ∃ l s', step cfg s l = some s') ∧
    (∀ l s', step cfg s l = some s' → AllReturned cfg s' ∧ remaining cfg s' + 1 = remaining cfg s) ∧
    (remaining cfg s = 0 → s.result ≠ none) :=
  ⟨finishing_enabled (reachable_all h) hret, fun _ _ hs => finishing_step (reachable_all h) hret hs, remaining_zero⟩

/-! ## Stage programs as explicit parameters -/

/-- Whatever finite programs the stages run, every state they can reach is a
reachable state of the unconstrained system; so all theorems above hold for
every choice of stage programs. -/
theorem C18_prog_reachable {cfg : Cfg} {progs : Nat → Prog} {sp : State × (Nat → Prog)}
    (h : PReachable cfg progs sp) : Reachable cfg sp.1 := by
  induction h with
  | init => exact Reachable.init
  | step l _ hs ih =>
    unfold pstep at hs
    split at hs
    · simp only [Option.map_eq_some_iff] at hs
      obtain ⟨a, ha, rfl⟩ := hs
      exact Reachable.step l ih ha
    · split at hs
      · cases hs
      · simp only [Option.map_eq_some_iff] at hs
        obtain ⟨a, ha, rfl⟩ := hs
        exact Reachable.step l ih ha

theorem C18_full_holds (cfg : Cfg) : C18_full cfg := by
  intro s h
  exact ⟨C18_no_go_panic h, C18_exactly_once_in_order h, C18_reader_to_end_sees_all h,
    fun k v hk hpc ho hr => C18_put_never_hangs_after_reader_exit h k v hk hpc ho hr,
    fun k todo m hk hpc ho hr => C18_write_never_hangs_after_reader_exit h k todo m hk hpc ho hr,
    C18_reader_gone_not_reported h, C18_result h, C18_no_deadlock_by_exiting h⟩

/-- C18 for every pipeline length, every channel and pipe capacity (in
particular the regenerated `pipelineChanBufferSize`), every schedule and every
stage program. -/
theorem C18_holds_for_every_stage_program (cfg : Cfg) (progs : Nat → Prog) (sp : State × (Nat → Prog))
    (h : PReachable cfg progs sp) :
    sp.1.crashed = false ∧
    (∀ k, (sp.1.link k).recvd <+: (sp.1.link k).sent ∧ (sp.1.link k).brecvd <+: (sp.1.link k).bsent) ∧
    (∀ k, ((sp.1.link k).sawClosed = true → (sp.1.link k).recvd = (sp.1.link k).sent) ∧
          ((sp.1.link k).sawEof = true → (sp.1.link k).brecvd = (sp.1.link k).bsent)) ∧
    (∀ i, i + 1 < cfg.n → (sp.1.stage i).exc ≠ some .readerGone) ∧
    (∀ r, sp.1.result = some r → (∀ i, i < cfg.n → (sp.1.stage i).pc = 9) ∧ r = mpeSpec (sp.1.excs cfg)) :=
  have hr := C18_prog_reachable h
  ⟨C18_no_go_panic hr, C18_received_prefix_of_sent hr, C18_reader_to_end_sees_all hr,
    C18_reader_gone_not_reported hr, C18_result hr⟩

/-! ## Non-vacuity: concrete runs -/

theorem run_reachable {cfg : Cfg} : ∀ (ls : List Label) {s s' : State}, Reachable cfg s → run cfg s ls = some s' →
    Reachable cfg s'
  | [], s, s', h, hr => by simp [run] at hr; subst hr; exact h
  | l :: ls, s, s', h, hr => by
    simp only [run] at hr
    cases hs : step cfg s l with
    | none => simp [hs] at hr
    | some s1 => simp [hs] at hr; exact run_reachable ls (Reachable.step l h hs) hr

/-- two stages, channel capacity 2, pipe capacity 4 -/
def exCfg : Cfg := { n := 2, cap := 2, pcap := 4 }

/-- stage 0 puts 7 and 8; stage 1 takes 7 and exits with exception 5; stage 0's
third put then is stopped; stage 0 exits with reader-gone; exec returns. -/
def exRun : List Label :=
  [.start 0, .start 1, .putBeg 0 7, .enq 0, .putEnd 0, .takeBeg 1, .deq 1, .takeEnd 1,
   .putBeg 0 8, .enq 0, .putEnd 0, .ret 1 (some (.other 5)), .setErr 1, .closeStop 1,
   .putBeg 0 9, .selStop 0, .putEnd 0, .ret 0 (some .readerGone),
   .storeGone 1, .closeIn 1, .closeOutFile 1, .closeOutChan 1, .wgDone 1,
   .setErr 0, .closeStop 0, .storeGone 0, .closeIn 0, .closeOutFile 0, .closeOutChan 0, .wgDone 0, .waitRet]

/-- the run is a path of the model; it ends with the single exception of stage 1
(reader-gone of stage 0 dropped), value 7 delivered, value 8 still buffered -/
example : (run exCfg (State.init exCfg) exRun).map
    (fun s => (s.result, (s.link 0).sent, (s.link 0).recvd, (s.link 0).q, (s.stage 0).exc)) =
    some (some (.single (.other 5)), [7, 8], [7], [8], none) := by decide

/-- the hypotheses of (3a) are satisfiable: after `close(sendStop)` a Put is pending -/
example : (run exCfg (State.init exCfg) (exRun.take 15)).map
    (fun s => ((s.stage 1).pc, (s.stage 0).out, (s.stage 0).outRedir)) = some (4, .putting 9, 0) := by decide

/-- the hypotheses of (2) are satisfiable: a reader that drains the channel sees `closed` -/
example : (run exCfg (State.init exCfg)
    [.start 0, .start 1, .putBeg 0 7, .enq 0, .putEnd 0, .ret 0 none, .setErr 0, .closeStop 0, .storeGone 0, .closeIn 0,
     .closeOutFile 0, .closeOutChan 0, .takeBeg 1, .deq 1, .takeEnd 1, .takeBeg 1, .deqClosed 1]).map
    (fun s => ((s.link 0).sawClosed, (s.link 0).recvd, (s.link 0).sent, (s.stage 1).vin)) =
    some (true, [7], [7], .took none) := by decide

/-- several exceptions are all reported, in stage order -/
example : mpeSpec [some (.other 1), none, some (.other 3)] = .multi [.other 1, .ok, .other 3] := by decide

/-- a stage program that reacts to results, and a run that follows the programs -/
def exProgs : Nat → Prog
  | 0 => .put 7 fun _ => .put 8 fun r => match r with
      | .sent => .exit none
      | .stopped _ => .exit (some .readerGone)
  | _ => .take fun _ => .exit (some (.other 5))

example : ∃ sp, PReachable exCfg exProgs sp ∧ (sp.1.stage 0).out = .putDone .sent :=
  ⟨_, .step (.enq 0) (.step (.putBeg 0 7) (.step (.start 0) .init rfl) rfl) rfl, rfl⟩

/-! ## Honesty: stage programs CAN deadlock each other -/

/-- producer blocked on the full value channel while the consumer, still
running, waits for bytes first -/
def deadRun : List Label :=
  [.start 0, .start 1, .putBeg 0 1, .enq 0, .putEnd 0, .putBeg 0 2, .enq 0, .putEnd 0, .putBeg 0 3, .readBeg 1 1]

def deadState : State :=
  match run exCfg (State.init exCfg) deadRun with
  | some s => s
  | none => State.init exCfg

theorem deadState_run : run exCfg (State.init exCfg) deadRun = some deadState := by
  unfold deadState
  cases h : run exCfg (State.init exCfg) deadRun with
  | some s => rfl
  | none =>
    have : (run exCfg (State.init exCfg) deadRun).isSome = true := by decide
    rw [h] at this; cases this

/-- General deadlock freedom is NOT a property of pipelines: the state reached
by `deadRun` is reachable, both stages are still running their programs, the
producer's `Put` can neither send (channel full) nor stop (reader alive) and
the consumer's read can neither return bytes nor EOF.  This is a deadlock of
the stage programs (C18 does not exclude it); by `C18_no_deadlock_by_exiting`
it cannot involve a stage that has exited. -/
theorem C18_stage_programs_can_deadlock :
    ∃ s, Reachable exCfg s ∧ (s.stage 0).pc = 1 ∧ (s.stage 1).pc = 1 ∧
      (s.stage 0).out = .putting 3 ∧ (s.stage 1).bin = .reading 1 ∧
      step exCfg s (.enq 0) = none ∧ step exCfg s (.selStop 0) = none ∧
      (∀ k, step exCfg s (.rd 1 k) = none) ∧ step exCfg s (.rdEof 1) = none := by
  refine ⟨deadState, run_reachable deadRun Reachable.init deadState_run, by decide, by decide, by decide, by decide,
    by decide, by decide, ?_, by decide⟩
  intro k
  have hp : (deadState.link 0).pipe = [] := by decide
  have hb : (deadState.stage 1).bin = .reading 1 := by decide
  have hr : (deadState.stage 1).inRedir = false := by decide
  have hc : deadState.crashed = false := by decide
  rw [step_of_core hc rfl (by decide)]
  simp only []
  unfold stepRd
  simp only [hb, hr, hp]
  simp
  omega
