import ElvProofs.C39.Locks
/-!
C39 helper lemmas: a common mutex orders conflicting accesses; construction
phase accesses happen before everything other goroutines do; reading the
verdict of the executable obligation.
-/
namespace C39
set_option linter.unusedSectionVars false
variable {L V : Type} [DecidableEq L] [DecidableEq V]

theorem not_rel_of_accesses {e : Ev L V} {x : V} (h : e.accesses x) (m : L) :
    e ≠ .rel m ∧ e ≠ .rrel m ∧ e.isFork = false := by
  rcases h with h | h <;> subst h <;> simp [Ev.isFork]

theorem not_fork_of_accesses {e : Ev L V} {x : V} (h : e.accesses x) : e.isFork = false := by
  rcases h with h | h <;> subst h <;> rfl

/-- Two accesses by different goroutines that hold a common mutex, at least one
of them exclusively, are ordered by happens-before. -/
theorem lock_orders {tr : Trace L V} (hwf : WF tr) {i j : Nat} {s t : Step L V} {m : L} {x y : V}
    (hij : i < j) (hs : tr[i]? = some s) (ht : tr[j]? = some t) (hne : s.tid ≠ t.tid)
    (hsa : s.ev.accesses x) (_hta : t.ev.accesses y)
    (h : (holdsEx (stateAt tr i) s.tid m ∧ holdsAny (stateAt tr j) t.tid m) ∨
         (holdsAny (stateAt tr i) s.tid m ∧ holdsEx (stateAt tr j) t.tid m)) :
    HB tr i j := by
  obtain ⟨d, rfl⟩ : ∃ d, j = i + d := ⟨j - i, by omega⟩
  obtain ⟨sa, se⟩ := s
  obtain ⟨ta, te⟩ := t
  simp only at hne hsa h
  have hnr := not_rel_of_accesses hsa m
  rcases h with ⟨h1, h2⟩ | ⟨h1, h2⟩
  · obtain ⟨k, q, hk1, hk2, hk3, hk4, hk5⟩ :=
      handover_from_writer hwf (Ne.symm hne) h1 d h2
    have hik : i < k := by
      rcases Nat.lt_or_ge i k with h | h
      · exact h
      · have : k = i := by omega
        subst this
        rw [hs] at hk4
        injection hk4 with hk4
        injection hk4 with _ hk4
        exact absurd hk4 hnr.1
    have a1 : HB tr i k := HB.po hik hs hk4 rfl
    have a3 : HB tr q (i + d) := by
      rcases hk5 with h | h <;> exact HB.po hk3 h ht rfl
    have a2 : HB tr k q := by
      rcases hk5 with h | h
      · exact HB.unlockLock hk2 hk4 h
      · exact HB.unlockRLock hk2 hk4 h
    exact HB.trans a1 (HB.trans a2 a3)
  · obtain ⟨k, q, hk1, hk2, hk3, hk4, hk5⟩ :=
      handover_to_writer hwf (Ne.symm hne) h1 d h2
    have hik : i < k := by
      rcases Nat.lt_or_ge i k with h | h
      · exact h
      · have : k = i := by omega
        subst this
        rw [hs] at hk4
        rcases hk4 with h | h
        · injection h with h
          injection h with _ h
          exact absurd h hnr.1
        · injection h with h
          injection h with _ h
          exact absurd h hnr.2.1
    have a1 : HB tr i k := by
      rcases hk4 with h | h <;> exact HB.po hik hs h rfl
    have a3 : HB tr q (i + d) := HB.po hk3 hk5 ht rfl
    have a2 : HB tr k q := by
      rcases hk4 with h | h
      · exact HB.unlockLock hk2 h hk5
      · exact HB.runlockLock hk2 h hk5
    exact HB.trans a1 (HB.trans a2 a3)

/-- An access of the construction phase happens before everything any other
goroutine ever does. -/
theorem init_before_all {tr : Trace L V} (hf : WFfork tr) {i : Nat} {s : Step L V}
    (hs : tr[i]? = some s) (hnf : s.ev.isFork = false) (hinit : InitPhase tr i) :
    ∀ j (t : Step L V), i < j → tr[j]? = some t → t.tid ≠ 0 → HB tr i j := by
  obtain ⟨⟨s', hs', hs0⟩, hnofork⟩ := hinit
  rw [hs] at hs'; cases hs'
  intro j
  induction j using Nat.strongRecOn with
  | ind j ih =>
    intro t hij ht ht0
    obtain ⟨f, p, hfj, hfork⟩ := hf j t ht ht0
    have hif : i < f := by
      rcases Nat.lt_or_ge i f with h | h
      · exact h
      · exfalso
        rcases Nat.lt_or_ge f i with h' | h'
        · have := hnofork f _ h' hfork
          simp [Ev.isFork] at this
        · have : f = i := by omega
          subst this
          rw [hs] at hfork; cases hfork
          simp [Ev.isFork] at hnf
    have hfj' : HB tr f j := HB.forkE (e := t.ev) hfj hfork ht
    by_cases hp : p = 0
    · subst hp
      exact HB.trans (HB.po hif hs hfork hs0) hfj'
    · exact HB.trans (ih f hfj ⟨p, .fork t.tid⟩ hif hfork hp) hfj'

/-- Nothing another goroutine does can precede a construction phase access. -/
theorem nothing_before_init {tr : Trace L V} (hf : WFfork tr) {i j : Nat} {s : Step L V}
    (hij : i < j) (hs : tr[i]? = some s) (hs0 : s.tid ≠ 0) (hinit : InitPhase tr j) : False := by
  obtain ⟨f, p, hfi, hfork⟩ := hf i s hs hs0
  have := hinit.2 f _ (by omega) hfork
  simp [Ev.isFork] at this

/-! ### Reading the verdict -/

theorem checkVar_good {tbl : List (Site L V)} {x : V} {cands : List L}
    (h : (checkVar tbl x cands).good = true) :
    immutableAfterInit tbl x = true ∨ ∃ m, protectedBy tbl x m = true := by
  unfold checkVar at h
  split at h
  · left; assumption
  · right
    split at h
    · rename_i m hm
      exact ⟨m, by simpa using List.find?_some hm⟩
    · exfalso
      split at h
      · simp [Verdict.good] at h
      · split at h <;> simp [Verdict.good] at h

theorem mem_sitesOf {tbl : List (Site L V)} {x : V} {s : Site L V} (h : s ∈ tbl) (hx : s.var = x) :
    s ∈ sitesOf tbl x := by
  unfold sitesOf
  exact List.mem_filter.2 ⟨h, by simp [hx]⟩

theorem guardedBy_any {s : Site L V} {m : L} (h : s.guardedBy m = true) :
    ∃ p ∈ s.held, p.1 = m := by
  unfold Site.guardedBy at h
  split at h
  · obtain ⟨p, hp, hq⟩ := List.any_eq_true.1 h
    exact ⟨p, hp, by simpa using (by simpa using hq : p.1 = m ∧ p.2 = true).1⟩
  · obtain ⟨p, hp, hq⟩ := List.any_eq_true.1 h
    exact ⟨p, hp, by simpa using hq⟩

theorem guardedBy_write {s : Site L V} {m : L} (hw : s.write = true) (h : s.guardedBy m = true) :
    ∃ p ∈ s.held, p.1 = m ∧ p.2 = true := by
  unfold Site.guardedBy at h
  rw [if_pos hw] at h
  obtain ⟨p, hp, hq⟩ := List.any_eq_true.1 h
  exact ⟨p, hp, by simpa using hq⟩

end C39
