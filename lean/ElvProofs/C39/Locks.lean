import ElvModel.C39.Lockset
/-!
Helper lemmas for C39: how the mutex state evolves along a well-formed trace,
and the two "hand-over" lemmas (a mutex held by `a` at position `i` and by
`u ≠ a` at a later position was released by `a` and then acquired by `u` in
between).
-/
namespace C39
set_option linter.unusedSectionVars false
variable {L V : Type} [DecidableEq L] [DecidableEq V]

theorem stateAt_succ {tr : Trace L V} {n : Nat} {s : Step L V} (h : tr[n]? = some s) :
    stateAt tr (n + 1) = stepLocks (stateAt tr n) s := by
  unfold stateAt
  rw [List.take_add_one, List.foldl_append, h]
  rfl

theorem stateAt_succ_none {tr : Trace L V} {n : Nat} (h : tr[n]? = none) :
    stateAt tr (n + 1) = stateAt tr n := by
  unfold stateAt
  rw [List.take_add_one, List.foldl_append, h]
  rfl

/-! ### One step -/

@[simp] theorem stepLocks_acq (σ : Locks L) (t : Tid) (m m' : L) :
    stepLocks σ (⟨t, .acq m⟩ : Step L V) m' = if m' = m then { σ m with w := some t } else σ m' := rfl
@[simp] theorem stepLocks_rel (σ : Locks L) (t : Tid) (m m' : L) :
    stepLocks σ (⟨t, .rel m⟩ : Step L V) m' = if m' = m then { σ m with w := none } else σ m' := rfl
@[simp] theorem stepLocks_racq (σ : Locks L) (t : Tid) (m m' : L) :
    stepLocks σ (⟨t, .racq m⟩ : Step L V) m' = if m' = m then { σ m with r := t :: (σ m).r } else σ m' := rfl
@[simp] theorem stepLocks_rrel (σ : Locks L) (t : Tid) (m m' : L) :
    stepLocks σ (⟨t, .rrel m⟩ : Step L V) m' = if m' = m then { σ m with r := (σ m).r.erase t } else σ m' := rfl
@[simp] theorem stepLocks_rd (σ : Locks L) (t : Tid) (x : V) :
    stepLocks σ (⟨t, .rd x⟩ : Step L V) = σ := rfl
@[simp] theorem stepLocks_wr (σ : Locks L) (t : Tid) (x : V) :
    stepLocks σ (⟨t, .wr x⟩ : Step L V) = σ := rfl
@[simp] theorem stepLocks_fork (σ : Locks L) (t g : Tid) :
    stepLocks σ (⟨t, .fork g⟩ : Step L V) = σ := rfl
@[simp] theorem stepLocks_join (σ : Locks L) (t g : Tid) :
    stepLocks σ (⟨t, .join g⟩ : Step L V) = σ := rfl

/-- Mutual exclusion invariant: while a writer holds the mutex nobody holds it for reading. -/
def Inv (σ : Locks L) : Prop := ∀ m, (σ m).w ≠ none → (σ m).r = []

theorem inv_init : Inv (Locks.init : Locks L) := by
  intro m _; rfl

theorem inv_step {σ : Locks L} {s : Step L V} (hi : Inv σ) (he : enabled σ s) : Inv (stepLocks σ s) := by
  obtain ⟨t, e⟩ := s
  intro m'
  cases e with
  | acq m =>
    simp only [enabled] at he
    simp only [stepLocks_acq]
    split
    · intro _; simpa using he.2
    · exact hi m'
  | rel m =>
    simp only [stepLocks_rel]
    split
    · intro h; simp at h
    · exact hi m'
  | racq m =>
    simp only [enabled] at he
    simp only [stepLocks_racq]
    split
    · intro h; exact absurd he h
    · exact hi m'
  | rrel m =>
    simp only [stepLocks_rrel]
    split
    · intro h
      have := hi m h
      simp [this]
    · exact hi m'
  | rd x => simpa using hi m'
  | wr x => simpa using hi m'
  | fork g => simpa using hi m'
  | join g => simpa using hi m'

theorem inv_stateAt {tr : Trace L V} (hwf : WF tr) : ∀ n, Inv (stateAt tr n) := by
  intro n
  induction n with
  | zero => exact inv_init
  | succ n ih =>
    cases h : tr[n]? with
    | none => rw [stateAt_succ_none h]; exact ih
    | some s => rw [stateAt_succ h]; exact inv_step ih (hwf n s h)

/-- If `a` holds `m` exclusively before an enabled step and not after it, the
step is `a`'s Unlock of `m`. -/
theorem lose_ex_step {σ : Locks L} {s : Step L V} {a : Tid} {m : L}
    (he : enabled σ s) (h0 : (σ m).w = some a) (h1 : (stepLocks σ s m).w ≠ some a) :
    s = ⟨a, .rel m⟩ := by
  obtain ⟨t, e⟩ := s
  cases e with
  | acq m' =>
    simp only [enabled] at he
    simp only [stepLocks_acq] at h1
    by_cases hm : m = m'
    · subst hm; rw [he.1] at h0; cases h0
    · simp [hm, h0] at h1
  | rel m' =>
    simp only [enabled] at he
    simp only [stepLocks_rel] at h1
    by_cases hm : m = m'
    · subst hm; rw [h0] at he; cases he; rfl
    · simp [hm, h0] at h1
  | racq m' =>
    simp only [stepLocks_racq] at h1
    by_cases hm : m = m'
    · subst hm; simp [h0] at h1
    · simp [hm, h0] at h1
  | rrel m' =>
    simp only [stepLocks_rrel] at h1
    by_cases hm : m = m'
    · subst hm; simp [h0] at h1
    · simp [hm, h0] at h1
  | rd x => simp [h0] at h1
  | wr x => simp [h0] at h1
  | fork g => simp [h0] at h1
  | join g => simp [h0] at h1

/-- If `a` holds `m` (in some mode) before an enabled step and not after it,
the step is `a`'s Unlock or RUnlock of `m`. -/
theorem lose_any_step {σ : Locks L} {s : Step L V} {a : Tid} {m : L}
    (he : enabled σ s) (h0 : holdsAny σ a m) (h1 : ¬ holdsAny (stepLocks σ s) a m) :
    s = ⟨a, .rel m⟩ ∨ s = ⟨a, .rrel m⟩ := by
  obtain ⟨t, e⟩ := s
  unfold holdsAny at h0 h1
  cases e with
  | acq m' =>
    simp only [enabled] at he
    by_cases hm : m = m'
    · subst hm
      rcases h0 with h0 | h0
      · rw [he.1] at h0; cases h0
      · rw [he.2] at h0; cases h0
    · exfalso; apply h1; simpa [hm] using h0
  | rel m' =>
    simp only [enabled] at he
    by_cases hm : m = m'
    · subst hm
      rcases h0 with h0 | h0
      · rw [h0] at he; cases he; exact Or.inl rfl
      · exfalso; apply h1; right; simpa using h0
    · exfalso; apply h1; simpa [hm] using h0
  | racq m' =>
    by_cases hm : m = m'
    · subst hm
      exfalso; apply h1
      rcases h0 with h0 | h0
      · left; simpa using h0
      · right; simp [h0]
    · exfalso; apply h1; simpa [hm] using h0
  | rrel m' =>
    by_cases hm : m = m'
    · subst hm
      rcases h0 with h0 | h0
      · exfalso; apply h1; left; simpa using h0
      · by_cases hat : a = t
        · subst hat; exact Or.inr rfl
        · exfalso; apply h1; right
          simp only [stepLocks_rrel, if_true]
          exact (List.mem_erase_of_ne hat).2 h0
    · exfalso; apply h1; simpa [hm] using h0
  | rd x => exact absurd (by simpa using h0) h1
  | wr x => exact absurd (by simpa using h0) h1
  | fork g => exact absurd (by simpa using h0) h1
  | join g => exact absurd (by simpa using h0) h1

/-- If `u` does not hold `m` before a step and holds it afterwards, the step is
`u`'s Lock or RLock of `m`. -/
theorem gain_any_step {σ : Locks L} {s : Step L V} {u : Tid} {m : L}
    (h0 : ¬ holdsAny σ u m) (h1 : holdsAny (stepLocks σ s) u m) :
    s = ⟨u, .acq m⟩ ∨ s = ⟨u, .racq m⟩ := by
  obtain ⟨t, e⟩ := s
  unfold holdsAny at h0 h1
  cases e with
  | acq m' =>
    by_cases hm : m = m'
    · subst hm
      simp only [stepLocks_acq, if_true] at h1
      rcases h1 with h1 | h1
      · cases h1; exact Or.inl rfl
      · exact absurd (Or.inr h1) h0
    · exfalso; apply h0; simpa [hm] using h1
  | rel m' =>
    by_cases hm : m = m'
    · subst hm
      simp only [stepLocks_rel, if_true] at h1
      rcases h1 with h1 | h1
      · cases h1
      · exact absurd (Or.inr h1) h0
    · exfalso; apply h0; simpa [hm] using h1
  | racq m' =>
    by_cases hm : m = m'
    · subst hm
      simp only [stepLocks_racq, if_true] at h1
      rcases h1 with h1 | h1
      · exact absurd (Or.inl h1) h0
      · rcases List.mem_cons.1 h1 with h | h
        · subst h; exact Or.inr rfl
        · exact absurd (Or.inr h) h0
    · exfalso; apply h0; simpa [hm] using h1
  | rrel m' =>
    by_cases hm : m = m'
    · subst hm
      simp only [stepLocks_rrel, if_true] at h1
      rcases h1 with h1 | h1
      · exact absurd (Or.inl h1) h0
      · exact absurd (Or.inr (List.mem_of_mem_erase h1)) h0
    · exfalso; apply h0; simpa [hm] using h1
  | rd x => exact absurd (by simpa using h1) h0
  | wr x => exact absurd (by simpa using h1) h0
  | fork g => exact absurd (by simpa using h1) h0
  | join g => exact absurd (by simpa using h1) h0

/-- If the writer of `m` is not `u` before a step and is `u` afterwards, the
step is `u`'s Lock of `m`. -/
theorem gain_ex_step {σ : Locks L} {s : Step L V} {u : Tid} {m : L}
    (h0 : (σ m).w ≠ some u) (h1 : (stepLocks σ s m).w = some u) :
    s = ⟨u, .acq m⟩ := by
  obtain ⟨t, e⟩ := s
  cases e with
  | acq m' =>
    by_cases hm : m = m'
    · subst hm
      simp only [stepLocks_acq, if_true] at h1
      cases h1; rfl
    · exfalso; apply h0; simpa [hm] using h1
  | rel m' =>
    by_cases hm : m = m'
    · subst hm; simp at h1
    · exfalso; apply h0; simpa [hm] using h1
  | racq m' =>
    by_cases hm : m = m'
    · subst hm; exfalso; apply h0; simpa using h1
    · exfalso; apply h0; simpa [hm] using h1
  | rrel m' =>
    by_cases hm : m = m'
    · subst hm; exfalso; apply h0; simpa using h1
    · exfalso; apply h0; simpa [hm] using h1
  | rd x => exact absurd (by simpa using h1) h0
  | wr x => exact absurd (by simpa using h1) h0
  | fork g => exact absurd (by simpa using h1) h0
  | join g => exact absurd (by simpa using h1) h0

/-! ### Along a trace -/

/-- A writer that no longer holds the mutex has unlocked it in between. -/
theorem lost_ex {tr : Trace L V} (hwf : WF tr) {i : Nat} {a : Tid} {m : L}
    (hi : (stateAt tr i m).w = some a) :
    ∀ d, (stateAt tr (i + d) m).w ≠ some a →
      ∃ k, i ≤ k ∧ k < i + d ∧ tr[k]? = some ⟨a, .rel m⟩ := by
  intro d
  induction d with
  | zero => intro h; exact absurd hi h
  | succ d ih =>
    intro h
    by_cases hd : (stateAt tr (i + d) m).w = some a
    · cases hs : tr[i + d]? with
      | none =>
        rw [show i + (d + 1) = (i + d) + 1 from rfl, stateAt_succ_none hs] at h
        exact absurd hd h
      | some s =>
        rw [show i + (d + 1) = (i + d) + 1 from rfl, stateAt_succ hs] at h
        have := lose_ex_step (hwf _ _ hs) hd h
        subst this
        exact ⟨i + d, by omega, by omega, hs⟩
    · obtain ⟨k, h1, h2, h3⟩ := ih hd
      exact ⟨k, h1, by omega, h3⟩

/-- A goroutine that no longer holds the mutex has unlocked it in between. -/
theorem lost_any {tr : Trace L V} (hwf : WF tr) {i : Nat} {a : Tid} {m : L}
    (hi : holdsAny (stateAt tr i) a m) :
    ∀ d, ¬ holdsAny (stateAt tr (i + d)) a m →
      ∃ k, i ≤ k ∧ k < i + d ∧ (tr[k]? = some ⟨a, .rel m⟩ ∨ tr[k]? = some ⟨a, .rrel m⟩) := by
  intro d
  induction d with
  | zero => intro h; exact absurd hi h
  | succ d ih =>
    intro h
    by_cases hd : holdsAny (stateAt tr (i + d)) a m
    · cases hs : tr[i + d]? with
      | none =>
        rw [show i + (d + 1) = (i + d) + 1 from rfl, stateAt_succ_none hs] at h
        exact absurd hd h
      | some s =>
        rw [show i + (d + 1) = (i + d) + 1 from rfl, stateAt_succ hs] at h
        have := lose_any_step (hwf _ _ hs) hd h
        refine ⟨i + d, by omega, by omega, ?_⟩
        rcases this with e | e
        · left; rw [hs, e]
        · right; rw [hs, e]
    · obtain ⟨k, h1, h2, h3⟩ := ih hd
      exact ⟨k, h1, by omega, h3⟩

/-- Hand-over from a writer: `a` holds `m` exclusively at `i`, `u ≠ a` holds it
(in any mode) at `i+d`.  Then `a` unlocked `m` and afterwards `u` locked or
read-locked it, all between `i` and `i+d`. -/
theorem handover_from_writer {tr : Trace L V} (hwf : WF tr) {i : Nat} {a u : Tid} {m : L}
    (hau : u ≠ a) (hi : (stateAt tr i m).w = some a) :
    ∀ d, holdsAny (stateAt tr (i + d)) u m →
      ∃ k q, i ≤ k ∧ k < q ∧ q < i + d ∧ tr[k]? = some ⟨a, .rel m⟩ ∧
        (tr[q]? = some ⟨u, .acq m⟩ ∨ tr[q]? = some ⟨u, .racq m⟩) := by
  intro d
  induction d with
  | zero =>
    intro h
    exfalso
    simp only [Nat.add_zero] at h
    rcases h with h | h
    · rw [hi] at h; cases h; exact hau rfl
    · have := inv_stateAt hwf i m (by rw [hi]; simp)
      rw [this] at h; cases h
  | succ d ih =>
    intro h
    by_cases hd : holdsAny (stateAt tr (i + d)) u m
    · obtain ⟨k, q, h1, h2, h3, h4, h5⟩ := ih hd
      exact ⟨k, q, h1, h2, by omega, h4, h5⟩
    · cases hs : tr[i + d]? with
      | none =>
        rw [show i + (d + 1) = (i + d) + 1 from rfl, stateAt_succ_none hs] at h
        exact absurd h hd
      | some s =>
        rw [show i + (d + 1) = (i + d) + 1 from rfl, stateAt_succ hs] at h
        have hstep := gain_any_step hd h
        have hen := hwf _ _ hs
        have hw : (stateAt tr (i + d) m).w = none := by
          rcases hstep with e | e <;> subst e <;> simp only [enabled] at hen
          · exact hen.1
          · exact hen
        obtain ⟨k, h1, h2, h3⟩ := lost_ex hwf hi d (by rw [hw]; simp)
        refine ⟨k, i + d, h1, h2, by omega, h3, ?_⟩
        rcases hstep with e | e
        · left; rw [hs, e]
        · right; rw [hs, e]

/-- Hand-over to a writer: `a` holds `m` (in any mode) at `i`, `u ≠ a` holds it
exclusively at `i+d`.  Then `a` released `m` and afterwards `u` locked it. -/
theorem handover_to_writer {tr : Trace L V} (hwf : WF tr) {i : Nat} {a u : Tid} {m : L}
    (hau : u ≠ a) (hi : holdsAny (stateAt tr i) a m) :
    ∀ d, (stateAt tr (i + d) m).w = some u →
      ∃ k q, i ≤ k ∧ k < q ∧ q < i + d ∧
        (tr[k]? = some ⟨a, .rel m⟩ ∨ tr[k]? = some ⟨a, .rrel m⟩) ∧ tr[q]? = some ⟨u, .acq m⟩ := by
  intro d
  induction d with
  | zero =>
    intro h
    exfalso
    simp only [Nat.add_zero] at h
    rcases hi with hi | hi
    · rw [hi] at h; cases h; exact hau rfl
    · have := inv_stateAt hwf i m (by rw [h]; simp)
      rw [this] at hi; cases hi
  | succ d ih =>
    intro h
    by_cases hd : (stateAt tr (i + d) m).w = some u
    · obtain ⟨k, q, h1, h2, h3, h4, h5⟩ := ih hd
      exact ⟨k, q, h1, h2, by omega, h4, h5⟩
    · cases hs : tr[i + d]? with
      | none =>
        rw [show i + (d + 1) = (i + d) + 1 from rfl, stateAt_succ_none hs] at h
        exact absurd h hd
      | some s =>
        rw [show i + (d + 1) = (i + d) + 1 from rfl, stateAt_succ hs] at h
        have hstep := gain_ex_step hd h
        have hen := hwf _ _ hs
        subst hstep
        simp only [enabled] at hen
        have hnot : ¬ holdsAny (stateAt tr (i + d)) a m := by
          intro hh
          rcases hh with hh | hh
          · rw [hen.1] at hh; cases hh
          · rw [hen.2] at hh; cases hh
        obtain ⟨k, h1, h2, h3⟩ := lost_any hwf hi d hnot
        exact ⟨k, i + d, h1, h2, by omega, h3, hs⟩

end C39
