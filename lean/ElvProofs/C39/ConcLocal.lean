import ElvModel.C39.Concurrent
/-!
C39 helper (round 2): what ONE atomic step of an evaluation does to the static
account of what remains (`rem`), and the class invariant `okP`.
-/
namespace C39.Conc
open C39

theorem single_self (k : Key) (v : Nat) : single k v k = v := by simp [single]
theorem single_ne {k k' : Key} (v : Nat) (h : k' ≠ k) : single k v k' = 0 := by simp [single, h]

theorem effL_nil (e : Env) (k : Key) : effL [] e k = 0 := by simp [effL, zero]
theorem effL_cons (s : Stmt) (ss : List Stmt) (e : Env) (k : Key) :
    effL (s :: ss) e k = effS s e k + effL ss (envS s e) k := by simp [effL]

theorem rem_parN (n : Nat) (body : List Stmt) (e : Env) (k : Key) :
    rem (parN n body e) k = n * effL body e k := by
  induction n with
  | zero => simp [parN, rem, effL_nil]
  | succ n ih => simp only [parN, rem, ih, Nat.succ_mul]; omega

theorem rem_done {p : Proc} (h : p.isDone = true) (k : Key) : rem p k = 0 := by
  induction p with
  | code ss e =>
    cases ss with
    | nil => simp [rem, effL_nil]
    | cons s ss => simp [Proc.isDone] at h
  | inst i ss e => simp [Proc.isDone] at h
  | seq p fin ss e _ => simp [Proc.isDone] at h
  | par a b iha ihb =>
    simp only [Proc.isDone, Bool.and_eq_true] at h
    simp [rem, iha h.1, ihb h.2]

theorem effS_use {s : Stmt} {i : Nat} (h : stmtUse s = some i) (e : Env) (k : Key) :
    effS s e k = single (.use i) 1 k ∧ envS s e = e := by
  cases s <;> simp [stmtUse] at h <;> subst h <;> simp [effS, envS]

theorem effS_get {s : Stmt} {i : Nat} (h : stmtGet s = some i) (e : Env) (k : Key) :
    effS s e k = single (.out (some (modX i))) 1 k ∧ envS s e = e := by
  cases s <;> simp [stmtGet] at h <;> subst h <;> simp [effS, envS]

/-! ### The class invariant on what remains -/

/-- Everything that remains is in the class; `b` = we are inside a module body. -/
def okP (w : World) : Bool → Proc → Prop
  | b, .code ss _ => okL w b ss = true
  | b, .inst i ss _ => i < w.N ∧ okL w b ss = true
  | b, .seq p fin ss _ => okP w (b || fin.isSome) p ∧ okL w b ss = true ∧ (∀ i, fin = some i → i < w.N)
  | b, .par a c => okP w b a ∧ okP w b c

/-- The module bodies are in the class. -/
def BodiesOk (w : World) : Prop := ∀ i, i < w.N → okL w true (w.body i) = true

theorem okL_cons {w : World} {b : Bool} {s : Stmt} {ss : List Stmt} :
    okL w b (s :: ss) = true ↔ okS w b s = true ∧ okL w b ss = true := by
  simp [okL]

theorem okP_parN {w : World} {b : Bool} {body : List Stmt} (h : okL w b body = true) (n : Nat) (e : Env) :
    okP w b (parN n body e) := by
  induction n with
  | zero => simp [parN, okP, okL]
  | succ n ih => exact ⟨h, ih⟩

theorem okS_use {w : World} {b : Bool} {s : Stmt} {i : Nat} (h : stmtUse s = some i)
    (hk : okS w b s = true) : i < w.N := by
  cases s <;> simp [stmtUse] at h <;> subst h <;> simpa [okS] using hk

theorem okS_get {w : World} {b : Bool} {s : Stmt} {i : Nat} (h : stmtGet s = some i)
    (hk : okS w b s = true) : w.pre i = true := by
  cases s <;> simp [stmtGet] at h <;> subst h <;> simp [okS] at hk <;> exact hk.2

theorem okP_step {w : World} (hb : BodiesOk w) {acc : Acc} {p : Proc} {d : Acc} {em : List Out}
    {win : Option Nat} {p' : Proc} (h : PStep w acc p d em win p') :
    ∀ b, okP w b p → okP w b p' := by
  induction h with
  | inc | flag | out | useStr | var | del | refSome | refNone | eachZero =>
    intro b hk; simp only [okP] at hk ⊢; exact (okL_cons.1 hk).2
  | useHit s i ss e _ _ => intro b hk; simp only [okP] at hk ⊢; exact (okL_cons.1 hk).2
  | useMiss s i ss e hs _ =>
    intro b hk; simp only [okP] at hk ⊢
    exact ⟨okS_use hs (okL_cons.1 hk).1, (okL_cons.1 hk).2⟩
  | instLost i ss e _ => intro b hk; simp only [okP] at hk ⊢; exact hk.2
  | instWin i ss e _ =>
    intro b hk; simp only [okP] at hk ⊢
    refine ⟨?_, hk.2, ?_⟩
    · simpa using hb i hk.1
    · intro j hj; cases hj; exact hk.1
  | get s i ss e _ => intro b hk; simp only [okP] at hk ⊢; exact (okL_cons.1 hk).2
  | peach n body ss e =>
    intro b hk; simp only [okP] at hk ⊢
    obtain ⟨h1, h2⟩ := okL_cons.1 hk
    refine ⟨?_, h2, by simp⟩
    simp only [Option.isSome_none, Bool.or_false]
    exact okP_parN (by simpa [okS] using h1) n e
  | eachSucc n body ss e =>
    intro b hk; simp only [okP] at hk ⊢
    obtain ⟨h1, h2⟩ := okL_cons.1 hk
    have hbody : okL w b body = true := by simpa [okS] using h1
    refine ⟨by simpa using hbody, okL_cons.2 ⟨by simpa [okS] using hbody, h2⟩, by simp⟩
  | parS b1 b2 ss e =>
    intro b hk; simp only [okP] at hk ⊢
    obtain ⟨h1, h2⟩ := okL_cons.1 hk
    have h12 : okL w b b1 = true ∧ okL w b b2 = true := by simpa [okS] using h1
    exact ⟨by simpa using h12, h2, by simp⟩
  | seqIn p d em win p' fin ss e _ ih =>
    intro b hk; simp only [okP] at hk ⊢
    exact ⟨ih _ hk.1, hk.2⟩
  | seqOut p fin ss e _ => intro b hk; simp only [okP] at hk ⊢; exact hk.2.1
  | parL a d em win a' c _ ih => intro b hk; simp only [okP] at hk ⊢; exact ⟨ih _ hk.1, hk.2⟩
  | parR a c d em win c' _ ih => intro b hk; simp only [okP] at hk ⊢; exact ⟨hk.1, ih _ hk.2⟩

/-! ### The local accounting lemma -/

/-- What remained + what a newly installed module brings = what the step did +
what remains now.  (Needs the class: `$m:x` is only read from preloaded modules.) -/
theorem pstep_rem {w : World} {acc : Acc} {p : Proc} {d : Acc} {em : List Out}
    {win : Option Nat} {p' : Proc} (h : PStep w acc p d em win p') :
    ∀ b, okP w b p → ∀ k, rem p k + winEff w win k = d k + rem p' k := by
  induction h with
  | inc c k ss e => intro b _ k'; simp [rem, effL_cons, effS, envS, winEff, zero]
  | flag n ss e => intro b _ k'; simp [rem, effL_cons, effS, envS, winEff, zero]
  | out v ss e => intro b _ k'; simp [rem, effL_cons, effS, envS, winEff, zero]
  | useStr ss e => intro b _ k'; simp [rem, effL_cons, effS, envS, winEff, zero]
  | useHit s i ss e hs _ =>
    intro b _ k'; simp [rem, effL_cons, (effS_use hs e k').1, (effS_use hs e k').2, winEff, zero]
  | useMiss s i ss e hs _ =>
    intro b _ k'; simp [rem, effL_cons, (effS_use hs e k').1, (effS_use hs e k').2, winEff, zero]
  | instLost i ss e _ => intro b _ k'; simp [rem, winEff, zero]
  | instWin i ss e _ =>
    intro b _ k'
    simp only [rem, winEff, loadEff, finKey]
    omega
  | get s i ss e hs =>
    intro b hk k'
    simp only [okP] at hk
    have hpre := okS_get hs (okL_cons.1 hk).1
    have hr : ready w acc i = true := by simp [ready, hpre]
    simp [rem, effL_cons, (effS_get hs e k').1, (effS_get hs e k').2, winEff, zero, hr]
  | var n k ss e => intro b _ k'; simp [rem, effL_cons, effS, envS, winEff, zero]
  | del n ss e => intro b _ k'; simp [rem, effL_cons, effS, envS, winEff, zero]
  | refSome n v ss e hv => intro b _ k'; simp [rem, effL_cons, effS, envS, winEff, zero, hv]
  | refNone n ss e hv => intro b _ k'; simp [rem, effL_cons, effS, envS, winEff, zero, hv]
  | peach n body ss e =>
    intro b _ k'; simp [rem, effL_cons, effS, envS, winEff, zero, rem_parN, finKey]
  | eachZero body ss e => intro b _ k'; simp [rem, effL_cons, effS, envS, winEff, zero]
  | eachSucc n body ss e =>
    intro b _ k'
    simp only [rem, effL_cons, effS, envS, winEff, zero, finKey, Nat.succ_mul]
    omega
  | parS b1 b2 ss e => intro b _ k'; simp [rem, effL_cons, effS, envS, winEff, zero, finKey]
  | seqIn p d em win p' fin ss e _ ih =>
    intro b hk k'
    simp only [okP] at hk
    have := ih _ hk.1 k'
    simp only [rem]; omega
  | seqOut p fin ss e hd => intro b _ k'; simp [rem, rem_done hd, winEff, zero]
  | parL a d em win a' c _ ih =>
    intro b hk k'
    simp only [okP] at hk
    have := ih _ hk.1 k'
    simp only [rem]; omega
  | parR a c d em win c' _ ih =>
    intro b hk k'
    simp only [okP] at hk
    have := ih _ hk.2 k'
    simp only [rem]; omega

/-- The outputs of a step are what it added to the `out` counts. -/
theorem pstep_out {w : World} {acc : Acc} {p : Proc} {d : Acc} {em : List Out}
    {win : Option Nat} {p' : Proc} (h : PStep w acc p d em win p') :
    ∀ o, d (.out o) = em.count o := by
  induction h with
  | out v ss e =>
    intro o
    by_cases h : o = some v
    · simp [single, h]
    · have h' : ¬ some v = o := fun hh => h hh.symm
      simp [single, h, h']
  | get s i ss e _ =>
    intro o
    by_cases h : o = (if ready w acc i then some (modX i) else none)
    · simp [single, h]
    · have h' : ¬ ((if ready w acc i then some (modX i) else none) = o) := fun hh => h hh.symm
      simp [single, h, h']
  | refSome n v ss e _ =>
    intro o
    by_cases h : o = some v
    · simp [single, h]
    · have h' : ¬ some v = o := fun hh => h hh.symm
      simp [single, h, h']
  | seqOut p fin ss e _ => intro o; cases fin <;> simp [finKey, single, zero]
  | seqIn p d em win p' fin ss e _ ih => exact ih
  | parL a d em win a' c _ ih => exact ih
  | parR a c d em win c' _ ih => exact ih
  | _ => intro o; simp [single, zero]

/-- Only a winning installModule touches the `load` counts. -/
theorem pstep_load {w : World} {acc : Acc} {p : Proc} {d : Acc} {em : List Out}
    {win : Option Nat} {p' : Proc} (h : PStep w acc p d em win p') :
    ∀ m, d (.load m) = if win = some m then 1 else 0 := by
  induction h with
  | instWin i ss e _ =>
    intro m
    by_cases h : m = i
    · subst h; simp [single]
    · have h' : ¬ i = m := fun hh => h hh.symm
      simp [single, h, h']
  | seqOut p fin ss e _ => intro m; cases fin <;> simp [finKey, single, zero]
  | seqIn p d em win p' fin ss e _ ih => exact ih
  | parL a d em win a' c _ ih => exact ih
  | parR a c d em win c' _ ih => exact ih
  | _ => intro m; simp [single, zero]

/-- A step installs a module only when it was absent, and it was a pending `use`. -/
theorem pstep_win {w : World} {acc : Acc} {p : Proc} {d : Acc} {em : List Out}
    {i : Nat} {p' : Proc} (h : PStep w acc p d em (some i) p') :
    installed w acc i = false ∧ 1 ≤ rem p (.use i) ∧ ∀ b, okP w b p → i < w.N := by
  generalize hw : some i = win at h
  induction h with
  | instWin j ss e hj =>
    cases hw
    refine ⟨hj, by simp [rem, single], ?_⟩
    intro b hk; simp only [okP] at hk; exact hk.1
  | seqIn p d em win p' fin ss e _ ih =>
    obtain ⟨h1, h2, h3⟩ := ih hw
    refine ⟨h1, by simp only [rem]; omega, ?_⟩
    intro b hk; simp only [okP] at hk; exact h3 _ hk.1
  | parL a d em win a' c _ ih =>
    obtain ⟨h1, h2, h3⟩ := ih hw
    refine ⟨h1, by simp only [rem]; omega, ?_⟩
    intro b hk; simp only [okP] at hk; exact h3 _ hk.1
  | parR a c d em win c' _ ih =>
    obtain ⟨h1, h2, h3⟩ := ih hw
    refine ⟨h1, by simp only [rem]; omega, ?_⟩
    intro b hk; simp only [okP] at hk; exact h3 _ hk.2
  | _ => cases hw

/-- A `use` statement completes only when its module is installed (afterwards). -/
theorem pstep_use {w : World} {acc : Acc} {p : Proc} {d : Acc} {em : List Out}
    {win : Option Nat} {p' : Proc} (h : PStep w acc p d em win p') :
    ∀ i, 0 < d (.use i) → installed w (fun k => acc k + d k) i = true := by
  induction h with
  | useHit s i ss e _ hi =>
    intro j hj
    have : j = i := by
      by_cases hji : j = i
      · exact hji
      · simp [single, hji] at hj
    subst this
    simp only [installed, Bool.or_eq_true, bne_iff_ne, ne_eq] at hi ⊢
    rcases hi with hi | hi
    · exact Or.inl hi
    · right; simp [single]; exact hi
  | instLost i ss e hi =>
    intro j hj
    have : j = i := by
      by_cases hji : j = i
      · exact hji
      · simp [single, hji] at hj
    subst this
    simp only [installed, Bool.or_eq_true, bne_iff_ne, ne_eq] at hi ⊢
    rcases hi with hi | hi
    · exact Or.inl hi
    · right; simp [single]; exact hi
  | instWin i ss e hi =>
    intro j hj
    have : j = i := by
      by_cases hji : j = i
      · exact hji
      · simp [single, hji] at hj
    subst this
    simp [installed, single]
  | seqIn p d em win p' fin ss e _ ih => exact ih
  | parL a d em win a' c _ ih => exact ih
  | parR a c d em win c' _ ih => exact ih
  | seqOut p fin ss e _ => intro j hj; cases fin <;> simp [finKey, single, zero] at hj
  | get s i ss e _ => intro j hj; simp [single] at hj
  | _ => intro j hj; simp [single, zero] at hj

/-- A step never decreases a count. -/
theorem installed_mono {w : World} {acc d : Acc} {i : Nat} (h : installed w acc i = true) :
    installed w (fun k => acc k + d k) i = true := by
  simp only [installed, Bool.or_eq_true, bne_iff_ne, ne_eq] at h ⊢
  rcases h with h | h
  · exact Or.inl h
  · right; omega

/-- The goroutine's variables after the chunk do not depend on the interleaving. -/
theorem pstep_finalEnv {w : World} {acc : Acc} {p : Proc} {d : Acc} {em : List Out}
    {win : Option Nat} {p' : Proc} (h : PStep w acc p d em win p') : finalEnv p' = finalEnv p := by
  cases h with
  | useHit s i ss e hs _ => simp only [finalEnv, List.foldl_cons, (effS_use hs e (.use 0)).2]
  | useMiss s i ss e hs _ => simp only [finalEnv, List.foldl_cons, (effS_use hs e (.use 0)).2]
  | get s i ss e hs => simp only [finalEnv, List.foldl_cons, (effS_get hs e (.use 0)).2]
  | _ => simp [finalEnv, envS]

end C39.Conc
