import ElvProofs.C39.ConcInv
/-!
C39 helper (round 2): the executable sequential run (`serialRun`) is a
sequential execution of the concurrent semantics, sequential executions are
executions, and what equal views mean for the results.
-/
namespace C39.Conc
open C39

/-! ### The deterministic scheduler takes steps of the semantics -/

theorem pnext_sound {w : World} {acc : Acc} {p : Proc} :
    (∀ d em win p', pnext w acc p = some (d, em, win, p') → PStep w acc p d em win p') ∧
    (pnext w acc p = none → p.isDone = true) := by
  induction p with
  | code ss e =>
    cases ss with
    | nil => exact ⟨by intro d em win p' h; simp [pnext] at h, fun _ => rfl⟩
    | cons s ss =>
      refine ⟨?_, ?_⟩
      · intro d em win p' h
        cases s with
        | inc c k => simp only [pnext, Option.some.injEq, Prod.mk.injEq] at h; obtain ⟨rfl, rfl, rfl, rfl⟩ := h; exact .inc ..
        | flag n => simp only [pnext, Option.some.injEq, Prod.mk.injEq] at h; obtain ⟨rfl, rfl, rfl, rfl⟩ := h; exact .flag ..
        | out v => simp only [pnext, Option.some.injEq, Prod.mk.injEq] at h; obtain ⟨rfl, rfl, rfl, rfl⟩ := h; exact .out ..
        | useStr => simp only [pnext, Option.some.injEq, Prod.mk.injEq] at h; obtain ⟨rfl, rfl, rfl, rfl⟩ := h; exact .useStr ..
        | useF m =>
          simp only [pnext] at h
          split at h
          · simp only [Option.some.injEq, Prod.mk.injEq] at h; obtain ⟨rfl, rfl, rfl, rfl⟩ := h
            exact .useHit _ m _ _ rfl (by assumption)
          · simp only [Option.some.injEq, Prod.mk.injEq] at h; obtain ⟨rfl, rfl, rfl, rfl⟩ := h
            exact .useMiss _ m _ _ rfl (Bool.eq_false_iff.mpr ‹_›)
        | useB m =>
          simp only [pnext] at h
          split at h
          · simp only [Option.some.injEq, Prod.mk.injEq] at h; obtain ⟨rfl, rfl, rfl, rfl⟩ := h
            exact .useHit _ (nFileMods + m) _ _ rfl (by assumption)
          · simp only [Option.some.injEq, Prod.mk.injEq] at h; obtain ⟨rfl, rfl, rfl, rfl⟩ := h
            exact .useMiss _ (nFileMods + m) _ _ rfl (Bool.eq_false_iff.mpr ‹_›)
        | getF m => simp only [pnext, Option.some.injEq, Prod.mk.injEq] at h; obtain ⟨rfl, rfl, rfl, rfl⟩ := h; exact .get _ m _ _ rfl
        | getB m => simp only [pnext, Option.some.injEq, Prod.mk.injEq] at h; obtain ⟨rfl, rfl, rfl, rfl⟩ := h; exact .get _ (nFileMods + m) _ _ rfl
        | var n k => simp only [pnext, Option.some.injEq, Prod.mk.injEq] at h; obtain ⟨rfl, rfl, rfl, rfl⟩ := h; exact .var ..
        | del n => simp only [pnext, Option.some.injEq, Prod.mk.injEq] at h; obtain ⟨rfl, rfl, rfl, rfl⟩ := h; exact .del ..
        | ref n =>
          simp only [pnext] at h
          split at h
          · simp only [Option.some.injEq, Prod.mk.injEq] at h; obtain ⟨rfl, rfl, rfl, rfl⟩ := h
            exact .refSome _ _ _ _ (by assumption)
          · simp only [Option.some.injEq, Prod.mk.injEq] at h; obtain ⟨rfl, rfl, rfl, rfl⟩ := h
            exact .refNone _ _ _ (by assumption)
        | peach n body => simp only [pnext, Option.some.injEq, Prod.mk.injEq] at h; obtain ⟨rfl, rfl, rfl, rfl⟩ := h; exact .peach ..
        | each n body =>
          cases n with
          | zero => simp only [pnext, Option.some.injEq, Prod.mk.injEq] at h; obtain ⟨rfl, rfl, rfl, rfl⟩ := h; exact .eachZero ..
          | succ n => simp only [pnext, Option.some.injEq, Prod.mk.injEq] at h; obtain ⟨rfl, rfl, rfl, rfl⟩ := h; exact .eachSucc ..
        | par b1 b2 => simp only [pnext, Option.some.injEq, Prod.mk.injEq] at h; obtain ⟨rfl, rfl, rfl, rfl⟩ := h; exact .parS ..
      · intro h
        exfalso
        cases s with
        | useF m => simp only [pnext] at h; split at h <;> cases h
        | useB m => simp only [pnext] at h; split at h <;> cases h
        | ref n => simp only [pnext] at h; split at h <;> cases h
        | each n body => cases n <;> simp [pnext] at h
        | _ => simp [pnext] at h
  | inst i ss e =>
    refine ⟨?_, ?_⟩
    · intro d em win p' h
      simp only [pnext] at h
      split at h
      · simp only [Option.some.injEq, Prod.mk.injEq] at h; obtain ⟨rfl, rfl, rfl, rfl⟩ := h
        exact .instLost _ _ _ (by assumption)
      · simp only [Option.some.injEq, Prod.mk.injEq] at h; obtain ⟨rfl, rfl, rfl, rfl⟩ := h
        exact .instWin _ _ _ (Bool.eq_false_iff.mpr ‹_›)
    · intro h; simp only [pnext] at h; split at h <;> cases h
  | seq p fin ss e ih =>
    refine ⟨?_, ?_⟩
    · intro d em win p' h
      simp only [pnext] at h
      split at h
      · rename_i d1 em1 win1 p1 hp
        simp only [Option.some.injEq, Prod.mk.injEq] at h; obtain ⟨rfl, rfl, rfl, rfl⟩ := h
        exact .seqIn _ _ _ _ _ _ _ _ (ih.1 _ _ _ _ hp)
      · rename_i hp
        simp only [Option.some.injEq, Prod.mk.injEq] at h; obtain ⟨rfl, rfl, rfl, rfl⟩ := h
        exact .seqOut _ _ _ _ (ih.2 hp)
    · intro h; simp only [pnext] at h; split at h <;> cases h
  | par a b iha ihb =>
    refine ⟨?_, ?_⟩
    · intro d em win p' h
      simp only [pnext] at h
      split at h
      · rename_i d1 em1 win1 p1 hp
        simp only [Option.some.injEq, Prod.mk.injEq] at h; obtain ⟨rfl, rfl, rfl, rfl⟩ := h
        exact .parL _ _ _ _ _ _ (iha.1 _ _ _ _ hp)
      · split at h
        · rename_i d1 em1 win1 p1 hp
          simp only [Option.some.injEq, Prod.mk.injEq] at h; obtain ⟨rfl, rfl, rfl, rfl⟩ := h
          exact .parR _ _ _ _ _ _ (ihb.1 _ _ _ _ hp)
        · cases h
    · intro h
      simp only [pnext] at h
      split at h
      · cases h
      · rename_i ha
        split at h
        · cases h
        · rename_i hb'
          simp [Proc.isDone, iha.2 ha, ihb.2 hb']

/-! ### Executions compose; sequential executions are executions -/

theorem Exec.trans {w : World} {a b c : Cfg} (h1 : Exec w a b) (h2 : Exec w b c) : Exec w a c := by
  induction h2 with
  | refl => exact h1
  | step c' c'' _ hs ih => exact .step _ _ _ ih hs

theorem exec_of_runTo {w : World} {acc acc' : Acc} {g g' : GState} (h : RunTo w acc g acc' g')
    (l1 l2 : List GState) : Exec w ⟨acc, l1 ++ g :: l2⟩ ⟨acc', l1 ++ g' :: l2⟩ := by
  induction h with
  | one acc' g' hs => exact .step _ _ _ (.refl _) (.mk _ _ _ _ _ _ hs)
  | more acc' g' acc'' g'' _ hs ih => exact .step _ _ _ ih (.mk _ _ _ _ _ _ hs)

theorem exec_of_seqStep {w : World} {c c' : Cfg} (h : SeqStep w c c') : Exec w c c' := by
  cases h with
  | mk acc acc' l1 g g' l2 _ _ _ _ hr => exact exec_of_runTo hr l1 l2

theorem exec_of_seqExec {w : World} {c c' : Cfg} (h : SeqExec w c c') : Exec w c c' := by
  induction h with
  | refl => exact .refl _
  | step c' c'' _ hs ih => exact ih.trans (exec_of_seqStep hs)

theorem SeqExec.trans {w : World} {a b c : Cfg} (h1 : SeqExec w a b) (h2 : SeqExec w b c) : SeqExec w a c := by
  induction h2 with
  | refl => exact h1
  | step c' c'' _ hs ih => exact .step _ _ _ ih hs

/-! ### The executable sequential run is a sequential execution -/

/-- Running the evaluation in progress to its end. -/
theorem runProc_sound {w : World} : ∀ (f : Nat) (acc : Acc) (p : Proc) (outs : List Out) (acc' : Acc) (p' : Proc)
    (outs' : List Out), runProc w f acc p outs = some (acc', p', outs') →
    ∀ (g0 : GState) (c : Cur) (acc0 : Acc) (g : GState), g.cur = some { c with proc := p } → g.outs = outs →
      RunTo w acc0 g0 acc g →
      p'.isDone = true ∧
      RunTo w acc0 g0 acc' { g with cur := some { c with proc := p' }, outs := outs' } := by
  intro f
  induction f with
  | zero => intro acc p outs acc' p' outs' h; simp [runProc] at h
  | succ f ih =>
    intro acc p outs acc' p' outs' h g0 c acc0 g hc ho hr
    simp only [runProc] at h
    split at h
    · rename_i hn
      simp only [Option.some.injEq, Prod.mk.injEq] at h
      obtain ⟨rfl, rfl, rfl⟩ := h
      refine ⟨pnext_sound.2 hn, ?_⟩
      have : ({ g with cur := some { c with proc := p }, outs := outs } : GState) = g := by
        cases g; simp_all
      rw [this]; exact hr
    · rename_i d em win p1 hn
      have hs := pnext_sound.1 _ _ _ _ hn
      have hstep : GStep w acc g (fun k => acc k + d k)
          { g with cur := some { ({ c with proc := p } : Cur) with proc := p1 }, outs := g.outs ++ em } :=
        GStep.run acc g { c with proc := p } d em win p1 hc hs
      have := ih _ _ _ _ _ _ h g0 c acc0
        { g with cur := some { c with proc := p1 }, outs := g.outs ++ em } rfl (by simp [ho])
        (.more _ _ _ _ _ _ hr hstep)
      simpa using this

theorem runActions_sound {w : World} (fuel : Nat) : ∀ (as : List Action) (acc : Acc) (g : GState) (acc' : Acc) (g' : GState),
    runActions w fuel as acc g = some (acc', g') → g.cur = none → g.todo = as →
    ∀ l1 l2 : List GState, (∀ h ∈ l1 ++ l2, h.cur = none) →
      SeqExec w ⟨acc, l1 ++ g :: l2⟩ ⟨acc', l1 ++ g' :: l2⟩ ∧ g'.cur = none ∧ g'.todo = [] := by
  intro as
  induction as with
  | nil =>
    intro acc g acc' g' h hc ht l1 l2 _
    simp only [runActions, Option.some.injEq, Prod.mk.injEq] at h
    obtain ⟨rfl, rfl⟩ := h
    exact ⟨.refl _, hc, ht⟩
  | cons a as ih =>
    intro acc g acc' g' h hc ht l1 l2 hq
    simp only [runActions] at h
    split at h
    · cases h
    · rename_i acc1 p1 outs1 hrp
      -- start
      have hstart : GStep w acc g acc { g with cur := some (startOf a g.env), outs := [], todo := as } :=
        GStep.start acc g a as hc ht
      have hrun := runProc_sound _ _ _ _ _ _ _ hrp g (startOf a g.env) acc
        { g with cur := some (startOf a g.env), outs := [], todo := as } rfl rfl (.one _ _ _ _ hstart)
      obtain ⟨hdone, hrt⟩ := hrun
      -- finish
      let gmid : GState := { g with cur := some { startOf a g.env with proc := p1 }, outs := outs1, todo := as }
      have hfin : GStep w acc1 gmid acc1
          { env := ({ startOf a g.env with proc := p1 } : Cur).nextEnv, cur := none, outs := [],
            results := gmid.results ++ [⟨({ startOf a g.env with proc := p1 } : Cur).ok, gmid.outs⟩], todo := gmid.todo } :=
        GStep.finish acc1 gmid { startOf a g.env with proc := p1 } rfl hdone
      have hrt2 := RunTo.more _ _ _ _ _ _ hrt hfin
      have hseq : SeqStep w ⟨acc, l1 ++ g :: l2⟩ ⟨acc1, l1 ++ _ :: l2⟩ :=
        SeqStep.mk acc acc1 l1 g _ l2 hq hc rfl (by simp [gmid]) hrt2
      obtain ⟨h1, h2, h3⟩ := ih _ _ _ _ h rfl rfl l1 l2 hq
      exact ⟨(SeqExec.step _ _ _ (.refl _) hseq).trans h1, h2, h3⟩

theorem runGoroutines_sound {w : World} (fuel : Nat) : ∀ (rest : List GState) (acc : Acc) (done : List GState) (c : Cfg),
    runGoroutines w fuel rest acc done = some c →
    (∀ g ∈ rest, g.cur = none) → (∀ g ∈ done, g.cur = none ∧ g.todo = []) →
    SeqExec w ⟨acc, done ++ rest⟩ c ∧ c.terminal := by
  intro rest
  induction rest with
  | nil =>
    intro acc done c h _ hd
    simp only [runGoroutines, Option.some.injEq] at h
    subst h
    simp only [List.append_nil]
    exact ⟨.refl _, hd⟩
  | cons g rest ih =>
    intro acc done c h hr hd
    simp only [runGoroutines] at h
    split at h
    · cases h
    · rename_i acc1 g1 hra
      have hq : ∀ h ∈ done ++ rest, h.cur = none := by
        intro h hh
        simp only [List.mem_append] at hh
        rcases hh with hh | hh
        · exact (hd h hh).1
        · exact hr h (by simp [hh])
      obtain ⟨s1, s2, s3⟩ := runActions_sound fuel _ _ _ _ _ hra (hr g (by simp)) rfl done rest hq
      have := ih acc1 (done ++ [g1]) c h (fun g' hg' => hr g' (by simp [hg'])) (by
        intro g' hg'
        simp only [List.mem_append, List.mem_singleton] at hg'
        rcases hg' with hg' | rfl
        · exact hd g' hg'
        · exact ⟨s2, s3⟩)
      simp only [List.append_assoc, List.singleton_append] at this
      exact ⟨s1.trans this.1, this.2⟩

theorem serialRun_sound {w : World} {fuel : Nat} {acc : Acc} {prog : List (List Action)} {c : Cfg}
    (h : serialRun w fuel acc prog = some c) : SeqExec w (Cfg.init acc prog) c ∧ c.terminal := by
  have := runGoroutines_sound fuel _ _ [] c h (by
    intro g hg
    simp only [List.mem_map] at hg
    obtain ⟨as, _, rfl⟩ := hg
    rfl) (by intro g hg; cases hg)
  simpa [Cfg.init] using this

/-! ### The executable scheduler takes steps of the semantics -/

theorem gnext_sound {w : World} {acc acc' : Acc} {g g' : GState} (h : gnext w acc g = some (acc', g')) :
    GStep w acc g acc' g' := by
  unfold gnext at h
  split at h
  · rename_i hc
    split at h
    · cases h
    · rename_i a as ht
      simp only [Option.some.injEq, Prod.mk.injEq] at h
      obtain ⟨rfl, rfl⟩ := h
      exact .start acc g a as hc ht
  · rename_i c hc
    split at h
    · rename_i d em win p' hn
      simp only [Option.some.injEq, Prod.mk.injEq] at h
      obtain ⟨rfl, rfl⟩ := h
      exact .run acc g c d em win p' hc (pnext_sound.1 _ _ _ _ hn)
    · rename_i hn
      simp only [Option.some.injEq, Prod.mk.injEq] at h
      obtain ⟨rfl, rfl⟩ := h
      exact .finish acc g c hc (pnext_sound.2 hn)

theorem stepAt_sound {w : World} {c c' : Cfg} {j : Nat} (h : stepAt w c j = some c') : CStep w c c' := by
  unfold stepAt at h
  split at h
  · cases h
  · rename_i g l2 hd
    split at h
    · cases h
    · rename_i acc' g' hg
      simp only [Option.some.injEq] at h
      subst h
      cases c with
      | mk acc gs =>
        have hgs : gs = gs.take j ++ g :: l2 := by
          simp only at hd; rw [← hd, List.take_append_drop]
        have := CStep.mk acc acc' (gs.take j) g g' l2 (gnext_sound hg)
        rw [← hgs] at this
        exact this

theorem runSched_sound {w : World} : ∀ (js : List Nat) (c : Cfg), Exec w c (runSched w js c)
  | [], c => .refl _
  | j :: js, c => by
    simp only [runSched]
    split
    · rename_i c' hs
      exact (Exec.step _ _ _ (.refl _) (stepAt_sound hs)).trans (runSched_sound js c')
    · exact runSched_sound js c

theorem terminal_of_isTerminal {c : Cfg} (h : c.isTerminal = true) : c.terminal := by
  intro g hg
  simp only [Cfg.isTerminal, List.all_eq_true] at h
  have := h g hg
  simp only [Bool.and_eq_true, Option.isNone_iff_eq_none, List.isEmpty_iff] at this
  exact this

/-! ### The class predicate gives the invariants' premises -/

theorem inClass_spec {w : World} {prog : List (List Action)} (h : inClass w prog = true) (acc : Acc) :
    BodiesOk w ∧ ∀ g ∈ (Cfg.init acc prog).gs, okG w g := by
  simp only [inClass, Bool.and_eq_true, List.all_eq_true] at h
  refine ⟨fun i hi => h.1 i (by simp [hi]), ?_⟩
  intro g hg
  simp only [Cfg.init, List.mem_map] at hg
  obtain ⟨as, has, rfl⟩ := hg
  refine ⟨(by intro c hc; cases hc), ?_⟩
  simp only [GState.init, List.all_eq_true]
  exact h.2 as has

/-! ### Results -/

theorem forall2_of_map_eq {α β : Type} (f : α → β) : ∀ (l1 l2 : List α), l1.map f = l2.map f →
    Forall2 (fun a b => f a = f b) l1 l2
  | [], [], _ => .nil
  | [], _ :: _, h => by simp at h
  | _ :: _, [], h => by simp at h
  | a :: l1, b :: l2, h => by
    simp only [List.map_cons, List.cons.injEq] at h
    exact .cons h.1 (forall2_of_map_eq f l1 l2 h.2)

theorem forall2_imp {α β : Type} {R S : α → β → Prop} (h : ∀ a b, R a b → S a b) :
    ∀ {l1 : List α} {l2 : List β}, Forall2 R l1 l2 → Forall2 S l1 l2
  | _, _, .nil => .nil
  | _, _, .cons h1 h2 => .cons (h _ _ h1) (forall2_imp h h2)

theorem view_terminal {g : GState} (h : g.cur = none ∧ g.todo = []) :
    view g = g.results.map (fun r => (r.ok, fun o => r.outs.count o)) := by
  simp [view, h.1, h.2, resActions]

theorem sameResults_of_views {cA cB : Cfg} (tA : cA.terminal) (tB : cB.terminal)
    (h : cA.gs.map view = cB.gs.map view) : SameResults cA cB := by
  unfold SameResults
  have := forall2_of_map_eq view _ _ h
  -- restrict to members so that terminality can be used
  have key : ∀ (lA lB : List GState), (∀ g ∈ lA, g.cur = none ∧ g.todo = []) → (∀ g ∈ lB, g.cur = none ∧ g.todo = []) →
      Forall2 (fun a b => view a = view b) lA lB →
      Forall2 (fun gA gB : GState =>
        Forall2 (fun rA rB : Result => rA.ok = rB.ok ∧ rA.outs.Perm rB.outs) gA.results gB.results) lA lB := by
    intro lA lB hA hB hf
    induction hf with
    | nil => exact .nil
    | @cons a b la lb hab _ ih =>
      refine .cons ?_ (ih (fun g hg => hA g (by simp [hg])) (fun g hg => hB g (by simp [hg])))
      rw [view_terminal (hA a (by simp)), view_terminal (hB b (by simp))] at hab
      have := forall2_of_map_eq _ _ _ hab
      refine forall2_imp ?_ this
      intro rA rB hr
      simp only [Prod.mk.injEq] at hr
      refine ⟨hr.1, ?_⟩
      rw [List.perm_iff_count]
      intro o
      exact congrFun hr.2 o
  exact key _ _ tA tB this

end C39.Conc
