import ElvProofs.C39.ConcSerial
import ElvProofs.C39.Cta
/-!
C39 (round 2): concrete programs and schedules for the non-vacuity examples and
for the counterexample outside the class.
-/
namespace C39.Conc.Witness
open C39 C39.Conc

/-- In the class: circular imports from two goroutines, counters, a flag,
`peach`, a second action in goroutine 1. -/
def prog : List (List Action) :=
  [[.eval [.useF 2, .inc 0 1, .peach 2 [.inc 1 1, .out 7]]],
   [.eval [.useF 3, .flag 1, .out 9], .call 0 5]]

/-- A round-robin schedule (long enough for both goroutines to finish). -/
def roundRobin : Nat → List Nat
  | 0 => []
  | n + 1 => 0 :: 1 :: roundRobin n

def init : Cfg := Cfg.init zero prog

/-- Outside the class: both goroutines import m0 and read `$m0:x`. -/
def partialProg : List (List Action) :=
  [[.eval [.useF 0, .getF 0]], [.eval [.useF 0, .getF 0]]]

/-- Goroutine 0 installs m0 and is about to run its body; goroutine 1 then
finds the module installed, reads `$m0:x` and returns. -/
def partialSched : List Nat := [0, 0, 0, 1, 1, 1, 1]

theorem fresh_zero : Fresh zero := fun _ => ⟨rfl, rfl, rfl⟩

end C39.Conc.Witness

namespace C39.Cta.Witness
open C39 C39.Cta

/-- The check-then-act table of `Evaler.modules` as extracted from the tree
with fixes/C39-modules-map-lock.patch. -/
def fixedTbl : List CtaSite :=
  [⟨"eval.go:Evaler.AddModule:213", false, true, true, 1, none, false, false⟩,
   ⟨"eval.go:Evaler.installModule:233", false, true, true, 1, some ("eval.go:Evaler.installModule:230", true, 1), true, false⟩,
   ⟨"eval.go:Evaler.uninstallModule:242", true, true, true, 1, some ("eval.go:Evaler.uninstallModule:241", true, 1), true, false⟩,
   ⟨"eval.go:NewEvaler:139", false, true, false, 0, none, false, true⟩]

/-- … and from the tree with the seeded change
seeded/C39-installmodule-check-then-insert (installModule = loadedModule, then AddModule). -/
def seededTbl : List CtaSite :=
  [⟨"eval.go:Evaler.installModule:231(via AddModule)", false, false, false, 0,
      some ("eval.go:Evaler.installModule:228(via loadedModule)", false, 0), true, false⟩,
   ⟨"eval.go:Evaler.AddModule:213", false, true, true, 1, none, true, false⟩,
   ⟨"eval.go:Evaler.uninstallModule:240", true, true, true, 1, some ("eval.go:Evaler.uninstallModule:239", true, 1), true, false⟩,
   ⟨"eval.go:NewEvaler:139", false, true, false, 0, none, false, true⟩]

/-- Two goroutines call the fixed installModule: the first inserts, the second finds the entry. -/
def goodTrace : List Ev :=
  [.lock 0, .look 0 "eval.go:Evaler.installModule:230" false, .ins 0 "eval.go:Evaler.installModule:233", .unlock 0,
   .lock 1, .look 1 "eval.go:Evaler.installModule:230" true, .unlock 1]

/-- The second goroutine cannot insert after having found the entry. -/
def badTrace : List Ev :=
  [.lock 0, .look 0 "eval.go:Evaler.installModule:230" false, .ins 0 "eval.go:Evaler.installModule:233", .unlock 0,
   .lock 1, .look 1 "eval.go:Evaler.installModule:230" true, .ins 1 "eval.go:Evaler.installModule:233"]

/-- The seeded change: both goroutines look the key up (in loadedModule's
critical section), both find nothing, both insert (in AddModule's). -/
def splitTrace : List Ev :=
  [.lock 0, .look 0 "eval.go:Evaler.loadedModule:220" false, .unlock 0,
   .lock 1, .look 1 "eval.go:Evaler.loadedModule:220" false, .unlock 1,
   .lock 0, .ins 0 "eval.go:Evaler.AddModule:213", .unlock 0,
   .lock 1, .ins 1 "eval.go:Evaler.AddModule:213", .unlock 1]

end C39.Cta.Witness
