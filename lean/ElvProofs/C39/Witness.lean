import ElvProofs.C39.Sound
import ElvModel.C39.Programs
/-!
Concrete witnesses for C39: tables shaped like the extracted ones (mutex 0 =
Evaler.mu, variable 0 = the shared variable in question), a well-formed trace
that conforms to the fixed table, and a well-formed racy trace that conforms to
the unfixed ones.
-/
namespace C39.Witness
open C39

/-- `Evaler.modules` with the fix: written in NewEvaler (construction), by
AddModule / installModule / uninstallModule under Lock, read by loadedModule and
CheckTree under RLock. -/
def fixedTbl : List (Site Nat Nat) := [
  { var := 0, write := true, held := [], init := true, name := "eval.go:NewEvaler" },
  { var := 0, write := true, held := [(0, true)], init := false, name := "eval.go:Evaler.AddModule" },
  { var := 0, write := false, held := [(0, false)], init := false, name := "eval.go:Evaler.loadedModule" },
  { var := 0, write := false, held := [(0, true)], init := false, name := "eval.go:Evaler.installModule" },
  { var := 0, write := true, held := [(0, true)], init := false, name := "eval.go:Evaler.installModule" },
  { var := 0, write := false, held := [(0, false)], init := false, name := "eval.go:Evaler.CheckTree" }]

/-- `Evaler.modules` as extracted from the unchanged tree. -/
def unfixedTbl : List (Site Nat Nat) := [
  { var := 0, write := false, held := [], init := false, name := "builtin_special.go:use:431" },
  { var := 0, write := false, held := [], init := false, name := "builtin_special.go:useFromFile:457" },
  { var := 0, write := true, held := [], init := false, name := "builtin_special.go:useFromFile:487" },
  { var := 0, write := true, held := [], init := false, name := "builtin_special.go:evalModule:510" },
  { var := 0, write := true, held := [], init := false, name := "builtin_special.go:evalModule:514(delete)" },
  { var := 0, write := true, held := [], init := true, name := "eval.go:NewEvaler:106(composite literal)" },
  { var := 0, write := true, held := [], init := true, name := "eval.go:NewEvaler:139" },
  { var := 0, write := true, held := [(0, true)], init := false, name := "eval.go:Evaler.AddModule:213" },
  { var := 0, write := false, held := [(0, false)], init := false, name := "eval.go:Evaler.CheckTree:424" },
  { var := 0, write := false, held := [], init := false, name := "eval.go:Evaler.CheckTree:426(alias m)" }]

/-- `Ns.slots` (abridged): construction writes, lock-free reads, and the write of `del`. -/
def slotsTbl : List (Site Nat Nat) := [
  { var := 0, write := true, held := [], init := false, name := "builtin_special.go:delLocalVarOp.exec:270" },
  { var := 0, write := true, held := [], init := true, name := "compiler.go:nsOp.prepare:69" },
  { var := 0, write := false, held := [], init := false, name := "compiler.go:nsOp.prepare:66" },
  { var := 0, write := false, held := [], init := false, name := "var_ref.go:derefBase:142" }]

/-- Goroutine 0 constructs (writes x), starts 1 and 2; 1 writes x under Lock,
2 reads x under RLock. -/
def lockedTrace : Trace Nat Nat := [
  ⟨0, .wr 0⟩, ⟨0, .fork 1⟩, ⟨0, .fork 2⟩,
  ⟨1, .acq 0⟩, ⟨1, .wr 0⟩, ⟨1, .rel 0⟩,
  ⟨2, .racq 0⟩, ⟨2, .rd 0⟩, ⟨2, .rrel 0⟩]

/-- Two goroutines write x with no lock (two `evalModule`s installing a module). -/
def racyTrace : Trace Nat Nat := [⟨0, .fork 1⟩, ⟨0, .fork 2⟩, ⟨1, .wr 0⟩, ⟨2, .wr 0⟩]

theorem wf_of_bounded {tr : Trace Nat Nat}
    (h : ∀ i (hi : i < tr.length), enabled (stateAt tr i) tr[i]) : WF tr := by
  intro i s hs
  obtain ⟨hi, rfl⟩ := List.getElem?_eq_some_iff.1 hs
  exact h i hi

theorem lockedTrace_wf : WF lockedTrace := wf_of_bounded (by decide)
theorem racyTrace_wf : WF racyTrace := wf_of_bounded (by decide)

theorem lockedTrace_wffork : WFfork lockedTrace := by
  intro j t ht ht0
  match j, ht with
  | 0, ht | 1, ht | 2, ht => simp [lockedTrace] at ht; subst ht; simp at ht0
  | 3, ht | 4, ht | 5, ht => simp [lockedTrace] at ht; subst ht; exact ⟨1, 0, by omega, rfl⟩
  | 6, ht | 7, ht | 8, ht => simp [lockedTrace] at ht; subst ht; exact ⟨2, 0, by omega, rfl⟩
  | n + 9, ht => simp [lockedTrace] at ht

theorem racyTrace_wffork : WFfork racyTrace := by
  intro j t ht ht0
  match j, ht with
  | 0, ht | 1, ht => simp [racyTrace] at ht; subst ht; simp at ht0
  | 2, ht => simp [racyTrace] at ht; subst ht; exact ⟨0, 0, by omega, rfl⟩
  | 3, ht => simp [racyTrace] at ht; subst ht; exact ⟨1, 0, by omega, rfl⟩
  | n + 4, ht => simp [racyTrace] at ht

theorem lockedTrace_conforms : Conforms lockedTrace fixedTbl := by
  intro i s x hs hacc
  match i, hs with
  | 0, hs =>
    simp [lockedTrace] at hs; subst hs
    have hx : x = 0 := by rcases hacc with h | h <;> cases h; rfl
    subst hx
    refine ⟨fixedTbl[0], List.getElem_mem _, rfl, rfl, ?_, by intro h; cases h⟩
    intro _
    exact ⟨⟨_, rfl, rfl⟩, by intro k s hk; omega⟩
  | 4, hs =>
    simp [lockedTrace] at hs; subst hs
    have hx : x = 0 := by rcases hacc with h | h <;> cases h; rfl
    subst hx
    refine ⟨fixedTbl[1], List.getElem_mem _, rfl, rfl, (by intro h; cases h), ?_⟩
    intro _ p hp
    have : p = (0, true) := by simpa [fixedTbl] using hp
    subst this
    exact ⟨fun _ => (by decide), (by decide)⟩
  | 7, hs =>
    simp [lockedTrace] at hs; subst hs
    have hx : x = 0 := by rcases hacc with h | h <;> cases h; rfl
    subst hx
    refine ⟨fixedTbl[2], List.getElem_mem _, rfl, rfl, (by intro h; cases h), ?_⟩
    intro _ p hp
    have : p = (0, false) := by simpa [fixedTbl] using hp
    subst this
    exact ⟨fun h => (by cases h), (by decide)⟩
  | 1, hs | 2, hs | 3, hs | 5, hs | 6, hs | 8, hs =>
    simp [lockedTrace] at hs; subst hs
    rcases hacc with h | h <;> cases h
  | n + 9, hs => simp [lockedTrace] at hs

theorem racyTrace_conforms_gen (tbl : List (Site Nat Nat)) (site : Site Nat Nat)
    (hm : site ∈ tbl) (hv : site.var = 0) (hw : site.write = true) (hi : site.init = false)
    (hh : site.held = []) : Conforms racyTrace tbl := by
  intro i s x hs hacc
  match i, hs with
  | 2, hs | 3, hs =>
    simp [racyTrace] at hs; subst hs
    have hx : x = 0 := by rcases hacc with h | h <;> cases h; rfl
    subst hx
    refine ⟨site, hm, hv, (by simpa [Ev.isWrite] using hw), (by intro h; rw [hi] at h; cases h), ?_⟩
    intro _ p hp
    rw [hh] at hp; cases hp
  | 0, hs | 1, hs =>
    simp [racyTrace] at hs; subst hs
    rcases hacc with h | h <;> cases h
  | n + 4, hs => simp [racyTrace] at hs

theorem racyTrace_conforms : Conforms racyTrace unfixedTbl :=
  racyTrace_conforms_gen unfixedTbl unfixedTbl[3] (List.getElem_mem _) rfl rfl rfl rfl

theorem racyTrace_conforms_slots : Conforms racyTrace slotsTbl :=
  racyTrace_conforms_gen slotsTbl slotsTbl[0] (List.getElem_mem _) rfl rfl rfl rfl

/-- Nothing happens-after position 2 of the racy trace. -/
theorem racyTrace_no_edge_from_2 {i j : Nat} (h : HB racyTrace i j) : i ≠ 2 := by
  induction h with
  | @po i j s t hij hs ht htid =>
    rintro rfl
    simp [racyTrace] at hs; subst hs
    match j, ht, hij with
    | 3, ht, _ => simp [racyTrace] at ht; subst ht; simp at htid
    | n + 4, ht, _ => simp [racyTrace] at ht
  | unlockLock _ hs _ => rintro rfl; simp [racyTrace] at hs
  | unlockRLock _ hs _ => rintro rfl; simp [racyTrace] at hs
  | runlockLock _ hs _ => rintro rfl; simp [racyTrace] at hs
  | forkE _ hs _ => rintro rfl; simp [racyTrace] at hs
  | @joinE i j a g e hij hs ht =>
    rintro rfl
    match j, ht, hij with
    | 3, ht, _ => simp [racyTrace] at ht
    | n + 4, ht, _ => simp [racyTrace] at ht
  | trans _ _ ih _ => exact ih

theorem racyTrace_race : Race racyTrace 0 :=
  ⟨2, 3, ⟨1, .wr 0⟩, ⟨2, .wr 0⟩, by omega, rfl, rfl, by decide, Or.inr rfl, Or.inr rfl, Or.inl rfl,
    fun h => racyTrace_no_edge_from_2 h rfl⟩

/-- Two goroutines; the second runs two evaluations. -/
def prog : List (List Action) :=
  [[.eval [.inc 0 1, .useF 1]], [.eval [.inc 0 2, .flag 1], .call 0 3]]

end C39.Witness
